(* C17 - lemmas about Model/Config.v against Spec/ConfigSpec.v *)
From Coq Require Import List NArith Bool Lia ZifyN ZifyNat ZifyBool Btauto.
From LH Require Import Base.Bytes Base.Res Model.Config Spec.ConfigSpec.
Import ListNotations.
Local Open Scope N_scope.

Lemma Ok_inj {A} (a b : A) : Ok a = Ok b -> a = b.
Proof. intros H. injection H as H. exact H. Qed.

(* ---------- small facts about lists of types ---------- *)

Lemma mem_in t l : mem t l = true <-> In t l.
Proof.
  unfold mem. rewrite existsb_exists. split.
  - intros [x [Hin Heq]]. apply N.eqb_eq in Heq. subst. exact Hin.
  - intros Hin. exists t. split; [exact Hin|apply N.eqb_refl].
Qed.

Lemma mem_app t l1 l2 : mem t (l1 ++ l2) = mem t l1 || mem t l2.
Proof. unfold mem. apply existsb_app. Qed.

Lemma mem_filter p t l : mem t (filter p l) = p t && mem t l.
Proof.
  induction l as [|a l IH]; cbn [filter mem existsb].
  - rewrite andb_false_r. reflexivity.
  - fold (mem t l). destruct (p a) eqn:Hpa; cbn [existsb]; fold (mem t (filter p l)); rewrite IH.
    + destruct (t =? a) eqn:Hta; cbn [orb].
      * apply N.eqb_eq in Hta. subst. rewrite Hpa. reflexivity.
      * reflexivity.
    + destruct (t =? a) eqn:Hta; cbn [orb].
      * apply N.eqb_eq in Hta. subst. rewrite Hpa. reflexivity.
      * reflexivity.
Qed.

Lemma types_all_small : forallb (fun x => x <? 30) types_all = true.
Proof. vm_compute. reflexivity. Qed.

Lemma types_all_sweep :
  forallb (fun t => Bool.eqb (mem t types_all) ((1 <=? t) && (t <? 30))) (nrange_nat 30) = true.
Proof. vm_compute. reflexivity. Qed.

Lemma mem_types_all t : mem t types_all = (1 <=? t) && (t <? 30).
Proof.
  destruct (N.ltb_spec t 30) as [Hlt|Hge].
  - pose proof types_all_sweep as Hs. rewrite forallb_forall in Hs.
    assert (Hin : In t (nrange_nat 30)) by (apply nrange_nat_in; lia).
    specialize (Hs t Hin). apply eqb_prop in Hs. rewrite Hs.
    assert (Ht : (t <? 30) = true) by (apply N.ltb_lt; exact Hlt). rewrite Ht. reflexivity.
  - rewrite andb_false_r.
    destruct (mem t types_all) eqn:Hm; [|reflexivity].
    apply mem_in in Hm. pose proof types_all_small as Hs. rewrite forallb_forall in Hs.
    specialize (Hs t Hm). apply N.ltb_lt in Hs. lia.
Qed.

Lemma existsb_filter_split {A} (f p : A -> bool) l :
  existsb f l = existsb f (filter p l) || existsb f (filter (fun x => negb (p x)) l).
Proof.
  induction l as [|a l IH]; cbn [filter existsb]; [reflexivity|].
  rewrite IH. destruct (p a); cbn [negb existsb]; btauto.
Qed.

(* ---------- the file-type map without duplicate keys is the list itself ---------- *)

Lemma ft_remove_absent k m :
  existsb (beq_bytes k) (map fst m) = false -> ft_remove k m = m.
Proof.
  induction m as [|[k' v] m IH]; cbn [ft_remove map fst existsb]; intros H; [reflexivity|].
  apply orb_false_iff in H as [H1 H2]. rewrite H1. rewrite IH by exact H2. reflexivity.
Qed.

Lemma beq_bytes_sym a b : beq_bytes a b = beq_bytes b a.
Proof.
  destruct (beq_bytes a b) eqn:H1; destruct (beq_bytes b a) eqn:H2; try reflexivity.
  - apply beq_bytes_eq in H1. subst. assert (beq_bytes b b = true) by (apply beq_bytes_eq; reflexivity). congruence.
  - apply beq_bytes_eq in H2. subst. assert (beq_bytes a a = true) by (apply beq_bytes_eq; reflexivity). congruence.
Qed.

Lemma ft_fold_nodup l : forall acc,
  nodup_keys l = true ->
  (forall kv, In kv l -> existsb (beq_bytes (fst kv)) (map fst acc) = false) ->
  fold_left ft_insert l acc = acc ++ l.
Proof.
  induction l as [|kv l IH]; intros acc Hnd Hdis; cbn [fold_left].
  - rewrite app_nil_r. reflexivity.
  - cbn [nodup_keys] in Hnd. apply andb_true_iff in Hnd as [Hk Hnd]. apply negb_true_iff in Hk.
    unfold ft_insert at 2. rewrite ft_remove_absent by (apply Hdis; left; reflexivity).
    rewrite IH; [rewrite <- app_assoc; reflexivity|exact Hnd|].
    intros kv' Hin. rewrite map_app, existsb_app. cbn [map existsb]. rewrite orb_false_r.
    pose proof (Hdis kv' (or_intror Hin)) as Hd. unfold path in *. rewrite Hd. cbn [orb].
    destruct (beq_bytes (fst kv') (fst kv)) eqn:E; [|reflexivity].
    exfalso. rewrite beq_bytes_sym in E.
    assert (Hex : existsb (beq_bytes (fst kv)) (map fst l) = true).
    { apply existsb_exists. exists (fst kv'). split; [apply in_map; exact Hin|exact E]. }
    congruence.
Qed.

Lemma ft_of_list_nodup l : nodup_keys l = true -> ft_of_list l = l.
Proof.
  intros H. unfold ft_of_list. rewrite ft_fold_nodup; [reflexivity|exact H|].
  intros kv _. reflexivity.
Qed.

(* ---------- the choke point against the intent ---------- *)

Section Law.
  Variable fixed : bool.
  Variable re_ok : path -> bool.
  Variable re_match : path -> path -> bool.
  Notation pm := (pat_match re_ok re_match).
  Notation is_ign := (is_ignore_error_file re_ok re_match).
  Notation vis := (visible re_ok re_match).
  Notation handled := (is_handled re_ok re_match).
  Notation sexcl := (spec_excluded re_ok re_match).
  Notation shandled := (spec_handled re_ok re_match).

  (* client mode: nothing json-only has ever been set *)
  Definition cinv (g : gconf) : Prop :=
    g_json g = false /\ g_file_types g = [] /\ g_open_types g = [] /\ g_has_entry g = false.

  Lemma cinv_default : cinv g_default.
  Proof. repeat split. Qed.

  Lemma client_wf_cons c : client_wf c = true -> exists m fl, c_flags c = m :: fl.
  Proof.
    unfold client_wf. destruct (c_flags c) as [|m fl]; intros H.
    - cbn in H. discriminate.
    - exists m, fl. reflexivity.
  Qed.

  Definition hf_fields (g0 g : gconf) (c : client_cfg) (m : bool) : Prop :=
    g_json g = false /\ g_show g = m
    /\ g_ignore_types g = (if m then filter (client_off (c_flags c)) types_all else g_ignore_types g0 ++ types_all)
    /\ g_open_types g = g_open_types g0
    /\ g_handle_folder g = filter (fun p => negb (has_lua_suffix p)) (c_ignore_handle c)
    /\ g_handle_file g = filter has_lua_suffix (c_ignore_handle c)
    /\ g_err_folder g = filter (fun p => negb (has_lua_suffix p)) (c_ignore_err c) ++ [server_meta]
    /\ g_err_file g = filter has_lua_suffix (c_ignore_err c)
    /\ g_file_types g = g_file_types g0
    /\ g_has_entry g = g_has_entry g0.

  Lemma handle_flags_inv g0 c g :
    client_wf c = true -> handle_flags fixed re_ok g0 c = Ok g ->
    exists m fl, c_flags c = m :: fl /\ hf_fields g0 g c m.
  Proof.
    intros Hwf H. destruct (client_wf_cons c Hwf) as (m & fl & Hf).
    exists m, fl. split; [exact Hf|].
    unfold handle_flags in H. destruct (compile_all fixed re_ok (c_ignore_err c)); [|discriminate].
    rewrite Hf in H.
    destruct m; apply Ok_inj in H; subst g; unfold hf_fields;
      cbn [g_json g_show g_ignore_types g_open_types g_handle_folder g_handle_file g_err_folder g_err_file
           g_file_types g_has_entry]; rewrite ?Hf; repeat split.
  Qed.

  Lemma handle_flags_cinv g0 c g :
    client_wf c = true -> cinv g0 -> handle_flags fixed re_ok g0 c = Ok g -> cinv g.
  Proof.
    intros Hwf (Hj & Hft & Ho & He) H.
    destruct (handle_flags_inv g0 c g Hwf H) as (m & fl & Hf & Hj' & _ & _ & Ho' & _ & _ & _ & _ & Hft' & He').
    unfold cinv. rewrite Hj', Hft', Ho', He'. auto.
  Qed.

  Lemma client_choke g0 c g :
    client_wf c = true -> g_file_types g0 = [] -> handle_flags fixed re_ok g0 c = Ok g ->
    forall f t, (1 <=? t) && (t <? 30) = true ->
      is_ign g f t = excluded_at re_ok re_match (intent_of_client c) f t.
  Proof.
    intros Hwf Hft0 H f t Hr.
    destruct (handle_flags_inv g0 c g Hwf H) as (m & fl & Hf & _ & Hs & Hi & _ & _ & _ & Hef & Hel & Hft & _).
    unfold is_ignore_error_file, excluded_at, intent_of_client. cbn [i_master i_off i_err i_file_types].
    rewrite Hs, Hi, Hef, Hel, Hft, Hft0, Hf. cbn [hd existsb].
    rewrite !existsb_app. rewrite (existsb_filter_split (pm f) has_lua_suffix (c_ignore_err c)).
    destruct m.
    - rewrite mem_filter, mem_types_all, Hr.
      generalize (client_off (true :: fl) t). intros a.
      generalize (existsb (pm f) (filter has_lua_suffix (c_ignore_err c))). intros b.
      generalize (existsb (pm f) (filter (fun x => negb (has_lua_suffix x)) (c_ignore_err c))). intros b'.
      generalize (existsb (pm f) [server_meta]). intros b''.
      btauto.
    - reflexivity.
  Qed.

  Lemma visible_unfold g root d :
    vis g root d =
      negb (is_ign g (abs_path root (d_file d)) (d_type d)) && gate_ok g d && prereq_ok re_ok re_match g root d && open_ok g d.
  Proof.
    unfold visible, gate_ok, prereq_ok, open_ok.
    generalize (is_ign g (abs_path root (d_file d)) (d_type d)). intros a.
    generalize (pass_runs g (produced_in (d_type d))). intros b.
    generalize (forallb (fun p : N => negb (mem p (g_ignore_types g))) (global_prereq (d_type d))). intros c.
    generalize (negb (open_required (d_type d)) || mem (d_type d) (g_open_types g)). intros e.
    destruct (d_ref d) as [r|].
    - generalize (negb (is_ign g (abs_path root r) check_error_no_define)). intros h. btauto.
    - btauto.
  Qed.

  (* the final configuration state does what the intent says, up to the three extra conditions *)
  Definition realises (g : gconf) (i : intent) : Prop :=
    (forall root d, type_ok d = true ->
       vis g root d = negb (sexcl i root d) && gate_ok g d && prereq_ok re_ok re_match g root d && open_ok g d)
    /\ (forall rel, handled g rel = shandled i rel).

  Lemma realises_client g0 c g :
    client_wf c = true -> cinv g0 -> handle_flags fixed re_ok g0 c = Ok g -> realises g (intent_of_client c).
  Proof.
    intros Hwf (_ & Hft0 & _ & _) H. split.
    - intros root d Hty. rewrite visible_unfold. unfold spec_excluded.
      rewrite (client_choke g0 c g Hwf Hft0 H) by exact Hty. reflexivity.
    - intros rel.
      destruct (handle_flags_inv g0 c g Hwf H) as (m & fl & Hf & _ & _ & _ & _ & Hhf & Hhl & _ & _ & _ & _).
      unfold is_handled, spec_handled, ignore_folder, ignore_file, intent_of_client. cbn [i_handle].
      rewrite Hhf, Hhl. reflexivity.
  Qed.

  Lemma read_json_inv g0 j g :
    read_json fixed re_ok g0 j = Ok g ->
    g = {| g_json := true; g_show := (j_show j =? 1);
           g_ignore_types := j_ignore_types j; g_open_types := j_open_types j;
           g_handle_folder := filter (fun p => negb (has_lua_suffix p)) (j_ignore_handle j);
           g_handle_file := filter has_lua_suffix (j_ignore_handle j);
           g_err_folder := filter (fun p => negb (has_lua_suffix p)) (j_ignore_err j) ++ [server_meta];
           g_err_file := filter has_lua_suffix (j_ignore_err j);
           g_file_types := ft_of_list (j_file_types j);
           g_has_entry := j_has_entry j; g_var_map := true |}.
  Proof.
    unfold read_json. destruct (_ && _); [|discriminate]. intros H. apply Ok_inj in H. subst g. reflexivity.
  Qed.

  Lemma realises_json g0 j g :
    nodup_keys (j_file_types j) = true -> read_json fixed re_ok g0 j = Ok g -> realises g (intent_of_json j).
  Proof.
    intros Hnd H. apply read_json_inv in H. subst g. split.
    - intros root d Hty. rewrite visible_unfold.
      unfold spec_excluded, excluded_at, is_ignore_error_file, open_ok, intent_of_json.
      cbn [g_show g_ignore_types g_err_folder g_err_file g_file_types g_open_types i_master i_off i_err i_file_types].
      rewrite (ft_of_list_nodup _ Hnd).
      rewrite !existsb_app. rewrite (existsb_filter_split (pm (abs_path root (d_file d))) has_lua_suffix (j_ignore_err j)).
      set (f := abs_path root (d_file d)).
      generalize (existsb (fun kv : path * list N => pm f (fst kv) && mem (d_type d) (snd kv)) (j_file_types j)). intros a.
      generalize (existsb (pm f) (filter has_lua_suffix (j_ignore_err j))). intros b.
      generalize (existsb (pm f) (filter (fun x => negb (has_lua_suffix x)) (j_ignore_err j))). intros b'.
      generalize (existsb (pm f) [server_meta]). intros b''.
      generalize (mem (d_type d) (j_ignore_types j)). intros m.
      generalize (mem (d_type d) (j_open_types j)). intros o.
      generalize (open_required (d_type d)). intros q.
      generalize (j_show j =? 1). intros s.
      match goal with |- context [gate_ok ?g d] => generalize (gate_ok g d) end. intros x.
      match goal with |- context [prereq_ok re_ok re_match ?g root d] => generalize (prereq_ok re_ok re_match g root d) end. intros y.
      btauto.
    - intros rel. reflexivity.
  Qed.
End Law.

(* ---------- whole sessions: init, then any number of settings changes ---------- *)

Lemma last_indep {A} (l : list A) d d' : l <> [] -> last l d = last l d'.
Proof.
  induction l as [|a l IH]; intros Hne; [congruence|].
  destruct l as [|b l]; [reflexivity|].
  change (last (b :: l) d = last (b :: l) d'). apply IH. discriminate.
Qed.

Lemma last_cons_default {A} (a : A) l d : last (a :: l) d = last l a.
Proof.
  destruct l as [|b l]; [reflexivity|].
  change (last (b :: l) d = last (b :: l) a). apply last_indep. discriminate.
Qed.

Section Sessions.
  Variable fixed : bool.
  Variable re_ok : path -> bool.
  Variable re_match : path -> path -> bool.

  Lemma changes_json : forall cs s s',
    g_json (s_g s) = true -> changes fixed re_ok s cs = Ok s' -> s_g s' = s_g s.
  Proof.
    induction cs as [|c cs IH]; intros s s' Hj H; cbn [changes] in H.
    - apply Ok_inj in H. subst. reflexivity.
    - unfold change in H. destruct (negb (s_changed s)).
      + cbn [rbind] in H. apply IH in H; [exact H|exact Hj].
      + rewrite Hj in H. cbn [rbind] in H. apply IH in H; [exact H|exact Hj].
  Qed.

  Lemma session_json jc c lr cs s :
    session fixed re_ok (Some jc) c lr cs = Ok s -> read_json fixed re_ok g_default jc = Ok (s_g s).
  Proof.
    unfold session, init. destruct (read_json fixed re_ok g_default jc) as [g| |] eqn:Hr; cbn [rbind]; try discriminate.
    pose proof (read_json_inv fixed re_ok g_default jc g Hr) as Hg.
    assert (Hvm : g_var_map g = true) by (rewrite Hg; reflexivity).
    rewrite Hvm. cbn [negb]. rewrite andb_false_r. cbn [rbind].
    intros H. apply changes_json in H.
    - cbn [s_g] in H. rewrite H. reflexivity.
    - cbn [s_g]. rewrite Hg. reflexivity.
  Qed.

  Definition from_client (g : gconf) (c : client_cfg) : Prop :=
    exists g0, cinv g0 /\ handle_flags fixed re_ok g0 c = Ok g.

  Lemma from_client_cinv g c : client_wf c = true -> from_client g c -> cinv g.
  Proof. intros Hwf (g0 & Hc & H). exact (handle_flags_cinv fixed re_ok g0 c g Hwf Hc H). Qed.

  Lemma changes_client : forall cs s c s',
    s_changed s = true -> client_wf c = true -> forallb client_wf cs = true ->
    from_client (s_g s) c -> changes fixed re_ok s cs = Ok s' ->
    from_client (s_g s') (last cs c) /\ client_wf (last cs c) = true.
  Proof.
    induction cs as [|c2 cs IH]; intros s c s' Hch Hwf Hwfs Hfc H; cbn [changes] in H.
    - apply Ok_inj in H. subst. cbn [last]. auto.
    - cbn [forallb] in Hwfs. apply andb_true_iff in Hwfs as [Hwf2 Hwfs].
      unfold change in H. rewrite Hch in H. cbn [negb] in H.
      destruct (from_client_cinv _ _ Hwf Hfc) as (Hj & _). pose proof (from_client_cinv _ _ Hwf Hfc) as Hci.
      rewrite Hj in H.
      destruct (handle_flags fixed re_ok (s_g s) c2) as [g'| |] eqn:Hh; cbn [rbind] in H; try discriminate.
      rewrite last_cons_default.
      apply (IH _ c2 s') in H; [exact H|reflexivity|exact Hwf2|exact Hwfs|].
      cbn [s_g]. exists (s_g s). auto.
  Qed.

  Lemma session_client c lr cs s :
    client_wf c = true -> forallb client_wf cs = true ->
    session fixed re_ok None c lr cs = Ok s ->
    from_client (s_g s) (effective_client c cs) /\ client_wf (effective_client c cs) = true.
  Proof.
    intros Hwf Hwfs. unfold session, init.
    destruct (handle_flags fixed re_ok g_default c) as [g1| |] eqn:H0; cbn [rbind]; try discriminate.
    destruct (lr && negb (g_var_map g1) && negb fixed); cbn [rbind]; try discriminate.
    assert (Hfc : from_client g1 c) by (exists g_default; split; [apply cinv_default|exact H0]).
    destruct cs as [|c1 cs]; cbn [changes effective_client].
    - intros H. apply Ok_inj in H. subst. cbn [s_g]. auto.
    - unfold change at 1. cbn [s_changed negb rbind s_g].
      cbn [forallb] in Hwfs. apply andb_true_iff in Hwfs as [_ Hwfs].
      intros H. apply (changes_client cs _ c s) in H; auto.
  Qed.

  Theorem session_realises j c lr cs s :
    json_wf j = true -> client_wf c = true -> forallb client_wf cs = true ->
    session fixed re_ok j c lr cs = Ok s ->
    realises re_ok re_match (s_g s) (session_intent j c cs).
  Proof.
    intros Hj Hwf Hwfs H. destruct j as [jc|]; unfold session_intent, intent_of.
    - apply session_json in H. exact (realises_json fixed re_ok re_match g_default jc (s_g s) Hj H).
    - destruct (session_client c lr cs s Hwf Hwfs H) as ((g0 & Hc & Hh) & Hwfe).
      exact (realises_client fixed re_ok re_match g0 _ (s_g s) Hwfe Hc Hh).
  Qed.

  (* pointwise law under the guard *)
  Lemma guarded_visible g i root d :
    realises re_ok re_match g i -> diag_guard re_ok re_match g i root d = true ->
    visible re_ok re_match g root d = negb (spec_excluded re_ok re_match i root d).
  Proof.
    intros (Hv & _) Hg. unfold diag_guard in Hg. apply andb_true_iff in Hg as [Hty Hg].
    rewrite (Hv root d Hty).
    destruct (spec_excluded re_ok re_match i root d); cbn [negb andb orb] in *; [reflexivity|].
    rewrite Hg. reflexivity.
  Qed.

  Variable raw : list path -> list diag.

  Theorem filter_law root files j c lr cs s :
    json_wf j = true -> client_wf c = true -> forallb client_wf cs = true ->
    session fixed re_ok j c lr cs = Ok s ->
    forallb (diag_guard re_ok re_match (s_g s) (session_intent j c cs) root)
            (raw (filter (is_handled re_ok re_match (s_g s)) files)) = true ->
    shown re_ok re_match raw (s_g s) root files
      = spec_shown re_ok re_match raw (session_intent j c cs) root files.
  Proof.
    intros Hj Hwf Hwfs H Hg.
    pose proof (session_realises j c lr cs s Hj Hwf Hwfs H) as Hr.
    unfold shown, spec_shown.
    assert (Hf : filter (is_handled re_ok re_match (s_g s)) files
                 = filter (spec_handled re_ok re_match (session_intent j c cs)) files).
    { apply filter_ext. intros rel. apply (proj2 Hr). }
    rewrite <- Hf. apply filter_ext_in. intros d Hin.
    rewrite forallb_forall in Hg. apply guarded_visible; [exact Hr|apply Hg; exact Hin].
  Qed.

  (* and whatever the guard says: what is shown is always a subset of what the intent allows, except for the
     replaced duplicate rule (json_wf) - the code never shows a diagnostic the configuration excludes *)
  Theorem never_shows_excluded root j c lr cs s d :
    json_wf j = true -> client_wf c = true -> forallb client_wf cs = true ->
    session fixed re_ok j c lr cs = Ok s -> type_ok d = true ->
    visible re_ok re_match (s_g s) root d = true ->
    spec_excluded re_ok re_match (session_intent j c cs) root d = false.
  Proof.
    intros Hj Hwf Hwfs H Hty Hv.
    destruct (session_realises j c lr cs s Hj Hwf Hwfs H) as (Hr & _).
    rewrite (Hr root d Hty) in Hv.
    destruct (spec_excluded re_ok re_match (session_intent j c cs) root d); [discriminate|reflexivity].
  Qed.
End Sessions.

(* ---------- the three delivery routes ---------- *)

Section Routes.
  Variable fixed : bool.
  Variable re_ok : path -> bool.
  Variable re_match : path -> path -> bool.

  Definition obs_eq (g1 g2 : gconf) : Prop :=
    (forall root d, visible re_ok re_match g1 root d = visible re_ok re_match g2 root d)
    /\ (forall rel, is_handled re_ok re_match g1 rel = is_handled re_ok re_match g2 rel).

  Lemma visible_hidden g root d : g_show g = false -> visible re_ok re_match g root d = false.
  Proof. intros H. unfold visible, is_ignore_error_file. rewrite H. reflexivity. Qed.

  Lemma visible_fields g1 g2 root d :
    g_show g1 = g_show g2 -> g_ignore_types g1 = g_ignore_types g2 -> g_open_types g1 = g_open_types g2 ->
    g_err_folder g1 = g_err_folder g2 -> g_err_file g1 = g_err_file g2 -> g_file_types g1 = g_file_types g2 ->
    g_has_entry g1 = g_has_entry g2 ->
    visible re_ok re_match g1 root d = visible re_ok re_match g2 root d.
  Proof.
    intros H1 H2 H3 H4 H5 H6 H7.
    unfold visible, is_ignore_error_file, pass_runs, cross_runs, special_check.
    rewrite H1, H2, H3, H4, H5, H6, H7. reflexivity.
  Qed.

  Lemma is_handled_fields g1 g2 rel :
    g_handle_folder g1 = g_handle_folder g2 -> g_handle_file g1 = g_handle_file g2 ->
    is_handled re_ok re_match g1 rel = is_handled re_ok re_match g2 rel.
  Proof.
    intros H1 H2. unfold is_handled, ignore_folder, ignore_file. rewrite H1, H2. reflexivity.
  Qed.

  Lemma from_client_obs g1 g2 c :
    client_wf c = true -> from_client fixed re_ok g1 c -> from_client fixed re_ok g2 c -> obs_eq g1 g2.
  Proof.
    intros Hwf (a & (_ & Hfta & Hoa & Hea) & Ha) (b & (_ & Hftb & Hob & Heb) & Hb).
    destruct (handle_flags_inv fixed re_ok a c g1 Hwf Ha) as (m & fl & Hf & _ & Hs1 & Hi1 & Ho1 & Hhf1 & Hhl1 & Hef1 & Hel1 & Hft1 & He1).
    destruct (handle_flags_inv fixed re_ok b c g2 Hwf Hb) as (m' & fl' & Hf' & _ & Hs2 & Hi2 & Ho2 & Hhf2 & Hhl2 & Hef2 & Hel2 & Hft2 & He2).
    rewrite Hf in Hf'. injection Hf' as <- <-.
    split.
    - intros root d. destruct m.
      + apply visible_fields; congruence.
      + rewrite !visible_hidden by assumption. reflexivity.
    - intros rel. apply is_handled_fields; congruence.
  Qed.

  Lemma from_client_json_obs g1 g3 c :
    client_wf c = true -> from_client fixed re_ok g1 c ->
    read_json fixed re_ok g_default (to_json c) = Ok g3 -> obs_eq g1 g3.
  Proof.
    intros Hwf (a & (_ & Hfta & Hoa & Hea) & Ha) H3.
    destruct (handle_flags_inv fixed re_ok a c g1 Hwf Ha) as (m & fl & Hf & _ & Hs1 & Hi1 & Ho1 & Hhf1 & Hhl1 & Hef1 & Hel1 & Hft1 & He1).
    apply read_json_inv in H3. subst g3. unfold to_json. rewrite Hf.
    split.
    - intros root d. destruct m.
      + apply visible_fields;
          cbn [g_show g_ignore_types g_open_types g_err_folder g_err_file g_file_types g_has_entry
               j_show j_ignore_types j_open_types j_ignore_err j_file_types j_has_entry].
        * rewrite Hs1. reflexivity.
        * rewrite Hi1, Hf. reflexivity.
        * congruence.
        * exact Hef1.
        * exact Hel1.
        * rewrite Hft1, Hfta. reflexivity.
        * congruence.
      + rewrite !visible_hidden; [reflexivity| |assumption].
        cbn [g_show j_show]. reflexivity.
    - intros rel. apply is_handled_fields;
        cbn [g_handle_folder g_handle_file j_ignore_handle]; congruence.
  Qed.

  (* the same client configuration c delivered (1) as initializationOptions, (2) by a later settings change after an
     arbitrary earlier history, (3) as the equivalent luahelper.json (whatever the client then sends) *)
  Theorem same_by_all_routes c c0 csync cmid cany cs_any l1 l2 l3 s1 s2 s3 :
    client_wf c = true -> client_wf c0 = true -> client_wf csync = true -> forallb client_wf cmid = true ->
    session fixed re_ok None c l1 [] = Ok s1 ->
    session fixed re_ok None c0 l2 (csync :: cmid ++ [c]) = Ok s2 ->
    session fixed re_ok (Some (to_json c)) cany l3 cs_any = Ok s3 ->
    obs_eq (s_g s1) (s_g s2) /\ obs_eq (s_g s1) (s_g s3).
  Proof.
    intros Hwf Hwf0 Hwfs Hwfm H1 H2 H3.
    destruct (session_client fixed re_ok c l1 [] s1 Hwf eq_refl H1) as (F1 & _). cbn [effective_client] in F1.
    assert (Hall : forallb client_wf (csync :: cmid ++ [c]) = true).
    { cbn [forallb]. rewrite Hwfs. rewrite forallb_app. rewrite Hwfm. cbn [forallb]. rewrite Hwf. reflexivity. }
    destruct (session_client fixed re_ok c0 l2 _ s2 Hwf0 Hall H2) as (F2 & _).
    cbn [effective_client] in F2. rewrite last_last in F2.
    split.
    - exact (from_client_obs (s_g s1) (s_g s2) c Hwf F1 F2).
    - apply session_json in H3. exact (from_client_json_obs (s_g s1) (s_g s3) c Hwf F1 H3).
  Qed.

  (* observationally equal states show the same diagnostics, whatever the analysis produces *)
  Lemma obs_eq_shown raw g1 g2 root files :
    obs_eq g1 g2 -> shown re_ok re_match raw g1 root files = shown re_ok re_match raw g2 root files.
  Proof.
    intros (Hv & Hh). unfold shown.
    rewrite (filter_ext _ _ Hh). apply filter_ext. intros d. apply Hv.
  Qed.

  (* luahelper.json present: nothing the client sends changes the outcome *)
  Theorem json_ignores_client jc c c' l l' cs cs' s s' :
    session fixed re_ok (Some jc) c l cs = Ok s -> session fixed re_ok (Some jc) c' l' cs' = Ok s' -> s_g s = s_g s'.
  Proof.
    intros H H'. apply session_json in H. apply session_json in H'. rewrite H in H'. apply Ok_inj in H'. exact H'.
  Qed.
End Routes.

(* ---------- malformed patterns ---------- *)

Section Faults.
  Variable re_ok : path -> bool.

  Lemma handle_flags_ok_ex fixed g c :
    compile_all fixed re_ok (c_ignore_err c) = true ->
    exists g', handle_flags fixed re_ok g c = Ok g' /\ (hd false (c_flags c) = true -> g_var_map g' = true).
  Proof.
    intros H. unfold handle_flags. rewrite H.
    destruct (c_flags c) as [|m fl]; [eexists; split; [reflexivity|cbn [hd]; discriminate]|].
    destruct m; eexists; (split; [reflexivity|cbn [hd g_var_map]; congruence]).
  Qed.

  Lemma changes_ok_ex fixed : forall cs s,
    forallb (fun c => compile_all fixed re_ok (c_ignore_err c)) cs = true ->
    exists s', changes fixed re_ok s cs = Ok s'.
  Proof.
    induction cs as [|c cs IH]; intros s H; cbn [changes].
    - eexists; reflexivity.
    - cbn [forallb] in H. apply andb_true_iff in H as [Hc H].
      unfold change. destruct (negb (s_changed s)); cbn [rbind]; [apply IH; exact H|].
      destruct (g_json (s_g s)); cbn [rbind]; [apply IH; exact H|].
      destruct (handle_flags_ok_ex fixed (s_g s) c Hc) as (g' & Hg & _). rewrite Hg. cbn [rbind]. apply IH; exact H.
  Qed.

  Definition session_patterns_ok (fixed : bool) (j : option json_cfg) (c : client_cfg) (cs : list client_cfg) : bool :=
    match j with
    | Some jc => compile_all fixed re_ok (map fst (j_file_types jc)) && compile_all fixed re_ok (j_ignore_err jc)
    | None => compile_all fixed re_ok (c_ignore_err c)
    end && forallb (fun c => compile_all fixed re_ok (c_ignore_err c)) cs.

  (* LocalRun is harmless with luahelper.json or with the master switch on *)
  Definition local_ok (j : option json_cfg) (c : client_cfg) (lr : bool) : bool :=
    negb lr || match j with Some _ => true | None => hd false (c_flags c) end.

  Theorem session_no_fault fixed j c lr cs :
    session_patterns_ok fixed j c cs = true -> fixed || local_ok j c lr = true ->
    exists s, session fixed re_ok j c lr cs = Ok s.
  Proof.
    unfold session_patterns_ok, local_ok. intros H Hl. apply andb_true_iff in H as [H0 Hcs].
    unfold session, init. destruct j as [jc|].
    - unfold read_json. rewrite H0. cbn [rbind g_var_map negb]. rewrite andb_false_r. cbn [andb rbind].
      apply changes_ok_ex. exact Hcs.
    - destruct (handle_flags_ok_ex fixed g_default c H0) as (g' & Hg & Hvm). rewrite Hg. cbn [rbind].
      assert (Hz : lr && negb (g_var_map g') && negb fixed = false).
      { destruct fixed; [rewrite andb_false_r; reflexivity|]. cbn [orb] in Hl.
        destruct lr; [|reflexivity]. cbn [negb orb] in Hl. rewrite (Hvm Hl). reflexivity. }
      rewrite Hz. cbn [rbind]. apply changes_ok_ex. exact Hcs.
  Qed.

  (* the repaired code (both fix: commits) never faults, whatever the settings *)
  Theorem fixed_never_faults j c lr cs :
    exists s, session true re_ok j c lr cs = Ok s.
  Proof.
    apply session_no_fault; [|reflexivity]. unfold session_patterns_ok, compile_all. cbn [orb].
    destruct j; cbn [andb]; induction cs; cbn [forallb andb]; auto.
  Qed.

  (* before the repair: LocalRun with the master switch off: initialize writes into the nil map IgnoreVarMap *)
  Theorem local_master_off_faults c fl :
    c_flags c = false :: fl -> compile_all false re_ok (c_ignore_err c) = true ->
    init false re_ok None c true = Fault NilDeref.
  Proof.
    intros Hf Hc. unfold init, handle_flags. rewrite Hc, Hf. cbn [rbind g_var_map g_default andb negb]. reflexivity.
  Qed.

  (* the code as it is: a pattern that does not compile in IgnoreFileOrDirError kills initialize *)
  Theorem init_faults_iff c lr :
    init false re_ok None c lr = Fault Regexp <-> forallb re_ok (c_ignore_err c) = false.
  Proof.
    unfold init, handle_flags, compile_all. cbn [orb].
    destruct (forallb re_ok (c_ignore_err c)); cbn [rbind].
    - split; [|discriminate].
      destruct (c_flags c) as [|m fl]; [|destruct m]; cbn [rbind];
        match goal with |- context [if ?b then _ else _] => destruct b end; discriminate.
    - split; reflexivity.
  Qed.

  (* where no pattern is malformed the repair changes nothing *)
  Lemma handle_flags_fixed_same g c :
    forallb re_ok (c_ignore_err c) = true -> handle_flags false re_ok g c = handle_flags true re_ok g c.
  Proof. intros H. unfold handle_flags, compile_all. rewrite H. reflexivity. Qed.
End Faults.

(* ---------- configuration-level sufficient conditions for the guard ---------- *)

Section Simple.
  Variable re_ok : path -> bool.
  Variable re_match : path -> path -> bool.

  (* a diagnostic that is neither behind another type's switch nor behind the white list *)
  Definition plain_diag (d : diag) : bool :=
    type_ok d && negb (mem (d_type d) [17; 24]) && negb (open_required (d_type d))
    && match d_ref d with None => true | Some _ => false end.

  Lemma plain_guard g i root d :
    special_gate_ok g = true -> plain_diag d = true -> diag_guard re_ok re_match g i root d = true.
  Proof.
    unfold special_gate_ok, plain_diag, diag_guard, gate_ok, prereq_ok, open_ok, pass_runs.
    intros Hg H. apply andb_true_iff in H as [H Hr]. apply andb_true_iff in H as [H Ho].
    apply andb_true_iff in H as [Hty Hp]. rewrite Hty, Ho. cbn [andb orb].
    assert (Hpre : global_prereq (d_type d) = []).
    { unfold global_prereq. unfold mem in Hp. cbn [existsb] in Hp.
      destruct (d_type d =? 17); [discriminate|]. destruct (d_type d =? 24); [discriminate|]. reflexivity. }
    rewrite Hpre. cbn [forallb]. destruct (d_ref d); [discriminate|].
    rewrite Hg. destruct (produced_in (d_type d)); rewrite orb_true_r; reflexivity.
  Qed.
End Simple.

Section Plain.
  Variable fixed : bool.
  Variable re_ok : path -> bool.
  Variable re_match : path -> path -> bool.
  Variable raw : list path -> list diag.

  Theorem filter_law_plain root files j c lr cs s :
    json_wf j = true -> client_wf c = true -> forallb client_wf cs = true ->
    session fixed re_ok j c lr cs = Ok s ->
    special_gate_ok (s_g s) = true ->
    forallb plain_diag (raw (filter (is_handled re_ok re_match (s_g s)) files)) = true ->
    shown re_ok re_match raw (s_g s) root files
      = spec_shown re_ok re_match raw (session_intent j c cs) root files.
  Proof.
    intros Hj Hwf Hwfs H Hg Hp. apply (filter_law fixed _ _ _ _ _ _ _ lr); try assumption.
    rewrite forallb_forall in *. intros d Hin. apply plain_guard; [exact Hg|apply Hp; exact Hin].
  Qed.
End Plain.

(* ---------- witnesses (closed terms, evaluated in Properties/C17.v) ---------- *)

Definition re_all : path -> bool := fun _ => true.
Definition re_none : path -> path -> bool := fun _ _ => false.
(* an engine that rejects exactly the pattern "(" *)
Definition re_no_paren : path -> bool := fun p => negb (beq_bytes p [40]).

Definition flags_off (off : list N) : list bool := map (fun k => negb (mem k off)) flag_positions.
Definition mk_client (off : list N) (ih ie : list path) : client_cfg :=
  {| c_flags := flags_off off; c_ignore_handle := ih; c_ignore_err := ie |}.
Definition a_lua : path := [97; 46; 108; 117; 97].
Definition mk_diag (f : path) (t : N) : diag := {| d_file := f; d_type := t; d_line := 0; d_col := 0; d_ref := None |}.

(* 2, 3, 10, 11, 12 off, everything else (9 included) on *)
Definition w_gate : client_cfg := mk_client special_types [] [].
(* only "local variable not used" (4) off *)
Definition w_coupled : client_cfg := mk_client [4] [] [].
Definition w_all_on : client_cfg := mk_client [] [] [].
Definition w_bad_regex : client_cfg := mk_client [] [] [[40]].
(* master switch off (and the client says LocalRun) *)
Definition w_master_off : client_cfg := mk_client [0] [] [].
Definition w_dup_rule : json_cfg :=
  {| j_show := 1; j_ignore_types := []; j_open_types := []; j_ignore_handle := []; j_ignore_err := [];
     j_file_types := [(a_lua, [4]); (a_lua, [5])]; j_has_entry := false |}.

(* for the non-vacuity example: 4 and 9 off, folder "sub/" silenced, "x.lua" not analysed *)
Definition sub_dir : path := [115; 117; 98; 47].
Definition x_lua : path := [120; 46; 108; 117; 97].
Definition w_example : client_cfg := mk_client [4; 9] [x_lua] [sub_dir].
Definition w_example_diags : list diag :=
  [mk_diag a_lua 1; mk_diag a_lua 2; mk_diag a_lua 4; mk_diag a_lua 9; mk_diag (sub_dir ++ a_lua) 2; mk_diag a_lua 13].
