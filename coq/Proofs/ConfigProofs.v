(* C17 - lemmas about Model/Config.v against Spec/ConfigSpec.v *)
From Coq Require Import List NArith Bool Lia ZifyN ZifyNat ZifyBool Btauto.
From LH Require Import Base.Bytes Base.Res Model.Config Spec.ConfigSpec.
Import ListNotations.
Local Open Scope N_scope.

Lemma Ok_inj {A} (a b : A) : Ok a = Ok b -> a = b.
Proof. intros H. injection H as H. exact H. Qed.

(* ---------- small facts about lists of types ---------- *)

Lemma mem_in t l : mem t l = true <-> In t l.
Proof.
  unfold mem. rewrite existsb_exists. split.
  - intros [x [Hin Heq]]. apply N.eqb_eq in Heq. subst. exact Hin.
  - intros Hin. exists t. split; [exact Hin|apply N.eqb_refl].
Qed.

Lemma mem_app t l1 l2 : mem t (l1 ++ l2) = mem t l1 || mem t l2.
Proof. unfold mem. apply existsb_app. Qed.

Lemma mem_filter p t l : mem t (filter p l) = p t && mem t l.
Proof.
  induction l as [|a l IH]; cbn [filter mem existsb].
  - rewrite andb_false_r. reflexivity.
  - fold (mem t l). destruct (p a) eqn:Hpa; cbn [existsb]; fold (mem t (filter p l)); rewrite IH.
    + destruct (t =? a) eqn:Hta; cbn [orb].
      * apply N.eqb_eq in Hta. subst. rewrite Hpa. reflexivity.
      * reflexivity.
    + destruct (t =? a) eqn:Hta; cbn [orb].
      * apply N.eqb_eq in Hta. subst. rewrite Hpa. reflexivity.
      * reflexivity.
Qed.

Lemma types_all_small : forallb (fun x => x <? 30) types_all = true.
Proof. vm_compute. reflexivity. Qed.

Lemma types_all_sweep :
  forallb (fun t => Bool.eqb (mem t types_all) ((1 <=? t) && (t <? 30))) (nrange_nat 30) = true.
Proof. vm_compute. reflexivity. Qed.

Lemma mem_types_all t : mem t types_all = (1 <=? t) && (t <? 30).
Proof.
  destruct (N.ltb_spec t 30) as [Hlt|Hge].
  - pose proof types_all_sweep as Hs. rewrite forallb_forall in Hs.
    assert (Hin : In t (nrange_nat 30)) by (apply nrange_nat_in; lia).
    specialize (Hs t Hin). apply eqb_prop in Hs. rewrite Hs.
    assert (Ht : (t <? 30) = true) by (apply N.ltb_lt; exact Hlt). rewrite Ht. reflexivity.
  - rewrite andb_false_r.
    destruct (mem t types_all) eqn:Hm; [|reflexivity].
    apply mem_in in Hm. pose proof types_all_small as Hs. rewrite forallb_forall in Hs.
    specialize (Hs t Hm). apply N.ltb_lt in Hs. lia.
Qed.

Lemma existsb_filter_split {A} (f p : A -> bool) l :
  existsb f l = existsb f (filter p l) || existsb f (filter (fun x => negb (p x)) l).
Proof.
  induction l as [|a l IH]; cbn [filter existsb]; [reflexivity|].
  rewrite IH. destruct (p a); cbn [negb existsb]; btauto.
Qed.

Lemma existsb_ext_eq {A} (f g : A -> bool) l : (forall a, f a = g a) -> existsb f l = existsb g l.
Proof. intros H. induction l as [|a l IH]; cbn [existsb]; [reflexivity|]. rewrite H, IH. reflexivity. Qed.

Lemma existsb_swap {A B} (f : A -> B -> bool) (la : list A) (lb : list B) :
  existsb (fun a => existsb (f a) lb) la = existsb (fun b => existsb (fun a => f a b) la) lb.
Proof.
  induction la as [|a la IH]; cbn [existsb].
  - induction lb as [|b lb IHb]; cbn [existsb]; [reflexivity|exact IHb].
  - rewrite IH. clear IH. induction lb as [|b lb IHb]; cbn [existsb]; [reflexivity|].
    rewrite <- IHb. btauto.
Qed.

(* ---------- the file-type map without duplicate keys is the list itself ---------- *)

Lemma ft_remove_absent k m :
  existsb (beq_bytes k) (map fst m) = false -> ft_remove k m = m.
Proof.
  induction m as [|[k' v] m IH]; cbn [ft_remove map fst existsb]; intros H; [reflexivity|].
  apply orb_false_iff in H as [H1 H2]. rewrite H1. rewrite IH by exact H2. reflexivity.
Qed.

Lemma beq_bytes_sym a b : beq_bytes a b = beq_bytes b a.
Proof.
  destruct (beq_bytes a b) eqn:H1; destruct (beq_bytes b a) eqn:H2; try reflexivity.
  - apply beq_bytes_eq in H1. subst. assert (beq_bytes b b = true) by (apply beq_bytes_eq; reflexivity). congruence.
  - apply beq_bytes_eq in H2. subst. assert (beq_bytes a a = true) by (apply beq_bytes_eq; reflexivity). congruence.
Qed.

Lemma ft_fold_nodup l : forall acc,
  nodup_keys l = true ->
  (forall kv, In kv l -> existsb (beq_bytes (fst kv)) (map fst acc) = false) ->
  fold_left (ft_insert false) l acc = acc ++ l.
Proof.
  induction l as [|kv l IH]; intros acc Hnd Hdis; cbn [fold_left].
  - rewrite app_nil_r. reflexivity.
  - cbn [nodup_keys] in Hnd. apply andb_true_iff in Hnd as [Hk Hnd]. apply negb_true_iff in Hk.
    unfold ft_insert at 2. cbn iota. rewrite ft_remove_absent by (apply Hdis; left; reflexivity).
    rewrite IH; [rewrite <- app_assoc; reflexivity|exact Hnd|].
    intros kv' Hin. rewrite map_app, existsb_app. cbn [map existsb]. rewrite orb_false_r.
    pose proof (Hdis kv' (or_intror Hin)) as Hd. unfold path in *. rewrite Hd. cbn [orb].
    destruct (beq_bytes (fst kv') (fst kv)) eqn:E; [|reflexivity].
    exfalso. rewrite beq_bytes_sym in E.
    assert (Hex : existsb (beq_bytes (fst kv)) (map fst l) = true).
    { apply existsb_exists. exists (fst kv'). split; [apply in_map; exact Hin|exact E]. }
    congruence.
Qed.

Lemma ft_of_list_nodup l : nodup_keys l = true -> ft_of_list false l = l.
Proof.
  intros H. unfold ft_of_list. rewrite ft_fold_nodup; [reflexivity|exact H|].
  intros kv _. reflexivity.
Qed.

(* the repaired map (entries with the same key merged) answers every "is type t silenced for a name matching the key"
   question as the list of rules itself does *)
Section Merge.
  Variable q : path -> bool.
  Variable t : N.
  Let P (kv : path * list N) : bool := q (fst kv) && mem t (snd kv).

  Lemma ft_add_exists k v m : existsb P (ft_add k v m) = existsb P m || (q k && mem t v).
  Proof.
    induction m as [|[k' v'] m IH]; cbn [ft_add existsb].
    - unfold P. cbn [fst snd]. rewrite orb_false_r. reflexivity.
    - destruct (beq_bytes k k') eqn:E; cbn [existsb].
      + apply beq_bytes_eq in E. subst k'. unfold P at 1 3. cbn [fst snd]. rewrite mem_app.
        generalize (existsb P m). intros a. generalize (q k). intros b. generalize (mem t v'). intros c.
        generalize (mem t v). intros e. btauto.
      + rewrite IH. rewrite orb_assoc. reflexivity.
  Qed.

  Lemma ft_fold_merge_exists l : forall acc,
    existsb P (fold_left (ft_insert true) l acc) = existsb P acc || existsb P l.
  Proof.
    induction l as [|[k v] l IH]; intros acc; cbn [fold_left existsb].
    - rewrite orb_false_r. reflexivity.
    - rewrite IH. unfold ft_insert. cbn [fst snd]. rewrite ft_add_exists. unfold P at 4. cbn [fst snd].
      rewrite orb_assoc. reflexivity.
  Qed.

  Lemma ft_of_list_exists merge l :
    merge || nodup_keys l = true -> existsb P (ft_of_list merge l) = existsb P l.
  Proof.
    destruct merge; cbn [orb]; intros H.
    - unfold ft_of_list. rewrite ft_fold_merge_exists. reflexivity.
    - rewrite (ft_of_list_nodup _ H). reflexivity.
  Qed.
End Merge.

(* ---------- the choke point against the intent ---------- *)

Lemma cross_in_gate fx : gate_covers fx = true -> forall t, mem t cross_types = true -> mem t (fx_gate fx) = true.
Proof.
  unfold gate_covers. intros H. rewrite forallb_forall in H. intros t Ht. apply H. apply mem_in. exact Ht.
Qed.

Lemma existsb_negb_mem t l ign : mem t l = true -> mem t ign = false -> existsb (fun x => negb (mem x ign)) l = true.
Proof.
  intros Hin Hn. apply existsb_exists. exists t. split; [apply mem_in; exact Hin|rewrite Hn; reflexivity].
Qed.

Lemma mem_client_on flags t : mem t (client_on_types flags) = negb (client_off flags t) && mem t types_all.
Proof. unfold client_on_types. apply mem_filter. Qed.

Section Law.
  Variable fx : fixes.
  Variable re_ok : path -> bool.
  Variable re_match : path -> path -> bool.
  Notation pm := (pat_match re_ok re_match).
  Notation is_ign := (is_ignore_error_file re_ok re_match).
  Notation vis := (visible fx re_ok re_match).
  Notation handled := (is_handled fx re_ok re_match).
  Notation needed := (need_handle fx re_ok re_match).
  Notation sexcl := (spec_excluded re_ok re_match).
  Notation shandled := (spec_handled re_ok re_match).

  (* client mode: nothing json-only has ever been set (and before the repair of the dead switches nothing is
     white-listed either) *)
  Definition cinv (g : gconf) : Prop :=
    g_json g = false /\ g_file_types g = [] /\ (fx_dead fx = false -> g_open_types g = []) /\ g_has_entry g = false.

  Lemma cinv_default : cinv g_default.
  Proof. repeat split. Qed.

  Lemma client_wf_cons c : client_wf c = true -> exists m fl, c_flags c = m :: fl.
  Proof.
    unfold client_wf. destruct (c_flags c) as [|m fl]; intros H.
    - cbn in H. discriminate.
    - exists m, fl. reflexivity.
  Qed.

  Definition hf_fields (g0 g : gconf) (c : client_cfg) (m : bool) : Prop :=
    g_json g = false /\ g_show g = m
    /\ g_ignore_types g = (if m then filter (client_off (c_flags c)) types_all else g_ignore_types g0 ++ types_all)
    /\ g_open_types g = (if m && fx_dead fx then client_on_types (c_flags c) else g_open_types g0)
    /\ g_handle_folder g = filter (fun p => negb (has_lua_suffix p)) (c_ignore_handle c)
    /\ g_handle_file g = filter has_lua_suffix (c_ignore_handle c)
    /\ g_err_folder g = filter (fun p => negb (has_lua_suffix p)) (c_ignore_err c) ++ [server_meta]
    /\ g_err_file g = filter has_lua_suffix (c_ignore_err c)
    /\ g_file_types g = g_file_types g0
    /\ g_has_entry g = g_has_entry g0.

  Lemma handle_flags_inv g0 c g :
    client_wf c = true -> handle_flags fx re_ok g0 c = Ok g ->
    exists m fl, c_flags c = m :: fl /\ hf_fields g0 g c m.
  Proof.
    intros Hwf H. destruct (client_wf_cons c Hwf) as (m & fl & Hf).
    exists m, fl. split; [exact Hf|].
    unfold handle_flags in H. destruct (compile_all fx re_ok (c_ignore_err c)); [|discriminate].
    rewrite Hf in H.
    destruct m; apply Ok_inj in H; subst g; unfold hf_fields;
      cbn [g_json g_show g_ignore_types g_open_types g_handle_folder g_handle_file g_err_folder g_err_file
           g_file_types g_has_entry andb]; rewrite ?Hf; repeat split.
  Qed.

  Lemma handle_flags_cinv g0 c g :
    client_wf c = true -> cinv g0 -> handle_flags fx re_ok g0 c = Ok g -> cinv g.
  Proof.
    intros Hwf (Hj & Hft & Ho & He) H.
    destruct (handle_flags_inv g0 c g Hwf H) as (m & fl & Hf & Hj' & _ & _ & Ho' & _ & _ & _ & _ & Hft' & He').
    unfold cinv. rewrite Hj', Hft', He'. repeat split; try assumption.
    intros Hd. rewrite Ho', Hd, andb_false_r. exact (Ho Hd).
  Qed.

  Lemma client_choke g0 c g :
    client_wf c = true -> g_file_types g0 = [] -> handle_flags fx re_ok g0 c = Ok g ->
    forall f t, (1 <=? t) && (t <? 30) = true ->
      is_ign g f t = excluded_at re_ok re_match (intent_of_client c) f t.
  Proof.
    intros Hwf Hft0 H f t Hr.
    destruct (handle_flags_inv g0 c g Hwf H) as (m & fl & Hf & _ & Hs & Hi & _ & _ & _ & Hef & Hel & Hft & _).
    unfold is_ignore_error_file, excluded_at, intent_of_client. cbn [i_master i_off i_err i_file_types].
    rewrite Hs, Hi, Hef, Hel, Hft, Hft0, Hf. cbn [hd existsb].
    rewrite !existsb_app. rewrite (existsb_filter_split (pm f) has_lua_suffix (c_ignore_err c)).
    destruct m.
    - rewrite mem_filter, mem_types_all, Hr.
      generalize (client_off (true :: fl) t). intros a.
      generalize (existsb (pm f) (filter has_lua_suffix (c_ignore_err c))). intros b.
      generalize (existsb (pm f) (filter (fun x => negb (has_lua_suffix x)) (c_ignore_err c))). intros b'.
      generalize (existsb (pm f) [server_meta]). intros b''.
      btauto.
    - reflexivity.
  Qed.

  Lemma visible_unfold g root d :
    vis g root d =
      negb (is_ign g (abs_path root (d_file d)) (d_type d)) && gate_ok fx g d && prereq_ok fx re_ok re_match g root d && open_ok g d.
  Proof.
    unfold visible, gate_ok, prereq_ok, open_ok.
    generalize (is_ign g (abs_path root (d_file d)) (d_type d)). intros a.
    generalize (pass_runs fx g (produced_in (d_type d))). intros b.
    generalize (forallb (fun p : N => negb (mem p (g_ignore_types g))) (prereq_types fx (d_type d))). intros c.
    generalize (negb (open_required (d_type d)) || mem (d_type d) (g_open_types g)). intros e.
    destruct (fx_coupled fx); cbn [orb].
    - btauto.
    - destruct (d_ref d) as [r|].
      + generalize (negb (is_ign g (abs_path root r) check_error_no_define)). intros h. btauto.
      + btauto.
  Qed.

  (* a diagnostic that passes the choke point: the master switch is on and its type is not globally ignored *)
  Lemma not_ignored_live g f t : is_ign g f t = false -> g_show g = true /\ mem t (g_ignore_types g) = false.
  Proof.
    unfold is_ignore_error_file. intros H.
    repeat (apply orb_false_iff in H; destruct H as [H ?]).
    apply negb_false_iff in H. auto.
  Qed.

  (* repaired gate: a type the cross-file passes emit keeps them running as long as it is switched on *)
  Lemma gate_ok_fixed g d :
    gate_covers fx = true -> g_show g = true -> mem (d_type d) (g_ignore_types g) = false -> gate_ok fx g d = true.
  Proof.
    intros Hfx Hs Hn. unfold gate_ok, produced_in.
    destruct (mem (d_type d) cross_types) eqn:Hc; [|destruct (mem (d_type d) [18; 29]); reflexivity].
    cbn [pass_runs]. unfold cross_runs, special_check, gate_types. rewrite Hs. cbn [andb].
    rewrite (existsb_negb_mem (d_type d)); [apply orb_true_r|apply (cross_in_gate fx Hfx); exact Hc|exact Hn].
  Qed.

  (* repaired checks: no other type's switch, no other file's rule *)
  Lemma prereq_ok_fixed g root d : fx_coupled fx = true -> prereq_ok fx re_ok re_match g root d = true.
  Proof. intros Hfx. unfold prereq_ok, prereq_types. rewrite Hfx. reflexivity. Qed.

  Lemma visible_fixed g root d :
    gate_covers fx = true -> fx_coupled fx = true ->
    vis g root d = negb (is_ign g (abs_path root (d_file d)) (d_type d)) && open_ok g d.
  Proof.
    intros Hg Hc. rewrite visible_unfold. rewrite (prereq_ok_fixed g root d Hc), andb_true_r.
    destruct (is_ign g (abs_path root (d_file d)) (d_type d)) eqn:Hi; cbn [negb andb]; [reflexivity|].
    destruct (not_ignored_live _ _ _ Hi) as [Hs Hn]. rewrite (gate_ok_fixed g d Hg Hs Hn). reflexivity.
  Qed.

  (* the two lists of the ignore-for-analysis rules are the entries of the intent, filed by their spelling *)
  Definition lists_of (g : gconf) (i : intent) : Prop :=
    g_handle_folder g = filter (fun p => negb (has_lua_suffix p)) (i_handle i)
    /\ g_handle_file g = filter has_lua_suffix (i_handle i).

  (* repaired (isIgnoreRelFile): how an entry was filed no longer matters *)
  Lemma ignore_rel_lists g i rel :
    lists_of g i -> ignore_rel re_ok re_match g rel = existsb (fun p => rule_hits re_ok re_match p rel) (i_handle i).
  Proof.
    intros (Hf & Hl). unfold ignore_rel, ignore_file, ignore_folder, rule_hits. rewrite Hf, Hl.
    rewrite <- (existsb_swap (fun n p => pm n p) (names_of rel) (i_handle i)).
    apply existsb_ext_eq. intros n. symmetry. exact (existsb_filter_split (pm n) has_lua_suffix (i_handle i)).
  Qed.

  (* the walk does not descend into a folder that is an ignored folder - and isIgnoreRelFile refuses every file below *)
  Lemma pruned_is_ignored g rel :
    existsb (ignore_folder re_ok re_match g) (ancestors rel) = true -> ignore_rel re_ok re_match g rel = true.
  Proof.
    intros H. apply existsb_exists in H as (d & Hin & Hd).
    unfold ignore_rel. apply existsb_exists. exists d. split.
    - unfold names_of. right. right. exact Hin.
    - rewrite Hd. apply orb_true_r.
  Qed.

  (* C17_ignore_sites_agree: for EVERY configuration state (whatever put it there) and every file, the directory walk
     scans the file iff the per-file predicate accepts it *)
  Theorem sites_agree g rel : fx_sites fx = true -> handled g rel = needed g rel.
  Proof.
    intros Hfx. unfold is_handled, need_handle, walk_skips_file. rewrite Hfx.
    destruct (existsb (ignore_folder re_ok re_match g) (ancestors rel)) eqn:Hp; cbn [negb andb]; [|reflexivity].
    rewrite (pruned_is_ignored g rel Hp). reflexivity.
  Qed.

  Lemma needed_fixed g i rel : fx_sites fx = true -> lists_of g i -> needed g rel = shandled i rel.
  Proof.
    intros Hfx Hl. unfold need_handle, spec_handled. rewrite Hfx, (ignore_rel_lists g i rel Hl). reflexivity.
  Qed.

  Lemma handled_fixed g i rel : fx_sites fx = true -> lists_of g i -> handled g rel = shandled i rel.
  Proof. intros Hfx Hl. rewrite (sites_agree g rel Hfx). apply needed_fixed; assumption. Qed.

  Lemma sites_ok_fixed g i rel : fx_sites fx = true -> lists_of g i -> sites_ok_at fx re_ok re_match g i rel = true.
  Proof.
    intros Hfx Hl. unfold sites_ok_at. rewrite (handled_fixed g i rel Hfx Hl), (needed_fixed g i rel Hfx Hl).
    rewrite eqb_reflx. reflexivity.
  Qed.

  (* the final configuration state does what the intent says, up to the three extra conditions *)
  Definition realises (g : gconf) (i : intent) : Prop :=
    (forall root d, type_ok d = true ->
       vis g root d = negb (sexcl i root d) && gate_ok fx g d && prereq_ok fx re_ok re_match g root d && open_ok g d)
    /\ lists_of g i.

  (* ... and the white list admits whatever the intent does not exclude *)
  Definition opens (g : gconf) (i : intent) : Prop :=
    forall root d, type_ok d = true -> sexcl i root d = false -> open_ok g d = true.

  (* ... and lets through the choke point whatever the intent does not exclude *)
  Definition passes (g : gconf) (i : intent) : Prop :=
    forall root d, type_ok d = true -> sexcl i root d = false -> is_ign g (abs_path root (d_file d)) (d_type d) = false.

  (* with the repairs of the analysis side (gate, coupled checks): the state does EXACTLY what the intent says *)
  Lemma realises_exact g i root d :
    gate_covers fx = true -> fx_coupled fx = true -> realises g i -> passes g i -> opens g i -> type_ok d = true ->
    vis g root d = negb (sexcl i root d).
  Proof.
    intros Hg Hc (Hv & _) Hp Ho Hty.
    destruct (sexcl i root d) eqn:He.
    - rewrite (Hv root d Hty), He. reflexivity.
    - rewrite visible_fixed by assumption.
      rewrite (Hp root d Hty He), (Ho root d Hty He). reflexivity.
  Qed.

  Lemma realises_client g0 c g :
    client_wf c = true -> cinv g0 -> handle_flags fx re_ok g0 c = Ok g -> realises g (intent_of_client c).
  Proof.
    intros Hwf (_ & Hft0 & _ & _) H. split.
    - intros root d Hty. rewrite visible_unfold. unfold spec_excluded.
      rewrite (client_choke g0 c g Hwf Hft0 H) by exact Hty. reflexivity.
    - destruct (handle_flags_inv g0 c g Hwf H) as (m & fl & Hf & _ & _ & _ & _ & Hhf & Hhl & _ & _ & _ & _).
      split; [exact Hhf|exact Hhl].
  Qed.

  Lemma passes_client g0 c g :
    client_wf c = true -> cinv g0 -> handle_flags fx re_ok g0 c = Ok g -> passes g (intent_of_client c).
  Proof.
    intros Hwf (_ & Hft0 & _ & _) H root d Hty He. unfold spec_excluded in He.
    rewrite (client_choke g0 c g Hwf Hft0 H) by exact Hty. exact He.
  Qed.

  (* repaired handleNotJSONCheckFlag: a switch that is on opens its type *)
  Lemma opens_client g0 c g :
    fx_dead fx = true -> client_wf c = true -> handle_flags fx re_ok g0 c = Ok g -> opens g (intent_of_client c).
  Proof.
    intros Hd Hwf H root d Hty He.
    destruct (handle_flags_inv g0 c g Hwf H) as (m & fl & Hf & _ & _ & _ & Ho & _).
    unfold spec_excluded, excluded_at, intent_of_client in He. cbn [i_master i_off] in He.
    repeat (apply orb_false_iff in He; destruct He as [He ?]).
    rewrite Hf in He. cbn [hd] in He. apply negb_false_iff in He. subst m.
    unfold open_ok. rewrite Ho, Hd. cbn [andb]. rewrite mem_client_on, mem_types_all.
    unfold type_ok in Hty. rewrite Hty, andb_true_r.
    match goal with H0 : client_off _ _ = false |- _ => rewrite H0 end. apply orb_true_r.
  Qed.

  Lemma read_json_inv g0 j g :
    read_json fx re_ok g0 j = Ok g ->
    g = {| g_json := true; g_show := (j_show j =? 1);
           g_ignore_types := j_ignore_types j; g_open_types := j_open_types j;
           g_handle_folder := filter (fun p => negb (has_lua_suffix p)) (j_ignore_handle j);
           g_handle_file := filter has_lua_suffix (j_ignore_handle j);
           g_err_folder := filter (fun p => negb (has_lua_suffix p)) (j_ignore_err j) ++ [server_meta];
           g_err_file := filter has_lua_suffix (j_ignore_err j);
           g_file_types := ft_of_list (fx_dup fx) (j_file_types j);
           g_has_entry := j_has_entry j; g_var_map := true |}.
  Proof.
    unfold read_json. destruct (_ && _); [|discriminate]. intros H. apply Ok_inj in H. subst g. reflexivity.
  Qed.

  Lemma realises_json g0 j g :
    fx_dup fx || nodup_keys (j_file_types j) = true -> read_json fx re_ok g0 j = Ok g -> realises g (intent_of_json j).
  Proof.
    intros Hnd H. apply read_json_inv in H. subst g. split.
    - intros root d Hty. rewrite visible_unfold.
      unfold spec_excluded, excluded_at, is_ignore_error_file, open_ok, intent_of_json.
      cbn [g_show g_ignore_types g_err_folder g_err_file g_file_types g_open_types i_master i_off i_err i_file_types].
      rewrite (ft_of_list_exists (pm (abs_path root (d_file d))) (d_type d) _ _ Hnd).
      rewrite !existsb_app. rewrite (existsb_filter_split (pm (abs_path root (d_file d))) has_lua_suffix (j_ignore_err j)).
      set (f := abs_path root (d_file d)).
      generalize (existsb (fun kv : path * list N => pm f (fst kv) && mem (d_type d) (snd kv)) (j_file_types j)). intros a.
      generalize (existsb (pm f) (filter has_lua_suffix (j_ignore_err j))). intros b.
      generalize (existsb (pm f) (filter (fun x => negb (has_lua_suffix x)) (j_ignore_err j))). intros b'.
      generalize (existsb (pm f) [server_meta]). intros b''.
      generalize (mem (d_type d) (j_ignore_types j)). intros m.
      generalize (mem (d_type d) (j_open_types j)). intros o.
      generalize (open_required (d_type d)). intros q.
      generalize (j_show j =? 1). intros s.
      match goal with |- context [gate_ok fx ?g d] => generalize (gate_ok fx g d) end. intros x.
      match goal with |- context [prereq_ok fx re_ok re_match ?g root d] => generalize (prereq_ok fx re_ok re_match g root d) end. intros y.
      btauto.
    - split; reflexivity.
  Qed.

  Lemma passes_json g0 j g :
    fx_dup fx || nodup_keys (j_file_types j) = true -> read_json fx re_ok g0 j = Ok g -> passes g (intent_of_json j).
  Proof.
    intros Hnd H root d Hty He. apply read_json_inv in H. subst g.
    unfold spec_excluded, excluded_at, intent_of_json in He. cbn [i_master i_off i_err i_file_types] in He.
    unfold is_ignore_error_file. cbn [g_show g_ignore_types g_err_folder g_err_file g_file_types].
    rewrite (ft_of_list_exists (pm (abs_path root (d_file d))) (d_type d) _ _ Hnd).
    rewrite !existsb_app in *.
    rewrite (existsb_filter_split (pm (abs_path root (d_file d))) has_lua_suffix (j_ignore_err j)) in He.
    repeat match goal with H0 : _ || _ = false |- _ => apply orb_false_iff in H0; destruct H0 end.
    repeat match goal with H0 : _ = false |- _ => rewrite H0; clear H0 end.
    reflexivity.
  Qed.

  (* luahelper.json: OpenErrorTypes is part of the intent, whatever the variant of the code *)
  Lemma opens_json g0 j g : read_json fx re_ok g0 j = Ok g -> opens g (intent_of_json j).
  Proof.
    intros H root d Hty He. apply read_json_inv in H. subst g.
    unfold spec_excluded, excluded_at, intent_of_json in He. cbn [i_master i_off] in He.
    repeat match goal with H0 : _ || _ = false |- _ => apply orb_false_iff in H0; destruct H0 end.
    unfold open_ok. cbn [g_open_types].
    destruct (open_required (d_type d)); cbn [negb orb andb] in *; [|reflexivity].
    match goal with H0 : negb _ = false |- _ => apply negb_false_iff in H0; exact H0 end.
  Qed.
End Law.

(* ---------- whole sessions: init, then any number of settings changes ---------- *)

Lemma last_indep {A} (l : list A) d d' : l <> [] -> last l d = last l d'.
Proof.
  induction l as [|a l IH]; intros Hne; [congruence|].
  destruct l as [|b l]; [reflexivity|].
  change (last (b :: l) d = last (b :: l) d'). apply IH. discriminate.
Qed.

Lemma last_cons_default {A} (a : A) l d : last (a :: l) d = last l a.
Proof.
  destruct l as [|b l]; [reflexivity|].
  change (last (b :: l) d = last (b :: l) a). apply last_indep. discriminate.
Qed.

Section Sessions.
  Variable fx : fixes.
  Variable re_ok : path -> bool.
  Variable re_match : path -> path -> bool.

  Lemma changes_json : forall cs s s',
    g_json (s_g s) = true -> changes fx re_ok s cs = Ok s' -> s_g s' = s_g s.
  Proof.
    induction cs as [|c cs IH]; intros s s' Hj H; cbn [changes] in H.
    - apply Ok_inj in H. subst. reflexivity.
    - unfold change in H. destruct (negb (s_changed s)).
      + cbn [rbind] in H. apply IH in H; [exact H|exact Hj].
      + rewrite Hj in H. cbn [rbind] in H. apply IH in H; [exact H|exact Hj].
  Qed.

  Lemma session_json jc c lr cs s :
    session fx re_ok (Some jc) c lr cs = Ok s -> read_json fx re_ok g_default jc = Ok (s_g s).
  Proof.
    unfold session, init. destruct (read_json fx re_ok g_default jc) as [g| |] eqn:Hr; cbn [rbind]; try discriminate.
    pose proof (read_json_inv fx re_ok g_default jc g Hr) as Hg.
    assert (Hvm : g_var_map g = true) by (rewrite Hg; reflexivity).
    rewrite Hvm. cbn [negb]. rewrite andb_false_r. cbn [andb rbind].
    intros H. apply changes_json in H.
    - cbn [s_g] in H. rewrite H. reflexivity.
    - cbn [s_g]. rewrite Hg. reflexivity.
  Qed.

  Definition from_client (g : gconf) (c : client_cfg) : Prop :=
    exists g0, cinv fx g0 /\ handle_flags fx re_ok g0 c = Ok g.

  Lemma from_client_cinv g c : client_wf c = true -> from_client g c -> cinv fx g.
  Proof. intros Hwf (g0 & Hc & H). exact (handle_flags_cinv fx re_ok g0 c g Hwf Hc H). Qed.

  Lemma changes_client : forall cs s c s',
    s_changed s = true -> client_wf c = true -> forallb client_wf cs = true ->
    from_client (s_g s) c -> changes fx re_ok s cs = Ok s' ->
    from_client (s_g s') (last cs c) /\ client_wf (last cs c) = true.
  Proof.
    induction cs as [|c2 cs IH]; intros s c s' Hch Hwf Hwfs Hfc H; cbn [changes] in H.
    - apply Ok_inj in H. subst. cbn [last]. auto.
    - cbn [forallb] in Hwfs. apply andb_true_iff in Hwfs as [Hwf2 Hwfs].
      unfold change in H. rewrite Hch in H. cbn [negb] in H.
      destruct (from_client_cinv _ _ Hwf Hfc) as (Hj & _). pose proof (from_client_cinv _ _ Hwf Hfc) as Hci.
      rewrite Hj in H.
      destruct (handle_flags fx re_ok (s_g s) c2) as [g'| |] eqn:Hh; cbn [rbind] in H; try discriminate.
      rewrite last_cons_default.
      apply (IH _ c2 s') in H; [exact H|reflexivity|exact Hwf2|exact Hwfs|].
      cbn [s_g]. exists (s_g s). auto.
  Qed.

  Lemma session_client c lr cs s :
    client_wf c = true -> forallb client_wf cs = true ->
    session fx re_ok None c lr cs = Ok s ->
    from_client (s_g s) (effective_client c cs) /\ client_wf (effective_client c cs) = true.
  Proof.
    intros Hwf Hwfs. unfold session, init.
    destruct (handle_flags fx re_ok g_default c) as [g1| |] eqn:H0; cbn [rbind]; try discriminate.
    destruct (lr && negb (g_var_map g1) && negb (fx_regexp fx)); cbn [rbind]; try discriminate.
    assert (Hfc : from_client g1 c) by (exists g_default; split; [apply cinv_default|exact H0]).
    destruct cs as [|c1 cs]; cbn [changes effective_client].
    - intros H. apply Ok_inj in H. subst. cbn [s_g]. auto.
    - unfold change at 1. cbn [s_changed negb rbind s_g].
      cbn [forallb] in Hwfs. apply andb_true_iff in Hwfs as [_ Hwfs].
      intros H. apply (changes_client cs _ c s) in H; auto.
  Qed.

  Theorem session_realises j c lr cs s :
    json_wf fx j = true -> client_wf c = true -> forallb client_wf cs = true ->
    session fx re_ok j c lr cs = Ok s ->
    realises fx re_ok re_match (s_g s) (session_intent j c cs).
  Proof.
    intros Hj Hwf Hwfs H. destruct j as [jc|]; unfold session_intent, intent_of.
    - apply session_json in H. exact (realises_json fx re_ok re_match g_default jc (s_g s) Hj H).
    - destruct (session_client c lr cs s Hwf Hwfs H) as ((g0 & Hc & Hh) & Hwfe).
      exact (realises_client fx re_ok re_match g0 _ (s_g s) Hwfe Hc Hh).
  Qed.

  Lemma session_passes j c lr cs s :
    json_wf fx j = true -> client_wf c = true -> forallb client_wf cs = true ->
    session fx re_ok j c lr cs = Ok s ->
    passes re_ok re_match (s_g s) (session_intent j c cs).
  Proof.
    intros Hj Hwf Hwfs H. destruct j as [jc|]; unfold session_intent, intent_of.
    - apply session_json in H. exact (passes_json fx re_ok re_match g_default jc (s_g s) Hj H).
    - destruct (session_client c lr cs s Hwf Hwfs H) as ((g0 & Hc & Hh) & Hwfe).
      exact (passes_client fx re_ok re_match g0 _ (s_g s) Hwfe Hc Hh).
  Qed.

  Lemma session_opens j c lr cs s :
    fx_dead fx = true -> client_wf c = true -> forallb client_wf cs = true ->
    session fx re_ok j c lr cs = Ok s ->
    opens re_ok re_match (s_g s) (session_intent j c cs).
  Proof.
    intros Hd Hwf Hwfs H. destruct j as [jc|]; unfold session_intent, intent_of.
    - apply session_json in H. exact (opens_json fx re_ok re_match g_default jc (s_g s) H).
    - destruct (session_client c lr cs s Hwf Hwfs H) as ((g0 & Hc & Hh) & Hwfe).
      exact (opens_client fx re_ok re_match g0 _ (s_g s) Hd Hwfe Hh).
  Qed.

  (* with luahelper.json the white list is part of the intent in every variant of the code *)
  Lemma session_opens_json jc c lr cs s :
    session fx re_ok (Some jc) c lr cs = Ok s ->
    opens re_ok re_match (s_g s) (session_intent (Some jc) c cs).
  Proof. intros H. apply session_json in H. exact (opens_json fx re_ok re_match g_default jc (s_g s) H). Qed.

  (* pointwise law under the guard *)
  Lemma guarded_visible g i root d :
    realises fx re_ok re_match g i -> diag_guard fx re_ok re_match g i root d = true ->
    visible fx re_ok re_match g root d = negb (spec_excluded re_ok re_match i root d).
  Proof.
    intros (Hv & _) Hg. unfold diag_guard in Hg. apply andb_true_iff in Hg as [Hty Hg].
    rewrite (Hv root d Hty).
    destruct (spec_excluded re_ok re_match i root d); cbn [negb andb orb] in *; [reflexivity|].
    rewrite Hg. reflexivity.
  Qed.

  (* the repaired code, one diagnostic at a time: visible = not excluded by the intent. Nothing else. *)
  Theorem session_visible_exact root j c lr cs s d :
    gate_covers fx = true -> fx_coupled fx = true -> fx_dead fx = true -> fx_dup fx = true ->
    client_wf c = true -> forallb client_wf cs = true ->
    session fx re_ok j c lr cs = Ok s -> type_ok d = true ->
    visible fx re_ok re_match (s_g s) root d = negb (spec_excluded re_ok re_match (session_intent j c cs) root d).
  Proof.
    intros Hg Hc Hd Hu Hwf Hwfs H Hty.
    assert (Hj : json_wf fx j = true) by (unfold json_wf; rewrite Hu; reflexivity).
    apply realises_exact; try assumption.
    - exact (session_realises j c lr cs s Hj Hwf Hwfs H).
    - exact (session_passes j c lr cs s Hj Hwf Hwfs H).
    - exact (session_opens j c lr cs s Hd Hwf Hwfs H).
  Qed.

  Variable raw : list path -> list diag.

  Theorem filter_law_guarded root files j c lr cs s :
    json_wf fx j = true -> client_wf c = true -> forallb client_wf cs = true ->
    session fx re_ok j c lr cs = Ok s ->
    walk_ok fx re_ok re_match (s_g s) (session_intent j c cs) files = true ->
    forallb (diag_guard fx re_ok re_match (s_g s) (session_intent j c cs) root)
            (raw (filter (is_handled fx re_ok re_match (s_g s)) files)) = true ->
    shown fx re_ok re_match raw (s_g s) root files
      = spec_shown re_ok re_match raw (session_intent j c cs) root files.
  Proof.
    intros Hj Hwf Hwfs H Hw Hg.
    pose proof (session_realises j c lr cs s Hj Hwf Hwfs H) as Hr.
    unfold shown, spec_shown.
    assert (Hf : filter (is_handled fx re_ok re_match (s_g s)) files
                 = filter (spec_handled re_ok re_match (session_intent j c cs)) files).
    { apply filter_ext_in. intros rel Hin. unfold walk_ok in Hw. rewrite forallb_forall in Hw.
      apply eqb_prop. apply Hw. exact Hin. }
    rewrite <- Hf. apply filter_ext_in. intros d Hin.
    rewrite forallb_forall in Hg. apply guarded_visible; [exact Hr|apply Hg; exact Hin].
  Qed.

  (* the filter law of the repaired code: no guard on the configuration; the only premise is that the analysis reports
     diagnostics of the existing types 1..29 *)
  Theorem filter_law root files j c lr cs s :
    gate_covers fx = true -> fx_coupled fx = true -> fx_dead fx = true -> fx_dup fx = true -> fx_sites fx = true ->
    client_wf c = true -> forallb client_wf cs = true ->
    session fx re_ok j c lr cs = Ok s ->
    forallb type_ok (raw (filter (spec_handled re_ok re_match (session_intent j c cs)) files)) = true ->
    shown fx re_ok re_match raw (s_g s) root files
      = spec_shown re_ok re_match raw (session_intent j c cs) root files.
  Proof.
    intros Hg Hc Hd Hu Hsi Hwf Hwfs H Hty.
    assert (Hj : json_wf fx j = true) by (unfold json_wf; rewrite Hu; reflexivity).
    pose proof (session_realises j c lr cs s Hj Hwf Hwfs H) as Hr.
    unfold shown, spec_shown.
    assert (Hf : filter (is_handled fx re_ok re_match (s_g s)) files
                 = filter (spec_handled re_ok re_match (session_intent j c cs)) files).
    { apply filter_ext. intros rel. apply handled_fixed; [exact Hsi|exact (proj2 Hr)]. }
    rewrite Hf. apply filter_ext_in. intros d Hin.
    rewrite forallb_forall in Hty.
    apply (session_visible_exact root j c lr cs s d); try assumption. apply Hty. exact Hin.
  Qed.

  (* and whatever the guard says: what is shown is always a subset of what the intent allows, except for the
     replaced duplicate rule (json_wf) - the code never shows a diagnostic the configuration excludes *)
  Theorem never_shows_excluded root j c lr cs s d :
    json_wf fx j = true -> client_wf c = true -> forallb client_wf cs = true ->
    session fx re_ok j c lr cs = Ok s -> type_ok d = true ->
    visible fx re_ok re_match (s_g s) root d = true ->
    spec_excluded re_ok re_match (session_intent j c cs) root d = false.
  Proof.
    intros Hj Hwf Hwfs H Hty Hv.
    destruct (session_realises j c lr cs s Hj Hwf Hwfs H) as (Hr & _).
    rewrite (Hr root d Hty) in Hv.
    destruct (spec_excluded re_ok re_match (session_intent j c cs) root d); [discriminate|reflexivity].
  Qed.

  (* the class predicates of the four repaired defects are empty on the repaired code *)
  Lemma classes_empty root j c lr cs s d :
    gate_covers fx = true -> fx_coupled fx = true -> fx_dead fx = true -> fx_dup fx = true ->
    client_wf c = true -> forallb client_wf cs = true ->
    session fx re_ok j c lr cs = Ok s -> type_ok d = true ->
    cls_special_gate fx re_ok re_match (s_g s) (session_intent j c cs) root d = false
    /\ cls_coupled fx re_ok re_match (s_g s) (session_intent j c cs) root d = false
    /\ cls_dead_flag re_ok re_match (s_g s) (session_intent j c cs) root d = false
    /\ json_wf fx j = true.
  Proof.
    intros Hg Hc Hd Hu Hwf Hwfs H Hty.
    assert (Hj : json_wf fx j = true) by (unfold json_wf; rewrite Hu; reflexivity).
    unfold cls_special_gate, cls_coupled, cls_dead_flag.
    destruct (spec_excluded re_ok re_match (session_intent j c cs) root d) eqn:He; cbn [negb andb]; [auto|].
    pose proof (session_passes j c lr cs s Hj Hwf Hwfs H root d Hty He) as Hp.
    destruct (not_ignored_live _ _ _ _ _ Hp) as [Hs Hn].
    rewrite (gate_ok_fixed fx (s_g s) d Hg Hs Hn), (prereq_ok_fixed fx re_ok re_match (s_g s) root d Hc).
    rewrite (session_opens j c lr cs s Hd Hwf Hwfs H root d Hty He). auto.
  Qed.
End Sessions.

(* ---------- the three delivery routes ---------- *)

Section Routes.
  Variable fx : fixes.
  Variable re_ok : path -> bool.
  Variable re_match : path -> path -> bool.

  Definition obs_eq (g1 g2 : gconf) : Prop :=
    (forall root d, visible fx re_ok re_match g1 root d = visible fx re_ok re_match g2 root d)
    /\ (forall rel, is_handled fx re_ok re_match g1 rel = is_handled fx re_ok re_match g2 rel)
    /\ (forall rel, need_handle fx re_ok re_match g1 rel = need_handle fx re_ok re_match g2 rel).

  Lemma visible_hidden g root d : g_show g = false -> visible fx re_ok re_match g root d = false.
  Proof. intros H. unfold visible, is_ignore_error_file. rewrite H. reflexivity. Qed.

  Lemma visible_fields g1 g2 root d :
    g_show g1 = g_show g2 -> g_ignore_types g1 = g_ignore_types g2 -> g_open_types g1 = g_open_types g2 ->
    g_err_folder g1 = g_err_folder g2 -> g_err_file g1 = g_err_file g2 -> g_file_types g1 = g_file_types g2 ->
    g_has_entry g1 = g_has_entry g2 ->
    visible fx re_ok re_match g1 root d = visible fx re_ok re_match g2 root d.
  Proof.
    intros H1 H2 H3 H4 H5 H6 H7.
    unfold visible, is_ignore_error_file, pass_runs, cross_runs, special_check.
    rewrite H1, H2, H3, H4, H5, H6, H7. reflexivity.
  Qed.

  Lemma is_handled_fields g1 g2 rel :
    g_handle_folder g1 = g_handle_folder g2 -> g_handle_file g1 = g_handle_file g2 ->
    is_handled fx re_ok re_match g1 rel = is_handled fx re_ok re_match g2 rel.
  Proof.
    intros H1 H2. unfold is_handled, walk_skips_file, ignore_rel, ignore_folder, ignore_file. rewrite H1, H2. reflexivity.
  Qed.

  Lemma need_handle_fields g1 g2 rel :
    g_handle_folder g1 = g_handle_folder g2 -> g_handle_file g1 = g_handle_file g2 ->
    need_handle fx re_ok re_match g1 rel = need_handle fx re_ok re_match g2 rel.
  Proof.
    intros H1 H2. unfold need_handle, ignore_rel, ignore_folder, ignore_file. rewrite H1, H2. reflexivity.
  Qed.

  (* the white list after a client configuration with the master switch on *)
  Lemma client_open_types a g c fl :
    cinv fx a -> c_flags c = true :: fl -> hf_fields fx a g c true ->
    g_open_types g = if fx_dead fx then client_on_types (c_flags c) else [].
  Proof.
    intros (_ & _ & Ho & _) Hf (_ & _ & _ & Hog & _). rewrite Hog. cbn [andb].
    destruct (fx_dead fx); [reflexivity|apply Ho; reflexivity].
  Qed.

  Lemma from_client_obs g1 g2 c :
    client_wf c = true -> from_client fx re_ok g1 c -> from_client fx re_ok g2 c -> obs_eq g1 g2.
  Proof.
    intros Hwf (a & Hca & Ha) (b & Hcb & Hb).
    destruct (handle_flags_inv fx re_ok a c g1 Hwf Ha) as (m & fl & Hf & Hall1).
    destruct (handle_flags_inv fx re_ok b c g2 Hwf Hb) as (m' & fl' & Hf' & Hall2).
    rewrite Hf in Hf'. injection Hf' as <- <-.
    pose proof Hall1 as (_ & Hs1 & Hi1 & _ & Hhf1 & Hhl1 & Hef1 & Hel1 & Hft1 & He1).
    pose proof Hall2 as (_ & Hs2 & Hi2 & _ & Hhf2 & Hhl2 & Hef2 & Hel2 & Hft2 & He2).
    pose proof Hca as (_ & Hfta & _ & Hea). pose proof Hcb as (_ & Hftb & _ & Heb).
    split.
    - intros root d. destruct m.
      + apply visible_fields; try congruence.
        rewrite (client_open_types a g1 c fl Hca Hf Hall1), (client_open_types b g2 c fl Hcb Hf Hall2). reflexivity.
      + rewrite !visible_hidden by assumption. reflexivity.
    - split; intros rel; [apply is_handled_fields|apply need_handle_fields]; congruence.
  Qed.

  Lemma from_client_json_obs g1 g3 c :
    client_wf c = true -> from_client fx re_ok g1 c ->
    read_json fx re_ok g_default (to_json fx c) = Ok g3 -> obs_eq g1 g3.
  Proof.
    intros Hwf (a & Hca & Ha) H3.
    destruct (handle_flags_inv fx re_ok a c g1 Hwf Ha) as (m & fl & Hf & Hall1).
    pose proof Hall1 as (_ & Hs1 & Hi1 & _ & Hhf1 & Hhl1 & Hef1 & Hel1 & Hft1 & He1).
    pose proof Hca as (_ & Hfta & _ & Hea).
    apply read_json_inv in H3. subst g3.
    split.
    - intros root d. destruct m.
      + apply visible_fields;
          cbn [g_show g_ignore_types g_open_types g_err_folder g_err_file g_file_types g_has_entry to_json
               j_show j_ignore_types j_open_types j_ignore_err j_file_types j_has_entry].
        * rewrite Hs1, Hf. reflexivity.
        * rewrite Hi1. reflexivity.
        * exact (client_open_types a g1 c fl Hca Hf Hall1).
        * exact Hef1.
        * exact Hel1.
        * rewrite Hft1, Hfta. destruct (fx_dup fx); reflexivity.
        * congruence.
      + rewrite !visible_hidden; [reflexivity| |assumption].
        cbn [g_show j_show to_json]. rewrite Hf. reflexivity.
    - split; intros rel; [apply is_handled_fields|apply need_handle_fields];
        cbn [g_handle_folder g_handle_file j_ignore_handle to_json]; congruence.
  Qed.

  (* the same client configuration c delivered (1) as initializationOptions, (2) by a later settings change after an
     arbitrary earlier history, (3) as the equivalent luahelper.json (whatever the client then sends) *)
  Theorem same_by_all_routes c c0 csync cmid cany cs_any l1 l2 l3 s1 s2 s3 :
    client_wf c = true -> client_wf c0 = true -> client_wf csync = true -> forallb client_wf cmid = true ->
    session fx re_ok None c l1 [] = Ok s1 ->
    session fx re_ok None c0 l2 (csync :: cmid ++ [c]) = Ok s2 ->
    session fx re_ok (Some (to_json fx c)) cany l3 cs_any = Ok s3 ->
    obs_eq (s_g s1) (s_g s2) /\ obs_eq (s_g s1) (s_g s3).
  Proof.
    intros Hwf Hwf0 Hwfs Hwfm H1 H2 H3.
    destruct (session_client fx re_ok c l1 [] s1 Hwf eq_refl H1) as (F1 & _). cbn [effective_client] in F1.
    assert (Hall : forallb client_wf (csync :: cmid ++ [c]) = true).
    { cbn [forallb]. rewrite Hwfs. rewrite forallb_app. rewrite Hwfm. cbn [forallb]. rewrite Hwf. reflexivity. }
    destruct (session_client fx re_ok c0 l2 _ s2 Hwf0 Hall H2) as (F2 & _).
    cbn [effective_client] in F2. rewrite last_last in F2.
    split.
    - exact (from_client_obs (s_g s1) (s_g s2) c Hwf F1 F2).
    - apply session_json in H3. exact (from_client_json_obs (s_g s1) (s_g s3) c Hwf F1 H3).
  Qed.

  (* observationally equal states show the same diagnostics, whatever the analysis produces *)
  Lemma obs_eq_shown raw g1 g2 root files :
    obs_eq g1 g2 -> shown fx re_ok re_match raw g1 root files = shown fx re_ok re_match raw g2 root files.
  Proof.
    intros (Hv & Hh & _). unfold shown.
    rewrite (filter_ext _ _ Hh). apply filter_ext. intros d. apply Hv.
  Qed.

  (* luahelper.json present: nothing the client sends changes the outcome *)
  Theorem json_ignores_client jc c c' l l' cs cs' s s' :
    session fx re_ok (Some jc) c l cs = Ok s -> session fx re_ok (Some jc) c' l' cs' = Ok s' -> s_g s = s_g s'.
  Proof.
    intros H H'. apply session_json in H. apply session_json in H'. rewrite H in H'. apply Ok_inj in H'. exact H'.
  Qed.
End Routes.

(* ---------- malformed patterns ---------- *)

Section Faults.
  Variable re_ok : path -> bool.

  Lemma handle_flags_ok_ex fx g c :
    compile_all fx re_ok (c_ignore_err c) = true ->
    exists g', handle_flags fx re_ok g c = Ok g' /\ (hd false (c_flags c) = true -> g_var_map g' = true).
  Proof.
    intros H. unfold handle_flags. rewrite H.
    destruct (c_flags c) as [|m fl]; [eexists; split; [reflexivity|cbn [hd]; discriminate]|].
    destruct m; eexists; (split; [reflexivity|cbn [hd g_var_map]; congruence]).
  Qed.

  Lemma changes_ok_ex fx : forall cs s,
    forallb (fun c => compile_all fx re_ok (c_ignore_err c)) cs = true ->
    exists s', changes fx re_ok s cs = Ok s'.
  Proof.
    induction cs as [|c cs IH]; intros s H; cbn [changes].
    - eexists; reflexivity.
    - cbn [forallb] in H. apply andb_true_iff in H as [Hc H].
      unfold change. destruct (negb (s_changed s)); cbn [rbind]; [apply IH; exact H|].
      destruct (g_json (s_g s)); cbn [rbind]; [apply IH; exact H|].
      destruct (handle_flags_ok_ex fx (s_g s) c Hc) as (g' & Hg & _). rewrite Hg. cbn [rbind]. apply IH; exact H.
  Qed.

  Definition session_patterns_ok (fx : fixes) (j : option json_cfg) (c : client_cfg) (cs : list client_cfg) : bool :=
    match j with
    | Some jc => compile_all fx re_ok (map fst (j_file_types jc)) && compile_all fx re_ok (j_ignore_err jc)
    | None => compile_all fx re_ok (c_ignore_err c)
    end && forallb (fun c => compile_all fx re_ok (c_ignore_err c)) cs.

  (* LocalRun is harmless with luahelper.json or with the master switch on *)
  Definition local_ok (j : option json_cfg) (c : client_cfg) (lr : bool) : bool :=
    negb lr || match j with Some _ => true | None => hd false (c_flags c) end.

  Theorem session_no_fault fx j c lr cs :
    session_patterns_ok fx j c cs = true -> fx_regexp fx || local_ok j c lr = true ->
    exists s, session fx re_ok j c lr cs = Ok s.
  Proof.
    unfold session_patterns_ok, local_ok. intros H Hl. apply andb_true_iff in H as [H0 Hcs].
    unfold session, init. destruct j as [jc|].
    - unfold read_json. rewrite H0. cbn [rbind g_var_map negb]. rewrite andb_false_r. cbn [andb rbind].
      apply changes_ok_ex. exact Hcs.
    - destruct (handle_flags_ok_ex fx g_default c H0) as (g' & Hg & Hvm). rewrite Hg. cbn [rbind].
      assert (Hz : lr && negb (g_var_map g') && negb (fx_regexp fx) = false).
      { destruct (fx_regexp fx); [rewrite andb_false_r; reflexivity|]. cbn [orb] in Hl.
        destruct lr; [|reflexivity]. cbn [negb orb] in Hl. rewrite (Hvm Hl). reflexivity. }
      rewrite Hz. cbn [rbind]. apply changes_ok_ex. exact Hcs.
  Qed.

  (* the repaired code (the two fix: commits of round 1) never faults, whatever the settings *)
  Theorem fixed_never_faults fx j c lr cs :
    fx_regexp fx = true -> exists s, session fx re_ok j c lr cs = Ok s.
  Proof.
    intros Hfx. apply session_no_fault; [|rewrite Hfx; reflexivity]. unfold session_patterns_ok, compile_all.
    rewrite Hfx. cbn [orb].
    destruct j; cbn [andb]; induction cs; cbn [forallb andb]; auto.
  Qed.

  (* before the repair: LocalRun with the master switch off: initialize writes into the nil map IgnoreVarMap *)
  Theorem local_master_off_faults fx c fl :
    fx_regexp fx = false ->
    c_flags c = false :: fl -> compile_all fx re_ok (c_ignore_err c) = true ->
    init fx re_ok None c true = Fault NilDeref.
  Proof.
    intros Hfx Hf Hc. unfold init, handle_flags. rewrite Hc, Hf, Hfx. cbn [rbind g_var_map g_default andb negb]. reflexivity.
  Qed.

  (* the code before the repair: a pattern that does not compile in IgnoreFileOrDirError kills initialize *)
  Theorem init_faults_iff fx c lr :
    fx_regexp fx = false ->
    (init fx re_ok None c lr = Fault Regexp <-> forallb re_ok (c_ignore_err c) = false).
  Proof.
    intros Hfx. unfold init, handle_flags, compile_all. rewrite Hfx. cbn [orb].
    destruct (forallb re_ok (c_ignore_err c)); cbn [rbind].
    - split; [|discriminate].
      destruct (c_flags c) as [|m fl]; [|destruct m]; cbn [rbind];
        match goal with |- context [if ?b then _ else _] => destruct b end; discriminate.
    - split; reflexivity.
  Qed.

  (* where no pattern is malformed the regexp repair changes nothing *)
  Lemma handle_flags_fixed_same a b d e si li g c :
    forallb re_ok (c_ignore_err c) = true ->
    handle_flags {| fx_regexp := false; fx_gate := a; fx_coupled := b; fx_dead := d; fx_dup := e; fx_sites := si; fx_live := li |} re_ok g c
    = handle_flags {| fx_regexp := true; fx_gate := a; fx_coupled := b; fx_dead := d; fx_dup := e; fx_sites := si; fx_live := li |} re_ok g c.
  Proof. intros H. unfold handle_flags, compile_all. cbn [fx_regexp fx_dead]. rewrite H. reflexivity. Qed.
End Faults.

(* ---------- configuration-level sufficient conditions for the guard (code before the repairs) ---------- *)

Section Simple.
  Variable fx : fixes.
  Variable re_ok : path -> bool.
  Variable re_match : path -> path -> bool.

  (* a diagnostic that is neither behind another type's switch nor behind the white list *)
  Definition plain_diag (d : diag) : bool :=
    type_ok d && negb (mem (d_type d) [17; 24]) && negb (open_required (d_type d))
    && match d_ref d with None => true | Some _ => false end.

  Lemma plain_guard g i root d :
    special_gate_ok fx g = true -> plain_diag d = true -> diag_guard fx re_ok re_match g i root d = true.
  Proof.
    unfold special_gate_ok, plain_diag, diag_guard, gate_ok, prereq_ok, open_ok, pass_runs.
    intros Hg H. apply andb_true_iff in H as [H Hr]. apply andb_true_iff in H as [H Ho].
    apply andb_true_iff in H as [Hty Hp]. rewrite Hty, Ho. cbn [andb orb].
    assert (Hpre : prereq_types fx (d_type d) = []).
    { unfold prereq_types, global_prereq. unfold mem in Hp. cbn [existsb] in Hp. destruct (fx_coupled fx); [reflexivity|].
      destruct (d_type d =? 17); [discriminate|]. destruct (d_type d =? 24); [discriminate|]. reflexivity. }
    rewrite Hpre. cbn [forallb]. destruct (d_ref d); [discriminate|]. rewrite orb_true_r.
    rewrite Hg. destruct (produced_in (d_type d)); rewrite orb_true_r; reflexivity.
  Qed.
End Simple.

Section Plain.
  Variable fx : fixes.
  Variable re_ok : path -> bool.
  Variable re_match : path -> path -> bool.
  Variable raw : list path -> list diag.

  Theorem filter_law_plain root files j c lr cs s :
    json_wf fx j = true -> client_wf c = true -> forallb client_wf cs = true ->
    session fx re_ok j c lr cs = Ok s ->
    special_gate_ok fx (s_g s) = true ->
    walk_ok fx re_ok re_match (s_g s) (session_intent j c cs) files = true ->
    forallb plain_diag (raw (filter (is_handled fx re_ok re_match (s_g s)) files)) = true ->
    shown fx re_ok re_match raw (s_g s) root files
      = spec_shown re_ok re_match raw (session_intent j c cs) root files.
  Proof.
    intros Hj Hwf Hwfs H Hg Hw Hp. apply (filter_law_guarded fx _ _ _ _ _ _ _ lr); try assumption.
    rewrite forallb_forall in *. intros d Hin. apply plain_guard; [exact Hg|apply Hp; exact Hin].
  Qed.
End Plain.

(* ---------- the full statement, for one variant of the code ---------- *)

(* for every configuration, by every route, the server survives and shows exactly what the intent allows
   (raw = the analysis with every check enabled: arbitrary, as long as it reports diagnostics of the types 1..29) *)
Definition full_for (fx : fixes) : Prop :=
  forall (re_ok : path -> bool) (re_match : path -> path -> bool) (raw : list path -> list diag)
         root files j c local_run cs,
    client_wf c = true -> forallb client_wf cs = true ->
    forallb type_ok (raw (filter (spec_handled re_ok re_match (session_intent j c cs)) files)) = true ->
    exists s, session fx re_ok j c local_run cs = Ok s
      /\ shown fx re_ok re_match raw (s_g s) root files = spec_shown re_ok re_match raw (session_intent j c cs) root files
      /\ (forall rel, need_handle fx re_ok re_match (s_g s) rel = spec_handled re_ok re_match (session_intent j c cs) rel).

Theorem full_deployed : full_for deployed.
Proof.
  intros re_ok re_match raw root files j c lr cs Hwf Hwfs Hty.
  destruct (fixed_never_faults re_ok deployed j c lr cs eq_refl) as (s & Hs).
  exists s. split; [exact Hs|]. split.
  - apply (filter_law deployed re_ok re_match raw root files j c lr cs s); auto.
  - intros rel. apply needed_fixed; [reflexivity|].
    exact (proj2 (session_realises deployed re_ok re_match j c lr cs s eq_refl Hwf Hwfs Hs)).
Qed.

(* the two sites follow the intent of the session (repaired code; any route, any history) *)
Theorem session_sites_exact fx re_ok re_match j c lr cs s rel :
  fx_dup fx = true -> fx_sites fx = true -> client_wf c = true -> forallb client_wf cs = true ->
  session fx re_ok j c lr cs = Ok s ->
  is_handled fx re_ok re_match (s_g s) rel = spec_handled re_ok re_match (session_intent j c cs) rel
  /\ need_handle fx re_ok re_match (s_g s) rel = spec_handled re_ok re_match (session_intent j c cs) rel.
Proof.
  intros Hu Hsi Hwf Hwfs H.
  assert (Hj : json_wf fx j = true) by (unfold json_wf; rewrite Hu; reflexivity).
  pose proof (proj2 (session_realises fx re_ok re_match j c lr cs s Hj Hwf Hwfs H)) as Hl.
  split; [apply handled_fixed|apply needed_fixed]; assumption.
Qed.

(* ... and the class of the defect is empty *)
Lemma sites_class_empty fx re_ok re_match j c lr cs s files :
  fx_dup fx = true -> fx_sites fx = true -> client_wf c = true -> forallb client_wf cs = true ->
  session fx re_ok j c lr cs = Ok s ->
  cls_ignore_sites fx re_ok re_match (s_g s) (session_intent j c cs) files = false
  /\ walk_ok fx re_ok re_match (s_g s) (session_intent j c cs) files = true.
Proof.
  intros Hu Hsi Hwf Hwfs H.
  assert (Hj : json_wf fx j = true) by (unfold json_wf; rewrite Hu; reflexivity).
  pose proof (proj2 (session_realises fx re_ok re_match j c lr cs s Hj Hwf Hwfs H)) as Hl.
  split.
  - unfold cls_ignore_sites. induction files as [|f files IH]; cbn [existsb]; [reflexivity|].
    rewrite (sites_ok_fixed fx re_ok re_match _ _ f Hsi Hl). exact IH.
  - unfold walk_ok. apply forallb_forall. intros f _.
    rewrite (handled_fixed fx re_ok re_match _ _ f Hsi Hl). apply eqb_reflx.
Qed.

(* ---------- witnesses (closed terms, evaluated in Properties/C17.v) ---------- *)

Definition re_all : path -> bool := fun _ => true.
Definition re_none : path -> path -> bool := fun _ _ => false.
(* an engine that rejects exactly the pattern "(" *)
Definition re_no_paren : path -> bool := fun p => negb (beq_bytes p [40]).

Definition flags_off (off : list N) : list bool := map (fun k => negb (mem k off)) flag_positions.
Definition mk_client (off : list N) (ih ie : list path) : client_cfg :=
  {| c_flags := flags_off off; c_ignore_handle := ih; c_ignore_err := ie |}.
Definition a_lua : path := [97; 46; 108; 117; 97].
Definition b_lua : path := [98; 46; 108; 117; 97].
Definition mk_diag (f : path) (t : N) : diag := {| d_file := f; d_type := t; d_line := 0; d_col := 0; d_ref := None |}.
(* a type-11 diagnostic of a.lua about a member of the imported b.lua *)
Definition mk_ref_diag : diag := {| d_file := a_lua; d_type := 11; d_line := 0; d_col := 0; d_ref := Some b_lua |}.

(* 2, 3, 10, 11, 12 off, everything else (9 included) on *)
Definition w_gate : client_cfg := mk_client special_types [] [].
(* only "local variable not used" (4) off *)
Definition w_coupled : client_cfg := mk_client [4] [] [].
(* only "undefined variable" (2) off; all diagnostics of b.lua silenced *)
Definition w_coupled_ref : client_cfg := mk_client [2] [] [].
Definition w_coupled_ref_file : client_cfg := mk_client [] [] [b_lua].
Definition w_all_on : client_cfg := mk_client [] [] [].
Definition w_bad_regex : client_cfg := mk_client [] [] [[40]].
(* master switch off (and the client says LocalRun) *)
Definition w_master_off : client_cfg := mk_client [0] [] [].
Definition w_dup_rule : json_cfg :=
  {| j_show := 1; j_ignore_types := []; j_open_types := []; j_ignore_handle := []; j_ignore_err := [];
     j_file_types := [(a_lua, [4]); (a_lua, [5])]; j_has_entry := false |}.

(* for the non-vacuity example: 4 and 9 off, folder "sub/" silenced, "x.lua" not analysed *)
Definition sub_dir : path := [115; 117; 98; 47].
Definition x_lua : path := [120; 46; 108; 117; 97].
Definition w_example : client_cfg := mk_client [4; 9] [x_lua] [sub_dir].
Definition w_example_diags : list diag :=
  [mk_diag a_lua 1; mk_diag a_lua 2; mk_diag a_lua 4; mk_diag a_lua 9; mk_diag (sub_dir ++ a_lua) 2; mk_diag a_lua 13].

(* the full statement was false before the four repairs of round 2: switches 2, 3, 10, 11, 12 off, a type-9 diagnostic *)
Theorem full_round1_refuted : ~ full_for code_round1.
Proof.
  intros H.
  destruct (H re_all re_none (fun _ => [mk_diag a_lua 9]) [] [a_lua] None w_gate false [] eq_refl eq_refl eq_refl)
    as (s & Hs & Heq & _).
  vm_compute in Hs. apply Ok_inj in Hs. subst s. vm_compute in Heq. discriminate.
Qed.

(* ---- the two ignore sites: witness = the documented example of docs/manual/config.md ---- *)

Definition p_port_on : path := [112; 111; 114; 116; 47; 111; 110; 46; 42; 108; 117; 97].         (* "port/on.*lua" *)
Definition p_tests : path := [116; 101; 115; 116; 115; 47].                                        (* "tests/" *)
Definition one_lua : path := [111; 110; 101; 46; 108; 117; 97].                                    (* "one.lua" *)
Definition port_onxx : path := [112; 111; 114; 116; 47; 111; 110; 120; 120; 46; 108; 117; 97].     (* "port/onxx.lua" *)
Definition tests_t : path := p_tests ++ [116; 46; 108; 117; 97].                                   (* "tests/t.lua" *)
(* a regexp engine as far as the witness needs one: "port/on.*lua" matches the two spellings of port/onxx.lua (what
   Go's regexp says too: leg c17.re), nothing else matches as a regexp *)
Definition re_port_on : path -> path -> bool :=
  fun p s => beq_bytes p p_port_on && (beq_bytes s port_onxx || beq_bytes s (slash :: port_onxx)).
Definition w_sites : client_cfg := mk_client [] [p_port_on; p_tests; one_lua] [].
Definition w_sites_files : list path := [a_lua; one_lua; port_onxx; tests_t].

(* the full statement was still false before the two sites were made one: IgnoreFileOrDir ["port/on.*lua"; "tests/";
   "one.lua"], workspace {a.lua, one.lua, port/onxx.lua, tests/t.lua}: port/onxx.lua is scanned and its diagnostic shown *)
Theorem full_round2_refuted : ~ full_for code_round2.
Proof.
  intros H.
  destruct (H re_all re_port_on (fun fs => map (fun f => mk_diag f 1) fs) [] w_sites_files None w_sites false []
              eq_refl eq_refl eq_refl) as (s & Hs & Heq & _).
  vm_compute in Hs. apply Ok_inj in Hs. subst s. vm_compute in Heq. discriminate.
Qed.
