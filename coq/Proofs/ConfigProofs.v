(* C17 - lemmas about Model/Config.v against Spec/ConfigSpec.v *)
From Coq Require Import List NArith Bool Lia ZifyN ZifyNat ZifyBool Btauto.
From LH Require Import Base.Bytes Base.Res Model.Config Spec.ConfigSpec.
Import ListNotations.
Local Open Scope N_scope.

(* ---------- small facts about lists of types ---------- *)

Lemma mem_in t l : mem t l = true <-> In t l.
Proof.
  unfold mem. rewrite existsb_exists. split.
  - intros [x [Hin Heq]]. apply N.eqb_eq in Heq. subst. exact Hin.
  - intros Hin. exists t. split; [exact Hin|apply N.eqb_refl].
Qed.

Lemma mem_app t l1 l2 : mem t (l1 ++ l2) = mem t l1 || mem t l2.
Proof. unfold mem. apply existsb_app. Qed.

Lemma mem_filter p t l : mem t (filter p l) = p t && mem t l.
Proof.
  induction l as [|a l IH]; cbn [filter mem existsb].
  - rewrite andb_false_r. reflexivity.
  - fold (mem t l). destruct (p a) eqn:Hpa; cbn [existsb]; fold (mem t (filter p l)); rewrite IH.
    + destruct (t =? a) eqn:Hta; cbn [orb].
      * apply N.eqb_eq in Hta. subst. rewrite Hpa. reflexivity.
      * reflexivity.
    + destruct (t =? a) eqn:Hta; cbn [orb].
      * apply N.eqb_eq in Hta. subst. rewrite Hpa. reflexivity.
      * reflexivity.
Qed.

Lemma types_all_small : forallb (fun x => x <? 30) types_all = true.
Proof. vm_compute. reflexivity. Qed.

Lemma types_all_sweep :
  forallb (fun t => Bool.eqb (mem t types_all) ((1 <=? t) && (t <? 30))) (nrange_nat 30) = true.
Proof. vm_compute. reflexivity. Qed.

Lemma mem_types_all t : mem t types_all = (1 <=? t) && (t <? 30).
Proof.
  destruct (N.ltb_spec t 30) as [Hlt|Hge].
  - pose proof types_all_sweep as Hs. rewrite forallb_forall in Hs.
    assert (Hin : In t (nrange_nat 30)) by (apply nrange_nat_in; lia).
    specialize (Hs t Hin). apply eqb_prop in Hs. rewrite Hs.
    assert (Ht : (t <? 30) = true) by (apply N.ltb_lt; exact Hlt). rewrite Ht. reflexivity.
  - rewrite andb_false_r.
    destruct (mem t types_all) eqn:Hm; [|reflexivity].
    apply mem_in in Hm. pose proof types_all_small as Hs. rewrite forallb_forall in Hs.
    specialize (Hs t Hm). apply N.ltb_lt in Hs. lia.
Qed.

Lemma existsb_filter_split {A} (f p : A -> bool) l :
  existsb f l = existsb f (filter p l) || existsb f (filter (fun x => negb (p x)) l).
Proof.
  induction l as [|a l IH]; cbn [filter existsb]; [reflexivity|].
  rewrite IH. destruct (p a); cbn [negb existsb]; btauto.
Qed.

(* ---------- the file-type map without duplicate keys is the list itself ---------- *)

Lemma ft_remove_absent k m :
  existsb (beq_bytes k) (map fst m) = false -> ft_remove k m = m.
Proof.
  induction m as [|[k' v] m IH]; cbn [ft_remove map fst existsb]; intros H; [reflexivity|].
  apply orb_false_iff in H as [H1 H2]. rewrite H1. rewrite IH by exact H2. reflexivity.
Qed.

Lemma beq_bytes_sym a b : beq_bytes a b = beq_bytes b a.
Proof.
  destruct (beq_bytes a b) eqn:H1; destruct (beq_bytes b a) eqn:H2; try reflexivity.
  - apply beq_bytes_eq in H1. subst. assert (beq_bytes b b = true) by (apply beq_bytes_eq; reflexivity). congruence.
  - apply beq_bytes_eq in H2. subst. assert (beq_bytes a a = true) by (apply beq_bytes_eq; reflexivity). congruence.
Qed.

Lemma ft_fold_nodup l : forall acc,
  nodup_keys l = true ->
  (forall kv, In kv l -> existsb (beq_bytes (fst kv)) (map fst acc) = false) ->
  fold_left ft_insert l acc = acc ++ l.
Proof.
  induction l as [|kv l IH]; intros acc Hnd Hdis; cbn [fold_left].
  - rewrite app_nil_r. reflexivity.
  - cbn [nodup_keys] in Hnd. apply andb_true_iff in Hnd as [Hk Hnd]. apply negb_true_iff in Hk.
    unfold ft_insert at 2. rewrite ft_remove_absent by (apply Hdis; left; reflexivity).
    rewrite IH; [rewrite <- app_assoc; reflexivity|exact Hnd|].
    intros kv' Hin. rewrite map_app, existsb_app. cbn [map existsb]. rewrite orb_false_r.
    pose proof (Hdis kv' (or_intror Hin)) as Hd. unfold path in *. rewrite Hd. cbn [orb].
    destruct (beq_bytes (fst kv') (fst kv)) eqn:E; [|reflexivity].
    exfalso. rewrite beq_bytes_sym in E.
    assert (Hex : existsb (beq_bytes (fst kv)) (map fst l) = true).
    { apply existsb_exists. exists (fst kv'). split; [apply in_map; exact Hin|exact E]. }
    congruence.
Qed.

Lemma ft_of_list_nodup l : nodup_keys l = true -> ft_of_list l = l.
Proof.
  intros H. unfold ft_of_list. rewrite ft_fold_nodup; [reflexivity|exact H|].
  intros kv _. reflexivity.
Qed.

(* ---------- the choke point against the intent ---------- *)

Section Law.
  Variable fixed : bool.
  Variable re_ok : path -> bool.
  Variable re_match : path -> path -> bool.
  Notation pm := (pat_match re_ok re_match).
  Notation is_ign := (is_ignore_error_file re_ok re_match).
  Notation vis := (visible re_ok re_match).
  Notation handled := (is_handled re_ok re_match).
  Notation sexcl := (spec_excluded re_ok re_match).
  Notation shandled := (spec_handled re_ok re_match).

  (* client mode: nothing json-only has ever been set *)
  Definition cinv (g : gconf) : Prop :=
    g_json g = false /\ g_file_types g = [] /\ g_open_types g = [] /\ g_has_entry g = false.

  Lemma cinv_default : cinv g_default.
  Proof. repeat split. Qed.

  Lemma client_wf_cons c : client_wf c = true -> exists m fl, c_flags c = m :: fl.
  Proof.
    unfold client_wf. destruct (c_flags c) as [|m fl]; intros H.
    - cbn in H. discriminate.
    - exists m, fl. reflexivity.
  Qed.

  Definition hf_fields (g0 g : gconf) (c : client_cfg) (m : bool) : Prop :=
    g_json g = false /\ g_show g = m
    /\ g_ignore_types g = (if m then filter (client_off (c_flags c)) types_all else g_ignore_types g0 ++ types_all)
    /\ g_open_types g = g_open_types g0
    /\ g_handle_folder g = filter (fun p => negb (has_lua_suffix p)) (c_ignore_handle c)
    /\ g_handle_file g = filter has_lua_suffix (c_ignore_handle c)
    /\ g_err_folder g = filter (fun p => negb (has_lua_suffix p)) (c_ignore_err c) ++ [server_meta]
    /\ g_err_file g = filter has_lua_suffix (c_ignore_err c)
    /\ g_file_types g = g_file_types g0
    /\ g_has_entry g = g_has_entry g0.

  Lemma handle_flags_inv g0 c g :
    client_wf c = true -> handle_flags fixed re_ok g0 c = Ok g ->
    exists m fl, c_flags c = m :: fl /\ hf_fields g0 g c m.
  Proof.
    intros Hwf H. destruct (client_wf_cons c Hwf) as (m & fl & Hf).
    exists m, fl. split; [exact Hf|].
    unfold handle_flags in H. destruct (compile_all fixed re_ok (c_ignore_err c)); [|discriminate].
    rewrite Hf in H.
    destruct m; injection H as <-; unfold hf_fields;
      cbn [g_json g_show g_ignore_types g_open_types g_handle_folder g_handle_file g_err_folder g_err_file
           g_file_types g_has_entry]; rewrite ?Hf; repeat split.
  Qed.

  Lemma handle_flags_cinv g0 c g :
    client_wf c = true -> cinv g0 -> handle_flags fixed re_ok g0 c = Ok g -> cinv g.
  Proof.
    intros Hwf (Hj & Hft & Ho & He) H.
    destruct (handle_flags_inv g0 c g Hwf H) as (m & fl & Hf & Hj' & _ & _ & Ho' & _ & _ & _ & _ & Hft' & He').
    unfold cinv. rewrite Hj', Hft', Ho', He'. auto.
  Qed.

  Lemma client_choke g0 c g :
    client_wf c = true -> g_file_types g0 = [] -> handle_flags fixed re_ok g0 c = Ok g ->
    forall f t, (1 <=? t) && (t <? 30) = true ->
      is_ign g f t = excluded_at re_ok re_match (intent_of_client c) f t.
  Proof.
    intros Hwf Hft0 H f t Hr.
    destruct (handle_flags_inv g0 c g Hwf H) as (m & fl & Hf & _ & Hs & Hi & _ & _ & _ & Hef & Hel & Hft & _).
    unfold is_ignore_error_file, excluded_at, intent_of_client. cbn [i_master i_off i_err i_file_types].
    rewrite Hs, Hi, Hef, Hel, Hft, Hft0, Hf. cbn [hd existsb].
    rewrite !existsb_app. rewrite (existsb_filter_split (pm f) has_lua_suffix (c_ignore_err c)).
    destruct m.
    - rewrite mem_filter, mem_types_all, Hr, Hf.
      generalize (client_off (true :: fl) t). intros a.
      generalize (existsb (pm f) (filter has_lua_suffix (c_ignore_err c))). intros b.
      generalize (existsb (pm f) (filter (fun x => negb (has_lua_suffix x)) (c_ignore_err c))). intros b'.
      generalize (existsb (pm f) [server_meta]). intros b''.
      btauto.
    - reflexivity.
  Qed.

  Lemma visible_unfold g root d :
    vis g root d =
      negb (is_ign g (abs_path root (d_file d)) (d_type d)) && gate_ok g d && prereq_ok re_ok re_match g root d && open_ok g d.
  Proof.
    unfold visible, gate_ok, prereq_ok, open_ok.
    generalize (is_ign g (abs_path root (d_file d)) (d_type d)). intros a.
    generalize (pass_runs g (produced_in (d_type d))). intros b.
    generalize (forallb (fun p : N => negb (mem p (g_ignore_types g))) (global_prereq (d_type d))). intros c.
    generalize (negb (open_required (d_type d)) || mem (d_type d) (g_open_types g)). intros e.
    destruct (d_ref d) as [r|].
    - generalize (negb (is_ign g (abs_path root r) check_error_no_define)). intros h. btauto.
    - btauto.
  Qed.

  (* the final configuration state does what the intent says, up to the three extra conditions *)
  Definition realises (g : gconf) (i : intent) : Prop :=
    (forall root d, type_ok d = true ->
       vis g root d = negb (sexcl i root d) && gate_ok g d && prereq_ok re_ok re_match g root d && open_ok g d)
    /\ (forall rel, handled g rel = shandled i rel).

  Lemma realises_client g0 c g :
    client_wf c = true -> cinv g0 -> handle_flags fixed re_ok g0 c = Ok g -> realises g (intent_of_client c).
  Proof.
    intros Hwf (_ & Hft0 & _ & _) H. split.
    - intros root d Hty. rewrite visible_unfold. unfold spec_excluded.
      rewrite (client_choke g0 c g Hwf Hft0 H) by exact Hty. reflexivity.
    - intros rel.
      destruct (handle_flags_inv g0 c g Hwf H) as (m & fl & Hf & _ & _ & _ & _ & Hhf & Hhl & _ & _ & _ & _).
      unfold is_handled, spec_handled, ignore_folder, ignore_file, intent_of_client. cbn [i_handle].
      rewrite Hhf, Hhl. reflexivity.
  Qed.

  Lemma read_json_inv g0 j g :
    read_json fixed re_ok g0 j = Ok g ->
    g = {| g_json := true; g_show := (j_show j =? 1);
           g_ignore_types := j_ignore_types j; g_open_types := j_open_types j;
           g_handle_folder := filter (fun p => negb (has_lua_suffix p)) (j_ignore_handle j);
           g_handle_file := filter has_lua_suffix (j_ignore_handle j);
           g_err_folder := filter (fun p => negb (has_lua_suffix p)) (j_ignore_err j) ++ [server_meta];
           g_err_file := filter has_lua_suffix (j_ignore_err j);
           g_file_types := ft_of_list (j_file_types j);
           g_has_entry := j_has_entry j |}.
  Proof.
    unfold read_json. destruct (_ && _); [|discriminate]. intros H. injection H as <-. reflexivity.
  Qed.

  Lemma realises_json g0 j g :
    nodup_keys (j_file_types j) = true -> read_json fixed re_ok g0 j = Ok g -> realises g (intent_of_json j).
  Proof.
    intros Hnd H. apply read_json_inv in H. subst g. split.
    - intros root d Hty. rewrite visible_unfold.
      unfold spec_excluded, excluded_at, is_ignore_error_file, open_ok, intent_of_json.
      cbn [g_show g_ignore_types g_err_folder g_err_file g_file_types g_open_types i_master i_off i_err i_file_types].
      rewrite (ft_of_list_nodup _ Hnd).
      rewrite !existsb_app. rewrite (existsb_filter_split (pm (abs_path root (d_file d))) has_lua_suffix (j_ignore_err j)).
      set (f := abs_path root (d_file d)).
      generalize (existsb (fun kv : path * list N => pm f (fst kv) && mem (d_type d) (snd kv)) (j_file_types j)). intros a.
      generalize (existsb (pm f) (filter has_lua_suffix (j_ignore_err j))). intros b.
      generalize (existsb (pm f) (filter (fun x => negb (has_lua_suffix x)) (j_ignore_err j))). intros b'.
      generalize (existsb (pm f) [server_meta]). intros b''.
      generalize (mem (d_type d) (j_ignore_types j)). intros m.
      generalize (mem (d_type d) (j_open_types j)). intros o.
      generalize (open_required (d_type d)). intros q.
      generalize (j_show j =? 1). intros s.
      match goal with |- context [gate_ok ?g d] => generalize (gate_ok g d) end. intros x.
      match goal with |- context [prereq_ok re_ok re_match ?g root d] => generalize (prereq_ok re_ok re_match g root d) end. intros y.
      btauto.
    - intros rel. reflexivity.
  Qed.
End Law.
