(* C09 lemmas: the third-pass global table, the best-match choice, arrival order of worker results and
   per-scope diagnostics are invariant under the orders Go leaves unspecified - under the stated guards. *)
From Coq Require Import List Arith PeanoNat NArith ZArith Bool Lia Permutation.
From LH Require Import Base.Bytes Model.FileIndex Model.ModulePath Model.Merge Proofs.FileIndexProofs.
Import ListNotations.

(* ------------------------------------------------------------------ the table, name by name *)
Definition vecof (t : gtable) (n : list N) : list gvar := match aget n t with Some v => v | None => [] end.

Lemma vec_step_nil v : vec_step [] v = [v].
Proof. reflexivity. Qed.

Lemma vecof_merge_step t m v n :
  vecof (merge_step t (m, v)) n = if beq_bytes m n then vec_step (vecof t n) v else vecof t n.
Proof.
  unfold merge_step, vecof. destruct (beq_bytes m n) eqn:E.
  - apply beq_bytes_eq in E. subst m. destruct (aget n t) as [vec|] eqn:Ea.
    + unfold vec_step. destruct (judge vec v); [|rewrite Ea; reflexivity].
      rewrite aget_aset, beq_refl. reflexivity.
    + rewrite aget_aset, beq_refl. reflexivity.
  - destruct (aget m t) as [vec|] eqn:Ea.
    + destruct (judge vec v); [|reflexivity]. rewrite aget_aset, (beq_sym n m), E. reflexivity.
    + rewrite aget_aset, (beq_sym n m), E. reflexivity.
Qed.

Lemma vecof_fold items : forall t n,
  vecof (fold_left merge_step items t) n = fold_left vec_step (vars_of n items) (vecof t n).
Proof.
  induction items as [|[m v] items IH]; intros t n; [reflexivity|].
  cbn [fold_left]. rewrite IH, vecof_merge_step. unfold vars_of. cbn [filter fst].
  destruct (beq_bytes m n); reflexivity.
Qed.

Definition run (l : list gvar) : list gvar := fold_left vec_step l [].
Definition last_opt (vec : list gvar) : option gvar :=
  match vec with [] => None | _ => Some (last vec (mk_gvar [] 0 0 0)) end.

Lemma winner_run items n : winner (merge items) n = last_opt (run (vars_of n items)).
Proof.
  unfold winner, merge, run. pose proof (vecof_fold items [] n) as H. unfold vecof at 2 in H. simpl in H.
  rewrite <- H. unfold vecof, last_opt. destruct (aget n (fold_left merge_step items [])); reflexivity.
Qed.

(* ------------------------------------------------------------------ one name: the vector *)
Lemma beats_asym x w : beats x w = true -> beats w x = false.
Proof.
  unfold beats. intros H. apply andb_true_iff in H as [_ H]. apply N.ltb_lt in H.
  apply andb_false_iff. right. apply N.ltb_ge. lia.
Qed.

Lemma beats_trans a b c : beats a b = true -> beats b c = true -> beats a c = true.
Proof.
  unfold beats. intros H1 H2.
  apply andb_true_iff in H1 as [H1 L1]. apply andb_true_iff in H1 as [F1 S1].
  apply andb_true_iff in H2 as [H2 L2]. apply andb_true_iff in H2 as [F2 S2].
  apply N.leb_le in F1, S1, F2, S2. apply N.ltb_lt in L1, L2.
  apply andb_true_iff. split; [apply andb_true_iff; split; apply N.leb_le; lia|apply N.ltb_lt; lia].
Qed.

Lemma fold_incl l : forall vec w, In w (fold_left vec_step l vec) -> In w vec \/ In w l.
Proof.
  induction l as [|v l IH]; intros vec w H; simpl in *; [left; exact H|].
  destruct (IH _ _ H) as [H1|H1]; [|right; right; exact H1].
  unfold vec_step in H1. destruct (judge vec v); [|left; exact H1].
  apply in_app_or in H1 as [H1|[H1|[]]]; [left; exact H1|right; left; exact H1].
Qed.

Lemma fold_keeps l : forall vec w, In w vec -> In w (fold_left vec_step l vec).
Proof.
  induction l as [|v l IH]; intros vec w H; simpl; [exact H|].
  apply IH. unfold vec_step. destruct (judge vec v); [apply in_or_app; left|]; exact H.
Qed.

(* once x is stored and every later definition neither shares its file nor beats it, the vector is final *)
Lemma fold_frozen l : forall V x,
  (forall w, In w l -> beq_bytes (gv_file x) (gv_file w) = false /\ beats w x = false) ->
  fold_left vec_step l (V ++ [x]) = V ++ [x].
Proof.
  induction l as [|w l IH]; intros V x H; simpl; [reflexivity|].
  assert (judge (V ++ [x]) w = false) as Hj.
  { unfold judge. rewrite forallb_app. apply andb_false_iff. right. simpl.
    destruct (H w (or_introl eq_refl)) as [H1 H2]. rewrite H1, H2. reflexivity. }
  unfold vec_step at 2. rewrite Hj. apply IH. intros w' Hw'. apply H. right. exact Hw'.
Qed.

Definition least (l : list gvar) (x : gvar) : Prop :=
  In x l /\ forall w, In w l -> w = x \/ beats x w = true.

Lemma last_snoc {A} (V : list A) x d : last (V ++ [x]) d = x.
Proof. induction V as [|a V IH]; [reflexivity|]. simpl. destruct (V ++ [x]) eqn:E; [destruct V; discriminate|exact IH]. Qed.

Lemma NoDup_map_split_neq {A B} (f : A -> B) l1 x l2 w :
  NoDup (map f (l1 ++ x :: l2)) -> In w (l1 ++ l2) -> f w <> f x.
Proof.
  rewrite map_app. simpl. intros Hnd Hin Heq.
  apply NoDup_remove_2 in Hnd. apply Hnd. rewrite <- Heq, <- map_app. apply in_map. exact Hin.
Qed.

(* the least owner wins whatever the order *)
Lemma run_least l x : NoDup (map gv_file l) -> least l x -> last_opt (run l) = Some x.
Proof.
  intros Hnd [Hin Hl]. apply in_split in Hin as [l1 [l2 ->]].
  assert (forall w, In w (l1 ++ l2) -> gv_file w <> gv_file x /\ beats x w = true) as Hother.
  { intros w Hw. pose proof (NoDup_map_split_neq gv_file l1 x l2 w Hnd Hw) as Hf. split; [exact Hf|].
    destruct (Hl w) as [->|Hb]; [|contradiction|exact Hb].
    apply in_app_or in Hw as [Hw|Hw]; apply in_or_app; [left|right; right]; exact Hw. }
  unfold run. rewrite fold_left_app. simpl.
  set (V1 := fold_left vec_step l1 []).
  assert (judge V1 x = true) as Hj.
  { unfold judge. apply forallb_forall. intros old Hold.
    destruct (fold_incl l1 [] old Hold) as [[]|Ho].
    destruct (Hother old (in_or_app _ _ _ (or_introl Ho))) as [_ Hb]. rewrite Hb. apply orb_true_r. }
  unfold vec_step at 2. rewrite Hj.
  rewrite fold_frozen.
  - unfold last_opt. destruct (V1 ++ [x]) eqn:E; [destruct V1; discriminate|]. rewrite <- E, last_snoc. reflexivity.
  - intros w Hw. destruct (Hother w (in_or_app _ _ _ (or_intror Hw))) as [Hf Hb]. split.
    + apply beq_false. congruence.
    + apply beats_asym. exact Hb.
Qed.

(* whatever the order, the winner is a definition nobody beats *)
Definition good (vec : list gvar) : Prop :=
  forall V x, vec = V ++ [x] -> forall u, In u V -> gv_file u = gv_file x \/ beats x u = true.

Lemma good_step vec v : good vec -> good (vec_step vec v).
Proof.
  intros Hg. unfold vec_step. destruct (judge vec v) eqn:Ej; [|exact Hg].
  intros V x Heq u Hu. apply app_inj_tail in Heq as [-> ->].
  unfold judge in Ej. rewrite forallb_forall in Ej. specialize (Ej u Hu).
  apply orb_true_iff in Ej as [Ej|Ej]; [left; apply beq_bytes_eq; exact Ej|right; exact Ej].
Qed.

Lemma good_fold l : forall vec, good vec -> good (fold_left vec_step l vec).
Proof. induction l as [|v l IH]; intros vec H; simpl; [exact H|]. apply IH. apply good_step. exact H. Qed.

Lemma file_inj (l : list gvar) a b : NoDup (map gv_file l) -> In a l -> In b l -> gv_file a = gv_file b -> a = b.
Proof.
  induction l as [|c l IH]; intros Hn Ha Hb Hab; [destruct Ha|].
  simpl in Hn. inversion Hn as [|? ? Hnot Hn']; subst.
  destruct Ha as [->|Ha]; destruct Hb as [->|Hb]; try reflexivity.
  - exfalso. apply Hnot. rewrite Hab. apply in_map. exact Hb.
  - exfalso. apply Hnot. rewrite <- Hab. apply in_map. exact Ha.
  - apply IH; assumption.
Qed.

Lemma beats_irrefl x : beats x x = false.
Proof. destruct (beats x x) eqn:E; [|reflexivity]. rewrite (beats_asym x x E) in E. discriminate. Qed.

Lemma last_opt_some vec x : last_opt vec = Some x -> exists V, vec = V ++ [x].
Proof.
  destruct vec as [|e vec]; [discriminate|].
  destruct (@exists_last _ (e :: vec)) as [V [z Hz]]; [discriminate|]. rewrite Hz. unfold last_opt.
  destruct (V ++ [z]) eqn:E; [destruct V; discriminate|]. rewrite <- E, last_snoc.
  intros H. injection H as ->. exists V. reflexivity.
Qed.

Lemma run_minimal l : NoDup (map gv_file l) -> forall x, last_opt (run l) = Some x ->
  In x l /\ forall w, In w l -> beats w x = false.
Proof.
  intros Hnd x Hx. unfold run in Hx. apply last_opt_some in Hx as [V Ef].
  assert (good (V ++ [x])) as Hgood.
  { rewrite <- Ef. apply good_fold. intros V0 x0 H0. destruct V0; discriminate. }
  assert (forall u, In u (V ++ [x]) -> In u l) as Hsub.
  { intros u Hu. rewrite <- Ef in Hu. destruct (fold_incl l [] u Hu) as [[]|H]. exact H. }
  assert (In x l) as Hxl by (apply Hsub; apply in_or_app; right; left; reflexivity).
  split; [exact Hxl|]. intros w Hw.
  destruct (beats w x) eqn:Eb; [|reflexivity]. exfalso.
  assert (gv_file w <> gv_file x) as Hfile.
  { intros Heq. rewrite (file_inj l w x Hnd Hw Hxl Heq), beats_irrefl in Eb. discriminate. }
  (* every stored element other than x is beaten by x or shares its file, hence is x itself *)
  assert (forall u, In u (V ++ [x]) -> u = x \/ beats x u = true) as Hstored.
  { intros u Hu. apply in_app_or in Hu as [Hu|[Hu|[]]]; [|left; symmetry; exact Hu].
    destruct (Hgood V x eq_refl u Hu) as [Hf|Hb]; [left|right; exact Hb].
    apply (file_inj l u x Hnd); [apply Hsub; apply in_or_app; left; exact Hu|exact Hxl|exact Hf]. }
  apply in_split in Hw as [l1 [l2 Hl]]. subst l. rewrite fold_left_app in Ef. simpl in Ef.
  set (V1 := fold_left vec_step l1 []) in *.
  unfold vec_step at 2 in Ef. destruct (judge V1 w) eqn:Ej.
  - (* w was stored, so it is still there: x beats w *)
    assert (In w (V ++ [x])) as Hwin
      by (rewrite <- Ef; apply fold_keeps; apply in_or_app; right; left; reflexivity).
    destruct (Hstored w Hwin) as [->|Hb]; [apply Hfile; reflexivity|].
    rewrite (beats_asym _ _ Hb) in Eb. discriminate.
  - (* w was rejected by a stored u of another file that it does not beat; but w beats x and x beats u *)
    apply not_true_iff_false in Ej. apply Ej. unfold judge. apply forallb_forall. intros u Hu.
    assert (In u (V ++ [x])) as Huin by (rewrite <- Ef; apply fold_keeps; exact Hu).
    destruct (Hstored u Huin) as [->|Hb]; [rewrite Eb; apply orb_true_r|].
    rewrite (beats_trans w x u Eb Hb). apply orb_true_r.
Qed.

(* ------------------------------------------------------------------ permutations *)
Lemma Permutation_filter {A} (P : A -> bool) l l' : Permutation l l' -> Permutation (filter P l) (filter P l').
Proof.
  induction 1 as [|x l l' H IH|x y l|l l' l'' H1 IH1 H2 IH2]; simpl.
  - constructor.
  - destruct (P x); [constructor|]; exact IH.
  - destruct (P x); destruct (P y); try apply Permutation_refl. apply perm_swap.
  - eapply Permutation_trans; eassumption.
Qed.

Lemma vars_of_perm n items items' : Permutation items items' -> Permutation (vars_of n items) (vars_of n items').
Proof. intros H. unfold vars_of. apply Permutation_map. apply Permutation_filter. exact H. Qed.

Lemma least_perm l l' x : Permutation l l' -> least l x -> least l' x.
Proof.
  intros Hp [Hin Hl]. split; [apply (Permutation_in _ Hp Hin)|].
  intros w Hw. apply Hl. apply (Permutation_in _ (Permutation_sym Hp) Hw).
Qed.

Theorem merge_perm_least items items' n x :
  Permutation items items' ->
  NoDup (map gv_file (vars_of n items)) -> least (vars_of n items) x ->
  winner (merge items) n = Some x /\ winner (merge items') n = Some x.
Proof.
  intros Hp Hnd Hl. rewrite !winner_run. split; [apply run_least; assumption|].
  pose proof (vars_of_perm n _ _ Hp) as Hv.
  apply run_least; [|apply (least_perm _ _ _ Hv Hl)].
  apply (Permutation_NoDup (Permutation_map gv_file Hv) Hnd).
Qed.

(* at most one definition per name in the whole workspace *)
Definition single_owner (items : list (list N * gvar)) : Prop :=
  forall n, (length (vars_of n items) <= 1)%nat.

Theorem merge_perm_single items items' :
  Permutation items items' -> single_owner items -> forall n, winner (merge items) n = winner (merge items') n.
Proof.
  intros Hp Hs n. pose proof (vars_of_perm n _ _ Hp) as Hv. specialize (Hs n).
  rewrite !winner_run.
  destruct (vars_of n items) as [|x [|y l]] eqn:E; [| |simpl in Hs; lia].
  - apply Permutation_nil in Hv. rewrite Hv. reflexivity.
  - apply Permutation_length_1_inv in Hv. rewrite Hv. reflexivity.
Qed.

Theorem merge_files_perm_single fs fs' :
  Permutation fs fs' -> single_owner (flatten fs) -> forall n, winner (merge_files fs) n = winner (merge_files fs') n.
Proof.
  intros Hp Hs n. unfold merge_files. apply merge_perm_single; [|exact Hs].
  unfold flatten. apply Permutation_flat_map. exact Hp.
Qed.

Theorem merge_winner_minimal items n x :
  NoDup (map gv_file (vars_of n items)) -> winner (merge items) n = Some x ->
  In x (vars_of n items) /\ forall w, In w (vars_of n items) -> beats w x = false.
Proof. intros Hnd Hw. rewrite winner_run in Hw. apply run_minimal; assumption. Qed.

(* the boolean class predicate no_least mirrors the guard *)
Lemma gvar_eqb_eq a b : gvar_eqb a b = true <-> a = b.
Proof.
  unfold gvar_eqb. destruct a as [f1 a1 b1 c1], b as [f2 a2 b2 c2]; simpl. split.
  - intros H. apply andb_true_iff in H as [H H4]. apply andb_true_iff in H as [H H3]. apply andb_true_iff in H as [H1 H2].
    apply beq_bytes_eq in H1. apply N.eqb_eq in H2, H3, H4. congruence.
  - intros H. injection H as -> -> -> ->. rewrite beq_refl, !N.eqb_refl. reflexivity.
Qed.

Lemma least_of_some l x : least_of l = Some x -> least l x.
Proof.
  unfold least_of. intros H. apply find_some in H as [Hin Hl]. split; [exact Hin|].
  intros w Hw. unfold is_least in Hl. rewrite forallb_forall in Hl. specialize (Hl w Hw).
  apply orb_true_iff in Hl as [Hl|Hl]; [left; apply gvar_eqb_eq; exact Hl|right; exact Hl].
Qed.

Theorem merge_perm_class items items' n :
  Permutation items items' -> NoDup (map gv_file (vars_of n items)) -> no_least n items = false ->
  winner (merge items) n = winner (merge items') n.
Proof.
  intros Hp Hnd Hc. unfold no_least in Hc.
  destruct (vars_of n items) as [|v l] eqn:E.
  - pose proof (vars_of_perm n _ _ Hp) as Hv. rewrite E in Hv. apply Permutation_nil in Hv.
    rewrite !winner_run, E, Hv. reflexivity.
  - destruct (least_of (v :: l)) as [x|] eqn:El; [|discriminate].
    rewrite <- E in *. destruct (merge_perm_least items items' n x Hp Hnd (least_of_some _ _ El)) as [H1 H2].
    rewrite H1, H2. reflexivity.
Qed.

(* with a least owner the set of possible winners is that owner alone *)
Lemma minimal_set_least l x : NoDup (map gv_file l) -> least l x -> forall w, In w (minimal_set l) <-> w = x.
Proof.
  intros Hnd [Hin Hl] w. unfold minimal_set. rewrite filter_In. split.
  - intros [Hw Hm]. destruct (Hl w Hw) as [->|Hb]; [reflexivity|].
    unfold is_minimal in Hm. rewrite forallb_forall in Hm. specialize (Hm x Hin). rewrite Hb in Hm. discriminate.
  - intros ->. split; [exact Hin|]. unfold is_minimal. apply forallb_forall. intros u Hu.
    destruct (Hl u Hu) as [->|Hb]; [rewrite beats_irrefl; reflexivity|]. rewrite (beats_asym _ _ Hb). reflexivity.
Qed.

(* every minimal definition does win in some order: visit it first *)
Lemma minimal_wins_first l x : NoDup (map gv_file l) -> In x l -> (forall w, In w l -> beats w x = false) ->
  exists l', Permutation l l' /\ last_opt (run l') = Some x.
Proof.
  intros Hnd Hin Hmin. apply in_split in Hin as [l1 [l2 ->]].
  exists (x :: l1 ++ l2). split; [apply Permutation_sym, Permutation_middle|].
  unfold run. simpl. change (vec_step [] x) with ([] ++ [x]).
  rewrite fold_frozen; [reflexivity|].
  intros w Hw. split.
  - apply beq_false. intros Heq. apply (NoDup_map_split_neq gv_file l1 x l2 w Hnd Hw). symmetry. exact Heq.
  - apply Hmin. apply in_app_or in Hw as [Hw|Hw]; apply in_or_app; [left|right; right]; exact Hw.
Qed.

Lemma vars_of_tagged n l : vars_of n (map (fun v => (n, v)) l) = l.
Proof.
  unfold vars_of. induction l as [|v l IH]; [reflexivity|]. simpl. rewrite beq_refl. simpl. f_equal. exact IH.
Qed.

Theorem merge_minimal_reachable n l x : NoDup (map gv_file l) -> In x l -> (forall w, In w l -> beats w x = false) ->
  exists l', Permutation l l' /\ winner (merge (map (fun v => (n, v)) l')) n = Some x.
Proof.
  intros Hnd Hin Hmin. destruct (minimal_wins_first l x Hnd Hin Hmin) as [l' [Hp Hr]].
  exists l'. split; [exact Hp|]. rewrite winner_run, vars_of_tagged. exact Hr.
Qed.

Theorem minimal_set_least_items items n x : NoDup (map gv_file (vars_of n items)) -> least (vars_of n items) x ->
  forall w, In w (minimal_set (vars_of n items)) <-> w = x.
Proof. intros Hnd Hl. apply minimal_set_least; assumption. Qed.

(* ------------------------------------------------------------------ best match *)
Section Best.
  Variables cur refer : list N.
  Let sc := calc_score cur refer.

  Definition is_max (cs : list (list N)) (m : Z) : Prop :=
    (forall c, In c cs -> (sc c <= m)%Z) /\ exists c, In c cs /\ sc c = m.

  Lemma fold_max_ge t : forall a, (a <= fold_left (fun m c => Z.max m (sc c)) t a)%Z /\
    forall c, In c t -> (sc c <= fold_left (fun m c => Z.max m (sc c)) t a)%Z.
  Proof.
    induction t as [|x t IH]; intros a; simpl; [split; [lia|intros c []]|].
    destruct (IH (Z.max a (sc x))) as [H1 H2]. split; [lia|].
    intros c [->|Hc]; [lia|apply H2; exact Hc].
  Qed.

  Lemma max_score_is_max c0 t : is_max (c0 :: t) (max_score cur refer c0 t).
  Proof.
    unfold max_score. fold sc. destruct (fold_max_ge t (sc c0)) as [H1 H2]. split.
    - intros c [<-|Hc]; [exact H1|apply H2; exact Hc].
    - assert (forall t a, fold_left (fun m c => Z.max m (sc c)) t a = a \/
                exists c, In c t /\ sc c = fold_left (fun m c => Z.max m (sc c)) t a) as Hatt.
      { clear. induction t as [|x t IH]; intros a; simpl; [left; reflexivity|].
        destruct (IH (Z.max a (sc x))) as [H|[c [Hc He]]].
        - destruct (Z.max_spec a (sc x)) as [[_ Hm]|[_ Hm]].
          + right. exists x. split; [left; reflexivity|]. rewrite H. symmetry. exact Hm.
          + left. rewrite H. exact Hm.
        - right. exists c. split; [right; exact Hc|exact He]. }
      destruct (Hatt t (sc c0)) as [H|[c [Hc He]]].
      + exists c0. split; [left; reflexivity|]. symmetry. exact H.
      + exists c. split; [right; exact Hc|exact He].
  Qed.

  Lemma is_max_unique cs m m' : is_max cs m -> is_max cs m' -> m = m'.
  Proof.
    intros [H1 [c [Hc He]]] [H1' [c' [Hc' He']]].
    specialize (H1 c' Hc'). specialize (H1' c Hc). lia.
  Qed.

  Lemma is_max_perm cs cs' m : Permutation cs cs' -> is_max cs m -> is_max cs' m.
  Proof.
    intros Hp [H1 [c [Hc He]]]. split.
    - intros c1 Hc1. apply H1. apply (Permutation_in _ (Permutation_sym Hp) Hc1).
    - exists c. split; [apply (Permutation_in _ Hp Hc)|exact He].
  Qed.

  Lemma argmax_perm cs cs' : Permutation cs cs' -> Permutation (argmax_set cur refer cs) (argmax_set cur refer cs').
  Proof.
    intros Hp. destruct cs as [|c0 t]; [apply Permutation_nil in Hp; subst; constructor|].
    destruct cs' as [|c0' t']; [apply Permutation_sym, Permutation_nil in Hp; discriminate|].
    unfold argmax_set.
    assert (max_score cur refer c0 t = max_score cur refer c0' t') as ->.
    { apply (is_max_unique (c0' :: t')); [|apply max_score_is_max].
      apply (is_max_perm _ _ _ Hp). apply max_score_is_max. }
    apply Permutation_filter. exact Hp.
  Qed.

  (* exactly one candidate has the best score *)
  Definition unique_max (cs : list (list N)) : Prop := length (argmax_set cur refer cs) = 1%nat.

  Theorem best_match_unique cs cs' : unique_max cs -> Permutation cs cs' ->
    first_max cur refer cs' = first_max cur refer cs.
  Proof.
    intros Hu Hp. unfold first_max, unique_max in *. pose proof (argmax_perm _ _ Hp) as Ha.
    destruct (argmax_set cur refer cs) as [|c [|d l]]; try discriminate.
    apply Permutation_length_1_inv in Ha. rewrite Ha. reflexivity.
  Qed.

  (* whatever sort.Sort does: the head of ANY arrangement sorted by descending score is a best-scored candidate *)
  Theorem sort_head_argmax cs sorted h rest :
    Permutation sorted cs -> sorted = h :: rest ->
    (forall c, In c rest -> (sc c <= sc h)%Z) ->
    In h (argmax_set cur refer cs).
  Proof.
    intros Hp -> Hs. destruct cs as [|c0 t]; [apply Permutation_sym, Permutation_nil in Hp; discriminate|].
    unfold argmax_set. apply filter_In. split; [apply (Permutation_in _ Hp); left; reflexivity|].
    apply Z.eqb_eq. apply (is_max_unique (c0 :: t)); [|apply max_score_is_max].
    apply (is_max_perm (h :: rest)); [exact Hp|]. split.
    - intros c [<-|Hc]; [fold sc; lia|apply Hs; exact Hc].
    - exists h. split; [left; reflexivity|reflexivity].
  Qed.
End Best.

(* ------------------------------------------------------------------ arrival order of worker results *)
Lemma find_app' {A} (f : A -> bool) l1 l2 :
  find f (l1 ++ l2) = match find f l1 with Some x => Some x | None => find f l2 end.
Proof. induction l1 as [|a l1 IH]; simpl; [reflexivity|]. destruct (f a); [reflexivity|exact IH]. Qed.

Lemma aget_collect_from {R} (arr : list (list N * R)) : forall m f,
  aget f (fold_left (fun m a => aset (fst a) (snd a) m) arr m) =
  match find (fun a => beq_bytes f (fst a)) (rev arr) with Some a => Some (snd a) | None => aget f m end.
Proof.
  induction arr as [|[k r] arr IH]; intros m f; simpl; [reflexivity|].
  rewrite IH. rewrite find_app'.
  destruct (find (fun a => beq_bytes f (fst a)) (rev arr)); [reflexivity|].
  simpl. rewrite aget_aset. destruct (beq_bytes f k); reflexivity.
Qed.

Lemma find_unique_key {R} (l : list (list N * R)) f r :
  NoDup (map fst l) -> In (f, r) l -> find (fun a => beq_bytes f (fst a)) l = Some (f, r).
Proof.
  induction l as [|[k v] l IH]; intros Hnd Hin; [destruct Hin|].
  simpl in *. inversion Hnd as [|? ? Hn Hd]; subst.
  destruct Hin as [Heq|Hin].
  - injection Heq as -> ->. rewrite beq_refl. reflexivity.
  - destruct (beq_bytes f k) eqn:E; [|apply IH; assumption].
    apply beq_bytes_eq in E. subst k. exfalso. apply Hn. apply in_map_iff. exists (f, r). split; [reflexivity|exact Hin].
Qed.

Lemma find_none_key {R} (l : list (list N * R)) f :
  ~ In f (map fst l) -> find (fun a => beq_bytes f (fst a)) l = None.
Proof.
  induction l as [|[k v] l IH]; intros Hn; [reflexivity|]. simpl in *.
  destruct (beq_bytes f k) eqn:E.
  - apply beq_bytes_eq in E. exfalso. apply Hn. left. symmetry. exact E.
  - apply IH. intros H. apply Hn. right. exact H.
Qed.

Theorem arrival_perm {R} (arr arr' : list (list N * R)) :
  NoDup (map fst arr) -> Permutation arr arr' -> forall f, aget f (collect arr) = aget f (collect arr').
Proof.
  intros Hnd Hp f. unfold collect. rewrite !aget_collect_from. simpl.
  assert (NoDup (map fst (rev arr))) as Hnd1.
  { apply (Permutation_NoDup (l := map fst arr)); [apply Permutation_map, Permutation_rev|exact Hnd]. }
  assert (Permutation (rev arr) (rev arr')) as Hp1.
  { eapply Permutation_trans; [apply Permutation_sym, Permutation_rev|].
    eapply Permutation_trans; [exact Hp|apply Permutation_rev]. }
  assert (NoDup (map fst (rev arr'))) as Hnd2 by (apply (Permutation_NoDup (Permutation_map fst Hp1) Hnd1)).
  destruct (in_dec (list_eq_dec N.eq_dec) f (map fst (rev arr))) as [Hin|Hnin].
  - apply in_map_iff in Hin as [[k r] [Hk Hin]]. simpl in Hk. subst k.
    rewrite (find_unique_key _ f r Hnd1 Hin).
    rewrite (find_unique_key _ f r Hnd2 (Permutation_in _ Hp1 Hin)). reflexivity.
  - rewrite (find_none_key _ f Hnin).
    rewrite (find_none_key (rev arr') f); [reflexivity|].
    intros H. apply Hnin. apply (Permutation_in _ (Permutation_sym (Permutation_map fst Hp1)) H).
Qed.

(* ------------------------------------------------------------------ one scope's diagnostics *)
Theorem scope_errors_perm {var err} (errs_of : list N -> var -> list err) m m' :
  Permutation m m' -> Permutation (scope_errors var err errs_of m) (scope_errors var err errs_of m').
Proof. intros H. unfold scope_errors. apply Permutation_flat_map. exact H. Qed.
