(* Position resolver = Lua's binder, part 2: positions as integer keys (line * W + column), the order of the boundary
   marks of a laid-out program, and FindMinScope's scan over sibling scopes. *)
From Coq Require Import List NArith ZArith Bool Lia.
From LH Require Import Base.Bytes Model.Lexer Model.Ast Model.Scope Model.Globals Model.Resolve Spec.LuaScope
  Proofs.PositionBindBase.
Import ListNotations.
Local Open Scope Z_scope.

Section Keys.
  Variable W : Z.
  Hypothesis HW : 0 < W.
  Variable line col : Z.
  Hypothesis Hcol : 0 <= col < W.

  Definition K : Z := key W line col.
  Definition pl : loc := mkLoc line col line col.

  Lemma key_le l1 c1 l2 c2 : 0 <= c1 < W -> 0 <= c2 < W ->
    (key W l1 c1 <= key W l2 c2 <-> l1 < l2 \/ (l1 = l2 /\ c1 <= c2)).
  Proof. unfold key. intros H1 H2. split; intros H; nia. Qed.
  Lemma key_lt l1 c1 l2 c2 : 0 <= c1 < W -> 0 <= c2 < W ->
    (key W l1 c1 < key W l2 c2 <-> l1 < l2 \/ (l1 = l2 /\ c1 < c2)).
  Proof. unfold key. intros H1 H2. split; intros H; nia. Qed.

  Definition cok (l : loc) : Prop := col_ok W l = true.
  Lemma cok_bounds l : cok l -> 0 <= sc l < W /\ 0 <= ec l < W.
  Proof. unfold cok, col_ok. intros H. repeat (apply andb_true_iff in H; destruct H as [H ?]). lia. Qed.

  Lemma in_location_iff l : cok l -> (in_location l line col = true <-> lo W l <= K /\ K <= hi W l).
  Proof.
    intros Hc. destruct (cok_bounds l Hc) as [Hs He]. unfold lo, hi, K.
    rewrite (key_le (sl l) (sc l) line col Hs Hcol), (key_le line col (el l) (ec l) Hcol He).
    unfold in_location.
    destruct (line <? sl l) eqn:E1; destruct (line >? el l) eqn:E2; cbn [orb];
      destruct (line =? sl l) eqn:E3; destruct (col <? sc l) eqn:E4; cbn [andb];
      destruct (line =? el l) eqn:E5; destruct (col >? ec l) eqn:E6; cbn [andb]; split; intros H; try discriminate; try reflexivity; lia.
  Qed.

  Lemma loc_contains_iff l : cok l -> (loc_contains l pl = true <-> lo W l <= K /\ K <= hi W l).
  Proof.
    intros Hc. destruct (cok_bounds l Hc) as [Hs He]. unfold lo, hi, K.
    rewrite (key_le (sl l) (sc l) line col Hs Hcol), (key_le line col (el l) (ec l) Hcol He).
    unfold loc_contains, pl. cbn [sl sc el ec].
    destruct (sl l >? line) eqn:E1; destruct (el l <? line) eqn:E2; cbn [orb];
      destruct (sl l =? line) eqn:E3; destruct (sc l >? col) eqn:E4; cbn [andb];
      destruct (el l =? line) eqn:E5; destruct (ec l <? col) eqn:E6; cbn [andb]; split; intros H; try discriminate; try reflexivity; lia.
  Qed.

  Lemma loc_before_iff l : 0 <= sc l < W -> (loc_before l pl = true <-> lo W l <= K).
  Proof.
    intros Hs. unfold lo, K. rewrite (key_le (sl l) (sc l) line col Hs Hcol).
    unfold loc_before, pl. cbn [sl sc]. rewrite orb_true_iff, andb_true_iff. lia.
  Qed.

  (* ---- FindMinScope's scan over the sub-scopes *)
  Fixpoint scan (ss : list scope) : option scope :=
    match ss with
    | [] => None
    | sub :: r =>
      if el (scope_loc sub) <? line then scan r
      else if in_location (scope_loc sub) line col then Some sub
           else if sl (scope_loc sub) >? line then None else scan r
    end.

  Definition passes (x : scope) : Prop :=
    (el (scope_loc x) <? line) = true \/
    (in_location (scope_loc x) line col = false /\ (sl (scope_loc x) >? line) = false).
  Definition notin (x : scope) : Prop :=
    (el (scope_loc x) <? line) = true \/ in_location (scope_loc x) line col = false.

  Lemma scan_skip pre r : Forall passes pre -> scan (pre ++ r) = scan r.
  Proof.
    intros H. induction H as [|x pre' Hx Hp IH]; [reflexivity|]. cbn [app scan].
    destruct Hx as [Hx|[Hx1 Hx2]]; [rewrite Hx; exact IH|].
    destruct (el (scope_loc x) <? line); [exact IH|]. rewrite Hx1, Hx2. exact IH.
  Qed.
  Lemma scan_found b T post : scan b = Some T -> scan (b ++ post) = Some T.
  Proof.
    induction b as [|x r IH]; cbn [scan app]; intros H; [discriminate|].
    destruct (el (scope_loc x) <? line); [auto|].
    destruct (in_location (scope_loc x) line col); [exact H|].
    destruct (sl (scope_loc x) >? line); [discriminate|auto].
  Qed.
  Lemma scan_none_notin post : Forall notin post -> scan post = None.
  Proof.
    intros H. induction H as [|x r Hx Hr IH]; [reflexivity|]. cbn [scan].
    destruct (el (scope_loc x) <? line) eqn:E; [exact IH|].
    destruct Hx as [Hx|Hx]; [congruence|]. rewrite Hx.
    destruct (sl (scope_loc x) >? line); [reflexivity|exact IH].
  Qed.
  Lemma scan_none b post : scan b = None -> Forall notin post -> scan (b ++ post) = None.
  Proof.
    intros Hb Hp. induction b as [|x r IH]; cbn [scan app] in *; [apply scan_none_notin; exact Hp|].
    destruct (el (scope_loc x) <? line); [auto|].
    destruct (in_location (scope_loc x) line col); [discriminate|].
    destruct (sl (scope_loc x) >? line); [reflexivity|auto].
  Qed.
  Lemma scan_some_in ss T : scan ss = Some T -> In T ss /\ in_location (scope_loc T) line col = true.
  Proof.
    induction ss as [|x r IH]; cbn [scan]; intros H; [discriminate|].
    destruct (el (scope_loc x) <? line); [destruct (IH H); split; [right|]; assumption|].
    destruct (in_location (scope_loc x) line col) eqn:E.
    - injection H as H. subst x. split; [left; reflexivity|exact E].
    - destruct (sl (scope_loc x) >? line); [discriminate|]. destruct (IH H); split; [right|]; assumption.
  Qed.

  (* the chain below a scope: var vectors innermost first, the scope's own vector last *)
  Inductive path : scope -> list (list ventry) -> Prop :=
  | path_here l vars subs : scan subs = None -> path (Scope l vars subs) [vars]
  | path_down l vars subs T c : scan subs = Some T -> path T c -> path (Scope l vars subs) (c ++ [vars]).

  (* the chain below a list of sibling scopes *)
  Definition ipath (ss : list scope) (c : list (list ventry)) : Prop :=
    (scan ss = None /\ c = []) \/ (exists T, scan ss = Some T /\ path T c).

  Lemma path_of_ipath l vars subs c : ipath subs c -> path (Scope l vars subs) (c ++ [vars]).
  Proof.
    intros [[Hs Hc]|(T & Hs & Hp)]; [subst c; apply path_here; exact Hs|eapply path_down; eauto].
  Qed.

  Lemma min_chain_unfold l vars subs acc :
    min_chain (Scope l vars subs) line col acc =
    if in_location l line col then
      Some (match scan subs with
            | Some T => match min_chain T line col (vars :: acc) with Some c => c | None => vars :: acc end
            | None => vars :: acc
            end)
    else None.
  Proof.
    cbn [min_chain]. destruct (in_location l line col); [|reflexivity]. f_equal.
    induction subs as [|x r IH]; [reflexivity|]. cbn [scan].
    destruct (el (scope_loc x) <? line); [exact IH|].
    destruct (in_location (scope_loc x) line col); [reflexivity|].
    destruct (sl (scope_loc x) >? line); [reflexivity|exact IH].
  Qed.

  Lemma min_chain_path s c : path s c -> forall acc,
    in_location (scope_loc s) line col = true -> min_chain s line col acc = Some (c ++ acc).
  Proof.
    intros Hp. induction Hp as [l vars subs Hs|l vars subs T c Hs Hp IH]; intros acc Hin;
      rewrite min_chain_unfold; cbn [scope_loc] in Hin; rewrite Hin, Hs.
    - reflexivity.
    - destruct (scan_some_in _ _ Hs) as [_ HT]. rewrite (IH (vars :: acc) HT). rewrite <- app_assoc. reflexivity.
  Qed.

  (* a single scope among its siblings *)
  Lemma scan_single pre x post :
    Forall passes pre -> lo W (scope_loc x) <= K -> K <= hi W (scope_loc x) -> cok (scope_loc x) ->
    scan (pre ++ x :: post) = Some x.
  Proof.
    intros Hp H1 H2 Hc. rewrite scan_skip by exact Hp. cbn [scan].
    assert (Hin : in_location (scope_loc x) line col = true) by (apply in_location_iff; auto).
    rewrite Hin. destruct (el (scope_loc x) <? line) eqn:E; [|reflexivity].
    exfalso. destruct (cok_bounds _ Hc) as [_ He]. unfold hi, K in H2.
    apply (key_le line col (el (scope_loc x)) (ec (scope_loc x)) Hcol He) in H2. lia.
  Qed.

  Lemma passes_of_before x : cok (scope_loc x) -> lo W (scope_loc x) <= hi W (scope_loc x) -> hi W (scope_loc x) < K -> passes x.
  Proof.
    intros Hc Hlh Hk. destruct (cok_bounds _ Hc) as [Hs He].
    unfold lo, hi, K in *.
    apply (key_le _ _ _ _ Hs He) in Hlh. apply (key_lt _ _ _ _ He Hcol) in Hk.
    unfold passes. destruct (el (scope_loc x) <? line) eqn:E; [left; reflexivity|right]. split.
    - unfold in_location. destruct (line <? sl (scope_loc x)) eqn:E1; destruct (line >? el (scope_loc x)) eqn:E2; cbn [orb]; try reflexivity.
      destruct (line =? sl (scope_loc x)) eqn:E3; destruct (col <? sc (scope_loc x)) eqn:E4; cbn [andb]; try reflexivity;
        destruct (line =? el (scope_loc x)) eqn:E5; destruct (col >? ec (scope_loc x)) eqn:E6; cbn [andb]; try reflexivity; lia.
    - lia.
  Qed.
  Lemma notin_of_before x : cok (scope_loc x) -> hi W (scope_loc x) < K -> notin x.
  Proof.
    intros Hc Hk. right. destruct (in_location (scope_loc x) line col) eqn:E; [|reflexivity].
    apply in_location_iff in E; [lia|exact Hc].
  Qed.
  Lemma notin_of_after x : cok (scope_loc x) -> K < lo W (scope_loc x) -> notin x.
  Proof.
    intros Hc Hk. right. destruct (in_location (scope_loc x) line col) eqn:E; [|reflexivity].
    apply in_location_iff in E; [lia|exact Hc].
  Qed.
  Lemma passes_notin x : passes x -> notin x.
  Proof. intros [H|[H _]]; [left|right]; exact H. Qed.
End Keys.

(* ------------------------------------------------------------------ order of the marks *)
Section Marks.
  Variable W : Z.

  Definition mlt (x y : mark) : Prop :=
    mark_key W x <= mark_key W y /\ (ends x = true -> begins y = true -> mark_key W x < mark_key W y).
  Definition cross (a b : list mark) : Prop := forall x y, In x a -> In y b -> mlt x y.
  Definition G (ms : list mark) : Prop := forall a b, ms = a ++ b -> cross a b.
  Definition MG (ms : list mark) : Prop := Forall (fun m => mark_ok W m = true) ms /\ G ms.

  Lemma ends_begins m : ends m = negb (begins m).
  Proof. destruct m; reflexivity. Qed.

  (* from a mark x to a later mark y in a list whose consecutive steps are ok *)
  Lemma steps_ok_cons m r : steps_ok W (m :: r) = true ->
    steps_ok W r = true /\ match r with m' :: _ => step_ok W m m' = true | [] => True end.
  Proof. destruct r as [|m' r']; cbn [steps_ok]; intros H; [auto|]. apply andb_true_iff in H. tauto. Qed.

  Lemma steps_head_mlt r : forall m, steps_ok W (m :: r) = true -> forall y, In y r -> mlt m y.
  Proof.
    induction r as [|m' r' IH]; intros m H y Hy; [destruct Hy|].
    destruct (steps_ok_cons _ _ H) as [Hr Hs]. unfold step_ok in Hs.
    apply andb_true_iff in Hs. destruct Hs as [Hle Hst]. apply Z.leb_le in Hle.
    assert (Hmm' : mlt m m').
    { split; [exact Hle|]. intros He Hb. rewrite He, Hb in Hst. cbn in Hst. apply Z.ltb_lt in Hst. exact Hst. }
    destruct Hy as [Hy|Hy]; [subst y; exact Hmm'|].
    pose proof (IH m' Hr y Hy) as Hm'y. destruct Hmm' as [H1 H1s]. destruct Hm'y as [H2 H2s].
    split; [lia|]. intros He Hb.
    destruct (begins m') eqn:Eb.
    - specialize (H1s He eq_refl). lia.
    - assert (Hem' : ends m' = true) by (rewrite ends_begins, Eb; reflexivity). specialize (H2s Hem' Hb). lia.
  Qed.

  Lemma steps_ok_G ms : steps_ok W ms = true -> G ms.
  Proof.
    intros H a. revert ms H. induction a as [|m a' IH]; intros ms H b E x0 y0 Hx Hy; [destruct Hx|].
    subst ms. cbn [app] in H. destruct Hx as [Hx|Hx].
    - subst x0. apply (steps_head_mlt _ _ H). apply in_or_app. right. exact Hy.
    - destruct (steps_ok_cons _ _ H) as [Hr _]. exact (IH _ Hr b eq_refl x0 y0 Hx Hy).
  Qed.

  Lemma G_app a b : G (a ++ b) -> G a /\ G b /\ cross a b.
  Proof.
    intros H. split; [|split].
    - intros a1 a2 E x y Hx Hy. apply (H a1 (a2 ++ b)); [rewrite E, app_assoc; reflexivity|exact Hx|apply in_or_app; left; exact Hy].
    - intros b1 b2 E x y Hx Hy. apply (H (a ++ b1) b2); [rewrite E, app_assoc; reflexivity|apply in_or_app; right; exact Hx|exact Hy].
    - apply H. reflexivity.
  Qed.
  Lemma MG_app a b : MG (a ++ b) -> MG a /\ MG b /\ cross a b.
  Proof.
    intros [Hf Hg]. apply Forall_app in Hf. destruct Hf as [Hfa Hfb]. destruct (G_app _ _ Hg) as (Ga & Gb & Hc).
    split; [exact (conj Hfa Ga)|]. split; [exact (conj Hfb Gb)|exact Hc].
  Qed.
  Lemma MG_cons m r : MG (m :: r) -> MG r /\ cross [m] r /\ mark_ok W m = true.
  Proof.
    intros H. change (m :: r) with ([m] ++ r) in H. destruct (MG_app _ _ H) as ([Hm _] & Hr & Hc).
    inversion Hm; subst. auto.
  Qed.
  Lemma MG_in ms m : MG ms -> In m ms -> mark_ok W m = true.
  Proof. intros [Hf _] Hin. rewrite Forall_forall in Hf. auto. Qed.

  Lemma cross_app_l a1 a2 b : cross (a1 ++ a2) b -> cross a1 b /\ cross a2 b.
  Proof. intros H. split; intros x y Hx Hy; apply H; auto; apply in_or_app; auto. Qed.
  Lemma cross_app_r a b1 b2 : cross a (b1 ++ b2) -> cross a b1 /\ cross a b2.
  Proof. intros H. split; intros x y Hx Hy; apply H; auto; apply in_or_app; auto. Qed.
  Lemma cross_sub a b a' b' : cross a b -> incl a' a -> incl b' b -> cross a' b'.
  Proof. intros H Ha Hb x y Hx Hy. apply H; auto. Qed.

  Lemma laid2_MG P : laid2_b W P = true -> MG (marks2 P) /\ 0 < W /\ shape_ok P = true.
  Proof.
    unfold laid2_b. intros H.
    apply andb_true_iff in H. destruct H as [H H4]. apply andb_true_iff in H. destruct H as [H H3].
    apply andb_true_iff in H. destruct H as [H1 H2].
    split; [split|split].
    - apply forallb_Forall. exact H3.
    - apply steps_ok_G. exact H4.
    - apply Z.ltb_lt. exact H2.
    - exact H1.
  Qed.
End Marks.
