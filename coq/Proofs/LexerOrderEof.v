(* C04: while no syntax error has been reported, the parser never stands ON the EOF token.

   NE st := perrs st = [] -> now_kind st <> TkEOF.  Every function of the parser model keeps NE: a token is consumed
   either by `expect k` with k <> EOF (no error => the token is a k), or by `next` under a test of the look-ahead that
   excludes EOF, or an error is recorded.  Consequence (parse_tokens_now_real): after an error-free parse the current
   token of the state reached by the top-level block is the last token before EOF, so the upper bound of
   parse_tokens_locs_within can be tightened to the end of the last NON-EOF token (parse_tokens_locs_within_clean).
   Same symbolic execution (post / pstep) as ParserLocSteps.v, with a simpler predicate. *)
From Coq Require Import List NArith ZArith Bool Arith Lia.
From LH Require Import Base.Bytes Base.Res Model.Lexer Model.Ast Model.Parser Spec.LspRange.
From LH Require Import Proofs.LexerTotalWf Proofs.ParserTotalBase Proofs.ParserTotalEqs Proofs.ParserLocBase
     Proofs.ParserLocSteps Proofs.ParserLocKeys Proofs.ParserLocOrder Proofs.ParserLocOrderMain.
Import ListNotations.

Definition NE (st : pst) : Prop := perrs st = [] -> now_kind st <> TkEOF.

Lemma now_kind_next st : now_kind (next st) = la st.
Proof. unfold next, now_kind, now_tok, la, ahead_tok. destruct (rest st) as [|t [|t2 r]]; reflexivity. Qed.

Lemma NE_err e st : NE (err e st).
Proof. intros H. cbn [err perrs] in H. apply app_eq_nil in H as [_ H]. discriminate. Qed.

Lemma NE_next st : (perrs st = [] -> la st <> TkEOF) -> NE (next st).
Proof. intros H Hp. rewrite perrs_next in Hp. rewrite now_kind_next. apply H, Hp. Qed.

Lemma NE_expect k st : k <> TkEOF -> NE (expect k st).
Proof.
  intros Hk Hp. apply perrs_expect_nil in Hp. unfold expect.
  destruct (tk_eqb _ _); [|change (now_kind (next st) <> TkEOF)]; congruence.
Qed.

Lemma NE_init ts : NE (init_pst ts).
Proof. intros _. cbn. discriminate. Qed.

(* goal: perrs s = [] -> la s <> TkEOF, from a test of la s in the context (or from an error in s) *)
Ltac la_contra :=
  let Hp := fresh "Hp" in let E := fresh "E" in
  intros Hp E;
  first [ solve [exfalso; cbn [err perrs] in Hp; apply app_eq_nil in Hp as [_ Hp]; discriminate Hp]
        | match goal with
          | H : context [la _] |- _ => rewrite E in H; vm_compute in H; discriminate H
          end ].

Ltac ne_solve :=
  first [ assumption | apply NE_err | apply NE_expect; discriminate | apply NE_next; la_contra ].

Lemma local_attr_ne st a st' : p_local_attr st = (a, st') -> NE st -> NE st'.
Proof.
  unfold p_local_attr. intros H HN.
  repeat match type of H with context [if ?b then _ else _] => destruct b eqn:? end;
    injection H as <- <-; ne_solve.
Qed.

Section Steps.
  Variable classify : list N -> numcls.

  Ltac side :=
    lazymatch goal with
    | |- NE _ => unstick; solve [ne_solve]
    | |- _ => idtac
    end.
  Ltac useih := match goal with Hi : _ |- _ => eapply Hi end; side.
  Ltac finish := apply post_ret; cbn [fst snd]; unstick; solve [ne_solve].
  Ltac pcall :=
    eapply post_bind; [ useih | let a := fresh "a" in let s := fresh "st" in let HQ := fresh "HQ" in
                                intros a s HQ; cbn beta in HQ ].
  Ltac ptail :=
    eapply post_weaken; [ useih | let a := fresh "a" in let s := fresh "st" in let HQ := fresh "HQ" in
                                  intros a s HQ; cbn beta in HQ |- *; exact HQ ].

  Ltac pstep :=
    cbv beta iota zeta;
    lazymatch goal with
    | |- post _ (Ok (_, _)) => finish
    | |- post _ OutOfFuel => apply post_oof
    | |- post _ (match (match ?y with _ => _ end) with _ => _ end) =>
      lazymatch type of y with
      | Res _ => apply post_assoc
      | _ => innermost y ltac:(fun z =>
               lazymatch type of z with
               | Res _ => apply post_assoc
               | _ => destruct z eqn:?; cbn [fst snd] in *
               end)
      end
    | |- post _ (match ?x with _ => _ end) =>
      innermost x ltac:(fun z =>
        lazymatch type of z with
        | Res _ =>
          match z with
          | context [if ?b then _ else _] => destruct b eqn:?
          | context [match ?v with _ => _ end] => is_var v; destruct v
          | _ => pcall
          end
        | _ => destruct z eqn:?; cbn [fst snd] in *;
               try match goal with
                   | Ha : p_local_attr _ = (_, _) |- _ => apply local_attr_ne in Ha; [|solve [unstick; ne_solve]]
                   end
        end)
    | |- post _ ?z =>
      match z with
      | context [if ?b then _ else _] => destruct b eqn:?
      | context [match ?v with _ => _ end] => is_var v; destruct v
      | _ => ptail
      end
    end.
  Ltac go := repeat pstep.

  Local Notation Q := (fun _ st' => NE st').

  Lemma E_namelist_tail : forall n st names locs, NE st -> post Q (p_namelist_tail n st names locs).
  Proof. induction n as [|n IH]; intros st names locs HN; [apply post_oof|]. cbn [p_namelist_tail]. go. Qed.

  Lemma E_local_namelist_tail : forall n st sc names locs attrs, NE st ->
    post Q (p_local_namelist_tail n st sc names locs attrs).
  Proof. induction n as [|n IH]; intros st sc names locs attrs HN; [apply post_oof|]. cbn [p_local_namelist_tail]. go. Qed.

  Lemma E_parlist_tail : forall n st names locs, NE st -> post Q (p_parlist_tail n st names locs).
  Proof. induction n as [|n IH]; intros st names locs HN; [apply post_oof|]. cbn [p_parlist_tail]. go. Qed.

  Lemma E_parlist n st : NE st -> post Q (p_parlist n st).
  Proof.
    intros HN. pose proof E_parlist_tail as J.
    assert (E : p_parlist n st =
                if tk_eqb (la st) TkSepRparen then Ok ([], [], false, st)
                else if tk_eqb (la st) TkVararg then Ok ([], [], true, next st)
                else let st1 := expect TkIdentifier st in p_parlist_tail n st1 [now_str st1] [now_loc st1])
      by (unfold p_parlist; destruct (la st); reflexivity).
    rewrite E. go.
  Qed.

  Lemma E_funcname_dots : forall n st b f e c fn, NE st -> post Q (p_funcname_dots n st b f e c fn).
  Proof. induction n as [|n IH]; intros st b f e c fn HN; [apply post_oof|]. cbn [p_funcname_dots]. go. Qed.

  Lemma E_funcname n st : NE st -> post Q (p_funcname n st).
  Proof. intros HN. pose proof E_funcname_dots as J. unfold p_funcname. go. Qed.

  Definition PE (n : nat) : Prop :=
    (forall st, NE st -> post Q (p_block classify n st)) /\
    (forall st, NE st -> post Q (p_block_loc classify n st)) /\
    (forall st, NE st -> post Q (p_block_loc_excl classify n st)) /\
    (forall st acc, NE st -> post Q (p_stats classify n st acc)) /\
    (forall st, NE st -> post Q (p_stat classify n st)) /\
    (forall st, NE st -> post Q (p_assign_or_call classify n st)) /\
    (forall st es bs, NE st -> post Q (p_if_tail classify n st es bs)) /\
    (forall st vars nv, NE st -> post Q (p_varlist_tail classify n st vars nv)) /\
    (forall st, NE st -> post Q (p_explist classify n st)) /\
    (forall st acc, NE st -> post Q (p_explist_tail classify n st acc)) /\
    (forall lim st, NE st -> post Q (p_subexp classify n lim st)) /\
    (forall lim bbl e st, NE st -> post Q (p_binop_loop classify n lim bbl e st)) /\
    (forall st, NE st -> post Q (p_exp0 classify n st)) /\
    (forall st, NE st -> post Q (p_prefixexp classify n st)) /\
    (forall e bl st, NE st -> post Q (p_finish_prefix classify n e bl st)) /\
    (forall st, NE st -> post Q (p_args classify n st)) /\
    (forall st, NE st -> post Q (p_table classify n st)) /\
    (forall st ks vs, NE st -> post Q (p_fieldlist_tail classify n st ks vs)) /\
    (forall st, NE st -> post Q (p_field classify n st)) /\
    (forall bl st, NE st -> post Q (p_funcdef classify n bl st)).

  Ltac ihs IH :=
    destruct IH as (I1 & I2 & I3 & I4 & I5 & I6 & I7 & I8 & I9 & I10 & I11 & I12 & I13 & I14 & I15 & I16 & I17
                    & I18 & I19 & I20);
    pose proof E_namelist_tail as J1; pose proof E_local_namelist_tail as J2; pose proof E_parlist as J3;
    pose proof E_funcname as J4.

  Lemma X_block n : PE n -> forall st, NE st -> post Q (p_block classify (S n) st).
  Proof. intros IH st HN. ihs IH. rewrite p_block_S. go. Qed.
  Lemma X_block_loc n : PE n -> forall st, NE st -> post Q (p_block_loc classify (S n) st).
  Proof. intros IH st HN. ihs IH. rewrite p_block_loc_S. go. Qed.
  Lemma X_block_loc_excl n : PE n -> forall st, NE st -> post Q (p_block_loc_excl classify (S n) st).
  Proof. intros IH st HN. ihs IH. rewrite p_block_loc_excl_S. go. Qed.
  Lemma X_stats n : PE n -> forall st acc, NE st -> post Q (p_stats classify (S n) st acc).
  Proof. intros IH st acc HN. ihs IH. rewrite p_stats_S. go. Qed.
  Lemma X_if_tail n : PE n -> forall st es bs, NE st -> post Q (p_if_tail classify (S n) st es bs).
  Proof. intros IH st es bs HN. ihs IH. rewrite p_if_tail_S. go. Qed.
  Lemma X_varlist_tail n : PE n -> forall st vars nv, NE st -> post Q (p_varlist_tail classify (S n) st vars nv).
  Proof. intros IH st vars nv HN. ihs IH. rewrite p_varlist_tail_S. go. Qed.
  Lemma X_explist n : PE n -> forall st, NE st -> post Q (p_explist classify (S n) st).
  Proof. intros IH st HN. ihs IH. rewrite p_explist_S. go. Qed.
  Lemma X_explist_tail n : PE n -> forall st acc, NE st -> post Q (p_explist_tail classify (S n) st acc).
  Proof. intros IH st acc HN. ihs IH. rewrite p_explist_tail_S. go. Qed.
  Lemma X_subexp n : PE n -> forall lim st, NE st -> post Q (p_subexp classify (S n) lim st).
  Proof. intros IH lim st HN. ihs IH. rewrite p_subexp_S. go. Qed.
  Lemma X_binop_loop n : PE n -> forall lim bbl e st, NE st -> post Q (p_binop_loop classify (S n) lim bbl e st).
  Proof. intros IH lim bbl e st HN. ihs IH. rewrite p_binop_loop_S. go. Qed.
  Lemma X_exp0 n : PE n -> forall st, NE st -> post Q (p_exp0 classify (S n) st).
  Proof. intros IH st HN. ihs IH. rewrite p_exp0_S. go. Qed.
  Lemma X_prefixexp n : PE n -> forall st, NE st -> post Q (p_prefixexp classify (S n) st).
  Proof. intros IH st HN. ihs IH. rewrite p_prefixexp_S. go. Qed.
  Lemma X_finish_prefix n : PE n -> forall e bl st, NE st -> post Q (p_finish_prefix classify (S n) e bl st).
  Proof. intros IH e bl st HN. ihs IH. rewrite p_finish_prefix_S. go. Qed.
  Lemma X_args n : PE n -> forall st, NE st -> post Q (p_args classify (S n) st).
  Proof. intros IH st HN. ihs IH. rewrite p_args_S. go. Qed.
  Lemma X_table n : PE n -> forall st, NE st -> post Q (p_table classify (S n) st).
  Proof. intros IH st HN. ihs IH. rewrite p_table_S. go. Qed.
  Lemma X_fieldlist_tail n : PE n -> forall st ks vs, NE st -> post Q (p_fieldlist_tail classify (S n) st ks vs).
  Proof. intros IH st ks vs HN. ihs IH. rewrite p_fieldlist_tail_S. go. Qed.
  Lemma X_field n : PE n -> forall st, NE st -> post Q (p_field classify (S n) st).
  Proof. intros IH st HN. ihs IH. rewrite p_field_S. go. Qed.
  Lemma X_funcdef n : PE n -> forall bl st, NE st -> post Q (p_funcdef classify (S n) bl st).
  Proof. intros IH bl st HN. ihs IH. rewrite p_funcdef_S. go. Qed.
  Lemma X_assign_or_call n : PE n -> forall st, NE st -> post Q (p_assign_or_call classify (S n) st).
  Proof. intros IH st HN. ihs IH. rewrite p_assign_or_call_S. go. Qed.
  Lemma X_stat n : PE n -> forall st, NE st -> post Q (p_stat classify (S n) st).
  Proof. intros IH st HN. ihs IH. rewrite p_stat_S. go. Qed.

  Theorem PE_all : forall n, PE n.
  Proof.
    induction n as [|n IH].
    - unfold PE. repeat apply conj; intros; apply post_oof.
    - unfold PE. repeat apply conj.
      + apply X_block; assumption.
      + apply X_block_loc; assumption.
      + apply X_block_loc_excl; assumption.
      + apply X_stats; assumption.
      + apply X_stat; assumption.
      + apply X_assign_or_call; assumption.
      + apply X_if_tail; assumption.
      + apply X_varlist_tail; assumption.
      + apply X_explist; assumption.
      + apply X_explist_tail; assumption.
      + apply X_subexp; assumption.
      + apply X_binop_loop; assumption.
      + apply X_exp0; assumption.
      + apply X_prefixexp; assumption.
      + apply X_finish_prefix; assumption.
      + apply X_args; assumption.
      + apply X_table; assumption.
      + apply X_fieldlist_tail; assumption.
      + apply X_field; assumption.
      + apply X_funcdef; assumption.
  Qed.
End Steps.
Print Assumptions PE_all.

(* ------------------------------------------------------------------ a block that starts at EOF is empty *)
Lemma block_loc_at_eof classify fuel st b st' :
  la st = TkEOF -> p_block_loc classify fuel st = Ok (b, st') -> locs_block b = [].
Proof.
  intros Hla H. destruct fuel as [|[|[|n]]].
  - change (p_block_loc classify 0 st) with (@OutOfFuel (block * pst)) in H. discriminate.
  - rewrite p_block_loc_S in H. cbv zeta in H.
    change (p_block classify 0 st) with (@OutOfFuel (block * pst)) in H. discriminate.
  - rewrite p_block_loc_S, p_block_S in H. cbv zeta in H.
    change (p_stats classify 0 st []) with (@OutOfFuel (list stat * pst)) in H. discriminate.
  - rewrite p_block_loc_S, p_block_S, p_stats_S in H. cbv zeta in H. rewrite Hla in H.
    cbn [is_block_end] in H. cbv iota beta in H. rewrite Hla in H.
    change (tk_eqb TkEOF TkKwReturn) with false in H. cbn [negb] in H. cbv iota beta in H.
    injection H as <- _. reflexivity.
Qed.

(* ------------------------------------------------------------------ the tight upper bound of an error-free parse *)
Section Clean.
  Variable key : Z -> Z -> Z.
  Variable classify : list N -> numcls.
  Variable ts : list ltok.
  Hypothesis Hwt : wf_tokens ts.
  Hypothesis Hord : TokOrd key ts.

  Theorem parse_tokens_locs_within_clean fuel b le :
    parse_tokens classify fuel ts = Ok (PR b le []) ->
    locs_block b = [] \/
    exists n, In n (map lt ts) /\ tk n <> TkEOF /\
              WithinL key (lo key (SL (first_tok ts))) (locs_block b) (hi key (SL n)).
  Proof.
    pose proof (wf_tokens_wfr ts Hwt) as Hwf.
    unfold parse_tokens. intros H.
    destruct (PK_all key classify ts Hwf Hord fuel) as (_ & I2 & _).
    destruct (PE_all classify fuel) as (_ & E2 & _).
    assert (HI0 : ParserLocBase.Inv ts (init_pst ts)) by (apply Inv_init; destruct Hwf as [Hne _]; exact Hne).
    assert (E0 : kc key (init_pst ts) = lo key (SL (first_tok ts))).
    { unfold kc, heard_loc, ahead_tok, first_tok, init_pst. cbn [rest now otok].
      destruct ts as [|t r] eqn:Ets; [destruct Hwf as [Hne _]; congruence|]. cbn [hd].
      rewrite tok_loc_SL; [reflexivity|].
      destruct Hord as [Hf _]. rewrite Forall_forall in Hf. apply (Hf (lt t)). left. reflexivity. }
    specialize (I2 (lo key (SL (first_tok ts))) (init_pst ts) HI0 ltac:(rewrite E0; lia)).
    specialize (E2 (init_pst ts) (NE_init ts)).
    destruct (p_block_loc classify fuel (init_pst ts)) as [[b0 st1]|k|] eqn:Eb; try discriminate.
    specialize (I2 b0 st1 eq_refl). destruct I2 as (HI1 & _ & _ & _ & _ & HW).
    specialize (E2 b0 st1 eq_refl). cbn beta in E2.
    cbv zeta in H. destruct (Nat.leb 31 _); [discriminate|]. injection H as <- _ Hpe.
    assert (Hp1 : perrs st1 = []) by (apply (mono_expect_r st1 TkEOF st1 (mono_refl st1)); exact Hpe).
    specialize (E2 Hp1).
    destruct (state_toks key ts Hord st1 HI1) as (h & Hh & Eh & Hn).
    destruct (now st1) as [n|] eqn:En.
    - right. destruct Hn as (Hn & Enl & _). exists n. split; [exact Hn|]. split.
      + unfold now_kind, now_tok in E2. rewrite En in E2. exact E2.
      + unfold kb in HW. rewrite Enl in HW. exact HW.
    - left. apply (block_loc_at_eof classify fuel (init_pst ts) b0 st1); [|exact Eb].
      destruct HI1 as [(dl & Hts & Hne & _ & Hl2)|(e & _ & _ & Hne & _)]; [|congruence].
      rewrite En in Hl2. inversion Hl2 as [E1 E2' E3|t0 E1 E2' E3|l p t0 E1 E2' E3].
      destruct dl; [|discriminate]. cbn [app] in Hts.
      apply perrs_expect_nil in Hpe. rewrite now_kind_next in Hpe.
      unfold la, ahead_tok in *. cbn [init_pst rest]. rewrite Hts. exact Hpe.
  Qed.
End Clean.
Print Assumptions parse_tokens_locs_within_clean.
