(* C13 - the lookup of GetLineComment on the comment map = "trailing comment, else the block ending on the line above" *)
From Coq Require Import List NArith ZArith Bool Lia ZifyN ZifyNat ZifyBool.
From LH Require Import Base.Bytes Base.Res Model.Lexer Model.Comments Spec.CommentSpec Proofs.CommentsGap.
Import ListNotations.
Local Open Scope N_scope.

Definition has_key (L : Z) (e : Z * cinfo) : bool := (fst e =? L)%Z.

Lemma cm_find_notin : forall L es acc, existsb (has_key L) es = false -> cm_find L es acc = acc.
Proof.
  induction es as [|[k ci] es IH]; intros acc H; [reflexivity|].
  cbn [existsb] in H. apply orb_false_iff in H. destruct H as [Hk Ht]. unfold has_key in Hk. cbn [fst] in Hk.
  cbn [cm_find]. rewrite Hk. apply IH. exact Ht.
Qed.

Lemma existsb_key_ext : forall L k es, (k =? L)%Z = true ->
  existsb (fun x : Z * cinfo => (fst x =? k)%Z) es = existsb (has_key L) es.
Proof.
  intros L k es H. apply Z.eqb_eq in H. subst k. reflexivity.
Qed.

(* with pairwise distinct keys the "last write wins" read is a plain search *)
Lemma cm_find_find : forall L es, keys_nodup es = true ->
  cm_find L es None = option_map snd (find (has_key L) es).
Proof.
  induction es as [|[k ci] es IH]; intros H; [reflexivity|].
  cbn [keys_nodup] in H. apply andb_true_iff in H. destruct H as [Hn Hr]. apply negb_true_iff in Hn. cbn [fst] in Hn.
  cbn [cm_find find]. unfold has_key at 1. cbn [fst].
  destruct (k =? L)%Z eqn:E.
  - rewrite cm_find_notin; [reflexivity|]. rewrite <- (existsb_key_ext L k es E). exact Hn.
  - apply IH. exact Hr.
Qed.

Lemma find_refine : forall (q : Z * cinfo -> bool) L es, keys_nodup es = true ->
  find (fun e => q e && (fst e =? L)%Z) es =
  match find (has_key L) es with Some e => if q e then Some e else None | None => None end.
Proof.
  induction es as [|[k ci] es IH]; intros H; [reflexivity|].
  cbn [keys_nodup] in H. apply andb_true_iff in H. destruct H as [Hn Hr]. apply negb_true_iff in Hn. cbn [fst] in Hn.
  cbn [find]. unfold has_key at 1. cbn [fst].
  destruct (k =? L)%Z eqn:E.
  - rewrite andb_true_r. destruct (q (k, ci)) eqn:Eq; [reflexivity|].
    clear IH Hr. induction es as [|[k2 c2] es IH2]; [reflexivity|].
    cbn [existsb] in Hn. apply orb_false_iff in Hn. destruct Hn as [H1 H2]. cbn [fst] in H1.
    cbn [find fst]. apply Z.eqb_eq in E. subst L. rewrite H1. rewrite andb_false_r. apply IH2. exact H2.
  - rewrite andb_false_r. apply IH. exact Hr.
Qed.

Lemma find_pos : forall L es, keys_pos es = true -> (L <= 0)%Z -> find (has_key L) es = None.
Proof.
  induction es as [|[k ci] es IH]; intros H HL; [reflexivity|].
  cbn [keys_pos forallb] in H. apply andb_true_iff in H. destruct H as [Hk Hr]. cbn [fst] in Hk.
  cbn [find]. unfold has_key at 1. cbn [fst].
  destruct (k =? L)%Z eqn:E; [lia|]. apply IH; assumption.
Qed.

Lemma cm_lookup_find : forall es L, keys_pos es = true -> keys_nodup es = true ->
  cm_lookup es L = option_map snd (find (has_key L) es).
Proof.
  intros es L Hp Hn. unfold cm_lookup. destruct (L <=? 0)%Z eqn:E.
  - rewrite find_pos; [reflexivity|exact Hp|lia].
  - apply cm_find_find. exact Hn.
Qed.

(* the join of getSpecialLineComment (after the fix) = strings.Join(lines, "\n") *)
Lemma fold_join : forall ls acc,
  fold_left join_step ls acc = acc ++ flat_map (fun l => 10 :: cl_str l) ls.
Proof.
  induction ls as [|l ls IH]; intros acc; [cbn [fold_left flat_map]; rewrite app_nil_r; reflexivity|].
  cbn [fold_left flat_map]. unfold join_step at 2. rewrite IH. rewrite <- app_assoc. reflexivity.
Qed.

Lemma join_nl_texts_cons : forall a ls, join_nl_texts (a :: ls) = a ++ flat_map (fun t => 10 :: t) ls.
Proof.
  intros a ls. revert a. induction ls as [|b ls IH]; intros a; [cbn [join_nl_texts flat_map]; rewrite app_nil_r; reflexivity|].
  change (join_nl_texts (a :: b :: ls)) with (a ++ 10 :: join_nl_texts (b :: ls)). rewrite IH. reflexivity.
Qed.

Lemma flat_map_map : forall (A B C : Type) (f : A -> B) (g : B -> list C) l, flat_map g (map f l) = flat_map (fun x => g (f x)) l.
Proof. intros A B C f g l. induction l as [|x l IH]; [reflexivity|]. cbn [map flat_map]. rewrite IH. reflexivity. Qed.

Lemma join_lines_eq : forall e, join_lines (ci_lines (snd e)) = entry_text e.
Proof.
  intros [k ci]. unfold entry_text. cbn [snd]. unfold join_lines.
  destruct (ci_lines ci) as [|c ls]; [reflexivity|].
  cbn [map]. rewrite join_nl_texts_cons, flat_map_map. apply fold_join.
Qed.

Lemma existsb_false_in : forall (A : Type) (f : A -> bool) l x, existsb f l = false -> In x l -> f x = false.
Proof.
  intros A f l x H Hin. destruct (f x) eqn:E; [|reflexivity].
  assert (existsb f l = true) by (apply existsb_exists; exists x; split; assumption). congruence.
Qed.

Lemma find_ext : forall (A : Type) (f g : A -> bool) l, (forall x, f x = g x) -> find f l = find g l.
Proof. intros A f g l H. induction l as [|x l IH]; [reflexivity|]. cbn [find]. rewrite H, IH. reflexivity. Qed.

Theorem attach_lookup : forall es, attach_guard es = true ->
  forall L, get_line_comment es L = spec_attach es L.
Proof.
  intros es G L. unfold attach_guard in G. apply andb_true_iff in G. destruct G as [Hpos Hnd].
  assert (Hspecial : forall K hd, special_line_comment es K hd =
            match find (fun e => Bool.eqb (ci_head (snd e)) hd && (fst e =? K)%Z) es with
            | Some e => entry_text e | None => [] end).
  { intros K hd. unfold special_line_comment. rewrite cm_lookup_find by assumption.
    rewrite (find_refine (fun e => Bool.eqb (ci_head (snd e)) hd) K es Hnd).
    destruct (find (has_key K) es) as [e|] eqn:E; [|reflexivity]. cbn [option_map].
    destruct (Bool.eqb (ci_head (snd e)) hd); [|reflexivity].
    apply join_lines_eq. }
  unfold get_line_comment, spec_attach. rewrite !Hspecial.
  assert (E1 : find (fun e => Bool.eqb (ci_head (snd e)) false && (fst e =? L)%Z) es = find (is_trailing_for L) es).
  { apply find_ext. intros e. unfold is_trailing_for. destruct (ci_head (snd e)); reflexivity. }
  assert (E2 : find (fun e => Bool.eqb (ci_head (snd e)) true && (fst e =? L - 1)%Z) es = find (is_block_ending (L - 1)) es).
  { apply find_ext. intros e. unfold is_block_ending. destruct (ci_head (snd e)); reflexivity. }
  rewrite E1, E2.
  destruct (find (is_trailing_for L) es) as [e|]; cbn [option_map]; [|reflexivity].
  destruct (entry_text e); reflexivity.
Qed.

(* ---- the lexer records, in front of each token, the entries of the gap before it *)
Lemma next_token_comments : forall (gbk_runes : list N -> Z) p2 p1 s g tail,
  chunk s = render_gap g ++ tail -> gap_ok g tail = true ->
  ((match p1 with Some t => tline t | None => 0 end) <= line s)%Z ->
  lcomments (fst (next_token gbk_runes p2 p1 s))
  = spec_entries (match p1 with Some t => tline t | None => 0%Z end) (line s) (pos s - lsp s)%Z g.
Proof.
  intros gbk_runes p2 p1 s g tail Hc Hok Hp.
  destruct (Proofs.CommentsGap.skip_ws_gap p2 p1 s g tail Hc Hok Hp) as [s' [H _]].
  unfold next_token. unfold Proofs.CommentsGap.pline in H. rewrite H.
  destruct (scan_token gbk_runes s') as [[t s2] es2]. reflexivity.
Qed.

(* ---- files: the documentation comment of line L *)
Section File.
  Variable gbk_runes : list N -> Z.
  Variable classify : list N -> Model.Ast.numcls.
  Theorem doc_comment_attach : forall bs es, comment_writes gbk_runes classify bs = Ok (Some es) ->
    attach_guard es = true -> forall L, doc_comment gbk_runes classify bs L = Ok (Some (spec_attach es L)).
  Proof.
    intros bs es H G L. unfold doc_comment. rewrite H. rewrite (attach_lookup es G L). reflexivity.
  Qed.
End File.
