(* Position resolver = Lua's binder, part 5b: list facts about `local ns = es` (which entry belongs to which
   initialiser) used by the main induction. *)
From Coq Require Import List NArith ZArith Bool Lia.
From LH Require Import Base.Bytes Model.Lexer Model.Ast Model.Scope Model.Globals Model.Resolve Spec.LuaScope
  Proofs.PositionBindBase Proofs.PositionBindFacts.
Import ListNotations.
Local Open Scope Z_scope.

Lemma local_vars_shape il : forall es nls lc,
  map (fun v => (v_name v, v_loc v)) (local_vars es nls lc il) = nls.
Proof.
  induction es as [|e r IH]; intros nls lc; cbn [local_vars].
  - rewrite map_map. cbn [v_name v_loc]. induction nls as [|[a b] t IHt]; [reflexivity|]. cbn [map fst snd]. rewrite IHt. reflexivity.
  - destruct nls as [|[nm l] nls']; [reflexivity|]. cbn [map v_name v_loc]. rewrite IH. reflexivity.
Qed.

Lemma local_vars_ref_at il : forall es nls lc i e v,
  nth_error es i = Some e -> nth_error (local_vars es nls lc il) i = Some v -> v_ref v = ref_of_exp e.
Proof.
  induction es as [|e0 r IH]; intros nls lc i e v He Hv; [destruct i; discriminate|].
  cbn [local_vars] in Hv. destruct nls as [|[nm l] nls']; [destruct i; discriminate|].
  destruct i as [|i']; cbn [nth_error] in He, Hv.
  - injection He as <-. injection Hv as <-. reflexivity.
  - eapply IH; eauto.
Qed.

Lemma local_vars_refm ms il : forall es nls lc v,
  In v (local_vars es nls lc il) -> refm lc ms -> (forall e, In e es -> incl (m2_exp e) ms) -> refm (v_ref v) ms.
Proof.
  induction es as [|e r IH]; intros nls lc v Hv Hlc He; cbn [local_vars] in Hv.
  - apply in_map_iff in Hv. destruct Hv as (nl & E & _). subst v. exact Hlc.
  - destruct nls as [|[nm l] nls']; [destruct Hv|]. destruct Hv as [Hv|Hv].
    + subst v. cbn [v_ref]. eapply refm_mono; [apply He; left; reflexivity|apply ref_marks].
    + eapply IH; [exact Hv| |intros e' He'; apply He; right; exact He'].
      destruct e; try exact I. eapply refm_mono; [apply He; left; reflexivity|apply ref_marks].
Qed.

Lemma count_pos n ns : forall j b, nth_error ns j = Some b -> beq_bytes b n = true -> (1 <= count_name n ns)%nat.
Proof.
  induction ns as [|x r IH]; intros [|j] b H Hb; cbn in H; try discriminate.
  - injection H as ->. cbn [count_name]. rewrite Hb. lia.
  - cbn [count_name]. pose proof (IH j b H Hb). lia.
Qed.

Lemma count_one_unique n ns : forall i j a b,
  count_name n ns = 1%nat -> nth_error ns i = Some a -> beq_bytes a n = true ->
  nth_error ns j = Some b -> beq_bytes b n = true -> i = j.
Proof.
  induction ns as [|x r IH]; intros i j a b Hc Hi Ha Hj Hb; [destruct i; discriminate|].
  cbn [count_name] in Hc. destruct i as [|i'], j as [|j']; cbn [nth_error] in Hi, Hj.
  - reflexivity.
  - injection Hi as ->. rewrite Ha in Hc. pose proof (count_pos n r j' b Hj Hb). lia.
  - injection Hj as ->. rewrite Hb in Hc. pose proof (count_pos n r i' a Hi Ha). lia.
  - f_equal. destruct (beq_bytes x n).
    + pose proof (count_pos n r i' a Hi Ha). lia.
    + eapply IH; eauto.
Qed.

Lemma nth_error_combine {X Y} (a : list X) (b : list Y) : forall j x y,
  nth_error (combine a b) j = Some (x, y) -> nth_error a j = Some x /\ nth_error b j = Some y.
Proof.
  revert b. induction a as [|a0 a' IH]; intros [|b0 b'] [|j] x y H; cbn in H; try discriminate.
  - injection H as -> ->. split; reflexivity.
  - cbn [nth_error]. apply IH. exact H.
Qed.

(* where the Loc of a name / call / function initialiser sits in its marks *)
Lemma ref_open_close e :
  match ref_of_exp e with
  | RFunc l' | RCall l' => exists mid, m2_exp e = MOpen l' :: mid ++ [MClose l']
  | RName l' => m2_exp e = id_marks l'
  | RNone => True
  end.
Proof.
  destruct e; cbn [ref_of_exp m2_exp]; auto.
  - eexists. rewrite app_assoc. reflexivity.
  - eexists. rewrite app_assoc. reflexivity.
Qed.

(* every variable of the statement carries the statement's InitLoc *)
Lemma local_vars_init il : forall es nls lc v, In v (local_vars es nls lc il) -> v_init v = il.
Proof.
  induction es as [|e r IH]; intros nls lc v Hv; cbn [local_vars] in Hv.
  - apply in_map_iff in Hv. destruct Hv as (nl & <- & _). reflexivity.
  - destruct nls as [|[n nl] nls']; [destruct Hv|]. destruct Hv as [<-|Hv]; [reflexivity|]. eapply IH; eauto.
Qed.

(* no table exemption in the fragment *)
Lemma local_vars_tab il : forall es nls lc v,
  (forall e, In e es -> tab_of_exp e = None) -> In v (local_vars es nls lc il) -> v_tab v = None.
Proof.
  induction es as [|e r IH]; intros nls lc v Ht Hv; cbn [local_vars] in Hv.
  - apply in_map_iff in Hv. destruct Hv as (nl & <- & _). reflexivity.
  - destruct nls as [|[n nl] nls']; [destruct Hv|]. destruct Hv as [<-|Hv].
    + cbn [v_tab]. apply Ht. left. reflexivity.
    + eapply IH; [|exact Hv]. intros e' He'. apply Ht. right. exact He'.
Qed.

(* the entries of `local ns = es` named n, when n is protected at index i *)
Lemma local_entry_of_name il ns ls es i e n v :
  length ns = length ls -> (length es <= length ns)%nat -> nth_error es i = Some e ->
  count_name n ns = 1%nat -> beq_bytes (nth i ns []) n = true ->
  In v (local_vars es (combine ns ls) RNone il) -> beq_bytes (v_name v) n = true ->
  v_ref v = ref_of_exp e /\ In (v_loc v) ls.
Proof.
  intros Hlen Hle He Hc Hi Hv Hn.
  apply In_nth_error in Hv. destruct Hv as (j & Hj).
  assert (Hsh : nth_error (combine ns ls) j = Some (v_name v, v_loc v)).
  { rewrite <- (local_vars_shape il es (combine ns ls) RNone).
    rewrite nth_error_map, Hj. reflexivity. }
  destruct (nth_error_combine ns ls j _ _ Hsh) as [Hnj Hlj].
  assert (Hil : (i < length ns)%nat).
  { assert (i < length es)%nat by (apply nth_error_Some; congruence). lia. }
  assert (Hni : nth_error ns i = Some (nth i ns [])) by (apply nth_error_nth'; exact Hil).
  assert (E : i = j) by (eapply count_one_unique; eauto). subst j.
  split; [eapply local_vars_ref_at; eauto|eapply nth_error_In; eauto].
Qed.

Lemma local_names_in il ns ls es v :
  (length es <= length (combine ns ls))%nat -> In v (local_vars es (combine ns ls) RNone il) -> In (v_name v) ns.
Proof.
  intros Hle Hv. pose proof (local_vars_shape il es (combine ns ls) RNone) as Hs.

  assert (Hin : In (v_name v, v_loc v) (combine ns ls)).
  { rewrite <- Hs. apply (in_map (fun v => (v_name v, v_loc v))). exact Hv. }
  apply in_combine_l in Hin. exact Hin.
Qed.
