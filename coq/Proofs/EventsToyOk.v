(* C08 - the toy analysis of the correspondence check satisfies the assumptions of the guarded theorem. *)
From Coq Require Import List NArith Bool Lia.
From LH Require Import Model.Diag Model.Events Spec.FreshStart Proofs.EventsToy.
Import ListNotations.
Local Open Scope N_scope.

Lemma stmt_eqb_eq a b : stmt_eqb a b = true -> a = b.
Proof.
  destruct a, b; cbn [stmt_eqb]; intros H; try discriminate; try reflexivity; apply N.eqb_eq in H; congruence.
Qed.

Lemma stmts_eqb_eq a : forall b, stmts_eqb a b = true -> a = b.
Proof.
  induction a as [|x a IH]; intros [|y b] H; cbn [stmts_eqb] in H; try discriminate; [reflexivity|].
  apply andb_true_iff in H as [H1 H2]. apply stmt_eqb_eq in H1. apply IH in H2. congruence.
Qed.

Lemma stmt_eqb_refl a : stmt_eqb a a = true.
Proof. destruct a; cbn [stmt_eqb]; try reflexivity; apply N.eqb_refl. Qed.

Lemma stmts_eqb_refl a : stmts_eqb a a = true.
Proof. induction a as [|x a IH]; [reflexivity|]. cbn [stmts_eqb]. rewrite stmt_eqb_refl, IH. reflexivity. Qed.

Lemma toy_ok_of ind : analysis_ok (toyA_of ind).
Proof.
  constructor.
  - exact stmts_eqb_eq.
  - exact stmts_eqb_refl.
  - intros a b Ha Hb. cbn in a, b, Ha, Hb. destruct a; [|discriminate]. destruct b; [reflexivity|discriminate].
  - intros t i Hi. cbn [first toyA_of] in Hi. unfold toy_first in Hi. rewrite !in_app_iff in Hi. destruct Hi as [Hi|[Hi|Hi]].
    + apply in_map_iff in Hi as [e [<- He]]. unfold toy_syn in He. apply in_flat_map in He as [p [_ Hp]].
      destruct (snd p); try (destruct Hp; fail). destruct Hp as [<-|[]]. cbn. discriminate.
    + apply in_flat_map in Hi as [p [_ Hp]]. destruct (snd p); try (destruct Hp; fail). destruct Hp as [<-|[]]. reflexivity.
    + apply in_flat_map in Hi as [p [_ Hp]]. destruct (snd p); try (destruct Hp; fail). destruct Hp as [<-|[]]. cbn. discriminate.
Qed.
Lemma toy_ok : analysis_ok toyA.
Proof. exact (toy_ok_of toy_in_dir). Qed.
Lemma toy_all_ok : analysis_ok toyA_all.
Proof. exact (toy_ok_of toy_all_in). Qed.

(* a guarded toy history meets the property at every file (instance of the guarded theorem) *)
From Coq Require Import Permutation.
From LH Require Import Proofs.EventsInv.
Definition toy_meets (fx : fixes) (dk : amap (list stmt)) (h : list (action toyA)) : Prop :=
  guard toyA fx dk h = true /\
  forall f, Permutation (view (snd (run toyA fx dk h)) f) (demanded toyA fx (fst (run toyA fx dk h)) f).
Lemma toy_meets_of_guard fx dk h : guard toyA fx dk h = true -> toy_meets fx dk h.
Proof. intros H. split; [exact H|]. apply (guarded_view toyA fx toy_ok dk h H). Qed.

(* ---- annotation types (check 18): the project-wide type table after a notification that names deletions only
        (regression on the seeded change C08-5: "HandleFileEventChanges no longer rebuilds createTypeMap at its end") ---- *)
Import ListNotations.
(* a.lua `---@class T1`, b.lua `---@type T1`: the watcher reports the deletion of a.lua (nothing else in the batch) *)
Definition w_ann_dk : amap (list stmt) := [(0, [SK 1]); (1, [ST 1])].
Definition w_ann : list (action toyA) := [AWatched [WD 0]].
Lemma ann_deleted_meets :
  toy_meets deployed w_ann_dk w_ann /\
  view (snd (run toyA deployed w_ann_dk [])) 1 = [] /\
  view (snd (run toyA deployed w_ann_dk w_ann)) 1 = [(18, 0, 11)].
Proof. split; [apply toy_meets_of_guard|]; vm_compute; repeat split; reflexivity. Qed.
(* a second declaration of the class in b.lua: both files carry the duplicate warning until a.lua is deleted *)
Definition w_dup_dk : amap (list stmt) := [(0, [SK 1]); (1, [SK 1; ST 1; ST 2])].
Lemma ann_duplicate_meets :
  toy_meets deployed w_dup_dk w_ann /\
  view (snd (run toyA deployed w_dup_dk [])) 0 = [(18, 0, 21)] /\
  view (snd (run toyA deployed w_dup_dk [])) 1 = [(18, 2, 12); (18, 0, 21)] /\
  view (snd (run toyA deployed w_dup_dk w_ann)) 0 = [] /\
  view (snd (run toyA deployed w_dup_dk w_ann)) 1 = [(18, 2, 12)].
Proof. split; [apply toy_meets_of_guard|]; vm_compute; repeat split; reflexivity. Qed.
(* the declaring document p.lua lies outside the workspace: it takes part exactly while it is open (didClose = deletion) *)
Definition w_ann_out_dk : amap (list stmt) := [(0, [ST 1]); (4, [SK 1])].
Definition w_ann_out : list (action toyA) := [AOpen 4; AClose 4].
Lemma ann_outside_meets :
  toy_meets deployed w_ann_out_dk w_ann_out /\
  view (snd (run toyA deployed w_ann_out_dk [])) 0 = [(18, 0, 11)] /\
  view (snd (run toyA deployed w_ann_out_dk [AOpen 4])) 0 = [] /\
  view (snd (run toyA deployed w_ann_out_dk w_ann_out)) 0 = [(18, 0, 11)].
Proof. split; [apply toy_meets_of_guard|]; vm_compute; repeat split; reflexivity. Qed.

(* ---- DirManager.IsInDir (findings indir_empty_plugin_path / indir_subdir_prefix, repaired) ---- *)
Definition toy_meets_of (ind : file -> bool) (fx : fixes) (dk : amap (list stmt)) (h : list (action (toyA_of ind))) : Prop :=
  guard (toyA_of ind) fx dk h = true /\
  forall f, Permutation (view (snd (run (toyA_of ind) fx dk h)) f)
                        (demanded (toyA_of ind) fx (fst (run (toyA_of ind) fx dk h)) f).
Lemma toy_meets_of_guard_of ind fx dk h : guard (toyA_of ind) fx dk h = true -> toy_meets_of ind fx dk h.
Proof. intros H. split; [exact H|]. apply (guarded_view (toyA_of ind) fx (toy_ok_of ind) dk h H). Qed.

(* a.lua `print(g1)`, p.lua (outside the workspace) `g1 = 1` + a syntax error: the document is opened and closed. Whether or
   not the client sent a PluginPath, IsInDir(p.lua) is false: p.lua leaves the project, its diagnostics are cleared, a.lua
   gets "var not define: g1" back *)
Definition w_indir_dk : amap (list stmt) := [(0, [SU 1]); (4, [SD 1; SS])].
Definition w_indir : list (action toyA) := [AOpen 4; AClose 4].
Lemma indir_single_root_meets :
  toy_meets deployed w_indir_dk w_indir /\
  view (snd (run toyA deployed w_indir_dk [AOpen 4])) 0 = [] /\
  view (snd (run toyA deployed w_indir_dk [AOpen 4])) 4 = [(1, 1, 0)] /\
  view (snd (run toyA deployed w_indir_dk w_indir)) 0 = [(2, 0, 1)] /\
  view (snd (run toyA deployed w_indir_dk w_indir)) 4 = [].
Proof. split; [apply toy_meets_of_guard|]; vm_compute; repeat split; reflexivity. Qed.
(* the same files in a two-folder workspace (p.lua lies in the second folder): IsInDir(p.lua) is true, opening and closing
   the document changes nothing - p.lua stays a project file *)
Definition w_indir_all : list (action toyA_all) := [AOpen 4; AClose 4].
Lemma indir_multi_root_meets :
  toy_meets_of toy_all_in deployed w_indir_dk w_indir_all /\
  view (snd (run toyA_all deployed w_indir_dk [])) 4 = [(1, 1, 0)] /\
  view (snd (run toyA_all deployed w_indir_dk w_indir_all)) 0 = [] /\
  view (snd (run toyA_all deployed w_indir_dk w_indir_all)) 4 = [(1, 1, 0)].
Proof. split; [apply toy_meets_of_guard_of|]; vm_compute; repeat split; reflexivity. Qed.
