(* C08 - the toy analysis of the correspondence check satisfies the assumptions of the guarded theorem. *)
From Coq Require Import List NArith Bool Lia.
From LH Require Import Model.Diag Model.Events Spec.FreshStart Proofs.EventsToy.
Import ListNotations.
Local Open Scope N_scope.

Lemma stmt_eqb_eq a b : stmt_eqb a b = true -> a = b.
Proof.
  destruct a, b; cbn [stmt_eqb]; intros H; try discriminate; try reflexivity; apply N.eqb_eq in H; congruence.
Qed.

Lemma stmts_eqb_eq a : forall b, stmts_eqb a b = true -> a = b.
Proof.
  induction a as [|x a IH]; intros [|y b] H; cbn [stmts_eqb] in H; try discriminate; [reflexivity|].
  apply andb_true_iff in H as [H1 H2]. apply stmt_eqb_eq in H1. apply IH in H2. congruence.
Qed.

Lemma toy_ok : analysis_ok toyA.
Proof.
  constructor.
  - exact stmts_eqb_eq.
  - intros a b Ha Hb. cbn in a, b, Ha, Hb. destruct a; [|discriminate]. destruct b; [reflexivity|discriminate].
  - intros t i Hi. cbn [first toyA] in Hi. unfold toy_first in Hi. rewrite !in_app_iff in Hi. destruct Hi as [Hi|[Hi|Hi]].
    + apply in_map_iff in Hi as [e [<- He]]. unfold toy_syn in He. apply in_flat_map in He as [p [_ Hp]].
      destruct (snd p); try (destruct Hp; fail). destruct Hp as [<-|[]]. cbn. discriminate.
    + apply in_flat_map in Hi as [p [_ Hp]]. destruct (snd p); try (destruct Hp; fail). destruct Hp as [<-|[]]. reflexivity.
    + apply in_flat_map in Hi as [p [_ Hp]]. destruct (snd p); try (destruct Hp; fail). destruct Hp as [<-|[]]. cbn. discriminate.
Qed.

(* a guarded toy history meets the property at every file (instance of the guarded theorem) *)
From Coq Require Import Permutation.
From LH Require Import Proofs.EventsInv.
Definition toy_meets (fx : fixes) (dk : amap (list stmt)) (h : list (action toyA)) : Prop :=
  guard toyA fx dk h = true /\
  forall f, Permutation (view (snd (run toyA fx dk h)) f) (demanded toyA fx (fst (run toyA fx dk h)) f).
Lemma toy_meets_of_guard fx dk h : guard toyA fx dk h = true -> toy_meets fx dk h.
Proof. intros H. split; [exact H|]. apply (guarded_view toyA fx toy_ok dk h H). Qed.
