(* C04, names level: every function of the parser model keeps the stream invariant, only adds errors, and every name it
   records is (while no syntax error has been reported) the text and Loc of an identifier token of the stream.
   One lemma per function, proved by symbolic execution of one unfolding (post / pstep), assembled by induction on the
   fuel in ParserLocMain.v. *)
From Coq Require Import List NArith ZArith Bool Arith Lia.
From LH Require Import Base.Bytes Base.Res Model.Lexer Model.Ast Model.Parser Spec.LspRange.
From LH Require Import Proofs.LexerTotalWf Proofs.ParserTotalBase Proofs.ParserTotalEqs Proofs.ParserLocBase.
Import ListNotations.

(* remove [if]s and matches on variables stuck inside state expressions *)
Ltac unstick :=
  repeat match goal with
         | |- context [if ?b then _ else _] => destruct b eqn:?
         | |- context [match ?v with _ => _ end] => is_var v; destruct v
         end.

Ltac innermost x k := lazymatch x with | match ?y with _ => _ end => innermost y k | _ => k x end.

Section Steps.
  Variable classify : list N -> numcls.
  Variable ts : list ltok.
  Hypothesis Hwf : wfr ts.

  Local Notation Inv := (Inv ts).
  Local Notation GoodAt := (GoodAt ts).
  Local Notation G2 := (G2 ts).
  Local Notation R := (R ts).
  Local Notation R2 := (R2 ts).

  Ltac inv_solve :=
    repeat first [assumption | apply (Inv_expect ts Hwf) | apply (Inv_next ts Hwf) | apply (Inv_err ts)].

  Ltac mono_solve :=
    repeat first
      [ apply mono_refl
      | apply mono_next_r | apply mono_expect_r | apply mono_err_r
      | match goal with H : mono ?x ?v |- mono _ ?v => apply (mono_trans _ x v); [|exact H] end ].

  Ltac good_hyp :=
    match goal with
    | H : Forall (ParserLocBase.GoodAt ts ?s) ?L |- Forall (ParserLocBase.GoodAt ts _) ?L =>
      apply (goods_mono ts s _ _ H); solve [mono_solve]
    | H : ParserLocBase.G2 ts ?s ?ns ?ls |- Forall (ParserLocBase.GoodAt ts _) (combine ?ns ?ls) =>
      apply G2_combine; apply (G2_mono ts s _ _ _ H); solve [mono_solve]
    | H : ParserLocBase.G2 ts ?s ?ns ?ls |- ParserLocBase.G2 ts _ ?ns ?ls =>
      apply (G2_mono ts s _ _ _ H); solve [mono_solve]
    | |- ParserLocBase.GoodAt ts _ (now_str ?X, now_loc ?X) =>
      eapply good_mono; [apply (good_record ts Hwf); solve [inv_solve] | solve [mono_solve]]
    | H : Forall (ParserLocBase.GoodAt ts ?s) _ |- Forall (ParserLocBase.GoodAt ts _) _ =>
      apply (goods_mono ts s _ _ H); solve [mono_solve]
    end.

  Ltac good_norm :=
    rewrite ?nl_exp_table, ?nl_set_block_loc;
    cbn [nl_exp nl_stat nl_block nl_ostat nl_okey nl_pars fst snd tl combine];
    rewrite ?flat_map_app, ?nl_set_block_loc; cbn [flat_map].

  Ltac good_solve :=
    good_norm;
    repeat first [ apply Forall_nil | good_hyp | apply Forall_app; split | apply Forall_cons
                 | apply G2_nil | apply G2_one | apply G2_snoc ].

  Ltac side :=
    lazymatch goal with
    | |- ParserLocBase.Inv _ _ => unstick; solve [inv_solve]
    | |- Forall _ _ => unstick; solve [good_solve]
    | |- ParserLocBase.G2 _ _ _ _ => unstick; solve [good_solve]
    | |- _ => idtac
    end.

  Ltac unpack H :=
    unfold ParserLocBase.R, ParserLocBase.R2 in H;
    repeat match type of H with
           | _ /\ _ => let H1 := fresh "HQ" in destruct H as [H1 H]
           end;
    repeat match goal with
           | H' : Forall _ (_ ++ _) |- _ =>
             let H1 := fresh "HG" in let H2 := fresh "HG" in apply Forall_app in H'; destruct H' as [H1 H2]
           end.

  Ltac useih := match goal with Hi : _ |- _ => eapply Hi end; side.

  Ltac finish :=
    apply post_ret; unfold ParserLocBase.R, ParserLocBase.R2; cbn [fst snd];
    unstick; (split; [solve [inv_solve] | split; [solve [mono_solve] | solve [good_solve]]]).

  Ltac pcall :=
    eapply post_bind; [ useih | let a := fresh "a" in let s := fresh "st" in let HQ := fresh "HQ" in
                                intros a s HQ; unpack HQ ].
  Ltac ptail :=
    eapply post_weaken; [ useih | let a := fresh "a" in let s := fresh "st" in let HQ := fresh "HQ" in
                                  intros a s HQ; unpack HQ;
                                  unfold ParserLocBase.R, ParserLocBase.R2; cbn [fst snd];
                                  (split; [solve [inv_solve] | split; [solve [mono_solve] | solve [good_solve]]]) ].

  Ltac pstep :=
    cbv beta iota zeta;
    lazymatch goal with
    | |- post _ (Ok (_, _)) => finish
    | |- post _ OutOfFuel => apply post_oof
    | |- post _ (match (match ?y with _ => _ end) with _ => _ end) =>
      lazymatch type of y with
      | Res _ => apply post_assoc
      | _ => innermost y ltac:(fun z =>
               lazymatch type of z with
               | Res _ => apply post_assoc
               | _ => destruct z eqn:?; cbn [fst snd] in *
               end)
      end
    | |- post _ (match ?x with _ => _ end) =>
      innermost x ltac:(fun z =>
        lazymatch type of z with
        | Res _ =>
          match z with
          | context [if ?b then _ else _] => destruct b eqn:?
          | context [match ?v with _ => _ end] => is_var v; destruct v
          | _ => pcall
          end
        | _ => destruct z eqn:?; cbn [fst snd] in *;
               try match goal with
                   | Ha : p_local_attr _ = (_, _) |- _ =>
                     apply (local_attr_inv ts Hwf) in Ha; [destruct Ha|solve [inv_solve]]
                   end
        end)
    | |- post _ ?z =>
      match z with
      | context [if ?b then _ else _] => destruct b eqn:?
      | context [match ?v with _ => _ end] => is_var v; destruct v
      | _ => ptail
      end
    end.
  Ltac go := repeat pstep.

  (* ---------------------------------------------------------------- helper loops *)
  Lemma L_namelist_tail : forall n st names locs, Inv st -> G2 st names locs ->
    post (fun a st' => R2 st (fst a) (snd a) st') (p_namelist_tail n st names locs).
  Proof.
    induction n as [|n IH]; intros st names locs HI HG; [apply post_oof|]. cbn [p_namelist_tail]. go.
  Qed.

  Lemma L_local_namelist_tail : forall n st sc names locs attrs, Inv st -> G2 st names locs ->
    post (fun a st' => R2 st (fst (fst a)) (snd (fst a)) st') (p_local_namelist_tail n st sc names locs attrs).
  Proof.
    induction n as [|n IH]; intros st sc names locs attrs HI HG; [apply post_oof|]. cbn [p_local_namelist_tail]. go.
  Qed.

  Lemma L_parlist_tail : forall n st names locs, Inv st -> G2 st names locs ->
    post (fun a st' => R2 st (fst (fst a)) (snd (fst a)) st') (p_parlist_tail n st names locs).
  Proof.
    induction n as [|n IH]; intros st names locs HI HG; [apply post_oof|]. cbn [p_parlist_tail]. go.
  Qed.

  Lemma L_parlist n st : Inv st ->
    post (fun a st' => R2 st (fst (fst a)) (snd (fst a)) st') (p_parlist n st).
  Proof. intros HI. pose proof L_parlist_tail as J. unfold p_parlist. go. Qed.

  Lemma L_funcname_dots : forall n st b f e c fn, Inv st -> Forall (GoodAt st) (nl_exp e) ->
    post (fun a st' => R st (nl_exp (fst (fst a))) st') (p_funcname_dots n st b f e c fn).
  Proof.
    induction n as [|n IH]; intros st b f e c fn HI HG; [apply post_oof|]. cbn [p_funcname_dots]. go.
  Qed.

  Lemma L_funcname n st : Inv st ->
    post (fun a st' => R st (nl_exp (fst (fst (fst a)))) st') (p_funcname n st).
  Proof. intros HI. pose proof L_funcname_dots as J. unfold p_funcname. go. Qed.

  (* ---------------------------------------------------------------- the 20 mutually recursive functions *)
  Definition PL (n : nat) : Prop :=
    (forall st, Inv st -> post (fun b st' => R st (nl_block b) st') (p_block classify n st)) /\
    (forall st, Inv st -> post (fun b st' => R st (nl_block b) st') (p_block_loc classify n st)) /\
    (forall st, Inv st -> post (fun b st' => R st (nl_block b) st') (p_block_loc_excl classify n st)) /\
    (forall st acc, Inv st -> Forall (GoodAt st) (flat_map nl_stat acc) ->
       post (fun ss st' => R st (flat_map nl_stat ss) st') (p_stats classify n st acc)) /\
    (forall st, Inv st -> post (fun os st' => R st (nl_ostat os) st') (p_stat classify n st)) /\
    (forall st, Inv st -> post (fun os st' => R st (nl_ostat os) st') (p_assign_or_call classify n st)) /\
    (forall st es bs, Inv st -> Forall (GoodAt st) (flat_map nl_exp es) -> Forall (GoodAt st) (flat_map nl_block bs) ->
       post (fun a st' => R st (flat_map nl_exp (fst a) ++ flat_map nl_block (snd a)) st')
            (p_if_tail classify n st es bs)) /\
    (forall st vars nv, Inv st -> Forall (GoodAt st) (flat_map nl_exp vars) ->
       post (fun a st' => R st (flat_map nl_exp (fst a)) st') (p_varlist_tail classify n st vars nv)) /\
    (forall st, Inv st -> post (fun es st' => R st (flat_map nl_exp es) st') (p_explist classify n st)) /\
    (forall st acc, Inv st -> Forall (GoodAt st) (flat_map nl_exp acc) ->
       post (fun es st' => R st (flat_map nl_exp es) st') (p_explist_tail classify n st acc)) /\
    (forall lim st, Inv st -> post (fun e st' => R st (nl_exp e) st') (p_subexp classify n lim st)) /\
    (forall lim bbl e st, Inv st -> Forall (GoodAt st) (nl_exp e) ->
       post (fun e' st' => R st (nl_exp e') st') (p_binop_loop classify n lim bbl e st)) /\
    (forall st, Inv st -> post (fun e st' => R st (nl_exp e) st') (p_exp0 classify n st)) /\
    (forall st, Inv st -> post (fun e st' => R st (nl_exp e) st') (p_prefixexp classify n st)) /\
    (forall e bl st, Inv st -> Forall (GoodAt st) (nl_exp e) ->
       post (fun e' st' => R st (nl_exp e') st') (p_finish_prefix classify n e bl st)) /\
    (forall st, Inv st -> post (fun es st' => R st (flat_map nl_exp es) st') (p_args classify n st)) /\
    (forall st, Inv st -> post (fun e st' => R st (nl_exp e) st') (p_table classify n st)) /\
    (forall st ks vs, Inv st -> Forall (GoodAt st) (flat_map nl_okey ks) -> Forall (GoodAt st) (flat_map nl_exp vs) ->
       post (fun a st' => R st (flat_map nl_okey (fst a) ++ flat_map nl_exp (snd a)) st')
            (p_fieldlist_tail classify n st ks vs)) /\
    (forall st, Inv st ->
       post (fun a st' => R st (nl_okey (fst a) ++ nl_exp (snd a)) st') (p_field classify n st)) /\
    (forall bl st, Inv st ->
       post (fun e st' => fcolon e = false /\ R st (nl_exp e) st') (p_funcdef classify n bl st)).

  Ltac ihs IH :=
    destruct IH as (I1 & I2 & I3 & I4 & I5 & I6 & I7 & I8 & I9 & I10 & I11 & I12 & I13 & I14 & I15 & I16 & I17
                    & I18 & I19 & I20);
    pose proof L_namelist_tail as J1; pose proof L_local_namelist_tail as J2; pose proof L_parlist as J3;
    pose proof L_funcname as J4.

  Lemma S_block n : PL n -> forall st, Inv st -> post (fun b st' => R st (nl_block b) st') (p_block classify (S n) st).
  Proof. intros IH st HI. ihs IH. rewrite p_block_S. go. Qed.
  Lemma S_block_loc n : PL n ->
    forall st, Inv st -> post (fun b st' => R st (nl_block b) st') (p_block_loc classify (S n) st).
  Proof. intros IH st HI. ihs IH. rewrite p_block_loc_S. go. Qed.

  Lemma S_block_loc_excl n : PL n ->
    forall st, Inv st -> post (fun b st' => R st (nl_block b) st') (p_block_loc_excl classify (S n) st).
  Proof. intros IH st HI. ihs IH. rewrite p_block_loc_excl_S. go. Qed.

  Lemma S_stats n : PL n ->
    forall st acc, Inv st -> Forall (GoodAt st) (flat_map nl_stat acc) ->
      post (fun ss st' => R st (flat_map nl_stat ss) st') (p_stats classify (S n) st acc).
  Proof. intros IH st acc HI HG. ihs IH. rewrite p_stats_S. go. Qed.

  Lemma S_if_tail n : PL n ->
    forall st es bs, Inv st -> Forall (GoodAt st) (flat_map nl_exp es) -> Forall (GoodAt st) (flat_map nl_block bs) ->
      post (fun a st' => R st (flat_map nl_exp (fst a) ++ flat_map nl_block (snd a)) st')
           (p_if_tail classify (S n) st es bs).
  Proof. intros IH st es bs HI HG1 HG2. ihs IH. rewrite p_if_tail_S. go. Qed.

  Lemma S_varlist_tail n : PL n ->
    forall st vars nv, Inv st -> Forall (GoodAt st) (flat_map nl_exp vars) ->
      post (fun a st' => R st (flat_map nl_exp (fst a)) st') (p_varlist_tail classify (S n) st vars nv).
  Proof. intros IH st vars nv HI HG. ihs IH. rewrite p_varlist_tail_S. go. Qed.

  Lemma S_explist n : PL n ->
    forall st, Inv st -> post (fun es st' => R st (flat_map nl_exp es) st') (p_explist classify (S n) st).
  Proof. intros IH st HI. ihs IH. rewrite p_explist_S. go. Qed.

  Lemma S_explist_tail n : PL n ->
    forall st acc, Inv st -> Forall (GoodAt st) (flat_map nl_exp acc) ->
      post (fun es st' => R st (flat_map nl_exp es) st') (p_explist_tail classify (S n) st acc).
  Proof. intros IH st acc HI HG. ihs IH. rewrite p_explist_tail_S. go. Qed.

  Lemma S_subexp n : PL n ->
    forall lim st, Inv st -> post (fun e st' => R st (nl_exp e) st') (p_subexp classify (S n) lim st).
  Proof. intros IH lim st HI. ihs IH. rewrite p_subexp_S. go. Qed.

  Lemma S_binop_loop n : PL n ->
    forall lim bbl e st, Inv st -> Forall (GoodAt st) (nl_exp e) ->
      post (fun e' st' => R st (nl_exp e') st') (p_binop_loop classify (S n) lim bbl e st).
  Proof. intros IH lim bbl e st HI HG. ihs IH. rewrite p_binop_loop_S. go. Qed.
  Lemma S_exp0 n : PL n ->
    forall st, Inv st -> post (fun e st' => R st (nl_exp e) st') (p_exp0 classify (S n) st).
  Proof. intros IH st HI. ihs IH. rewrite p_exp0_S. go. Qed.

  Lemma S_prefixexp n : PL n ->
    forall st, Inv st -> post (fun e st' => R st (nl_exp e) st') (p_prefixexp classify (S n) st).
  Proof. intros IH st HI. ihs IH. rewrite p_prefixexp_S. go. Qed.

  Lemma S_finish_prefix n : PL n ->
    forall e bl st, Inv st -> Forall (GoodAt st) (nl_exp e) ->
      post (fun e' st' => R st (nl_exp e') st') (p_finish_prefix classify (S n) e bl st).
  Proof. intros IH e bl st HI HG. ihs IH. rewrite p_finish_prefix_S. go. Qed.

  Lemma S_args n : PL n ->
    forall st, Inv st -> post (fun es st' => R st (flat_map nl_exp es) st') (p_args classify (S n) st).
  Proof. intros IH st HI. ihs IH. rewrite p_args_S. go. Qed.

  Lemma S_table n : PL n ->
    forall st, Inv st -> post (fun e st' => R st (nl_exp e) st') (p_table classify (S n) st).
  Proof. intros IH st HI. ihs IH. rewrite p_table_S. go. Qed.

  Lemma S_fieldlist_tail n : PL n ->
    forall st ks vs, Inv st -> Forall (GoodAt st) (flat_map nl_okey ks) -> Forall (GoodAt st) (flat_map nl_exp vs) ->
      post (fun a st' => R st (flat_map nl_okey (fst a) ++ flat_map nl_exp (snd a)) st')
           (p_fieldlist_tail classify (S n) st ks vs).
  Proof. intros IH st ks vs HI HG1 HG2. ihs IH. rewrite p_fieldlist_tail_S. go. Qed.

  Lemma S_field n : PL n ->
    forall st, Inv st ->
      post (fun a st' => R st (nl_okey (fst a) ++ nl_exp (snd a)) st') (p_field classify (S n) st).
  Proof. intros IH st HI. ihs IH. rewrite p_field_S. go. Qed.
  Lemma S_funcdef n : PL n ->
    forall bl st, Inv st ->
      post (fun e st' => fcolon e = false /\ R st (nl_exp e) st') (p_funcdef classify (S n) bl st).
  Proof.
    intros IH bl st HI. ihs IH. rewrite p_funcdef_S. repeat (lazymatch goal with |- post _ (Ok _) => fail | _ => pstep end).
    apply post_ret. split; [reflexivity|].
    unfold ParserLocBase.R. split; [solve [inv_solve]|split; [solve [mono_solve]|solve [good_solve]]].
  Qed.

  Lemma S_assign_or_call n : PL n ->
    forall st, Inv st -> post (fun os st' => R st (nl_ostat os) st') (p_assign_or_call classify (S n) st).
  Proof. intros IH st HI. ihs IH. rewrite p_assign_or_call_S. go. Qed.
  Lemma S_stat n : PL n ->
    forall st, Inv st -> post (fun os st' => R st (nl_ostat os) st') (p_stat classify (S n) st).
  Proof. intros IH st HI. ihs IH. rewrite p_stat_S. go.
    (* `function a.b:m() end`: the function value is rebuilt with the synthetic `self` in front *)
    apply post_ret. unfold ParserLocBase.R. split; [solve [inv_solve]|]. split; [solve [mono_solve]|].
    cbn [nl_ostat nl_stat flat_map]. rewrite (nl_method_func _ _ _ _ _ HQ3). solve [good_solve].
  Qed.
End Steps.
