(* C03, token level, soundness: step lemmas for assignment / call statements, if tails and lists. *)
From Coq Require Import List NArith ZArith Bool Lia.
From LH Require Import Base.Bytes Base.Res Model.Lexer Model.Ast Model.Parser Spec.LuaGrammar.
From LH Require Import Proofs.ParserGrammarBase Proofs.ParserGrammarMono Proofs.ParserGrammarFlat
     Proofs.ParserGrammarComplete Proofs.ParserGrammarPost Proofs.ParserGrammarCompleteMain
     Proofs.ParserGrammarSoundBase Proofs.ParserGrammarSoundDefs.
Import ListNotations.
#[local] Opaque expect next err la.

Section Steps.
  Variable classify : list N -> numcls.

  Lemma S_if_tail n : sound_at classify n -> C_if_tail classify (S n).
  Proof.
    intros IH st es bs v st' H O Hec. spread IH. rewrite if_tail_eq in H. dhv H; unstick H; try inv_ok H.
    all: try solve [chain classify n; done].
  Qed.

  Lemma S_explist n : sound_at classify n -> C_explist classify (S n).
  Proof.
    intros IH st v st' H O Hec. spread IH. rewrite explist_eq in H. dhv H; unstick H; try inv_ok H.
    all: try solve [chain classify n; done].
  Qed.
  Lemma S_explist_tail n : sound_at classify n -> C_explist_tail classify (S n).
  Proof.
    intros IH st acc v st' H O Hec. spread IH. rewrite explist_tail_eq in H. dhv H; unstick H; try inv_ok H.
    all: try solve [chain classify n; done].
  Qed.
  Lemma var_like_assignable e : is_var_like e = true -> notbad e -> assignable (kind_of e).
  Proof. destruct e; simpl; intros H B; try discriminate; try contradiction; [left | right]; reflexivity. Qed.
  Ltac assignables :=
    repeat match goal with
           | Hv : is_var_like ?e = true, Hb : notbad ?e |- _ =>
             lazymatch goal with _ : assignable (kind_of e) |- _ => fail | _ => pose proof (var_like_assignable e Hv Hb) end
           end.

  Lemma S_varlist_tail n : sound_at classify n -> C_varlist_tail classify (S n).
  Proof.
    intros IH st vars nv v st' H O Hec Hnv. spread IH. rewrite varlist_tail_eq in H. dhv H; unstick H; try inv_ok H.
    - chain classify n. assignables. done.
    - exfalso. apply (varlist_tail_some _ _ _ _ _ _ _ H); [discriminate | exact Hnv].
    - exfalso. apply (varlist_tail_some _ _ _ _ _ _ _ H); [discriminate | exact Hnv].
    - chain classify n; done.
  Qed.

  Lemma S_assign_or_call n : sound_at classify n -> C_assign_or_call classify (S n).
  Proof.
    intros IH st v st' H O Hec. spread IH. rewrite assign_or_call_eq in H. dhv H; unstick H; try inv_ok H.
    all: try (match goal with Hv : is_var_like _ = _ |- _ => cbn in Hv; discriminate Hv end).
    all: repeat match goal with
                | Hx : context [match ?x with Some _ => _ | None => _ end] |- _ => is_var x; destruct x
                end.
    all: try (match goal with
              | Hv : p_varlist_tail _ _ _ _ (Some _) = Ok (_, _) |- _ =>
                exfalso; apply (varlist_tail_some _ _ _ _ _ _ _ Hv); [discriminate | reflexivity]
              end).
    all: try solve [chain classify n; assignables; done].
    destruct (I14 _ _ _ Heqr O Hec) as (_ & _ & B). destruct B.
  Qed.
End Steps.
