(* Traversal resolver, class B4: once the FIRST look-ups of a name n are position-clean (tr_clean1), ALL its look-ups
   are (tr_clean), provided no occurrence of n carries the tags CB3 / CB4 of the reference binder (classA_ok):
   the second look-up of cgAssignStat differs from the first only when the assignment re-points an EMPTY local to a
   name / call / function expression whose Loc contains the target - and then the reference binder tags the target CB4.
   Simulation argument (the state/environment relation of Proofs/TraverseBindSim.v holds unconditionally). *)
From Coq Require Import List NArith ZArith Bool Lia Permutation.
From LH Require Import Base.Bytes Model.Lexer Model.Ast Model.Scope Spec.LuaScope
  Proofs.TraverseBindDefs Proofs.TraverseBindSim Proofs.TraverseBindLoops Proofs.TraverseBindLocal Proofs.TraverseBind
  Proofs.TraverseBindClean1 Proofs.TraverseBindLaid1Loops.
Import ListNotations.
Local Open Scope Z_scope.

(* ------------------------------------------------------------------ tags only grow *)
Definition LeOcc (s s' : socc) : Prop :=
  s_name s' = s_name s /\ s_bind s' = s_bind s /\ s_role s' = s_role s /\
  forall t, has_tag t s = true -> has_tag t s' = true.
Definition Le (os' os : list socc) : Prop := forall s, In s os' -> exists s', In s' os /\ LeOcc s s'.

Lemma LeOcc_refl s : LeOcc s s.
Proof. repeat split; auto. Qed.
Lemma Le_refl os : Le os os.
Proof. intros s Hs. exists s. split; [exact Hs|apply LeOcc_refl]. Qed.
Lemma Le_trans a b c : Le a b -> Le b c -> Le a c.
Proof.
  intros H1 H2 s Hs. destruct (H1 s Hs) as [s1 [Hs1 [A1 [A2 [A4 A3]]]]]. destruct (H2 s1 Hs1) as [s2 [Hs2 [B1 [B2 [B4 B3]]]]].
  exists s2. split; [exact Hs2|]. repeat split; try congruence. auto.
Qed.
Lemma Le_app_l a b : Le a (a ++ b).
Proof. intros s Hs. exists s. split; [apply in_or_app; left; exact Hs|apply LeOcc_refl]. Qed.
Lemma Le_app_r a b : Le b (a ++ b).
Proof. intros s Hs. exists s. split; [apply in_or_app; right; exact Hs|apply LeOcc_refl]. Qed.
Lemma Le_app_both a a' b b' : Le a a' -> Le b b' -> Le (a ++ b) (a' ++ b').
Proof.
  intros Ha Hb s Hs. apply in_app_or in Hs. destruct Hs as [Hs|Hs].
  - destruct (Ha s Hs) as [s' [H1 H2]]. exists s'. split; [apply in_or_app; left; exact H1|exact H2].
  - destruct (Hb s Hs) as [s' [H1 H2]]. exists s'. split; [apply in_or_app; right; exact H1|exact H2].
Qed.
Lemma Le_cons x a : Le a (x :: a).
Proof. intros s Hs. exists s. split; [right; exact Hs|apply LeOcc_refl]. Qed.
Lemma Le_tag_if c t os : Le os (tag_if c t os).
Proof.
  intros s Hs. exists (if c s then add_tag t s else s). split.
  - unfold tag_if. apply (in_map (fun o => if c o then add_tag t o else o)). exact Hs.
  - destruct (c s); [|apply LeOcc_refl]. repeat split. intros t' Ht. unfold has_tag, add_tag in *. cbn.
    rewrite Ht. apply orb_true_r.
Qed.
Lemma Le_flat_map_in {A} (f : A -> list socc) xs x : In x xs -> Le (f x) (flat_map f xs).
Proof. intros Hx s Hs. exists s. split; [apply in_flat_map; exists x; auto|apply LeOcc_refl]. Qed.
Lemma Le_concat_index_in {A} (f : nat -> A -> list socc) : forall xs k j x,
  nth_error xs j = Some x -> Le (f (k + j)%nat x) (concat (index_map f k xs)).
Proof.
  induction xs as [|y r IH]; intros k j x Hj; [destruct j; discriminate|].
  cbn [index_map concat]. destruct j as [|j].
  - injection Hj as ->. rewrite Nat.add_0_r. apply Le_app_l.
  - eapply Le_trans; [|apply Le_app_r]. replace (k + S j)%nat with (S k + j)%nat by lia. apply IH. exact Hj.
Qed.

Lemma has_tag_add t t' s : has_tag t (add_tag t' s) = ctag_eqb t t' || has_tag t s.
Proof. reflexivity. Qed.

Section B4.
  Variable nm : list N.

  Definition NoB (Exc : excp) (os : list socc) : Prop :=
    forall s, In s os -> s_name s = nm -> is_decl (s_role s) = false ->
      has_tag CB4 s = false /\ has_tag CB3 s = false /\ ~ Exc nm (s_bind s).

  Lemma NoB_Le Exc os' os : Le os' os -> NoB Exc os -> NoB Exc os'.
  Proof.
    intros Hle H s Hs Hn Hd. destruct (Hle s Hs) as [s' [Hs' [A1 [A2 [A4 A3]]]]].
    destruct (H s' Hs' ltac:(congruence) ltac:(congruence)) as [B1 [B2 B3]]. repeat split.
    - destruct (has_tag CB4 s) eqn:E; [rewrite (A3 _ E) in B1; discriminate|reflexivity].
    - destruct (has_tag CB3 s) eqn:E; [rewrite (A3 _ E) in B2; discriminate|reflexivity].
    - rewrite <- A2. exact B3.
  Qed.

  Definition SimCE (c1 c : tC) (spec : env -> list socc) : Prop :=
    forall st ens en Exc, FRS st ens -> ens <> [] -> EQ Exc (concat ens) en -> NoB Exc (spec en) ->
      c1 st = true -> c st = true.
  Definition SimCS (c1 c : tC) (spec : env -> bres) : Prop :=
    forall st seg rest en Exc, FRS st (seg :: rest) -> EQ Exc (concat (seg :: rest)) en -> NoB Exc (snd (spec en)) ->
      c1 st = true -> c st = true.

  Lemma SimCE_ext (c1 c1' c c' : tC) s s' :
    (forall st, c1' st = c1 st) -> (forall st, c' st = c st) -> (forall en, s' en = s en) ->
    SimCE c1 c s -> SimCE c1' c' s'.
  Proof. intros H1 H2 H3 H st ens en Exc Hf Hn He Hb Hc. rewrite H2. rewrite H3 in Hb. rewrite H1 in Hc. eauto. Qed.
  Lemma SimCS_ext (c1 c1' c c' : tC) s s' :
    (forall st, c1' st = c1 st) -> (forall st, c' st = c st) -> (forall en, s' en = s en) ->
    SimCS c1 c s -> SimCS c1' c' s'.
  Proof. intros H1 H2 H3 H st seg rest en Exc Hf He Hb Hc. rewrite H2. rewrite H3 in Hb. rewrite H1 in Hc. eauto. Qed.

  Lemma SimCE_same (c : tC) s : SimCE c c s.
  Proof. intros st ens en Exc _ _ _ _ H. exact H. Qed.
  Lemma SimCS_same (c : tC) s : SimCS c c s.
  Proof. intros st seg rest en Exc _ _ _ H. exact H. Qed.

  Lemma SimCE_le c1 c s s' : (forall en, Le (s' en) (s en)) -> SimCE c1 c s' -> SimCE c1 c s.
  Proof. intros Hle H st ens en Exc Hf Hn He Hb Hc. eapply H; eauto. eapply NoB_Le; eauto. Qed.
  Lemma SimCS_le c1 c (s s' : env -> bres) :
    (forall en, Le (snd (s' en)) (snd (s en))) -> SimCS c1 c s' -> SimCS c1 c s.
  Proof. intros Hle H st seg rest en Exc Hf He Hb Hc. eapply H; eauto. eapply NoB_Le; eauto. Qed.

  (* sequence: f1 is the traversal of the first piece, simulated by Proofs/TraverseBind.v *)
  Lemma SimCE_seq f1 cx s1 c1a ca c1b cb s2 :
    SimE f1 cx s1 -> SimCE c1a ca s1 -> SimCE c1b cb s2 ->
    SimCE (fun st => c1a st && c1b (f1 st)) (fun st => ca st && cb (f1 st)) (fun en => s1 en ++ s2 en).
  Proof.
    intros Hsim Ha Hb st ens en Exc Hf Hn He Hnb Hc. apply andb_true_iff in Hc. destruct Hc as [Hc1 Hc2].
    destruct (Hsim st ens en Exc Hf Hn He) as [news [cs [_ [Hf1 _]]]].
    rewrite (Ha st ens en Exc Hf Hn He (NoB_Le _ _ _ (Le_app_l _ _) Hnb) Hc1).
    rewrite (Hb (f1 st) ens en Exc Hf1 Hn He (NoB_Le _ _ _ (Le_app_r _ _) Hnb) Hc2). reflexivity.
  Qed.

  Lemma SimCE_list {A} (F : A -> tT) (Cx : A -> cfun) (C1 C : A -> tC) (S : A -> env -> list socc) xs :
    Forall (fun x => SimE (F x) (Cx x) (S x)) xs -> Forall (fun x => SimCE (C1 x) (C x) (S x)) xs ->
    SimCE (cl_all (map (fun x => (F x, C1 x)) xs)) (cl_all (map (fun x => (F x, C x)) xs))
          (fun en => flat_map (fun x => S x en) xs).
  Proof.
    intros H1 H2. induction H1 as [|x r Hx Hr IH]; [apply SimCE_same|].
    inversion H2 as [|? ? Hcx Hcr]; subst.
    eapply SimCE_ext; [| | |exact (SimCE_seq _ _ _ _ _ _ _ _ Hx Hcx (IH Hcr))]; intros; reflexivity.
  Qed.

  Lemma SimCS_of_E c1 c s : SimCE c1 c s -> SimCS c1 c (fun en => (en, s en)).
  Proof. intros H st seg rest en Exc Hf He Hb Hc. eapply (H st (seg :: rest)); eauto. discriminate. Qed.

  Lemma SimCE_scope l c1 c (spec : env -> bres) :
    SimCS c1 c spec -> SimCE (fun st => c1 (push l st)) (fun st => c (push l st)) (fun en => snd (spec en)).
  Proof.
    intros H st ens en Exc Hf Hn He Hb Hc. exact (H (push l st) [] ens en Exc (FRS_push l st ens Hf) He Hb Hc).
  Qed.

  Lemma SimCS_seq f1 cx s1 c1a ca c1b cb s2 :
    SimS f1 cx s1 -> SimCS c1a ca s1 -> SimCS c1b cb s2 ->
    SimCS (fun st => c1a st && c1b (f1 st)) (fun st => ca st && cb (f1 st))
          (fun en => (fst (s2 (fst (s1 en))), snd (s1 en) ++ snd (s2 (fst (s1 en))))).
  Proof.
    intros Hsim Ha Hb st seg rest en Exc Hf He Hnb Hc. apply andb_true_iff in Hc. destruct Hc as [Hc1 Hc2].
    destruct (Hsim st seg rest en Exc Hf He) as [news [cs [seg' [_ [Hf1 [He1 _]]]]]]. cbn [snd] in Hnb.
    rewrite (Ha st seg rest en Exc Hf He (NoB_Le _ _ _ (Le_app_l _ _) Hnb) Hc1).
    rewrite (Hb (f1 st) seg' rest _ Exc Hf1 He1 (NoB_Le _ _ _ (Le_app_r _ _) Hnb) Hc2). reflexivity.
  Qed.

  Lemma SimCS_list {A} (F : A -> tT) (Cx : A -> cfun) (C1 C : A -> tC) (S : A -> env -> bres) xs :
    Forall (fun x => SimS (F x) (Cx x) (S x)) xs -> Forall (fun x => SimCS (C1 x) (C x) (S x)) xs ->
    SimCS (cl_all (map (fun x => (F x, C1 x)) xs)) (cl_all (map (fun x => (F x, C x)) xs))
          (fun en => seq_stats (map S xs) en).
  Proof.
    intros H1 H2. induction H1 as [|x r Hx Hr IH]; [apply SimCS_same|].
    inversion H2 as [|? ? Hcx Hcr]; subst.
    eapply SimCS_ext; [| | |exact (SimCS_seq _ _ _ _ _ _ _ _ Hx Hcx (IH Hcr))]; try (intros; reflexivity).
    intros en. cbn [map]. apply seq_stats_cons.
  Qed.

  (* ---- the leaf: an assignment target *)
  Lemma find_VR_some vs en n v :
    Forall2 VR vs en -> find (name_is n) vs = Some v -> exists x, env_find en n = Some x /\ VR v x.
  Proof.
    induction 1 as [|v0 x vs' en' Hvx Hr IH]; intros Hf; [discriminate|].
    cbn [find] in Hf. unfold env_find. cbn [find]. unfold name_is in Hf at 1.
    destruct Hvx as [Hn [Hl He]]. rewrite <- Hn. destruct (beq_bytes (v_name v0) n).
    - injection Hf as <-. exists x. split; [reflexivity|repeat split; auto].
    - apply IH. exact Hf.
  Qed.

  Lemma upd_first_none p f vs : (forall v, In v vs -> p v = false) -> upd_first p f vs = None.
  Proof.
    induction vs as [|v r IH]; intros H; [reflexivity|]. cbn. rewrite (H v (or_introl eq_refl)).
    rewrite IH; [reflexivity|]. intros v' Hv'. apply H. right. exact Hv'.
  Qed.
  Lemma upd_first_none_inv p f vs : upd_first p f vs = None -> forall u, In u vs -> p u = false.
  Proof.
    induction vs as [|w r IH]; intros E u Hu; [destruct Hu|]. cbn in E. destruct (p w) eqn:Ep; [discriminate|].
    destruct (upd_first p f r); [discriminate|]. destruct Hu as [->|Hu]; [exact Ep|apply IH; auto].
  Qed.
  Lemma upd_frames_none p f fs : (forall v, In v (concat (map f_vars fs)) -> p v = false) -> upd_frames p f fs = fs.
  Proof.
    induction fs as [|fr r IH]; intros H; [reflexivity|]. cbn in *.
    rewrite upd_first_none; [|intros v Hv; apply H; apply in_or_app; left; exact Hv].
    rewrite IH; [reflexivity|]. intros v Hv. apply H. apply in_or_app. right. exact Hv.
  Qed.

  (* the variables after updating the first hit *)
  Lemma upd_first_find p f vs vs' :
    upd_first p f vs = Some vs' -> exists pre v post, vs = pre ++ v :: post /\ vs' = pre ++ f v :: post /\
                                                    p v = true /\ forall u, In u pre -> p u = false.
  Proof.
    revert vs'. induction vs as [|v r IH]; intros vs' H; [discriminate|]. cbn in H. destruct (p v) eqn:Ep.
    - injection H as <-. exists [], v, r. repeat split; auto. intros u [].
    - destruct (upd_first p f r) as [r'|] eqn:E; [|discriminate]. injection H as <-.
      destruct (IH r' eq_refl) as [pre [v0 [post [A1 [A2 [A3 A4]]]]]]. exists (v :: pre), v0, post. subst. repeat split; auto.
      intros u [->|Hu]; auto.
  Qed.

  Lemma upd_frames_vars p f fs :
    concat (map f_vars (upd_frames p f fs)) = concat (map f_vars fs) \/
    exists pre v post, concat (map f_vars fs) = pre ++ v :: post /\
                       concat (map f_vars (upd_frames p f fs)) = pre ++ f v :: post /\
                       p v = true /\ forall u, In u pre -> p u = false.
  Proof.
    induction fs as [|fr r IH]; [left; reflexivity|]. cbn [upd_frames map concat].
    destruct (upd_first p f (f_vars fr)) as [vs'|] eqn:E.
    - right. destruct (upd_first_find _ _ _ _ E) as [pre [v [post [A1 [A2 [A3 A4]]]]]].
      exists pre, v, (post ++ concat (map f_vars r)). cbn [map concat f_vars]. rewrite A1, A2, <- !app_assoc. cbn [app].
      repeat split; auto.
    - cbn [map concat]. destruct IH as [IH|[pre [v [post [A1 [A2 [A3 A4]]]]]]].
      + left. rewrite IH. reflexivity.
      + right. exists (f_vars fr ++ pre), v, post. rewrite A1, A2, <- !app_assoc. repeat split; auto.
        intros u Hu. apply in_app_or in Hu. destruct Hu as [Hu|Hu]; [|apply A4; exact Hu].
        exact (upd_first_none_inv p f _ E u Hu).
  Qed.

  Lemma find_app_skip {A} (q : A -> bool) pre x post :
    (forall u, In u pre -> q u = false) -> q x = true -> find q (pre ++ x :: post) = Some x.
  Proof.
    intros Hp Hx. induction pre as [|u r IH]; [cbn; rewrite Hx; reflexivity|].
    cbn. rewrite (Hp u (or_introl eq_refl)). apply IH. intros w Hw. apply Hp. right. exact Hw.
  Qed.

  Lemma icp_same_ref v v' l :
    v_loc v' = v_loc v -> v_ref v' = v_ref v -> v_init v' = v_init v -> v_tab v' = v_tab v ->
    is_correct_position v' l = is_correct_position v l.
  Proof. intros H1 H2 H3 H4. unfold is_correct_position, init_hides. rewrite H1, H2, H3, H4. reflexivity. Qed.

  Lemma no_name_before n l pre v post :
    (forall u, In u pre -> var_hit n l u = false) ->
    match find (name_is n) (pre ++ v :: post) with Some w => is_correct_position w l | None => true end = true ->
    forall u, In u pre -> name_is n u = false.
  Proof.
    induction pre as [|u0 r IH]; intros Hp Hc u Hu; [destruct Hu|]. cbn [app find] in Hc.
    destruct (name_is n u0) eqn:E0.
    - exfalso. pose proof (Hp u0 (or_introl eq_refl)) as Hh. unfold var_hit in Hh. unfold name_is in E0.
      rewrite E0, Hc in Hh. discriminate.
    - destruct Hu as [->|Hu]; [exact E0|]. apply IH; auto. intros w Hw. apply Hp. right. exact Hw.
  Qed.

  Definition B4free (n : list N) (l : loc) (eo : option exp) (en : env) (Exc : excp) : Prop :=
    n = nm ->
    (forall a d e, eo = Some e -> env_find en n = Some (a, d, true) -> ref_of_exp e <> RNone ->
                   loc_contains (exp_loc e) l = false) /\ ~ Exc nm (resolve en n).

  Lemma assign_leaf n l eo st ens en Exc :
    FRS st ens -> EQ Exc (concat ens) en -> B4free n l eo en Exc ->
    cl1_assign_name nm n l eo st = true -> cl_assign_name nm n l eo st = true.
  Proof.
    intros Hf He Hb Hc. unfold cl1_assign_name in Hc. unfold cl_assign_name.
    destruct (beq_bytes n nm) eqn:Enm; [|reflexivity]. cbn [negb orb] in *. rewrite Hc. cbn [andb].
    apply beq_bytes_eq in Enm. destruct (Hb Enm) as [Hb1 Hb2]. clear Hb.
    unfold clean_at in *. unfold vars_of in *. cbn [t_frames].
    destruct (upd_frames_vars (var_hit n l) (repoint n eo) (t_frames st)) as [E|[pre [v [post [A1 [A2 [A3 A4]]]]]]].
    - rewrite E. exact Hc.
    - rewrite A1 in Hc. rewrite A2.
      pose proof (no_name_before n l pre v post A4 Hc) as Hpre.
      unfold var_hit in A3. apply andb_true_iff in A3. destruct A3 as [Hname Hicp].
      assert (Hname' : name_is n (repoint n eo v) = true).
      { unfold name_is, repoint. destruct (v_empty v); [destruct eo|]; exact Hname. }
      rewrite (find_app_skip (name_is n) pre _ post Hpre Hname').
      unfold repoint. destruct (v_empty v) eqn:Eemp; [|exact Hicp].
      destruct eo as [e|]; [|exact Hicp].
      (* the re-pointed variable *)
      assert (Hfind : find (name_is n) (concat (map f_vars (t_frames st))) = Some v).
      { rewrite A1. apply find_app_skip; [exact Hpre|exact Hname]. }
      destruct (find_VR_some _ _ n v (vars_VR st ens Hf) Hfind) as [[[a d] fl] [Hx [_ [Hd Hfl]]]].
      cbn [fst snd] in Hd, Hfl. specialize (Hfl Eemp). subst fl.
      assert (Hen : exists a', env_find en n = Some (a', v_loc v, true)).
      { destruct (He n) as [Heq|Hex]; [|subst n; contradiction].
        unfold efind in Heq. rewrite Hx in Heq. cbn in Heq.
        destruct (env_find en n) as [[[a' d'] f']|]; [|discriminate]. cbn in Heq. injection Heq as -> ->.
        rewrite Hd. eauto. }
      destruct Hen as [a' Hen].
      unfold is_correct_position in *. unfold init_hides in *. cbn [v_loc v_ref v_init v_tab].
      destruct (loc_before (v_loc v) l); [|discriminate]. cbn [negb] in *.
      match goal with |- (if ?ih then false else _) = true => destruct ih; [discriminate|] end.
      destruct (ref_of_exp e) as [|fl'|rl|rl] eqn:Er; [reflexivity| | |].
      + assert (Hlc : loc_contains (exp_loc e) l = false) by (apply (Hb1 a' (v_loc v) e eq_refl Hen); rewrite Er; discriminate).
        destruct e; try discriminate Er. cbn in Er, Hlc. injection Er as <-. rewrite Hlc.
        destruct (loc_contains l0 (v_loc v)); reflexivity.
      + assert (Hlc : loc_contains (exp_loc e) l = false) by (apply (Hb1 a' (v_loc v) e eq_refl Hen); rewrite Er; discriminate).
        destruct e; try discriminate Er. cbn in Er, Hlc. injection Er as <-. rewrite Hlc. reflexivity.
      + assert (Hlc : loc_contains (exp_loc e) l = false) by (apply (Hb1 a' (v_loc v) e eq_refl Hen); rewrite Er; discriminate).
        destruct e; try discriminate Er. cbn in Er, Hlc. injection Er as <-. rewrite Hlc. reflexivity.
  Qed.

  Lemma Le_b4f vars es en i os : Le os (b4f vars es en i os).
  Proof.
    unfold b4f. destruct (nth_error vars i) as [v|]; [|apply Le_refl]. destruct v; try apply Le_refl.
    destruct (nth_error es i) as [e|]; [|apply Le_refl].
    destruct (env_find en n) as [[[a d] f]|]; [|apply Le_refl]. destruct f; [|apply Le_refl].
    destruct (ref_of_exp e); try apply Le_refl; apply Le_tag_if.
  Qed.

  (* what the absence of the CB4 tag on the target says *)
  Lemma b4free_of_NoB vars es en Exc i n l flv slv reg :
    nth_error vars i = Some (EName n l) ->
    NoB Exc (b4f vars es en i [mkS l n (resolve en n) RWrite flv slv reg false [] en]) ->
    B4free n l (nth_error es i) en Exc.
  Proof.
    intros Hv Hnb Hn. split.
    - intros a d e He Hen Hr.
      assert (Hres : resolve en n = BLocal d) by (unfold resolve; rewrite Hen; reflexivity).
      destruct (loc_contains (exp_loc e) l) eqn:Elc; [|reflexivity]. exfalso.
      assert (Htag : In (add_tag CB4 (mkS l n (resolve en n) RWrite flv slv reg false [] en))
                        (b4f vars es en i [mkS l n (resolve en n) RWrite flv slv reg false [] en])).
      { unfold b4f. rewrite Hv, He, Hen.
        assert (Ht : In (add_tag CB4 (mkS l n (resolve en n) RWrite flv slv reg false [] en))
                        (tag_if (fun o => binding_eqb (s_bind o) (BLocal d) && loc_contains (exp_loc e) (s_loc o)) CB4
                                [mkS l n (resolve en n) RWrite flv slv reg false [] en])).
        { cbn [tag_if map s_bind s_loc]. rewrite Hres, binding_eqb_refl, Elc. left. reflexivity. }
        destruct (ref_of_exp e); [contradiction|exact Ht|exact Ht|exact Ht]. }
      destruct (Hnb _ Htag Hn eq_refl) as [H4 _]. cbn in H4. discriminate.
    - destruct (Le_b4f vars es en i [mkS l n (resolve en n) RWrite flv slv reg false [] en] _ (or_introl eq_refl))
        as [s' [Hs' [Hn' [Hb' [Hr' _]]]]]. cbn [s_name s_bind s_role] in Hn', Hb', Hr'.
      destruct (Hnb s' Hs' ltac:(congruence) ltac:(rewrite Hr'; reflexivity)) as [_ [_ H3]]. rewrite Hb' in H3. exact H3.
  Qed.

  Ltac le_app := let s := fresh "s" in let Hs := fresh "Hs" in
    intros s Hs; exists s; split; [|apply LeOcc_refl]; repeat rewrite in_app_iff in *; tauto.

  (* ------------------------------------------------------------------ statements of the induction *)
  Definition CEc (e : exp) : Prop :=
    frag_exp e = true -> tb_shp_exp e = true ->
    forall flv slv reg, SimCE (cl1_exp nm flv e) (cl_exp nm flv e) (fun en => b_exp flv slv reg e en).
  Definition CSc (s : stat) : Prop :=
    frag_stat s = true -> tb_shp_stat s = true ->
    forall flv slv reg, SimCS (cl1_stat nm flv slv s) (cl_stat nm flv slv s) (fun en => b_stat flv slv reg s en).
  Definition CBc (b : block) : Prop :=
    frag_block b = true -> tb_shp_block b = true ->
    forall flv slv reg, SimCS (cl1_block nm flv slv b) (cl_block nm flv slv b) (fun en => b_block flv slv reg b en).

  Lemma sim_exp e flv slv reg : tb_shp_exp e = true -> SimE (tr_exp flv e) (fun n0 => cl_exp n0 flv e) (fun en => b_exp flv slv reg e en).
  Proof. intros H. exact (proj1 sim_all e H flv slv reg). Qed.
  Lemma sim_stat s flv slv reg : tb_shp_stat s = true -> SimS (tr_stat flv slv s) (fun n0 => cl_stat n0 flv slv s) (fun en => b_stat flv slv reg s en).
  Proof. intros H. exact (proj1 (proj2 sim_all) s H flv slv reg). Qed.
  Lemma sim_block b flv slv reg : tb_shp_block b = true -> SimS (tr_block flv slv b) (fun n0 => cl_block n0 flv slv b) (fun en => b_block flv slv reg b en).
  Proof. intros H. exact (proj2 (proj2 sim_all) b H flv slv reg). Qed.

  Lemma exps_simc flv slv reg es :
    Forall CEc es -> forallb frag_exp es = true -> forallb tb_shp_exp es = true ->
    SimCE (cl_all (map (fun e => (tr_exp flv e, cl1_exp nm flv e)) es))
          (cl_all (map (fun e => (tr_exp flv e, cl_exp nm flv e)) es))
          (fun en => flat_map (fun e => b_exp flv slv reg e en) es).
  Proof.
    intros Hall Hf Hs. rewrite forallb_forall in Hf, Hs.
    apply (SimCE_list (fun e => tr_exp flv e) (fun e n0 => cl_exp n0 flv e) (fun e => cl1_exp nm flv e)
                      (fun e => cl_exp nm flv e) (fun e en => b_exp flv slv reg e en)).
    - apply Forall_forall. intros e He. apply sim_exp. apply Hs. exact He.
    - rewrite Forall_forall in *. intros e He. exact (Hall e He (Hf e He) (Hs e He) flv slv reg).
  Qed.

  (* a block in its own scope *)
  Lemma scope_sim l g c spec : SimS g c spec -> SimE (fun st => pop (g (push l st))) (fun n0 st => c n0 (push l st)) (fun en => snd (spec en)).
  Proof. apply SimE_scope. Qed.

  Lemma if_simc flv slv reg : forall es bs,
    length es = length bs -> Forall CEc es -> Forall CBc bs ->
    forallb frag_exp es = true -> forallb tb_shp_exp es = true ->
    forallb frag_block bs = true -> forallb tb_shp_block bs = true ->
    SimCE (cl_if_loop (map (fun e => (tr_exp flv e, cl1_exp nm flv e)) es)
                      (map (fun b => (block_loc b, tr_block flv (slv + 1) b, cl1_block nm flv (slv + 1) b)) bs))
          (cl_if_loop (map (fun e => (tr_exp flv e, cl_exp nm flv e)) es)
                      (map (fun b => (block_loc b, tr_block flv (slv + 1) b, cl_block nm flv (slv + 1) b)) bs))
          (fun en => flat_map (fun e => b_exp flv slv reg e en) es
                     ++ flat_map (fun b => snd (b_block flv (slv + 1) (block_loc b) b en)) bs).
  Proof.
    induction es as [|e es' IH]; intros bs Hlen He Hb Hfe Hse Hfb Hsb.
    - destruct bs; [|discriminate]. apply SimCE_same.
    - destruct bs as [|b bs']; [discriminate|]. injection Hlen as Hlen.
      inversion He as [|? ? He1 He2]; subst. inversion Hb as [|? ? Hb1 Hb2]; subst.
      cbn [forallb] in *.
      apply andb_true_iff in Hfe. destruct Hfe as [Hfe1 Hfe2]. apply andb_true_iff in Hse. destruct Hse as [Hse1 Hse2].
      apply andb_true_iff in Hfb. destruct Hfb as [Hfb1 Hfb2]. apply andb_true_iff in Hsb. destruct Hsb as [Hsb1 Hsb2].
      pose proof (SimCE_scope (block_loc b) _ _ _ (Hb1 Hfb1 Hsb1 flv (slv + 1) (block_loc b))) as P2.
      pose proof (SimCE_seq _ _ _ _ _ _ _ _ (scope_sim (block_loc b) _ _ _ (sim_block b flv (slv + 1) (block_loc b) Hsb1))
                            P2 (IH bs' Hlen He2 Hb2 Hfe2 Hse2 Hfb2 Hsb2)) as P23.
      pose proof (SimCE_seq _ _ _ _ _ _ _ _ (sim_exp e flv slv reg Hse1) (He1 Hfe1 Hse1 flv slv reg) P23) as H.
      eapply SimCE_ext; [intros st|intros st|intros en|eapply SimCE_le; [|exact H]].
      + cbn [map cl_if_loop]. rewrite <- andb_assoc. reflexivity.
      + cbn [map cl_if_loop]. rewrite <- andb_assoc. reflexivity.
      + reflexivity.
      + intros en. cbn [flat_map]. le_app.
  Qed.

  (* ---- assignment *)
  Lemma assign_simc flv slv reg vars es en Exc :
    (forall v, In v vars -> exists n l, v = EName n l) ->
    Forall CEc es -> forallb frag_exp es = true -> forallb tb_shp_exp es = true ->
    (forall e, In e es -> NoB Exc (b_exp flv slv reg e en)) ->
    (forall k n l, nth_error vars k = Some (EName n l) -> B4free n l (nth_error es k) en Exc) ->
    forall vars_r es_r k st ens,
      vars_r = skipn k vars -> es_r = skipn k es ->
      FRS st ens -> ens <> [] -> EQ Exc (concat ens) en ->
      cl1_assign_loop nm flv slv (map (tgt_c1 flv nm) vars_r) (map (fun e => (e, tr_exp flv e, cl1_exp nm flv e)) es_r) st = true ->
      cl_assign_loop nm flv slv (map (tgt_c flv nm) vars_r) (map (fun e => (e, tr_exp flv e, cl_exp nm flv e)) es_r) st = true.
  Proof.
    intros Hv He Hfe Hse Hes Htg. rewrite forallb_forall in Hfe, Hse. rewrite Forall_forall in He.
    induction vars_r as [|v vars_r' IH]; intros es_r k st ens Evr Eer Hf Hn Heq Hc.
    - (* surplus expressions *)
      cbn [map cl1_assign_loop cl_assign_loop] in *. rewrite map_map in *. cbn [fst snd] in *.
      assert (Hsub : forall e, In e es_r -> In e es).
      { intros e Hin. rewrite Eer in Hin. clear - Hin. revert es Hin. induction k; intros es Hin; [exact Hin|].
        destruct es; [destruct Hin|]. right. apply IHk. exact Hin. }
      clear Eer. revert st Hf Hc. induction es_r as [|e r IHr]; intros st Hf Hc; [reflexivity|].
      cbn [map cl_all] in *. apply andb_true_iff in Hc. destruct Hc as [Hc1 Hc2].
      assert (Hin : In e es) by (apply Hsub; left; reflexivity).
      rewrite (He e Hin (Hfe e Hin) (Hse e Hin) flv slv reg st ens en Exc Hf Hn Heq (Hes e Hin) Hc1). cbn [andb].
      destruct (sim_exp e flv slv reg (Hse e Hin) st ens en Exc Hf Hn Heq) as [news [cs [_ [Hf1 _]]]].
      apply IHr; auto. intros e' He'. apply Hsub. right. exact He'.
    - assert (Hk : nth_error vars k = Some v /\ skipn (S k) vars = vars_r')
        by (apply skipn_cons_nth; symmetry; exact Evr).
      destruct Hk as [Hk1 Hk2].
      destruct (Hv v (nth_error_In _ _ Hk1)) as [n [l ->]].
      destruct es_r as [|e es_r'].
      + assert (Hek : nth_error es k = None /\ skipn (S k) es = [])
          by (apply skipn_nil_nth; symmetry; exact Eer).
        destruct Hek as [Hek1 Hek2].
        cbn [map cl1_assign_loop cl_assign_loop tgt_c tgt_c1 ct_clean ct_clean1 ct_run] in *.
        apply andb_true_iff in Hc. destruct Hc as [Hc1 Hc2].
        pose proof (Htg k n l Hk1) as Hb4. rewrite Hek1 in Hb4.
        rewrite (assign_leaf n l None st ens en Exc Hf Heq Hb4 Hc1). cbn [andb].
        destruct (SimE_assign_name flv slv reg n l None st ens en Exc Hf Hn Heq) as [news [cs [_ [Hf1 _]]]].
        apply (IH [] (S k) _ ens); auto.
      + assert (Hek : nth_error es k = Some e /\ skipn (S k) es = es_r')
          by (apply skipn_cons_nth; symmetry; exact Eer).
        destruct Hek as [Hek1 Hek2]. pose proof (nth_error_In _ _ Hek1) as Hin.
        cbn [map cl1_assign_loop cl_assign_loop tgt_c tgt_c1 ct_clean ct_clean1 ct_run] in *.
        apply andb_true_iff in Hc. destruct Hc as [Hc Hc3]. apply andb_true_iff in Hc. destruct Hc as [Hc1 Hc2].
        rewrite (He e Hin (Hfe e Hin) (Hse e Hin) flv slv reg st ens en Exc Hf Hn Heq (Hes e Hin) Hc1). cbn [andb].
        destruct (sim_exp e flv slv reg (Hse e Hin) st ens en Exc Hf Hn Heq) as [news [cs [_ [Hf1 _]]]].
        pose proof (Htg k n l Hk1) as Hb4. rewrite Hek1 in Hb4.
        rewrite (assign_leaf n l (Some e) _ ens en Exc Hf1 Heq Hb4 Hc2). cbn [andb].
        destruct (SimE_assign_name flv slv reg n l (Some e) _ ens en Exc Hf1 Hn Heq) as [news2 [cs2 [_ [Hf2 _]]]].
        apply (IH es_r' (S k) _ ens); auto.
  Qed.

  (* ---- local: all the initialisers are visited in the environment of the statement; they carry no class tag of their own
     (since fixes/C05-own-initialiser.diff) *)
  Lemma Le_local_inits en ns (f : exp -> list socc) : forall es k,
    Le (flat_map f es)
       (concat (index_map (fun i eo => tag_local_init en ns i (fst eo) (snd eo)) k (map (fun e => (e, f e)) es))).
  Proof.
    induction es as [|e r IH]; intros k; [apply Le_refl|].
    cbn [map index_map concat flat_map fst snd]. apply Le_app_both; [|apply IH].
    unfold tag_local_init. apply Le_refl.
  Qed.

  (* ------------------------------------------------------------------ the induction *)
  Ltac bs H := repeat (apply andb_true_iff in H; let H' := fresh H in destruct H as [H H']).

  Theorem b4_all : (forall e, CEc e) /\ (forall s, CSc s) /\ (forall b, CBc b).
  Proof.
    apply tb_ast_ind; unfold CEc, CSc, CBc.
    - intros; apply SimCE_same.
    - intros; apply SimCE_same.
    - intros; apply SimCE_same.
    - intros; apply SimCE_same.
    - intros; apply SimCE_same.
    - intros; apply SimCE_same.
    - intros; apply SimCE_same.
    - intros; apply SimCE_same.
    - intros; apply SimCE_same.
    - (* EUnop *) intros o x l IH Hf Hs flv slv reg.
      eapply SimCE_ext; [| | |exact (IH Hf Hs flv slv reg)]; intros; reflexivity.
    - (* EBinop *) intros o a b l IHa IHb Hf Hs flv slv reg. cbn [frag_exp tb_shp_exp] in *. bs Hf. bs Hs.
      eapply SimCE_ext; [| | |exact (SimCE_seq _ _ _ _ _ _ _ _ (sim_exp a flv slv reg Hs) (IHa Hf Hs flv slv reg) (IHb Hf0 Hs0 flv slv reg))];
        intros; reflexivity.
    - (* EParens *) intros x l IH Hf Hs flv slv reg.
      eapply SimCE_ext; [| | |exact (IH Hf Hs flv slv reg)]; intros; reflexivity.
    - intros p k l _ _ Hf; discriminate.
    - (* ECall *) intros p name args l IHp IHa Hf Hs flv slv reg.
      destruct p; try discriminate Hf. destruct name; try discriminate Hf.
      cbn [frag_exp tb_shp_exp] in *. apply andb_true_iff in Hf. destruct Hf as [_ Hfa].
      apply andb_true_iff in Hs. destruct Hs as [_ Hsa].
      pose proof (SimCE_seq _ _ _ _ _ _ _ _ (sim_exp (EName n l0) flv slv reg eq_refl)
                            (SimCE_same (cl_exp nm flv (EName n l0)) (fun en => b_exp flv slv reg (EName n l0) en))
                            (exps_simc flv slv reg args IHa Hfa Hsa)) as H.
      eapply SimCE_ext; [| | |exact H]; intros; reflexivity.
    - intros ks vs l _ _ Hf; discriminate.
    - (* EFunc *) intros c f ps pl b l va co IHb Hf Hs flv slv reg. cbn [frag_exp tb_shp_exp] in *. bs Hf.
      pose proof (SimCS_seq _ _ _ _ _ _ _ _
                    (SimS_add_params (combine ps pl) (fun en => map (decl_occ en (flv + 1) 0 l false) (combine ps pl))
                                     (fun en => ccore_decls en (flv + 1) 0 l false (combine ps pl)))
                    (SimCS_same (fun _ => true) _) (IHb ltac:(assumption) Hs (flv + 1) 0 l)) as H.
      eapply SimCE_ext; [| | |exact (SimCE_scope l _ _ _ H)]; intros; reflexivity.
    - intros; apply SimCS_same.
    - intros n l Hf; discriminate.
    - intros n l Hf; discriminate.
    - (* SDo *) intros b l IHb Hf Hs flv slv reg. cbn [frag_stat tb_shp_stat] in *.
      eapply SimCS_ext; [| | |exact (SimCS_of_E _ _ _ (SimCE_scope l _ _ _ (IHb Hf Hs flv (slv + 1) l)))]; intros; reflexivity.
    - (* SCall *) intros e IHe Hf Hs flv slv reg. cbn [tb_shp_stat] in *.
      assert (Hfe : frag_exp e = true) by (destruct e; try discriminate Hf; exact Hf).
      eapply SimCS_ext; [| | |exact (SimCS_of_E _ _ _ (IHe Hfe Hs flv slv reg))]; intros; reflexivity.
    - (* SIf *) intros es bs l IHe IHb Hf Hs flv slv reg. cbn [frag_stat tb_shp_stat] in *. bs Hf. bs Hs.
      apply Nat.eqb_eq in Hs.
      eapply SimCS_ext; [| | |exact (SimCS_of_E _ _ _ (if_simc flv slv reg es bs Hs IHe IHb Hf Hs1 Hf0 Hs0))];
        intros; reflexivity.
    - (* SWhile *) intros e b l IHe IHb Hf Hs flv slv reg. cbn [frag_stat tb_shp_stat] in *. bs Hf. bs Hs.
      pose proof (SimCE_seq _ _ _ _ _ _ _ _ (sim_exp e flv slv reg Hs) (IHe Hf Hs flv slv reg)
                            (SimCE_scope l _ _ _ (IHb Hf0 Hs0 flv (slv + 1) l))) as H.
      eapply SimCS_ext; [| | |exact (SimCS_of_E _ _ _ H)]; intros; reflexivity.
    - (* SRepeat *) intros b e l IHb IHe Hf Hs flv slv reg. cbn [frag_stat tb_shp_stat] in *. bs Hf. bs Hs.
      pose proof (SimCS_seq _ _ _ _ _ _ _ _ (sim_block b flv (slv + 1) l Hs) (IHb Hf Hs flv (slv + 1) l)
                            (SimCS_of_E _ _ _ (IHe Hf0 Hs0 flv (slv + 1) l))) as H.
      eapply SimCS_ext; [intros st|intros st|intros en|exact (SimCS_of_E _ _ _ (SimCE_scope l _ _ _ H))].
      + reflexivity.
      + reflexivity.
      + cbn [b_stat fst snd]. destruct (b_block flv (slv + 1) l b en) as [en1 os]. reflexivity.
    - (* SForNum *) intros n vl e1 e2 e3 b l IH1 IH2 IH3 IHb Hf Hs flv slv reg. cbn [frag_stat tb_shp_stat] in *.
      bs Hf. bs Hs.
      assert (Hv : VR (mkV n vl RNone false) ((n, vl), false)) by (repeat split; cbn; auto; discriminate).
      pose proof (SimE_seq _ _ _ _ _ _ (sim_exp e1 flv slv reg ltac:(assumption)) (sim_exp e2 flv slv reg ltac:(assumption))) as S13.
      pose proof (SimE_seq _ _ _ _ _ _ S13 (sim_exp e3 flv slv reg ltac:(assumption))) as S132.
      pose proof (SimCE_seq _ _ _ _ _ _ _ _ (sim_exp e1 flv slv reg ltac:(assumption))
                            (IH1 ltac:(assumption) ltac:(assumption) flv slv reg)
                            (IH2 ltac:(assumption) ltac:(assumption) flv slv reg)) as C13.
      pose proof (SimCE_seq _ _ _ _ _ _ _ _ S13 C13 (IH3 ltac:(assumption) ltac:(assumption) flv slv reg)) as C132.
      pose proof (SimCS_seq _ _ _ _ _ _ _ _ (SimS_of_E _ _ _ S132) (SimCS_of_E _ _ _ C132)
                    (SimCS_seq _ _ _ _ _ _ _ _
                       (SimS_add _ _ (fun en => [decl_occ en flv (slv + 1) l false (n, vl)]) Hv (fun _ => eq_refl))
                       (SimCS_same (fun _ => true) _)
                       (IHb ltac:(assumption) ltac:(assumption) flv (slv + 1) l))) as H.
      eapply SimCS_ext; [intros st|intros st|intros en|
                         eapply SimCS_le; [intros en|exact (SimCS_of_E _ _ _ (SimCE_scope l _ _ _ H))]].
      + cbn [cl1_stat]. cbv zeta beta. rewrite <- !andb_assoc. cbn [andb]. reflexivity.
      + cbn [cl_stat]. cbv zeta beta. rewrite <- !andb_assoc. cbn [andb]. reflexivity.
      + reflexivity.
      + cbv beta. cbn [b_stat fst snd app].
        apply Le_app_both; [|apply Le_refl].
        rewrite <- app_assoc. apply Le_tag_if.
    - (* SForIn *) intros ns ls es b l IHe IHb Hf Hs flv slv reg. cbn [frag_stat tb_shp_stat] in *. bs Hf. bs Hs.
      pose proof (SimE_list (fun a => tr_exp flv a) (fun a n0 => cl_exp n0 flv a) (fun a en => b_exp flv slv reg a en) es) as Sl.
      assert (Hsl : Forall (fun x => SimE (tr_exp flv x) (fun n0 => cl_exp n0 flv x) (fun en => b_exp flv slv reg x en)) es).
      { apply Forall_forall. intros e He. apply sim_exp. rewrite forallb_forall in Hs. apply Hs. exact He. }
      specialize (Sl Hsl).
      pose proof (SimCS_seq _ _ _ _ _ _ _ _ (SimS_of_E _ _ _ Sl) (SimCS_of_E _ _ _ (exps_simc flv slv reg es IHe ltac:(assumption) Hs))
                    (SimCS_seq _ _ _ _ _ _ _ _
                       (SimS_add_params (combine ns ls) (fun en => map (decl_occ en flv (slv + 1) l false) (combine ns ls))
                                        (fun en => ccore_decls en flv (slv + 1) l false (combine ns ls)))
                       (SimCS_same (fun _ => true) _)
                       (IHb ltac:(assumption) ltac:(assumption) flv (slv + 1) l))) as H.
      eapply SimCS_ext; [intros st|intros st|intros en|
                         eapply SimCS_le; [intros en|exact (SimCS_of_E _ _ _ (SimCE_scope l _ _ _ H))]].
      + reflexivity.
      + reflexivity.
      + reflexivity.
      + cbv beta. cbn [b_stat fst snd]. apply Le_app_both; [apply Le_tag_if|apply Le_refl].
    - (* SAssign *) intros vars es l IHv IHe Hf Hs flv slv reg. cbn [frag_stat tb_shp_stat] in *. bs Hf. bs Hs.
      assert (Hvars : forall v, In v vars -> exists n l0, v = EName n l0).
      { rewrite forallb_forall in Hf. intros v Hv. specialize (Hf v Hv). destruct v; try discriminate Hf. eauto. }
      intros st seg rest en Exc Hfr Heq Hnb Hc. rewrite b_stat_assign_eq in Hnb. cbn [snd] in Hnb.
      cbn [cl1_stat cl_stat] in *.
      apply (assign_simc flv slv reg vars es en Exc Hvars IHe Hf0 Hs0) with (k := O) (ens := seg :: rest); auto.
      + intros e He. destruct (In_nth_error _ _ He) as [k Hk].
        eapply NoB_Le; [|exact Hnb]. eapply Le_trans; [|apply Le_app_r].
        eapply Le_trans; [apply (Le_b4f vars es en k)|].
        apply (Le_concat_index_in (fun i eo => b4f vars es en i (snd eo)) _ O k (e, b_exp flv slv reg e en)).
        rewrite nth_error_map, Hk. reflexivity.
      + intros k n l0 Hk. apply (b4free_of_NoB vars es en Exc k n l0 flv slv reg Hk).
        eapply NoB_Le; [|exact Hnb]. eapply Le_trans; [|apply Le_app_l].
        pose proof (Le_concat_index_in
                      (fun i v => match v with
                                  | EName n1 l1 => b4f vars es en i [mkS l1 n1 (resolve en n1) RWrite flv slv reg false [] en]
                                  | EIndex p k0 _ => b_exp flv slv reg p en ++ b_exp flv slv reg k0 en
                                  | _ => []
                                  end) vars O k (EName n l0) Hk) as H. exact H.
      + discriminate.
    - (* SLocal *) intros ns ls ats es l IHe Hf Hs flv slv reg. cbn [frag_stat tb_shp_stat] in *. bs Hf. bs Hs.
      intros st seg rest en Exc Hfr Heq Hnb Hc. cbn [b_stat snd] in Hnb. cbn [cl1_stat cl_stat] in *.
      pose proof (cl_local_loop_shape (fun e => tr_exp flv e) (fun e => cl1_exp nm flv e) es (combine ns ls) st) as E1.
      pose proof (cl_local_loop_shape (fun e => tr_exp flv e) (fun e => cl_exp nm flv e) es (combine ns ls) st) as E2.
      cbv beta in E1, E2. unfold tT, tC in E1, E2. rewrite E1 in Hc. rewrite E2.
      apply (exps_simc flv slv reg es IHe ltac:(assumption) ltac:(assumption) st (seg :: rest) en Exc Hfr ltac:(discriminate) Heq);
        [|exact Hc].
      eapply NoB_Le; [|exact Hnb]. eapply Le_trans; [|apply Le_app_l].
      apply (Le_local_inits en ns (fun e => b_exp flv slv reg e en) es O).
    - (* SLocalFunc *) intros n nl f l IHf Hf Hs flv slv reg. cbn [frag_stat tb_shp_stat] in *.
      apply andb_true_iff in Hf. destruct Hf as [_ Hff]. destruct f; try discriminate Hff.
      assert (Hv : VR (mkV n nl (ref_of_exp (EFunc cls fname pars parlocs b l0 vararg colon)) false) ((n, nl), false))
        by (repeat split; cbn; auto; discriminate).
      pose proof (SimCS_seq _ _ _ _ _ _ _ _
                    (SimS_add _ _ (fun en => [decl_occ en flv slv reg false (n, nl)]) Hv (fun _ => eq_refl))
                    (SimCS_same (fun _ => true) _) (SimCS_of_E _ _ _ (IHf Hff Hs flv slv reg))) as H.
      eapply SimCS_ext; [| | |exact H]; intros; reflexivity.
    - (* Block *) intros ss ret l IHs IHr Hf Hs flv slv reg. cbn [frag_block tb_shp_block] in *. bs Hf. bs Hs.
      assert (Hss : Forall (fun s => SimS (tr_stat flv slv s) (fun n0 => cl_stat n0 flv slv s) (fun en => b_stat flv slv reg s en)) ss).
      { apply Forall_forall. intros s Hin. apply sim_stat. rewrite forallb_forall in Hs. apply Hs. exact Hin. }
      assert (Hcs : Forall (fun s => SimCS (cl1_stat nm flv slv s) (cl_stat nm flv slv s) (fun en => b_stat flv slv reg s en)) ss).
      { rewrite forallb_forall in Hf, Hs. rewrite Forall_forall in *. intros s Hin. exact (IHs s Hin (Hf s Hin) (Hs s Hin) flv slv reg). }
      pose proof (SimCS_list (fun s => tr_stat flv slv s) (fun s n0 => cl_stat n0 flv slv s) (fun s => cl1_stat nm flv slv s)
                             (fun s => cl_stat nm flv slv s) (fun s en => b_stat flv slv reg s en) ss Hss Hcs) as Hl.
      pose proof (SimS_list (fun s => tr_stat flv slv s) (fun s n0 => cl_stat n0 flv slv s)
                            (fun s en => b_stat flv slv reg s en) ss Hss) as Sl.
      destruct ret as [es|].
      + cbn [tb_ret] in IHr.
        pose proof (SimCS_seq _ _ _ _ _ _ _ _ Sl Hl (SimCS_of_E _ _ _ (exps_simc flv slv reg es IHr Hf0 Hs0))) as H.
        eapply SimCS_ext; [intros st|intros st|intros en|exact H].
        * reflexivity.
        * reflexivity.
        * cbn [b_block fst snd]. destruct (seq_stats (map (fun s => b_stat flv slv reg s) ss) en) as [en1 os]. reflexivity.
      + eapply SimCS_ext; [intros st|intros st|intros en|exact Hl].
        * cbn [cl1_block]. apply andb_true_r.
        * cbn [cl_block]. apply andb_true_r.
        * cbn [b_block]. destruct (seq_stats (map (fun s => b_stat flv slv reg s) ss) en) as [en1 os]. reflexivity.
  Qed.

  (* ------------------------------------------------------------------ whole chunks *)
  Theorem clean1_classA_clean P :
    in_fragment P = true -> tb_shape P = true -> classA_ok (bind_file P) nm = true ->
    tr_clean1 P nm = true -> tr_clean P nm = true.
  Proof.
    intros Hf Hs Ha Hc. destruct b4_all as [_ [_ HB]].
    apply (HB P Hf Hs 0 0 (block_loc P) (st0 P) [] [] [] (fun _ _ => False)); auto.
    - unfold FRS, st0. cbn. constructor; [constructor|constructor].
    - intros n. left. reflexivity.
    - fold (bind_file P). intros s Hin Hn Hd. unfold classA_ok in Ha. apply negb_true_iff in Ha.
      assert (Hx : has_tag CB3 s || has_tag CB4 s = false).
      { destruct (has_tag CB3 s || has_tag CB4 s) eqn:E; [|reflexivity]. rewrite <- Ha. symmetry.
        apply existsb_exists. exists s. split; [exact Hin|]. rewrite Hn, beq_refl, E. reflexivity. }
      apply orb_false_iff in Hx. destruct Hx as [H3 H4]. repeat split; auto.
  Qed.
End B4.
