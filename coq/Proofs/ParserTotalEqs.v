(* C01, Lua parser model: one unfolding equation per function of the mutual fixpoint of Model/Parser.v
   (GENERATED from the text of Model/Parser.v by a script; every equation is proved by reflexivity, so a mismatch with
   the model cannot compile).  Rewrite with these instead of simpl/cbn on the 20-function fixpoint. *)
From Coq Require Import List NArith ZArith Bool.
From LH Require Import Base.Bytes Base.Res Model.Lexer Model.Ast Model.Parser.
Import ListNotations.
Set Default Proof Using "Type".

(* same notation as the Local one of Model/Parser.v (a match, not rbind) *)
Local Set Warnings "-notation-overridden".
Local Notation "'do' x <- r ; k" :=
  (match r with Ok x => k | Fault fk => Fault fk | OutOfFuel => OutOfFuel end)
  (at level 200, x pattern, r at level 100, k at level 200, right associativity, only parsing).

Section Eqs.
  Variable classify : list N -> numcls.
  Local Notation p_block := (Parser.p_block classify).
  Local Notation p_block_loc := (Parser.p_block_loc classify).
  Local Notation p_block_loc_excl := (Parser.p_block_loc_excl classify).
  Local Notation p_stats := (Parser.p_stats classify).
  Local Notation p_stat := (Parser.p_stat classify).
  Local Notation p_assign_or_call := (Parser.p_assign_or_call classify).
  Local Notation p_if_tail := (Parser.p_if_tail classify).
  Local Notation p_varlist_tail := (Parser.p_varlist_tail classify).
  Local Notation p_explist := (Parser.p_explist classify).
  Local Notation p_explist_tail := (Parser.p_explist_tail classify).
  Local Notation p_subexp := (Parser.p_subexp classify).
  Local Notation p_binop_loop := (Parser.p_binop_loop classify).
  Local Notation p_exp0 := (Parser.p_exp0 classify).
  Local Notation p_prefixexp := (Parser.p_prefixexp classify).
  Local Notation p_finish_prefix := (Parser.p_finish_prefix classify).
  Local Notation p_args := (Parser.p_args classify).
  Local Notation p_table := (Parser.p_table classify).
  Local Notation p_fieldlist_tail := (Parser.p_fieldlist_tail classify).
  Local Notation p_field := (Parser.p_field classify).
  Local Notation p_funcdef := (Parser.p_funcdef classify).

  Lemma p_block_S (n' : nat) (st : pst) :
    p_block (S n') st =
    (
      do (stats, st1) <- p_stats n' st [] ;
      
      if negb (tk_eqb (la st1) TkKwReturn) then Ok (Block stats None zero_loc, st1)
      else
        let st2 := next st1 in
        if is_ret_end (la st2) then Ok (Block stats (Some []) zero_loc, st2)
        else if tk_eqb (la st2) TkSepSemi then Ok (Block stats (Some []) zero_loc, next st2)
        else
          do (es, st3) <- p_explist n' st2 ;
          let st4 := if tk_eqb (la st3) TkSepSemi then next st3 else st3 in
          Ok (Block stats (Some es) zero_loc, st4)
    ).
  Proof. reflexivity. Qed.

  Lemma p_block_loc_S (n' : nat) (st : pst) :
    p_block_loc (S n') st =
    (
      let bb := heard_loc st in
      do (b, st1) <- p_block n' st ;
      Ok (set_block_loc b (range_loc bb (now_loc st1)), st1)
    ).
  Proof. reflexivity. Qed.

  Lemma p_block_loc_excl_S (n' : nat) (st : pst) :
    p_block_loc_excl (S n') st =
    (
      let bb := heard_loc st in
      do (b, st1) <- p_block n' st ;
      Ok (set_block_loc b (range_loc_excl bb (heard_loc st1)), st1)
    ).
  Proof. reflexivity. Qed.

  Lemma p_stats_S (n' : nat) (st : pst) (acc : list stat) :
    p_stats (S n') st acc =
    (
      if is_block_end (la st) then Ok (acc, st)
      else
        do (os, st1) <- p_stat n' st ;
        p_stats n' st1 (match os with Some s => acc ++ [s] | None => acc end)
    ).
  Proof. reflexivity. Qed.

  Lemma p_stat_S (n' : nat) (st : pst) :
    p_stat (S n') st =
    (
      match stat_start_of (la st) with
      | StSemi => Ok (None, expect TkSepSemi st)
      | StBreak => Ok (Some SBreak, expect TkKwBreak st)
      | StLabel =>
        let st1 := expect TkIdentifier (expect TkSepLabel st) in
        Ok (Some (SLabel (now_str st1) (now_loc st1)), expect TkSepLabel st1)
      | StGoto =>
        let st1 := expect TkIdentifier (expect TkKwGoto st) in
        Ok (Some (SGoto (now_str st1) (now_loc st1)), st1)
      | StDo =>
        let st1 := expect TkKwDo st in
        let bl := now_loc st1 in
        do (b, st2) <- p_block_loc n' st1 ;
        let st3 := expect TkKwEnd st2 in
        Ok (Some (SDo b (range_loc bl (now_loc st3))), st3)
      | StWhile =>
        let st1 := expect TkKwWhile st in
        let bl := now_loc st1 in
        do (e, st2) <- p_subexp n' 0 st1 ;
        let st3 := expect TkKwDo st2 in
        do (b, st4) <- p_block_loc n' st3 ;
        let st5 := expect TkKwEnd st4 in
        Ok (Some (SWhile e b (range_loc bl (now_loc st5))), st5)
      | StRepeat =>
        let st1 := expect TkKwRepeat st in
        let bl := now_loc st1 in
        do (b, st2) <- p_block_loc n' st1 ;
        let st3 := expect TkKwUntil st2 in
        do (e, st4) <- p_subexp n' 0 st3 ;
        Ok (Some (SRepeat b e (range_loc bl (now_loc st4))), st4)
      | StIf =>
        let st1 := expect TkKwIf st in
        let bl := now_loc st1 in
        do (e, st2) <- p_subexp n' 0 st1 ;
        let st3 := expect TkKwThen st2 in
        do (b, st4) <- p_block_loc_excl n' st3 ;
        do (es, bs, st5) <- p_if_tail n' st4 [e] [b] ;
        let st6 := expect TkKwEnd st5 in
        Ok (Some (SIf es bs (range_loc bl (now_loc st6))), st6)
      | StFor =>
        let st1 := expect TkKwFor st in
        let bl := now_loc st1 in
        let st2 := expect TkIdentifier st1 in
        let name := now_str st2 in
        let vl := now_loc st2 in
        if tk_eqb (la st2) TkOpAssign then
          let st3 := expect TkOpAssign st2 in
          do (e1, st4) <- p_subexp n' 0 st3 ;
          let st5 := expect TkSepComma st4 in
          do (e2, st6) <- p_subexp n' 0 st5 ;
          do (e3, st7) <- (if tk_eqb (la st6) TkSepComma then p_subexp n' 0 (next st6)
                            else Ok (EInt 1 zero_loc, st6)) ;
          let st8 := expect TkKwDo st7 in
          do (b, st9) <- p_block_loc n' st8 ;
          let st10 := expect TkKwEnd st9 in
          Ok (Some (SForNum name vl e1 e2 e3 b (range_loc bl (now_loc st10))), st10)
        else
          do (names, locs, st3) <- p_namelist_tail n' st2 [name] [vl] ;
          let st4 := expect TkKwIn st3 in
          do (es, st5) <- p_explist n' st4 ;
          let st6 := expect TkKwDo st5 in
          do (b, st7) <- p_block_loc n' st6 ;
          let st8 := expect TkKwEnd st7 in
          Ok (Some (SForIn names locs es b (range_loc bl (now_loc st8))), st8)
      | StFunction =>
        let st1 := expect TkKwFunction st in
        let bl := now_loc st1 in
        do (fn, colon, cls, fname, st2) <- p_funcname n' st1 ;
        let selfloc := now_loc st2 in
        do (fd, st3) <- p_funcdef n' bl st2 ;
        let fd' := match fd with
                   | EFunc _ _ pars plocs b l va _ =>
                     if colon then EFunc cls fname (s_self :: pars) (selfloc :: plocs) b l va true
                     else EFunc cls fname pars plocs b l va false
                   | e => e
                   end in
        Ok (Some (SAssign [fn] [fd'] (range_loc bl (now_loc st3))), st3)
      | StLocal =>
        let st1 := expect TkKwLocal st in
        let bl := now_loc st1 in
        if tk_eqb (la st1) TkKwFunction then
          let st2 := expect TkIdentifier (expect TkKwFunction st1) in
          let name := now_str st2 in
          let nl := now_loc st2 in
          do (fd, st3) <- p_funcdef n' bl st2 ;
          Ok (Some (SLocalFunc name nl fd (range_loc bl (now_loc st3))), st3)
        else
          let st2 := expect TkIdentifier st1 in
          let name0 := now_str st2 in
          let l0 := now_loc st2 in
          let '(a0, st3) := p_local_attr st2 in
          do (names, locs, attrs, st4) <-
             p_local_namelist_tail n' st3 (match a0 with AttrClose => true | _ => false end) [name0] [l0] [a0] ;
          do (es, st5) <- (if tk_eqb (la st4) TkOpAssign then p_explist n' (next st4) else Ok ([], st4)) ;
          Ok (Some (SLocal names locs attrs es (range_loc bl (now_loc st5))), st5)
      | StIllegal => Ok (None, next st)
      | StOther => p_assign_or_call n' st
      end
    ).
  Proof. reflexivity. Qed.

  Lemma p_assign_or_call_S (n' : nat) (st : pst) :
    p_assign_or_call (S n') st =
    (
        let bl := heard_loc st in
        do (pe, st1) <- p_prefixexp n' st ;
        match pe with
        | EBad _ => Ok (None, st1)
        | ECall p nm args _ => Ok (Some (SCall (ECall p nm args (range_loc bl (now_loc st1)))), st1)
        | _ =>
          
          let '(v0, bad0) := if is_var_like pe then (pe, None) else (EBad (now_loc st1), Some (now_loc st1)) in
          do (vars, notvar, st2) <- p_varlist_tail n' st1 [v0] bad0 ;
          if negb (tk_eqb (la st2) TkOpAssign) then Ok (None, err PeExprStat st2)
          else
            let st3 := match notvar with Some _ => err PeCannotAssign st2 | None => st2 end in
            let st4 := expect TkOpAssign st3 in
            do (es, st5) <- p_explist n' st4 ;
            Ok (Some (SAssign vars es (range_loc bl (now_loc st5))), st5)
        end
    ).
  Proof. reflexivity. Qed.

  Lemma p_if_tail_S (n' : nat) (st : pst) (es : list exp) (bs : list block) :
    p_if_tail (S n') st es bs =
    (
      if tk_eqb (la st) TkKwElseif then
        do (e, st1) <- p_subexp n' 0 (next st) ;
        let st2 := expect TkKwThen st1 in
        do (b, st3) <- p_block_loc_excl n' st2 ;
        p_if_tail n' st3 (es ++ [e]) (bs ++ [b])
      else if tk_eqb (la st) TkKwElse then
        let st1 := next st in
        let te := ETrue (now_loc st1) in
        do (b, st2) <- p_block_loc_excl n' st1 ;
        Ok (es ++ [te], bs ++ [b], st2)
      else Ok (es, bs, st)
    ).
  Proof. reflexivity. Qed.

  Lemma p_varlist_tail_S (n' : nat) (st : pst) (vars : list exp) (notvar : option loc) :
    p_varlist_tail (S n') st vars notvar =
    (
      if tk_eqb (la st) TkSepComma then
        do (e, st1) <- p_prefixexp n' (next st) ;
        if is_var_like e then p_varlist_tail n' st1 (vars ++ [e]) notvar
        else p_varlist_tail n' st1 (vars ++ [EBad (now_loc st1)])
                            (match notvar with Some l => Some l | None => Some (now_loc st1) end)
      else Ok (vars, notvar, st)
    ).
  Proof. reflexivity. Qed.

  Lemma p_explist_S (n' : nat) (st : pst) :
    p_explist (S n') st =
    (
      do (e, st1) <- p_subexp n' 0 st ;
      p_explist_tail n' st1 [e]
    ).
  Proof. reflexivity. Qed.

  Lemma p_explist_tail_S (n' : nat) (st : pst) (acc : list exp) :
    p_explist_tail (S n') st acc =
    (
      if tk_eqb (la st) TkSepComma then
        do (e, st1) <- p_subexp n' 0 (next st) ;
        p_explist_tail n' st1 (acc ++ [e])
      else Ok (acc, st)
    ).
  Proof. reflexivity. Qed.

  Lemma p_subexp_S (n' : nat) (limit : nat) (st : pst) :
    p_subexp (S n') limit st =
    (
      let bbl := heard_loc st in
      do (e, st1) <-
         (if is_unop (la st) then
            let st1 := next st in
            let op := now_kind st1 in
            let bl := now_loc st1 in
            do (a, st2) <- p_subexp n' unary_limit st1 ;
            Ok (EUnop op a (range_loc bl (now_loc st2)), st2)
          else p_exp0 n' st) ;
      p_binop_loop n' limit bbl e st1
    ).
  Proof. reflexivity. Qed.

  Lemma p_binop_loop_S (n' : nat) (limit : nat) (bbl : loc) (e : exp) (st : pst) :
    p_binop_loop (S n') limit bbl e st =
    (
      let k := la st in
      let p := prio k in
      if (Nat.ltb 0 p) && negb (Nat.leb p limit) then
        let p' := if is_right_assoc k then Nat.pred p else p in
        do (sub, st1) <- p_subexp n' p' (next st) ;
        p_binop_loop n' limit bbl (EBinop k e sub (range_loc bbl (now_loc st1))) st1
      else Ok (e, st)
    ).
  Proof. reflexivity. Qed.

  Lemma p_exp0_S (n' : nat) (st : pst) :
    p_exp0 (S n') st =
    (
      match exp0_start_of (la st) with
      | E0Vararg => let st1 := next st in Ok (EVararg (now_loc st1), st1)
      | E0Nil => let st1 := next st in Ok (ENil (now_loc st1), st1)
      | E0True => let st1 := next st in Ok (ETrue (now_loc st1), st1)
      | E0False => let st1 := next st in Ok (EFalse (now_loc st1), st1)
      | E0String => let st1 := next st in Ok (EStr (now_str st1) (now_loc st1), st1)
      | E0Number =>
        let st1 := next st in
        match classify (now_str st1) with
        | NInt v => Ok (EInt v (now_loc st1), st1)
        | NFloat => Ok (EFloat (now_str st1) (now_loc st1), st1)
        | NBad => Ok (EFloat [] zero_loc, err PeNotNumber st1)
        end
      | E0Table => p_table n' st
      | E0Function => let st1 := next st in p_funcdef n' (now_loc st1) st1
      | E0Other => p_prefixexp n' st
      end
    ).
  Proof. reflexivity. Qed.

  Lemma p_prefixexp_S (n' : nat) (st : pst) :
    p_prefixexp (S n') st =
    (
      let bl := heard_loc st in
      if tk_eqb (la st) TkIdentifier then
        let st1 := expect TkIdentifier st in
        p_finish_prefix n' (EName (now_str st1) (now_loc st1)) bl st1
      else if tk_eqb (la st) TkSepLparen then
        
        let st1 := expect TkSepLparen st in
        let pl := now_loc st1 in
        do (e, st2) <- p_subexp n' 0 st1 ;
        let st3 := expect TkSepRparen st2 in
        let l := range_loc pl (now_loc st3) in
        p_finish_prefix n' (if keeps_parens e then EParens e l else e) bl st3
      else
        let st1 := next st in
        p_finish_prefix n' (EBad (now_loc st1)) bl (err PeCannotStart st1)
    ).
  Proof. reflexivity. Qed.

  Lemma p_finish_prefix_S (n' : nat) (e : exp) (bl : loc) (st : pst) :
    p_finish_prefix (S n') e bl st =
    (
      match suffix_start_of (la st) with
      | SfxBrack =>
        do (k, st1) <- p_subexp n' 0 (next st) ;
        let st2 := expect TkSepRbrack st1 in
        p_finish_prefix n' (EIndex e k (range_loc bl (now_loc st2))) bl st2
      | SfxDot =>
        let st1 := next st in
        let '(nm, st2) := if tk_eqb (la st1) TkIdentifier
                          then let s := expect TkIdentifier st1 in (now_str s, s)
                          else ([], err PeMissingField st1) in
        let l := now_loc st2 in
        p_finish_prefix n' (EIndex e (EStr nm l) (range_loc bl l)) bl st2
      | SfxCall =>
        
        let cbl := now_loc st in
        
        let '(nm, st1) :=
            if tk_eqb (la st) TkSepColon then
              let s1 := next st in
              let '(name, s2) := if tk_eqb (la s1) TkIdentifier
                                 then let s := expect TkIdentifier s1 in (now_str s, s)
                                 else ([], err PeMissingField s1) in
              (Some (name, now_loc s2), s2)
            else (None, st) in
        do (args, st2) <- p_args n' st1 ;
        p_finish_prefix n' (ECall e nm args (range_loc cbl (now_loc st2))) bl st2
      | SfxNone => Ok (e, st)
      end
    ).
  Proof. reflexivity. Qed.

  Lemma p_args_S (n' : nat) (st1 : pst) :
    p_args (S n') st1 =
    (
      if tk_eqb (la st1) TkSepLparen then
        let s1 := next st1 in
        do (a, s2) <- (if negb (tk_eqb (la s1) TkSepRparen) then p_explist n' s1 else Ok ([], s1)) ;
        Ok (a, expect TkSepRparen s2)
      else if tk_eqb (la st1) TkSepLcurly then do (t, s1) <- p_table n' st1 ; Ok ([t], s1)
      else if tk_eqb (la st1) TkString then
        let s1 := expect TkString st1 in Ok ([EStr (now_str s1) (now_loc s1)], s1)
      else Ok ([], err PeMissingArgs st1)
    ).
  Proof. reflexivity. Qed.

  Lemma p_table_S (n' : nat) (st : pst) :
    p_table (S n') st =
    (
      let st1 := expect TkSepLcurly st in
      let bl := now_loc st1 in
      do (ks, vs, st2) <-
         (if negb (tk_eqb (la st1) TkSepRcurly) then
            do (k, v, s1) <- p_field n' st1 ;
            p_fieldlist_tail n' s1 [k] [v]
          else Ok ([], [], st1)) ;
      let st3 := expect TkSepRcurly st2 in
      Ok (ETable ks vs (range_loc bl (now_loc st3)), st3)
    ).
  Proof. reflexivity. Qed.

  Lemma p_fieldlist_tail_S (n' : nat) (st : pst) (ks : list (option exp)) (vs : list exp) :
    p_fieldlist_tail (S n') st ks vs =
    (
      if tk_eqb (la st) TkSepComma || tk_eqb (la st) TkSepSemi then
        let st1 := next st in
        if negb (tk_eqb (la st1) TkSepRcurly) then
          do (k, v, s1) <- p_field n' st1 ;
          p_fieldlist_tail n' s1 (ks ++ [k]) (vs ++ [v])
        else Ok (ks, vs, st1)
      else Ok (ks, vs, st)
    ).
  Proof. reflexivity. Qed.

  Lemma p_field_S (n' : nat) (st : pst) :
    p_field (S n') st =
    (
      if tk_eqb (la st) TkSepLbrack then
        do (k, st1) <- p_subexp n' 0 (next st) ;
        let st2 := expect TkOpAssign (expect TkSepRbrack st1) in
        do (v, st3) <- p_subexp n' 0 st2 ;
        Ok (Some k, v, st3)
      else
        do (e, st1) <- p_subexp n' 0 st ;
        match e with
        | EName nm l =>
          if tk_eqb (la st1) TkOpAssign then
            do (v, st2) <- p_subexp n' 0 (next st1) ;
            Ok (Some (EStr nm l), v, st2)
          else Ok (None, e, st1)
        | _ => Ok (None, e, st1)
        end
    ).
  Proof. reflexivity. Qed.

  Lemma p_funcdef_S (n' : nat) (bl : loc) (st : pst) :
    p_funcdef (S n') bl st =
    (
      let st1 := expect TkSepLparen st in
      do (pars, plocs, va, st2) <- p_parlist n' st1 ;
      let st3 := expect TkSepRparen st2 in
      do (b, st4) <- p_block_loc n' st3 ;
      let st5 := expect TkKwEnd st4 in
      Ok (EFunc [] [] pars plocs b (range_loc bl (now_loc st5)) va false, st5)
    ).
  Proof. reflexivity. Qed.
End Eqs.
