(* C01, Lua parser model: the generic progress lemma PT for the 20 mutually recursive parser functions.
   For every function p_X:   wfst st -> c_X + 10 * m st <= fuel ->
       p_X fuel st = Ok (r, st')  with  wfst st', m st' <= m st  (and  m st' < m st  for the functions that must consume).
   c_X is the rank of p_X in the "can be called without consuming a token" order; 10 > every c_X pays for a call that
   follows a consumed token.  Proved by induction on the fuel alone (the rank constants make a nested induction on
   the measure unnecessary). *)
From Coq Require Import List NArith ZArith Bool Arith Lia ZifyNat.
From LH Require Import Base.Bytes Base.Res Model.Lexer Model.Ast Model.Parser.
From LH Require Import Proofs.LexerTotalWf Proofs.ParserTotalBase Proofs.ParserTotalEqs Proofs.ParserTotalTac
     Proofs.ParserTotalLoops.
Import ListNotations.
Set Default Proof Using "Type".

Ltac spec_strict2 Hs :=
  lazymatch type of Hs with
  | (?P /\ ?Q) -> _ =>
    first [ let Hp := fresh "Hp" in
            assert (Hp : P /\ Q) by (split; [assumption | apply tk_eqb_false; assumption]);
            specialize (Hs Hp); clear Hp
          | clear Hs ]
  | _ => spec_strict Hs
  end.

Ltac useih := match goal with Hi : _ |- _ => eapply Hi end; try side.

Ltac docall x :=
  let H := fresh "Hcall" in
  eassert (H : okp _ x _);
  [ useih
  | let a := fresh "a" in let st' := fresh "st" in let E := fresh "E" in
    let Hw := fresh "Hw" in let Hm := fresh "Hm" in let Hs := fresh "Hs" in
    destruct H as (a & st' & E & Hw & Hm & Hs); rewrite E; clear E; spec_strict2 Hs ].

Ltac tailcall x :=
  let H := fresh "Hcall" in
  eassert (H : okp _ x _);
  [ useih
  | eapply okp_weaken;
    [ exact H | fuel
    | let Hc := fresh "Hc" in intro Hc; first [exfalso; exact Hc | right; exact Hc | left; respec; fuel] ] ].

Ltac step :=
  cbv beta iota zeta;
  lazymatch goal with
  | |- okp _ (Ok (_, _)) _ => finish
  | |- okp _ (match ?x with _ => _ end) _ =>
    innermost x ltac:(fun z =>
      lazymatch type of z with
      | Res _ => docall z
      | _ => destruct z eqn:?; la_norm;
             try match goal with
                 | Ha : p_local_attr _ = (_, _) |- _ => apply local_attr_ok in Ha; [destruct Ha|wf]
                 end
      end)
  | |- okp _ ?x _ => tailcall x
  end.
Ltac go := repeat step.

Section Total.
  Variable classify : list N -> numcls.

  Definition PT (n : nat) : Prop :=
    (forall st, wfst st -> 8 + 10 * m st <= n -> okp False (p_block classify n st) st) /\
    (forall st, wfst st -> 9 + 10 * m st <= n -> okp False (p_block_loc classify n st) st) /\
    (forall st, wfst st -> 9 + 10 * m st <= n -> okp False (p_block_loc_excl classify n st) st) /\
    (forall st acc, wfst st -> 7 + 10 * m st <= n -> okp False (p_stats classify n st acc) st) /\
    (forall st, wfst st -> 6 + 10 * m st <= n -> okp (la st <> TkEOF) (p_stat classify n st) st) /\
    (forall st, wfst st -> 5 + 10 * m st <= n -> okp (la st <> TkEOF) (p_assign_or_call classify n st) st) /\
    (forall st es bs, wfst st -> 1 + 10 * m st <= n -> okp False (p_if_tail classify n st es bs) st) /\
    (forall st vars nv, wfst st -> 1 + 10 * m st <= n -> okp False (p_varlist_tail classify n st vars nv) st) /\
    (forall st, wfst st -> 7 + 10 * m st <= n -> okp False (p_explist classify n st) st) /\
    (forall st acc, wfst st -> 1 + 10 * m st <= n -> okp False (p_explist_tail classify n st acc) st) /\
    (forall lim st, wfst st -> 6 + 10 * m st <= n -> okp False (p_subexp classify n lim st) st) /\
    (forall lim bbl e st, wfst st -> 1 + 10 * m st <= n -> okp False (p_binop_loop classify n lim bbl e st) st) /\
    (forall st, wfst st -> 5 + 10 * m st <= n -> okp False (p_exp0 classify n st) st) /\
    (forall st, wfst st -> 4 + 10 * m st <= n -> okp (la st <> TkEOF) (p_prefixexp classify n st) st) /\
    (forall e bl st, wfst st -> 3 + 10 * m st <= n -> okp False (p_finish_prefix classify n e bl st) st) /\
    (forall st, wfst st -> 2 + 10 * m st <= n ->
                okp (suffix_start_of (la st) = SfxCall /\ la st <> TkSepColon) (p_args classify n st) st) /\
    (forall st, wfst st -> la st = TkSepLcurly -> 1 + 10 * m st <= n -> okp True (p_table classify n st) st) /\
    (forall st ks vs, wfst st -> 1 + 10 * m st <= n -> okp False (p_fieldlist_tail classify n st ks vs) st) /\
    (forall st, wfst st -> 7 + 10 * m st <= n -> okp False (p_field classify n st) st) /\
    (forall bl st, wfst st -> 10 + 10 * m st <= n -> okp False (p_funcdef classify n bl st) st).

  Ltac ihs IH :=
    destruct IH as (I1 & I2 & I3 & I4 & I5 & I6 & I7 & I8 & I9 & I10 & I11 & I12 & I13 & I14 & I15 & I16 & I17
                    & I18 & I19 & I20);
    pose proof T_namelist_tail as J1; pose proof T_local_namelist_tail as J2; pose proof T_parlist as J3;
    pose proof T_funcname as J4.

  Lemma S_block n : PT n ->
    forall st, wfst st -> 8 + 10 * m st <= S n -> okp False (p_block classify (S n) st) st.
  Proof. intros IH st Hw Hf. ihs IH. rewrite p_block_S. go. Qed.

  Lemma S_block_loc n : PT n ->
    forall st, wfst st -> 9 + 10 * m st <= S n -> okp False (p_block_loc classify (S n) st) st.
  Proof. intros IH st Hw Hf. ihs IH. rewrite p_block_loc_S. go. Qed.

  Lemma S_block_loc_excl n : PT n ->
    forall st, wfst st -> 9 + 10 * m st <= S n -> okp False (p_block_loc_excl classify (S n) st) st.
  Proof. intros IH st Hw Hf. ihs IH. rewrite p_block_loc_excl_S. go. Qed.

  Lemma S_stats n : PT n ->
    forall st acc, wfst st -> 7 + 10 * m st <= S n -> okp False (p_stats classify (S n) st acc) st.
  Proof. intros IH st acc Hw Hf. ihs IH. rewrite p_stats_S. go. Qed.

  Lemma S_stat n : PT n ->
    forall st, wfst st -> 6 + 10 * m st <= S n -> okp (la st <> TkEOF) (p_stat classify (S n) st) st.
  Proof. intros IH st Hw Hf. ihs IH. rewrite p_stat_S. go. Qed.

  Lemma S_assign_or_call n : PT n ->
    forall st, wfst st -> 5 + 10 * m st <= S n -> okp (la st <> TkEOF) (p_assign_or_call classify (S n) st) st.
  Proof. intros IH st Hw Hf. ihs IH. rewrite p_assign_or_call_S. go. Qed.

  Lemma S_if_tail n : PT n ->
    forall st es bs, wfst st -> 1 + 10 * m st <= S n -> okp False (p_if_tail classify (S n) st es bs) st.
  Proof. intros IH st es bs Hw Hf. ihs IH. rewrite p_if_tail_S. go. Qed.

  Lemma S_varlist_tail n : PT n ->
    forall st vars nv, wfst st -> 1 + 10 * m st <= S n -> okp False (p_varlist_tail classify (S n) st vars nv) st.
  Proof. intros IH st vars nv Hw Hf. ihs IH. rewrite p_varlist_tail_S. go. Qed.

  Lemma S_explist n : PT n ->
    forall st, wfst st -> 7 + 10 * m st <= S n -> okp False (p_explist classify (S n) st) st.
  Proof. intros IH st Hw Hf. ihs IH. rewrite p_explist_S. go. Qed.

  Lemma S_explist_tail n : PT n ->
    forall st acc, wfst st -> 1 + 10 * m st <= S n -> okp False (p_explist_tail classify (S n) st acc) st.
  Proof. intros IH st acc Hw Hf. ihs IH. rewrite p_explist_tail_S. go. Qed.

  Lemma S_subexp n : PT n ->
    forall lim st, wfst st -> 6 + 10 * m st <= S n -> okp False (p_subexp classify (S n) lim st) st.
  Proof. intros IH lim st Hw Hf. ihs IH. rewrite p_subexp_S. go. Qed.

  Lemma S_binop_loop n : PT n ->
    forall lim bbl e st, wfst st -> 1 + 10 * m st <= S n -> okp False (p_binop_loop classify (S n) lim bbl e st) st.
  Proof. intros IH lim bbl e st Hw Hf. ihs IH. rewrite p_binop_loop_S. go. Qed.

  Lemma S_exp0 n : PT n ->
    forall st, wfst st -> 5 + 10 * m st <= S n -> okp False (p_exp0 classify (S n) st) st.
  Proof. intros IH st Hw Hf. ihs IH. rewrite p_exp0_S. go. Qed.

  Lemma S_prefixexp n : PT n ->
    forall st, wfst st -> 4 + 10 * m st <= S n -> okp (la st <> TkEOF) (p_prefixexp classify (S n) st) st.
  Proof. intros IH st Hw Hf. ihs IH. rewrite p_prefixexp_S. go. Qed.

  Lemma S_finish_prefix n : PT n ->
    forall e bl st, wfst st -> 3 + 10 * m st <= S n -> okp False (p_finish_prefix classify (S n) e bl st) st.
  Proof. intros IH e bl st Hw Hf. ihs IH. rewrite p_finish_prefix_S. go. Qed.

  Lemma S_args n : PT n ->
    forall st, wfst st -> 2 + 10 * m st <= S n -> okp (suffix_start_of (la st) = SfxCall /\ la st <> TkSepColon) (p_args classify (S n) st) st.
  Proof. intros IH st Hw Hf. ihs IH. rewrite p_args_S. go.
    (* no argument list at all: excluded by the strictness condition, nothing consumed otherwise *)
    unfold okp. eexists; eexists. split; [reflexivity|]. split; [wf|]. split; [fuel|].
    intros [Hs Hc]. exfalso.
    repeat match goal with H : tk_eqb _ _ = false |- _ => apply tk_eqb_false in H end.
    destruct (la st); cbn in Hs; congruence.
  Qed.

  Lemma S_table n : PT n ->
    forall st, wfst st -> la st = TkSepLcurly -> 1 + 10 * m st <= S n -> okp True (p_table classify (S n) st) st.
  Proof. intros IH st Hw Hla Hf. ihs IH. rewrite p_table_S. go. Qed.

  Lemma S_fieldlist_tail n : PT n ->
    forall st ks vs, wfst st -> 1 + 10 * m st <= S n -> okp False (p_fieldlist_tail classify (S n) st ks vs) st.
  Proof. intros IH st ks vs Hw Hf. ihs IH. rewrite p_fieldlist_tail_S. go. Qed.

  Lemma S_field n : PT n ->
    forall st, wfst st -> 7 + 10 * m st <= S n -> okp False (p_field classify (S n) st) st.
  Proof. intros IH st Hw Hf. ihs IH. rewrite p_field_S. go. Qed.

  Lemma S_funcdef n : PT n ->
    forall bl st, wfst st -> 10 + 10 * m st <= S n -> okp False (p_funcdef classify (S n) bl st) st.
  Proof. intros IH bl st Hw Hf. ihs IH. rewrite p_funcdef_S. go. Qed.
End Total.
