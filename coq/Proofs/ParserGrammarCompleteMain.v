(* C03, token level, completeness: the combined induction over the grammar (partial-correctness form). *)
From Coq Require Import List NArith ZArith Bool Lia.
From LH Require Import Base.Bytes Base.Res Model.Lexer Model.Ast Model.Parser Spec.LuaGrammar.
From LH Require Import Proofs.ParserGrammarBase Proofs.ParserGrammarMono Proofs.ParserGrammarFlat
     Proofs.ParserGrammarComplete Proofs.ParserGrammarPost.
Import ListNotations.
#[local] Opaque expect next err la.

Scheme Block_mind := Minimality for Block Sort Prop
  with RetTail_mind := Minimality for RetTail Sort Prop
  with Stats_mind := Minimality for Stats Sort Prop
  with Stat_mind := Minimality for Stat Sort Prop
  with IfTail_mind := Minimality for IfTail Sort Prop
  with ForStep_mind := Minimality for ForStep Sort Prop
  with VarTail_mind := Minimality for VarTail Sort Prop
  with ExpList_mind := Minimality for ExpList Sort Prop
  with ExpTail_mind := Minimality for ExpTail Sort Prop
  with Exp_mind := Minimality for Exp Sort Prop
  with Operand_mind := Minimality for Operand Sort Prop
  with BinTail_mind := Minimality for BinTail Sort Prop
  with Simple_mind := Minimality for Simple Sort Prop
  with PrefixExp_mind := Minimality for PrefixExp Sort Prop
  with Suffixes_mind := Minimality for Suffixes Sort Prop
  with Args_mind := Minimality for Args Sort Prop
  with Table_mind := Minimality for Table Sort Prop
  with FieldTail_mind := Minimality for FieldTail Sort Prop
  with Field_mind := Minimality for Field Sort Prop
  with FuncBody_mind := Minimality for FuncBody Sort Prop.
Combined Scheme grammar_mind from Block_mind, RetTail_mind, Stats_mind, Stat_mind, IfTail_mind, ForStep_mind,
  VarTail_mind, ExpList_mind, ExpTail_mind, Exp_mind, Operand_mind, BinTail_mind, Simple_mind, PrefixExp_mind,
  Suffixes_mind, Args_mind, Table_mind, FieldTail_mind, Field_mind, FuncBody_mind.

Definition kind_of (e : exp) : pkind :=
  match e with EName _ _ => PName | EIndex _ _ _ => PIndex | ECall _ _ _ _ => PCall | _ => PParen end.

Section Complete.
  Variable classify : list N -> numcls.
  Notation len := (@length ltok).
  Notation p_block := (p_block classify).
  Notation p_block_loc := (p_block_loc classify).
  Notation p_block_loc_excl := (p_block_loc_excl classify).
  Notation p_stats := (p_stats classify).
  Notation p_stat := (p_stat classify).
  Notation p_assign_or_call := (p_assign_or_call classify).
  Notation p_if_tail := (p_if_tail classify).
  Notation p_varlist_tail := (p_varlist_tail classify).
  Notation p_explist := (p_explist classify).
  Notation p_explist_tail := (p_explist_tail classify).
  Notation p_subexp := (p_subexp classify).
  Notation p_binop_loop := (p_binop_loop classify).
  Notation p_exp0 := (p_exp0 classify).
  Notation p_prefixexp := (p_prefixexp classify).
  Notation p_finish_prefix := (p_finish_prefix classify).
  Notation p_args := (p_args classify).
  Notation p_table := (p_table classify).
  Notation p_fieldlist_tail := (p_fieldlist_tail classify).
  Notation p_field := (p_field classify).
  Notation p_funcdef := (p_funcdef classify).

  Notation "'ends' r e" := (fun _ st' => at_ st' r e) (at level 10, r at level 9, e at level 9, only parsing).

  Definition PBlock (ts r : list ltok) : Prop :=
    forall f st e, at_ st ts e -> post (p_block f st) (ends r e).
  Definition PRetTail (ts r : list ltok) : Prop :=
    forall f st e, at_ st ts e -> forall stats,
    post (if is_ret_end (hdk ts) then Ok (Ast.Block stats (Some []) zero_loc, st)
          else if tk_eqb (hdk ts) TkSepSemi then Ok (Ast.Block stats (Some []) zero_loc, next st)
          else match p_explist f st with
               | Ok (es, st3) => Ok (Ast.Block stats (Some es) zero_loc, if tk_eqb (la st3) TkSepSemi then next st3 else st3)
               | Fault fk => Fault fk
               | OutOfFuel => OutOfFuel
               end) (ends r e).
  Definition PStats (ts r : list ltok) : Prop :=
    forall f st e, at_ st ts e -> forall acc, post (p_stats f st acc) (ends r e).
  Definition PStat (ts r : list ltok) : Prop :=
    forall f st e, at_ st ts e -> post (p_stat f st) (ends r e).
  Definition PIfTail (ts r : list ltok) : Prop :=
    forall f st e, at_ st ts e -> forall es bs, post (p_if_tail f st es bs) (ends r e).
  Definition PForStep (ts r : list ltok) : Prop :=
    forall f st e, at_ st ts e ->
    post (if tk_eqb (hdk ts) TkSepComma then p_subexp f 0 (next st) else Ok (EInt 1 zero_loc, st)) (ends r e).
  Definition PVarTail (ts r : list ltok) : Prop :=
    forall f st e, at_ st ts e -> forall vars,
    post (p_varlist_tail f st vars None) (fun v st' => at_ st' r e /\ snd v = None).
  Definition PExpList (ts r : list ltok) : Prop :=
    forall f st e, at_ st ts e -> post (p_explist f st) (ends r e).
  Definition PExpTail (ts r : list ltok) : Prop :=
    forall f st e, at_ st ts e -> forall acc, post (p_explist_tail f st acc) (ends r e).
  Definition PExp (ts r : list ltok) : Prop :=
    forall f st e, at_ st ts e -> post (p_subexp f 0 st) (ends r e).
  Definition PPrefixExp (k : pkind) (ts r : list ltok) : Prop :=
    forall f st e, at_ st ts e -> post (p_prefixexp f st) (fun v st' => at_ st' r e /\ kind_of v = k).
  Definition PSuffixes (k0 : pkind) (ts : list ltok) (k : pkind) (r : list ltok) : Prop :=
    forall f st e, at_ st ts e -> forall e0 bl, kind_of e0 = k0 ->
    post (p_finish_prefix f e0 bl st) (fun v st' => at_ st' r e /\ kind_of v = k).
  Definition PArgs (ts r : list ltok) : Prop :=
    forall f st e, at_ st ts e -> post (p_args f st) (ends r e).
  Definition PTable (ts r : list ltok) : Prop :=
    forall f st e, at_ st ts e -> post (p_table f st) (ends r e).
  Definition PFieldTail (ts r : list ltok) : Prop :=
    forall f st e, at_ st ts e -> forall ks vs, post (p_fieldlist_tail f st ks vs) (ends r e).
  Definition PField (ts r : list ltok) : Prop :=
    forall f st e, at_ st ts e -> post (p_field f st) (ends r e).
  Definition PFuncBody (ts r : list ltok) : Prop :=
    forall f st e, at_ st ts e -> forall bl, post (p_funcdef f bl st) (ends r e).

  Lemma pblock_loc ts r : PBlock ts r ->
    forall f st e, at_ st ts e -> post (p_block_loc f st) (ends r e).
  Proof.
    intros C f st e A. destruct f; [exact I|]. rewrite block_loc_eq.
    pose proof (C f st e A) as P. destruct (p_block f st) as [[v s]|k|]; [|exact I|exact I]. exact P.
  Qed.
  Lemma pblock_loc_excl ts r : PBlock ts r ->
    forall f st e, at_ st ts e -> post (p_block_loc_excl f st) (ends r e).
  Proof.
    intros C f st e A. destruct f; [exact I|]. rewrite block_loc_excl_eq.
    pose proof (C f st e A) as P. destruct (p_block f st) as [[v s]|k|]; [|exact I|exact I]. exact P.
  Qed.

  Ltac prep :=
    repeat match goal with
           | H : PBlock _ _ |- _ =>
             pose proof (pblock_loc _ _ H); pose proof (pblock_loc_excl _ _ H); unfold PBlock in H
           | H : FuncName _ _ |- _ => let P := fresh "Hq" in pose proof (q_funcname _ _ H) as P; clear H
           | H : NameList _ _ |- _ => let r1 := fresh "rn" in let H1 := fresh "Hn" in let H2 := fresh "Hm" in
                                      destruct H as (r1 & H1 & H2);
                                      let P := fresh "Hq" in pose proof (q_namelist_tail _ _ H2) as P
           | H : ParList _ _ |- _ => let P := fresh "Hq" in pose proof (q_parlist _ _ H) as P; clear H
           end;
    unfold PRetTail, PStats, PStat, PIfTail, PForStep, PVarTail, PExpList, PExpTail, PExp, PPrefixExp,
      PSuffixes, PArgs, PTable, PFieldTail, PField, PFuncBody in *.

  Ltac innermost x k := lazymatch x with | match ?y with _ => _ end => innermost y k | _ => k x end.
  Ltac use_ih :=
    match goal with C : _ |- _ => solve [eapply C; first [eassumption | reflexivity]] end.
  Ltac splitP P :=
    cbn [post] in P;
    repeat match type of P with _ /\ _ => let P2 := fresh "K" in destruct P as [P P2] end.
  Ltac docall z :=
    let P := fresh "P" in
    eassert (P : post z _) by use_ih;
    let v := fresh "v" in let s := fresh "s" in let Ev := fresh "Ev" in
    destruct z as [[v s]|?|] eqn:Ev; [splitP P; cbv beta iota zeta | exact I | exact I].
  Ltac try_scrut x :=
    first [ lazymatch x with match ?y with _ => _ end => try_scrut y end
          | is_var x; lazymatch type of x with prod _ _ => destruct x end
          | lazymatch type of x with Res _ => docall x end ].
  Ltac pend := cbn [post]; first [assumption | split; [assumption|]; first [assumption | reflexivity | eauto]].
  Ltac step :=
    first
      [ match goal with
        | A : at_ ?st ?ts _, H : T _ ?ts _ |- context [expect _ ?st] => eat H
        | A : at_ ?st ?ts _, H : T _ ?ts _ |- context [next ?st] => eat H
        end
      | progress (look; tkb)
      | progress cbn [stat_start_of exp0_start_of suffix_start_of is_block_end is_ret_end negb andb orb]
      | lazymatch goal with
        | |- post (Ok _) _ => pend
        | |- post (match ?x with _ => _ end) _ =>
          first [ try_scrut x | use_ih ]
        | |- post ?x _ => use_ih
        end ].
  Ltac rw_eq :=
    first [ rewrite block_eq | rewrite stats_eq | rewrite stat_eq | rewrite assign_or_call_eq | rewrite if_tail_eq
          | rewrite varlist_tail_eq | rewrite explist_eq | rewrite explist_tail_eq | rewrite subexp_eq
          | rewrite exp0_eq | rewrite prefixexp_eq | rewrite finish_prefix_eq | rewrite args_eq | rewrite table_eq
          | rewrite fieldlist_tail_eq | rewrite field_eq | rewrite funcdef_eq ].
  Ltac auto_case :=
    intros; prep; intros f st e A; intros;
    (destruct f as [|f']; [exact I|]); rw_eq; repeat step.
  Ltac auto_case0 :=
    intros; prep; intros f st e A; intros; repeat step.


  Ltac start := intros; prep; intros f st e A; intros.
  Ltac start1 := intros; prep; intros f st e A; intros; (destruct f as [|f']; [exact I|]); rw_eq.

  Lemma c_B_ret : forall ts r1 r2 r : list ltok,
  Stats classify ts r1 ->
  PStats ts r1 ->
  T TkKwReturn r1 r2 -> RetTail classify r2 r -> PRetTail r2 r -> PBlock ts r.
  Proof.
    start1. repeat step.
  Qed.
  Lemma c_R_none : forall ts : list ltok, block_follow (hdk ts) = true -> PRetTail ts ts.
  Proof.
    start. rewrite is_ret_end_follow, H. pend.
  Qed.
  Lemma c_R_exps : forall ts r : list ltok,
 ExpList classify ts r ->
 PExpList ts r -> hdk r <> TkSepSemi -> PRetTail ts r.
  Proof.
    start. pose proof (explist_first _ _ _ H) as F. apply exp_first_cases in F.
    destruct F as (F1 & F2 & F3 & F4 & F5 & F6).
    rewrite is_ret_end_follow, F5. tkb. repeat step.
  Qed.
  Lemma c_R_exps_semi : forall ts r1 r : list ltok,
 ExpList classify ts r1 ->
 PExpList ts r1 -> T TkSepSemi r1 r -> PRetTail ts r.
  Proof.
    start. pose proof (explist_first _ _ _ H) as F. apply exp_first_cases in F.
    destruct F as (F1 & F2 & F3 & F4 & F5 & F6).
    rewrite is_ret_end_follow, F5. tkb. repeat step.
  Qed.
  Lemma c_Ss_nil : forall ts : list ltok,
 block_follow (hdk ts) = true \/ hdk ts = TkKwReturn -> PStats ts ts.
  Proof.
    start1. look. rewrite is_block_end_follow.
    assert (E : block_follow (hdk ts) || tk_eqb (hdk ts) TkKwReturn = true).
    { destruct H as [H|H]; rewrite H; [reflexivity|]. rewrite tk_eqb_refl. apply orb_true_r. }
    rewrite E. pend.
  Qed.
  Lemma c_Ss_cons : forall ts r1 r : list ltok,
 Stat classify ts r1 ->
 PStat ts r1 -> Stats classify r1 r -> PStats r1 r -> PStats ts r.
  Proof.
    start1. look. rewrite (stat_first _ _ _ H). repeat step.
  Qed.

  Lemma c_St_fornum : forall ts r1 r2 r3 r4 r5 r6 r7 r8 r9 r : list ltok,
 T TkKwFor ts r1 ->
 T TkIdentifier r1 r2 ->
 T TkOpAssign r2 r3 ->
 Exp classify r3 r4 ->
 PExp r3 r4 ->
 T TkSepComma r4 r5 ->
 Exp classify r5 r6 ->
 PExp r5 r6 ->
 ForStep classify r6 r7 ->
 PForStep r6 r7 ->
 T TkKwDo r7 r8 ->
 Block classify r8 r9 -> PBlock r8 r9 -> T TkKwEnd r9 r -> PStat ts r.
  Proof.
    start1. repeat step.
  Qed.

  Lemma nametail_first ts r : NameTail ts r -> hdk ts = TkSepComma \/ ts = r.
  Proof. intros H; inversion H; subst; [right; reflexivity | left; eapply T_hdk; eauto]. Qed.

  Lemma c_St_forin : forall ts r1 r2 r3 r4 r5 r6 r : list ltok,
  T TkKwFor ts r1 ->
  NameList r1 r2 ->
  T TkKwIn r2 r3 ->
  ExpList classify r3 r4 ->
  PExpList r3 r4 ->
  T TkKwDo r4 r5 ->
  Block classify r5 r6 -> PBlock r5 r6 -> T TkKwEnd r6 r -> PStat ts r.
  Proof.
    start1.
    assert (N : hdk rn <> TkOpAssign).
    { destruct (nametail_first _ _ Hm) as [E|E]; [rewrite E; discriminate | subst rn].
      rewrite (T_hdk _ _ _ H1). discriminate. }
    repeat step.
  Qed.

  Lemma c_St_function : forall ts r1 r2 r : list ltok,
 T TkKwFunction ts r1 ->
 FuncName r1 r2 -> FuncBody classify r2 r -> PFuncBody r2 r -> PStat ts r.
  Proof. start1. repeat step. Qed.

  Lemma attnamelist_run n r1 r : AttNameList n r1 r -> n <= 1 ->
    forall f st e, at_ st r1 e ->
    hdk r1 = TkIdentifier /\
    post (let '(a0, st3) := p_local_attr (expect TkIdentifier st) in
          p_local_namelist_tail f st3 match a0 with AttrClose => true | _ => false end
             [now_str (expect TkIdentifier st)] [now_loc (expect TkIdentifier st)] [a0])
         (fun _ st' => at_ st' r e).
  Proof.
    intros (c & m & ra & rb & H1 & H2 & H3 & ->) Hn f st e A. split; [eapply T_hdk; eauto|].
    eat H1. destruct (c_local_attr _ _ _ H2) as [_ C2].
    destruct (C2 _ _ A0) as (a & st' & Ea & A' & Hc & Hc1). rewrite Ea.
    apply (q_local_namelist_tail _ _ _ H3); [assumption | lia |].
    intros Hs. destruct a; try discriminate. assert (c = 1) by (apply Hc; reflexivity). lia.
  Qed.

  Lemma c_St_local : forall (ts r1 : list ltok) (n : nat) (r : list ltok),
 T TkKwLocal ts r1 ->
 AttNameList n r1 r -> n <= 1 -> hdk r <> TkOpAssign -> PStat ts r.
  Proof.
    start1. step. step. step.
    destruct (attnamelist_run _ _ _ H0 H1 f' _ _ A0) as [Hk P]. rewrite Hk. tkb.
    destruct (p_local_attr (expect TkIdentifier st0)) as [a0 st3].
    destruct (p_local_namelist_tail _ _ _ _ _ _) as [[[[nm lc] at0] s]|?|]; [|exact I|exact I].
    cbn [post] in P. repeat step.
  Qed.

  Lemma c_St_local_init : forall (ts r1 : list ltok) (n : nat) (r2 r3 r : list ltok),
 T TkKwLocal ts r1 ->
 AttNameList n r1 r2 ->
 n <= 1 ->
 T TkOpAssign r2 r3 -> ExpList classify r3 r -> PExpList r3 r -> PStat ts r.
  Proof.
    start1. step. step. step.
    destruct (attnamelist_run _ _ _ H0 H1 f' _ _ A0) as [Hk P]. rewrite Hk. tkb.
    destruct (p_local_attr (expect TkIdentifier st0)) as [a0 st3].
    destruct (p_local_namelist_tail _ _ _ _ _ _) as [[[[nm lc] at0] s]|?|]; [|exact I|exact I].
    cbn [post] in P. repeat step.
  Qed.

  Lemma stat_other ts k r : PrefixExp classify k ts r -> stat_start_of (hdk ts) = StOther.
  Proof. intros H. destruct (prefix_first _ _ _ _ H) as [E|E]; rewrite E; reflexivity. Qed.

  Lemma c_St_call : forall ts r : list ltok,
 PrefixExp classify PCall ts r -> PPrefixExp PCall ts r -> PStat ts r.
  Proof.
    start1. look. rewrite (stat_other _ _ _ H).
    destruct f' as [|f']; [exact I|]. rw_eq. step.
    destruct v; try discriminate. pend.
  Qed.

  Lemma c_St_assign : forall (ts : list ltok) (k : pkind) (r1 r2 r3 r : list ltok),
 PrefixExp classify k ts r1 ->
 PPrefixExp k ts r1 ->
 assignable k ->
 VarTail classify r1 r2 ->
 PVarTail r1 r2 ->
 T TkOpAssign r2 r3 -> ExpList classify r3 r -> PExpList r3 r -> PStat ts r.
  Proof.
    start1. look. rewrite (stat_other _ _ _ H).
    destruct f' as [|f']; [exact I|]. rw_eq. step.
    assert (V : is_var_like v = true /\ match v with EBad _ => False | ECall _ _ _ _ => False | _ => True end).
    { destruct H1 as [E|E]; rewrite E in K; destruct v; try discriminate; split; auto. }
    destruct V as [V1 V2].
    destruct v; try contradiction; try discriminate; cbn [is_var_like]; repeat step; cbn [snd] in *; subst; repeat step.
  Qed.

  Lemma c_VT_cons : forall (ts r1 : list ltok) (k : pkind) (r2 r : list ltok),
 T TkSepComma ts r1 ->
 PrefixExp classify k r1 r2 ->
 PPrefixExp k r1 r2 ->
 assignable k -> VarTail classify r2 r -> PVarTail r2 r -> PVarTail ts r.
  Proof.
    start1. repeat step.
    assert (V : is_var_like v = true).
    { destruct H2 as [E|E]; rewrite E in K; destruct v; try discriminate; auto. }
    rewrite V. repeat step.
  Qed.

  Lemma kind_parens v l : kind_of (if keeps_parens v then EParens v l else v) = PParen.
  Proof. destruct v; reflexivity. Qed.

  Lemma c_Px_paren : forall (ts r1 r2 r3 : list ltok) (k : pkind) (r : list ltok),
 T TkSepLparen ts r1 ->
 Exp classify r1 r2 ->
 PExp r1 r2 ->
 T TkSepRparen r2 r3 ->
 Suffixes classify PParen r3 k r ->
 PSuffixes PParen r3 k r -> PPrefixExp k ts r.
  Proof. start1. repeat step. apply H4; [assumption | apply kind_parens]. Qed.

  Lemma c_Sx_end : forall (k : pkind) (ts : list ltok),
 starts_suffix (hdk ts) = false -> PSuffixes k ts k ts.
  Proof. start1. look. apply suffix_none in H. rewrite H. pend. Qed.

  Lemma c_Sx_call : forall (k0 : pkind) (ts r1 : list ltok) (k : pkind) (r : list ltok),
 Args classify ts r1 ->
 PArgs ts r1 ->
 Suffixes classify PCall r1 k r ->
 PSuffixes PCall r1 k r -> PSuffixes k0 ts k r.
  Proof.
    start1. look.
    destruct (args_first _ _ _ H) as [E|[E|E]]; rewrite E; cbn [suffix_start_of]; tkb; repeat step.
  Qed.

  Lemma c_Ar_exps : forall ts r1 r2 r : list ltok,
 T TkSepLparen ts r1 ->
 ExpList classify r1 r2 -> PExpList r1 r2 -> T TkSepRparen r2 r -> PArgs ts r.
  Proof.
    start1. pose proof (explist_first _ _ _ H0) as F. apply exp_first_cases in F.
    destruct F as (F1 & F2). repeat step.
  Qed.

  Lemma c_Ar_table : forall ts r : list ltok, Table classify ts r -> PTable ts r -> PArgs ts r.
  Proof. start1. pose proof (table_first _ _ _ H) as F. repeat step. Qed.

  Lemma c_Tb_fields : forall ts r1 r2 r3 r : list ltok,
 T TkSepLcurly ts r1 ->
 Field classify r1 r2 ->
 PField r1 r2 ->
 FieldTail classify r2 r3 ->
 PFieldTail r2 r3 -> T TkSepRcurly r3 r -> PTable ts r.
  Proof.
    start1.
    assert (F : hdk r1 <> TkSepRcurly).
    { destruct (field_first _ _ _ H0) as [F|F]; [rewrite F; discriminate|].
      apply exp_first_cases in F. tauto. }
    repeat step.
  Qed.

  Lemma sep_cond k : k = TkSepComma \/ k = TkSepSemi -> tk_eqb k TkSepComma || tk_eqb k TkSepSemi = true.
  Proof. intros [->| ->]; reflexivity. Qed.
  Lemma sep_not_eof k : k = TkSepComma \/ k = TkSepSemi -> k <> TkEOF.
  Proof. intros [->| ->]; discriminate. Qed.

  Lemma c_FT_sep_end : forall (ts : list ltok) (t : ltok) (r : list ltok),
 ts = t :: r ->
 kd t = TkSepComma \/ kd t = TkSepSemi ->
 hdk r = TkSepRcurly -> PFieldTail ts r.
  Proof.
    start1. subst ts. look. simpl hdk. rewrite (sep_cond _ H0).
    pose proof (T_of_hd t r) as HT. pose proof (sep_not_eof _ H0) as NE. repeat step.
  Qed.

  Lemma c_FT_sep_field : forall (ts : list ltok) (t : ltok) (r1 r2 r : list ltok),
 ts = t :: r1 ->
 kd t = TkSepComma \/ kd t = TkSepSemi ->
 Field classify r1 r2 ->
 PField r1 r2 ->
 FieldTail classify r2 r -> PFieldTail r2 r -> PFieldTail ts r.
  Proof.
    start1. subst ts. look. simpl hdk. rewrite (sep_cond _ H0).
    pose proof (T_of_hd t r1) as HT. pose proof (sep_not_eof _ H0) as NE.
    assert (F : hdk r1 <> TkSepRcurly).
    { destruct (field_first _ _ _ H1) as [F|F]; [rewrite F; discriminate|].
      apply exp_first_cases in F. tauto. }
    repeat step.
  Qed.

  (* a lone identifier followed by a token that neither continues a prefix expression nor is a binary operator *)
  Lemma subexp_single_name ts r1 : T TkIdentifier ts r1 -> starts_suffix (hdk r1) = false -> prio (hdk r1) = 0 ->
    forall f st e, at_ st ts e ->
    post (p_subexp f 0 st) (fun v st' => at_ st' r1 e /\ exists nm l, v = EName nm l).
  Proof.
    intros H S0 P0 f st e A.
    destruct f as [|f]; [exact I|]. rewrite subexp_eq. look. cbn [is_unop].
    destruct f as [|f]; [exact I|]. rewrite exp0_eq. look. cbn [exp0_start_of].
    destruct f as [|f]; [exact I|]. rewrite prefixexp_eq. look. tkb. eat H.
    destruct f as [|f]; [exact I|]. rewrite finish_prefix_eq. look. apply suffix_none in S0. rewrite S0.
    rewrite binop_loop_eq. look. rewrite P0. cbn. split; [assumption | eauto].
  Qed.

  Lemma c_Fd_name : forall ts r1 r2 r : list ltok,
 T TkIdentifier ts r1 ->
 T TkOpAssign r1 r2 -> Exp classify r2 r -> PExp r2 r -> PField ts r.
  Proof.
    start1. repeat step.
    pose proof (subexp_single_name _ _ H ltac:(rewrite (T_hdk _ _ _ H0); reflexivity)
                  ltac:(rewrite (T_hdk _ _ _ H0); reflexivity) f' st e A) as P.
    destruct (p_subexp f' 0 st) as [[v s]|?|]; [|exact I|exact I]. cbn [post] in P.
    destruct P as (P & nm & l & ->). repeat step.
  Qed.

  Lemma c_Fd_exp : forall ts r : list ltok,
 name_assign_ahead ts = false ->
 Exp classify ts r -> PExp ts r -> PField ts r.
  Proof.
    start1. pose proof (exp_first_ok _ _ _ H0) as F. apply exp_first_cases in F.
    destruct F as (F1 & F2 & F3 & F4). repeat step.
    destruct v; try pend.
    (* the expression is a bare name: then the field does not start with  Name '='  *)
    apply subexp_name in Ev. destruct Ev as [E1 E2]. subst s.
    pose proof A as A'. destruct A' as (R & Pe & W). destruct (wfl_hd _ W) as (t & r' & Ets).
    assert (Kt : kd t = TkIdentifier) by (rewrite la_hdk, R, Ets in E1; exact E1).
    assert (HT : T TkIdentifier ts r') by (exists t; auto).
    destruct (at_eat st ts e _ _ A HT ltac:(discriminate)) as (st1 & X1 & _ & A0 & _).
    rewrite X1 in *.
    assert (r' = r) by (destruct P as (Ra & _); destruct A0 as (Rb & _); congruence). subst r'.
    look. rewrite Ets in H. cbn [name_assign_ahead] in H. destruct r as [|t2 r2].
    - cbn [hdk]. tkb. pend.
    - rewrite Kt in H. change (tk_eqb TkIdentifier TkIdentifier) with true in H. cbn [andb] in H.
      cbn [hdk]. rewrite H. pend.
  Qed.

  Lemma c_FB : forall ts r1 r2 r3 r4 r : list ltok,
 T TkSepLparen ts r1 ->
 ParList r1 r2 ->
 T TkSepRparen r2 r3 ->
 Block classify r3 r4 -> PBlock r3 r4 -> T TkKwEnd r4 r -> PFuncBody ts r.
  Proof. start1. repeat step. Qed.

  Lemma c_E : forall ts r1 r : list ltok,
 Operand classify ts r1 ->
 OperandQ (QSimple classify) ts r1 ->
 BinTail classify r1 r -> OpsQ (QSimple classify) 0 r1 r -> PExp ts r.
  Proof.
    intros ts r1 r _ Ho _ Hops f st e A.
    destruct (qclimb classify f) as [C _]. eapply C; eauto. lia.
  Qed.
  Lemma c_Op_unop : forall (ts : list ltok) (t : ltok) (r1 r : list ltok),
 ts = t :: r1 ->
 unop (kd t) = true ->
 Operand classify r1 r ->
 OperandQ (QSimple classify) r1 r -> OperandQ (QSimple classify) ts r.
  Proof. intros. eapply OQ_unop; eauto. Qed.
  Lemma c_Op_simple : forall ts r : list ltok,
 Simple classify ts r ->
 QSimple classify ts r -> OperandQ (QSimple classify) ts r.
  Proof. intros. apply OQ_simple. assumption. Qed.
  Lemma c_BT_end : forall ts : list ltok,
 binop (hdk ts) = false -> OpsQ (QSimple classify) 0 ts ts.
  Proof. intros ts B. apply OpsQ_end. rewrite prio_binop in B. apply Nat.ltb_ge in B. exact B. Qed.
  Lemma c_BT_cons : forall (ts : list ltok) (t : ltok) (r1 r2 r : list ltok),
 ts = t :: r1 ->
 binop (kd t) = true ->
 Operand classify r1 r2 ->
 OperandQ (QSimple classify) r1 r2 ->
 BinTail classify r2 r ->
 OpsQ (QSimple classify) 0 r2 r -> OpsQ (QSimple classify) 0 ts r.
  Proof.
    intros ts t r1 r2 r E B _ Ho _ Hops. eapply OpsQ_cons; eauto.
    rewrite prio_binop in B. apply Nat.ltb_lt in B. exact B.
  Qed.

  Ltac simple_case C :=
    intros; split; [eapply C; eauto|]; prep; intros f st e A; (destruct f as [|f']; [exact I|]); rw_eq; repeat step.
  Lemma c_Si_nil : forall ts r : list ltok, T TkKwNil ts r -> QSimple classify ts r.
  Proof. simple_case Si_nil. Qed.
  Lemma c_Si_true : forall ts r : list ltok, T TkKwTrue ts r -> QSimple classify ts r.
  Proof. simple_case Si_true. Qed.
  Lemma c_Si_false : forall ts r : list ltok, T TkKwFalse ts r -> QSimple classify ts r.
  Proof. simple_case Si_false. Qed.
  Lemma c_Si_vararg : forall ts r : list ltok, T TkVararg ts r -> QSimple classify ts r.
  Proof. simple_case Si_vararg. Qed.
  Lemma c_Si_string : forall ts r : list ltok, T TkString ts r -> QSimple classify ts r.
  Proof. simple_case Si_string. Qed.
  Lemma c_Si_number : forall (ts : list ltok) (t : ltok) (r : list ltok),
 ts = t :: r -> kd t = TkNumber -> num_ok classify t -> QSimple classify ts r.
  Proof.
    intros ts t r E K Nok. split; [eapply Si_number; eauto|]. intros f st e A. subst ts.
    destruct f as [|f']; [exact I|]. rw_eq. look. cbn [hdk]. rewrite K. cbn [exp0_start_of].
    assert (HT : T TkNumber (t :: r) r) by (exists t; auto). eat HT.
    unfold now_str. rewrite (Nw _ _ eq_refl). unfold num_ok in Nok.
    destruct (classify (tstr (lt t))); try pend; exfalso; apply Nok; reflexivity.
  Qed.
  Lemma c_Si_table : forall ts r : list ltok,
 Table classify ts r -> PTable ts r -> QSimple classify ts r.
  Proof.
    intros ts r H C. split; [eapply Si_table; eauto|]. pose proof (table_first _ _ _ H) as F.
    prep; intros f st e A; (destruct f as [|f']; [exact I|]); rw_eq; repeat step.
  Qed.
  Lemma c_Si_function : forall ts r1 r : list ltok,
 T TkKwFunction ts r1 ->
 FuncBody classify r1 r -> PFuncBody r1 r -> QSimple classify ts r.
  Proof. simple_case Si_function. Qed.
  Lemma c_Si_prefix : forall (ts : list ltok) (k : pkind) (r : list ltok),
 PrefixExp classify k ts r -> PPrefixExp k ts r -> QSimple classify ts r.
  Proof.
    intros ts k r H C. split; [eapply Si_prefix; eauto|].
    assert (F : exp0_start_of (hdk ts) = E0Other).
    { destruct (prefix_first _ _ _ _ H) as [E|E]; rewrite E; reflexivity. }
    prep; intros f st e A; (destruct f as [|f']; [exact I|]); rw_eq. look. rewrite F.
    pose proof (C f' st e A) as P. destruct (p_prefixexp f' st) as [[v s]|?|]; [|exact I|exact I]. exact (proj1 P).
  Qed.
  Theorem complete_all :
    (forall ts r, Block classify ts r -> PBlock ts r) /\
    (forall ts r, RetTail classify ts r -> PRetTail ts r) /\
    (forall ts r, Stats classify ts r -> PStats ts r) /\
    (forall ts r, Stat classify ts r -> PStat ts r) /\
    (forall ts r, IfTail classify ts r -> PIfTail ts r) /\
    (forall ts r, ForStep classify ts r -> PForStep ts r) /\
    (forall ts r, VarTail classify ts r -> PVarTail ts r) /\
    (forall ts r, ExpList classify ts r -> PExpList ts r) /\
    (forall ts r, ExpTail classify ts r -> PExpTail ts r) /\
    (forall ts r, Exp classify ts r -> PExp ts r) /\
    (forall ts r, Operand classify ts r -> OperandQ (QSimple classify) ts r) /\
    (forall ts r, BinTail classify ts r -> OpsQ (QSimple classify) 0 ts r) /\
    (forall ts r, Simple classify ts r -> QSimple classify ts r) /\
    (forall k ts r, PrefixExp classify k ts r -> PPrefixExp k ts r) /\
    (forall k0 ts k r, Suffixes classify k0 ts k r -> PSuffixes k0 ts k r) /\
    (forall ts r, Args classify ts r -> PArgs ts r) /\
    (forall ts r, Table classify ts r -> PTable ts r) /\
    (forall ts r, FieldTail classify ts r -> PFieldTail ts r) /\
    (forall ts r, Field classify ts r -> PField ts r) /\
    (forall ts r, FuncBody classify ts r -> PFuncBody ts r).
  Proof.
    apply grammar_mind.
    all: try (first [exact c_B_ret | exact c_R_none | exact c_R_exps | exact c_R_exps_semi | exact c_Ss_nil | exact c_Ss_cons | exact c_St_fornum | exact c_St_forin | exact c_St_function | exact c_St_local | exact c_St_local_init | exact c_St_call | exact c_St_assign | exact c_VT_cons | exact c_Px_paren | exact c_Sx_end | exact c_Sx_call | exact c_Ar_exps | exact c_Ar_table | exact c_Tb_fields | exact c_FT_sep_end | exact c_FT_sep_field | exact c_Fd_name | exact c_Fd_exp | exact c_FB | exact c_E | exact c_Op_unop | exact c_Op_simple | exact c_BT_end | exact c_BT_cons | exact c_Si_nil | exact c_Si_true | exact c_Si_false | exact c_Si_vararg | exact c_Si_string | exact c_Si_number | exact c_Si_table | exact c_Si_function | exact c_Si_prefix]).
    all: try (solve [auto_case]).
    all: try (solve [auto_case0]).
  Qed.
End Complete.
