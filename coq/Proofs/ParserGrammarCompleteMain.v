(* C03, token level, completeness: the combined induction over the grammar. *)
From Coq Require Import List NArith ZArith Bool Lia.
From LH Require Import Base.Bytes Base.Res Model.Lexer Model.Ast Model.Parser Spec.LuaGrammar.
From LH Require Import Proofs.ParserGrammarBase Proofs.ParserGrammarMono Proofs.ParserGrammarFlat
     Proofs.ParserGrammarComplete.
Import ListNotations.
#[local] Opaque expect next err la.

Scheme Block_mind := Minimality for Block Sort Prop
  with RetTail_mind := Minimality for RetTail Sort Prop
  with Stats_mind := Minimality for Stats Sort Prop
  with Stat_mind := Minimality for Stat Sort Prop
  with IfTail_mind := Minimality for IfTail Sort Prop
  with ForStep_mind := Minimality for ForStep Sort Prop
  with VarTail_mind := Minimality for VarTail Sort Prop
  with ExpList_mind := Minimality for ExpList Sort Prop
  with ExpTail_mind := Minimality for ExpTail Sort Prop
  with Exp_mind := Minimality for Exp Sort Prop
  with Operand_mind := Minimality for Operand Sort Prop
  with BinTail_mind := Minimality for BinTail Sort Prop
  with Simple_mind := Minimality for Simple Sort Prop
  with PrefixExp_mind := Minimality for PrefixExp Sort Prop
  with Suffixes_mind := Minimality for Suffixes Sort Prop
  with Args_mind := Minimality for Args Sort Prop
  with Table_mind := Minimality for Table Sort Prop
  with FieldTail_mind := Minimality for FieldTail Sort Prop
  with Field_mind := Minimality for Field Sort Prop
  with FuncBody_mind := Minimality for FuncBody Sort Prop.
Combined Scheme grammar_mind from Block_mind, RetTail_mind, Stats_mind, Stat_mind, IfTail_mind, ForStep_mind,
  VarTail_mind, ExpList_mind, ExpTail_mind, Exp_mind, Operand_mind, BinTail_mind, Simple_mind, PrefixExp_mind,
  Suffixes_mind, Args_mind, Table_mind, FieldTail_mind, Field_mind, FuncBody_mind.

Definition kind_of (e : exp) : pkind :=
  match e with EName _ _ => PName | EIndex _ _ _ => PIndex | ECall _ _ _ _ => PCall | _ => PParen end.

Section Complete.
  Variable classify : list N -> numcls.
  Notation len := (@length ltok).
  Notation p_block := (p_block classify).
  Notation p_block_loc := (p_block_loc classify).
  Notation p_block_loc_excl := (p_block_loc_excl classify).
  Notation p_stats := (p_stats classify).
  Notation p_stat := (p_stat classify).
  Notation p_assign_or_call := (p_assign_or_call classify).
  Notation p_if_tail := (p_if_tail classify).
  Notation p_varlist_tail := (p_varlist_tail classify).
  Notation p_explist := (p_explist classify).
  Notation p_explist_tail := (p_explist_tail classify).
  Notation p_subexp := (p_subexp classify).
  Notation p_binop_loop := (p_binop_loop classify).
  Notation p_exp0 := (p_exp0 classify).
  Notation p_prefixexp := (p_prefixexp classify).
  Notation p_finish_prefix := (p_finish_prefix classify).
  Notation p_args := (p_args classify).
  Notation p_table := (p_table classify).
  Notation p_fieldlist_tail := (p_fieldlist_tail classify).
  Notation p_field := (p_field classify).
  Notation p_funcdef := (p_funcdef classify).

  Definition PBlock (ts r : list ltok) : Prop :=
    len r <= len ts /\
    forall f st e, at_ st ts e -> 8 * len ts + 5 <= f + 8 * len r ->
    exists v st', p_block f st = Ok (v, st') /\ at_ st' r e.
  Definition PRetTail (ts r : list ltok) : Prop :=
    len r <= len ts /\
    forall f st e, at_ st ts e -> 8 * len ts + 4 <= f + 8 * len r -> forall stats,
    exists v st',
      (if is_ret_end (la st) then Ok (Ast.Block stats (Some []) zero_loc, st)
       else if tk_eqb (la st) TkSepSemi then Ok (Ast.Block stats (Some []) zero_loc, next st)
       else match p_explist f st with
            | Ok (es, st3) => Ok (Ast.Block stats (Some es) zero_loc, if tk_eqb (la st3) TkSepSemi then next st3 else st3)
            | Fault fk => Fault fk
            | OutOfFuel => OutOfFuel
            end) = Ok (v, st') /\ at_ st' r e.
  Definition PStats (ts r : list ltok) : Prop :=
    len r <= len ts /\
    forall f st e, at_ st ts e -> 8 * len ts + 4 <= f + 8 * len r -> forall acc,
    exists v st', p_stats f st acc = Ok (v, st') /\ at_ st' r e.
  Definition PStat (ts r : list ltok) : Prop :=
    len r < len ts /\
    forall f st e, at_ st ts e -> 8 * len ts + 3 <= f + 8 * len r ->
    exists v st', p_stat f st = Ok (v, st') /\ at_ st' r e.
  Definition PIfTail (ts r : list ltok) : Prop :=
    len r <= len ts /\
    forall f st e, at_ st ts e -> 8 * len ts + 1 <= f + 8 * len r -> forall es bs,
    exists v st', p_if_tail f st es bs = Ok (v, st') /\ at_ st' r e.
  Definition PForStep (ts r : list ltok) : Prop :=
    len r <= len ts /\
    forall f st e, at_ st ts e -> 8 * len ts <= f + 8 * len r ->
    exists v st', (if tk_eqb (la st) TkSepComma then p_subexp f 0 (next st) else Ok (EInt 1 zero_loc, st))
                  = Ok (v, st') /\ at_ st' r e.
  Definition PVarTail (ts r : list ltok) : Prop :=
    len r <= len ts /\
    forall f st e, at_ st ts e -> 8 * len ts + 1 <= f + 8 * len r -> forall vars,
    exists v st', p_varlist_tail f st vars None = Ok (v, st') /\ at_ st' r e /\ snd v = None.
  Definition PExpList (ts r : list ltok) : Prop :=
    len r < len ts /\
    forall f st e, at_ st ts e -> 8 * len ts + 4 <= f + 8 * len r ->
    exists v st', p_explist f st = Ok (v, st') /\ at_ st' r e.
  Definition PExpTail (ts r : list ltok) : Prop :=
    len r <= len ts /\
    forall f st e, at_ st ts e -> 8 * len ts + 1 <= f + 8 * len r -> forall acc,
    exists v st', p_explist_tail f st acc = Ok (v, st') /\ at_ st' r e.
  Definition PExp (ts r : list ltok) : Prop :=
    len r < len ts /\
    forall f st e, at_ st ts e -> 8 * len ts + 3 <= f + 8 * len r ->
    exists v st', p_subexp f 0 st = Ok (v, st') /\ at_ st' r e.
  Definition PPrefixExp (k : pkind) (ts r : list ltok) : Prop :=
    len r < len ts /\
    forall f st e, at_ st ts e -> 8 * len ts + 1 <= f + 8 * len r ->
    exists v st', p_prefixexp f st = Ok (v, st') /\ at_ st' r e /\ kind_of v = k.
  Definition PSuffixes (k0 : pkind) (ts : list ltok) (k : pkind) (r : list ltok) : Prop :=
    len r <= len ts /\
    forall f st e, at_ st ts e -> 8 * len ts + 3 <= f + 8 * len r -> forall e0 bl, kind_of e0 = k0 ->
    exists v st', p_finish_prefix f e0 bl st = Ok (v, st') /\ at_ st' r e /\ kind_of v = k.
  Definition PArgs (ts r : list ltok) : Prop :=
    len r < len ts /\
    forall f st e, at_ st ts e -> 8 * len ts + 2 <= f + 8 * len r ->
    exists v st', p_args f st = Ok (v, st') /\ at_ st' r e.
  Definition PTable (ts r : list ltok) : Prop :=
    len r < len ts /\
    forall f st e, at_ st ts e -> 8 * len ts + 1 <= f + 8 * len r ->
    exists v st', p_table f st = Ok (v, st') /\ at_ st' r e.
  Definition PFieldTail (ts r : list ltok) : Prop :=
    len r <= len ts /\
    forall f st e, at_ st ts e -> 8 * len ts + 1 <= f + 8 * len r -> forall ks vs,
    exists v st', p_fieldlist_tail f st ks vs = Ok (v, st') /\ at_ st' r e.
  Definition PField (ts r : list ltok) : Prop :=
    len r < len ts /\
    forall f st e, at_ st ts e -> 8 * len ts + 4 <= f + 8 * len r ->
    exists v st', p_field f st = Ok (v, st') /\ at_ st' r e.
  Definition PFuncBody (ts r : list ltok) : Prop :=
    len r < len ts /\
    forall f st e, at_ st ts e -> 8 * len ts + 1 <= f + 8 * len r -> forall bl,
    exists v st', p_funcdef f bl st = Ok (v, st') /\ at_ st' r e.

  Lemma pblock_loc ts r : PBlock ts r ->
    forall f st e, at_ st ts e -> 8 * len ts + 6 <= f + 8 * len r ->
    exists v st', p_block_loc f st = Ok (v, st') /\ at_ st' r e.
  Proof.
    intros [L C] f st e A B. destruct f; [lia|]. rewrite block_loc_eq.
    edestruct (C f st e A) as (v & st' & Ev & A'); [lia|]. rewrite Ev. fin.
  Qed.
  Lemma pblock_loc_excl ts r : PBlock ts r ->
    forall f st e, at_ st ts e -> 8 * len ts + 6 <= f + 8 * len r ->
    exists v st', p_block_loc_excl f st = Ok (v, st') /\ at_ st' r e.
  Proof.
    intros [L C] f st e A B. destruct f; [lia|]. rewrite block_loc_excl_eq.
    edestruct (C f st e A) as (v & st' & Ev & A'); [lia|]. rewrite Ev. fin.
  Qed.

  (* split the induction hypotheses, record the lengths of terminals *)
  Ltac prep :=
    repeat match goal with
           | H : PBlock _ _ |- _ =>
             pose proof (pblock_loc _ _ H); pose proof (pblock_loc_excl _ _ H); unfold PBlock in H
           | H : FuncName _ _ |- _ => apply c_funcname in H
           | H : NameList _ _ |- _ => let r1 := fresh "r" in let H1 := fresh "H" in let H2 := fresh "H" in
                                      destruct H as (r1 & H1 & H2); apply c_namelist_tail in H2
           | H : ParList _ _ |- _ => apply c_parlist in H
           end;
    unfold PRetTail, PStats, PStat, PIfTail, PForStep, PVarTail, PExpList, PExpTail, PExp, PPrefixExp,
      PSuffixes, PArgs, PTable, PFieldTail, PField, PFuncBody in *;
    repeat match goal with H : _ /\ _ |- _ => destruct H end;
    repeat match goal with H : T _ ?a ?b |- _ =>
                           lazymatch goal with _ : len a = S (len b) |- _ => fail | _ => pose proof (T_len _ _ _ H) end
           end.

  (* one step of symbolic execution at fuel f' *)
  Ltac step f' :=
    first
      [ match goal with
        | A : at_ ?st0 ?ts ?e0, C : forall f st e, at_ st ?ts e -> _ |- _ =>
          let v := fresh "v" in let st' := fresh "st" in let Ev := fresh "Ev" in let A' := fresh "A" in
          edestruct (C f' st0 e0 A) as (v & st' & Ev & A'); [lia | .. | rewrite Ev; clear Ev C]
        end
      | match goal with
        | A : at_ ?st ?ts _, H : T _ ?ts _ |- context [expect _ ?st] => eat H
        | A : at_ ?st ?ts _, H : T _ ?ts _ |- context [next ?st] => eat H
        end
      | progress (look; tkb)
      | progress cbn [stat_start_of exp0_start_of suffix_start_of is_block_end is_ret_end negb andb orb] ].
  Ltac rw_eq :=
    first [ rewrite block_eq | rewrite stats_eq | rewrite stat_eq | rewrite assign_or_call_eq | rewrite if_tail_eq
          | rewrite varlist_tail_eq | rewrite explist_eq | rewrite explist_tail_eq | rewrite subexp_eq
          | rewrite exp0_eq | rewrite prefixexp_eq | rewrite finish_prefix_eq | rewrite args_eq | rewrite table_eq
          | rewrite fieldlist_tail_eq | rewrite field_eq | rewrite funcdef_eq ].
  Ltac auto_case :=
    intros; prep; split; [lia|]; intros f st e A B; intros;
    (destruct f as [|f']; [lia|]); rw_eq; repeat (step f'); fin.
  Ltac auto_case0 :=
    intros; prep; split; [lia|]; intros f st e A B; intros; repeat (step f); fin.

  Theorem complete_all :
    (forall ts r, Block classify ts r -> PBlock ts r) /\
    (forall ts r, RetTail classify ts r -> PRetTail ts r) /\
    (forall ts r, Stats classify ts r -> PStats ts r) /\
    (forall ts r, Stat classify ts r -> PStat ts r) /\
    (forall ts r, IfTail classify ts r -> PIfTail ts r) /\
    (forall ts r, ForStep classify ts r -> PForStep ts r) /\
    (forall ts r, VarTail classify ts r -> PVarTail ts r) /\
    (forall ts r, ExpList classify ts r -> PExpList ts r) /\
    (forall ts r, ExpTail classify ts r -> PExpTail ts r) /\
    (forall ts r, Exp classify ts r -> PExp ts r) /\
    (forall ts r, Operand classify ts r -> OperandQ (PSimple classify) ts r) /\
    (forall ts r, BinTail classify ts r -> OpsQ (PSimple classify) 0 ts r) /\
    (forall ts r, Simple classify ts r -> PSimple classify ts r) /\
    (forall k ts r, PrefixExp classify k ts r -> PPrefixExp k ts r) /\
    (forall k0 ts k r, Suffixes classify k0 ts k r -> PSuffixes k0 ts k r) /\
    (forall ts r, Args classify ts r -> PArgs ts r) /\
    (forall ts r, Table classify ts r -> PTable ts r) /\
    (forall ts r, FieldTail classify ts r -> PFieldTail ts r) /\
    (forall ts r, Field classify ts r -> PField ts r) /\
    (forall ts r, FuncBody classify ts r -> PFuncBody ts r).
  Proof.
    apply grammar_mind.
    all: try (solve [auto_case]).
    all: try (solve [auto_case0]).
    Show.
