(* C19 - globals, lexical version: a name that is an assignment target at a place where no enclosing `local`,
   parameter or loop variable of that name is in scope is a key of the global table.
   `asgU_* nm` = "nm is assigned at a visited place where nm is not lexically bound"; the scoping is the one of Lua,
   except for one pessimistic corner: in `local a, b = e0, e1, ...` the values after the first are treated as if the
   declared names were already in scope when one of them is nm (LuaHelper adds each name before it analyses the next
   value).  Uses: frames are restored by nested constructs (SymbolsSig.all_sig), the global table only grows
   (SymbolsGlobals.all_g with the trivial predicates). *)
From Coq Require Import List NArith ZArith Bool Lia ZifyBool.
From LH Require Import Base.Bytes Base.Res Model.Lexer Model.Ast Model.Symbols Spec.SymbolSpec
  Proofs.SymbolsRange Proofs.SymbolsLocs Proofs.SymbolsMerge Proofs.SymbolsSig Proofs.SymbolsGlobals.
Import ListNotations.

Definition any_name : bytes -> bool := fun _ => true.
Definition any_target : gtriple -> bool := fun _ => true.
Definition not_named (nm : bytes) : bytes -> bool := fun k => negb (beq_bytes k nm).

(* shape of the tree (parser invariants): as many values as keys in a table constructor, as many blocks as
   conditions in an if statement *)
Definition shp_exp := chk_exp any_name any_target.
Definition shp_stat := chk_stat any_name any_target.
Definition shp_block := chk_block any_name any_target.

Section Lex.
  Variable nm : bytes.
  Definition has_nm (l : list bytes) : bool := existsb (beq_bytes nm) l.

  Definition binds (st : stat) : bool :=
    match st with
    | SLocal nms _ _ _ _ => has_nm nms
    | SLocalFunc n _ _ _ => beq_bytes nm n
    | _ => false
    end.

  Fixpoint asgU_exp (e : exp) {struct e} : bool :=
    match e with
    | EUnop _ e1 _ | EParens e1 _ => asgU_exp e1
    | EBinop _ e1 e2 _ | EIndex e1 e2 _ => asgU_exp e1 || asgU_exp e2
    | ETable ks vs _ => existsb (fun k => match k with Some ke => asgU_exp ke | None => false end) ks || existsb asgU_exp vs
    | EFunc _ _ pars _ b _ _ _ => if has_nm pars then false else asgU_block b
    | ECall p _ args _ => asgU_exp p || existsb asgU_exp args
    | _ => false
    end
  with asgU_stat (s : stat) {struct s} : bool :=
    match s with
    | SBreak | SLabel _ _ | SGoto _ _ => false
    | SDo b _ => asgU_block b
    | SCall e => asgU_exp e
    | SIf es bs _ => existsb asgU_exp es || existsb asgU_block bs
    | SWhile e b _ => asgU_exp e || asgU_block b
    | SRepeat b e _ =>
      asgU_block b || (if existsb binds (block_stats b) then false else asgU_exp e)
    | SForNum n _ e1 e2 e3 b _ => asgU_exp e1 || asgU_exp e2 || asgU_exp e3 || (if beq_bytes nm n then false else asgU_block b)
    | SForIn nms _ es b _ => existsb asgU_exp es || (if has_nm nms then false else asgU_block b)
    | SAssign vars es _ =>
      existsb (fun t => match t with
                        | EName k _ => beq_bytes nm k
                        | EIndex p k _ => g_is nm p k || asgU_exp p || asgU_exp k
                        | _ => false
                        end) vars || existsb asgU_exp es
    | SLocal _ _ _ es _ => existsb asgU_exp es     (* every value is analysed, and before any name of the statement is
                                                      added (fixes/C07-multi-local-order.diff, C20-local-surplus.diff) *)
    | SLocalFunc n _ f _ => if beq_bytes nm n then false else asgU_exp f
    end
  with asgU_block (b : block) {struct b} : bool :=
    match b with
    | Block ss ret _ =>
      (fix go (ss : list stat) {struct ss} : bool :=
         match ss with
         | [] => match ret with Some es => existsb asgU_exp es | None => false end
         | st :: ss' => asgU_stat st || (if binds st then false else go ss')
         end) ss
    end.

  Definition asgU_stats (ss : list stat) (ret : option (list exp)) : bool :=
    (fix go (ss : list stat) {struct ss} : bool :=
       match ss with
       | [] => match ret with Some es => existsb asgU_exp es | None => false end
       | st :: ss' => asgU_stat st || (if binds st then false else go ss')
       end) ss.
  Lemma asgU_stats_nil : forall ret, asgU_stats [] ret = match ret with Some es => existsb asgU_exp es | None => false end.
  Proof. reflexivity. Qed.
  Lemma asgU_stats_cons : forall st ss ret,
      asgU_stats (st :: ss) ret = asgU_stat st || (if binds st then false else asgU_stats ss ret).
  Proof. reflexivity. Qed.

  Definition asgU_target (t : exp) : bool :=
    match t with
    | EName k _ => beq_bytes nm k
    | EIndex p k _ => g_is nm p k || asgU_exp p || asgU_exp k
    | _ => false
    end.

  Lemma asgU_block_unfold : forall ss ret l, asgU_block (Block ss ret l) = asgU_stats ss ret.
  Proof.
    intros ss ret l. reflexivity.
  Qed.

  Lemma asgU_stat_local : forall nms ls at_ es l, asgU_stat (SLocal nms ls at_ es l) = existsb asgU_exp es.
  Proof. reflexivity. Qed.

  Lemma asgU_func : forall c f pars pl b l v co, asgU_exp (EFunc c f pars pl b l v co) = if has_nm pars then false else asgU_block b.
  Proof. reflexivity. Qed.
  Lemma asgU_stat_repeat : forall b e l,
      asgU_stat (SRepeat b e l) = asgU_block b || (if existsb binds (block_stats b) then false else asgU_exp e).
  Proof. reflexivity. Qed.
  Lemma asgU_stat_fornum : forall n vl e1 e2 e3 b l,
      asgU_stat (SForNum n vl e1 e2 e3 b l) =
      asgU_exp e1 || asgU_exp e2 || asgU_exp e3 || (if beq_bytes nm n then false else asgU_block b).
  Proof. reflexivity. Qed.
  Lemma asgU_stat_forin : forall nms ls es b l,
      asgU_stat (SForIn nms ls es b l) = existsb asgU_exp es || (if has_nm nms then false else asgU_block b).
  Proof. reflexivity. Qed.
  Lemma asgU_stat_localfunc : forall n nl f l, asgU_stat (SLocalFunc n nl f l) = if beq_bytes nm n then false else asgU_exp f.
  Proof. reflexivity. Qed.
  Lemma asgU_stat_assign : forall vars es l,
      asgU_stat (SAssign vars es l) = existsb asgU_target vars || existsb asgU_exp es.
  Proof. reflexivity. Qed.
  Lemma asgU_stat_if : forall es bs l, asgU_stat (SIf es bs l) = existsb asgU_exp es || existsb asgU_block bs.
  Proof. reflexivity. Qed.
  Lemma asgU_stat_while : forall e b l, asgU_stat (SWhile e b l) = asgU_exp e || asgU_block b.
  Proof. reflexivity. Qed.

  (* ---------------------------------------------------------------- state predicates *)
  Definition Kn (s : state) : Prop := Kinv (not_named nm) s.        (* no frame of the scope chain has the key nm *)
  Definition M (s : state) : Prop := assoc_mem nm (globs s) = true.

  Lemma pre_any : forall s, pre any_name any_target s.
  Proof.
    intros s. split.
    - unfold Kinv. apply Forall_forall. intros fr _ k _. reflexivity.
    - intros kv _. reflexivity.
  Qed.

  Lemma pre_Kn : forall s, Kn s -> pre (not_named nm) any_target s.
  Proof. intros s H. split; [exact H | intros kv _; reflexivity]. Qed.

  Lemma post_any_M : forall s s' A, post any_name any_target s s' A -> M s -> M s'.
  Proof. intros s s' A [_ [Hm _]] H. apply Hm. exact H. Qed.

  Lemma not_named_self : not_named nm nm = false.
  Proof. unfold not_named. rewrite bb_refl. reflexivity. Qed.

  Lemma not_named_other : forall k, beq_bytes nm k = false -> not_named nm k = true.
  Proof.
    intros k H. unfold not_named. destruct (beq_bytes k nm) eqn:E; [|reflexivity].
    apply beq_bytes_eq in E. subst k. rewrite bb_refl in H. discriminate.
  Qed.

  Lemma not_named_all : forall l, has_nm l = false -> forallb (not_named nm) l = true.
  Proof.
    induction l as [|k l IH]; intros H; [reflexivity|]. cbn [has_nm existsb] in H. apply orb_false_elim in H.
    destruct H as [H1 H2]. cbn [forallb]. rewrite (not_named_other _ H1). apply IH. exact H2.
  Qed.

  (* Kn depends on the frame signatures only *)
  Lemma Kn_esig : forall s s', esig (env s') = esig (env s) -> Kn s -> Kn s'.
  Proof.
    intros s s' He H. unfold Kn, Kinv in *. revert He H. generalize (env s) (env s').
    induction l as [|fr e IH]; intros [|fr' e'] He H; try discriminate; [constructor|].
    cbn [esig map] in He. injection He as Hf He. inversion H as [|? ? H1 H2]; subst.
    constructor; [|apply IH; assumption].
    intros k Hk. apply H1. unfold fsig in Hf.
    assert (Hkeys : map fst (s_vars fr') = map fst (s_vars fr)).
    { apply (f_equal (map fst)) in Hf. rewrite !map_map in Hf. cbn [fst] in Hf. exact Hf. }
    rewrite <- Hkeys. exact Hk.
  Qed.

  (* ---------------------------------------------------------------- statements, for an abstract cgExp *)
  Definition ce_u (ce : exp -> pvar -> state -> Res r3) : Prop :=
    forall e pv s s' ofn pv', shp_exp e = true -> Kn s -> ce e pv s = Ok (s', ofn, pv') -> asgU_exp e = true -> M s'.

  Section StatU.
    Variable ce : exp -> pvar -> state -> Res r3.
    Variable flv slv : N.
    Hypothesis Hu : ce_u ce.
    Hypothesis Hsig : ce_sig ce.
    Hypothesis Hg : ce_g any_name any_target ce.

    Lemma ceK : forall e pv s s' ofn pv', ce e pv s = Ok (s', ofn, pv') -> Kn s -> Kn s'.
    Proof. intros e pv s s' ofn pv' H. apply Hsig in H. destruct H as [H _]. apply Kn_esig. exact H. Qed.
    Lemma ceM : forall e pv s s' ofn pv', shp_exp e = true -> ce e pv s = Ok (s', ofn, pv') -> M s -> M s'.
    Proof. intros e pv s s' ofn pv' He H. eapply post_any_M. eapply Hg; [exact He | apply pre_any | exact H]. Qed.

    Lemma nilK : forall e s s', ce_nil ce e s = Ok s' -> Kn s -> Kn s'.
    Proof. intros e s s' H. unfold ce_nil in H. apply drop3_ok in H. destruct H as [f [p H]]. eapply ceK; exact H. Qed.
    Lemma nilM : forall e s s', shp_exp e = true -> ce_nil ce e s = Ok s' -> M s -> M s'.
    Proof. intros e s s' He H. unfold ce_nil in H. apply drop3_ok in H. destruct H as [f [p H]]. eapply ceM; eauto. Qed.
    Lemma nilU : forall e s s', shp_exp e = true -> Kn s -> ce_nil ce e s = Ok s' -> asgU_exp e = true -> M s'.
    Proof. intros e s s' He Hk H. unfold ce_nil in H. apply drop3_ok in H. destruct H as [f [p H]]. eapply Hu; eauto. Qed.

    Lemma cg_table_u : forall ks vs pv s s' pv',
        length ks = length vs ->
        forallb (fun k => match k with Some ke => shp_exp ke | None => true end) ks = true ->
        forallb shp_exp vs = true -> Kn s ->
        cg_table ce ks vs pv s = Ok (s', pv') ->
        existsb (fun ko => match ko with Some ke => asgU_exp ke | None => false end) ks || existsb asgU_exp vs = true -> M s'.
    Proof.
      induction ks as [|k0 ks IH]; intros vs pv s s' pv' Hlen Hks Hvs HK H Ha.
      - destruct vs; [|discriminate]. cbn in Ha. discriminate.
      - destruct vs as [|v vs]; [discriminate|]. injection Hlen as Hlen.
        cbn [forallb] in Hks, Hvs. apply andb_prop in Hks. destruct Hks as [Hk0 Hks].
        apply andb_prop in Hvs. destruct Hvs as [Hv Hvs].
        assert (HM : forall s0 pv0, cg_table ce ks vs pv0 s0 = Ok (s', pv') -> M s0 -> M s').
        { intros s0 pv0 H0. eapply post_any_M.
          eapply (cg_table_post any_name any_target ce Hg); [exact Hlen|exact Hks|exact Hvs|apply pre_any|exact H0]. }
        destruct k0 as [ke|].
        + rewrite cg_table_some in H. inv_bind H. inv_bind H. destruct a0 as [[s2 ofn] sub].
          pose proof (nilK _ _ _ Hb HK) as HK1. pose proof (ceK _ _ _ _ _ _ Hb0 HK1) as HK2.
          cbn [existsb] in Ha.
          destruct (asgU_exp ke) eqn:E1.
          { eapply HM; [exact H|]. eapply ceM; [exact Hv|exact Hb0|]. eapply nilU; [exact Hk0|exact HK|exact Hb|exact E1]. }
          destruct (asgU_exp v) eqn:E2.
          { eapply HM; [exact H|]. eapply Hu; [exact Hv|exact HK1|exact Hb0|exact E2]. }
          eapply IH; [exact Hlen|exact Hks|exact Hvs|exact HK2|exact H|]. cbn [orb] in Ha. exact Ha.
        + cbn [cg_table] in H. inv_bind H. pose proof (nilK _ _ _ Hb HK) as HK1. cbn [existsb] in Ha.
          destruct (asgU_exp v) eqn:E2.
          { eapply HM; [exact H|]. eapply nilU; [exact Hv|exact HK|exact Hb|exact E2]. }
          eapply IH; [exact Hlen|exact Hks|exact Hvs|exact HK1|exact H|]. cbn [orb] in Ha. rewrite orb_false_r in Ha || idtac. exact Ha.
    Qed.

    Lemma forallb_any : forall l, forallb any_name l = true.
    Proof. induction l; [reflexivity | exact IHl]. Qed.

    Lemma chk_targets_any : forall vars es, chk_targets any_target vars es = true.
    Proof.
      induction vars as [|t vars IH]; intros es; [reflexivity|]. cbn [chk_targets]. rewrite IH.
      destruct (tgt_sig t (hd_error es)); reflexivity.
    Qed.

    Lemma globs_add_loc_var : forall k v s, globs (add_loc_var k v s) = globs s.
    Proof. intros k v s. unfold add_loc_var. destruct (env s); reflexivity. Qed.

    Lemma globs_add_plain : forall names locs r em s, globs (add_plain_locals names locs r em s) = globs s.
    Proof.
      induction names as [|k names IH]; intros locs r em s; cbn [add_plain_locals]; [reflexivity|].
      destruct locs as [|l locs]; [reflexivity|]. rewrite IH. apply globs_add_loc_var.
    Qed.

    Lemma local_adds_globs : forall es names locs rs s s' rn rl flag,
        local_adds names locs es rs s = (s', rn, rl, flag) -> globs s' = globs s.
    Proof.
      induction es as [|e es IH]; intros names locs rs s s' rn rl flag H; cbn [local_adds] in H.
      - injection H as <- <- <- <-. reflexivity.
      - destruct rs as [|[ofn sub] rs']; [injection H as <- <- <- <-; reflexivity|].
        destruct names as [|k names]; [injection H as <- <- <- <-; reflexivity|].
        destruct locs as [|l locs]; [injection H as <- <- <- <-; reflexivity|].
        destruct (local_adds names locs es rs' _) as [[[s3 rn0] rl0] flag0] eqn:E. injection H as <- <- <- <-.
        rewrite (IH _ _ _ _ _ _ _ _ E). apply globs_add_loc_var.
    Qed.

    Lemma local_eval_M : forall es names locs s s1 rs,
        forallb shp_exp es = true -> local_eval ce names locs es s = Ok (s1, rs) -> M s -> M s1.
    Proof.
      intros es names locs s s1 rs Hes H. eapply post_any_M.
      eapply (local_eval_post any_name any_target ce Hg); [exact Hes | apply pre_any | exact H].
    Qed.

    Lemma local_loop_M : forall es names locs s s' rn rl flag,
        forallb shp_exp es = true -> local_loop ce names locs es s = Ok (s', rn, rl, flag) -> M s -> M s'.
    Proof.
      intros es names locs s s' rn rl flag Hes H HM. unfold local_loop in H. inv_bind H. destruct a as [s1 rs].
      injection H as H. unfold M. rewrite (local_adds_globs _ _ _ _ _ _ _ _ _ H). eapply local_eval_M; eauto.
    Qed.

    (* since fixes/C07-multi-local-order.diff every initialiser is analysed before a name of the statement is added:
       an assignment to the global nm in ANY of them is seen (no condition on the names of the statement) *)
    Lemma local_eval_u : forall es names locs s s1 rs,
        forallb shp_exp es = true -> Kn s ->
        local_eval ce names locs es s = Ok (s1, rs) ->
        existsb asgU_exp es = true -> M s1.
    Proof.
      induction es as [|e es IH]; intros names locs s s1 rs Hes HK H Ha; [discriminate|].
      cbn [forallb] in Hes. apply andb_prop in Hes. destruct Hes as [He Hes].
      cbn [local_eval] in H. inv_bind H. destruct a as [[s2 ofn] sub].
      cbn [existsb] in Ha. apply orb_prop in Ha.
      destruct names as [|k names]; [|destruct locs as [|l locs]];
        (inv_bind H; destruct a as [s3 rs0]; injection H as <- <-;
         destruct Ha as [Ha|Ha];
         [eapply local_eval_M; [exact Hes | exact Hb0 |]; eapply Hu; eauto
         |eapply IH; [exact Hes | | exact Hb0 | exact Ha]; eapply ceK; eauto]).
    Qed.

    Lemma local_loop_u : forall es names locs s s' rn rl flag,
        forallb shp_exp es = true -> Kn s ->
        local_loop ce names locs es s = Ok (s', rn, rl, flag) ->
        existsb asgU_exp es = true -> M s'.
    Proof.
      intros es names locs s s' rn rl flag Hes HK H Ha. unfold local_loop in H. inv_bind H. destruct a as [s1 rs].
      injection H as H. unfold M. rewrite (local_adds_globs _ _ _ _ _ _ _ _ _ H). eapply local_eval_u; eauto.
    Qed.

    Lemma cg_local_u : forall names locs es s s',
        forallb shp_exp es = true -> Kn s -> cg_local ce names locs es s = Ok s' ->
        existsb asgU_exp es = true -> M s'.
    Proof.
      intros names locs es s s' Hes HK H Ha. unfold cg_local in H. inv_bind H. destruct a as [[[s1 rn] rl] flag].
      ok_inj H. unfold M. rewrite globs_add_plain. fold (M s1).
      unfold local_loop in Hb. inv_bind Hb. destruct a as [s2 rs]. injection Hb as Hb.
      unfold M. rewrite (local_adds_globs _ _ _ _ _ _ _ _ _ Hb). eapply local_eval_u; eauto.
    Qed.

    Lemma M_update_var : forall r f s, M s -> M (update_var r f s).
    Proof.
      intros r f s H. unfold M in *. destruct r as [d k i|k|k]; cbn [update_var globs]; try exact H.
      destruct (assoc_get k (globs s)); [|exact H]. rewrite assoc_mem_set, H. reflexivity.
    Qed.

    Lemma M_note_G : forall p k s, M s -> M (note_G p k s).
    Proof.
      intros p k s H. unfold note_G. destruct p; try exact H. destruct k; try exact H. destruct (_ && _); [|exact H].
      unfold M, note_nodefine. destruct (find_loc_var _ _ _ _); [exact H|]. destruct (_ || _); exact H.
    Qed.

    Lemma assign_one_M : forall t oe ofn sub lastcall s s',
        shp_exp t = true -> option_map f_loc ofn = val_loc oe ->
        assign_one ce flv slv t oe ofn sub lastcall s = Ok s' -> M s -> M s'.
    Proof.
      intros t oe ofn sub lastcall s s' Ht Hofn H. eapply post_any_M.
      eapply (assign_one_post any_name any_target ce flv slv Hg); [|exact Ht|exact Hofn|apply pre_any|exact H].
      destruct (tgt_sig t oe); reflexivity.
    Qed.

    Lemma assign_one_u : forall t oe ofn sub lastcall s s',
        shp_exp t = true -> Kn s -> assign_one ce flv slv t oe ofn sub lastcall s = Ok s' ->
        asgU_target t = true -> M s'.
    Proof.
      intros t oe ofn sub lastcall s s' Ht HK H Ha. destruct t; try discriminate.
      - (* EName *)
        cbn [asgU_target] in Ha. apply beq_bytes_eq in Ha. subst n. cbn [assign_one] in H.
        rewrite (find_loc_var_none (not_named nm) _ _ _ _ HK not_named_self) in H.
        destruct (find_global nm flv slv l (globs s)) as [v|] eqn:Eg.
        + apply find_global_mem in Eg. ok_inj H. destruct (v_empty v && _); [apply M_update_var|]; exact Eg.
        + ok_inj H. unfold M. cbn [globs]. rewrite assoc_mem_set, bb_refl. apply orb_true_r.
      - (* EIndex *)
        cbn [asgU_target] in Ha. unfold shp_exp in Ht. cbn [chk_exp] in Ht. apply andb_prop in Ht. destruct Ht as [Hp Hk].
        cbn [assign_one] in H. inv_bind H. inv_bind H.
        destruct (g_is nm t1 t2) eqn:EG0.
        { (* _G.nm = v *)
          unfold g_is in EG0. apply andb_prop in EG0. destruct EG0 as [EG0 Enm]. apply andb_prop in EG0. destruct EG0 as [ES EG].
          apply beq_bytes_eq in Enm. rewrite ES in H. cbn [negb] in H. rewrite EG in H.
          destruct (find_global (exp_name t2) flv slv _ (globs a0)) as [v|] eqn:Eg.
          - apply find_global_mem in Eg. rewrite <- Enm in Eg. ok_inj H. destruct (v_empty v && _); [apply M_update_var|]; exact Eg.
          - ok_inj H. unfold M. cbn [globs]. rewrite assoc_mem_set, Enm, bb_refl. apply orb_true_r. }
        cbn [orb] in Ha.
        assert (M2 : M a0).
        { apply orb_prop in Ha. destruct Ha as [Ha|Ha].
          - eapply nilM; [exact Hk | exact Hb0 |]. eapply nilU; [exact Hp | exact HK | exact Hb | exact Ha].
          - eapply nilU; [exact Hk | eapply nilK; [exact Hb | exact HK] | exact Hb0 | exact Ha]. }
        destruct (negb (simple_str (exp_name t2))); [ok_inj H; exact M2|].
        destruct (beq_bytes (exp_name t1) (c_bang :: Symbols.s_G)).
        { destruct (find_global (exp_name t2) flv slv _ (globs a0)) as [v|].
          - ok_inj H. destruct (v_empty v && _); [apply M_update_var|]; exact M2.
          - ok_inj H. unfold M in *. cbn [globs]. rewrite assoc_mem_set, M2. reflexivity. }
        destruct (split_dot (exp_name t1)) as [|p0 ps]; [ok_inj H; exact M2|].
        destruct (negb (forallb simple_str ps)); [ok_inj H; exact M2|].
        destruct (if beq_bytes (trim_bang p0) Symbols.s_G then ps else []) as [|g0 gs].
        + destruct (find_loc_var (env a0) (trim_bang p0) _ 0) as [[[d i] v]|].
          * ok_inj H. apply M_update_var. exact M2.
          * destruct (find_global (trim_bang p0) flv slv _ (globs a0)); ok_inj H; apply M_update_var; exact M2.
        + destruct (find_global g0 flv slv _ (globs a0)); ok_inj H; apply M_update_var; exact M2.
    Qed.

    Lemma assign_loop_M : forall vars i es lastcall s s',
        forallb shp_exp vars = true -> forallb shp_exp es = true ->
        assign_loop ce flv slv i vars es lastcall s = Ok s' -> M s -> M s'.
    Proof.
      intros vars i es lastcall s s' Hv Hes H. eapply post_any_M.
      eapply (assign_loop_post any_name any_target ce flv slv Hg Hsig); [apply chk_targets_any|exact Hv|exact Hes|apply pre_any|exact H].
    Qed.

    Lemma assign_loop_u : forall vars i es lastcall s s',
        forallb shp_exp vars = true -> forallb shp_exp es = true -> Kn s ->
        assign_loop ce flv slv i vars es lastcall s = Ok s' ->
        existsb asgU_target vars || existsb asgU_exp (firstn (length vars) (skipn i es)) = true -> M s'.
    Proof.
      induction vars as [|t vars IH]; intros i es lastcall s s' Hv Hes HK H Ha; [cbn in Ha; discriminate|].
      cbn [forallb] in Hv. apply andb_prop in Hv. destruct Hv as [Ht Hv].
      cbn [assign_loop] in H. inv_bind H. destruct a as [[s1 ofn] sub]. inv_bind H. cbn [length] in Ha.
      rewrite (skipn_nth es i) in Ha.
      destruct (nth_error es i) as [e|] eqn:En.
      + cbn [firstn existsb] in Ha.
        assert (He : shp_exp e = true) by (eapply forallb_In; [exact Hes | eapply nth_error_In; exact En]).
        assert (Hofn : option_map f_loc ofn = val_loc (Some e)) by (pose proof (Hsig _ _ _ _ _ _ Hb) as [_ X]; exact X).
        pose proof (ceK _ _ _ _ _ _ Hb HK) as HK1.
        assert (HK2 : Kn a) by (eapply Kn_esig; [eapply assign_one_sig; [exact Hsig | exact Hb0] | exact HK1]).
        destruct (asgU_exp e) eqn:E1.
        { eapply assign_loop_M; [exact Hv|exact Hes|exact H|]. eapply assign_one_M; [exact Ht|exact Hofn|exact Hb0|].
          eapply Hu; [exact He|exact HK|exact Hb|exact E1]. }
        destruct (asgU_target t) eqn:E2.
        { eapply assign_loop_M; [exact Hv|exact Hes|exact H|]. eapply assign_one_u; [exact Ht|exact HK1|exact Hb0|exact E2]. }
        eapply IH; [exact Hv|exact Hes|exact HK2|exact H|]. cbn [orb] in Ha. exact Ha.
      + cbn [firstn existsb] in Ha. injection Hb as <- <- <-.
        assert (HK2 : Kn a) by (eapply Kn_esig; [eapply assign_one_sig; [exact Hsig | exact Hb0] | exact HK]).
        destruct (asgU_target t) eqn:E2.
        { eapply assign_loop_M; [exact Hv|exact Hes|exact H|]. eapply assign_one_u; [exact Ht|exact HK|exact Hb0|exact E2]. }
        eapply IH; [exact Hv|exact Hes|exact HK2|exact H|]. rewrite (nth_error_none_skipn _ _ En).
        cbn [orb] in Ha. rewrite orb_false_r in Ha. rewrite Ha. reflexivity.
    Qed.

    (* iteration over a list: frames kept, globals grow, and an assignment in any element is recorded *)
    Lemma iter_u : forall {X} (f : X -> state -> Res state) (A : X -> bool) l s s',
        (forall x s0 s1, In x l -> f x s0 = Ok s1 -> (Kn s0 -> Kn s1) /\ (M s0 -> M s1) /\ (Kn s0 -> A x = true -> M s1)) ->
        iter_res f l s = Ok s' -> (Kn s -> Kn s') /\ (M s -> M s') /\ (Kn s -> existsb A l = true -> M s').
    Proof.
      intros X f A l. induction l as [|x l IH]; intros s s' Hf H; cbn [iter_res] in H.
      - injection H as <-. repeat split; auto. intros _ Ha. discriminate.
      - inv_bind H. destruct (Hf x s a (or_introl eq_refl) Hb) as [K1 [M1 U1]].
        destruct (IH a s' (fun y s0 s1 Hy => Hf y s0 s1 (or_intror Hy)) H) as [K2 [M2 U2]].
        repeat split; auto. intros HK Ha. cbn [existsb] in Ha. apply orb_prop in Ha. destruct Ha as [Ha|Ha]; auto.
    Qed.

    Lemma nils_u : forall es s s',
        forallb shp_exp es = true -> iter_res (ce_nil ce) es s = Ok s' ->
        (Kn s -> Kn s') /\ (M s -> M s') /\ (Kn s -> existsb asgU_exp es = true -> M s').
    Proof.
      intros es s s' Hes H. eapply (iter_u (ce_nil ce) asgU_exp); [|exact H].
      intros e s0 s1 Hin He. pose proof (forallb_In _ _ _ Hes Hin) as Hse. repeat split.
      - eapply nilK; exact He.
      - eapply nilM; eauto.
      - intros HK Ha. eapply nilU; eauto.
    Qed.

    Lemma cg_assign_u : forall vars es s s',
        forallb shp_exp vars = true -> forallb shp_exp es = true -> Kn s ->
        cg_assign ce flv slv vars es s = Ok s' ->
        existsb asgU_target vars || existsb asgU_exp es = true -> M s'.
    Proof.
      intros vars es s s' Hv Hes HK H Ha. unfold cg_assign in H. inv_bind H.
      assert (Hes2 : forallb shp_exp (skipn (length vars) es) = true).
      { apply forallb_forall. intros e Hin. eapply forallb_In; [exact Hes|].
        rewrite <- (firstn_skipn (length vars) es). apply in_or_app. right. exact Hin. }
      destruct (nils_u _ _ _ Hes2 H) as [K2 [M2 U2]].
      assert (HK1 : Kn a) by (eapply Kn_esig; [eapply assign_loop_sig; [exact Hsig | exact Hb] | exact HK]).
      assert (E : existsb asgU_exp es =
                  existsb asgU_exp (firstn (length vars) es) || existsb asgU_exp (skipn (length vars) es))
        by (rewrite <- existsb_app, firstn_skipn; reflexivity).
      rewrite E in Ha.
      destruct (existsb asgU_exp (skipn (length vars) es)) eqn:E2; [apply U2; auto|].
      apply M2. eapply (assign_loop_u vars 0 es); [exact Hv|exact Hes|exact HK|exact Hb|]. cbn [skipn].
      rewrite orb_false_r in Ha. exact Ha.
    Qed.
  End StatU.

  (* ---------------------------------------------------------------- frames after a statement *)
  Definition KnE (E : list (list (bytes * list vsig))) : Prop :=
    Forall (fun sg => forall k, In k (map fst sg) -> not_named nm k = true) E.

  Lemma Kn_iff : forall s, Kn s <-> KnE (esig (env s)).
  Proof.
    intros s. unfold Kn, Kinv, KnE. generalize (env s). induction l as [|fr e IH]; cbn [esig map]; split; intros H;
      try constructor; inversion H as [|? ? H1 H2]; subst.
    - intros k Hk. apply H1. unfold fsig in Hk. rewrite map_map in Hk. cbn [fst] in Hk. exact Hk.
    - apply IH. exact H2.
    - intros k Hk. apply H1. unfold fsig. rewrite map_map. cbn [fst]. exact Hk.
    - apply IH. exact H2.
  Qed.

  Lemma KnE_adds : forall ds E, (forall d, In d ds -> beq_bytes nm (fst d) = false) -> KnE E -> KnE (esig_adds ds E).
  Proof.
    intros ds [|sg rest] Hds H; [constructor|]. inversion H as [|? ? H1 H2]; subst. cbn [esig_adds]. constructor; [|exact H2].
    clear H H2. unfold sig_adds. revert sg H1. induction ds as [|d ds IH]; intros sg H1; cbn [fold_left]; [exact H1|].
    apply IH; [intros d0 Hd0; apply Hds; right; exact Hd0|].
    intros k Hk. unfold sig_add in Hk. apply assoc_set_keys_in in Hk. destruct Hk as [Hk| ->]; [apply H1; exact Hk|].
    apply not_named_other. apply Hds. left; reflexivity.
  Qed.

  Lemma Kn_adds : forall ds s s',
      esig (env s') = esig_adds ds (esig (env s)) -> (forall d, In d ds -> beq_bytes nm (fst d) = false) -> Kn s -> Kn s'.
  Proof. intros ds s s' He Hds H. apply Kn_iff. rewrite He. apply KnE_adds; [exact Hds | apply Kn_iff; exact H]. Qed.

  Lemma has_nm_false : forall l k, has_nm l = false -> In k l -> beq_bytes nm k = false.
  Proof.
    induction l as [|x l IH]; intros k H Hin; [destruct Hin|]. cbn [has_nm existsb] in H. apply orb_false_elim in H.
    destruct H as [H1 H2]. destruct Hin as [<-|Hin]; [exact H1 | apply IH; assumption].
  Qed.

  Lemma local_sigs_names : forall nms ls es d, In d (local_sigs nms ls es) -> In (fst d) nms.
  Proof.
    induction nms as [|k nms IH]; intros ls es d H; cbn [local_sigs] in H; [destruct H|].
    destruct ls as [|l ls]; [destruct H|]. destruct H as [<-|H]; [left; reflexivity | right; eapply IH; exact H].
  Qed.

  Lemma decl_locals_nobind : forall st d, binds st = false -> In d (decl_locals st) -> beq_bytes nm (fst d) = false.
  Proof.
    intros st d Hb Hd. destruct st; cbn [decl_locals] in Hd; try contradiction; cbn [binds] in Hb.
    - eapply has_nm_false; [exact Hb | eapply local_sigs_names; exact Hd].
    - destruct Hd as [<-|[]]. exact Hb.
  Qed.

  (* ---------------------------------------------------------------- K and M for whole constructs *)
  Definition T (s s' : state) (a : bool) : Prop := (Kn s -> Kn s') /\ (M s -> M s') /\ (Kn s -> a = true -> M s').

  Lemma T_seq : forall s s1 s2 a1 a2, T s s1 a1 -> T s1 s2 a2 -> T s s2 (a1 || a2).
  Proof.
    intros s s1 s2 a1 a2 [K1 [M1 U1]] [K2 [M2 U2]]. repeat split; auto.
    intros HK Ha. apply orb_prop in Ha. destruct Ha as [Ha|Ha]; auto.
  Qed.
  Lemma T_weak : forall s s' a a', T s s' a -> (a' = true -> a = true) -> T s s' a'.
  Proof. intros s s' a a' [K1 [M1 U1]] H. repeat split; auto. Qed.
  Lemma T_same_globs : forall s s', (Kn s -> Kn s') -> globs s' = globs s -> T s s' false.
  Proof. intros s s' HK Hg. repeat split; auto; unfold M; [rewrite Hg; auto | intros _ H; discriminate]. Qed.

  Lemma exp_KM : forall n flv slv e pv s s' ofn pv',
      shp_exp e = true -> cg_exp n flv slv e pv s = Ok (s', ofn, pv') -> (Kn s -> Kn s') /\ (M s -> M s').
  Proof.
    intros n flv slv e pv s s' ofn pv' He H. split.
    - apply Kn_esig. destruct (proj1 (all_sig n) flv slv _ _ _ _ _ _ H) as [X _]. exact X.
    - eapply post_any_M. eapply (proj1 (all_g any_name any_target n)); [exact He | apply pre_any | exact H].
  Qed.

  Lemma block_M : forall n flv slv b s s', shp_block b = true -> cg_block n flv slv b s = Ok s' -> M s -> M s'.
  Proof.
    intros n flv slv b s s' Hb H. eapply post_any_M.
    destruct (all_g any_name any_target n) as [_ [_ [_ X]]]. eapply X; [exact Hb | apply pre_any | exact H].
  Qed.

  Lemma block_tl : forall n flv slv b s s', cg_block n flv slv b s = Ok s' -> tl_eq (esig (env s')) (esig (env s)).
  Proof.
    intros n flv slv b s s' H. destruct (all_sig n) as [_ [_ [_ X]]]. apply X in H. rewrite H. apply esig_adds_tl_eq.
  Qed.

  Lemma block_K_nobind : forall n flv slv b s s',
      cg_block n flv slv b s = Ok s' -> existsb binds (block_stats b) = false -> Kn s -> Kn s'.
  Proof.
    intros n flv slv b s s' H Hnb. destruct (all_sig n) as [_ [_ [_ X]]]. apply X in H. eapply Kn_adds; [exact H|].
    intros d Hd. apply in_flat_map in Hd. destruct Hd as [st [Hst Hd]]. eapply decl_locals_nobind; [|exact Hd].
    destruct (binds st) eqn:E; [|reflexivity]. exfalso.
    assert (existsb binds (block_stats b) = true) by (apply existsb_exists; exists st; auto). congruence.
  Qed.

  Lemma stat_K_nobind : forall n flv slv st s s', cg_stat n flv slv st s = Ok s' -> binds st = false -> Kn s -> Kn s'.
  Proof.
    intros n flv slv st s s' H Hnb. destruct (all_sig n) as [_ [_ [X _]]]. apply X in H. eapply Kn_adds; [exact H|].
    intros d Hd. eapply decl_locals_nobind; eauto.
  Qed.

  Lemma globs_pop : forall s s', pop_scope s = Ok s' -> globs s' = globs s.
  Proof.
    intros s s' H. unfold pop_scope in H. destruct (env s) as [|fr [|[fid vars subs] rest]]; try discriminate.
    injection H as <-. reflexivity.
  Qed.

  Lemma Kn_push : forall fid s, Kn s -> Kn (push_scope fid [] s).
  Proof. intros fid s H. unfold Kn, Kinv, push_scope. cbn [env]. constructor; [intros k Hk; destruct Hk | exact H]. Qed.

  Lemma scoped_T : forall f s s' a,
      (forall s0 s1, f s0 = Ok s1 -> tl_eq (esig (env s1)) (esig (env s0)) /\ (M s0 -> M s1) /\ (Kn s0 -> a = true -> M s1)) ->
      scoped f s = Ok s' -> T s s' a.
  Proof.
    intros f s s' a Hf H. pose proof H as H0. unfold scoped in H. inv_bind H.
    destruct (Hf _ _ Hb) as [_ [M1 U1]]. pose proof (globs_pop _ _ H) as Hg. repeat split.
    - apply Kn_esig. eapply scoped_esig; [|exact H0]. intros s0 s1 H1. apply (Hf _ _ H1).
    - intros HM. unfold M. rewrite Hg. apply M1. exact HM.
    - intros HK Ha. unfold M. rewrite Hg. apply U1; [apply Kn_push; exact HK | exact Ha].
  Qed.

  (* ---------------------------------------------------------------- the whole analysis *)
  Definition exp_u (n : nat) : Prop := forall flv slv, ce_u (cg_exp n flv slv).
  Definition func_u (n : nat) : Prop :=
    forall flv e s s' fi, shp_exp e = true -> Kn s -> cg_func n flv e s = Ok (s', fi) -> asgU_exp e = true -> M s'.
  Definition stat_u (n : nat) : Prop :=
    forall flv slv st s s', shp_stat st = true -> Kn s -> cg_stat n flv slv st s = Ok s' -> asgU_stat st = true -> M s'.
  Definition block_u (n : nat) : Prop :=
    forall flv slv b s s', shp_block b = true -> Kn s -> cg_block n flv slv b s = Ok s' -> asgU_block b = true -> M s'.

  Lemma cg_block_cons : forall n flv slv st ss ret l s,
      cg_block (S n) flv slv (Block (st :: ss) ret l) s =
      (do sa <- cg_stat n flv slv st s ; cg_block (S n) flv slv (Block ss ret l) sa).
  Proof. intros. cbn [cg_block iter_res]. destruct (cg_stat n flv slv st s); reflexivity. Qed.

  Lemma all_u : forall n, exp_u n /\ func_u n /\ stat_u n /\ block_u n.
  Proof.
    induction n as [|n [IHe [IHf [IHs IHb]]]].
    - repeat split; repeat intro; cbn in *; discriminate.
    - assert (Texp : forall flv slv e pv s s' ofn pv', shp_exp e = true -> cg_exp n flv slv e pv s = Ok (s', ofn, pv') ->
                                                       T s s' (asgU_exp e)).
      { intros flv slv e pv s s' ofn pv' He H. destruct (exp_KM _ _ _ _ _ _ _ _ _ He H) as [K1 M1].
        repeat split; auto. intros HK Ha. eapply IHe; eauto. }
      assert (Tnil : forall flv slv e s s', shp_exp e = true -> drop3 (cg_exp n flv slv e None s) = Ok s' -> T s s' (asgU_exp e)).
      { intros flv slv e s s' He H. apply drop3_ok in H. destruct H as [f [p H]]. eapply Texp; eauto. }
      assert (Tnils : forall flv slv es s s', forallb shp_exp es = true ->
                        iter_res (fun e1 s1 => drop3 (cg_exp n flv slv e1 None s1)) es s = Ok s' -> T s s' (existsb asgU_exp es)).
      { intros flv slv es s s' Hes H. eapply (iter_u _ asgU_exp); [|exact H].
        intros e s0 s1 Hin He. apply (Tnil _ _ _ _ _ (forallb_In _ _ _ Hes Hin) He). }
      assert (Tblk : forall flv slv b s0 s1, shp_block b = true -> cg_block n flv slv b s0 = Ok s1 ->
                       tl_eq (esig (env s1)) (esig (env s0)) /\ (M s0 -> M s1) /\ (Kn s0 -> asgU_block b = true -> M s1)).
      { intros flv slv b s0 s1 Hb H. split; [eapply block_tl; exact H|]. split; [eapply block_M; eauto|].
        intros HK Ha. eapply IHb; eauto. }
      split; [|split; [|split]].
      + (* cg_exp *)
        intros flv slv e pv s s' ofn pv' He HK H Ha. unfold shp_exp in He. cbn [cg_exp] in H.
        destruct e; cbn [chk_exp] in He; try discriminate.
        * (* EUnop *) inv_bind H. injection H as <- <- <-. apply (Tnil _ _ _ _ _ He Hb); assumption.
        * (* EBinop *)
          apply andb_prop in He. destruct He as [He1 He2].
          inv_bind H. destruct a as [[s1 f1] pv1]. inv_bind H. destruct a as [[s2 f2] pv2]. injection H as <- <- <-.
          apply (T_seq _ _ _ _ _ (Texp _ _ _ _ _ _ _ _ He1 Hb) (Texp _ _ _ _ _ _ _ _ He2 Hb0)); assumption.
        * (* ETable *)
          apply andb_prop in He. destruct He as [He Hvs]. apply andb_prop in He. destruct He as [Hlen Hks].
          apply Nat.eqb_eq in Hlen. inv_bind H. destruct a as [s1 pv1]. injection H as <- <- <-.
          eapply (cg_table_u _ (IHe flv slv) (proj1 (all_sig n) flv slv) (proj1 (all_g any_name any_target n) flv slv));
            [exact Hlen|exact Hks|exact Hvs|exact HK|exact Hb|exact Ha].
        * (* EFunc *)
          inv_bind H. destruct a as [s1 fi]. injection H as <- <- <-.
          exact (IHf flv (EFunc cls fname pars parlocs b l vararg colon) _ _ _ He HK Hb Ha).
        * (* EParens *)
          inv_bind H. destruct a as [[s1 f1] pv1]. injection H as <- <- <-. apply (Texp _ _ _ _ _ _ _ _ He Hb); assumption.
        * (* EIndex *)
          apply andb_prop in He. destruct He as [He1 He2]. inv_bind H. inv_bind H. injection H as <- <- <-.
          apply M_note_G.
          apply (T_seq _ _ _ _ _ (Tnil _ _ _ _ _ He1 Hb) (Tnil _ _ _ _ _ He2 Hb0)); assumption.
        * (* ECall *)
          apply andb_prop in He. destruct He as [Hp Hargs]. inv_bind H. inv_bind H. injection H as <- <- <-.
          apply (T_seq _ _ _ _ _ (Tnil _ _ _ _ _ Hp Hb) (Tnils _ _ _ _ _ Hargs Hb0)); assumption.
      + (* cg_func *)
        intros flv e s s' fi He HK H Ha. unfold shp_exp in He. cbn [cg_func] in H. destruct e; try discriminate.
        cbn [chk_exp] in He. apply andb_prop in He. destruct He as [_ Hblk]. rewrite asgU_func in Ha.
        destruct (has_nm pars) eqn:Ep; [discriminate|].
        destruct (negb (Nat.eqb (length pars) (length parlocs))); [discriminate|].
        inv_bind H. inv_bind H. injection H as <- <-. unfold M. rewrite (globs_pop _ _ Hb0).
        eapply IHb; [exact Hblk| |exact Hb|exact Ha].
        unfold Kn, Kinv. cbn [env]. constructor; [|exact HK].
        apply param_vars_keys; [apply not_named_all; exact Ep | intros k Hk; destruct Hk].
      + (* cg_stat *)
        intros flv slv st s s' Hst HK H Ha. unfold shp_stat in Hst. cbn [cg_stat] in H.
        assert (Tb1 : forall b s0 s1, shp_block b = true -> cg_block n flv (N.succ slv) b s0 = Ok s1 ->
                        tl_eq (esig (env s1)) (esig (env s0)) /\ (M s0 -> M s1) /\ (Kn s0 -> asgU_block b = true -> M s1))
          by (intros; eapply Tblk; eauto).
        destruct st; cbn [chk_stat] in Hst; try discriminate.
        * (* SDo *) apply (scoped_T _ _ _ (asgU_block b) (fun s0 s1 H1 => Tb1 b s0 s1 Hst H1) H); assumption.
        * (* SCall *) apply (Tnil _ _ _ _ _ Hst H); assumption.
        * (* SIf *)
          apply andb_prop in Hst. destruct Hst as [Hst Hbs]. apply andb_prop in Hst. destruct Hst as [Hlen Hes].
          apply Nat.eqb_eq in Hlen. rewrite asgU_stat_if in Ha.
          pose proof (combine_existsb asgU_exp asgU_block es bs Hlen Ha) as Ha2.
          eapply (iter_u _ (fun eb => asgU_exp (fst eb) || asgU_block (snd eb))); [|exact H|exact HK|exact Ha2].
          intros [e0 b0] s0 s1 Hin H0. cbn [fst snd] in H0 |- *. inv_bind H0.
          pose proof (in_combine_l _ _ _ _ Hin) as Hin1. pose proof (in_combine_r _ _ _ _ Hin) as Hin2.
          apply (T_seq _ _ _ _ _ (Tnil _ _ _ _ _ (forallb_In _ _ _ Hes Hin1) Hb)).
          apply (scoped_T _ _ _ (asgU_block b0) (fun s2 s3 H1 => Tb1 b0 s2 s3 (forallb_In _ _ _ Hbs Hin2) H1) H0).
        * (* SWhile *)
          apply andb_prop in Hst. destruct Hst as [He Hblk]. inv_bind H. rewrite asgU_stat_while in Ha.
          apply (T_seq _ _ _ _ _ (Tnil _ _ _ _ _ He Hb)
                       (scoped_T _ _ _ (asgU_block b) (fun s2 s3 H1 => Tb1 b s2 s3 Hblk H1) H)); assumption.
        * (* SRepeat *)
          apply andb_prop in Hst. destruct Hst as [He Hblk]. rewrite asgU_stat_repeat in Ha.
          eapply (scoped_T _ _ _ (asgU_block b || (if existsb binds (block_stats b) then false else asgU_exp e)));
            [|exact H|exact HK|exact Ha].
          intros s0 s1 H0. inv_bind H0. destruct (Tb1 _ _ _ Hblk Hb) as [TL [M1 U1]].
          destruct (Tnil _ _ _ _ _ He H0) as [K2 [M2 U2]]. split; [|split].
          -- eapply tl_eq_trans; [|exact TL]. apply tl_eq_of_eq. apply drop3_ok in H0. destruct H0 as [f0 [p0 H0]].
             destruct (proj1 (all_sig n) _ _ _ _ _ _ _ _ H0) as [X _]. exact X.
          -- intros HM. apply M2, M1, HM.
          -- intros HK0 Ha0. apply orb_prop in Ha0. destruct Ha0 as [Ha0|Ha0]; [apply M2, U1; assumption|].
             destruct (existsb binds (block_stats b)) eqn:Eb; [discriminate|].
             apply U2; [|exact Ha0]. eapply block_K_nobind; eauto.
        * (* SForNum *)
          apply andb_prop in Hst. destruct Hst as [Hst Hblk]. apply andb_prop in Hst. destruct Hst as [Hst He3].
          apply andb_prop in Hst. destruct Hst as [Hst He2]. apply andb_prop in Hst. destruct Hst as [_ He1].
          rewrite asgU_stat_fornum in Ha.
          eapply (scoped_T _ _ _ (asgU_exp init || asgU_exp limit || asgU_exp step || (if beq_bytes nm name then false else asgU_block b)));
            [|exact H|exact HK|exact Ha].
          intros s0 s1 H0. inv_bind H0. inv_bind H0. inv_bind H0.
          pose proof (T_seq _ _ _ _ _ (T_seq _ _ _ _ _ (Tnil _ _ _ _ _ He1 Hb) (Tnil _ _ _ _ _ He2 Hb0)) (Tnil _ _ _ _ _ He3 Hb1))
            as [K3 [M3 U3]].
          destruct (Tb1 _ _ _ Hblk H0) as [TL [M4 U4]]. split; [|split].
          -- eapply tl_eq_trans; [exact TL|]. rewrite esig_add_loc_var. eapply tl_eq_trans; [apply esig_adds_tl_eq|].
             apply tl_eq_of_eq.
             apply drop3_ok in Hb. destruct Hb as [f0 [p0 Hb]]. apply drop3_ok in Hb0. destruct Hb0 as [f1 [p1 Hb0]].
             apply drop3_ok in Hb1. destruct Hb1 as [f2 [p2 Hb1]].
             destruct (proj1 (all_sig n) _ _ _ _ _ _ _ _ Hb) as [X0 _]. destruct (proj1 (all_sig n) _ _ _ _ _ _ _ _ Hb0) as [X1 _].
             destruct (proj1 (all_sig n) _ _ _ _ _ _ _ _ Hb1) as [X2 _]. congruence.
          -- intros HM. apply M4. unfold M. rewrite globs_add_loc_var. apply M3, HM.
          -- intros HK0 Ha0.
             destruct (asgU_exp init || asgU_exp limit || asgU_exp step) eqn:E3.
             ++ apply M4. unfold M. rewrite globs_add_loc_var. apply U3; [exact HK0 | reflexivity].
             ++ destruct (beq_bytes nm name) eqn:En; [cbv beta in *; lia|].
                apply U4; [|cbv beta in *; lia]. apply add_loc_var_K; [apply not_named_other; exact En | apply K3; exact HK0].
        * (* SForIn *)
          apply andb_prop in Hst. destruct Hst as [Hst Hblk]. apply andb_prop in Hst. destruct Hst as [_ Hes].
          rewrite asgU_stat_forin in Ha.
          eapply (scoped_T _ _ _ (existsb asgU_exp es || (if has_nm names then false else asgU_block b)));
            [|exact H|exact HK|exact Ha].
          intros s0 s1 H0. inv_bind H0. destruct (Tnils _ _ _ _ _ Hes Hb) as [K1 [M1 U1]].
          destruct (Tb1 _ _ _ Hblk H0) as [TL [M4 U4]]. split; [|split].
          -- eapply tl_eq_trans; [exact TL|]. rewrite add_plain_locals_sig. eapply tl_eq_trans; [apply esig_adds_tl_eq|].
             apply tl_eq_of_eq.
             eapply (iter_res_inv (fun sx => esig (env sx) = esig (env s0))); [|reflexivity|exact Hb].
             intros e0 sx sy _ Hsx Hxy. apply drop3_ok in Hxy. destruct Hxy as [f0 [p0 Hxy]].
             destruct (proj1 (all_sig n) _ _ _ _ _ _ _ _ Hxy) as [X0 _]. congruence.
          -- intros HM. apply M4. unfold M. rewrite globs_add_plain. apply M1, HM.
          -- intros HK0 Ha0. apply orb_prop in Ha0. destruct Ha0 as [Ha0|Ha0].
             ++ apply M4. unfold M. rewrite globs_add_plain. apply U1; assumption.
             ++ destruct (has_nm names) eqn:En; [discriminate|]. apply U4; [|exact Ha0].
                pose proof (add_plain_locals_post (not_named nm) any_target names locs RkNone false a
                                                  (not_named_all _ En) (pre_Kn _ (K1 HK0))) as [[X _] _]. exact X.
        * (* SAssign *)
          apply andb_prop in Hst. destruct Hst as [Hst Hes]. apply andb_prop in Hst. destruct Hst as [_ Hv].
          rewrite asgU_stat_assign in Ha.
          exact (cg_assign_u _ flv slv (IHe flv slv) (proj1 (all_sig n) flv slv) (proj1 (all_g any_name any_target n) flv slv)
                             _ _ _ _ Hv Hes HK H Ha).
        * (* SLocal *)
          apply andb_prop in Hst. destruct Hst as [_ Hes]. rewrite asgU_stat_local in Ha.
          exact (cg_local_u _ (IHe flv slv) (proj1 (all_sig n) flv slv) (proj1 (all_g any_name any_target n) flv slv)
                            _ _ _ _ _ Hes HK H Ha).
        * (* SLocalFunc *)
          apply andb_prop in Hst. destruct Hst as [_ Hf]. rewrite asgU_stat_localfunc in Ha.
          destruct (beq_bytes nm name) eqn:En; [discriminate|].
          destruct f; try discriminate. inv_bind H. destruct a as [s1 fi]. injection H as <-.
          refine (IHf flv (EFunc cls fname pars parlocs b l0 vararg colon) _ _ _ Hf _ Hb Ha).
          apply add_loc_var_K; [apply not_named_other; exact En | exact HK].
      + (* cg_block *)
        intros flv slv b s s' Hblk HK H Ha. destruct b as [stats ret l]. unfold shp_block in Hblk.
        cbn [chk_block] in Hblk. apply andb_prop in Hblk. destruct Hblk as [Hss Hret]. rewrite asgU_block_unfold in Ha.
        revert s HK H Ha. induction stats as [|st stats IHst]; intros s HK H Ha.
        * rewrite asgU_stats_nil in Ha. cbn [cg_block iter_res rbind] in H.
          destruct ret as [es|]; [|discriminate]. apply (Tnils _ _ _ _ _ Hret H); assumption.
        * cbn [forallb] in Hss. apply andb_prop in Hss. destruct Hss as [Hst Hss].
          rewrite cg_block_cons in H. inv_bind H. rewrite asgU_stats_cons in Ha.
          destruct (asgU_stat st) eqn:E1.
          -- eapply (block_M (S n)); [|exact H|].
             ++ unfold shp_block. cbn [chk_block]. rewrite Hss, Hret. reflexivity.
             ++ eapply IHs; [exact Hst|exact HK|exact Hb|exact E1].
          -- cbn [orb] in Ha. destruct (binds st) eqn:Eb; [discriminate|].
             apply (IHst Hss a); [eapply stat_K_nobind; eauto | exact H | exact Ha].
  Qed.
End Lex.
