(* Binder family (C06 C11 C12 C14): full statements over file BYTES (the run_* functions of Proofs/ResolveRun.v are the
   model of the request handlers incl. the text cut), boolean deviation checks, the lemmas that turn one deviating
   query into a refutation of a full statement, and the C12 clauses that hold for every workspace, lifted from the
   model-level theorems of Proofs/ResolveBasics.v to whole requests. *)
From Coq Require Import List NArith ZArith Bool Lia.
From LH Require Import Base.Bytes Base.Res Model.Lexer Model.Ast Model.Scope Model.Globals Model.Resolve Spec.LuaScope
  Proofs.ResolveRun Proofs.ResolveBasics.
Import ListNotations.
Local Open Scope N_scope.

(* ------------------------------------------------------------------ C06 / C11: references = occurrences of the variable *)
(* for every query position that lies on an identifier occurrence o of a fragment workspace, the answer (when the model
   gives one: ASkip = the order-dependent workspace table of C09 decides) is, as a set, the occurrences the reference
   binder gives the same variable *)
Definition refs_full_stmt (mode : refmode) : Prop :=
  forall files f line col o l,
    all_in_fragment files = true -> spec_occ files f line col = Some o ->
    run_refs files mode f line col = ALocs l ->
    same_locs l (spec_refs (spec_ws files) f o) = true.

Definition refs_deviates (mode : refmode) (files : list (list N * list N)) (f : list N) (line col : N) : bool :=
  all_in_fragment files &&
  match spec_occ files f line col, run_refs files mode f line col with
  | Some o, ALocs l => negb (same_locs l (spec_refs (spec_ws files) f o))
  | _, _ => false
  end.

Lemma refs_full_refuted_by mode files f line col :
  refs_deviates mode files f line col = true -> ~ refs_full_stmt mode.
Proof.
  intros Hd Hfull. unfold refs_deviates in Hd.
  apply andb_true_iff in Hd. destruct Hd as [Hfr Hd].
  destruct (spec_occ files f line col) as [o|] eqn:Ho; [|discriminate].
  destruct (run_refs files mode f line col) as [l|] eqn:Hr; [|discriminate].
  rewrite (Hfull files f line col o l Hfr Ho Hr) in Hd. discriminate.
Qed.

(* rename is references with another mode flag: the two answers are the same list *)
Lemma run_rename_is_run_refs files f line col :
  run_refs files MRename f line col = run_refs files MRefs f line col.
Proof. reflexivity. Qed.

Lemma rename_full_iff_refs_full : refs_full_stmt MRename <-> refs_full_stmt MRefs.
Proof.
  unfold refs_full_stmt. split; intros H files f line col o l Hf Ho Hr.
  - apply (H files f line col o l Hf Ho). rewrite run_rename_is_run_refs. exact Hr.
  - apply (H files f line col o l Hf Ho). rewrite <- run_rename_is_run_refs. exact Hr.
Qed.

(* ------------------------------------------------------------------ C12 *)
Definition line0_of (l : loc) : N := Z.to_N (sl l - 1).
Definition col_of (l : loc) : N := Z.to_N (sc l).

(* clause 1: every reference resolves, via definition, to the declaration p resolves to *)
Definition c12_clause1 (files : list (list N * list N)) (f : list N) (line col : N) : bool :=
  match run_refs files MRefs f line col, run_define files f line col with
  | ALocs rs, ALocs d =>
    forallb (fun r => match run_define files (fst r) (line0_of (snd r)) (col_of (snd r)) with
                      | ALocs d' => same_locs d' d
                      | ASkip => true
                      end) rs
  | _, _ => true
  end.
(* clause 2: p is among the references of its own declaration; me = the identifier's own range *)
Definition c12_clause2 (files : list (list N * list N)) (f : list N) (line col : N) (me : loc) : bool :=
  match run_define files f line col with
  | ALocs ds =>
    forallb (fun d => match run_refs files MRefs (fst d) (line0_of (snd d)) (col_of (snd d)) with
                      | ALocs rs => existsb (floc_eqb (f, me)) rs
                      | ASkip => true
                      end) ds
  | ASkip => true
  end.
(* clause 3: highlight = the references in the same file (as lists, in the model's order) *)
Definition c12_clause3 (files : list (list N * list N)) (f : list N) (line col : N) : Prop :=
  forall l h, run_refs files MRefs f line col = ALocs l -> run_refs files MHighlight f line col = ALocs h ->
              h = filter (fun x => beq_bytes (fst x) f) l.
(* clause 4: hover says local exactly when definition answers with the declaration of a local variable of the file *)
Definition c12_clause4 (files : list (list N * list N)) (f : list N) (line col : N) : Prop :=
  forall name, request_name (bytes_of files f) line col false = Some (Some name) ->
    run_hover files f line col <> HSkip ->
    (run_hover files f line col = HLocal <->
     exists ps fi v, parse_all files = Some ps /\ ws_file (mws_of ps) f = Some fi /\
                     resolve_at (mws_of ps) f fi name (zl line) (Z.of_N col) = TLocal v /\
                     run_define files f line col = ALocs [(f, v_loc v)]).

Definition c12_full_stmt : Prop :=
  forall files f line col o,
    all_in_fragment files = true -> spec_occ files f line col = Some o ->
    c12_clause1 files f line col = true /\ c12_clause2 files f line col (s_loc o) = true /\
    c12_clause3 files f line col /\ c12_clause4 files f line col.

Definition c12_deviates (files : list (list N * list N)) (f : list N) (line col : N) : bool :=
  all_in_fragment files &&
  match spec_occ files f line col with
  | Some o => negb (c12_clause1 files f line col && c12_clause2 files f line col (s_loc o))
  | None => false
  end.

Lemma c12_full_refuted_by files f line col : c12_deviates files f line col = true -> ~ c12_full_stmt.
Proof.
  intros Hd Hfull. unfold c12_deviates in Hd.
  apply andb_true_iff in Hd. destruct Hd as [Hfr Hd].
  destruct (spec_occ files f line col) as [o|] eqn:Ho; [|discriminate].
  destruct (Hfull files f line col o Hfr Ho) as [H1 [H2 _]].
  rewrite H1, H2 in Hd. discriminate.
Qed.

(* ---- clause 3 holds for every workspace with distinct file names *)
Lemma parse_all_names files : forall ps, parse_all files = Some ps -> map fst ps = map fst files.
Proof.
  induction files as [|[n bs] r IH]; intros ps H; cbn in H.
  - injection H as H. subst ps. reflexivity.
  - destruct (parse_ok bs) as [b|]; [|discriminate].
    destruct (parse_all r) as [r'|] eqn:Er; [|discriminate].
    injection H as H. subst ps. cbn. f_equal. apply IH. reflexivity.
Qed.

Lemma mws_of_names ps : map fst (mws_of ps) = map fst ps.
Proof. unfold mws_of. rewrite map_map. reflexivity. Qed.

Lemma ws_file_in (w : mws) f fi : ws_file w f = Some fi -> exists f', In (f', fi) w /\ beq_bytes f' f = true.
Proof.
  unfold ws_file. destruct (find (fun x => beq_bytes (fst x) f) w) as [[f' fi']|] eqn:E; [|discriminate].
  intros H. injection H as H. subst fi'. apply find_some in E. destruct E as [Hin Hb].
  exists f'. split; assumption.
Qed.

Theorem c12_clause3_holds files f line col :
  NoDup (map fst files) -> c12_clause3 files f line col.
Proof.
  intros Hnd l h Hl Hh. unfold run_refs in Hl, Hh.
  destruct (parse_all files) as [ps|] eqn:Hp; [|discriminate].
  cbv zeta in Hl, Hh.
  destruct (ws_file (mws_of ps) f) as [fi|] eqn:Hw; [|discriminate].
  destruct (request_name (bytes_of files f) line col false) as [[s|]|] eqn:Hn; try discriminate.
  - destruct (references_at MRefs (mws_of ps) f fi s (zl line) (Z.of_N col)) as [l'|] eqn:El; [|discriminate].
    destruct (references_at MHighlight (mws_of ps) f fi s (zl line) (Z.of_N col)) as [h'|] eqn:Eh; [|discriminate].
    injection Hl as Hl. injection Hh as Hh. subst l' h'.
    apply ws_file_in in Hw. destruct Hw as [f' [Hin Hb]]. apply beq_bytes_eq in Hb. subst f'.
    eapply highlight_is_refs_in_file; eauto.
    rewrite mws_of_names. rewrite (parse_all_names files ps Hp). exact Hnd.
  - injection Hl as Hl. injection Hh as Hh. subst. reflexivity.
Qed.

(* ---- clause 4 holds for every workspace *)
Theorem c12_clause4_holds files f line col : c12_clause4 files f line col.
Proof.
  intros name Hn Hns. unfold run_hover, run_define in *.
  destruct (parse_all files) as [ps|] eqn:Hp; [|contradiction].
  cbv zeta in *.
  destruct (ws_file (mws_of ps) f) as [fi|] eqn:Hw; [|contradiction].
  rewrite Hn.
  (* the two handlers cut the text in the same way (since fixes/C05-doc-end.diff also at the very end of the document) *)
  assert (Hsame : request_name (bytes_of files f) line col false = Some (Some name)) by exact Hn.
  rewrite Hsame in *.
  split.
  - intros Hh. apply hover_local_iff in Hh. destruct Hh as [v Hv].
    exists ps, fi, v. repeat split; auto.
    rewrite (define_of_local _ _ _ _ _ _ _ Hv). reflexivity.
  - intros [ps' [fi' [v [Hps [Hfi [Hv _]]]]]].
    injection Hps as Hps. subst ps'. rewrite Hw in Hfi. injection Hfi as Hfi. subst fi'.
    apply hover_local_iff. exists v. exact Hv.
Qed.

(* ------------------------------------------------------------------ C14: completion of a bare identifier *)
(* every label the property demands is offered, nothing the property forbids is *)
Definition complete_full_stmt : Prop :=
  forall files f line col o labels pre off,
    all_in_fragment files = true -> spec_occ files f line col = Some o ->
    offset_of (bytes_of files f) line col 0 = Some off -> complete_prefix (bytes_of files f) off = CutName pre ->
    run_complete files f line col = Some labels ->
    complete_ok (spec_ws files) f (env_names (s_env o) []) pre (zl line) (Z.of_N col) labels = true.

Definition complete_deviates (files : list (list N * list N)) (f : list N) (line col : N) : bool :=
  all_in_fragment files &&
  match spec_occ files f line col, offset_of (bytes_of files f) line col 0 with
  | Some o, Some off =>
    match complete_prefix (bytes_of files f) off, run_complete files f line col with
    | CutName pre, Some labels =>
      negb (complete_ok (spec_ws files) f (env_names (s_env o) []) pre (zl line) (Z.of_N col) labels)
    | _, _ => false
    end
  | _, _ => false
  end.

Lemma complete_full_refuted_by files f line col : complete_deviates files f line col = true -> ~ complete_full_stmt.
Proof.
  intros Hd Hfull. unfold complete_deviates in Hd.
  apply andb_true_iff in Hd. destruct Hd as [Hfr Hd].
  destruct (spec_occ files f line col) as [o|] eqn:Ho; [|discriminate].
  destruct (offset_of (bytes_of files f) line col 0) as [off|] eqn:Hoff; [|discriminate].
  destruct (complete_prefix (bytes_of files f) off) as [pre| |] eqn:Hpre; try discriminate.
  destruct (run_complete files f line col) as [labels|] eqn:Hr; [|discriminate].
  rewrite (Hfull files f line col o labels pre off Hfr Ho Hoff Hpre Hr) in Hd. discriminate.
Qed.

(* the local labels of a completion answer: every one is a variable of a scope that contains the cursor (or of the
   file's root scope) declared at or before the cursor - never a local declared later or in a block that does not
   enclose the cursor *)
Theorem run_complete_locals_sound files f line col labels n :
  run_complete files f line col = Some labels -> In n labels ->
  exists ps fi, parse_all files = Some ps /\ ws_file (mws_of ps) f = Some fi /\
    (In n (map g_name (fi_globals fi) ++ nodefine_names fi ++ ws_global_names (mws_of ps)) \/
     exists s v, in_tree s (fi_root fi) /\ In v (scope_vars s) /\ v_name v = n /\
                 decl_before (zl line) (Z.of_N col) v = true /\
                 (in_location (scope_loc s) (zl line) (Z.of_N col) = true \/ s = fi_root fi)).
Proof.
  intros Hr Hin. unfold run_complete in Hr.
  destruct (parse_all files) as [ps|] eqn:Hp; [|discriminate]. cbv zeta in Hr.
  destruct (ws_file (mws_of ps) f) as [fi|] eqn:Hw; [|discriminate].
  destruct (offset_of (bytes_of files f) line col 0) as [off|]; [|discriminate].
  exists ps, fi. split; [reflexivity|]. split; [exact Hw|].
  destruct (complete_prefix (bytes_of files f) off) as [pre| |]; try discriminate.
  - injection Hr as Hr. subst labels. unfold complete_at in Hin. apply filter_In in Hin. destruct Hin as [Hin _].
    apply in_app_or in Hin. destruct Hin as [Hl|Hg]; [right|left; exact Hg].
    apply complete_locals_sound. exact Hl.
  - injection Hr as Hr. subst labels. destruct Hin.
Qed.
