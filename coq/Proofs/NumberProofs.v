(* C03, numeral part: the classification of LuaHelper's parser (Model/Number.v, code as of fix 8dd49c7) against
   the numeral grammar (Spec/LuaNumeral.v).  Main results (cited by Properties/C03.v):
     number_classify_exact   on every clean text the code is exactly the spec (node kind and integer value)
     number_ok_iff / number_float_iff / number_int_iff / number_no_fault
     number_ok_token         for lexer tokens: "not a number" is raised iff the text is no numeral
     *_repaired              the witnesses of the three former deviation classes are now "not a number" *)
From Coq Require Import List NArith ZArith Bool Lia ZifyN ZifyNat ZifyBool.
From LH Require Import Base.Bytes Base.Res Model.Number Spec.LuaNumeral Proofs.NumberSpecProofs Proofs.NumberGo.
Import ListNotations.
Local Open Scope N_scope.
Ltac Zify.zify_post_hook ::= Z.to_euclidean_division_equations.

(* ---------- the three parse functions as functions of the trimmed, lower-cased text ---------- *)
Definition parse_integer_on (str : list N) : Res (option Z) :=
  if (len str =? 0)%Z then Ok None else
  do simple <- is_simple_integer str;
  do hex <- (if simple then Ok true else is_hex_integer str);
  if negb simple && negb hex then Ok None else
  do c0 <- idx str 0;
  do str <- (if c0 =? 43 then slice_from str 1 else Ok str);
  if negb (contains s_0x str) then Ok (parse_int 10 str)
  else hex_tail str.
Lemma parse_integer_on_eq s : parse_integer s = parse_integer_on (to_lower (trim_space s)).
Proof. reflexivity. Qed.

Definition parse_float_on (str : list N) : Res bool :=
  if contains s_nan str || contains s_inf str then Ok false
  else if has_prefix s_0x str && (2 <? len str)%Z then do s <- slice_from str 2; parse_hex_float s
  else if has_prefix s_p0x str && (3 <? len str)%Z then do s <- slice_from str 3; parse_hex_float s
  else if has_prefix s_m0x str && (3 <? len str)%Z then do s <- slice_from str 3; parse_hex_float s
  else Ok (go_parse_float_ok str).
Lemma parse_float_on_eq s : parse_float s = parse_float_on (to_lower (trim_space s)).
Proof. reflexivity. Qed.

(* the part of parseLuajitNum after the two is* tests *)
Definition luajit_body (str : list N) : Res (option Z) :=
  do c0 <- idx str 0;
  do str <- (if c0 =? 43 then slice_from str 1 else Ok str);
  do c3 <- idx str (len str - 3);
  do str <- (if c3 =? 117 then slice str 0 (len str - 3) else slice str 0 (len str - 2));
  if negb (contains s_0x str) then
    match parse_uint 10 str with
    | PuOk i => Ok (Some (wrap64 (Z.of_N i)))
    | _ => Ok None
    end
  else hex_tail str.
Definition parse_luajit_on (str : list N) : Res (option Z) :=
  if (len str =? 0)%Z then Ok None else
  do simple <- is_luajit_simple_integer str;
  do hex <- (if simple then Ok true else is_luajit_hex_integer str);
  if negb simple && negb hex then Ok None else luajit_body str.
Lemma parse_luajit_on_eq s : parse_luajit_num s = parse_luajit_on (to_lower (trim_space s)).
Proof. reflexivity. Qed.

(* ---------- small facts ---------- *)
Lemma len_pos_cons c r : (len (c :: r) =? 0)%Z = false.
Proof. rewrite len_cons. pose proof (len_nonneg r). lia. Qed.

Lemma lc_clean_head c r : lc_clean (c :: r) -> is_sign c = false /\ lc_char c = true /\ forallb lc_char r = true.
Proof. intros [H1 H2]. cbn in H1. apply andb_true_iff in H1 as [Hc Hr]. auto. Qed.

Lemma not_sign_43 c : is_sign c = false -> (c =? 43) = false /\ (c =? 45) = false.
Proof. unfold is_sign. intros H. lia. Qed.

Lemma digits_no_x s : forallb is_digit s = true -> ~ In 120 s.
Proof. intros H Hin. pose proof (forallb_In _ _ _ H Hin) as Hx. discriminate. Qed.
Lemma hex_no_x s : forallb is_hex_lc s = true -> ~ In 120 s.
Proof. intros H Hin. pose proof (forallb_In _ _ _ H Hin) as Hx. discriminate. Qed.

Lemma digits1_cons isd c r : num_digits1 isd (c :: r) = forallb isd (c :: r).
Proof. reflexivity. Qed.

(* ---------- hex_head, hex_tail ---------- *)
Definition hex_rest (t : list N) : option (list N) :=
  match t with
  | a :: b :: ((_ :: _) as rest) => if (a =? 48) && (b =? 120) then Some rest else None
  | _ => None
  end.

Lemma hex_head_char t : lc_clean t -> hex_head t = Ok (hex_rest t).
Proof.
  intros Hcl. unfold hex_head, hex_rest.
  destruct t as [|a [|b [|c r]]]; try reflexivity.
  destruct (lc_clean_head _ _ Hcl) as (Hsg & _ & _). destruct (not_sign_43 a Hsg) as [_ Hm].
  assert (Hlen : (len (a :: b :: c :: r) <=? 2)%Z = false) by (rewrite !len_cons; pose proof (len_nonneg r); lia).
  rewrite Hlen. rewrite idx_0. cbn [rbind]. rewrite Hm. rewrite idx_0. cbn [rbind].
  destruct (a =? 48) eqn:Ea; [|reflexivity]. cbn [negb andb].
  change (0 + 1)%Z with 1%Z. rewrite idx_1. cbn [rbind].
  destruct (b =? 120) eqn:Eb; [|reflexivity]. cbn [negb].
  change (1 + 1)%Z with 2%Z.
  assert (Hlen2 : (len (a :: b :: c :: r) =? 2)%Z = false) by (rewrite !len_cons; pose proof (len_nonneg r); lia).
  rewrite Hlen2. rewrite slice_from_2. reflexivity.
Qed.

Lemma hex_rest_some t rest : hex_rest t = Some rest -> t = 48 :: 120 :: rest /\ rest <> [].
Proof.
  unfold hex_rest. destruct t as [|a [|b [|c r]]]; try discriminate.
  destruct ((a =? 48) && (b =? 120)) eqn:E; [|discriminate]. intros H. injection H as <-.
  apply andb_true_iff in E as [Ea Eb]. apply N.eqb_eq in Ea, Eb. subst. split; [reflexivity|discriminate].
Qed.

Lemma hex_rest_is_hex_int t : num_is_hex_int t = match hex_rest t with Some rest => forallb is_hex_lc rest | None => false end.
Proof.
  unfold num_is_hex_int, num_hex_body, hex_rest. destruct t as [|a [|b [|c r]]]; try reflexivity.
  - destruct ((a =? 48) && (b =? 120)); reflexivity.
  - destruct ((a =? 48) && (b =? 120)); reflexivity.
Qed.

Definition cut16 (s : list N) : list N := if (16 <? length s)%nat then lastn 16 s else s.

Lemma slice_from_lastn s : (16 < length s)%nat -> slice_from s (len s - 16) = Ok (lastn 16 s).
Proof.
  intros H. destruct (lastn_app16 s H) as (pre & Hs & Hl).
  assert (Hlen : (len s - 16 = len pre)%Z).
  { rewrite Hs at 1. rewrite len_app. unfold len at 2. rewrite Hl. lia. }
  rewrite Hlen. rewrite Hs at 1. apply slice_from_app.
Qed.

Lemma hex_tail_unfold a b u : (a =? 45) = false ->
  hex_tail (a :: b :: u) = Ok (match parse_uint 16 (cut16 u) with PuOk i => Some (wrap64 (Z.of_N i)) | _ => None end).
Proof.
  intros Ha. unfold hex_tail. rewrite idx_0. cbn [rbind]. rewrite Ha. rewrite slice_from_2. cbn [rbind].
  unfold cut16. destruct (16 <? len u)%Z eqn:E.
  - assert (H16 : (16 < length u)%nat) by (unfold len in E; lia).
    rewrite (slice_from_lastn u H16). cbn [rbind].
    assert (E' : (16 <? length u)%nat = true) by lia. rewrite E'.
    destruct (parse_uint 16 (lastn 16 u)); try reflexivity.
    rewrite Z.mul_1_l, wrap64_idem. reflexivity.
  - cbn [rbind]. assert (E' : (16 <? length u)%nat = false) by (unfold len in E; lia). rewrite E'.
    destruct (parse_uint 16 u); try reflexivity. rewrite Z.mul_1_l, wrap64_idem. reflexivity.
Qed.

Lemma cut16_hex u : u <> [] -> forallb is_hex_lc u = true ->
  parse_uint 16 (cut16 u) = PuOk (num_value 16 (cut16 u)) /\
  wrap64 (Z.of_N (num_value 16 (cut16 u))) = wrap64 (Z.of_N (num_value 16 u)).
Proof.
  intros Hne Hall. unfold cut16. destruct (16 <? length u)%nat eqn:E.
  - assert (H16 : (16 < length u)%nat) by lia.
    destruct (lastn_app16 u H16) as (pre & Hs & Hl).
    assert (Hall' : forallb is_hex_lc (lastn 16 u) = true).
    { rewrite Hs in Hall. apply forallb_app_iff in Hall as [_ H]. exact H. }
    assert (Hne' : lastn 16 u <> []) by (intros H0; rewrite H0 in Hl; discriminate).
    split; [|apply wrap64_last16; exact H16].
    rewrite (parse_uint_hex _ Hne' Hall').
    pose proof (num_value16_small _ Hall' ltac:(lia)) as Hsm.
    destruct (num_value 16 (lastn 16 u) <=? max_u64) eqn:E2; [reflexivity|lia].
  - split; [|reflexivity]. rewrite (parse_uint_hex _ Hne Hall).
    pose proof (num_value16_small _ Hall ltac:(lia)) as Hsm.
    destruct (num_value 16 u <=? max_u64) eqn:E2; [reflexivity|lia].
Qed.

Lemma hex_tail_hex rest : rest <> [] -> forallb is_hex_lc rest = true ->
  hex_tail (48 :: 120 :: rest) = Ok (Some (int64_of (Z.of_N (num_value 16 rest)))).
Proof.
  intros Hne Hall. rewrite hex_tail_unfold by reflexivity.
  destruct (cut16_hex rest Hne Hall) as [H1 H2]. rewrite H1, H2. reflexivity.
Qed.

(* parse_uint 16 succeeds on clean lower-case text only if it is made of hex digits *)
Lemma parse_uint16_ok_hex u v : forallb lc_char u = true -> parse_uint 16 u = PuOk v ->
  u <> [] /\ forallb is_hex_lc u = true.
Proof.
  intros Hlc H. destruct (parse_uint_inv _ _ _ H) as [Hne Hd]. split; [exact Hne|].
  apply forallb_forall. intros x Hx. destruct (Hd x Hx) as (d & Hpd & Hlt).
  exact (pu_digit_lt16 x d (forallb_In _ _ _ Hlc Hx) Hpd Hlt).
Qed.
Lemma parse_uint10_ok_dec u v : parse_uint 10 u = PuOk v -> u <> [] /\ forallb is_digit u = true.
Proof.
  intros H. destruct (parse_uint_inv _ _ _ H) as [Hne Hd]. split; [exact Hne|].
  apply forallb_forall. intros x Hx. destruct (Hd x Hx) as (d & Hpd & Hlt).
  exact (pu_digit_lt10 x d Hpd Hlt).
Qed.

(* ---------- parseInteger ---------- *)
Definition pi_nf (t : list N) : option Z :=
  if num_digits1 num_digit t then
    (if num_value 10 t <=? max_int64 then Some (Z.of_N (num_value 10 t)) else None)
  else if num_is_hex_int t then Some (int64_of (Z.of_N (num_value 16 (skipn 2 t)))) else None.

Theorem parse_integer_char t : lc_clean t -> parse_integer_on t = Ok (pi_nf t).
Proof.
  intros Hcl. unfold parse_integer_on, pi_nf. destruct t as [|c r]; [reflexivity|].
  rewrite len_pos_cons. destruct (lc_clean_head _ _ Hcl) as (Hsg & Hc & Hr).
  destruct (not_sign_43 c Hsg) as [Hp Hm].
  unfold is_simple_integer. rewrite idx_0. cbn [rbind]. rewrite Hsg, andb_false_r.
  cbn [rbind]. rewrite digits1_cons, <- is_digit_fn.
  destruct (forallb is_digit (c :: r)) eqn:Hd.
  - (* decimal *)
    cbn [rbind negb andb]. rewrite Hp. cbn [rbind].
    rewrite (not_contains_if_missing s_0x (c :: r) 120) by (first [exact (digits_no_x _ Hd)|cbn; auto]).
    cbn [negb]. unfold parse_int. rewrite Hsg, Hm.
    rewrite (parse_uint_dec (c :: r)) by (auto; discriminate).
    unfold max_int64, max_u64.
    destruct (num_value 10 (c :: r) <=? 18446744073709551615) eqn:E1;
      destruct (num_value 10 (c :: r) <=? 9223372036854775807) eqn:E2; try lia; cbn [negb andb].
    + destruct (9223372036854775808 <=? num_value 10 (c :: r)) eqn:E3; [lia|reflexivity].
    + destruct (9223372036854775808 <=? num_value 10 (c :: r)) eqn:E3; [reflexivity|lia].
    + reflexivity.
  - (* not decimal: hex test *)
    unfold is_hex_integer. rewrite (hex_head_char _ Hcl). cbn [rbind]. rewrite hex_rest_is_hex_int.
    destruct (hex_rest (c :: r)) as [rest|] eqn:Hh; cbn [rbind]; [|reflexivity].
    destruct (forallb is_hex_lc rest) eqn:Hx; cbn [negb andb]; [|reflexivity].
    destruct (hex_rest_some _ _ Hh) as [Ht Hne]. injection Ht as -> ->.
    change (48 =? 43) with false. cbn [rbind skipn]. change (contains s_0x (48 :: 120 :: rest)) with true.
    cbn [negb]. apply hex_tail_hex; assumption.
Qed.

(* ---------- parseHexFloat ---------- *)
Lemma re_hex_float_fn : re_hex_float = num_mant_exp num_hexdigit 112.
Proof. reflexivity. Qed.

Lemma index_byte_none (p : N -> bool) c s : forallb p s = true -> p c = false -> index_byte c s = (-1)%Z.
Proof.
  intros Hs Hc. induction s as [|a s IH]; [reflexivity|].
  cbn in Hs. apply andb_true_iff in Hs as [Ha Hs]. cbn [index_byte].
  destruct (a =? c) eqn:E; [apply N.eqb_eq in E; congruence|]. rewrite (IH Hs). reflexivity.
Qed.
Lemma index_byte_app (p : N -> bool) c a r : forallb p a = true -> p c = false -> index_byte c (a ++ c :: r) = len a.
Proof.
  intros Ha Hc. induction a as [|x a IH]; cbn [app index_byte].
  - rewrite N.eqb_refl. reflexivity.
  - cbn in Ha. apply andb_true_iff in Ha as [Hx Ha].
    destruct (x =? c) eqn:E; [apply N.eqb_eq in E; congruence|]. rewrite (IH Ha), len_cons.
    pose proof (len_nonneg a). destruct (len a <? 0)%Z eqn:E2; lia.
Qed.

(* the part of parseHexFloat after the exponent: fraction and integral part *)
Definition phf_mant (str : list N) : Res bool :=
  let idxOfDot := index_byte 46 str in
  do r2 <- (if (0 <=? idxOfDot)%Z then
              do digits <- slice_from str (idxOfDot + 1)%Z;
              do str <- slice str 0 idxOfDot;
              if (len str =? 0)%Z && (len digits =? 0)%Z then Ok None
              else if forallb is_hex_lc digits then Ok (Some str) else Ok None
            else Ok (Some str));
  match r2 with
  | None => Ok false
  | Some str => Ok (forallb is_hex_lc str)
  end.

Lemma phf_mant_true m pt : Mantissa is_hex_lc m pt -> phf_mant m = Ok true.
Proof.
  intros [a [Hne Ha]|a b Ha Hb Hab]; unfold phf_mant.
  - rewrite (index_byte_none is_hex_lc 46 a Ha eq_refl). cbn. rewrite Ha. reflexivity.
  - rewrite (index_byte_app is_hex_lc 46 a b Ha eq_refl).
    pose proof (len_nonneg a) as Hla. destruct (0 <=? len a)%Z eqn:E; [|lia].
    change (a ++ 46 :: b) with (a ++ [46] ++ b). rewrite app_assoc.
    replace (len a + 1)%Z with (len (a ++ [46])) by (rewrite len_app; reflexivity).
    rewrite slice_from_app. cbn [rbind]. rewrite <- app_assoc. rewrite slice_prefix. cbn [rbind].
    assert (Hz : (len a =? 0)%Z && (len b =? 0)%Z = false).
    { destruct a; [destruct b; [exfalso; apply Hab; reflexivity|]|]; rewrite ?len_cons, ?len_nil.
      - pose proof (len_nonneg b). lia.
      - pose proof (len_nonneg a). lia. }
    rewrite Hz, Hb. cbn [rbind]. rewrite Ha. reflexivity.
Qed.

Lemma mantissa_nonempty isd m pt : Mantissa isd m pt -> m <> [].
Proof. intros [a [Hne _]|a b _ _ _]; [exact Hne|]. destruct a; discriminate. Qed.
Lemma mantissa_hex_no_p m pt : Mantissa is_hex_lc m pt -> forallb (fun x => is_hex_lc x || (x =? 46)) m = true.
Proof.
  intros Hm. apply forallb_forall. intros x Hx.
  destruct (mantissa_chars _ _ _ _ Hm Hx) as [H| ->]; [rewrite H; reflexivity|reflexivity].
Qed.

Theorem parse_hex_float_char str : parse_hex_float str = Ok (re_hex_float str).
Proof.
  unfold parse_hex_float. destruct (re_hex_float str) eqn:Hre; [|reflexivity]. cbn [negb].
  rewrite re_hex_float_fn in Hre. destruct (mant_exp_sound _ _ _ Hre) as (m & pt & e & -> & Hm & He & _).
  rewrite <- is_hex_fn in Hm. fold (phf_mant).
  pose proof (mantissa_hex_no_p m pt Hm) as Hmp. pose proof (mantissa_nonempty _ _ _ Hm) as Hmne.
  assert (Hgoal : forall r, r = Ok (Some m) ->
     (do r0 <- r; match r0 with None => Ok false | Some str => phf_mant str end) = Ok true).
  { intros r ->. cbn [rbind]. exact (phf_mant_true m pt Hm). }
  inversion He as [He0|sg ds Hsg [Hdne Hds] He0]; subst.
  - (* no exponent *)
    rewrite app_nil_r. rewrite (index_byte_none _ 112 m Hmp eq_refl). cbn [Z.ltb Z.compare].
    apply Hgoal. reflexivity.
  - rewrite (index_byte_app _ 112 m (sg ++ ds) Hmp eq_refl).
    assert (Hlm : (0 <? len m)%Z = true).
    { destruct m; [congruence|]. rewrite len_cons. pose proof (len_nonneg m). lia. }
    rewrite Hlm. apply Hgoal.
    change (m ++ 112 :: sg ++ ds) with (m ++ [112] ++ (sg ++ ds)). rewrite app_assoc.
    replace (len m + 1)%Z with (len (m ++ [112])) by (rewrite len_app; reflexivity).
    rewrite slice_from_app. cbn [rbind]. rewrite <- app_assoc. rewrite slice_prefix. cbn [rbind].
    rewrite <- is_digit_fn in Hds.
    assert (Hdig : exists d ds', ds = d :: ds' /\ is_digit d = true).
    { destruct ds as [|d ds']; [congruence|]. cbn in Hds. apply andb_true_iff in Hds as [Hd _]. eauto. }
    destruct Hdig as (d & ds' & Hds' & Hd).
    assert (Hdsg : is_sign d = false) by (unfold is_sign; unfold is_digit in Hd; lia).
    assert (Hlen : (len m =? 0)%Z || (len ds =? 0)%Z = false).
    { rewrite Hds', len_cons. pose proof (len_nonneg ds'). lia. }
    destruct Hsg as [->|[->| ->]]; cbn [app].
    + rewrite Hds'. rewrite idx_0. cbn [rbind]. rewrite Hdsg. cbn [rbind]. rewrite <- Hds'. rewrite Hlen, Hds. reflexivity.
    + rewrite idx_0. cbn [rbind]. change (is_sign 43) with true. cbn iota. rewrite slice_from_1. cbn [rbind].
      rewrite Hlen, Hds. reflexivity.
    + rewrite idx_0. cbn [rbind]. change (is_sign 45) with true. cbn iota. rewrite slice_from_1. cbn [rbind].
      rewrite Hlen, Hds. reflexivity.
Qed.

(* ---------- parseFloat ---------- *)
Definition pf_nf (t : list N) : bool :=
  num_mant_exp num_digit 101 t
  || match num_hex_body t with Some r => num_mant_exp num_hexdigit 112 r | None => false end.

Lemma mant_exp_chars isd mark t c : num_mant_exp isd mark t = true -> In c t ->
  isd c = true \/ c = 46 \/ c = mark \/ c = 43 \/ c = 45 \/ num_digit c = true.
Proof.
  intros H Hin. destruct (mant_exp_sound _ _ _ H) as (m & pt & e & -> & Hm & He & _).
  apply in_app_or in Hin as [Hin|Hin].
  - destruct (mantissa_chars _ _ _ _ Hm Hin); auto.
  - destruct (exponent_chars _ _ _ _ He Hin) as [?|[?|[?|?]]]; auto 10.
Qed.

Lemma pf_nf_chars t c : pf_nf t = true -> In c t ->
  num_hexdigit c = true \/ c = 46 \/ c = 101 \/ c = 112 \/ c = 43 \/ c = 45 \/ c = 120.
Proof.
  unfold pf_nf. intros H Hin. apply orb_true_iff in H as [H|H].
  - destruct (mant_exp_chars _ _ _ _ H Hin) as [?|[?|[?|[?|[?|?]]]]]; auto 10 using hexdigit_of_digit.
  - destruct (num_hex_body t) as [r|] eqn:Hb; [|discriminate]. apply num_hex_body_some in Hb. subst t.
    destruct Hin as [<-|[<-|Hin]]; [left; reflexivity|auto 10|].
    destruct (mant_exp_chars _ _ _ _ H Hin) as [?|[?|[?|[?|[?|?]]]]]; auto 10 using hexdigit_of_digit.
Qed.

Lemma pf_nf_no_nan_inf t : contains s_nan t || contains s_inf t = true -> pf_nf t = false.
Proof.
  intros H. destruct (pf_nf t) eqn:E; [|reflexivity]. exfalso.
  apply orb_true_iff in H as [H|H].
  - assert (Hin : In 110 t) by (apply (contains_incl _ _ H); cbn; auto).
    destruct (pf_nf_chars _ _ E Hin) as [?|[?|[?|[?|[?|[?|?]]]]]]; discriminate.
  - assert (Hin : In 105 t) by (apply (contains_incl _ _ H); cbn; auto).
    destruct (pf_nf_chars _ _ E Hin) as [?|[?|[?|[?|[?|[?|?]]]]]]; discriminate.
Qed.

Lemma has_prefix_0x t :
  has_prefix s_0x t = match t with a :: b :: _ => (a =? 48) && (b =? 120) | _ => false end.
Proof.
  destruct t as [|a [|b r]]; unfold s_0x; cbn [has_prefix];
    rewrite ?(N.eqb_sym 48), ?(N.eqb_sym 120), ?andb_true_r, ?andb_false_r; reflexivity.
Qed.

Theorem parse_float_char t : lc_clean t -> parse_float_on t = Ok (pf_nf t).
Proof.
  intros Hcl. unfold parse_float_on.
  destruct (contains s_nan t || contains s_inf t) eqn:Hni; [rewrite (pf_nf_no_nan_inf _ Hni); reflexivity|].
  destruct t as [|a r]; [reflexivity|].
  destruct (lc_clean_head _ _ Hcl) as (Hsg & Ha & Hr). destruct (not_sign_43 a Hsg) as [Hp Hm].
  assert (Hp0 : has_prefix s_p0x (a :: r) = false) by (unfold s_p0x; cbn [has_prefix]; rewrite N.eqb_sym, Hp; reflexivity).
  assert (Hm0 : has_prefix s_m0x (a :: r) = false) by (unfold s_m0x; cbn [has_prefix]; rewrite N.eqb_sym, Hm; reflexivity).
  rewrite Hp0, Hm0. cbn [andb]. rewrite has_prefix_0x.
  destruct r as [|b r].
  - (* one character *)
    cbn [andb]. f_equal. rewrite go_parse_float_ok_char; try assumption; [|intros r0; discriminate].
    unfold pf_nf. cbn [num_hex_body]. rewrite orb_false_r. reflexivity.
  - destruct ((a =? 48) && (b =? 120)) eqn:Hpre.
    + apply andb_true_iff in Hpre as [E1 E2]. apply N.eqb_eq in E1, E2. subst a b.
      destruct r as [|c r'].
      * (* exactly "0x" *) vm_compute. reflexivity.
      * assert (Hlen : Z.ltb 2 (len (48 :: 120 :: c :: r')) = true) by (rewrite !len_cons; pose proof (len_nonneg r'); lia).
        rewrite Hlen. cbn [andb]. rewrite slice_from_2. cbn [rbind].
        rewrite parse_hex_float_char, re_hex_float_fn. reflexivity.
    + cbn [andb]. f_equal. rewrite go_parse_float_ok_char; try assumption.
      * unfold pf_nf, num_hex_body. rewrite Hpre, orb_false_r. reflexivity.
      * intros r0 Heq. injection Heq as -> -> _. cbn in Hpre. discriminate.
Qed.

(* ---------- parseLuajitNum: the two is* tests ---------- *)
Definition is_jit_suffix (q : list N) : bool := beq_bytes q s_ull || beq_bytes q s_ll.

Lemma is_jit_suffix_iff q : is_jit_suffix q = true <-> JitSuffix q.
Proof. unfold is_jit_suffix, JitSuffix. rewrite orb_true_iff, !beq_bytes_eq. unfold s_ull, s_ll. tauto. Qed.

(* one or more p-characters followed by exactly ll / ull *)
Definition shape_ok (p : N -> bool) (s : list N) : bool :=
  let (a, q) := span p s in
  match q with [] => false | _ => match a with [] => false | _ => is_jit_suffix q end end.

Definition simple_nf (t : list N) : bool := shape_ok is_digit t.
Definition hexok_nf (t : list N) : bool :=
  match hex_rest t with None => false | Some rest => shape_ok is_hex_lc rest end.

Lemma luajit_simple_char c r : lc_clean (c :: r) -> is_luajit_simple_integer (c :: r) = Ok (simple_nf (c :: r)).
Proof.
  intros Hcl. destruct (lc_clean_head _ _ Hcl) as (Hsg & _ & _).
  unfold is_luajit_simple_integer. rewrite idx_0. cbn [rbind]. rewrite Hsg, andb_false_r.
  rewrite first_fail_span. unfold simple_nf, shape_ok. destruct (span is_digit (c :: r)) as [a q] eqn:E.
  destruct (span_spec _ _ _ _ E) as (Hs & _ & _).
  destruct q as [|x q']; [reflexivity|]. rewrite Z.add_0_l, Z.sub_0_r.
  destruct a as [|y a']; [reflexivity|].
  assert (Hl : (len (y :: a') =? 0)%Z = false) by (rewrite len_cons; pose proof (len_nonneg a'); lia).
  rewrite Hl. rewrite Hs at 1. rewrite slice_from_app. reflexivity.
Qed.

Lemma luajit_hex_char t : lc_clean t -> is_luajit_hex_integer t = Ok (hexok_nf t).
Proof.
  intros Hcl. unfold is_luajit_hex_integer, hexok_nf. rewrite (hex_head_char _ Hcl). cbn [rbind].
  destruct (hex_rest t) as [rest|]; [|reflexivity].
  rewrite first_fail_span. unfold shape_ok. destruct (span is_hex_lc rest) as [a q] eqn:E.
  destruct (span_spec _ _ _ _ E) as (Hs & _ & _).
  destruct q as [|x q']; [reflexivity|]. rewrite Z.add_0_l.
  destruct a as [|y a']; [reflexivity|].
  assert (Hl : (len (y :: a') <=? 0)%Z = false) by (rewrite len_cons; pose proof (len_nonneg a'); lia).
  rewrite Hl. rewrite Hs at 1. rewrite slice_from_app. reflexivity.
Qed.

(* ---------- parseLuajitNum: the body ---------- *)
Definition body_nf (t : list N) : Res (option Z) :=
  if (length t <? 3)%nat then Fault IndexRange else
  let u := strip23 t in
  if negb (contains s_0x u) then
    match parse_uint 10 u with PuOk i => Ok (Some (wrap64 (Z.of_N i))) | _ => Ok None end
  else hex_tail u.

Lemma slice_firstn s k : (0 <= k <= len s)%Z -> slice s 0 k = Ok (firstn (Z.to_nat k) s).
Proof.
  intros H. unfold slice. destruct ((0 <? 0)%Z || (k <? 0)%Z || (len s <? k)%Z) eqn:E; [lia|].
  rewrite Z.sub_0_r. reflexivity.
Qed.

Lemma luajit_body_char c r : lc_clean (c :: r) -> luajit_body (c :: r) = body_nf (c :: r).
Proof.
  intros Hcl. destruct (lc_clean_head _ _ Hcl) as (Hsg & _ & _). destruct (not_sign_43 c Hsg) as [Hp _].
  unfold luajit_body, body_nf. rewrite idx_0. cbn [rbind]. rewrite Hp. cbn [rbind].
  set (t := c :: r). destruct (length t <? 3)%nat eqn:El.
  - rewrite idx_fault; [reflexivity|]. unfold len. lia.
  - assert (H3 : (3 <= length t)%nat) by lia.
    rewrite idx_nth by (unfold len; lia). cbn [rbind]. unfold strip23.
    replace (Z.to_nat (len t - 3)) with (length t - 3)%nat by (unfold len; lia).
    destruct (nth (length t - 3) t 0 =? 117).
    + rewrite slice_firstn by (unfold len; lia). cbn [rbind].
      replace (Z.to_nat (len t - 3)) with (length t - 3)%nat by (unfold len; lia). reflexivity.
    + rewrite slice_firstn by (unfold len; lia). cbn [rbind].
      replace (Z.to_nat (len t - 2)) with (length t - 2)%nat by (unfold len; lia). reflexivity.
Qed.

Definition acc_nf (t : list N) : bool := simple_nf t || hexok_nf t.

Lemma parse_luajit_on_char t : lc_clean t ->
  parse_luajit_on t = match t with [] => Ok None | _ => if acc_nf t then body_nf t else Ok None end.
Proof.
  intros Hcl. destruct t as [|c r]; [reflexivity|]. unfold parse_luajit_on. rewrite len_pos_cons.
  rewrite (luajit_simple_char _ _ Hcl). cbn [rbind]. unfold acc_nf.
  destruct (simple_nf (c :: r)); cbn [rbind negb andb orb].
  - apply (luajit_body_char _ _ Hcl).
  - rewrite (luajit_hex_char _ Hcl). cbn [rbind]. destruct (hexok_nf (c :: r)); cbn [negb].
    + apply (luajit_body_char _ _ Hcl).
    + reflexivity.
Qed.

(* ---------- strip23 ---------- *)
Lemma strip23_jit (isd : N -> bool) i suf :
  i <> [] -> forallb isd i = true -> isd 117 = false -> JitSuffix suf -> strip23 (i ++ suf) = i.
Proof.
  intros Hne Hall H117 Hsuf. unfold strip23. rewrite app_length.
  assert (Hli : (1 <= length i)%nat) by (destruct i; [congruence|cbn; lia]).
  destruct Hsuf as [->| ->]; cbn [length].
  - replace (length i + 2 - 3)%nat with (length i - 1)%nat by lia.
    rewrite app_nth1 by lia.
    assert (Hin : In (nth (length i - 1) i 0) i) by (apply nth_In; lia).
    pose proof (forallb_In _ _ _ Hall Hin) as Hx.
    destruct (nth (length i - 1) i 0 =? 117) eqn:E; [apply N.eqb_eq in E; congruence|].
    replace (length i + 2 - 2)%nat with (length i + 0)%nat by lia.
    rewrite firstn_app_2. cbn [firstn]. apply app_nil_r.
  - replace (length i + 3 - 3)%nat with (length i) by lia.
    rewrite app_nth2 by lia. rewrite Nat.sub_diag. cbn [nth]. rewrite N.eqb_refl.
    replace (length i) with (length i + 0)%nat at 1 by lia. rewrite firstn_app_2. cbn [firstn]. apply app_nil_r.
Qed.

(* ---------- the LuaJIT part of the spec ---------- *)
Definition pl_nf (t : list N) : option Z :=
  match num_strip_jit t with
  | Some i =>
    if num_digits1 num_digit i then
      (if num_value 10 i <? two64 then Some (int64_of (Z.of_N (num_value 10 i))) else None)
    else if num_is_hex_int i then Some (int64_of (Z.of_N (num_value 16 (skipn 2 i)))) else None
  | None => None
  end.

Lemma stops_suffix (p : N -> bool) suf : JitSuffix suf -> p 108 = false -> p 117 = false -> stops p suf.
Proof. intros [->| ->] H1 H2; cbn; assumption. Qed.

Lemma pl_nf_shape t v : pl_nf t = Some v ->
  (exists i suf, t = i ++ suf /\ i <> [] /\ forallb is_digit i = true /\ JitSuffix suf) \/
  (exists hs suf, t = 48 :: 120 :: hs ++ suf /\ hs <> [] /\ forallb is_hex_lc hs = true /\ JitSuffix suf).
Proof.
  unfold pl_nf. destruct (num_strip_jit t) as [i|] eqn:Hs; [|discriminate].
  apply strip_jit_sound in Hs.
  assert (Hsuf : exists suf, t = i ++ suf /\ JitSuffix suf).
  { destruct Hs as [Hs|Hs]; [exists [108; 108]|exists [117; 108; 108]]; unfold JitSuffix; auto. }
  destruct Hsuf as (suf & -> & Hsuf).
  destruct (num_digits1 num_digit i) eqn:Hd.
  - intros _. left. apply num_digits1_iff in Hd as [Hne Hall]. exists i, suf. rewrite is_digit_fn. auto.
  - destruct (num_is_hex_int i) eqn:Hh; [|discriminate]. intros _. right.
    apply num_is_hex_int_iff in Hh as (hs & -> & [Hne Hall]). exists hs, suf. rewrite is_hex_fn. auto.
Qed.

Lemma pl_nf_dec i suf : i <> [] -> forallb is_digit i = true -> JitSuffix suf ->
  pl_nf (i ++ suf) = if num_value 10 i <? two64 then Some (int64_of (Z.of_N (num_value 10 i))) else None.
Proof.
  intros Hne Hall Hsuf. unfold pl_nf.
  assert (Hd : Digits1 num_digit i) by (split; [exact Hne|rewrite <- is_digit_fn; exact Hall]).
  rewrite (strip_jit_complete num_digit i suf Hd eq_refl Hsuf).
  apply num_digits1_iff in Hd. rewrite Hd. reflexivity.
Qed.

Lemma pl_nf_hex hs suf : hs <> [] -> forallb is_hex_lc hs = true -> JitSuffix suf ->
  pl_nf (48 :: 120 :: hs ++ suf) = Some (int64_of (Z.of_N (num_value 16 hs))).
Proof.
  intros Hne Hall Hsuf. unfold pl_nf.
  change (48 :: 120 :: hs ++ suf) with ((48 :: 120 :: hs) ++ suf).
  assert (Hd1 : Digits1 (fun x => num_hexdigit x || (x =? 120)) (48 :: 120 :: hs)).
  { split; [discriminate|]. cbn. apply forallb_forall. intros x Hx.
    rewrite <- is_hex_fn. rewrite (forallb_In _ _ _ Hall Hx). reflexivity. }
  rewrite (strip_jit_complete _ _ suf Hd1 eq_refl Hsuf).
  rewrite (not_digits1_if_has num_digit (48 :: 120 :: hs) 120) by (cbn; auto).
  assert (Hh2 : num_is_hex_int (48 :: 120 :: hs) = true).
  { apply num_is_hex_int_iff. exists hs. split; [reflexivity|]. split; [exact Hne|rewrite <- is_hex_fn; exact Hall]. }
  rewrite Hh2. reflexivity.
Qed.

(* t is not of a LuaJIT shape when neither span shows digits followed by a suffix *)
Lemma pl_nf_none t : simple_nf t = false -> hexok_nf t = false -> pl_nf t = None.
Proof.
  unfold simple_nf, hexok_nf, shape_ok. intros H1 H2. destruct (pl_nf t) as [v|] eqn:E; [|reflexivity]. exfalso.
  destruct (pl_nf_shape _ _ E) as [(i & suf & -> & Hne & Hall & Hsuf)|(hs & suf & -> & Hne & Hall & Hsuf)].
  - rewrite (span_app is_digit i suf Hall (stops_suffix _ _ Hsuf eq_refl eq_refl)) in H1.
    apply is_jit_suffix_iff in Hsuf. rewrite Hsuf in H1.
    destruct suf; [discriminate|]. destruct i; [congruence|discriminate].
  - assert (Hr : hex_rest (48 :: 120 :: hs ++ suf) = Some (hs ++ suf)).
    { destruct hs as [|h hs']; [congruence|]. reflexivity. }
    rewrite Hr in H2. rewrite (span_app is_hex_lc hs suf Hall (stops_suffix _ _ Hsuf eq_refl eq_refl)) in H2.
    apply is_jit_suffix_iff in Hsuf. rewrite Hsuf in H2.
    destruct suf; [discriminate|]. destruct hs; [congruence|discriminate].
Qed.

Lemma length_app_suffix (i suf : list N) : i <> [] -> JitSuffix suf -> (3 <= length (i ++ suf))%nat.
Proof.
  intros Hne Hsuf. rewrite app_length. destruct i; [congruence|]. destruct Hsuf as [->| ->]; cbn [length]; lia.
Qed.

(* parseLuajitNum is exactly the LuaJIT part of the spec, on every clean lower-case text *)
Theorem parse_luajit_char t : lc_clean t -> parse_luajit_on t = Ok (pl_nf t).
Proof.
  intros Hcl. rewrite (parse_luajit_on_char t Hcl). destruct t as [|c r]; [reflexivity|].
  remember (c :: r) as t eqn:Et. unfold acc_nf.
  destruct (simple_nf t) eqn:Hsim.
  { (* digits followed by ll / ull *)
    cbn [orb]. unfold simple_nf, shape_ok in Hsim. destruct (span is_digit t) as [a q] eqn:E1.
    destruct (span_spec _ _ _ _ E1) as (Ht & Ha & Hq).
    destruct q as [|x q']; [discriminate|]. destruct a as [|y a']; [discriminate|].
    apply is_jit_suffix_iff in Hsim. assert (Hne : y :: a' <> []) by discriminate.
    rewrite Ht. rewrite (pl_nf_dec _ _ Hne Ha Hsim).
    unfold body_nf. pose proof (length_app_suffix _ _ Hne Hsim) as H3.
    assert (El : (length ((y :: a') ++ x :: q') <? 3)%nat = false) by lia. rewrite El. cbv zeta.
    rewrite (strip23_jit is_digit _ _ Hne Ha eq_refl Hsim).
    rewrite (not_contains_if_missing s_0x (y :: a') 120) by (first [exact (digits_no_x _ Ha)|cbn; auto]).
    cbn [negb]. rewrite (parse_uint_dec _ Hne Ha). unfold two64, max_u64.
    destruct (num_value 10 (y :: a') <=? 18446744073709551615) eqn:E2;
      destruct (num_value 10 (y :: a') <? 18446744073709551616) eqn:E3; try lia; reflexivity. }
  cbn [orb]. destruct (hexok_nf t) eqn:Hhex.
  2:{ rewrite (pl_nf_none t Hsim Hhex). reflexivity. }
  (* "0x", hex digits, ll / ull *)
  unfold hexok_nf in Hhex. destruct (hex_rest t) as [rest|] eqn:Hh; [|discriminate].
  destruct (hex_rest_some _ _ Hh) as [Ht' Hrne].
  unfold shape_ok in Hhex. destruct (span is_hex_lc rest) as [hs q2] eqn:E2.
  destruct (span_spec _ _ _ _ E2) as (Hrest & Hhs & Hq2).
  destruct q2 as [|x2 q2']; [discriminate|]. destruct hs as [|h hs']; [discriminate|].
  apply is_jit_suffix_iff in Hhex. assert (Hne : h :: hs' <> []) by discriminate.
  rewrite Ht', Hrest. rewrite (pl_nf_hex _ _ Hne Hhs Hhex).
  unfold body_nf.
  change (48 :: 120 :: (h :: hs') ++ x2 :: q2') with ((48 :: 120 :: h :: hs') ++ x2 :: q2').
  assert (Hne2 : 48 :: 120 :: h :: hs' <> []) by discriminate.
  pose proof (length_app_suffix _ _ Hne2 Hhex) as H3'.
  assert (El : Nat.ltb (length ((48 :: 120 :: h :: hs') ++ x2 :: q2')) 3 = false) by lia. rewrite El. cbv zeta.
  assert (Hall2 : forallb (fun z => is_hex_lc z || (z =? 120)) (48 :: 120 :: h :: hs') = true).
  { apply forallb_forall. intros z [<-|[<-|Hz]]; [reflexivity|reflexivity|].
    rewrite (forallb_In _ _ _ Hhs Hz). reflexivity. }
  rewrite (strip23_jit _ _ _ Hne2 Hall2 eq_refl Hhex).
  change (contains s_0x (48 :: 120 :: h :: hs')) with true. cbn [negb].
  apply hex_tail_hex; assumption.
Qed.

(* ---------- parseNumberExp ---------- *)
Definition class_of (o : option numeral_value) : num_class :=
  match o with Some (IntegerValue v) => NumInt v | Some FloatValue => NumFloat | None => NumBad end.

Definition classify_nf (t : list N) : num_class :=
  match pi_nf t with
  | Some v => NumInt v
  | None => if pf_nf t then NumFloat else match pl_nf t with Some v => NumInt v | None => NumBad end
  end.

Theorem classify_char s : num_clean s = true -> classify_number s = Ok (classify_nf (to_lower s)).
Proof.
  intros Hcl. destruct (clean_lower s Hcl) as [Htrim Hlc]. unfold classify_number.
  rewrite parse_integer_on_eq, parse_float_on_eq, parse_luajit_on_eq, Htrim.
  set (t := to_lower s) in *. rewrite (parse_integer_char t Hlc). cbn [rbind]. unfold classify_nf.
  destruct (pi_nf t) eqn:Hpi; [reflexivity|]. rewrite (parse_float_char t Hlc). cbn [rbind].
  destruct (pf_nf t) eqn:Hpf; [reflexivity|]. rewrite (parse_luajit_char t Hlc). cbn [rbind].
  destruct (pl_nf t); reflexivity.
Qed.

Lemma hex_int_value_skipn i : num_is_hex_int i = true ->
  num_hex_int_value i = IntegerValue (int64_of (Z.of_N (num_value 16 (skipn 2 i)))).
Proof. intros H. apply num_is_hex_int_iff in H as (hs & -> & _). reflexivity. Qed.

(* the spec, arranged in the order of the code *)
Lemma spec_value_lc_nf t :
  spec_value_lc t =
  match pi_nf t with
  | Some v => Some (IntegerValue v)
  | None => if pf_nf t then Some FloatValue else option_map IntegerValue (pl_nf t)
  end.
Proof.
  unfold spec_value_lc, pi_nf. destruct (num_digits1 num_digit t) eqn:Hd.
  - destruct (num_value 10 t <=? max_int64); [reflexivity|].
    apply num_digits1_iff in Hd as [Hne Hall].
    assert (Hpf : pf_nf t = true).
    { unfold pf_nf, num_mant_exp. rewrite <- (app_nil_r t) at 1. rewrite (num_span_app num_digit t [] Hall I).
      apply num_nonempty_true in Hne. rewrite Hne. reflexivity. }
    rewrite Hpf. reflexivity.
  - destruct (num_is_hex_int t) eqn:Hh; [rewrite (hex_int_value_skipn t Hh); reflexivity|].
    fold (pf_nf t). destruct (pf_nf t); [reflexivity|].
    unfold pl_nf. destruct (num_strip_jit t) as [i|]; [|reflexivity].
    destruct (num_digits1 num_digit i).
    + destruct (num_value 10 i <? two64); reflexivity.
    + destruct (num_is_hex_int i) eqn:Hi; [rewrite (hex_int_value_skipn i Hi); reflexivity|reflexivity].
Qed.

Lemma to_lower_lc s : map num_lc s = to_lower s.
Proof. unfold to_lower. rewrite lower_fn. reflexivity. Qed.

Lemma class_of_spec_nf s : class_of (spec_value s) = classify_nf (to_lower s).
Proof.
  unfold spec_value. rewrite to_lower_lc, spec_value_lc_nf. unfold classify_nf.
  destruct (pi_nf (to_lower s)); [reflexivity|]. destruct (pf_nf (to_lower s)); [reflexivity|].
  destruct (pl_nf (to_lower s)); reflexivity.
Qed.

(* On every clean text (no white space, no underscore, no leading sign) the parser's classification is the
   grammar's: node kind, integer value, or "not a number"; in particular no Go panic. *)
Theorem number_classify_exact s :
  num_clean s = true -> classify_number s = Ok (class_of (spec_value s)).
Proof. intros Hcl. rewrite (classify_char s Hcl), class_of_spec_nf. reflexivity. Qed.

Corollary number_no_fault s : num_clean s = true -> exists c, classify_number s = Ok c.
Proof. intros Hcl. rewrite (number_classify_exact s Hcl). eauto. Qed.

Corollary number_numeral_complete s v :
  num_clean s = true -> Denotes s v -> classify_number s = Ok (class_of (Some v)).
Proof. intros Hcl Hv. apply spec_value_iff in Hv. rewrite <- Hv. exact (number_classify_exact s Hcl). Qed.

Theorem number_ok_iff s : num_clean s = true -> (number_accepted s = true <-> Numeral s).
Proof.
  intros Hcl. unfold number_accepted. rewrite (number_classify_exact s Hcl).
  rewrite <- spec_numeral_iff. destruct (spec_value s) as [[v|]|]; cbn [class_of]; split; congruence.
Qed.

Theorem number_bad_iff s : num_clean s = true -> (classify_number s = Ok NumBad <-> ~ Numeral s).
Proof.
  intros Hcl. rewrite (number_classify_exact s Hcl). rewrite <- spec_numeral_iff.
  destruct (spec_value s) as [[v|]|]; cbn [class_of]; split; try congruence; intros H; exfalso; apply H; discriminate.
Qed.

Theorem number_int_iff s v :
  num_clean s = true -> (classify_number s = Ok (NumInt v) <-> IntegerNumeral s v).
Proof.
  intros Hcl. rewrite (number_classify_exact s Hcl). unfold IntegerNumeral. rewrite <- spec_value_iff.
  destruct (spec_value s) as [[w|]|]; cbn [class_of]; split; congruence.
Qed.

Theorem number_float_iff s :
  num_clean s = true -> (classify_number s = Ok NumFloat <-> FloatNumeral s).
Proof.
  intros Hcl. rewrite (number_classify_exact s Hcl). unfold FloatNumeral. rewrite <- spec_value_iff.
  destruct (spec_value s) as [[w|]|]; cbn [class_of]; split; congruence.
Qed.

(* ---------- lexer tokens ---------- *)
(* the texts lexer.scanNumber can cut out: they start with a digit or with '.' digit and consist of
   digits, a-f A-F, u U l L, '.', p P, x X, '+', '-'  (proved of Model/Lexer.scan_number in
   Proofs/NumberLexerToken.v) *)
Definition num_lexer_char (c : N) : bool :=
  is_digit c || ((97 <=? c) && (c <=? 102)) || ((65 <=? c) && (c <=? 70))
  || (c =? 117) || (c =? 85) || (c =? 108) || (c =? 76) || (c =? 46)
  || (c =? 112) || (c =? 80) || (c =? 120) || (c =? 88) || (c =? 43) || (c =? 45).
Definition num_token_start (s : list N) : bool :=
  match s with
  | c :: r => is_digit c || ((c =? 46) && match r with d :: _ => is_digit d | [] => false end)
  | [] => false
  end.
Definition num_lexer_token (s : list N) : bool := forallb num_lexer_char s && num_token_start s.

Lemma lexer_token_clean s : num_lexer_token s = true -> num_clean s = true.
Proof.
  unfold num_lexer_token. intros H. apply andb_true_iff in H as [Hall Hst].
  unfold num_clean. apply andb_true_iff. split.
  - apply forallb_forall. intros x Hx. pose proof (forallb_In _ _ _ Hall Hx) as Hc.
    unfold num_lexer_char, is_digit in Hc. unfold is_space. lia.
  - destruct s as [|c r]; [reflexivity|]. cbn [num_token_start] in Hst. unfold is_sign. unfold is_digit in Hst. lia.
Qed.

Corollary number_token_exact s :
  num_lexer_token s = true -> classify_number s = Ok (class_of (spec_value s)).
Proof. intros H. exact (number_classify_exact s (lexer_token_clean s H)). Qed.

Corollary number_no_fault_token s : num_lexer_token s = true -> exists c, classify_number s = Ok c.
Proof. intros H. exact (number_no_fault s (lexer_token_clean s H)). Qed.

(* for a number token: the "not a number" error is raised iff the text is no numeral *)
Theorem number_ok_token s : num_lexer_token s = true -> (classify_number s <> Ok NumBad <-> Numeral s).
Proof.
  intros H. pose proof (number_bad_iff s (lexer_token_clean s H)) as Hb. split.
  - intros Hne. destruct (spec_value s) eqn:E.
    + exists n. apply spec_value_iff. exact E.
    + exfalso. apply Hne. apply Hb. intros Hn. apply spec_numeral_iff in Hn. congruence.
  - intros Hn Hbad. apply Hb in Hbad. exact (Hbad Hn).
Qed.

(* ---------- the witnesses of the three deviation classes of the code before fix 8dd49c7 ---------- *)
Definition w_x : list N := [120].                                         (* "x" *)
Definition w_plus_ll : list N := [43; 108; 108].                          (* "+ll" *)
Definition w_0x_dot : list N := [48; 120; 46].                            (* "0x." *)
Definition w_dot_0x_cut : list N :=                                       (* ".0x0000000000000001ll" *)
  [46; 48; 120] ++ repeat 48 15 ++ [49; 108; 108].
Definition w_0x_dot_cut : list N :=                                       (* "0x.0000000000000001ll" *)
  [48; 120; 46] ++ repeat 48 15 ++ [49; 108; 108].

(* formerly: index out of range panic in parseLuajitNum (str[len(str)-3]) *)
Example number_short_junk_repaired :
  dev_short_junk w_x = true /\ classify_number w_x = Ok NumBad /\ classify_number w_plus_ll = Ok NumBad.
Proof. repeat split; vm_compute; reflexivity. Qed.

(* formerly accepted as IntegerExp 0 *)
Example number_hex_one_junk_repaired :
  num_lexer_token w_0x_dot = true /\ dev_hex_one_junk w_0x_dot = true /\ classify_number w_0x_dot = Ok NumBad.
Proof. repeat split; vm_compute; reflexivity. Qed.

(* formerly accepted as IntegerExp 1 *)
Example number_hex_cut_repaired :
  (num_lexer_token w_dot_0x_cut = true /\ dev_hex_cut w_dot_0x_cut = true /\ classify_number w_dot_0x_cut = Ok NumBad) /\
  (num_lexer_token w_0x_dot_cut = true /\ dev_hex_cut w_0x_dot_cut = true /\ classify_number w_0x_dot_cut = Ok NumBad).
Proof. repeat split; vm_compute; reflexivity. Qed.

(* non-vacuity: "0x1.8p-3", "18446744073709551615ULL", "3.", ".5e+10", "0xA", "9223372036854775808" *)
Definition w_ok : list (list N) :=
  [ [48; 120; 49; 46; 56; 112; 45; 51];
    [49; 56; 52; 52; 54; 55; 52; 52; 48; 55; 51; 55; 48; 57; 53; 53; 49; 54; 49; 53; 85; 76; 76];
    [51; 46]; [46; 53; 101; 43; 49; 48]; [48; 120; 65];
    [57; 50; 50; 51; 51; 55; 50; 48; 51; 54; 56; 53; 52; 55; 55; 53; 56; 48; 56] ].
Example number_guard_inhabited :
  forallb (fun s => num_lexer_token s && num_clean s) w_ok = true /\
  map classify_number w_ok = [Ok NumFloat; Ok (NumInt (-1)); Ok NumFloat; Ok NumFloat; Ok (NumInt 10); Ok NumFloat].
Proof. split; vm_compute; reflexivity. Qed.
