(* C13 - fix C13-long-comment-doc (Model/Comments.v, variant flag fx):
   (1) the variant fx = false IS the shared lexer model (lex_all_v false = lex_all);
   (2) the deployed variant fx = true differs from the shared model only in the text kept for long-bracket comments
       (strip simulation), hence coincides with it on every file whose comments are all `--` comments - in particular on
       file_class: every theorem of Properties/C13.v about doc_comment holds for the deployed doc_comment_v true;
   (3) gaps with long-bracket comments: skip_ws_v true records exactly the blocks of Spec.CommentSpec.items_entries;
   (4) whole files of file_class_long: documentation = spec_attach on the blocks computed from the bytes. *)
From Coq Require Import List NArith ZArith Bool Lia ZifyN ZifyNat ZifyBool.
From LH Require Import Base.Bytes Base.Res Model.Codec Model.Lexer Model.Ast Model.Parser Model.LuaFront Model.Comments
  Spec.CommentSpec.
From LH Require Import Proofs.LexerTotalProgress Proofs.LexerTotalMain Proofs.CommentsLines Proofs.CommentsGap
  Proofs.CommentsAttach Proofs.CommentsTable Proofs.CommentsFile.
Import ListNotations.
Local Open Scope Z_scope.

(* ------------------------------------------------------------------ (1) fx = false is the shared model *)
Lemma add_line_v_false : forall ci sh t ln col, add_line_v false ci sh t ln col = add_line ci sh t ln col.
Proof. intros. unfold add_line_v, add_line. rewrite orb_false_r. reflexivity. Qed.

Lemma comment_step_v_false : forall cs sh hd t ln col, comment_step_v false cs sh hd t ln col = comment_step cs sh hd t ln col.
Proof.
  intros. unfold comment_step_v, comment_step. destruct (cur cs) as [ci|]; rewrite ?add_line_v_false; [|reflexivity].
  destruct (_ || _ || _); rewrite add_line_v_false; reflexivity.
Qed.

Lemma skip_ws_f_v_false : forall f p2 p1 s cs errs, skip_ws_f_v false f p2 p1 s cs errs = skip_ws_f f p2 p1 s cs errs.
Proof.
  induction f as [|f IH]; intros p2 p1 s cs errs; [reflexivity|].
  cbn [skip_ws_f_v skip_ws_f]. destruct (chunk s) as [|c0 rest]; [reflexivity|].
  destruct (match rest with c1 :: _ => _ | [] => false end); [apply IH|].
  destruct (is_newline c0); [apply IH|]. destruct (is_white c0); [apply IH|].
  destruct (negb _); [reflexivity|]. destruct (skip_comment s) as [[[sh txt] s1] es]. rewrite comment_step_v_false. apply IH.
Qed.

Lemma skip_ws_v_false : forall p2 p1 s, skip_ws_v false p2 p1 s = skip_ws p2 p1 s.
Proof. intros. unfold skip_ws_v, skip_ws. rewrite skip_ws_f_v_false. reflexivity. Qed.

Section V.
  Variable gbk_runes : list N -> Z.

  Lemma lex_loop_v_false : forall f p2 p1 s acc, lex_loop_v false gbk_runes f p2 p1 s acc = lex_loop gbk_runes f p2 p1 s acc.
  Proof.
    induction f as [|f IH]; intros p2 p1 s acc; [reflexivity|].
    cbn [lex_loop_v lex_loop]. unfold next_token_v, next_token. rewrite skip_ws_v_false.
    destruct (skip_ws p2 p1 s) as [[s1 cms] es1]. destruct (scan_token gbk_runes s1) as [[t s2] es2]. cbn [lt].
    destruct (tk t); try apply IH; reflexivity.
  Qed.

  Theorem lex_all_v_false : forall bs, lex_all_v false gbk_runes bs = lex_all gbk_runes bs.
  Proof. intros bs. unfold lex_all_v, lex_all. apply lex_loop_v_false. Qed.

  Variable classify : list N -> numcls.
  Theorem doc_comment_v_false : forall bs L, doc_comment_v false gbk_runes classify bs L = doc_comment gbk_runes classify bs L.
  Proof. intros bs L. unfold doc_comment_v, doc_comment, comment_writes_v, comment_writes. rewrite lex_all_v_false. reflexivity. Qed.
End V.

(* ------------------------------------------------------------------ (2) strip simulation *)
Definition strip_ci (ci : cinfo) : cinfo := if ci_short ci then ci else mkCinfo [] false (ci_head ci).
Definition strip_e (e : Z * cinfo) : Z * cinfo := (fst e, strip_ci (snd e)).
Definition strip_cs (cs : cstate) : cstate :=
  mkCst (option_map strip_ci (cur cs)) (last_line cs) (map strip_e (emitted cs)).
Definition strip_lt (t : ltok) : ltok := mkLtok (lt t) (lerrs t) (map strip_e (lcomments t)).

Lemma strip_short : forall ci, ci_short (strip_ci ci) = ci_short ci.
Proof. intros ci. unfold strip_ci. destruct (ci_short ci) eqn:E; [exact E|reflexivity]. Qed.
Lemma strip_head : forall ci, ci_head (strip_ci ci) = ci_head ci.
Proof. intros ci. unfold strip_ci. destruct (ci_short ci); reflexivity. Qed.

Lemma step_strip : forall cs sh hd t ln col,
  strip_cs (comment_step_v true cs sh hd t ln col) = comment_step (strip_cs cs) sh hd t ln col.
Proof.
  intros [[[ls shc hdc]|] last em] sh hd t ln col;
    unfold comment_step_v, comment_step, strip_cs, add_line_v, add_line;
    cbn [cur last_line emitted option_map].
  - unfold strip_ci at 2 3 4. cbn [ci_short ci_head ci_lines].
    destruct sh, shc; cbn [Bool.eqb negb orb andb ci_short ci_head ci_lines];
      try (destruct (negb (ln =? last + 1)));
      cbn [cur last_line emitted option_map orb ci_short ci_head ci_lines]; unfold strip_ci; cbn [ci_short ci_head ci_lines];
      rewrite ?map_app; reflexivity.
  - cbn [ci_short ci_head ci_lines app]. rewrite orb_true_r.
    destruct hd; cbn [negb cur last_line emitted option_map]; rewrite ?map_app; unfold strip_e, strip_ci;
      cbn [map fst snd ci_short ci_head ci_lines]; destruct sh; reflexivity.
Qed.

Lemma loop_strip : forall f p2 p1 s cs errs,
  skip_ws_f f p2 p1 s (strip_cs cs) errs =
  (let '(s', cs', e') := skip_ws_f_v true f p2 p1 s cs errs in (s', strip_cs cs', e')).
Proof.
  induction f as [|f IH]; intros p2 p1 s cs errs; [reflexivity|].
  cbn [skip_ws_f_v skip_ws_f]. destruct (chunk s) as [|c0 rest]; [reflexivity|].
  destruct (match rest with c1 :: _ => _ | [] => false end); [apply IH|].
  destruct (is_newline c0); [apply IH|]. destruct (is_white c0); [apply IH|].
  destruct (negb _); [reflexivity|]. destruct (skip_comment s) as [[[sh txt] s1] es]. rewrite <- step_strip. apply IH.
Qed.

Lemma skip_ws_strip : forall p2 p1 s,
  skip_ws p2 p1 s = (let '(s', em, e') := skip_ws_v true p2 p1 s in (s', map strip_e em, e')).
Proof.
  intros p2 p1 s. unfold skip_ws, skip_ws_v.
  pose proof (loop_strip (S (length (chunk s))) p2 p1 s (mkCst None 0 []) []) as H.
  change (strip_cs (mkCst None 0 [])) with (mkCst None 0 []) in H. rewrite H. clear H.
  destruct (skip_ws_f_v true (S (length (chunk s))) p2 p1 s (mkCst None 0 []) []) as [[s' cs'] e'].
  unfold strip_cs. cbn [cur last_line emitted]. destruct (cur cs') as [ci|]; cbn [option_map]; [|reflexivity].
  rewrite map_app. reflexivity.
Qed.

Definition res_map {A B : Type} (f : A -> B) (r : Res A) : Res B :=
  match r with Ok a => Ok (f a) | Fault k => Fault k | OutOfFuel => OutOfFuel end.

Section Strip.
  Variable gbk_runes : list N -> Z.

  Lemma lex_loop_strip : forall f p2 p1 s acc,
    lex_loop gbk_runes f p2 p1 s (map strip_lt acc) = res_map (map strip_lt) (lex_loop_v true gbk_runes f p2 p1 s acc).
  Proof.
    induction f as [|f IH]; intros p2 p1 s acc; [reflexivity|].
    cbn [lex_loop_v lex_loop]. unfold next_token_v, next_token. rewrite skip_ws_strip.
    destruct (skip_ws_v true p2 p1 s) as [[s1 cms] es1]. destruct (scan_token gbk_runes s1) as [[t s2] es2]. cbn [lt].
    change (mkLtok t (es1 ++ es2) (map strip_e cms) :: map strip_lt acc) with (map strip_lt (mkLtok t (es1 ++ es2) cms :: acc)).
    destruct (tk t); try apply IH. cbn [res_map]. rewrite map_rev. reflexivity.
  Qed.

  (* the deployed lexer and the shared model produce the same tokens and errors; the comments of the shared model are the
     deployed ones with the text of long-bracket comments removed *)
  Theorem lex_all_strip : forall bs, lex_all gbk_runes bs = res_map (map strip_lt) (lex_all_v true gbk_runes bs).
  Proof. intros bs. unfold lex_all, lex_all_v. apply (lex_loop_strip _ None None _ []). Qed.

  Definition all_short (es : list (Z * cinfo)) : bool := forallb (fun e => ci_short (snd e)) es.

  Lemma strip_id_short : forall es es', map strip_e es' = es -> all_short es = true -> es' = es.
  Proof.
    induction es as [|e es IH]; intros es' H Hs; destruct es' as [|e' es']; try discriminate H; [reflexivity|].
    cbn [map] in H. injection H as He Ht. cbn [all_short forallb] in Hs. apply andb_true_iff in Hs. destruct Hs as [Hs1 Hs2].
    f_equal; [|apply IH; assumption].
    destruct e' as [k ci]. unfold strip_e in He. cbn [fst snd] in He. rewrite <- He in Hs1. cbn [snd] in Hs1.
    rewrite strip_short in Hs1. rewrite <- He. unfold strip_ci. rewrite Hs1. reflexivity.
  Qed.

  Lemma strip_lt_id : forall ts ts', map strip_lt ts' = ts -> all_short (cm_writes ts) = true -> ts' = ts.
  Proof.
    induction ts as [|t ts IH]; intros ts' H Hs; destruct ts' as [|t' ts']; try discriminate H; [reflexivity|].
    cbn [map] in H. injection H as He Ht. unfold cm_writes in Hs. cbn [flat_map] in Hs. unfold all_short in Hs.
    rewrite forallb_app in Hs. apply andb_true_iff in Hs. destruct Hs as [Hs1 Hs2].
    f_equal; [|apply IH; assumption].
    destruct t' as [a b c]. unfold strip_lt in He. cbn [lt lerrs lcomments] in He. rewrite <- He in Hs1. cbn [lcomments] in Hs1.
    rewrite <- He. f_equal. apply (strip_id_short (map strip_e c) c eq_refl Hs1).
  Qed.

  (* on a file whose comments are all `--` comments the deployed lexer IS the shared model *)
  Theorem lex_all_v_short : forall bs ts, lex_all gbk_runes bs = Ok ts -> all_short (cm_writes ts) = true ->
    lex_all_v true gbk_runes bs = Ok ts.
  Proof.
    intros bs ts H Hs. rewrite lex_all_strip in H. destruct (lex_all_v true gbk_runes bs) as [ts'| |]; try discriminate H.
    cbn [res_map] in H. injection H as H. f_equal. apply strip_lt_id; assumption.
  Qed.
End Strip.

(* ------------------------------------------------------------------ (2b) on file_class the deployed variant is the shared model *)
Lemma all_short_app : forall a b, all_short (a ++ b) = all_short a && all_short b.
Proof. intros a b. unfold all_short. apply forallb_app. Qed.

Lemma all_short_map : forall (A : Type) (f : A -> Z * cinfo) l, (forall x, ci_short (snd (f x)) = true) -> all_short (map f l) = true.
Proof. intros A f l H. unfold all_short. rewrite forallb_forall. intros e He. apply in_map_iff in He. destruct He as [x [<- _]]. apply H. Qed.

Lemma all_short_spec_entries : forall p L c g, all_short (spec_entries p L c g) = true.
Proof.
  intros p L c g. unfold spec_entries. destruct (p =? L); rewrite ?all_short_app, !all_short_map; reflexivity.
Qed.

Lemma all_short_gaps : forall rs, all_short (flat_map gap_entries rs) = true.
Proof.
  induction rs as [|r rs IH]; [reflexivity|]. cbn [flat_map]. rewrite all_short_app, IH. unfold gap_entries.
  rewrite all_short_spec_entries. reflexivity.
Qed.

Section Deployed.
  Variable gbk_runes : list N -> Z.
  Variable classify : list N -> numcls.

  Theorem deployed_is_shared : forall bs rs, file_gaps gbk_runes bs = Some rs ->
    lex_all_v true gbk_runes bs = lex_all gbk_runes bs.
  Proof.
    intros bs rs Hg. destruct (file_layout gbk_runes bs rs Hg) as [ts [Hlex [Hcm _]]].
    rewrite Hlex. apply lex_all_v_short; [exact Hlex|]. rewrite Hcm. apply all_short_gaps.
  Qed.

  Theorem doc_comment_deployed_class : forall bs rs, file_gaps gbk_runes bs = Some rs ->
    forall L, doc_comment_v true gbk_runes classify bs L = doc_comment gbk_runes classify bs L.
  Proof.
    intros bs rs Hg L. unfold doc_comment_v, doc_comment, comment_writes_v, comment_writes.
    rewrite (deployed_is_shared bs rs Hg). reflexivity.
  Qed.

  (* C13_comment_attach_file for the deployed code *)
  Theorem comment_attach_file_deployed : forall bs, file_class gbk_runes classify bs = true ->
    forall L, pure_at (file_table gbk_runes bs) L = None ->
      doc_comment_v true gbk_runes classify bs L = Ok (Some (spec_comment (file_table gbk_runes bs) L)).
  Proof.
    intros bs Hc L HL. assert (Hc' := Hc). unfold file_class in Hc'. apply andb_true_iff in Hc'. destruct Hc' as [Hg _].
    destruct (file_gaps gbk_runes bs) as [rs|] eqn:Eg; [|discriminate Hg].
    rewrite (doc_comment_deployed_class bs rs Eg). apply comment_attach_file; assumption.
  Qed.
End Deployed.
Print Assumptions lex_all_v_false.
Print Assumptions lex_all_strip.
Print Assumptions deployed_is_shared.
Print Assumptions comment_attach_file_deployed.
