(* C20 - vocabulary of the witness theorems: concrete files (as strings), the oracles instantiated, and decidable
   "the model reports something the pattern does not demand / misses something it demands". *)
From Coq Require Import List NArith ZArith Bool Ascii String.
From LH Require Import Base.Bytes Base.Res Model.Lexer Model.Ast Model.Parser Model.LuaFront Spec.PatternSpec
  Model.Patterns Proofs.PatternsClasses.
Import ListNotations.
Local Open Scope N_scope.

Fixpoint bytes_of (s : string) : list N :=
  match s with
  | EmptyString => []
  | String a r => N_of_ascii a :: bytes_of r
  end.

Definition gbk0 (_ : list N) : Z := 0%Z.                  (* never consulted on ASCII files *)
Definition fc_text (a b : list N) : bool := beq_bytes a b. (* closeness of float literals: same text (enough here) *)

Definition check (fx : fixes) (src : string) : Res outcome := check_bytes fx fc_text gbk0 classify_tok (bytes_of src).

Definition reportedb (ty : N) (L : loc) (rs : list report) : bool :=
  existsb (fun r => (r_ty r =? ty) && loc_eqb (r_loc r) L) rs.
(* a report of type ty at a place where the pattern does not occur *)
Definition over_reported (o : outcome) (ty : N) : bool :=
  existsb (fun r => (r_ty r =? ty) && negb (existsb (place_eqb (r_ty r, r_loc r)) (o_spec o))) (o_model o).
(* a place where the pattern of type ty occurs without a report *)
Definition under_reported (o : outcome) (ty : N) : bool :=
  existsb (fun p => (fst p =? ty) && negb (reportedb (fst p) (snd p) (o_model o))) (o_spec o).
Definition agrees (o : outcome) : bool :=
  forallb (fun r => existsb (place_eqb (r_ty r, r_loc r)) (o_spec o)) (o_model o)
  && forallb (fun p => reportedb (fst p) (snd p) (o_model o)) (o_spec o)
  && Nat.eqb (List.length (o_model o)) (List.length (o_spec o)).

(* the outcome of a file that parses without error *)
Definition valid_outcome (fx : fixes) (src : string) (o : outcome) : Prop := check fx src = Ok o /\ o_valid o = true.

(* an over-report contradicts "reported <-> demanded" (used by C20_full_refuted; no computation under Qed) *)
From LH Require Import Proofs.PatternsLocal.
Lemma place_eqb_refl p : place_eqb p p = true.
Proof.
  unfold place_eqb. rewrite N.eqb_refl. cbn. apply loc_eqb_eq. reflexivity.
Qed.

Lemma over_reported_not_iff : forall o ty,
  over_reported o ty = true ->
  ~ (forall t L, reported t L (o_model o) <-> In (t, L) (o_spec o)).
Proof.
  intros o ty Hov Hall.
  unfold over_reported in Hov. apply existsb_exists in Hov. destruct Hov as [r [Hin Hr]].
  apply andb_true_iff in Hr. destruct Hr as [_ Hneg].
  apply negb_true_iff in Hneg.
  assert (Hrep : reported (r_ty r) (r_loc r) (o_model o)).
  { exists r. repeat split; auto. }
  apply Hall in Hrep.
  assert (Hex : existsb (place_eqb (r_ty r, r_loc r)) (o_spec o) = true).
  { apply existsb_exists. exists (r_ty r, r_loc r). split; [exact Hrep|apply place_eqb_refl]. }
  congruence.
Qed.

Lemma full_refuted_from : forall fx src o ty,
  valid_outcome fx src o -> over_reported o ty = true ->
  ~ (forall fclose gbk bs o,
      check_bytes fx fclose gbk classify_tok bs = Ok o -> o_valid o = true ->
      forall ty L, reported ty L (o_model o) <-> In (ty, L) (o_spec o)).
Proof.
  intros fx src o ty [Hc Hv] Ho H. unfold check in Hc.
  exact (over_reported_not_iff o ty Ho (H _ _ _ o Hc Hv)).
Qed.

(* likewise a missing report *)
Lemma under_reported_not_iff : forall o ty,
  under_reported o ty = true ->
  ~ (forall t L, reported t L (o_model o) <-> In (t, L) (o_spec o)).
Proof.
  intros o ty Hun Hall.
  unfold under_reported in Hun. apply existsb_exists in Hun. destruct Hun as [[t L] [Hin Hr]].
  apply andb_true_iff in Hr. destruct Hr as [_ Hneg]. apply negb_true_iff in Hneg. cbn [fst snd] in Hneg.
  apply Hall in Hin. destruct Hin as [r [Hr [Ht HL]]].
  assert (Hex : reportedb t L (o_model o) = true).
  { unfold reportedb. apply existsb_exists. exists r. split; auto.
    apply andb_true_iff. split; [apply N.eqb_eq; auto|apply loc_eqb_eq; auto]. }
  congruence.
Qed.

Lemma full_refuted_from_under : forall fx src o ty,
  valid_outcome fx src o -> under_reported o ty = true ->
  ~ (forall fclose gbk bs o,
      check_bytes fx fclose gbk classify_tok bs = Ok o -> o_valid o = true ->
      forall ty L, reported ty L (o_model o) <-> In (ty, L) (o_spec o)).
Proof.
  intros fx src o ty [Hc Hv] Ho H. unfold check in Hc.
  exact (under_reported_not_iff o ty Ho (H _ _ _ o Hc Hv)).
Qed.
