(* C13 - characterisation of the two comment clean-up functions (getFinalStrComment, GetStrComment). *)
From Coq Require Import List NArith ZArith Bool Lia ZifyN ZifyNat ZifyBool.
From LH Require Import Base.Bytes Model.Lexer Model.Comments.
Import ListNotations.
Local Open Scope N_scope.

Definition all_spaces (l : list N) : bool := forallb (fun c => c =? 32) l.
Definition no_lead_space (l : list N) : bool := match l with 32 :: _ => false | _ => true end.

Lemma test_split : forall p l, test p l = true -> l = p ++ skipn (length p) l.
Proof.
  induction p as [|c p IH]; intros l H; [reflexivity|].
  destruct l as [|x l]; cbn [test] in H; [discriminate|].
  apply andb_true_iff in H. destruct H as [Hx Hp]. apply N.eqb_eq in Hx. subst x.
  cbn [app length skipn]. f_equal. apply IH. exact Hp.
Qed.

(* TrimPrefix removes the prefix or nothing *)
Lemma trim_prefix_char : forall p l,
  (test p l = true /\ l = p ++ trim_prefix p l) \/ (test p l = false /\ trim_prefix p l = l).
Proof.
  intros p l. unfold trim_prefix. destruct (test p l) eqn:E.
  - left. split; [reflexivity|]. apply test_split. exact E.
  - right. split; reflexivity.
Qed.

Lemma trim_left_sp_char : forall l,
  exists sp, l = sp ++ trim_left_sp l /\ all_spaces sp = true /\ no_lead_space (trim_left_sp l) = true.
Proof.
  induction l as [|c l IH].
  - exists []. repeat split.
  - cbn [trim_left_sp]. destruct (N.eq_dec c 32) as [->|Hc].
    + destruct IH as [sp [H1 [H2 H3]]]. exists (32 :: sp). cbn [app all_spaces forallb].
      split; [f_equal; exact H1|]. split; [exact H2| exact H3].
    + exists []. assert (Hm : trim_left_sp (c :: l) = c :: l).
      { destruct c as [|p]; [reflexivity|]. cbn [trim_left_sp].
        do 6 (destruct p as [p|p|]; try reflexivity). all: try (exfalso; apply Hc; reflexivity). }
      cbn [trim_left_sp] in Hm |- *. rewrite Hm. repeat split.
      destruct c as [|p]; [reflexivity|]. do 6 (destruct p as [p|p|]; try reflexivity). exfalso. apply Hc. reflexivity.
Qed.

(* the decorations getFinalStrComment removes in front of a line: an optional "-*", an optional "*", an optional "-" *)
Definition final_decoration (p : list N) : Prop :=
  exists a b c, p = a ++ b ++ c /\ (a = [] \/ a = [45; 42]) /\ (b = [] \/ b = [42]) /\ (c = [] \/ c = [45]).

Lemma final_line_char : forall l,
  exists p sp, l = p ++ sp ++ final_line l /\ final_decoration p /\ all_spaces sp = true /\ no_lead_space (final_line l) = true.
Proof.
  intros l. unfold final_line.
  set (l1 := trim_prefix [45; 42] l). set (l2 := trim_prefix [42] l1). set (l3 := trim_prefix [45] l2).
  destruct (trim_left_sp_char l3) as [sp [Hs [Hs1 Hs2]]].
  assert (Ha : exists a, l = a ++ l1 /\ (a = [] \/ a = [45; 42])).
  { destruct (trim_prefix_char [45; 42] l) as [[_ H]|[_ H]]; fold l1 in H.
    - exists [45; 42]. split; [exact H|right; reflexivity].
    - exists []. split; [symmetry; exact H|left; reflexivity]. }
  assert (Hb : exists b, l1 = b ++ l2 /\ (b = [] \/ b = [42])).
  { destruct (trim_prefix_char [42] l1) as [[_ H]|[_ H]]; fold l2 in H.
    - exists [42]. split; [exact H|right; reflexivity].
    - exists []. split; [symmetry; exact H|left; reflexivity]. }
  assert (Hc : exists c, l2 = c ++ l3 /\ (c = [] \/ c = [45])).
  { destruct (trim_prefix_char [45] l2) as [[_ H]|[_ H]]; fold l3 in H.
    - exists [45]. split; [exact H|right; reflexivity].
    - exists []. split; [symmetry; exact H|left; reflexivity]. }
  destruct Ha as [a [Ha Ha']]. destruct Hb as [b [Hb Hb']]. destruct Hc as [c [Hc Hc']].
  exists (a ++ b ++ c), sp. split.
  - rewrite Ha at 1. rewrite Hb at 1. rewrite Hc at 1. rewrite Hs at 1. rewrite <- !app_assoc. reflexivity.
  - split; [exists a, b, c; auto|]. split; [exact Hs1|exact Hs2].
Qed.

(* text that starts with none of '-', '*', ' ' is untouched *)
Lemma final_line_id : forall c l, c <> 45 -> c <> 42 -> c <> 32 -> final_line (c :: l) = c :: l.
Proof.
  intros c l H1 H2 H3. unfold final_line, trim_prefix. cbn [test length skipn].
  apply N.eqb_neq in H1. apply N.eqb_neq in H2.
  rewrite (N.eqb_sym c 45) in H1. rewrite (N.eqb_sym c 42) in H2.
  assert (E1 : (c =? 45) = false) by (rewrite N.eqb_sym; exact H1).
  assert (E2 : (c =? 42) = false) by (rewrite N.eqb_sym; exact H2).
  rewrite E1. cbn [andb]. rewrite E2. cbn [andb]. rewrite E1. cbn [andb].
  destruct c as [|p]; [reflexivity|]. cbn [trim_left_sp].
  do 6 (destruct p as [p|p|]; try reflexivity). exfalso. apply H3. reflexivity.
Qed.

(* the loop of getFinalStrComment: every line rewritten, the last line dropped when it became empty *)
Definition drop_last_empty (ls : list (list N)) : list (list N) :=
  match rev ls with [] :: r => rev r | _ => ls end.

Lemma final_lines_char : forall ls, final_lines ls = drop_last_empty (map final_line ls).
Proof.
  induction ls as [|a ls IH]; [reflexivity|].
  destruct ls as [|b ls].
  - cbn [final_lines map]. unfold drop_last_empty. cbn [rev app]. destruct (final_line a); reflexivity.
  - change (final_lines (a :: b :: ls)) with (final_line a :: final_lines (b :: ls)). rewrite IH.
    unfold drop_last_empty. cbn [map rev].
    destruct (rev (map final_line ls) ++ [final_line b]) as [|x r] eqn:E.
    + destruct (rev (map final_line ls)); discriminate E.
    + cbn [app]. destruct x as [|x0 x]; [|reflexivity].
      rewrite rev_app_distr. cbn [rev app]. reflexivity.
Qed.

Theorem final_comment_char : forall s, s <> [] ->
  final_comment s = join_nl (drop_last_empty (map final_line (split_nl s))).
Proof. intros s H. destruct s as [|c s]; [contradiction|]. unfold final_comment. rewrite final_lines_char. reflexivity. Qed.

(* ---- hover clean-up (GetStrComment) *)
Definition hover_decoration (p : list N) : Prop :=
  exists a c, p = a ++ c /\ (a = [] \/ a = [45; 42]) /\ (c = [] \/ c = [45]).

Lemma hover_line_char : forall l,
  exists s1 p s2, l = s1 ++ p ++ s2 ++ hover_line l /\ all_spaces s1 = true /\ hover_decoration p /\ all_spaces s2 = true
                  /\ no_lead_space (hover_line l) = true.
Proof.
  intros l. unfold hover_line.
  destruct (trim_left_sp_char l) as [s1 [H1 [H1a _]]]. set (l0 := trim_left_sp l) in *.
  set (l1 := trim_prefix [45; 42] l0). set (l2 := trim_prefix [45] l1).
  destruct (trim_left_sp_char l2) as [s2 [H2 [H2a H2b]]].
  assert (Ha : exists a, l0 = a ++ l1 /\ (a = [] \/ a = [45; 42])).
  { destruct (trim_prefix_char [45; 42] l0) as [[_ H]|[_ H]]; fold l1 in H.
    - exists [45; 42]. split; [exact H|right; reflexivity].
    - exists []. split; [symmetry; exact H|left; reflexivity]. }
  assert (Hc : exists c, l1 = c ++ l2 /\ (c = [] \/ c = [45])).
  { destruct (trim_prefix_char [45] l1) as [[_ H]|[_ H]]; fold l2 in H.
    - exists [45]. split; [exact H|right; reflexivity].
    - exists []. split; [symmetry; exact H|left; reflexivity]. }
  destruct Ha as [a [Ha Ha']]. destruct Hc as [c [Hc Hc']].
  exists s1, (a ++ c), s2. split.
  - rewrite H1 at 1. rewrite Ha at 1. rewrite Hc at 1. rewrite H2 at 1. rewrite <- !app_assoc. reflexivity.
  - split; [exact H1a|]. split; [exists a, c; auto|]. split; [exact H2a|exact H2b].
Qed.

(* without annotation lines the hover text is every cleaned line preceded by a markdown line break *)
Lemma hover_lines_plain : forall ls str,
  forallb (fun l => negb (is_annot_line (hover_line l))) ls = true ->
  hover_lines ls str [] = str ++ flat_map (fun l => s_br ++ hover_line l) ls.
Proof.
  induction ls as [|a ls IH]; intros str H.
  - cbn [hover_lines flat_map]. rewrite app_nil_r. reflexivity.
  - cbn [forallb] in H. apply andb_true_iff in H. destruct H as [Ha Hl].
    apply negb_true_iff in Ha. cbn [hover_lines flat_map]. rewrite Ha. rewrite IH by exact Hl.
    rewrite <- !app_assoc. reflexivity.
Qed.

Theorem get_str_comment_plain : forall s, s <> [] ->
  forallb (fun l => negb (is_annot_line (hover_line l))) (split_nl s) = true ->
  get_str_comment s = flat_map (fun l => s_br ++ hover_line l) (split_nl s).
Proof.
  intros s Hs H. destruct s as [|c s]; [contradiction|]. unfold get_str_comment.
  rewrite hover_lines_plain by exact H. reflexivity.
Qed.
