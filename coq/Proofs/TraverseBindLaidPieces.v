(* Traversal resolver, layout part 1: pieces of the traversal whose marks lie in an interval [a, b] keep every
   look-up position-clean and only re-point / declare inside [a, b]; combinators for textual and non-textual
   (numeric-for step before limit, assignment right-hand sides before targets) visiting orders. *)
From Coq Require Import List NArith ZArith Bool Lia.
From LH Require Import Base.Bytes Model.Lexer Model.Ast Model.Scope Spec.LuaScope Proofs.TraverseBindDefs
  Proofs.TraverseBindLaidBase.
Import ListNotations.
Local Open Scope Z_scope.

Definition vss (st : tstate) : list (list ventry) := map f_vars (t_frames st).

Lemma vars_of_vss st : vars_of st = concat (vss st).
Proof. reflexivity. Qed.
Lemma vss_push l st : vss (push l st) = [] :: vss st.
Proof. reflexivity. Qed.
Lemma vss_log k n l st : vss (log k n l st) = vss st.
Proof. reflexivity. Qed.
Lemma vss_add v st vs r : vss st = vs :: r -> vss (add_var v st) = (v :: vs) :: r.
Proof.
  unfold vss, add_var. destruct (t_frames st) as [|f fs]; [discriminate|]. cbn. intros H. injection H as H1 H2.
  subst. reflexivity.
Qed.
Lemma vss_pop st vs vs2 r : vss st = vs :: vs2 :: r -> vss (pop st) = vs2 :: r.
Proof.
  unfold vss, pop. destruct (t_frames st) as [|f [|p fs]]; try discriminate. cbn. intros H.
  injection H as H1 H2 H3. subst. reflexivity.
Qed.

Section Pieces.
  Variable W : Z.
  Hypothesis HW : 0 < W.
  Variable nm : list N.

  Definition PieceE (f : tT) (c : tC) (a b : Z) : Prop :=
    forall st, vss st <> [] -> G W (vss st) a b -> c st = true /\ Evo W a b (vss st) (vss (f st)).
  Definition PieceS (f : tT) (c : tC) (a b : Z) : Prop :=
    forall st, vss st <> [] -> G W (vss st) a b -> c st = true /\ EvoS W a b (vss st) (vss (f st)).

  Lemma Evo_nonempty a b v v' : Evo W a b v v' -> v <> [] -> v' <> [].
  Proof. intros H Hn. destruct H; [contradiction|discriminate]. Qed.
  Lemma EvoS_nonempty a b v v' : EvoS W a b v v' -> v' <> [].
  Proof. destruct v as [|x r]; [intros []|]. destruct v' as [|x' r']; [intros []|]. discriminate. Qed.

  Lemma PieceE_ext (f f' : tT) (c c' : tC) a b :
    (forall st, f' st = f st) -> (forall st, c' st = c st) -> PieceE f c a b -> PieceE f' c' a b.
  Proof. intros Hf Hc H st Hn Hg. rewrite Hf, Hc. apply H; assumption. Qed.
  Lemma PieceS_ext (f f' : tT) (c c' : tC) a b :
    (forall st, f' st = f st) -> (forall st, c' st = c st) -> PieceS f c a b -> PieceS f' c' a b.
  Proof. intros Hf Hc H st Hn Hg. rewrite Hf, Hc. apply H; assumption. Qed.

  Lemma PieceE_sub f c a b a' b' : PieceE f c a b -> a' <= a -> b <= b' -> PieceE f c a' b'.
  Proof.
    intros H Ha Hb st Hn Hg. destruct (H st Hn (G_sub W _ _ _ _ _ Hg Ha Hb)) as [H1 H2].
    split; [exact H1|]. exact (Evo_widen W _ _ _ _ _ _ H2 Ha Hb).
  Qed.
  Lemma PieceS_sub f c a b a' b' : PieceS f c a b -> a' <= a -> b <= b' -> PieceS f c a' b'.
  Proof.
    intros H Ha Hb st Hn Hg. destruct (H st Hn (G_sub W _ _ _ _ _ Hg Ha Hb)) as [H1 H2].
    split; [exact H1|]. exact (EvoS_widen W _ _ _ _ _ _ H2 Ha Hb).
  Qed.

  Lemma PieceE_id a b : PieceE (fun st => st) (fun _ => true) a b.
  Proof. intros st _ _. split; [reflexivity|apply Evo_refl]. Qed.

  (* textual order *)
  Lemma PieceE_seq f1 c1 f2 c2 a m b :
    a <= m -> m <= b -> PieceE f1 c1 a m -> PieceE f2 c2 m b ->
    PieceE (fun st => f2 (f1 st)) (fun st => c1 st && c2 (f1 st)) a b.
  Proof.
    intros Ham Hmb H1 H2 st Hn Hg.
    destruct (H1 st Hn (G_sub W _ _ _ _ _ Hg (Z.le_refl a) Hmb)) as [A1 A2].
    assert (Hg2 : G W (vss (f1 st)) m b).
    { apply (G_evo W _ _ a m m b (G_sub W _ _ _ _ _ Hg Ham (Z.le_refl b)) A2). left. lia. }
    destruct (H2 (f1 st) (Evo_nonempty _ _ _ _ A2 Hn) Hg2) as [B1 B2].
    split; [rewrite A1, B1; reflexivity|].
    eapply Evo_trans; [exact (Evo_widen W _ _ _ _ _ _ A2 (Z.le_refl a) Hmb)|exact (Evo_widen W _ _ _ _ _ _ B2 Ham (Z.le_refl b))].
  Qed.

  (* the textually later piece is visited first *)
  Lemma PieceE_swap f1 c1 f2 c2 a m b :
    a <= m -> m <= b -> PieceE f1 c1 m b -> PieceE f2 c2 a m ->
    PieceE (fun st => f2 (f1 st)) (fun st => c1 st && c2 (f1 st)) a b.
  Proof.
    intros Ham Hmb H1 H2 st Hn Hg.
    destruct (H1 st Hn (G_sub W _ _ _ _ _ Hg Ham (Z.le_refl b))) as [A1 A2].
    assert (Hg2 : G W (vss (f1 st)) a m).
    { apply (G_evo W _ _ m b a m (G_sub W _ _ _ _ _ Hg (Z.le_refl a) Hmb) A2). right. lia. }
    destruct (H2 (f1 st) (Evo_nonempty _ _ _ _ A2 Hn) Hg2) as [B1 B2].
    split; [rewrite A1, B1; reflexivity|].
    eapply Evo_trans; [exact (Evo_widen W _ _ _ _ _ _ A2 Ham (Z.le_refl b))|exact (Evo_widen W _ _ _ _ _ _ B2 (Z.le_refl a) Hmb)].
  Qed.

  Lemma PieceS_of_E f c a b : PieceE f c a b -> PieceS f c a b.
  Proof.
    intros H st Hn Hg. destruct (H st Hn Hg) as [H1 H2]. split; [exact H1|].
    destruct (vss st) as [|vs r] eqn:E; [contradiction|]. apply Evo_EvoS. exact H2.
  Qed.

  Lemma PieceS_seq f1 c1 f2 c2 a m b :
    a <= m -> m <= b -> PieceS f1 c1 a m -> PieceS f2 c2 m b ->
    PieceS (fun st => f2 (f1 st)) (fun st => c1 st && c2 (f1 st)) a b.
  Proof.
    intros Ham Hmb H1 H2 st Hn Hg.
    destruct (H1 st Hn (G_sub W _ _ _ _ _ Hg (Z.le_refl a) Hmb)) as [A1 A2].
    assert (Hg2 : G W (vss (f1 st)) m b).
    { apply (G_evoS_fwd W _ _ a m b (G_sub W _ _ _ _ _ Hg Ham (Z.le_refl b)) A2). }
    destruct (H2 (f1 st) (EvoS_nonempty _ _ _ _ A2) Hg2) as [B1 B2].
    split; [rewrite A1, B1; reflexivity|].
    eapply EvoS_trans; [exact (EvoS_widen W _ _ _ _ _ _ A2 (Z.le_refl a) Hmb)|exact (EvoS_widen W _ _ _ _ _ _ B2 Ham (Z.le_refl b))].
  Qed.

  Lemma PieceS_id a b : PieceS (fun st => st) (fun _ => true) a b.
  Proof. apply PieceS_of_E, PieceE_id. Qed.

  (* a new scope around a statement-level piece *)
  Lemma PieceE_scope l g c a b :
    PieceS g c a b -> PieceE (fun st => pop (g (push l st))) (fun st => c (push l st)) a b.
  Proof.
    intros H st Hn Hg.
    assert (Hg' : G W (vss (push l st)) a b) by (rewrite vss_push; constructor; [constructor|exact Hg]).
    destruct (H (push l st) ltac:(rewrite vss_push; discriminate) Hg') as [H1 H2].
    split; [exact H1|]. rewrite vss_push in H2.
    destruct (vss (g (push l st))) as [|vs' r'] eqn:E; [contradiction|].
    destruct H2 as [news [olds [_ [_ [_ Hr]]]]].
    destruct r' as [|vs2 r2]; [exfalso; exact (Evo_nonempty _ _ _ _ Hr Hn eq_refl)|].
    rewrite (vss_pop _ _ _ _ E). exact Hr.
  Qed.

  Lemma PieceS_add v a b : Born W a b v -> PieceS (add_var v) (fun _ => true) a b.
  Proof.
    intros Hb st Hn _. split; [reflexivity|]. destruct (vss st) as [|vs r] eqn:E; [contradiction|].
    rewrite (vss_add v st vs r E). exists [v], vs. repeat split.
    - apply Forall2_refl. apply EvoVar_refl.
    - constructor; [exact Hb|constructor].
    - apply Evo_refl.
  Qed.

  (* a logged name *)
  Lemma PieceE_log k n l a b :
    idok W l -> a <= lo W l -> hi W l <= b ->
    PieceE (log k n l) (fun st => negb (beq_bytes n nm) || clean_at st n l) a b.
  Proof.
    intros Hl Ha Hb st Hn Hg. split.
    - unfold clean_at. rewrite vars_of_vss, (G_clean W HW (vss st) n l a b Hg Hl Ha Hb). apply orb_true_r.
    - rewrite vss_log. apply Evo_refl.
  Qed.

  (* lists of expression-level pieces in textual order *)
  Lemma PieceE_list {A} (F : A -> tT) (C : A -> tC) (M : A -> list mark) :
    forall xs a b,
      Forall (fun x => forall a b, chain W a (M x) b -> PieceE (F x) (C x) a b) xs ->
      chain W a (flat_map M xs) b ->
      PieceE (apply_all (map F xs)) (cl_all (map (fun x => (F x, C x)) xs)) a b.
  Proof.
    induction xs as [|x r IH]; intros a b Hall Hch.
    - apply PieceE_id.
    - inversion Hall as [|? ? Hx Hr]; subst. cbn [flat_map] in Hch.
      destruct (chain_app W _ _ _ _ Hch) as [c [C1 C2]].
      pose proof (PieceE_seq _ _ _ _ a c b (chain_le W _ _ _ C1) (chain_le W _ _ _ C2) (Hx a c C1) (IH c b Hr C2)) as H.
      eapply PieceE_ext; [| |exact H]; intros; reflexivity.
  Qed.

  (* declared parameters / loop variables *)
  Lemma vss_add_params : forall pl st vs r,
    vss st = vs :: r ->
    vss (add_params pl st) = (rev (map (fun p => mkV (fst p) (snd p) RNone false) pl) ++ vs) :: r.
  Proof.
    induction pl as [|p pl' IH]; intros st vs r E; [exact E|].
    unfold add_params in *. cbn [fold_left map rev].
    rewrite (IH _ _ _ (vss_add _ st vs r E)). rewrite <- app_assoc. reflexivity.
  Qed.

  Lemma PieceS_add_params pl a b :
    (forall p, In p pl -> idok W (snd p) /\ hi W (snd p) <= b) ->
    PieceS (add_params pl) (fun _ => true) a b.
  Proof.
    intros Hp st Hn _. split; [reflexivity|]. destruct (vss st) as [|vs r] eqn:E; [contradiction|].
    rewrite (vss_add_params pl st vs r E). exists (rev (map (fun p => mkV (fst p) (snd p) RNone false) pl)), vs.
    repeat split.
    - apply Forall2_refl. apply EvoVar_refl.
    - apply Forall_rev. apply Forall_forall. intros v Hv. apply in_map_iff in Hv. destruct Hv as [p [Hv Hin]]. subst v.
      destruct (Hp p Hin) as [Hid Hhi]. pose proof (idok_lt W _ Hid) as Hlt.
      unfold Born. cbn [v_loc v_ref]. destruct Hid as [_ [_ [Hc _]]]. repeat split; try lia.
    - apply Evo_refl.
  Qed.
End Pieces.
