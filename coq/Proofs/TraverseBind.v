(* Traversal resolver = Lua's binder (C06 C07 C11): the core theorem.
   For every chunk P with the shape of parser output (`tb_shape`, no fragment restriction), the occurrences logged by
   `analyse P` (Model/Scope.v) correspond one-to-one - same Loc, same name, read/write role - to the non-declaration
   occurrences of the reference binder `bind_file P` (Spec/LuaScope.v), and for every name n whose look-ups are
   position-clean (`tr_clean P n`: IsCorrectPosition accepts the newest same-named variable at every look-up of n)
   every occurrence of n that is not tagged CB3 (`local a, b = e1, e2` order) resolves to the declaration Lua binds
   it to: o_res = Some d <-> s_bind = BLocal d, global otherwise.
   Proof: simulation between the frame stack and the binder's environment, by mutual structural induction. *)
From Coq Require Import List NArith ZArith Bool Lia Permutation.
From LH Require Import Base.Bytes Model.Lexer Model.Ast Model.Scope Spec.LuaScope
  Proofs.TraverseBindDefs Proofs.TraverseBindSim Proofs.TraverseBindLoops Proofs.TraverseBindLocal.
Import ListNotations.
Local Open Scope Z_scope.

Definition Pe (e : exp) : Prop := tb_shp_exp e = true -> forall flv slv reg, PeSim flv slv reg e.
Definition Ps (s : stat) : Prop :=
  tb_shp_stat s = true -> forall flv slv reg,
    SimS (tr_stat flv slv s) (fun nm => cl_stat nm flv slv s) (fun en => b_stat flv slv reg s en).
Definition Pb (b : block) : Prop :=
  tb_shp_block b = true -> forall flv slv reg,
    SimS (tr_block flv slv b) (fun nm => cl_block nm flv slv b) (fun en => b_block flv slv reg b en).

Lemma Forall_Pe es : Forall Pe es -> forallb tb_shp_exp es = true ->
  forall flv slv reg, Forall (PeSim flv slv reg) es.
Proof.
  intros H Hs flv slv reg. rewrite forallb_forall in Hs. rewrite Forall_forall in *.
  intros e He. apply (H e He (Hs e He)).
Qed.

Lemma Forall_Pb bs : Forall Pb bs -> forallb tb_shp_block bs = true ->
  forall flv slv, Forall (fun b => SimS (tr_block flv slv b) (fun nm => cl_block nm flv slv b)
                                        (fun en => b_block flv slv (block_loc b) b en)) bs.
Proof.
  intros H Hs flv slv. rewrite forallb_forall in Hs. rewrite Forall_forall in *.
  intros b Hb. apply (H b Hb (Hs b Hb)).
Qed.

Lemma Forall_Ps ss : Forall Ps ss -> forallb tb_shp_stat ss = true ->
  forall flv slv reg, Forall (fun s => SimS (tr_stat flv slv s) (fun nm => cl_stat nm flv slv s)
                                            (fun en => b_stat flv slv reg s en)) ss.
Proof.
  intros H Hs flv slv reg. rewrite forallb_forall in Hs. rewrite Forall_forall in *.
  intros s Hin. apply (H s Hin (Hs s Hin)).
Qed.

Lemma ccore_decl_cons en flv slv reg e nl X : ccore (decl_occ en flv slv reg e nl :: X) = ccore X.
Proof. reflexivity. Qed.

Ltac by_id := intros; unfold PeSim; eapply SimE_ext; [| | |exact SimE_id]; intros; reflexivity.
Ltac sby_id := intros; eapply SimS_ext; [| | |exact SimS_id]; intros; reflexivity.

Theorem sim_all : (forall e, Pe e) /\ (forall s, Ps s) /\ (forall b, Pb b).
Proof.
  apply tb_ast_ind; unfold Pe, Ps, Pb.
  - by_id.
  - by_id.
  - by_id.
  - by_id.
  - by_id.
  - by_id.
  - by_id.
  - by_id.
  - (* EName *) intros n l _ flv slv reg. unfold PeSim.
    eapply SimE_ext; [| | |exact (SimE_name flv slv reg n l)]; intros; reflexivity.
  - (* EUnop *) intros o x l IH Hs flv slv reg. unfold PeSim.
    eapply SimE_ext; [| | |exact (IH Hs flv slv reg)]; intros; reflexivity.
  - (* EBinop *) intros o a b l IHa IHb Hs flv slv reg. cbn [tb_shp_exp] in Hs. apply andb_true_iff in Hs.
    destruct Hs as [Ha Hb]. unfold PeSim.
    eapply SimE_ext; [| | |exact (SimE_seq _ _ _ _ _ _ (IHa Ha flv slv reg) (IHb Hb flv slv reg))]; intros; reflexivity.
  - (* EParens *) intros x l IH Hs flv slv reg. unfold PeSim.
    eapply SimE_ext; [| | |exact (IH Hs flv slv reg)]; intros; reflexivity.
  - (* EIndex *) intros p k l IHp IHk Hs flv slv reg. cbn [tb_shp_exp] in Hs. apply andb_true_iff in Hs.
    destruct Hs as [Hp Hk]. unfold PeSim.
    eapply SimE_ext; [| | |exact (SimE_seq _ _ _ _ _ _ (IHp Hp flv slv reg) (IHk Hk flv slv reg))]; intros; reflexivity.
  - (* ECall *) intros p nm args l IHp IHa Hs flv slv reg. cbn [tb_shp_exp] in Hs. apply andb_true_iff in Hs.
    destruct Hs as [Hp Ha]. unfold PeSim.
    pose proof (SimE_list (fun a => tr_exp flv a) (fun a nm0 => cl_exp nm0 flv a) (fun a en => b_exp flv slv reg a en)
                          args (Forall_Pe args IHa Ha flv slv reg)) as Hl.
    eapply SimE_ext; [| | |exact (SimE_seq _ _ _ _ _ _ (IHp Hp flv slv reg) Hl)]; intros; reflexivity.
  - (* ETable *) intros ks vs l IHk IHv Hs flv slv reg. cbn [tb_shp_exp] in Hs. apply andb_true_iff in Hs.
    destruct Hs as [Hk Hv]. unfold PeSim.
    pose proof (SimE_list (fun a => tr_exp flv a) (fun a nm0 => cl_exp nm0 flv a) (fun a en => b_exp flv slv reg a en)
                          vs (Forall_Pe vs IHv Hv flv slv reg)) as Hlv.
    assert (Hlk : Forall (fun k => SimE (match k with Some k' => tr_exp flv k' | None => fun s => s end)
                                        (fun nm0 => match k with Some k' => cl_exp nm0 flv k' | None => fun _ => true end)
                                        (fun en => match k with Some k' => b_exp flv slv reg k' en | None => [] end)) ks).
    { rewrite forallb_forall in Hk. rewrite Forall_forall in *. intros [k'|] Hin.
      - exact (IHk _ Hin (Hk _ Hin) flv slv reg).
      - exact SimE_id. }
    pose proof (SimE_list _ _ _ ks Hlk) as Hl.
    eapply SimE_ext; [intros st|intros nm st|intros en|exact (SimE_seq _ _ _ _ _ _ Hl Hlv)].
    + reflexivity.
    + cbn [cl_exp]. f_equal. f_equal. apply map_ext. intros [k'|]; reflexivity.
    + reflexivity.
  - (* EFunc *) intros c f ps pl b l va co IHb Hs flv slv reg. cbn [tb_shp_exp] in Hs. unfold PeSim.
    pose proof (SimS_seq _ _ _ _ _ _
                  (SimS_add_params (combine ps pl) (fun en => map (decl_occ en (flv + 1) 0 l false) (combine ps pl))
                                   (fun en => ccore_decls en (flv + 1) 0 l false (combine ps pl)))
                  (IHb Hs (flv + 1) 0 l)) as H.
    eapply SimE_ext; [| | |exact (SimE_scope l _ _ _ H)]; intros; reflexivity.
  - sby_id.
  - sby_id.
  - sby_id.
  - (* SDo *) intros b l IHb Hs flv slv reg. cbn [tb_shp_stat] in Hs.
    eapply SimS_ext; [| | |exact (SimS_of_E _ _ _ (SimE_scope l _ _ _ (IHb Hs flv (slv + 1) l)))]; intros; reflexivity.
  - (* SCall *) intros e IHe Hs flv slv reg. cbn [tb_shp_stat] in Hs.
    eapply SimS_ext; [| | |exact (SimS_of_E _ _ _ (IHe Hs flv slv reg))]; intros; reflexivity.
  - (* SIf *) intros es bs l IHe IHb Hs flv slv reg. cbn [tb_shp_stat] in Hs.
    apply andb_true_iff in Hs. destruct Hs as [Hs Hb]. apply andb_true_iff in Hs. destruct Hs as [Hlen He].
    apply Nat.eqb_eq in Hlen.
    pose proof (if_sim flv slv reg es bs Hlen (Forall_Pe es IHe He flv slv reg) (Forall_Pb bs IHb Hb flv (slv + 1))) as H.
    eapply SimS_ext; [| | |exact (SimS_of_E _ _ _ H)]; intros; reflexivity.
  - (* SWhile *) intros e b l IHe IHb Hs flv slv reg. cbn [tb_shp_stat] in Hs. apply andb_true_iff in Hs.
    destruct Hs as [He Hb].
    pose proof (SimE_seq _ _ _ _ _ _ (IHe He flv slv reg) (SimE_scope l _ _ _ (IHb Hb flv (slv + 1) l))) as H.
    eapply SimS_ext; [| | |exact (SimS_of_E _ _ _ H)]; intros; reflexivity.
  - (* SRepeat *) intros b e l IHb IHe Hs flv slv reg. cbn [tb_shp_stat] in Hs. apply andb_true_iff in Hs.
    destruct Hs as [Hb He].
    pose proof (SimS_seq _ _ _ _ _ _ (IHb Hb flv (slv + 1) l) (SimS_of_E _ _ _ (IHe He flv (slv + 1) l))) as H.
    eapply SimS_ext; [intros st|intros nm st|intros en|exact (SimS_of_E _ _ _ (SimE_scope l _ _ _ H))].
    + reflexivity.
    + reflexivity.
    + cbn [b_stat fst snd]. destruct (b_block flv (slv + 1) l b en) as [en1 os]. reflexivity.
  - (* SForNum *) intros n vl e1 e2 e3 b l IH1 IH2 IH3 IHb Hs flv slv reg. cbn [tb_shp_stat] in Hs.
    apply andb_true_iff in Hs. destruct Hs as [Hs Hb]. apply andb_true_iff in Hs. destruct Hs as [Hs H3].
    apply andb_true_iff in Hs. destruct Hs as [H1 H2].
    assert (Hv : VR (mkV n vl RNone false) ((n, vl), false)) by (repeat split; cbn; auto; discriminate).
    pose proof (SimS_seq _ _ _ _ _ _
                 (SimS_of_E _ _ _ (SimE_seq _ _ _ _ _ _
                                     (SimE_seq _ _ _ _ _ _ (IH1 H1 flv slv reg) (IH2 H2 flv slv reg)) (IH3 H3 flv slv reg)))
                 (SimS_seq _ _ _ _ _ _
                    (SimS_add _ _ (fun en => [decl_occ en flv (slv + 1) l false (n, vl)]) Hv (fun _ => eq_refl))
                    (IHb Hb flv (slv + 1) l))) as H.
    eapply SimS_ext; [intros st|intros nm st|intros en|
                      eapply SimS_perm; [intros en|exact (SimS_of_E _ _ _ (SimE_scope l _ _ _ H))]].
    + reflexivity.
    + cbn [cl_stat]. cbv zeta. rewrite <- !andb_assoc. cbn [andb]. reflexivity.
    + reflexivity.
    + cbv beta. cbn [b_stat fst snd app]. split; [reflexivity|].
      rewrite !ccore_app, !ccore_decl_cons. rewrite ccore_tag_if by discriminate. rewrite !ccore_app.
      rewrite <- !app_assoc. apply Permutation_refl.
  - (* SForIn *) intros ns ls es b l IHe IHb Hs flv slv reg. cbn [tb_shp_stat] in Hs. apply andb_true_iff in Hs.
    destruct Hs as [He Hb].
    pose proof (SimE_list (fun a => tr_exp flv a) (fun a nm0 => cl_exp nm0 flv a) (fun a en => b_exp flv slv reg a en)
                          es (Forall_Pe es IHe He flv slv reg)) as Hl.
    pose proof (SimS_seq _ _ _ _ _ _ (SimS_of_E _ _ _ Hl)
                 (SimS_seq _ _ _ _ _ _
                    (SimS_add_params (combine ns ls) (fun en => map (decl_occ en flv (slv + 1) l false) (combine ns ls))
                                     (fun en => ccore_decls en flv (slv + 1) l false (combine ns ls)))
                    (IHb Hb flv (slv + 1) l))) as H.
    eapply SimS_ext; [intros st|intros nm st|intros en|
                      eapply SimS_perm; [intros en|exact (SimS_of_E _ _ _ (SimE_scope l _ _ _ H))]].
    + reflexivity.
    + reflexivity.
    + reflexivity.
    + cbv beta. cbn [b_stat fst snd]. split; [reflexivity|].
      rewrite !ccore_app. rewrite ccore_tag_if by discriminate. apply Permutation_refl.
  - (* SAssign *) intros vars es l IHv IHe Hs flv slv reg. cbn [tb_shp_stat] in Hs. apply andb_true_iff in Hs.
    destruct Hs as [Hv He].
    pose proof (assign_sim flv slv reg vars es (Forall_Pe vars IHv Hv flv slv reg) (Forall_Pe es IHe He flv slv reg)) as H.
    eapply SimS_ext; [intros st|intros nm st|intros en|
                      eapply SimS_perm; [intros en|exact (SimS_of_E _ _ _ H)]].
    + cbn [tr_stat]. reflexivity.
    + cbn [cl_stat]. reflexivity.
    + reflexivity.
    + split; [reflexivity|]. cbn [snd]. rewrite ccore_assign. apply Permutation_refl.
  - (* SLocal *) intros ns ls ats es l IHe Hs flv slv reg. cbn [tb_shp_stat] in Hs. apply andb_true_iff in Hs.
    destruct Hs as [Hlen He].
    apply Nat.eqb_eq in Hlen.
    exact (local_sim flv slv reg ns ls ats es l Hlen (Forall_Pe es IHe He flv slv reg)).
  - (* SLocalFunc *) intros n nl f l IHf Hs flv slv reg. cbn [tb_shp_stat] in Hs.
    assert (Hv : VR (mkV n nl (ref_of_exp f) false) ((n, nl), false)) by (repeat split; cbn; auto; discriminate).
    pose proof (SimS_seq _ _ _ _ _ _
                  (SimS_add _ _ (fun en => [decl_occ en flv slv reg false (n, nl)]) Hv (fun _ => eq_refl))
                  (SimS_of_E _ _ _ (IHf Hs flv slv reg))) as H.
    eapply SimS_ext; [| | |exact H]; intros; reflexivity.
  - (* Block *) intros ss ret l IHs IHr Hs flv slv reg. cbn [tb_shp_block] in Hs. apply andb_true_iff in Hs.
    destruct Hs as [Hss Hr].
    pose proof (SimS_list (fun s => tr_stat flv slv s) (fun s nm => cl_stat nm flv slv s)
                          (fun s en => b_stat flv slv reg s en) ss (Forall_Ps ss IHs Hss flv slv reg)) as Hl.
    destruct ret as [es|].
    + pose proof (SimE_list (fun a => tr_exp flv a) (fun a nm0 => cl_exp nm0 flv a) (fun a en => b_exp flv slv reg a en)
                            es (Forall_Pe es IHr Hr flv slv reg)) as Hle.
      eapply SimS_ext; [intros st|intros nm st|intros en|exact (SimS_seq _ _ _ _ _ _ Hl (SimS_of_E _ _ _ Hle))].
      * reflexivity.
      * reflexivity.
      * cbn [b_block fst snd].
        destruct (seq_stats (map (fun s => b_stat flv slv reg s) ss) en) as [en1 os]. reflexivity.
    + eapply SimS_ext; [intros st|intros nm st|intros en|exact Hl].
      * reflexivity.
      * cbn [cl_block]. apply andb_true_r.
      * cbn [b_block].
        destruct (seq_stats (map (fun s => b_stat flv slv reg s) ss) en) as [en1 os]. reflexivity.
Qed.

(* ------------------------------------------------------------------ the core theorem on whole chunks *)
Definition occ_agrees (P : block) (o : occ) (s : socc) : Prop :=
  o_loc o = s_loc s /\ o_name o = s_name s /\ krole (o_kind o) (s_role s) /\
  (o_kind o = ODefineG -> o_res o = None) /\
  (tr_clean P (o_name o) = true -> has_tag CB3 s = false -> tbind o = s_bind s).

Lemma Forall2_map_r_inv {A B C} (R : A -> C -> Prop) (f : B -> C) xs ys :
  Forall2 R xs (map f ys) -> Forall2 (fun a b => R a (f b)) xs ys.
Proof.
  revert xs. induction ys as [|y r IH]; intros xs H; inversion H; subst; constructor; auto.
Qed.

Theorem traverse_bind_core (P : block) :
  tb_shape P = true ->
  exists os', Permutation (nd (bind_file P)) os' /\ Forall2 (occ_agrees P) (fi_occs (analyse P)) os'.
Proof.
  intros Hs. destruct sim_all as [_ [_ Hb]].
  pose proof (Hb P Hs 0 0 (block_loc P)) as H.
  assert (Hfr : FRS (st0 P) [[]]).
  { unfold FRS, st0. cbn. constructor; [constructor|constructor]. }
  assert (Heq : EQ (fun _ _ => False) (concat [[]]) []) by (intros n; left; reflexivity).
  destruct (H (st0 P) [] [] [] (fun _ _ => False) Hfr Heq) as [news [cs [seg' [H1 [_ [_ [H4 H5]]]]]]].
  fold (bind_file P) in H4. rewrite <- ccore_nd in H4.
  destruct (Permutation_map_inv _ _ H4) as [os' [Hcs Hperm]].
  exists os'. split; [exact Hperm|].
  unfold analyse. cbn [fi_occs]. change (mkT [mkF (block_loc P) [] []] [] []) with (st0 P).
  rewrite H1. cbn [st0 t_occs]. rewrite app_nil_r, rev_involutive.
  subst cs. apply Forall2_map_r_inv in H5.
  eapply Forall2_impl; [|exact H5]. intros o s [A1 [A2 [A3 [A5 A4]]]].
  repeat split; auto.
Qed.

(* the same, element-wise *)
Corollary traverse_occ_has_spec (P : block) o :
  tb_shape P = true -> In o (fi_occs (analyse P)) ->
  exists s, In s (bind_file P) /\ is_decl (s_role s) = false /\ occ_agrees P o s.
Proof.
  intros Hs Hin. destruct (traverse_bind_core P Hs) as [os' [Hp Hf]].
  assert (Hex : exists s, In s os' /\ occ_agrees P o s).
  { clear Hp. induction Hf as [|a b l l' Hab Hr IH]; [destruct Hin|].
    destruct Hin as [->|Hin]; [exists b; split; [left; reflexivity|exact Hab]|].
    destruct (IH Hin) as [s [H1 H2]]. exists s. split; [right; exact H1|exact H2]. }
  destruct Hex as [s [H1 H2]]. exists s.
  apply (Permutation_in _ (Permutation_sym Hp)) in H1. unfold nd in H1. apply filter_In in H1.
  destruct H1 as [H1 H3]. apply negb_true_iff in H3. auto.
Qed.

Corollary spec_occ_has_traverse (P : block) s :
  tb_shape P = true -> In s (bind_file P) -> is_decl (s_role s) = false ->
  exists o, In o (fi_occs (analyse P)) /\ occ_agrees P o s.
Proof.
  intros Hs Hin Hd. destruct (traverse_bind_core P Hs) as [os' [Hp Hf]].
  assert (Hin' : In s os').
  { apply (Permutation_in _ Hp). unfold nd. apply filter_In. split; [exact Hin|]. rewrite Hd. reflexivity. }
  clear Hp. induction Hf as [|a b l l' Hab Hr IH]; [destruct Hin'|].
  destruct Hin' as [->|Hin']; [exists a; split; [left; reflexivity|exact Hab]|].
  destruct (IH Hin') as [o [H1 H2]]. exists o. split; [right; exact H1|exact H2].
Qed.
