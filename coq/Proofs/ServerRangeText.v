(* C04, server level, ranges that designate names written in COMMENTS (annotation lexer: ---@class / ---@alias /
   ---@field names, type names inside annotation types).  Such names are not tokens of the Lua lexer, so the token
   judgement of Proofs/ServerRange.v (range_designates) says nothing about them.  The judgement used for them is the
   TEXT predicate of the property itself: the text under the range (LSP reading of the document: UTF-16 columns; LF,
   CRLF, CR) is exactly the name.  It looks only at the code points of the document - no lexer, hence no file guard. *)
From Coq Require Import List NArith ZArith Bool Lia ZifyN ZifyBool.
From LH Require Import Base.Bytes Base.Res Base.Utf8 Model.TextSync Spec.LspText Model.Lexer Spec.LspRange
  Proofs.LexerRangeMain Proofs.ServerRange.
Import ListNotations.
Local Open Scope N_scope.

(* the text judgement of one range / of one answer *)
Definition text_designates (cps name : list N) (r : range) : bool := covers cps (loc_of_range r) name.
Definition texts_designate (cps name : list N) (rs : list range) : bool := forallb (text_designates cps name) rs.

(* the judgement of the leg for a range that may designate a Lua identifier OR a name written in a comment *)
Definition range_designates_any (cps : list N) (ts : list ltok) (name : list N) (r : range) : bool :=
  range_designates ts name r || text_designates cps name r.
Definition ranges_designate_any (cps : list N) (ts : list ltok) (name : list N) (rs : list range) : bool :=
  forallb (range_designates_any cps ts name) rs.

(* ---- the name under a cursor that does not stand on a Lua identifier token: the maximal run of word characters
   (letters, digits, `_` and `.` - the identifier characters of the annotation lexer, annotate_lexer.go scanIdentifier)
   around the position *)
Definition is_word_cp (c : N) : bool :=
  ((48 <=? c) && (c <=? 57)) || ((65 <=? c) && (c <=? 90)) || ((97 <=? c) && (c <=? 122)) || (c =? 95) || (c =? 46).
Fixpoint take_word (l : list N) {struct l} : list N :=
  match l with
  | c :: t => if is_word_cp c then c :: take_word t else []
  | [] => []
  end.
Definition word_at (cps : list N) (line ch : N) : option (list N) :=
  match pos_index cps (mkpos line ch) with
  | Some i =>
    match rev (take_word (rev (firstn (N.to_nat i) cps))) ++ take_word (skipn (N.to_nat i) cps) with
    | [] => None
    | w => Some w
    end
  | None => None
  end.

(* ---- exact class predicate of the deviation of the unchanged server: the annotation lexer counts BYTES
   (annotate_lexer.go next(n): col += n on a Go string), the document counts UTF-16 units.
   bpositions: all positions of the document as (line, server column, document column): the server column equals the
   document column up to the first `--` of the line and grows by the UTF-8 length of every code point after it. *)
Definition utf8_len (c : N) : N := if c <? 128 then 1 else if c <? 2048 then 2 else if c <? 65536 then 3 else 4.
Fixpoint bpositions (d : list N) (after_cr incom : bool) (line col bcol : N) {struct d} : list (N * N * N) :=
  match d with
  | [] => [(line, bcol, col)]
  | c :: t =>
    if after_cr && (c =? 10) then bpositions t false false line col bcol
    else (line, bcol, col) ::
         (if c =? 10 then bpositions t false false (line + 1) 0 0
          else if c =? 13 then bpositions t true false (line + 1) 0 0
          else let incom' := incom || ((c =? 45) && match t with c2 :: _ => c2 =? 45 | [] => false end) in
               bpositions t false incom' line (col + utf16_len c) (bcol + (if incom' then utf8_len c else utf16_len c)))
  end.
Definition unbyte_pos (cps : list N) (p : TextSync.pos) : option TextSync.pos :=
  match lookup (p_line p) (p_ch p) (bpositions cps false false 0 0 0) with
  | Some c => Some (mkpos (p_line p) c)
  | None => None
  end.
(* the range whose end points, read as byte-counted columns, are those of r *)
Definition ann_unbyte (cps : list N) (r : range) : option range :=
  match unbyte_pos cps (r_start r), unbyte_pos cps (r_end r) with
  | Some a, Some b => Some (mkrange a b)
  | _, _ => None
  end.
Definition pos_eqb (a b : TextSync.pos) : bool := (p_line a =? p_line b) && (p_ch a =? p_ch b).
Definition range_eqb (a b : range) : bool := pos_eqb (r_start a) (r_start b) && pos_eqb (r_end a) (r_end b).
(* ann_bytes (named range): r is displaced, and read with byte-counted columns after the `--` of its line it is a range
   whose text is exactly `name` *)
Definition cls_ann_bytes (cps name : list N) (r : range) : bool :=
  match ann_unbyte cps r with
  | Some r' => negb (range_eqb r r') && text_designates cps name r'
  | None => false
  end.
(* ann_bytes (diagnostic): r is displaced, and read with byte-counted columns it lies in the document *)
Definition cls_ann_bytes_doc (cps : list N) (r : range) : bool :=
  match ann_unbyte cps r with
  | Some r' => negb (range_eqb r r') && range_in_doc cps r'
  | None => false
  end.

(* ann_type_word: the range is exactly a maximal run of word characters (not extendable to the left or right) that
   stands in a comment (a `--` earlier on its line) where a type is written: a type name inside an annotation.  Class of the definition
   answers for a member `x.k` of a variable typed `table<K, V>` / `V[]`: the server answers with the Loc of the VALUE TYPE
   name V inside the annotation (check_find_var_refer.go getTableTypeMemKey / getArrayTypeMemKey: AnnotateLoc) *)
Fixpoint line_tail_rev (l : list N) {struct l} : list N :=      (* l = the text before a position, reversed *)
  match l with
  | c :: t => if (c =? 10) || (c =? 13) then [] else c :: line_tail_rev t
  | [] => []
  end.
(* the word stands where a TYPE is written: behind the last `@` of its line there is the tag and - unless the tag is
   `type` / `return` - at least one more word (the declared name), the nearest one not an access keyword:
   not the tag itself (`field`), not the declared name (`xpos` in ---@field public xpos T), not `public` *)
Fixpoint split_words (l cur : list N) (acc : list (list N)) {struct l} : list (list N) :=
  match l with
  | [] => rev (match cur with [] => acc | _ => rev cur :: acc end)
  | c :: t => if is_word_cp c then split_words t (c :: cur) acc
              else split_words t [] (match cur with [] => acc | _ => rev cur :: acc end)
  end.
Fixpoint until_at_rev (l : list N) {struct l} : option (list N) :=     (* l reversed text: the part behind the last `@` *)
  match l with
  | [] => None
  | c :: t => if c =? 64 then Some [] else match until_at_rev t with Some x => Some (x ++ [c]) | None => None end
  end.
Definition access_word (w : list N) : bool :=
  beq_bytes w [112;117;98;108;105;99] || beq_bytes w [112;114;111;116;101;99;116;101;100] || beq_bytes w [112;114;105;118;97;116;101].
Definition ann_type_position (line_before_rev : list N) : bool :=
  match until_at_rev line_before_rev with
  | None => false
  | Some seg =>
    match split_words seg [] [] with
    | [] => false
    | tag :: rest =>
      if beq_bytes tag [116;121;112;101] || beq_bytes tag [114;101;116;117;114;110] then true
      else match rev rest with [] => false | w :: _ => negb (access_word w) end
    end
  end.
Definition cls_ann_type_word (cps : list N) (r : range) : bool :=
  match range_index cps r with
  | Some (i, j) =>
    let bef := rev (firstn (N.to_nat i) cps) in
    let w := firstn (N.to_nat (j - i)) (skipn (N.to_nat i) cps) in
    let aft := skipn (N.to_nat j) cps in
    (i <? j) && forallb is_word_cp w &&
    negb (match bef with c :: _ => is_word_cp c | [] => false end) &&
    negb (match aft with c :: _ => is_word_cp c | [] => false end) &&
    has_pair 45 45 (line_tail_rev bef) && ann_type_position (line_tail_rev bef)
  | None => false
  end.

(* ------------------------------------------------------------------------------------------------ soundness *)
Lemma text_designates_names cps name r : text_designates cps name r = true <-> range_names cps name r.
Proof. unfold text_designates. symmetry. apply range_names_covers. Qed.

(* C04_text_designate_sound: for EVERY document (list of code points - in particular every valid-UTF-8 file), every
   name and every list of ranges the text judgement accepts: every range lies in the document, has start <= end and
   the text under it is exactly `name`.  No lexer, no file class. *)
Theorem text_designate_sound : forall cps name rs,
  texts_designate cps name rs = true -> Forall (range_names cps name) rs.
Proof.
  intros cps name rs H. unfold texts_designate in H. rewrite forallb_forall in H. apply Forall_forall. intros r Hr.
  apply text_designates_names. exact (H r Hr).
Qed.

(* ... and it rejects nothing that is right: the judgement IS the property's clause *)
Theorem text_designate_complete : forall cps name rs,
  Forall (range_names cps name) rs -> texts_designate cps name rs = true.
Proof.
  intros cps name rs H. unfold texts_designate. apply forallb_forall. intros r Hr. rewrite Forall_forall in H.
  apply text_designates_names. exact (H r Hr).
Qed.

(* inside the guard of C04_tok_range_exact the token judgement implies the text judgement *)
Lemma designates_text gbk cps ts name r :
  forallb scalar cps = true -> file_class_ok cps = true ->
  lex_all gbk (utf8_of cps) = Ok ts -> cls_lexerr ts = false ->
  range_designates ts name r = true -> text_designates cps name r = true.
Proof.
  intros Hs Hc Hl He H. apply text_designates_names.
  exact (designates_covered _ _ _ _ (tok_range_exact gbk cps ts Hs Hc Hl He) H).
Qed.

(* the combined judgement of the leg is sound under the guard of the token judgement *)
Theorem designate_any_sound : forall gbk cps ts name rs,
  forallb scalar cps = true -> file_class_ok cps = true ->
  lex_all gbk (utf8_of cps) = Ok ts -> cls_lexerr ts = false ->
  ranges_designate_any cps ts name rs = true ->
  Forall (range_names cps name) rs.
Proof.
  intros gbk cps ts name rs Hs Hc Hl He H. unfold ranges_designate_any in H. rewrite forallb_forall in H.
  apply Forall_forall. intros r Hr. specialize (H r Hr). unfold range_designates_any in H.
  apply orb_prop in H. destruct H as [H|H].
  - apply text_designates_names. exact (designates_text gbk cps ts name r Hs Hc Hl He H).
  - apply text_designates_names. exact H.
Qed.

(* ---- the word under the cursor is a slice of the document made of word characters, and the cursor stands in it or at
   one of its ends *)
Lemma take_word_prefix l : exists rest, l = take_word l ++ rest.
Proof.
  induction l as [|c t IH]; cbn [take_word].
  - exists []. reflexivity.
  - destruct (is_word_cp c).
    + destruct IH as [rest IH]. exists rest. cbn [app]. f_equal. exact IH.
    + exists (c :: t). reflexivity.
Qed.

Lemma take_word_all l : forallb is_word_cp (take_word l) = true.
Proof.
  induction l as [|c t IH]; cbn [take_word]; [reflexivity|].
  destruct (is_word_cp c) eqn:E; [|reflexivity]. cbn [forallb]. rewrite E, IH. reflexivity.
Qed.

Theorem word_at_slice : forall cps line ch w, word_at cps line ch = Some w ->
  exists i a b w1 w2, pos_index cps (mkpos line ch) = Some i /\
    firstn (N.to_nat i) cps = a ++ w1 /\ skipn (N.to_nat i) cps = w2 ++ b /\
    cps = a ++ w ++ b /\ w = w1 ++ w2 /\ w <> [] /\ forallb is_word_cp w = true.
Proof.
  intros cps line ch w H. unfold word_at in H.
  destruct (pos_index cps (mkpos line ch)) as [i|] eqn:Ei; [|discriminate].
  set (bef := firstn (N.to_nat i) cps) in *. set (aft := skipn (N.to_nat i) cps) in *.
  destruct (take_word_prefix (rev bef)) as [r1 H1]. destruct (take_word_prefix aft) as [r2 H2].
  set (w1 := rev (take_word (rev bef))) in *. set (w2 := take_word aft) in *.
  assert (Hw : w = w1 ++ w2) by (destruct (w1 ++ w2) eqn:E; [discriminate|injection H as <-; reflexivity]).
  assert (Hb : bef = rev r1 ++ w1).
  { unfold w1. rewrite <- rev_app_distr. rewrite <- H1. rewrite rev_involutive. reflexivity. }
  exists i, (rev r1), r2, w1, w2.
  assert (Hcps : cps = rev r1 ++ w ++ r2).
  { rewrite <- (firstn_skipn (N.to_nat i) cps). fold bef. fold aft. rewrite Hb, H2, Hw. fold w2.
    rewrite <- !app_assoc. reflexivity. }
  assert (Hne : w <> []) by (destruct (w1 ++ w2) eqn:E; [discriminate|injection H as <-; discriminate]).
  assert (Hall : forallb is_word_cp w = true).
  { rewrite Hw, forallb_app. unfold w1, w2. rewrite take_word_all, andb_true_r.
    apply forallb_forall. intros x Hx. apply in_rev in Hx.
    pose proof (take_word_all (rev bef)) as Ha. rewrite forallb_forall in Ha. exact (Ha x Hx). }
  repeat split; assumption.
Qed.
