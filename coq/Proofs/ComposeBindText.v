(* Binder family, composition, part 2: the TEXT side of a position request (Model/Resolve.v: offset_of = OffsetForPosition,
   cut_name = GetVarStruct with GetBeforeIndex and the `..` cut).
   `ident_at bs l name` (boolean): the identifier `name` stands in the text bs at the Loc l - the bytes of line sl-1 from
   column sc spell the name, ec = sc + length, the byte after it exists and is no identifier character, and the text
   before it is a place where GetBeforeIndex stops: start of text, or a byte other than [A-Za-z0-9_.:)] , or the
   concatenation dots `..` not preceded by a third dot.
   Proved for ALL texts: at EVERY cursor column sc <= col <= ec of such an identifier the request is about that name
   (`request_name_at`): OffsetForPosition lands inside / at the end of the identifier and GetVarStruct cuts exactly it. *)
From Coq Require Import List NArith ZArith Bool Lia ZifyN ZifyNat ZifyBool.
From LH Require Import Base.Bytes Model.Lexer Model.Ast Model.Scope Model.Resolve Proofs.ResolveRun Proofs.ResolveFull.
Import ListNotations.
Local Open Scope N_scope.

(* ------------------------------------------------------------------ after_dots *)
Definition starts_dot (l : list N) : bool := match l with c :: _ => c =? 46 | [] => false end.

Lemma after_dots_cons c r cur :
  after_dots (c :: r) cur = if (c =? 46) && starts_dot r then after_dots (tl r) [] else after_dots r (cur ++ [c]).
Proof.
  destruct c as [|p]; [reflexivity|].
  do 6 (try (destruct p as [p|p|]; try reflexivity)).
  destruct r as [|c2 r']; [reflexivity|].
  destruct c2 as [|q]; [reflexivity|].
  do 6 (try (destruct q as [q|q|]; try reflexivity)).
Qed.

Definition nodot (l : list N) : Prop := Forall (fun c => (c =? 46) = false) l.

Lemma after_dots_nodot l : nodot l -> forall cur, after_dots l cur = cur ++ l.
Proof.
  intros H. induction H as [|c r Hc Hr IH]; intros cur; [cbn; rewrite app_nil_r; reflexivity|].
  rewrite after_dots_cons, Hc. cbn [andb]. rewrite IH, <- app_assoc. reflexivity.
Qed.

(* the part after the LAST `..`: a text s that does not end in a dot, then `..`, then a dot-free word *)
Lemma after_dots_suffix id : nodot id ->
  forall k s cur, (length s <= k)%nat -> (forall x, s <> x ++ [46]) -> after_dots (s ++ 46 :: 46 :: id) cur = id.
Proof.
  intros Hid. induction k as [|k IH]; intros s cur Hlen Hnd.
  - destruct s as [|c s']; [|cbn in Hlen; lia]. cbn [app]. rewrite after_dots_cons. cbn [N.eqb Pos.eqb andb starts_dot tl].
    exact (after_dots_nodot id Hid []).
  - destruct s as [|c1 s1].
    + cbn [app]. rewrite after_dots_cons. cbn [N.eqb Pos.eqb andb starts_dot tl]. exact (after_dots_nodot id Hid []).
    + cbn [app]. rewrite after_dots_cons. destruct ((c1 =? 46) && starts_dot (s1 ++ 46 :: 46 :: id)) eqn:E.
      * destruct s1 as [|c2 s2].
        -- apply andb_true_iff in E. destruct E as [E _]. apply N.eqb_eq in E. subst c1. exfalso. apply (Hnd []). reflexivity.
        -- cbn [app tl]. apply IH; [cbn in Hlen; lia|]. intros x Hx. apply (Hnd (c1 :: c2 :: x)). cbn. rewrite Hx. reflexivity.
      * apply IH; [cbn in Hlen; lia|]. intros x Hx. apply (Hnd (c1 :: x)). cbn. rewrite Hx. reflexivity.
Qed.

(* ------------------------------------------------------------------ GetBeforeIndex *)
(* a byte at which the leftward scan stops (bracket depth 0) *)
Definition stopper (c : N) : bool := negb (is_idc c || (c =? 46) || (c =? 58) || (c =? 41)).

(* the reversed text before the identifier *)
Definition left_ok (rpre : list N) : bool :=
  match rpre with
  | [] => true
  | c :: r => stopper c || ((c =? 46) && match r with
                                           | c2 :: r' => (c2 =? 46) && negb (starts_dot r')
                                           | [] => false
                                           end)
  end.

Lemma idc_facts c : is_idc c = true ->
  (c =? 13) = false /\ (c =? 10) = false /\ (c =? 41) = false /\ (c =? 40) = false /\ (c =? 46) = false.
Proof.
  intros H. repeat split.
  all: match goal with |- (?x =? ?k) = false => destruct (N.eqb_spec x k) as [->|_]; [vm_compute in H; discriminate|reflexivity] end.
Qed.

Lemma before_scan_idc c r i best rb : is_idc c = true -> before_scan (c :: r) i best rb = before_scan r (i + 1) i rb.
Proof.
  intros H. destruct (idc_facts c H) as (H13 & H10 & H41 & H40 & _). cbn [before_scan]. rewrite H13, H10, H41, H40. cbn [orb].
  unfold is_idc in H.
  assert (E : ((c =? 95) || (c =? 46) || (c =? 58) || is_digit c || is_letter c || false || false) = true).
  { destruct (c =? 95); [reflexivity|]. cbn [orb] in *. destruct (is_digit c); [rewrite !orb_true_r; reflexivity|].
    cbn [orb] in H. rewrite H. rewrite !orb_true_r. reflexivity. }
  rewrite E. reflexivity.
Qed.

Lemma before_scan_idcs l : forallb is_idc l = true -> l <> [] -> forall rest i best rb,
  before_scan (l ++ rest) i best rb = before_scan rest (i + N.of_nat (length l)) (i + N.of_nat (length l) - 1) rb.
Proof.
  induction l as [|c l' IH]; intros Hall Hne rest i best rb; [contradiction|].
  cbn [forallb] in Hall. apply andb_true_iff in Hall. destruct Hall as [Hc Hl'].
  cbn [app]. rewrite (before_scan_idc c _ i best rb Hc).
  destruct l' as [|c' l''].
  - cbn [app length]. f_equal; lia.
  - rewrite (IH Hl' ltac:(discriminate)). cbn [length]. f_equal; lia.
Qed.

Lemma before_scan_stop c r i best : stopper c = true -> before_scan (c :: r) i best 0%Z = best.
Proof.
  unfold stopper. intros H. apply negb_true_iff in H.
  apply orb_false_iff in H. destruct H as [H H41]. apply orb_false_iff in H. destruct H as [H H58].
  apply orb_false_iff in H. destruct H as [Hidc H46]. unfold is_idc in Hidc.
  apply orb_false_iff in Hidc. destruct Hidc as [Hidc Hlet]. apply orb_false_iff in Hidc. destruct Hidc as [H95 Hdig].
  cbn [before_scan]. destruct ((c =? 13) || (c =? 10)); [reflexivity|].
  rewrite H95, H46, H58, Hdig, Hlet, H41. cbn [orb]. destruct (c =? 40); reflexivity.
Qed.

Lemma before_scan_dot r i best rb : before_scan (46 :: r) i best rb = before_scan r (i + 1) i rb.
Proof. reflexivity. Qed.

Lemma before_scan_range l : forall i best rb,
  before_scan l i best rb = best \/ (i <= before_scan l i best rb < i + N.of_nat (length l)).
Proof.
  induction l as [|c r IH]; intros i best rb; [left; reflexivity|].
  cbn [before_scan length].
  destruct ((c =? 13) || (c =? 10)); [left; reflexivity|].
  destruct ((c =? 95) || (c =? 46) || (c =? 58) || is_digit c || is_letter c || (c =? 41) || (c =? 40)).
  - destruct (c =? 41).
    + destruct (IH (i + 1) i (rb + 1)%Z) as [E|E]; right; lia.
    + destruct (c =? 40).
      * destruct (rb - 1 <? 0)%Z; [left; reflexivity|]. destruct (IH (i + 1) i (rb - 1)%Z) as [E|E]; right; lia.
      * destruct (IH (i + 1) i rb) as [E|E]; right; lia.
  - destruct (rb >? 0)%Z; [|left; reflexivity].
    destruct (IH (i + 1) best rb) as [E|E]; [left; exact E|right; lia].
Qed.

(* ------------------------------------------------------------------ the identifier in its text *)
Lemma forallb_idc_nodot l : forallb is_idc l = true -> nodot l.
Proof.
  intros H. unfold nodot. apply Forall_forall. intros c Hc. rewrite forallb_forall in H.
  exact (proj2 (proj2 (proj2 (proj2 (idc_facts c (H c Hc)))))).
Qed.

Lemma ident_run_word l post : forallb is_idc l = true ->
  match post with c :: _ => is_idc c = false | [] => True end -> ident_run (l ++ post) = l.
Proof.
  intros Hl Hp. induction l as [|c r IH].
  - destruct post as [|c r]; [reflexivity|]. cbn. rewrite Hp. reflexivity.
  - cbn [forallb] in Hl. apply andb_true_iff in Hl. destruct Hl as [Hc Hr]. cbn [app ident_run]. rewrite Hc, (IH Hr). reflexivity.
Qed.

Section Word.
  Variable pre id post : list N.
  Hypothesis Hidc : forallb is_idc id = true.
  Hypothesis Hleft : left_ok (rev pre) = true.
  Hypothesis Hpost : match post with c :: _ => is_idc c = false | [] => True end.
  Let bs := pre ++ id ++ post.
  Let np := length pre.
  Let ni := length id.

  Lemma firstn_word j : (j <= ni)%nat -> firstn (np + j) bs = pre ++ firstn j id.
  Proof.
    intros Hj. unfold bs. rewrite firstn_app. rewrite firstn_all2 by (unfold np; lia).
    replace (np + j - length pre)%nat with j by (unfold np; lia).
    rewrite firstn_app. replace (j - length id)%nat with 0%nat by (unfold ni in Hj; lia). cbn [firstn].
    rewrite app_nil_r. reflexivity.
  Qed.

  Lemma skipn_word j : (j <= ni)%nat -> skipn (np + j) bs = skipn j id ++ post.
  Proof.
    intros Hj. unfold bs. rewrite skipn_app. rewrite skipn_all2 by (unfold np; lia).
    replace (np + j - length pre)%nat with j by (unfold np; lia). cbn [app].
    rewrite skipn_app. replace (j - length id)%nat with 0%nat by (unfold ni in Hj; lia). reflexivity.
  Qed.

  Lemma skipn_left t : (t <= np)%nat -> skipn (np - t) bs = skipn (np - t) pre ++ id ++ post.
  Proof.
    intros Ht. unfold bs. rewrite skipn_app. replace (np - t - length pre)%nat with 0%nat by (unfold np; lia). reflexivity.
  Qed.

  Lemma firstn_idc j : forallb is_idc (firstn j id) = true.
  Proof.
    apply forallb_forall. intros c Hc. rewrite forallb_forall in Hidc. apply Hidc.
    rewrite <- (firstn_skipn j id). apply in_or_app. left. exact Hc.
  Qed.

  (* how far left GetBeforeIndex goes from a position inside the word: t bytes of `pre`, and what is cut is the word *)
  Lemma scan_left j : (j < ni)%nat ->
    exists t, (t <= np)%nat /\
      before_scan (rev (firstn (np + j + 1) bs)) 0 0 0%Z = N.of_nat (j + t) /\
      after_dots (skipn (np - t) pre ++ id) [] = id.
  Proof.
    intros Hj. replace (np + j + 1)%nat with (np + (j + 1))%nat by lia. rewrite firstn_word by lia.
    rewrite rev_app_distr.
    assert (Hlen : length (rev (firstn (j + 1) id)) = (j + 1)%nat).
    { rewrite rev_length, firstn_length. unfold ni in Hj. lia. }
    assert (Hall : forallb is_idc (rev (firstn (j + 1) id)) = true).
    { apply forallb_forall. intros c Hc. apply in_rev in Hc. pose proof (firstn_idc (j + 1)) as H.
      rewrite forallb_forall in H. exact (H c Hc). }
    rewrite (before_scan_idcs _ Hall); [|intros E; rewrite E in Hlen; cbn in Hlen; lia].
    rewrite Hlen.
    replace (0 + N.of_nat (j + 1)) with (N.of_nat j + 1) by lia.
    replace (N.of_nat j + 1 - 1) with (N.of_nat j) by lia.
    pose proof (forallb_idc_nodot id Hidc) as Hnd.
    destruct (rev pre) as [|c r] eqn:Erev.
    - (* start of the text *)
      exists 0%nat. split; [lia|]. split; [cbn; f_equal; lia|].
      rewrite Nat.sub_0_r. unfold np. rewrite skipn_all. exact (after_dots_nodot id Hnd []).
    - cbn [left_ok] in Hleft. destruct (stopper c) eqn:Est.
      + exists 0%nat. split; [lia|]. split; [rewrite (before_scan_stop c r _ _ Est); f_equal; lia|].
        rewrite Nat.sub_0_r. unfold np. rewrite skipn_all. exact (after_dots_nodot id Hnd []).
      + cbn [orb] in Hleft. apply andb_true_iff in Hleft. destruct Hleft as [Hc Hr]. apply N.eqb_eq in Hc. subst c.
        destruct r as [|c2 r']; [discriminate|]. apply andb_true_iff in Hr. destruct Hr as [Hc2 Hr']. apply N.eqb_eq in Hc2. subst c2.
        apply negb_true_iff in Hr'.
        rewrite !before_scan_dot.
        assert (Hpre : pre = rev r' ++ [46; 46]).
        { rewrite <- (rev_involutive pre), Erev. cbn [rev]. rewrite <- app_assoc. reflexivity. }
        assert (Hnp : np = (length r' + 2)%nat) by (unfold np; rewrite Hpre, app_length, rev_length; cbn; lia).
        set (m := before_scan r' (N.of_nat j + 1 + 1 + 1) (N.of_nat j + 1 + 1) 0%Z).
        assert (Hm : N.of_nat j + 2 <= m <= N.of_nat j + 2 + N.of_nat (length r')).
        { destruct (before_scan_range r' (N.of_nat j + 1 + 1 + 1) (N.of_nat j + 1 + 1) 0%Z) as [E|E]; fold m in E; lia. }
        exists (N.to_nat m - j)%nat. split; [lia|]. split; [lia|].
        (* the part of `pre` that is cut: a suffix of rev r', then the two dots *)
        set (u := (N.to_nat m - j - 2)%nat).
        assert (Hsk : skipn (np - (N.to_nat m - j)) pre = skipn (length r' - u) (rev r') ++ [46; 46]).
        { rewrite Hpre, skipn_app, rev_length. replace (np - (N.to_nat m - j))%nat with (length r' - u)%nat by (unfold u; lia).
          replace (length r' - u - length r')%nat with 0%nat by lia. reflexivity. }
        rewrite Hsk, <- app_assoc. cbn [app].
        apply (after_dots_suffix id Hnd (length (skipn (length r' - u) (rev r')))); [lia|].
        intros x Hx.
        (* a suffix of rev r' ending in a dot: r' starts with a dot *)
        assert (Hrr : rev r' = firstn (length r' - u) (rev r') ++ x ++ [46]) by (rewrite <- Hx; symmetry; apply firstn_skipn).
        apply (f_equal (@rev N)) in Hrr. rewrite rev_involutive, !rev_app_distr in Hrr. cbn [rev app] in Hrr.
        rewrite Hrr in Hr'. cbn in Hr'. discriminate.
  Qed.

  (* GetVarStruct's string at a position off2 inside the word *)
  Lemma cut_inside j : (j < ni)%nat ->
    let off2 := N.of_nat (np + j) in
    let b := before_index bs off2 in
    after_dots (firstn (N.to_nat (off2 - b)) (skipn (N.to_nat b) bs) ++ ident_run (skipn (N.to_nat off2) bs)) [] = id.
  Proof.
    intros Hj off2 b. destruct (scan_left j Hj) as (t & Ht & Hscan & Hcut).
    assert (Hb : b = N.of_nat (np - t)).
    { unfold b, before_index, off2. replace (N.to_nat (N.of_nat (np + j) + 1)) with (np + j + 1)%nat by lia.
      rewrite Hscan. lia. }
    rewrite Hb. replace (N.to_nat (off2 - N.of_nat (np - t))) with (t + j)%nat by (unfold off2; lia).
    rewrite Nat2N.id. unfold off2. rewrite Nat2N.id.
    rewrite (skipn_left t Ht), (skipn_word j) by lia.
    rewrite firstn_app. rewrite skipn_length. fold np. replace (np - (np - t))%nat with t by lia.
    rewrite firstn_all2 by (rewrite skipn_length; fold np; lia).
    replace (t + j - t)%nat with j by lia.
    rewrite firstn_app. replace (j - length id)%nat with 0%nat by (unfold ni in Hj; lia). cbn [firstn]. rewrite app_nil_r.
    rewrite ident_run_word; [|apply forallb_forall; intros c Hc; rewrite forallb_forall in Hidc; apply Hidc;
                              rewrite <- (firstn_skipn j id); apply in_or_app; right; exact Hc|exact Hpost].
    rewrite <- !app_assoc. rewrite (firstn_skipn j id). exact Hcut.
  Qed.

  Lemma nthb_word j : (j < ni)%nat -> nthb bs (N.of_nat (np + j)) = nth j id 0.
  Proof.
    intros Hj. unfold nthb, bs. rewrite Nat2N.id. rewrite app_nth2 by (unfold np; lia).
    replace (np + j - length pre)%nat with j by (unfold np; lia). rewrite app_nth1 by (unfold ni in Hj; lia). reflexivity.
  Qed.

  Lemma nthb_word_idc j : (j < ni)%nat -> is_idc (nthb bs (N.of_nat (np + j))) = true.
  Proof.
    intros Hj. rewrite nthb_word by exact Hj. rewrite forallb_forall in Hidc. apply Hidc. apply nth_In. exact Hj.
  Qed.

  Hypothesis Hident : is_ident id = true.

  (* GetVarStruct at any offset from the first byte of the word to the position just after its last byte - also when
     that position is the very end of the text (post = []: GetVarStruct steps back from offset = len(contents)) *)
  Theorem cut_name_word k : (k <= ni)%nat -> cut_name bs (N.of_nat (np + k)) = CutName id.
  Proof.
    intros Hk.
    assert (Hni : (0 < ni)%nat).
    { unfold ni. destruct id; [discriminate|cbn; lia]. }
    assert (Hn : N.of_nat (length bs) = N.of_nat (np + ni + length post)).
    { unfold bs. rewrite !app_length. fold np ni. lia. }
    unfold cut_name. rewrite Hn.
    replace (N.of_nat (np + ni + length post) =? 0) with false by (symmetry; apply N.eqb_neq; lia).
    cbv zeta.
    assert (Hcase : exists j, (j < ni)%nat /\
              (let off1 := if N.of_nat (np + k) =? N.of_nat (np + ni + length post)
                           then N.of_nat (np + k) - 1 else N.of_nat (np + k) in
               if (0 <? off1) && negb (is_idc (nthb bs off1)) then off1 - 1 else off1) = N.of_nat (np + j)).
    { cbv zeta. destruct (N.of_nat (np + k) =? N.of_nat (np + ni + length post)) eqn:Eend.
      - (* the end of the text: k = ni, post = [] *)
        apply N.eqb_eq in Eend. assert (k = ni /\ length post = 0%nat) as [-> Hp0] by lia.
        exists (ni - 1)%nat. split; [lia|].
        replace (N.of_nat (np + ni) - 1) with (N.of_nat (np + (ni - 1))) by lia.
        rewrite nthb_word_idc by lia. cbn [negb]. rewrite andb_false_r. reflexivity.
      - apply N.eqb_neq in Eend. destruct (Nat.eq_dec k ni) as [->|Hne].
        + destruct post as [|pc pr] eqn:Epost; [cbn [length] in Eend; lia|].
          exists (ni - 1)%nat. split; [lia|].
          assert (E : is_idc (nthb bs (N.of_nat (np + ni))) = false).
          { unfold nthb, bs. rewrite Nat2N.id. rewrite app_nth2 by (unfold np; lia).
            replace (np + ni - length pre)%nat with ni by (unfold np; lia). rewrite app_nth2 by (unfold ni; lia).
            replace (ni - length id)%nat with 0%nat by (unfold ni; lia). cbn. exact Hpost. }
          rewrite E. replace (0 <? N.of_nat (np + ni)) with true by (symmetry; apply N.ltb_lt; lia). cbn [andb negb]. lia.
        + exists k. split; [lia|]. rewrite nthb_word_idc by lia. cbn [negb]. rewrite andb_false_r. reflexivity. }
    destruct Hcase as (j & Hj & Ej). cbv zeta in Ej. rewrite Ej.
    rewrite (nthb_word_idc j Hj). cbn [negb].
    rewrite (cut_inside j Hj). rewrite Hident. reflexivity.
  Qed.
End Word.

(* ------------------------------------------------------------------ OffsetForPosition *)
Lemma offset_of_ge bs : forall line col off s, offset_of bs line col off = Some s -> off <= s.
Proof.
  induction bs as [|c r IH]; intros line col off s H; cbn [offset_of] in H.
  - destruct ((line =? 0) && (col =? 0)); [injection H as <-; lia|discriminate].
  - destruct ((line =? 0) && (col =? 0)); [injection H as <-; lia|].
    destruct (line =? 0).
    + destruct (c =? 10); [discriminate|]. apply IH in H. lia.
    + destruct (c =? 10); apply IH in H; lia.
Qed.

Lemma offset_of_here bs off : offset_of bs 0 0 off = Some off.
Proof. destruct bs; reflexivity. Qed.

Lemma offset_step pre c post : (c =? 10) = false -> forall line col off,
  offset_of (pre ++ c :: post) line col off = Some (off + N.of_nat (length pre)) ->
  offset_of (pre ++ c :: post) line (col + 1) off = Some (off + N.of_nat (length pre) + 1).
Proof.
  intros Hc. induction pre as [|a pre' IH]; intros line col off H.
  - cbn [app length] in *. cbn [offset_of] in H.
    destruct ((line =? 0) && (col =? 0)) eqn:E.
    + apply andb_true_iff in E. destruct E as [E1 E2]. apply N.eqb_eq in E1, E2. subst line col.
      cbn [offset_of]. cbn [N.eqb andb]. replace (0 + 1 =? 0) with false by (symmetry; apply N.eqb_neq; lia).
      cbn [andb]. rewrite Hc. replace (0 + 1 - 1) with 0 by lia. rewrite offset_of_here. f_equal. lia.
    + exfalso. destruct (line =? 0).
      * rewrite Hc in H. apply offset_of_ge in H. lia.
      * rewrite Hc in H. apply offset_of_ge in H. lia.
  - cbn [app length] in *. cbn [offset_of] in H |- *.
    destruct ((line =? 0) && (col =? 0)) eqn:E; [injection H as H; lia|].
    replace ((line =? 0) && (col + 1 =? 0)) with false
      by (symmetry; apply andb_false_iff; right; apply N.eqb_neq; lia).
    destruct (line =? 0) eqn:El.
    + cbn [andb] in E. apply N.eqb_neq in E.
      destruct (a =? 10); [discriminate|].
      replace (col + 1 - 1) with (col - 1 + 1) by lia.
      replace (off + N.of_nat (S (length pre')) + 1) with (off + 1 + N.of_nat (length pre') + 1) by lia.
      apply IH. rewrite H. f_equal. lia.
    + destruct (a =? 10).
      * replace (off + N.of_nat (S (length pre')) + 1) with (off + 1 + N.of_nat (length pre') + 1) by lia.
        apply IH. rewrite H. f_equal. lia.
      * replace (off + N.of_nat (S (length pre')) + 1) with (off + 1 + N.of_nat (length pre') + 1) by lia.
        apply IH. rewrite H. f_equal. lia.
Qed.

Lemma offset_steps id : Forall (fun c => (c =? 10) = false) id -> forall pre post line col off,
  offset_of (pre ++ id ++ post) line col off = Some (off + N.of_nat (length pre)) ->
  forall k, (k <= length id)%nat ->
    offset_of (pre ++ id ++ post) line (col + N.of_nat k) off = Some (off + N.of_nat (length pre) + N.of_nat k).
Proof.
  intros Hid. induction Hid as [|c r Hc Hr IH]; intros pre post line col off H k Hk.
  - cbn in Hk. assert (k = 0%nat) by lia. subst k. rewrite !N.add_0_r. exact H.
  - destruct k as [|k']; [rewrite !N.add_0_r; exact H|].
    cbn [length] in Hk. cbn [app] in H |- *.
    pose proof (offset_step pre c (r ++ post) Hc line col off H) as H1.
    replace (pre ++ c :: r ++ post) with ((pre ++ [c]) ++ r ++ post) in * by (rewrite <- app_assoc; reflexivity).
    replace (off + N.of_nat (length pre) + 1) with (off + N.of_nat (length (pre ++ [c]))) in H1
      by (rewrite app_length; cbn; lia).
    pose proof (IH (pre ++ [c]) post line (col + 1) off H1 k' ltac:(lia)) as H2.
    replace (col + N.of_nat (S k')) with (col + 1 + N.of_nat k') by lia. rewrite H2. f_equal.
    rewrite app_length. cbn. lia.
Qed.

(* ------------------------------------------------------------------ the boolean text guard of one identifier *)
Definition ident_at (bs : list N) (l : loc) (name : list N) : bool :=
  (1 <=? sl l)%Z && (sl l =? el l)%Z && (0 <=? sc l)%Z && (ec l =? sc l + Z.of_nat (length name))%Z &&
  is_ident name &&
  match offset_of bs (line0_of l) (col_of l) 0 with
  | Some s =>
    beq_bytes (firstn (length name) (skipn (N.to_nat s) bs)) name &&
    match skipn (length name) (skipn (N.to_nat s) bs) with c :: _ => negb (is_idc c) | [] => true end &&
    left_ok (rev (firstn (N.to_nat s) bs))
  | None => false
  end.

Lemma is_ident_idc s : is_ident s = true -> forallb is_idc s = true.
Proof. unfold is_ident. destruct s; [discriminate|]. intros H. apply andb_true_iff in H. apply H. Qed.

Theorem request_name_at bs l name (col : N) :
  ident_at bs l name = true -> (sc l <= Z.of_N col <= ec l)%Z ->
  request_name bs (line0_of l) col false = Some (Some name).
Proof.
  unfold ident_at. intros H Hcol.
  apply andb_true_iff in H. destruct H as [H Hm]. apply andb_true_iff in H. destruct H as [H Hid].
  apply andb_true_iff in H. destruct H as [H Hec]. apply andb_true_iff in H. destruct H as [H Hsc].
  apply andb_true_iff in H. destruct H as [Hsl1 Hsl].
  destruct (offset_of bs (line0_of l) (col_of l) 0) as [s|] eqn:Eoff; [|discriminate].
  apply andb_true_iff in Hm. destruct Hm as [Hm Hleft]. apply andb_true_iff in Hm. destruct Hm as [Hname Hpost].
  apply beq_bytes_eq in Hname.
  set (pre := firstn (N.to_nat s) bs) in *.
  set (post := skipn (length name) (skipn (N.to_nat s) bs)) in *.
  assert (Hpost' : match post with c :: _ => is_idc c = false | [] => True end).
  { destruct post as [|pc pr]; [exact I|]. apply negb_true_iff in Hpost. exact Hpost. }
  assert (Hbs : bs = pre ++ name ++ post).
  { rewrite <- (firstn_skipn (N.to_nat s) bs) at 1. fold pre. f_equal.
    rewrite <- (firstn_skipn (length name) (skipn (N.to_nat s) bs)). rewrite Hname. reflexivity. }
  assert (Hlen : (length name <= length (skipn (N.to_nat s) bs))%nat).
  { rewrite <- Hname at 1. rewrite firstn_length. lia. }
  assert (Hnp : length pre = N.to_nat s).
  { unfold pre. rewrite firstn_length. rewrite skipn_length in Hlen. destruct name; [discriminate|]. cbn in Hlen. lia. }
  apply Z.leb_le in Hsc. apply Z.eqb_eq in Hec.
  set (k := Z.to_nat (Z.of_N col - sc l)).
  assert (Hk : (k <= length name)%nat) by (unfold k; lia).
  assert (Hcolk : col = col_of l + N.of_nat k) by (unfold k, col_of; lia).
  pose proof (is_ident_idc name Hid) as Hidc.
  assert (Hnl : Forall (fun c => (c =? 10) = false) name).
  { apply Forall_forall. intros c Hc. rewrite forallb_forall in Hidc. exact (proj1 (proj2 (idc_facts c (Hidc c Hc)))). }
  assert (Hoff : offset_of bs (line0_of l) col 0 = Some (N.of_nat (length pre + k))).
  { rewrite Hcolk, Hbs. rewrite (offset_steps name Hnl pre post (line0_of l) (col_of l) 0); [f_equal; lia| |exact Hk].
    rewrite <- Hbs, Eoff. f_equal. lia. }
  unfold request_name. rewrite Hoff. cbn [andb].
  rewrite Hbs. rewrite (cut_name_word pre name post Hidc Hleft Hpost' Hid); [reflexivity|exact Hk].
Qed.

(* the variant of the handlers before fixes/C05-doc-end.diff (docend_empty = true) needed a byte after the identifier *)
Definition ident_at_inner (bs : list N) (l : loc) (name : list N) : bool :=
  ident_at bs l name &&
  match offset_of bs (line0_of l) (col_of l) 0 with
  | Some s => negb (Nat.eqb (length (skipn (length name) (skipn (N.to_nat s) bs))) 0)
  | None => false
  end.
