(* C20 - the checks that rest on "the same expression" (14 19 20) and on key strings (5) against their patterns:
   for every variant of the model under the guards outside of which the code as found deviates (see the witnesses in
   Properties/C20.v), and without those guards for the repaired variants ([fx_parens], [fx_nil_loc], [fx_name14],
   [fx_str_key], [fx_int_key] = true). *)
From Coq Require Import List NArith ZArith Bool Arith Lia ZifyN ZifyNat ZifyBool.
From LH Require Import Base.Bytes Model.Lexer Model.Ast Model.Parser Spec.PatternSpec Model.Patterns
  Proofs.PatternsLocal Proofs.PatternsCompExp Proofs.PatternsClasses.
Import ListNotations.
Local Open Scope N_scope.

(* a repair that needs another one: 14 asks CompExp only once CompExp skips grouping parentheses
   (C20-t14-name-collision is applied on top of C20-parens; `(a) == a` stays reported) *)
Definition fixes_ok (fx : fixes) : Prop := fx_name14 fx = true -> fx_parens fx = true.

(* an expression of the source text: BadExpr stands for a syntax error; the Locs of source text start at line 1 *)
Definition real_loc (e : exp) : Prop := is_bad e = false /\ exp_loc e <> zero_loc.

(* ------------------------------------------------------------------ grouping parentheses *)
(* without grouping parentheses: strip e = e *)
Definition paren_free (e : exp) : Prop := has_parens e = false.

Definition has_parens_args : list exp -> bool :=
  fix go (l : list exp) : bool := match l with [] => false | x :: r => has_parens x || go r end.

Lemma strip_args_free args :
  Forall (fun x => paren_free x -> strip x = x) args -> has_parens_args args = false -> map strip args = args.
Proof.
  induction 1 as [|x r Hx HF IH]; intros Hp; [reflexivity|].
  cbn [has_parens_args] in Hp. apply orb_false_iff in Hp as [Hp1 Hp2].
  cbn [map]. rewrite (Hx Hp1), (IH Hp2). reflexivity.
Qed.

Lemma strip_paren_free e : paren_free e -> strip e = e.
Proof.
  unfold paren_free. induction e using exp_ind_e; intros Hp.
  - destruct e; cbn in H; try contradiction; reflexivity.
  - cbn in Hp |- *. rewrite IHe; auto.
  - cbn in Hp |- *. apply orb_false_iff in Hp as [H1 H2]. rewrite IHe1, IHe2; auto.
  - cbn in Hp. discriminate.
  - cbn in Hp |- *. apply orb_false_iff in Hp as [H1 H2]. rewrite IHe1, IHe2; auto.
  - change (has_parens (ECall e nm args l)) with (has_parens e || has_parens_args args) in Hp.
    apply orb_false_iff in Hp as [H1 H2].
    cbn [strip]. rewrite IHe; auto. rewrite strip_args_free; auto.
Qed.

(* skipParens of the model = the specification's removal of grouping parentheses *)
Lemma strip_p_strip e : strip_p e = strip e.
Proof. reflexivity. Qed.    (* the two are written down independently, and are the same function *)

Section Guarded.
  Variable fx : fixes.
  Variable fclose : list N -> list N -> bool.

  (* ---------------------------------------------------------------- "the same" is decided by same_b *)
  Lemma same_b_iff a b : same_b fclose a b = true <-> Same fclose a b.
  Proof. unfold same_b, Same. rewrite <- comp_exp_sim_b. apply comp_exp_characterisation. Qed.

  Lemma same_comp_paren_free a b :
    paren_free a -> paren_free b -> (Same fclose a b <-> comp_exp fclose a b = true).
  Proof.
    intros Ha Hb. rewrite <- same_b_iff. unfold same_b.
    rewrite (strip_paren_free _ Ha), (strip_paren_free _ Hb), <- comp_exp_sim_b. tauto.
  Qed.

  (* CompExp of the code as found *)
  Lemma cmp_before a b : fx_parens fx = false -> cmp fx fclose a b = comp_exp fclose a b.
  Proof. intros H. unfold cmp. rewrite H. reflexivity. Qed.

  (* CompExp after C20-parens = "the same" of the specification *)
  Lemma cmp_fixed a b : fx_parens fx = true -> (cmp fx fclose a b = true <-> Same fclose a b).
  Proof.
    intros H. unfold cmp. rewrite H. change (comp_exp fclose (strip a) (strip b) = true <-> Same fclose a b).
    rewrite <- same_b_iff. reflexivity.
  Qed.

  (* either way on expressions without grouping parentheses *)
  Lemma cmp_paren_free a b : paren_free a -> paren_free b -> (cmp fx fclose a b = true <-> Same fclose a b).
  Proof.
    intros Ha Hb. unfold cmp. destruct (fx_parens fx).
    - change (comp_exp fclose (strip a) (strip b) = true <-> Same fclose a b).
      rewrite (strip_paren_free _ Ha), (strip_paren_free _ Hb).
      symmetry. apply same_comp_paren_free; auto.
    - symmetry. apply same_comp_paren_free; auto.
  Qed.

  (* ---------------------------------------------------------------- 20 *)
  Lemma Forall2_impl_in {A B} (R S : A -> B -> Prop) l1 l2 :
    (forall x y, In x l1 -> In y l2 -> R x y -> S x y) -> Forall2 R l1 l2 -> Forall2 S l1 l2.
  Proof.
    intros H F. induction F as [|x y r s Hxy F IH]; constructor.
    - apply H; cbn; auto.
    - apply IH. intros; apply H; cbn; auto.
  Qed.

  Lemma t20_iff_guarded vars es l L :
    Forall paren_free vars -> Forall paren_free es ->
    (reported 20 L (assign_checks fx fclose vars es l) <-> Pattern20 fclose vars es /\ L = l).
  Proof.
    intros Gv Ge. rewrite t20_iff. unfold Pattern20. rewrite Forall_forall in Gv, Ge.
    split; intros [H HL]; split; auto; eapply Forall2_impl_in; try exact H; intros x y Hx Hy Hxy;
      apply (cmp_paren_free x y (Gv x Hx) (Ge y Hy)); auto.
  Qed.

  (* after C20-parens: no guard *)
  Lemma t20_iff_fixed vars es l L :
    fx_parens fx = true ->
    (reported 20 L (assign_checks fx fclose vars es l) <-> Pattern20 fclose vars es /\ L = l).
  Proof.
    intros Hp. rewrite t20_iff. unfold Pattern20.
    split; intros [H HL]; split; auto; eapply Forall2_impl_in; try exact H; intros x y Hx Hy Hxy;
      apply (cmp_fixed x y Hp); auto.
  Qed.

  (* ---------------------------------------------------------------- 19 *)
  (* the loop, for any list of conditions, in terms of "the same" *)
  Lemma t19_iff_same es L :
    (forall a b, In a es -> In b es -> (cmp fx fclose a b = true <-> Same fclose a b)) ->
    (reported 19 L (if_checks fx fclose es)
     <-> exists j c, Pattern19 fclose es j /\ nth_error es j = Some c /\ L = get_exp_loc fx c).
  Proof.
    intros Hc. rewrite t19_iff. unfold Pattern19. split.
    - intros [j [c [Hj [HL [i [c' [Hlt [Hi Hcc]]]]]]]].
      exists j, c. split; [|split; auto].
      exists c. split; auto. exists i, c'. split; [exact Hlt|]. split; [exact Hi|].
      apply Hc; [eapply nth_error_In; eauto|eapply nth_error_In; eauto|exact Hcc].
    - intros [j [c [[c0 [Hj0 [i [c' [Hlt [Hi Hs]]]]]] [Hj HL]]]].
      assert (c0 = c) by congruence. subst c0.
      exists j, c. repeat split; auto.
      exists i, c'. split; [exact Hlt|]. split; [exact Hi|].
      apply Hc; [eapply nth_error_In; eauto|eapply nth_error_In; eauto|exact Hs].
  Qed.

  Lemma t19_iff_guarded elses es L :
    real_conds elses es = es ->                      (* no else branch: no synthetic condition *)
    Forall paren_free es -> Forall (located fx) es ->
    (reported 19 L (if_checks fx fclose es)
     <-> exists j c, Pattern19 fclose es j /\ nth_error es j = Some c /\ L = exp_loc c).
  Proof.
    intros _ Gp Gl. rewrite t19_iff_same.
    - rewrite Forall_forall in Gl. split; intros [j [c [HP [Hj HL]]]]; exists j, c; repeat split; auto;
        destruct (Gl c (nth_error_In _ _ Hj)) as [G1 _]; congruence.
    - rewrite Forall_forall in Gp. intros a b Ha Hb. apply cmp_paren_free; auto.
  Qed.

  (* after C20-parens: any conditions *)
  Lemma t19_iff_fixed es L :
    fx_parens fx = true ->
    (reported 19 L (if_checks fx fclose es)
     <-> exists j c, Pattern19 fclose es j /\ nth_error es j = Some c /\ L = get_exp_loc fx c).
  Proof. intros Hp. apply t19_iff_same. intros a b _ _. apply cmp_fixed. exact Hp. Qed.

  (* the conditions the code compares after C20-t19-else = the conditions written in the source *)
  Lemma has_else_synthetic elses es : has_else elses es = synthetic_else elses (last es (ENil zero_loc)).
  Proof. reflexivity. Qed.
  Lemma conds_of_fixed elses es : fx_else fx = true -> conds_of fx elses es = real_conds elses es.
  Proof. intros H. unfold conds_of, real_conds. rewrite H, has_else_synthetic. reflexivity. Qed.
  Lemma conds_of_before elses es : fx_else fx = false -> conds_of fx elses es = es.
  Proof. intros H. unfold conds_of. rewrite H. reflexivity. Qed.

  (* GetExpLoc after C20-nil-loc: the node's own Loc, for every expression of the source *)
  Lemma get_exp_loc_fixed e : fx_nil_loc fx = true -> is_bad e = false -> get_exp_loc fx e = exp_loc e.
  Proof. intros H Hb. destruct e; cbn in Hb |- *; try reflexivity; try discriminate. rewrite H. reflexivity. Qed.
  Lemma located_fixed e : fx_nil_loc fx = true -> (located fx e <-> real_loc e).
  Proof.
    intros H. unfold located, real_loc. split.
    - intros [H1 H2]. split; auto. destruct e; auto. cbn in H1, H2. congruence.
    - intros [H1 H2]. split; auto. apply get_exp_loc_fixed; auto.
  Qed.

  (* the whole check of an if statement (local_pre) after the three repairs that touch it *)
  Lemma t19_node_fixed elses es bs l L :
    fx_else fx = true -> fx_parens fx = true -> fx_nil_loc fx = true ->
    Forall (fun c => is_bad c = false) es ->
    (reported 19 L (local_pre fx fclose elses (NS (SIf es bs l)))
     <-> exists j c, Pattern19 fclose (real_conds elses es) j /\ nth_error (real_conds elses es) j = Some c /\
                     L = exp_loc c).
  Proof.
    intros He Hp Hn Hb. cbn [local_pre]. rewrite (conds_of_fixed _ _ He), (t19_iff_fixed _ _ Hp).
    assert (Hsub : forall c, In c (real_conds elses es) -> In c es).
    { unfold real_conds. destruct (synthetic_else _ _); auto. intros c Hc.
      destruct es as [|x r]; [destruct Hc|].
      rewrite (app_removelast_last (ENil zero_loc) (l := x :: r)) by discriminate.
      apply in_or_app. left. exact Hc. }
    rewrite Forall_forall in Hb.
    split; intros [j [c [HP [Hj HL]]]]; exists j, c; repeat split; auto;
      rewrite (get_exp_loc_fixed c Hn (Hb c (Hsub c (nth_error_In _ _ Hj)))) in *; auto.
  Qed.

  (* ---------------------------------------------------------------- 14 *)
  (* the same expressions have the same internal name *)
  Lemma comp_exp_name a b : comp_exp fclose a b = true -> exp_name a = exp_name b.
  Proof.
    revert b. induction a using exp_ind_e; intros b0.
    - destruct a; cbn in H; try contradiction; clear H; destruct b0; cbn [comp_exp]; try discriminate;
        try reflexivity.
      + intros H. apply beq_bytes_eq in H. subst. reflexivity.
      + intros H. apply beq_bytes_eq in H. subst. reflexivity.
    - destruct b0; cbn [comp_exp]; try discriminate. reflexivity.
    - destruct b0; cbn [comp_exp]; try discriminate. reflexivity.
    - destruct b0; cbn [comp_exp]; try discriminate. cbn [exp_name]. auto.
    - destruct b0; cbn [comp_exp]; try discriminate. intros H. apply andb_true_iff in H as [H1 H2].
      cbn [exp_name]. rewrite (IHa1 _ H1), (IHa2 _ H2). reflexivity.
    - destruct b0; try (cbn [comp_exp]; discriminate). reflexivity.
  Qed.

  Lemma exp_name_strip a : exp_name (strip a) = exp_name a.
  Proof.
    induction a using exp_ind_e.
    - destruct a; cbn in H; try contradiction; reflexivity.
    - reflexivity.
    - reflexivity.
    - cbn [strip]. destruct (is_multi (strip a)); cbn [exp_name]; auto.
    - cbn [strip exp_name]. rewrite IHa1, IHa2. reflexivity.
    - reflexivity.
  Qed.

  Lemma same_name a b : Same fclose a b -> exp_name a = exp_name b.
  Proof.
    intros H. apply same_b_iff in H. unfold same_b in H. rewrite <- comp_exp_sim_b in H.
    apply comp_exp_name in H. rewrite !exp_name_strip in H. exact H.
  Qed.

  Lemma check14_iff op e1 e2 L :
    reported 14 L (check14 fx fclose op e1 e2)
    <-> CmpOp op /\ has_hash (exp_name e1) = false /\ has_hash (exp_name e2) = false /\
        exp_name e1 = exp_name e2 /\ (fx_name14 fx = true -> cmp fx fclose e1 e2 = true) /\
        has_place fx e1 /\ has_place fx e2 /\ L = operands_loc fx e1 e2.
  Proof.
    unfold check14. rewrite <- cmp_op_iff.
    destruct (cmp_op op); [|split; [intros H; exfalso; eapply reported_nil; eauto|intros [H _]; discriminate]].
    destruct (has_hash (exp_name e1)); [split; [intros H; exfalso; eapply reported_nil; eauto|intros [_ [H _]]; discriminate]|].
    destruct (has_hash (exp_name e2)); [split; [intros H; exfalso; eapply reported_nil; eauto|intros [_ [_ [H _]]]; discriminate]|].
    rewrite reported_if, reported_one, !andb_true_iff, beq_bytes_eq, both_placed_iff. cbn [r_ty r_loc t_sameexp].
    destruct (fx_name14 fx); intuition congruence.
  Qed.

  (* completeness: identical operands that HAVE an internal name are reported *)
  Lemma t14_complete op e1 e2 l :
    fixes_ok fx ->
    Pattern14 fclose op e1 e2 -> has_hash (exp_name e1) = false -> has_place fx e1 -> has_place fx e2 ->
    reported 14 (operands_loc fx e1 e2) (binop_checks fx fclose op e1 e2 l).
  Proof.
    intros Hok [Hop Hs] Hh H1 H2. apply binop_checks_14, check14_iff.
    pose proof (same_name _ _ Hs) as Hn. repeat split; auto.
    - rewrite <- Hn. exact Hh.
    - intros H14. apply cmp_fixed; auto.
  Qed.

  (* soundness before C20-t14-name-collision needs operands whose name determines them: access paths
     a, a.b, a["b"].c, ("s").x  built from names and identifier-like strings *)
  Definition ident (s : list N) : bool := forallb is_ident_char s.
  Fixpoint path (e : exp) : bool :=
    match e with
    | EName n _ => ident n
    | EStr s _ => ident s
    | EIndex p (EStr s _) _ => path p && ident s
    | EParens x _ => path x
    | _ => false
    end.

  Lemma ident_notin s c : ident s = true -> is_ident_char c = false -> ~ In c s.
  Proof.
    unfold ident. rewrite forallb_forall. intros H Hc Hin. specialize (H _ Hin). congruence.
  Qed.

  Lemma app_sep_split (c : N) l1 l2 s t :
    ~ In c s -> ~ In c t -> l1 ++ c :: s = l2 ++ c :: t -> l1 = l2 /\ s = t.
  Proof.
    intros Hs Ht. revert l2. induction l1 as [|x r IH]; intros [|y r2] H; cbn in H.
    - inversion H; auto.
    - inversion H; subst. exfalso. apply Hs. apply in_or_app. right. left. reflexivity.
    - inversion H; subst. exfalso. apply Ht. apply in_or_app. right. left. reflexivity.
    - inversion H; subst. destruct (IH _ H2) as [-> ->]. auto.
  Qed.

  Lemma path_name_chars e : path e = true -> ~ In 35 (exp_name e).
  Proof.
    induction e using exp_ind_e; try (cbn; discriminate).
    - destruct e; cbn in H; try contradiction; cbn [path exp_name]; try discriminate.
      + intros Hi. apply ident_notin; auto.
      + intros Hi [Hc|Hc]; [discriminate|]. revert Hc. apply ident_notin; auto.
    - cbn [path exp_name]. auto.
    - cbn [path exp_name]. destruct e2; try discriminate. intros Hp. apply andb_true_iff in Hp as [Hp1 Hp2].
      intros Hin. apply in_app_or in Hin as [Hin|[Hin|Hin]].
      + apply IHe1 in Hin; auto.
      + discriminate.
      + cbn [exp_name] in Hin. revert Hin. apply ident_notin; auto.
  Qed.

  Lemma has_hash_false_iff s : has_hash s = false <-> ~ In 35 s.
  Proof.
    unfold has_hash. split.
    - intros H Hin. assert (existsb (fun c => c =? 35) s = true); [|congruence].
      apply existsb_exists. exists 35. split; auto.
    - intros H. destruct (existsb _ s) eqn:E; auto. apply existsb_exists in E as [c [Hc Hq]].
      apply N.eqb_eq in Hq. subst. contradiction.
  Qed.

  (* a path is no call / `...`: all its parentheses are grouping parentheses *)
  Lemma path_strip_not_multi e : path e = true -> is_multi (strip e) = false.
  Proof.
    induction e using exp_ind_e; try (cbn; discriminate).
    - destruct e; cbn in H; try contradiction; cbn; auto; discriminate.
    - cbn [path strip]. intros Hp. rewrite (IHe Hp). apply IHe; auto.
    - intros _. reflexivity.
  Qed.
  Lemma path_strip_parens x l : path x = true -> strip (EParens x l) = strip x.
  Proof. intros Hp. cbn [strip]. rewrite (path_strip_not_multi _ Hp). reflexivity. Qed.

  (* the name of a path: an atom, then ".field" for every access *)
  Lemma path_name_same a b :
    path a = true -> path b = true -> exp_name a = exp_name b -> same_b fclose a b = true.
  Proof.
    unfold same_b. rewrite <- comp_exp_sim_b. revert b.
    induction a using exp_ind_e; intros b0 Ha; try (cbn in Ha; discriminate).
    - (* atoms *)
      destruct a; cbn in H; try contradiction; clear H; cbn [path] in Ha; try discriminate.
      + (* string atom *)
        induction b0 using exp_ind_e; intros Hb Hn; try (cbn in Hb; discriminate).
        * destruct b0; cbn in H; try contradiction; clear H; cbn [path] in Hb; try discriminate; cbn [exp_name] in Hn.
          -- subst. cbn. apply beq_bytes_eq. reflexivity.
          -- exfalso. subst s. revert Ha. unfold ident. cbn [forallb]. rewrite andb_true_iff. intros [Hc _].
             cbn in Hc. discriminate.
        * cbn [path] in Hb. rewrite (path_strip_parens _ _ Hb). apply IHb0; auto.
        * exfalso. cbn [path] in Hb. destruct b0_2; try discriminate. cbn [exp_name] in Hn.
          eapply (ident_notin s 46); [exact Ha|reflexivity|]. rewrite Hn. apply in_or_app. right. left. reflexivity.
      + (* name atom *)
        induction b0 using exp_ind_e; intros Hb Hn; try (cbn in Hb; discriminate).
        * destruct b0; cbn in H; try contradiction; clear H; cbn [path] in Hb; try discriminate; cbn [exp_name] in Hn.
          -- exfalso. subst s. revert Hb. unfold ident. cbn [forallb]. rewrite andb_true_iff. intros [Hc _].
             cbn in Hc. discriminate.
          -- inversion Hn; subst. cbn. apply beq_bytes_eq. reflexivity.
        * cbn [path] in Hb. rewrite (path_strip_parens _ _ Hb). apply IHb0; auto.
        * exfalso. cbn [path] in Hb. destruct b0_2; try discriminate. cbn [exp_name] in Hn.
          apply andb_true_iff in Hb as [Hb1 Hb2].
          assert (Hin : In 46 (33 :: n)) by (rewrite Hn; apply in_or_app; right; left; reflexivity).
          destruct Hin as [Hin|Hin]; [discriminate|]. revert Hin. apply ident_notin; auto.
    - (* parentheses on the left *)
      cbn [path] in Ha. intros Hb Hn. rewrite (path_strip_parens _ _ Ha). apply IHa; auto.
    - (* a.field *)
      cbn [path] in Ha. destruct a2; try discriminate. apply andb_true_iff in Ha as [Ha1 Ha2].
      clear IHa2. intros Hb Hn. cbn [exp_name] in Hn.
      induction b0 using exp_ind_e; try (cbn in Hb; discriminate).
      * destruct b0; cbn in H; try contradiction; clear H; cbn [path] in Hb; try discriminate; cbn [exp_name] in Hn; exfalso.
        -- eapply (ident_notin s0 46); [exact Hb|reflexivity|]. rewrite <- Hn. apply in_or_app. right. left. reflexivity.
        -- assert (Hin : In 46 (33 :: n)) by (rewrite <- Hn; apply in_or_app; right; left; reflexivity).
           destruct Hin as [Hin|Hin]; [discriminate|]. revert Hin. apply ident_notin; auto.
      * cbn [path] in Hb. rewrite (path_strip_parens _ _ Hb). cbn [exp_name] in Hn. apply IHb0; auto.
      * cbn [path] in Hb. destruct b0_2; try discriminate. apply andb_true_iff in Hb as [Hb1 Hb2].
        cbn [exp_name] in Hn. apply app_sep_split in Hn as [Hn1 Hn2];
          [|apply ident_notin; auto|apply ident_notin; auto].
        subst s0. cbn [strip comp_exp]. apply andb_true_iff. split.
        -- apply IHa1; auto.
        -- apply beq_bytes_eq. reflexivity.
  Qed.

  Lemma t14_iff_guarded op e1 e2 l L :
    fixes_ok fx ->
    path e1 = true -> path e2 = true -> located fx e1 -> located fx e2 ->
    (reported 14 L (binop_checks fx fclose op e1 e2 l)
     <-> Pattern14 fclose op e1 e2 /\ L = span (exp_loc e1) (exp_loc e2)).
  Proof.
    intros Hok P1 P2 G1 G2. rewrite binop_checks_14, check14_iff, (located_operands _ _ _ G1 G2).
    pose proof (located_has_place _ _ G1) as Hp1. pose proof (located_has_place _ _ G2) as Hp2.
    pose proof (proj2 (has_hash_false_iff _) (path_name_chars _ P1)) as Hh1.
    pose proof (proj2 (has_hash_false_iff _) (path_name_chars _ P2)) as Hh2.
    unfold Pattern14. split.
    - intros [Hop [_ [_ [Hn [_ [_ [_ HL]]]]]]]. split; [split; [exact Hop|]|exact HL].
      apply same_b_iff. apply path_name_same; auto.
    - intros [[Hop Hs] HL]. split; [exact Hop|]. split; [exact Hh1|]. split; [exact Hh2|].
      split; [apply same_name; exact Hs|]. split; [intros H14; apply cmp_fixed; auto|]. auto.
  Qed.

  (* after C20-parens + C20-t14-name-collision: for all operands, exact up to the operands without internal name *)
  Lemma t14_iff_fixed op e1 e2 l L :
    fx_parens fx = true -> fx_name14 fx = true -> located fx e1 -> located fx e2 ->
    (reported 14 L (binop_checks fx fclose op e1 e2 l)
     <-> Pattern14 fclose op e1 e2 /\ has_hash (exp_name e1) = false /\ L = span (exp_loc e1) (exp_loc e2)).
  Proof.
    intros Hp H14 G1 G2. rewrite binop_checks_14, check14_iff, (located_operands _ _ _ G1 G2).
    pose proof (located_has_place _ _ G1) as Hp1. pose proof (located_has_place _ _ G2) as Hp2.
    unfold Pattern14. split.
    - intros [Hop [Hh1 [_ [_ [Hc [_ [_ HL]]]]]]]. split; [split; [exact Hop|]|split; [exact Hh1|exact HL]].
      apply (cmp_fixed _ _ Hp). auto.
    - intros [[Hop Hs] [Hh1 HL]]. pose proof (same_name _ _ Hs) as Hn.
      split; [exact Hop|]. split; [exact Hh1|]. split; [rewrite <- Hn; exact Hh1|].
      split; [exact Hn|]. split; [intros _; apply cmp_fixed; auto|]. auto.
  Qed.

  (* ---------------------------------------------------------------- 15 16 after C20-nil-loc *)
  Lemma t15_iff_fixed op e1 e2 l L :
    fx_nil_loc fx = true -> real_loc e1 -> real_loc e2 ->
    (reported 15 L (binop_checks fx fclose op e1 e2 l) <-> Pattern15 op e1 e2 /\ L = span (exp_loc e1) (exp_loc e2)).
  Proof. intros H G1 G2. apply t15_iff_guarded; apply located_fixed; auto. Qed.
  Lemma t16_iff_fixed op e1 e2 l L :
    fx_nil_loc fx = true -> real_loc e1 -> real_loc e2 ->
    (reported 16 L (binop_checks fx fclose op e1 e2 l) <-> Pattern16 op e1 e2 /\ L = span (exp_loc e1) (exp_loc e2)).
  Proof. intros H G1 G2. apply t16_iff_guarded; apply located_fixed; auto. Qed.
End Guarded.
