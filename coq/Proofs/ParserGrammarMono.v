(* C03, token level: unfolding equations of the parser functions and the family
   "every parser function only adds errors and conserves the lexical errors" (le_st). *)
From Coq Require Import List NArith ZArith Bool Lia.
From LH Require Import Base.Bytes Base.Res Model.Lexer Model.Ast Model.Parser Spec.LuaGrammar.
From LH Require Import Proofs.ParserGrammarBase.
Import ListNotations.

#[local] Opaque expect next err la.

(* ------------------------------------------------------------------ helpers outside the mutual block *)
Lemma namelist_tail_eq n st names locs :
  p_namelist_tail (S n) st names locs =
  ltac:(let t := eval simpl in (p_namelist_tail (S n) st names locs) in exact t).
Proof. reflexivity. Qed.
Lemma local_namelist_tail_eq n st sc names locs attrs :
  p_local_namelist_tail (S n) st sc names locs attrs =
  ltac:(let t := eval simpl in (p_local_namelist_tail (S n) st sc names locs attrs) in exact t).
Proof. reflexivity. Qed.
Lemma parlist_tail_eq n st names locs :
  p_parlist_tail (S n) st names locs =
  ltac:(let t := eval simpl in (p_parlist_tail (S n) st names locs) in exact t).
Proof. reflexivity. Qed.
Lemma funcname_dots_eq n st b f e c fn :
  p_funcname_dots (S n) st b f e c fn =
  ltac:(let t := eval simpl in (p_funcname_dots (S n) st b f e c fn) in exact t).
Proof. reflexivity. Qed.

Lemma le_namelist_tail n : forall st names locs v st',
  p_namelist_tail n st names locs = Ok (v, st') -> le_st st st'.
Proof.
  induction n; intros st names locs v st' H; [discriminate|].
  rewrite namelist_tail_eq in H. dhv H.
  - apply IHn in H. solve_le.
  - inv_ok H. solve_le.
Qed.

Lemma le_local_attr st a st' : p_local_attr st = (a, st') -> le_st st st'.
Proof. unfold p_local_attr. intros H. dhv H; inv_ok H; solve_le. Qed.

Lemma le_local_namelist_tail n : forall st sc names locs attrs v st',
  p_local_namelist_tail n st sc names locs attrs = Ok (v, st') -> le_st st st'.
Proof.
  induction n; intros st sc names locs attrs v st' H; [discriminate|].
  rewrite local_namelist_tail_eq in H. dhv H.
  - apply IHn in H. apply le_local_attr in Heqp. solve_le.
  - inv_ok H. solve_le.
Qed.

Lemma le_parlist_tail n : forall st names locs v st',
  p_parlist_tail n st names locs = Ok (v, st') -> le_st st st'.
Proof.
  induction n; intros st names locs v st' H; [discriminate|].
  rewrite parlist_tail_eq in H. dhv H.
  - apply IHn in H. solve_le.
  - inv_ok H. solve_le.
  - inv_ok H. solve_le.
Qed.
Lemma le_parlist n st v st' : p_parlist n st = Ok (v, st') -> le_st st st'.
Proof.
  unfold p_parlist. intros H.
  destruct (la st); try (apply le_parlist_tail in H; solve_le); inv_ok H; solve_le.
Qed.

Lemma le_funcname_dots n : forall st b f e c fn v st',
  p_funcname_dots n st b f e c fn = Ok (v, st') -> le_st st st'.
Proof.
  induction n; intros st b f e c fn v st' H; [discriminate|].
  rewrite funcname_dots_eq in H. dhv H.
  - apply IHn in H. solve_le.
  - inv_ok H. solve_le.
Qed.
Lemma le_funcname n st v st' : p_funcname n st = Ok (v, st') -> le_st st st'.
Proof.
  unfold p_funcname. intros H. dhv H; inv_ok H; apply le_funcname_dots in Heqr; solve_le.
Qed.

(* ------------------------------------------------------------------ unfolding equations of the mutual block *)
Section WithClassify.
  Variable classify : list N -> numcls.
  Notation p_block := (p_block classify).
  Notation p_block_loc := (p_block_loc classify).
  Notation p_block_loc_excl := (p_block_loc_excl classify).
  Notation p_stats := (p_stats classify).
  Notation p_stat := (p_stat classify).
  Notation p_assign_or_call := (p_assign_or_call classify).
  Notation p_if_tail := (p_if_tail classify).
  Notation p_varlist_tail := (p_varlist_tail classify).
  Notation p_explist := (p_explist classify).
  Notation p_explist_tail := (p_explist_tail classify).
  Notation p_subexp := (p_subexp classify).
  Notation p_binop_loop := (p_binop_loop classify).
  Notation p_exp0 := (p_exp0 classify).
  Notation p_prefixexp := (p_prefixexp classify).
  Notation p_finish_prefix := (p_finish_prefix classify).
  Notation p_args := (p_args classify).
  Notation p_table := (p_table classify).
  Notation p_fieldlist_tail := (p_fieldlist_tail classify).
  Notation p_field := (p_field classify).
  Notation p_funcdef := (p_funcdef classify).

  Lemma block_eq n st : p_block (S n) st = ltac:(let t := eval simpl in (p_block (S n) st) in exact t).
  Proof. reflexivity. Qed.
  Lemma block_loc_eq n st : p_block_loc (S n) st = ltac:(let t := eval simpl in (p_block_loc (S n) st) in exact t).
  Proof. reflexivity. Qed.
  Lemma block_loc_excl_eq n st :
    p_block_loc_excl (S n) st = ltac:(let t := eval simpl in (p_block_loc_excl (S n) st) in exact t).
  Proof. reflexivity. Qed.
  Lemma stats_eq n st acc : p_stats (S n) st acc = ltac:(let t := eval simpl in (p_stats (S n) st acc) in exact t).
  Proof. reflexivity. Qed.
  Lemma stat_eq n st : p_stat (S n) st = ltac:(let t := eval simpl in (p_stat (S n) st) in exact t).
  Proof. reflexivity. Qed.
  Lemma assign_or_call_eq n st :
    p_assign_or_call (S n) st = ltac:(let t := eval simpl in (p_assign_or_call (S n) st) in exact t).
  Proof. reflexivity. Qed.
  Lemma if_tail_eq n st es bs :
    p_if_tail (S n) st es bs = ltac:(let t := eval simpl in (p_if_tail (S n) st es bs) in exact t).
  Proof. reflexivity. Qed.
  Lemma varlist_tail_eq n st vars nv :
    p_varlist_tail (S n) st vars nv = ltac:(let t := eval simpl in (p_varlist_tail (S n) st vars nv) in exact t).
  Proof. reflexivity. Qed.
  Lemma explist_eq n st : p_explist (S n) st = ltac:(let t := eval simpl in (p_explist (S n) st) in exact t).
  Proof. reflexivity. Qed.
  Lemma explist_tail_eq n st acc :
    p_explist_tail (S n) st acc = ltac:(let t := eval simpl in (p_explist_tail (S n) st acc) in exact t).
  Proof. reflexivity. Qed.
  Lemma subexp_eq n lim st :
    p_subexp (S n) lim st = ltac:(let t := eval simpl in (p_subexp (S n) lim st) in exact t).
  Proof. reflexivity. Qed.
  Lemma binop_loop_eq n lim bbl e st :
    p_binop_loop (S n) lim bbl e st = ltac:(let t := eval simpl in (p_binop_loop (S n) lim bbl e st) in exact t).
  Proof. reflexivity. Qed.
  Lemma exp0_eq n st : p_exp0 (S n) st = ltac:(let t := eval simpl in (p_exp0 (S n) st) in exact t).
  Proof. reflexivity. Qed.
  Lemma prefixexp_eq n st : p_prefixexp (S n) st = ltac:(let t := eval simpl in (p_prefixexp (S n) st) in exact t).
  Proof. reflexivity. Qed.
  Lemma finish_prefix_eq n e bl st :
    p_finish_prefix (S n) e bl st = ltac:(let t := eval simpl in (p_finish_prefix (S n) e bl st) in exact t).
  Proof. reflexivity. Qed.
  Lemma args_eq n st : p_args (S n) st = ltac:(let t := eval simpl in (p_args (S n) st) in exact t).
  Proof. reflexivity. Qed.
  Lemma table_eq n st : p_table (S n) st = ltac:(let t := eval simpl in (p_table (S n) st) in exact t).
  Proof. reflexivity. Qed.
  Lemma fieldlist_tail_eq n st ks vs :
    p_fieldlist_tail (S n) st ks vs = ltac:(let t := eval simpl in (p_fieldlist_tail (S n) st ks vs) in exact t).
  Proof. reflexivity. Qed.
  Lemma field_eq n st : p_field (S n) st = ltac:(let t := eval simpl in (p_field (S n) st) in exact t).
  Proof. reflexivity. Qed.
  Lemma funcdef_eq n bl st : p_funcdef (S n) bl st = ltac:(let t := eval simpl in (p_funcdef (S n) bl st) in exact t).
  Proof. reflexivity. Qed.


  Definition mono_at (n : nat) : Prop :=
    (forall st v st', p_block n st = Ok (v, st') -> le_st st st') /\
    (forall st v st', p_block_loc n st = Ok (v, st') -> le_st st st') /\
    (forall st v st', p_block_loc_excl n st = Ok (v, st') -> le_st st st') /\
    (forall st acc v st', p_stats n st acc = Ok (v, st') -> le_st st st') /\
    (forall st v st', p_stat n st = Ok (v, st') -> le_st st st') /\
    (forall st v st', p_assign_or_call n st = Ok (v, st') -> le_st st st') /\
    (forall st es bs v st', p_if_tail n st es bs = Ok (v, st') -> le_st st st') /\
    (forall st vars nv v st', p_varlist_tail n st vars nv = Ok (v, st') -> le_st st st') /\
    (forall st v st', p_explist n st = Ok (v, st') -> le_st st st') /\
    (forall st acc v st', p_explist_tail n st acc = Ok (v, st') -> le_st st st') /\
    (forall lim st v st', p_subexp n lim st = Ok (v, st') -> le_st st st') /\
    (forall lim bbl e st v st', p_binop_loop n lim bbl e st = Ok (v, st') -> le_st st st') /\
    (forall st v st', p_exp0 n st = Ok (v, st') -> le_st st st') /\
    (forall st v st', p_prefixexp n st = Ok (v, st') -> le_st st st') /\
    (forall e bl st v st', p_finish_prefix n e bl st = Ok (v, st') -> le_st st st') /\
    (forall st v st', p_args n st = Ok (v, st') -> le_st st st') /\
    (forall st v st', p_table n st = Ok (v, st') -> le_st st st') /\
    (forall st ks vs v st', p_fieldlist_tail n st ks vs = Ok (v, st') -> le_st st st') /\
    (forall st v st', p_field n st = Ok (v, st') -> le_st st st') /\
    (forall bl st v st', p_funcdef n bl st = Ok (v, st') -> le_st st st').

  Ltac use_le_ext :=
    repeat match goal with
           | H : p_namelist_tail _ _ _ _ = Ok _ |- _ => apply le_namelist_tail in H
           | H : p_local_namelist_tail _ _ _ _ _ _ = Ok _ |- _ => apply le_local_namelist_tail in H
           | H : p_local_attr _ = _ |- _ => apply le_local_attr in H
           | H : p_parlist _ _ = Ok _ |- _ => apply le_parlist in H
           | H : p_funcname _ _ = Ok _ |- _ => apply le_funcname in H
           end.
  Ltac use_IH :=
    repeat match goal with
           | I : forall st v st', p_block _ st = Ok (v, st') -> _, H : p_block _ _ = Ok (_, _) |- _ => apply I in H
           | I : forall st v st', p_block_loc _ st = Ok (v, st') -> _, H : p_block_loc _ _ = Ok (_, _) |- _ => apply I in H
           | I : forall st v st', p_block_loc_excl _ st = Ok (v, st') -> _, H : p_block_loc_excl _ _ = Ok (_, _) |- _ => apply I in H
           | I : forall st acc v st', p_stats _ st acc = Ok (v, st') -> _, H : p_stats _ _ _ = Ok (_, _) |- _ => apply I in H
           | I : forall st v st', p_stat _ st = Ok (v, st') -> _, H : p_stat _ _ = Ok (_, _) |- _ => apply I in H
           | I : forall st v st', p_assign_or_call _ st = Ok (v, st') -> _, H : p_assign_or_call _ _ = Ok (_, _) |- _ => apply I in H
           | I : forall st es bs v st', p_if_tail _ st es bs = Ok (v, st') -> _, H : p_if_tail _ _ _ _ = Ok (_, _) |- _ => apply I in H
           | I : forall st vars nv v st', p_varlist_tail _ st vars nv = Ok (v, st') -> _, H : p_varlist_tail _ _ _ _ = Ok (_, _) |- _ => apply I in H
           | I : forall st v st', p_explist _ st = Ok (v, st') -> _, H : p_explist _ _ = Ok (_, _) |- _ => apply I in H
           | I : forall st acc v st', p_explist_tail _ st acc = Ok (v, st') -> _, H : p_explist_tail _ _ _ = Ok (_, _) |- _ => apply I in H
           | I : forall lim st v st', p_subexp _ lim st = Ok (v, st') -> _, H : p_subexp _ _ _ = Ok (_, _) |- _ => apply I in H
           | I : forall lim bbl e st v st', p_binop_loop _ lim bbl e st = Ok (v, st') -> _, H : p_binop_loop _ _ _ _ _ = Ok (_, _) |- _ => apply I in H
           | I : forall st v st', p_exp0 _ st = Ok (v, st') -> _, H : p_exp0 _ _ = Ok (_, _) |- _ => apply I in H
           | I : forall st v st', p_prefixexp _ st = Ok (v, st') -> _, H : p_prefixexp _ _ = Ok (_, _) |- _ => apply I in H
           | I : forall e bl st v st', p_finish_prefix _ e bl st = Ok (v, st') -> _, H : p_finish_prefix _ _ _ _ = Ok (_, _) |- _ => apply I in H
           | I : forall st v st', p_args _ st = Ok (v, st') -> _, H : p_args _ _ = Ok (_, _) |- _ => apply I in H
           | I : forall st v st', p_table _ st = Ok (v, st') -> _, H : p_table _ _ = Ok (_, _) |- _ => apply I in H
           | I : forall st ks vs v st', p_fieldlist_tail _ st ks vs = Ok (v, st') -> _, H : p_fieldlist_tail _ _ _ _ = Ok (_, _) |- _ => apply I in H
           | I : forall st v st', p_field _ st = Ok (v, st') -> _, H : p_field _ _ = Ok (_, _) |- _ => apply I in H
           | I : forall bl st v st', p_funcdef _ bl st = Ok (v, st') -> _, H : p_funcdef _ _ _ = Ok (_, _) |- _ => apply I in H
           end.

  Lemma mono_all : forall n, mono_at n.
  Proof.
    induction n as [|n IH].
    - unfold mono_at. repeat split; intros; discriminate.
    - destruct IH as (I1 & I2 & I3 & I4 & I5 & I6 & I7 & I8 & I9 & I10 & I11 & I12 & I13 & I14 & I15 & I16 & I17
                      & I18 & I19 & I20).
      unfold mono_at. repeat apply conj.
      + intros st v st' H. rewrite block_eq in H. dhv H; try inv_ok H; use_le_ext; use_IH; solve_le.
      + intros st v st' H. rewrite block_loc_eq in H. dhv H; try inv_ok H; use_le_ext; use_IH; solve_le.
      + intros st v st' H. rewrite block_loc_excl_eq in H. dhv H; try inv_ok H; use_le_ext; use_IH; solve_le.
      + intros st acc v st' H. rewrite stats_eq in H. dhv H; try inv_ok H; use_le_ext; use_IH; solve_le.
      + intros st v st' H. rewrite stat_eq in H. dhv H; try inv_ok H; use_le_ext; use_IH; solve_le.
      + intros st v st' H. rewrite assign_or_call_eq in H. dhv H; try inv_ok H; use_le_ext; use_IH; solve_le.
      + intros st es bs v st' H. rewrite if_tail_eq in H. dhv H; try inv_ok H; use_le_ext; use_IH; solve_le.
      + intros st vars nv v st' H. rewrite varlist_tail_eq in H. dhv H; try inv_ok H; use_le_ext; use_IH; solve_le.
      + intros st v st' H. rewrite explist_eq in H. dhv H; try inv_ok H; use_le_ext; use_IH; solve_le.
      + intros st acc v st' H. rewrite explist_tail_eq in H. dhv H; try inv_ok H; use_le_ext; use_IH; solve_le.
      + intros lim st v st' H. rewrite subexp_eq in H. dhv H; try inv_ok H; use_le_ext; use_IH; solve_le.
      + intros lim bbl e st v st' H. rewrite binop_loop_eq in H. dhv H; try inv_ok H; use_le_ext; use_IH; solve_le.
      + intros st v st' H. rewrite exp0_eq in H. dhv H; try inv_ok H; use_le_ext; use_IH; solve_le.
      + intros st v st' H. rewrite prefixexp_eq in H. dhv H; try inv_ok H; use_le_ext; use_IH; solve_le.
      + intros e bl st v st' H. rewrite finish_prefix_eq in H. dhv H; try inv_ok H; use_le_ext; use_IH; solve_le.
      + intros st v st' H. rewrite args_eq in H. dhv H; try inv_ok H; use_le_ext; use_IH; solve_le.
      + intros st v st' H. rewrite table_eq in H. dhv H; try inv_ok H; use_le_ext; use_IH; solve_le.
      + intros st ks vs v st' H. rewrite fieldlist_tail_eq in H. dhv H; try inv_ok H; use_le_ext; use_IH; solve_le.
      + intros st v st' H. rewrite field_eq in H. dhv H; try inv_ok H; use_le_ext; use_IH; solve_le.
      + intros bl st v st' H. rewrite funcdef_eq in H. dhv H; try inv_ok H; use_le_ext; use_IH; solve_le.
  Qed.
End WithClassify.
