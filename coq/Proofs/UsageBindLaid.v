(* C07, layout: on every chunk of the fragment of Model/Usage.v whose Locs are laid out like token spans
   (laid_b W b, Spec/LuaScope.v) every look-up of the first pass is position-clean:  pos_clean b = true.
   (In this model the assignment target is resolved BEFORE the re-pointing, so class B4 does not disturb it.)
   Same invariant as Proofs/TraverseBindLaidBase.v, transported to the variables of Model/Usage.v. *)
From Coq Require Import List NArith ZArith Bool Lia.
From LH Require Import Base.Bytes Model.Lexer Model.Ast Spec.LuaUsage Model.Usage Proofs.UsageBindRun
  Proofs.UsageBindSim Proofs.UsageBind Proofs.TraverseBindLaidBase.
From LH Require Model.Scope Spec.LuaScope Proofs.TraverseBindDefs Proofs.TraverseBindLaidLoops Proofs.TraverseBindLaidMain.
Import ListNotations.
Local Open Scope Z_scope.

Module S := LH.Model.Scope.
Module LS := LH.Spec.LuaScope.
Module LL := LH.Proofs.TraverseBindLaidLoops.
Notation lo := LS.lo.
Notation hi := LS.hi.

Definition to_v (v : var) : S.ventry :=
  S.mkV5 (v_name v) (v_loc v) (match v_refer v with Some e => S.ref_of_exp e | None => S.RNone end) (v_empty v)
         (v_init v) (v_tab v).
Definition tvs (st : stack) : list (list S.ventry) := map (map to_v) st.

Lemma lc_eq a b : loc_contains a b = S.loc_contains a b.
Proof. unfold loc_contains, S.loc_contains. zb. Qed.

Lemma cp_eq v l : correct_position v l = S.is_correct_position (to_v v) l.
Proof.
  unfold correct_position, S.is_correct_position, S.init_hides, to_v. cbn [S.v_loc S.v_ref S.v_init S.v_tab].
  change (loc_before (v_loc v) l) with (S.loc_before (v_loc v) l).
  destruct (S.loc_before (v_loc v) l); [|reflexivity]. cbn [negb].
  replace (match v_init v with
           | Some il => loc_contains il l && negb (match v_tab v with Some tl => loc_contains tl l | None => false end)
           | None => false
           end)
    with (match v_init v with
          | Some il => S.loc_contains il l && negb (match v_tab v with Some tl => S.loc_contains tl l | None => false end)
          | None => false
          end)
    by (destruct (v_init v); [|reflexivity]; destruct (v_tab v); rewrite ?lc_eq; reflexivity).
  match goal with |- (if ?c then _ else _) = _ => destruct c end; [reflexivity|].
  destruct (v_refer v) as [e|]; [|reflexivity]. destruct e; cbn [S.ref_of_exp]; rewrite ?lc_eq; reflexivity.
Qed.

Section ULaid.
  Variable W : Z.
  Hypothesis HW : 0 < W.

  Definition GU (st : stack) (a b : Z) : Prop := G W (tvs st) a b.

  Lemma look_ok n l st a b :
    GU st a b -> idok W l -> a <= lo W l -> hi W l <= b -> clean_lookup n l st = true.
  Proof.
    intros Hg Hid Ha Hb. unfold clean_lookup. apply forallb_forall. intros sc Hsc. apply forallb_forall. intros v Hv.
    destruct (name_eqb (v_name v) n); [|reflexivity]. cbn [negb orb]. rewrite cp_eq.
    unfold GU, G, tvs in Hg. rewrite Forall_forall in Hg.
    assert (Hin : In (map to_v sc) (map (map to_v) st)) by (apply in_map; exact Hsc).
    specialize (Hg _ Hin). rewrite Forall_forall in Hg.
    apply (icp_clean W HW (to_v v) l a b); auto. apply Hg. apply in_map. exact Hv.
  Qed.

  (* ---- the steps on the transported stack *)
  Lemma tvs_upd_same p f st : (forall v, to_v (f v) = to_v v) -> tvs (upd_st p f st) = tvs st.
  Proof.
    intros Hf. unfold tvs. induction st as [|sc r IH]; [reflexivity|]. cbn [upd_st]. destruct (existsb p sc).
    - cbn [map]. f_equal. induction sc as [|v sc' IHs]; [reflexivity|]. cbn. destruct (p v); cbn; [rewrite Hf; reflexivity|].
      rewrite IHs. reflexivity.
    - cbn [map]. rewrite IH. reflexivity.
  Qed.

  Lemma tvs_upd_evo p f st a b :
    (forall v, EvoVar W a b (to_v v) (to_v (f v))) -> Evo W a b (tvs st) (tvs (upd_st p f st)).
  Proof.
    intros Hf. unfold tvs. induction st as [|sc r IH]; [constructor|]. cbn [upd_st]. destruct (existsb p sc).
    - cbn [map]. constructor; [|apply Evo_refl].
      induction sc as [|v sc' IHs]; [constructor|]. cbn. destruct (p v); cbn.
      + constructor; [apply Hf|apply Forall2_refl; apply EvoVar_refl].
      + constructor; [apply EvoVar_refl|exact IHs].
    - cbn [map]. constructor; [apply Forall2_refl; apply EvoVar_refl|exact IH].
  Qed.

  Lemma assign_to_evo l rhs v a b :
    match rhs with Some e => InReg W (S.ref_of_exp e) a b | None => True end ->
    EvoVar W a b (to_v v) (to_v (assign_to l rhs v)).
  Proof.
    intros H. unfold assign_to, to_v, LuaUsage.repoint. cbn [v_name v_loc v_refer v_empty fst snd].
    destruct (v_empty v); cbn [fst snd]; [|apply EvoVar_refl].
    destruct rhs as [e|]; cbn [fst snd]; split; cbn; auto.
  Qed.

  (* ---- pieces of a trace *)
  Definition PieceEA (acts : list action) (a b : Z) : Prop :=
    forall st, st <> [] -> GU st a b ->
      clean_run true acts st = true /\ Evo W a b (tvs st) (tvs (stack_run acts st)).
  Definition PieceSA (acts : list action) (a b : Z) : Prop :=
    forall st, st <> [] -> GU st a b ->
      clean_run true acts st = true /\ EvoS W a b (tvs st) (tvs (stack_run acts st)).

  Lemma tvs_nonempty st : st <> [] <-> tvs st <> [].
  Proof. unfold tvs. destruct st; split; intros H; try contradiction; try discriminate; auto. Qed.
  Lemma Evo_ne a b st st' : Evo W a b (tvs st) (tvs st') -> st <> [] -> st' <> [].
  Proof. intros H Hn. apply tvs_nonempty. apply tvs_nonempty in Hn. destruct H; [contradiction|discriminate]. Qed.
  Lemma EvoS_ne a b st st' : EvoS W a b (tvs st) (tvs st') -> st' <> [].
  Proof.
    intros H. apply tvs_nonempty. destruct (tvs st) as [|x r]; [destruct H|]. destruct (tvs st') as [|x' r']; [destruct H|]. discriminate.
  Qed.

  Lemma PieceEA_nil a b : PieceEA [] a b.
  Proof. intros st _ _. split; [reflexivity|apply Evo_refl]. Qed.

  Lemma PieceEA_sub acts a b a' b' : PieceEA acts a b -> a' <= a -> b <= b' -> PieceEA acts a' b'.
  Proof.
    intros H Ha Hb st Hn Hg. destruct (H st Hn (G_sub W _ _ _ _ _ Hg Ha Hb)) as [H1 H2].
    split; [exact H1|]. exact (Evo_widen W _ _ _ _ _ _ H2 Ha Hb).
  Qed.
  Lemma PieceSA_sub acts a b a' b' : PieceSA acts a b -> a' <= a -> b <= b' -> PieceSA acts a' b'.
  Proof.
    intros H Ha Hb st Hn Hg. destruct (H st Hn (G_sub W _ _ _ _ _ Hg Ha Hb)) as [H1 H2].
    split; [exact H1|]. exact (EvoS_widen W _ _ _ _ _ _ H2 Ha Hb).
  Qed.

  Lemma PieceEA_app a1 a2 a m b :
    a <= m -> m <= b -> PieceEA a1 a m -> PieceEA a2 m b -> PieceEA (a1 ++ a2) a b.
  Proof.
    intros Ham Hmb H1 H2 st Hn Hg.
    destruct (H1 st Hn (G_sub W _ _ _ _ _ Hg (Z.le_refl a) Hmb)) as [A1 A2].
    assert (Hg2 : GU (stack_run a1 st) m b).
    { apply (G_evo W _ _ a m m b (G_sub W _ _ _ _ _ Hg Ham (Z.le_refl b)) A2). left. lia. }
    destruct (H2 _ (Evo_ne _ _ _ _ A2 Hn) Hg2) as [B1 B2].
    rewrite clean_run_app, stack_run_app, A1, B1. split; [reflexivity|].
    eapply Evo_trans; [exact (Evo_widen W _ _ _ _ _ _ A2 (Z.le_refl a) Hmb)|exact (Evo_widen W _ _ _ _ _ _ B2 Ham (Z.le_refl b))].
  Qed.

  (* the textually later piece first *)
  Lemma PieceEA_swap a1 a2 a m b :
    a <= m -> m <= b -> PieceEA a1 m b -> PieceEA a2 a m -> PieceEA (a1 ++ a2) a b.
  Proof.
    intros Ham Hmb H1 H2 st Hn Hg.
    destruct (H1 st Hn (G_sub W _ _ _ _ _ Hg Ham (Z.le_refl b))) as [A1 A2].
    assert (Hg2 : GU (stack_run a1 st) a m).
    { apply (G_evo W _ _ m b a m (G_sub W _ _ _ _ _ Hg (Z.le_refl a) Hmb) A2). right. lia. }
    destruct (H2 _ (Evo_ne _ _ _ _ A2 Hn) Hg2) as [B1 B2].
    rewrite clean_run_app, stack_run_app, A1, B1. split; [reflexivity|].
    eapply Evo_trans; [exact (Evo_widen W _ _ _ _ _ _ A2 Ham (Z.le_refl b))|exact (Evo_widen W _ _ _ _ _ _ B2 (Z.le_refl a) Hmb)].
  Qed.

  Lemma PieceSA_of_E acts a b : PieceEA acts a b -> PieceSA acts a b.
  Proof.
    intros H st Hn Hg. destruct (H st Hn Hg) as [H1 H2]. split; [exact H1|].
    destruct (tvs st) as [|vs r] eqn:E; [apply tvs_nonempty in Hn; contradiction|]. apply Evo_EvoS. exact H2.
  Qed.

  Lemma PieceSA_app a1 a2 a m b :
    a <= m -> m <= b -> PieceSA a1 a m -> PieceSA a2 m b -> PieceSA (a1 ++ a2) a b.
  Proof.
    intros Ham Hmb H1 H2 st Hn Hg.
    destruct (H1 st Hn (G_sub W _ _ _ _ _ Hg (Z.le_refl a) Hmb)) as [A1 A2].
    assert (Hg2 : GU (stack_run a1 st) m b).
    { apply (G_evoS_fwd W _ _ a m b (G_sub W _ _ _ _ _ Hg Ham (Z.le_refl b)) A2). }
    destruct (H2 _ (EvoS_ne _ _ _ _ A2) Hg2) as [B1 B2].
    rewrite clean_run_app, stack_run_app, A1, B1. split; [reflexivity|].
    eapply EvoS_trans; [exact (EvoS_widen W _ _ _ _ _ _ A2 (Z.le_refl a) Hmb)|exact (EvoS_widen W _ _ _ _ _ _ B2 Ham (Z.le_refl b))].
  Qed.

  Lemma PieceSA_nil a b : PieceSA [] a b.
  Proof. apply PieceSA_of_E, PieceEA_nil. Qed.

  Lemma PieceEA_scope acts a b : PieceSA acts a b -> PieceEA (APush :: acts ++ [APop]) a b.
  Proof.
    intros H st Hn Hg.
    assert (Hg' : GU ([] :: st) a b) by (unfold GU, tvs; cbn [map]; constructor; [constructor|exact Hg]).
    destruct (H ([] :: st) ltac:(discriminate) Hg') as [H1 H2].
    change (APush :: acts ++ [APop]) with ([APush] ++ acts ++ [APop]).
    rewrite !clean_run_app, !stack_run_app. cbn [clean_run stack_run fold_left step_stack look_clean andb].
    fold (stack_run acts ([] :: st)). rewrite H1. split; [reflexivity|].
    unfold tvs in H2. cbn [map] in H2. fold (tvs st) in H2. fold (tvs (stack_run acts ([] :: st))) in H2.
    destruct (stack_run acts ([] :: st)) as [|sc' r'] eqn:E; [destruct H2|].
    cbn [tvs map] in H2. destruct H2 as [news [olds [_ [_ [_ Hr]]]]]. cbn [tl]. exact Hr.
  Qed.

  Lemma PieceSA_add v a b : Born W a b (to_v v) -> PieceSA [AAdd v] a b.
  Proof.
    intros Hb st Hn _. split; [reflexivity|]. destruct st as [|sc r]; [contradiction|].
    cbn [stack_run fold_left step_stack add_var tvs map]. exists [to_v v], (map to_v sc). repeat split.
    - apply Forall2_refl. apply EvoVar_refl.
    - constructor; [exact Hb|constructor].
    - apply Evo_refl.
  Qed.

  Lemma PieceEA_read n l flv su ci a b :
    idok W l -> a <= lo W l -> hi W l <= b -> PieceEA [ARead n l flv su ci] a b.
  Proof.
    intros Hid Ha Hb st Hn Hg. split.
    - cbn [clean_run look_clean]. fold (clean_lookup n l st). rewrite (look_ok n l st a b Hg Hid Ha Hb). reflexivity.
    - cbn [stack_run fold_left step_stack]. rewrite tvs_upd_same by reflexivity. apply Evo_refl.
  Qed.

  (* a write at l in [a, m]; the assigned expression's region in [ra, rb] *)
  Lemma PieceEA_write n l flv slv rhs a m ra rb :
    idok W l -> a <= lo W l -> hi W l <= m ->
    match rhs with Some e => InReg W (S.ref_of_exp e) ra rb | None => True end ->
    forall st, st <> [] -> GU st a m ->
      clean_run true [AWrite n l flv slv rhs] st = true /\
      Evo W ra rb (tvs st) (tvs (stack_run [AWrite n l flv slv rhs] st)).
  Proof.
    intros Hid Ha Hm Hreg st Hn Hg. split.
    - cbn [clean_run look_clean]. fold (clean_lookup n l st). rewrite (look_ok n l st a m Hg Hid Ha Hm). reflexivity.
    - cbn [stack_run fold_left step_stack]. apply tvs_upd_evo. intros v. apply assign_to_evo. exact Hreg.
  Qed.

  (* several declarations in a row *)
  Lemma adds_run : forall (vs : list var) (sc : list var) (r : list (list var)),
    clean_run true (map AAdd vs) (sc :: r) = true /\ stack_run (map AAdd vs) (sc :: r) = (rev vs ++ sc) :: r.
  Proof.
    induction vs as [|v vs' IH]; intros sc r; [split; reflexivity|].
    destruct (IH (v :: sc) r) as [A1 A2].
    change (map AAdd (v :: vs')) with ([AAdd v] ++ map AAdd vs').
    rewrite clean_run_app, stack_run_app.
    change (stack_run [AAdd v] (sc :: r)) with ((v :: sc) :: r).
    split.
    - apply andb_true_iff. split; [reflexivity|exact A1].
    - etransitivity; [exact A2|]. cbn [rev]. rewrite <- app_assoc. reflexivity.
  Qed.

  Lemma addl_direct (vs : list var) a b st :
    (forall v, In v vs -> Born W a b (to_v v)) -> st <> [] ->
    clean_run true (map AAdd vs) st = true /\ EvoS W a b (tvs st) (tvs (stack_run (map AAdd vs) st)).
  Proof.
    intros Hb Hn. destruct st as [|sc r]; [contradiction|]. destruct (adds_run vs sc r) as [A1 A2].
    split; [exact A1|].
    assert (E : tvs (stack_run (map AAdd vs) (sc :: r)) = (map to_v (rev vs) ++ map to_v sc) :: tvs r).
    { etransitivity; [exact (f_equal tvs A2)|]. cbn [tvs map]. rewrite map_app. reflexivity. }
    rewrite E. cbn [tvs map].
    exists (map to_v (rev vs)), (map to_v sc). repeat split.
    - apply Forall2_refl. apply EvoVar_refl.
    - apply Forall_forall. intros x Hx. apply in_map_iff in Hx. destruct Hx as [v [<- Hv]]. apply Hb.
      apply in_rev. exact Hv.
    - apply Evo_refl.
  Qed.

  Lemma PieceSA_addl (vs : list var) a b :
    (forall v, In v vs -> Born W a b (to_v v)) -> PieceSA (map AAdd vs) a b.
  Proof. intros Hb st Hn _. apply addl_direct; assumption. Qed.

  Lemma adds_as_map : forall ns ls, adds ns ls = map AAdd (map (fun p => param_var (fst p) (snd p)) (combine ns ls)).
  Proof.
    induction ns as [|n ns' IH]; intros ls; [reflexivity|]. destruct ls as [|l ls']; [reflexivity|].
    cbn [adds combine map fst snd]. rewrite IH. reflexivity.
  Qed.

  Lemma PieceSA_adds ns ls a b :
    (forall l, In l ls -> idok W l /\ hi W l <= b) -> PieceSA (adds ns ls) a b.
  Proof.
    intros Hp. rewrite adds_as_map. apply PieceSA_addl. intros v Hv. apply in_map_iff in Hv.
    destruct Hv as [[n l] [<- Hin]]. apply in_combine_r in Hin. destruct (Hp l Hin) as [Hid Hh].
    pose proof (idok_lt W _ Hid) as Hlt. destruct Hid as [_ [_ [Hc _]]].
    unfold Born, to_v. cbn. repeat split; try lia.
  Qed.

  (* right-hand side (textually later) first, then the target *)
  Lemma PieceEA_then_write a1 n l flv slv e a m b' ra rb b :
    PieceEA a1 m b' -> idok W l -> a <= lo W l -> hi W l <= m -> m <= b' -> b' <= b ->
    InReg W (S.ref_of_exp e) ra rb -> a <= ra -> rb <= b ->
    PieceEA (a1 ++ [AWrite n l flv slv (Some e)]) a b.
  Proof.
    intros H1 Hid Ha Hm Hmb Hbb Hreg Hra Hrb st Hn Hg.
    pose proof (idok_lt W _ Hid) as Hlt.
    assert (Lam : a <= m) by lia. assert (Lmb : m <= b) by lia.
    destruct (H1 st Hn (G_sub W (tvs st) a b m b' Hg Lam Hbb)) as [A1 A2].
    assert (Hg2 : GU (stack_run a1 st) a m).
    { apply (G_evo W _ _ m b' a m (G_sub W (tvs st) a b a m Hg (Z.le_refl a) Lmb) A2). right. lia. }
    destruct (PieceEA_write n l flv slv (Some e) a m ra rb Hid Ha Hm Hreg _ (Evo_ne _ _ _ _ A2 Hn) Hg2) as [B1 B2].
    rewrite clean_run_app, stack_run_app, A1, B1. split; [reflexivity|].
    eapply Evo_trans; [exact (Evo_widen W m b' a b _ _ A2 Lam Hbb)|exact (Evo_widen W ra rb a b _ _ B2 Hra Hrb)].
  Qed.

  Definition ExpL (e : exp) : Prop :=
    frag_exp e = true -> forall bp flv g a b, chain W a (LS.m_exp e) b -> PieceEA (fst (tr_exp e bp flv g)) a b.
  Definition ExpLF (e : exp) : Prop :=
    match e with
    | EFunc _ _ _ pls bk _ _ _ =>
      frag_exp e = true -> forall bp flv g a b,
        chain W a (flat_map LS.id_marks pls ++ LS.m_block bk) b -> PieceEA (fst (tr_exp e bp flv g)) a b
    | _ => True
    end.
  Definition PeL (e : exp) : Prop := ExpL e /\ ExpLF e.
  Definition StatL (s : stat) : Prop :=
    frag_stat s = true -> forall flv slv g a b, chain W a (LS.m_stat s) b -> PieceSA (fst (tr_stat s flv slv g)) a b.
  Definition BlockL (bk : block) : Prop :=
    frag_block bk = true -> forall flv slv g a b, chain W a (LS.m_block bk) b -> PieceSA (fst (tr_block bk flv slv g)) a b.

  Lemma thread_exps_laid flv : forall es g a b,
    Forall PeL es -> forallb frag_exp es = true -> chain W a (flat_map LS.m_exp es) b ->
    PieceEA (fst (thread (fun x g0 => tr_exp x None flv g0) es g)) a b.
  Proof.
    induction es as [|e r IH]; intros g a b Hall Hf Hch; [apply PieceEA_nil|].
    inversion Hall as [|? ? [He _] Hr]; subst. cbn [forallb] in Hf. apply andb_true_iff in Hf. destruct Hf as [Hf1 Hf2].
    cbn [flat_map] in Hch. destruct (chain_app W _ _ _ _ Hch) as [c [C1 C2]].
    cbn [thread]. pose proof (He Hf1 None flv g a c C1) as H1. destruct (tr_exp e None flv g) as [b1 g1].
    pose proof (IH g1 c b Hr Hf2 C2) as H2. destruct (thread (fun x g0 => tr_exp x None flv g0) r g1) as [b2 g2].
    cbn [fst] in *. exact (PieceEA_app _ _ a c b (chain_le W _ _ _ C1) (chain_le W _ _ _ C2) H1 H2).
  Qed.

  Lemma thread_stats_laid flv slv : forall ss g a b,
    Forall StatL ss -> forallb frag_stat ss = true -> chain W a (flat_map LS.m_stat ss) b ->
    PieceSA (fst (thread (fun s g0 => tr_stat s flv slv g0) ss g)) a b.
  Proof.
    induction ss as [|s r IH]; intros g a b Hall Hf Hch; [apply PieceSA_nil|].
    inversion Hall as [|? ? Hs Hr]; subst. cbn [forallb] in Hf. apply andb_true_iff in Hf. destruct Hf as [Hf1 Hf2].
    cbn [flat_map] in Hch. destruct (chain_app W _ _ _ _ Hch) as [c [C1 C2]].
    cbn [thread]. pose proof (Hs Hf1 flv slv g a c C1) as H1. destruct (tr_stat s flv slv g) as [b1 g1].
    pose proof (IH g1 c b Hr Hf2 C2) as H2. destruct (thread (fun s0 g0 => tr_stat s0 flv slv g0) r g1) as [b2 g2].
    cbn [fst] in *. exact (PieceSA_app _ _ a c b (chain_le W _ _ _ C1) (chain_le W _ _ _ C2) H1 H2).
  Qed.

  (* a block in its own scope; an empty block has no marks *)
  Lemma block_scope_laid flv slv bk g a c :
    BlockL bk -> frag_block bk = true -> chain W a (LL.blockmarks bk) c ->
    PieceEA (APush :: fst (tr_block bk flv slv g) ++ [APop]) a c.
  Proof.
    intros Hb Hf Hch. destruct bk as [ss ret l]. unfold LL.blockmarks in Hch. cbn [block_stats block_ret block_loc] in *.
    destruct ss as [|s ss'].
    - destruct ret as [es|].
      + destruct (chain_region W _ _ _ _ Hch) as [_ [H2 [H3 H4]]].
        eapply PieceEA_sub; [apply PieceEA_scope; exact (Hb Hf flv slv g _ _ H4)|exact H2|exact H3].
      + exact (PieceEA_scope [] a c (PieceSA_nil a c)).
    - destruct (chain_region W _ _ _ _ Hch) as [_ [H2 [H3 H4]]].
      eapply PieceEA_sub; [apply PieceEA_scope; exact (Hb Hf flv slv g _ _ H4)|exact H2|exact H3].
  Qed.

  Lemma alt_thread_laid flv slv : forall es bs g a b,
    Forall PeL es -> Forall BlockL bs -> forallb frag_exp es = true -> forallb frag_block bs = true ->
    chain W a (LL.zipapp (map LS.m_exp es) (map LL.blockmarks bs)) b ->
    PieceEA (fst (alt_thread
                    (map (fun e g0 => tr_exp e None flv (set_inif g0 true)) es)
                    (map (fun bk g0 => let (a2, g2) := tr_block bk flv (slv + 1)%N (set_inif g0 false) in
                                       (APush :: a2 ++ [APop], g2)) bs) g)) a b.
  Proof.
    induction es as [|e es' IH]; intros bs g a b He Hb Hfe Hfb Hch; [apply PieceEA_nil|].
    destruct bs as [|bk bs']; [apply PieceEA_nil|].
    inversion He as [|? ? [He1 _] He2]; subst. inversion Hb as [|? ? Hb1 Hb2]; subst.
    cbn [forallb] in Hfe, Hfb. apply andb_true_iff in Hfe. destruct Hfe as [Hfe1 Hfe2].
    apply andb_true_iff in Hfb. destruct Hfb as [Hfb1 Hfb2].
    cbn [map LL.zipapp] in Hch. destruct (chain_app W _ _ _ _ Hch) as [c1 [C1 C2]].
    destruct (chain_app W _ _ _ _ C2) as [c2 [C3 C4]].
    pose proof (chain_le W _ _ _ C1) as L1. pose proof (chain_le W _ _ _ C3) as L2. pose proof (chain_le W _ _ _ C4) as L3.
    cbn [map alt_thread].
    pose proof (He1 Hfe1 None flv (set_inif g true) a c1 C1) as P1.
    destruct (tr_exp e None flv (set_inif g true)) as [a1 g1].
    pose proof (block_scope_laid flv (slv + 1)%N bk (set_inif g1 false) c1 c2 Hb1 Hfb1 C3) as P2.
    destruct (tr_block bk flv (slv + 1)%N (set_inif g1 false)) as [a2 g2].
    pose proof (IH bs' g2 c2 b He2 Hb2 Hfe2 Hfb2 C4) as P3.
    destruct (alt_thread _ _ g2) as [a3 g3]. cbn [fst] in *.
    assert (La : a <= c2) by lia.
    exact (PieceEA_app _ _ a c1 b L1 ltac:(lia) P1 (PieceEA_app _ _ c1 c2 b L2 L3 P2 P3)).
  Qed.

  (* ---- local *)
  Lemma local_rest_as_map il lc : forall ns ls ats,
    local_rest il ns ls ats lc
    = map AAdd (map (fun x : name * loc * attr =>
                       mkVar10 (fst (fst x)) (snd (fst x)) false (match snd x with AttrClose => true | _ => false end) false lc
                               (match lc with Some _ => false | None => true end) [] il None)
                    (combine (combine ns ls) ats)).
  Proof.
    induction ns as [|n ns' IH]; intros ls ats; [reflexivity|]. destruct ls as [|l ls']; [reflexivity|].
    destruct ats as [|a ats']; [reflexivity|]. cbn [local_rest combine map fst snd]. rewrite IH. reflexivity.
  Qed.

  Lemma local_rest_direct il lc ns ls ats A B st :
    (forall l, In l ls -> idok W l /\ hi W l <= B) ->
    match lc with Some e => InReg W (S.ref_of_exp e) A B | None => True end ->
    match il with Some i => colok W i /\ hi W i <= B | None => True end ->
    st <> [] ->
    clean_run true (local_rest il ns ls ats lc) st = true /\
    EvoS W A B (tvs st) (tvs (stack_run (local_rest il ns ls ats lc) st)).
  Proof.
    intros Hp Hreg Hil Hn. rewrite local_rest_as_map. apply addl_direct; [|exact Hn]. intros v Hv. apply in_map_iff in Hv.
    destruct Hv as [[[n l] at_] [<- Hin]]. apply in_combine_l in Hin. apply in_combine_r in Hin.
    destruct (Hp l Hin) as [Hid Hh]. unfold to_v. cbn [v_name v_loc v_refer v_empty v_init v_tab fst snd].
    apply (LL.Born_of_InReg5 W); [exact Hid|exact Hh| |exact Hil]. destruct lc; [exact Hreg|exact I].
  Qed.

  (* since fixes/C07-multi-local-order.diff: the initialisers (a piece over [c0, B]), then the names *)
  Lemma local_adds_direct il : forall es ns ls ats cA B st,
    (forall l, In l ls -> idok W l /\ hi W l <= B) ->
    (forall e, In e es -> InReg W (S.ref_of_exp e) cA B) ->
    match il with Some i => colok W i /\ hi W i <= B | None => True end ->
    st <> [] ->
    clean_run true (local_add_acts il ns ls ats es) st = true /\
    EvoS W cA B (tvs st) (tvs (stack_run (local_add_acts il ns ls ats es) st)).
  Proof.
    induction es as [|e es' IH]; intros ns ls ats cA B st Hp He Hil Hn.
    - cbn [local_add_acts]. apply (local_rest_direct il None ns ls ats cA B st); auto.
    - assert (Hnil : clean_run true [] st = true /\ EvoS W cA B (tvs st) (tvs (stack_run [] st))).
      { split; [reflexivity|]. cbn [stack_run fold_left].
        destruct (tvs st) as [|vs r] eqn:Et; [apply tvs_nonempty in Hn; contradiction|]. apply Evo_EvoS. apply Evo_refl. }
      destruct ns as [|n ns']; [exact Hnil|]. destruct ls as [|l ls']; [exact Hnil|].
      destruct ats as [|at_ ats']; [exact Hnil|]. clear Hnil.
      cbn [local_add_acts].
      set (v := mkVar10 n l false (match at_ with AttrClose => true | _ => false end) (is_func_exp e) (Some e)
                        (local_refer_empty n e) [] il (S.tab_of_exp e)).
      destruct (Hp l (or_introl eq_refl)) as [Hid Hh].
      assert (Hreg : InReg W (S.ref_of_exp e) cA B) by (apply He; left; reflexivity).
      assert (Hb : forall v0, In v0 [v] -> Born W cA B (to_v v0)).
      { intros v0 [<-|[]]. unfold to_v, v. cbn [v_name v_loc v_refer v_empty v_init v_tab].
        apply (LL.Born_of_InReg5 W); [exact Hid|exact Hh|exact Hreg|exact Hil]. }
      destruct (addl_direct [v] cA B st Hb Hn) as [A1 A2]. cbn [map] in A1, A2.
      pose proof (EvoS_ne _ _ _ _ A2) as Hn2.
      assert (Hp' : forall l0, In l0 ls' -> idok W l0 /\ hi W l0 <= B).
      { intros l0 Hl0. apply Hp. right. exact Hl0. }
      destruct es' as [|e2 es2].
      + assert (Hlc : match (if is_call_exp e then Some e else None) with
                        | Some e0 => InReg W (S.ref_of_exp e0) cA B | None => True end).
        { destruct (is_call_exp e); [exact Hreg|exact I]. }
        destruct (local_rest_direct il (if is_call_exp e then Some e else None) ns' ls' ats' cA B
                    (stack_run [AAdd v] st) Hp' Hlc Hil Hn2) as [R1 R2].
        change (AAdd v :: ?r) with ([AAdd v] ++ r).
        rewrite clean_run_app, stack_run_app, A1, R1. split; [reflexivity|].
        eapply EvoS_trans; [exact A2|exact R2].
      + destruct (IH ns' ls' ats' cA B (stack_run [AAdd v] st) Hp'
                     ltac:(intros e0 He0; apply He; right; exact He0) Hil Hn2) as [R1 R2].
        change (AAdd v :: ?r) with ([AAdd v] ++ r).
        rewrite clean_run_app, stack_run_app, A1, R1. split; [reflexivity|].
        eapply EvoS_trans; [exact A2|exact R2].
  Qed.

  Lemma local_go_laid flv slv l : forall es ns ls ats g cA c0 B st,
    length ns = length ls -> length ns = length ats ->
    Forall PeL es -> forallb frag_exp es = true ->
    chain W c0 (flat_map LS.m_exp es) B ->
    (forall l0, In l0 ls -> idok W l0 /\ hi W l0 <= c0) -> cA <= c0 ->
    match S.init_loc ns ls es l with Some i => colok W i /\ hi W i <= B | None => True end ->
    st <> [] -> GU st c0 B ->
    clean_run true (fst (tr_stat (SLocal ns ls ats es l) flv slv g)) st = true /\
    EvoS W cA B (tvs st) (tvs (stack_run (fst (tr_stat (SLocal ns ls ats es l) flv slv g)) st)).
  Proof.
    intros es ns ls ats g cA c0 B st Hl Ha Hall Hf Hch Hp HcA Hil Hn Hg.
    pose proof (chain_le W _ _ _ Hch) as HcB.
    rewrite tr_stat_local.
    pose proof (thread_exps_laid flv es g c0 B Hall Hf Hch) as P.
    destruct (thread (fun x g0 => tr_exp x None flv g0) es g) as [a1 g1]. cbn [fst] in *.
    destruct (P st Hn Hg) as [P1 P2].
    assert (Hn1 : stack_run a1 st <> []) by exact (Evo_ne _ _ _ _ P2 Hn).
    destruct (local_adds_direct (S.init_loc ns ls es l) es ns ls ats cA B (stack_run a1 st)) as [R1 R2]; auto.
    - intros l0 Hl0. destruct (Hp l0 Hl0) as [A1 A2]. split; [exact A1|lia].
    - intros e He. exact (InReg_widen W _ _ _ cA B (LL.exps_inreg W es c0 B Hch e He) HcA (Z.le_refl B)).
    - rewrite clean_run_app, stack_run_app, P1, R1. split; [reflexivity|].
      eapply EvoS_trans; [|exact R2].
      destruct (tvs st) as [|vs r] eqn:Et; [apply tvs_nonempty in Hn; contradiction|]. apply Evo_EvoS.
      exact (Evo_widen W _ _ _ _ _ _ P2 HcA (Z.le_refl B)).
  Qed.

  Ltac bs H := repeat (apply andb_true_iff in H; let H' := fresh H in destruct H as [H H']).

  Lemma PeL_atom e : (forall bp flv g, fst (tr_exp e bp flv g) = []) ->
                     match e with EFunc _ _ _ _ _ _ _ _ => False | _ => True end -> PeL e.
  Proof.
    intros Ht Hk. split.
    - intros _ bp flv g a b _. rewrite Ht. apply PieceEA_nil.
    - destruct e; try exact I. contradiction.
  Qed.
  Lemma PeL_nofunc e : ExpL e -> match e with EFunc _ _ _ _ _ _ _ _ => False | _ => True end -> PeL e.
  Proof. intros H Hk. split; [exact H|]. destruct e; try exact I. contradiction. Qed.

  Theorem ulaid_all : (forall e, PeL e) /\ (forall s, StatL s) /\ (forall b, BlockL b).
  Proof.
    apply TraverseBindDefs.tb_ast_ind.
    - intros; apply PeL_atom; auto.
    - intros; apply PeL_atom; auto.
    - intros; apply PeL_atom; auto.
    - intros; apply PeL_atom; auto.
    - intros; apply PeL_atom; auto.
    - intros; apply PeL_atom; auto.
    - intros; apply PeL_atom; auto.
    - intros; apply PeL_atom; auto.
    - (* EName *) intros n l. apply PeL_nofunc; [|exact I]. intros _ bp flv g a b Hch.
      cbn [LS.m_exp] in Hch. rewrite <- (app_nil_r (LS.id_marks l)) in Hch.
      destruct (chain_id W _ _ _ _ Hch) as [Hid [Ha Hb]]. cbn [chain] in Hb.
      cbn [tr_exp fst]. exact (PieceEA_read n l flv _ _ a b Hid Ha Hb).
    - (* EUnop *) intros o x l [IH _]. apply PeL_nofunc; [|exact I]. intros Hf bp flv g a b Hch.
      cbn [tr_exp]. match goal with |- context [tr_exp x None flv ?g1] =>
        pose proof (IH Hf None flv g1 a b Hch) as H; destruct (tr_exp x None flv g1) as [a0 g2] end. exact H.
    - (* EBinop *) intros o x y l [IHx _] [IHy _]. apply PeL_nofunc; [|exact I]. intros Hf bp flv g a b Hch.
      cbn [frag_exp] in Hf. bs Hf. cbn [LS.m_exp] in Hch. destruct (chain_app W _ _ _ _ Hch) as [c [C1 C2]].
      cbn [tr_exp].
      match goal with |- context [tr_exp x ?bp1 flv ?g1] => pose proof (IHx Hf bp1 flv g1 a c C1) as H1;
        destruct (tr_exp x bp1 flv g1) as [a1 g3] end.
      match goal with |- context [tr_exp y ?bp1 flv ?g1] => pose proof (IHy Hf0 bp1 flv g1 c b C2) as H2;
        destruct (tr_exp y bp1 flv g1) as [a2 g4] end.
      cbn [fst] in *. exact (PieceEA_app _ _ a c b (chain_le W _ _ _ C1) (chain_le W _ _ _ C2) H1 H2).
    - (* EParens *) intros x l [IH _]. apply PeL_nofunc; [|exact I]. intros Hf bp flv g a b Hch.
      cbn [tr_exp]. exact (IH Hf bp flv g a b Hch).
    - intros p k l _ _. apply PeL_nofunc; [|exact I]. intros Hf; discriminate.
    - (* ECall *) intros p name args l [IHp _] IHa. apply PeL_nofunc; [|exact I]. intros Hf bp flv g a b Hch.
      destruct name; [discriminate|]. cbn [frag_exp] in Hf. bs Hf.
      cbn [LS.m_exp] in Hch. rewrite app_assoc in Hch. destruct (chain_region W _ _ _ _ Hch) as [_ [H2 [H3 H4]]].
      destruct (chain_app W _ _ _ _ H4) as [c [C1 C2]].
      cbn [tr_exp]. pose proof (IHp Hf None flv g _ _ C1) as P1. destruct (tr_exp p None flv g) as [a1 g1].
      pose proof (thread_exps_laid flv args g1 _ _ IHa Hf0 C2) as P2.
      destruct (thread (fun x g0 => tr_exp x None flv g0) args g1) as [a2 g2]. cbn [fst] in *.
      eapply PieceEA_sub; [exact (PieceEA_app _ _ _ c _ (chain_le W _ _ _ C1) (chain_le W _ _ _ C2) P1 P2)|exact H2|exact H3].
    - intros ks vs l _ _. apply PeL_nofunc; [|exact I]. intros Hf; discriminate.
    - (* EFunc *) intros c f ps pl bk l va co IHb.
      assert (HF : ExpLF (EFunc c f ps pl bk l va co)).
      { cbn [ExpLF]. intros Hf bp flv g a b Hch. destruct co; [discriminate|]. cbn [frag_exp] in Hf. bs Hf.
        destruct (chain_app W _ _ _ _ Hch) as [c1 [C1 C2]].
        assert (Hp : forall l0, In l0 pl -> idok W l0 /\ hi W l0 <= c1).
        { intros l0 Hl0. destruct (chain_ids W _ _ _ C1 l0 Hl0) as [A1 [_ A3]]. auto. }
        cbn [tr_exp]. pose proof (IHb ltac:(assumption) (flv + 1)%N 0%N g c1 b C2) as P2.
        destruct (tr_block bk (flv + 1)%N 0%N g) as [a0 g1]. cbn [fst] in *.
        pose proof (PieceSA_app _ _ a c1 b (chain_le W _ _ _ C1) (chain_le W _ _ _ C2) (PieceSA_adds ps pl a c1 Hp) P2) as H.
        pose proof (PieceEA_scope _ a b H) as H'. rewrite <- app_assoc in H'. exact H'. }
      split; [|exact HF]. intros Hf bp flv g a b Hch.
      cbn [LS.m_exp] in Hch. rewrite app_assoc in Hch. destruct (chain_region W _ _ _ _ Hch) as [_ [H2 [H3 H4]]].
      eapply PieceEA_sub; [exact (HF Hf bp flv g _ _ H4)|exact H2|exact H3].
    - (* SBreak *) intros _ flv slv g a b _. apply PieceSA_nil.
    - intros n l Hf; discriminate.
    - intros n l Hf; discriminate.
    - (* SDo *) intros bk l IHb Hf flv slv g a b Hch. cbn [frag_stat LS.m_stat] in *.
      destruct (chain_region W _ _ _ _ Hch) as [_ [H2 [H3 H4]]].
      cbn [tr_stat]. pose proof (IHb Hf flv (slv + 1)%N g _ _ H4) as P. destruct (tr_block bk flv (slv + 1)%N g) as [a0 g1].
      cbn [fst] in *. apply PieceSA_of_E. eapply PieceEA_sub; [exact (PieceEA_scope _ _ _ P)|exact H2|exact H3].
    - (* SCall *) intros e [IHe _] Hf flv slv g a b Hch. cbn [frag_stat LS.m_stat tr_stat] in *.
      apply PieceSA_of_E. exact (IHe Hf None flv g a b Hch).
    - (* SIf *) intros es bs l IHe IHb Hf flv slv g a b Hch. rewrite LL.m_stat_if in Hch.
      cbn [frag_stat] in Hf. bs Hf. cbn [tr_stat]. apply PieceSA_of_E.
      exact (alt_thread_laid flv slv es bs g a b IHe IHb Hf1 Hf0 Hch).
    - (* SWhile *) intros e bk l [IHe _] IHb Hf flv slv g a b Hch. cbn [frag_stat LS.m_stat] in *. bs Hf.
      rewrite app_assoc in Hch. destruct (chain_region W _ _ _ _ Hch) as [_ [H2 [H3 H4]]].
      destruct (chain_app W _ _ _ _ H4) as [c [C1 C2]].
      cbn [tr_stat]. pose proof (IHe Hf None flv g _ _ C1) as P1. destruct (tr_exp e None flv g) as [a1 g1].
      pose proof (IHb Hf0 flv (slv + 1)%N g1 _ _ C2) as P2. destruct (tr_block bk flv (slv + 1)%N g1) as [a2 g2].
      cbn [fst] in *. apply PieceSA_of_E. eapply PieceEA_sub; [|exact H2|exact H3].
      exact (PieceEA_app _ _ _ c _ (chain_le W _ _ _ C1) (chain_le W _ _ _ C2) P1 (PieceEA_scope _ _ _ P2)).
    - (* SRepeat *) intros bk e l IHb [IHe _] Hf flv slv g a b Hch. cbn [frag_stat LS.m_stat] in *. bs Hf.
      rewrite app_assoc in Hch. destruct (chain_region W _ _ _ _ Hch) as [_ [H2 [H3 H4]]].
      destruct (chain_app W _ _ _ _ H4) as [c [C1 C2]].
      cbn [tr_stat]. pose proof (IHb Hf flv (slv + 1)%N g _ _ C1) as P1. destruct (tr_block bk flv (slv + 1)%N g) as [a1 g1].
      pose proof (IHe Hf0 None flv g1 _ _ C2) as P2. destruct (tr_exp e None flv g1) as [a2 g2].
      cbn [fst] in *. apply PieceSA_of_E. eapply PieceEA_sub; [|exact H2|exact H3].
      pose proof (PieceEA_scope _ _ _ (PieceSA_app _ _ _ c _ (chain_le W _ _ _ C1) (chain_le W _ _ _ C2) P1 (PieceSA_of_E _ _ _ P2))) as H.
      rewrite <- app_assoc in H. exact H.
    - (* SForNum *) intros n vl e1 e2 e3 bk l [IH1 _] [IH2 _] [IH3 _] IHb Hf flv slv g a b Hch.
      cbn [frag_stat LS.m_stat] in *. bs Hf.
      rewrite !app_assoc in Hch. destruct (chain_region W _ _ _ _ Hch) as [_ [H2 [H3 H4]]].
      rewrite <- !app_assoc in H4. destruct (chain_id W _ _ _ _ H4) as [Hid [Ha Hr]].
      pose proof (idok_lt W _ Hid) as Hlt.
      destruct (chain_app W _ _ _ _ Hr) as [c1 [C1 R1]]. destruct (chain_app W _ _ _ _ R1) as [c2 [C2 R2]].
      destruct (chain_app W _ _ _ _ R2) as [c3 [C3 C4]].
      pose proof (chain_le W _ _ _ C1) as L1. pose proof (chain_le W _ _ _ C2) as L2.
      pose proof (chain_le W _ _ _ C3) as L3. pose proof (chain_le W _ _ _ C4) as L4.
      cbn [tr_stat].
      pose proof (IH1 ltac:(assumption) None flv g _ _ C1) as P1. destruct (tr_exp e1 None flv g) as [a1 g1].
      pose proof (IH2 ltac:(assumption) None flv g1 _ _ C2) as P2. destruct (tr_exp e2 None flv g1) as [a2 g2].
      pose proof (IH3 ltac:(assumption) None flv g2 _ _ C3) as P3. destruct (tr_exp e3 None flv g2) as [a3 g3].
      pose proof (IHb ltac:(assumption) flv (slv + 1)%N g3 _ _ C4) as P4. destruct (tr_block bk flv (slv + 1)%N g3) as [a4 g4].
      cbn [fst] in *.
      assert (L13 : c1 <= c3) by lia.
      pose proof (PieceEA_app _ _ (hi W vl) c1 c3 L1 L13 P1 (PieceEA_app _ _ c1 c2 c3 L2 L3 P2 P3)) as P132.
      assert (Hb : Born W c3 c3 (to_v (param_var n vl))).
      { unfold to_v, param_var. cbn [v_name v_loc v_refer v_empty]. apply (LL.Born_of_InReg W); [exact Hid|lia|exact I]. }
      pose proof (PieceSA_app _ _ (hi W vl) c3 c3 ltac:(lia) (Z.le_refl c3) (PieceSA_of_E _ _ _ P132) (PieceSA_add _ c3 c3 Hb)) as P5.
      pose proof (PieceSA_app _ _ (hi W vl) c3 (hi W l) ltac:(lia) L4 P5 P4) as H.
      apply PieceSA_of_E. eapply PieceEA_sub; [|exact H2|exact H3].
      eapply PieceEA_sub; [|exact (Z.le_trans _ _ _ Ha (Z.lt_le_incl _ _ Hlt))|apply Z.le_refl].
      pose proof (PieceEA_scope _ _ _ H) as H'. rewrite <- !app_assoc in H'. cbn [app] in H'. exact H'.
    - (* SForIn *) intros ns ls es bk l IHe IHb Hf flv slv g a b Hch. cbn [frag_stat LS.m_stat] in *. bs Hf.
      rewrite !app_assoc in Hch. destruct (chain_region W _ _ _ _ Hch) as [_ [H2 [H3 H4]]].
      rewrite <- !app_assoc in H4.
      destruct (chain_app W _ _ _ _ H4) as [c1 [C1 R1]]. destruct (chain_app W _ _ _ _ R1) as [c2 [C2 C3]].
      pose proof (chain_le W _ _ _ C1) as L1. pose proof (chain_le W _ _ _ C2) as L2. pose proof (chain_le W _ _ _ C3) as L3.
      cbn [tr_stat].
      pose proof (thread_exps_laid flv es g c1 c2 IHe ltac:(assumption) C2) as P1.
      destruct (thread (fun x g0 => tr_exp x None flv g0) es g) as [a1 g1].
      pose proof (IHb ltac:(assumption) flv (slv + 1)%N g1 _ _ C3) as P3. destruct (tr_block bk flv (slv + 1)%N g1) as [a2 g2].
      cbn [fst] in *.
      assert (Hp : forall l0, In l0 ls -> idok W l0 /\ hi W l0 <= c2).
      { intros l0 Hl0. destruct (chain_ids W _ _ _ C1 l0 Hl0) as [A1 [_ A3]]. split; [exact A1|lia]. }
      pose proof (PieceSA_app _ _ c1 c2 c2 L2 (Z.le_refl c2) (PieceSA_of_E _ _ _ P1) (PieceSA_adds ns ls c2 c2 Hp)) as P12.
      pose proof (PieceSA_app _ _ c1 c2 (hi W l) L2 L3 P12 P3) as H.
      apply PieceSA_of_E. eapply PieceEA_sub; [|exact H2|exact H3].
      eapply PieceEA_sub; [|exact L1|apply Z.le_refl].
      pose proof (PieceEA_scope _ _ _ H) as H'. rewrite <- !app_assoc in H'. exact H'.
    - (* SAssign *) intros vars es l IHv IHe Hf flv slv g a b Hch.
      destruct vars as [|v vars']; try discriminate Hf. destruct v; try discriminate Hf.
      destruct vars' as [|v2 vars']; try discriminate Hf.
      destruct es as [|e es']; try discriminate Hf. destruct es' as [|e2 es']; try discriminate Hf.
      cbn [frag_stat] in Hf. apply andb_true_iff in Hf. destruct Hf as [_ Hfe].
      pose proof (Forall_inv IHe) as [He HeF].
      cbn [tr_stat map assign_thread tl thread fst snd].
      apply PieceSA_of_E.
      (* which form of marks *)
      assert (Hcase : (exists c f0 fn ps pls bk fl va co, e = EFunc c (f0 :: fn) ps pls bk fl va co)
                      \/ LS.m_stat (SAssign [EName n l0] [e] l) = LS.id_marks l0 ++ LS.m_exp e).
      { destruct e as [?|?|?|?|?|? ?|? ?|? ?|? ? ?|? ? ? ?|? ? ?|cls fname pars parlocs bk0 fl0 va0 co0|? ?|? ?|? ? ?|? ? ? ?];
          try (right; cbn; rewrite ?app_nil_r; reflexivity).
        destruct fname as [|f0 fn]; [right; cbn; rewrite ?app_nil_r; reflexivity|]. left. do 9 eexists. reflexivity. }
      destruct Hcase as [[c [f0 [fn [ps [pls [bk [fl [va [co ->]]]]]]]]]|Hm].
      + cbn [LS.m_stat] in Hch. cbn [ExpLF] in HeF.
        rewrite !app_assoc in Hch. destruct (chain_region W _ _ _ _ Hch) as [Hc [H2 [H3 H4]]].
        rewrite <- !app_assoc in H4. destruct (chain_id W _ _ _ _ H4) as [Hid [Ha Hr]].
        pose proof (idok_lt W _ Hid) as Hlt. pose proof (chain_le W _ _ _ Hr) as Hle.
        match goal with |- context [tr_exp ?ee None flv ?g0] =>
          pose proof (HeF Hfe None flv g0 (hi W l0) (hi W fl) Hr) as P1; destruct (tr_exp ee None flv g0) as [a1 g1] end.
        cbn [fst snd] in *. rewrite !app_nil_r.
        apply (PieceEA_then_write a1 n l0 flv slv _ a (hi W l0) (hi W fl) (lo W fl) (hi W fl) b P1 Hid); try lia.
        cbn [S.ref_of_exp InReg]. repeat split; try apply Hc; lia.
      + rewrite Hm in Hch. destruct (chain_id W _ _ _ _ Hch) as [Hid [Ha Hr]].
        pose proof (idok_lt W _ Hid) as Hlt. pose proof (chain_le W _ _ _ Hr) as Hle.
        match goal with |- context [tr_exp e None flv ?g0] =>
          pose proof (He Hfe None flv g0 (hi W l0) b Hr) as P1; destruct (tr_exp e None flv g0) as [a1 g1] end.
        cbn [fst snd] in *. rewrite !app_nil_r.
        apply (PieceEA_then_write a1 n l0 flv slv e a (hi W l0) b (hi W l0) b b P1 Hid); try lia.
        exact (LL.region_of_exp W e _ _ Hr).
    - (* SLocal *) intros ns ls ats es l IHe Hf flv slv g a b Hch. cbn [frag_stat LS.m_stat] in *. bs Hf.
      destruct (chain_app W _ _ _ _ Hch) as [c0 [C1 C2]].
      pose proof (chain_le W _ _ _ C1) as L1. pose proof (chain_le W _ _ _ C2) as L2.
      repeat match goal with
             | H : (_ =? _)%nat = true |- _ => apply Nat.eqb_eq in H
             | H : (_ <=? _)%nat = true |- _ => apply Nat.leb_le in H
             end.
      intros st Hn Hg.
      destruct (LL.local_marks_chain W ns ls es l c0 b C2) as (c1 & c2 & Lc1 & Lc2 & C3 & Hil).
      pose proof (chain_le W _ _ _ C3) as L3.
      destruct (local_go_laid flv slv l es ns ls ats g c0 c1 c2 st ltac:(assumption) ltac:(assumption)
                              IHe ltac:(assumption) C3) as [P1 P2]; auto.
      + intros l0 Hl0. destruct (chain_ids W _ _ _ C1 l0 Hl0) as [A1 [_ A3]]. split; [exact A1|lia].
      + assert (La1 : a <= c1) by lia. exact (G_sub W _ _ _ _ _ Hg La1 Lc2).
      + split; [exact P1|]. exact (EvoS_widen W _ _ _ _ _ _ P2 L1 Lc2).
    - (* SLocalFunc *) intros n nl f l [_ IHf] Hf flv slv g a b Hch. cbn [frag_stat] in Hf. bs Hf.
      destruct f; try discriminate. cbn [ExpLF LS.m_stat] in *.
      rewrite !app_assoc in Hch. destruct (chain_region W _ _ _ _ Hch) as [Hc [H2 [H3 H4]]].
      rewrite <- !app_assoc in H4. destruct (chain_id W _ _ _ _ H4) as [Hid [Ha Hr]].
      pose proof (idok_lt W _ Hid) as Hlt. pose proof (chain_le W _ _ _ Hr) as Hle.
      cbn [tr_stat].
      match goal with |- context [tr_exp ?ee None flv g] =>
        pose proof (IHf ltac:(assumption) None flv g (hi W nl) (hi W l0) Hr) as P1; destruct (tr_exp ee None flv g) as [a1 g1] end.
      cbn [fst] in *.
      assert (Hb : Born W a (hi W nl) (to_v (mkVar n nl false false true (Some (EFunc cls fname pars parlocs b0 l0 vararg colon)) false []))).
      { pose proof Hid as [_ [_ [Hcc _]]]. unfold Born, to_v. cbn [S.v_loc S.v_ref v_loc v_refer S.ref_of_exp]. repeat split; try lia.
        left. apply (contains_ok W HW); [exact Hc|exact Hid|exact Ha|lia]. }
      change (AAdd ?v :: a1) with ([AAdd v] ++ a1).
      eapply PieceSA_sub; [|apply Z.le_refl|exact H3].
      exact (PieceSA_app _ _ a (hi W nl) (hi W l0) ltac:(lia) Hle (PieceSA_add _ a (hi W nl) Hb) (PieceSA_of_E _ _ _ P1)).
    - (* Block *) intros ss ret l IHs IHr Hf flv slv g a b Hch. cbn [frag_block LS.m_block] in *. bs Hf.
      destruct (chain_app W _ _ _ _ Hch) as [c [C1 C2]].
      pose proof (chain_le W _ _ _ C1) as L1. pose proof (chain_le W _ _ _ C2) as L2.
      cbn [tr_block]. pose proof (thread_stats_laid flv slv ss g a c IHs Hf C1) as P1.
      destruct (thread (fun s g0 => tr_stat s flv slv g0) ss g) as [a1 g1].
      destruct ret as [es|].
      + cbn [TraverseBindDefs.tb_ret] in IHr. pose proof (thread_exps_laid flv es g1 c b IHr Hf0 C2) as P2.
        destruct (thread (fun x g0 => tr_exp x None flv g0) es g1) as [a2 g2]. cbn [fst] in *.
        exact (PieceSA_app _ _ a c b L1 L2 P1 (PieceSA_of_E _ _ _ P2)).
      + cbn [fst] in *. rewrite app_nil_r. eapply PieceSA_sub; [exact P1|apply Z.le_refl|exact L2].
  Qed.
End ULaid.

(* ------------------------------------------------------------------ whole chunks *)
Theorem usage_laid_pos_clean W b :
  in_fragment b = true -> LS.laid_b W b = true -> pos_clean b = true.
Proof.
  intros Hf Hl. unfold LS.laid_b in Hl. apply andb_true_iff in Hl. destruct Hl as [Hl Hst].
  apply andb_true_iff in Hl. destruct Hl as [HW Hok]. apply Z.ltb_lt in HW.
  unfold LS.marks in *. destruct (TraverseBindLaidMain.steps_chain W _ _ Hok Hst) as [c Hb].
  destruct Hb as [_ [_ Hb]]. destruct (chain_app W _ _ _ _ Hb) as [c1 [C1 _]].
  destruct (ulaid_all W HW) as [_ [_ HB]].
  unfold pos_clean, trace. pose proof (HB b Hf 0%N 0%N ign0 _ _ C1) as P.
  destruct (tr_block b 0%N 0%N ign0) as [a g1]. cbn [fst] in *.
  destruct (P [[]] ltac:(discriminate) ltac:(constructor; [constructor|constructor])) as [H1 _].
  change (APush :: a ++ [APop]) with ([APush] ++ a ++ [APop]).
  rewrite !clean_run_app. apply andb_true_iff. split; [reflexivity|].
  apply andb_true_iff. split; [exact H1|reflexivity].
Qed.
