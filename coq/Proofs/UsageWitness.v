(* C07 - witnesses computed on the parsed bytes (vm_compute; the parsed block is a constant so that every conjunct is a
   closed computation) *)
From Coq Require Import List NArith ZArith Bool.
From LH Require Import Base.Bytes Base.Res Model.Lexer Model.Ast Model.Parser Model.LuaFront Spec.LuaUsage Model.Usage.
Import ListNotations.
Local Open Scope N_scope.

(* a configuration for the witnesses: `print` is a built-in / ignored / library name *)
Definition demo_cfg : cfg := mkCfg [[112;114;105;110;116]] [[112;114;105;110;116]] [[112;114;105;110;116]] [].

(* "local a, b = 1, a\nprint(b)\n" *)
Definition w_multi : list N :=
  [108; 111; 99; 97; 108; 32; 97; 44; 32; 98; 32; 61; 32; 49; 44; 32; 97; 10; 112; 114; 105; 110; 116; 40; 98; 41; 10].
(* "local p = 1 print(p) local bbbb = 1 --[[c]] print(bbbb)\n" *)
Definition w_pos : list N :=
  [108; 111; 99; 97; 108; 32; 112; 32; 61; 32; 49; 32; 112; 114; 105; 110; 116; 40; 112; 41; 32; 108; 111; 99; 97; 108; 32;
   98; 98; 98; 98; 32; 61; 32; 49; 32; 45; 45; 91; 91; 99; 93; 93; 32; 112; 114; 105; 110; 116; 40; 98; 98; 98; 98; 41; 10].
(* "print(g)\ng = 2\n"  (another file of the workspace defines g too) *)
Definition w_later : list N := [112; 114; 105; 110; 116; 40; 103; 41; 10; 103; 32; 61; 32; 50; 10].
(* "local x, y = 1, 2\nlocal function f(a) return a + x end\nrepeat local u = f(y) until u\nprint(g)\n" *)
Definition w_ok : list N :=
  [108; 111; 99; 97; 108; 32; 120; 44; 32; 121; 32; 61; 32; 49; 44; 32; 50; 10; 108; 111; 99; 97; 108; 32; 102; 117; 110; 99;
   116; 105; 111; 110; 32; 102; 40; 97; 41; 32; 114; 101; 116; 117; 114; 110; 32; 97; 32; 43; 32; 120; 32; 101; 110; 100; 10;
   114; 101; 112; 101; 97; 116; 32; 108; 111; 99; 97; 108; 32; 117; 32; 61; 32; 102; 40; 121; 41; 32; 117; 110; 116; 105; 108;
   32; 117; 10; 112; 114; 105; 110; 116; 40; 103; 41; 10].

Definition diag_mem (d : diag) (l : list diag) : bool := existsb (diag_eqb d) l.
Definition L (a b c d : Z) : loc := mkLoc a b c d.

Definition block_of (bs : list N) : block :=
  match parse_file (fun _ => 0%Z) bs with PFile b => b | PSkip _ => Block [] None zero_loc end.
Definition b_multi : block := Eval vm_compute in block_of w_multi.
Definition b_pos : block := Eval vm_compute in block_of w_pos.
Definition b_later : block := Eval vm_compute in block_of w_later.
Definition b_ok : block := Eval vm_compute in block_of w_ok.

Ltac crunch := repeat split; vm_compute; reflexivity.

(* `_fx Scope.deployed` is the deployed code *)
Lemma tr_block_fx_deployed : tr_block_fx Scope.deployed = tr_block.
Proof. reflexivity. Qed.
Lemma trace_fx_deployed b : trace_fx Scope.deployed b = trace b.
Proof. reflexivity. Qed.
Lemma go_diags_fx_deployed c b all others : go_diags_fx c Scope.deployed b all others = go_diags c b all others.
Proof. reflexivity. Qed.

(* class multi_local_order, REPAIRED (fixes/C07-multi-local-order.diff): `local a, b = 1, a`.  The code before the repair
   (`Scope.no_fixes`) reported nothing; the code now in /repo reports what the reference demands: a is unused (type 4)
   and the a of the initialiser is an undefined global (type 2) *)
Lemma multi_local_witness :
  forall gbk : list N -> Z, exists b,
    parse_file gbk w_multi = PFile b /\ in_fragment b = true /\ pos_clean b = true /\ multi_local_order b = true /\
    go_diags_fx demo_cfg Scope.no_fixes b [] [] = [] /\
    diag_mem (4, L 1 6 1 7) (spec_diags demo_cfg b []) = true /\
    diag_mem (2, L 1 16 1 17) (spec_diags demo_cfg b []) = true /\
    diag_mem (4, L 1 6 1 7) (go_diags demo_cfg b [] []) = true /\
    diag_mem (2, L 1 16 1 17) (go_diags demo_cfg b [] []) = true /\
    length (go_diags demo_cfg b [] []) = length (spec_diags demo_cfg b []).
Proof. intro gbk. exists b_multi. crunch. Qed.

(* unvisited_local_surplus, REPAIRED (fixes/C20-local-surplus.diff): "local c = 5\nlocal d = 1, 2, c, u\nprint(d)\n".
   The code before the repair (`Scope.before_surplus`) left the loop over the initialisers after `2` (the first one beyond
   the names): the read of c was never seen - c reported "declared and not used" (type 4) - and neither was the undefined
   global u (type 2 missing).  The code now in /repo reports exactly what the reference demands. *)
Definition w_surplus : list N :=
  [108; 111; 99; 97; 108; 32; 99; 32; 61; 32; 53; 10; 108; 111; 99; 97; 108; 32; 100; 32; 61; 32; 49; 44; 32; 50; 44; 32; 99; 44;
   32; 117; 10; 112; 114; 105; 110; 116; 40; 100; 41; 10].
Definition b_surplus : block := Eval vm_compute in block_of w_surplus.
Lemma surplus_witness :
  forall gbk : list N -> Z, exists b,
    parse_file gbk w_surplus = PFile b /\ in_fragment b = true /\ pos_clean b = true /\
    go_diags_fx demo_cfg Scope.before_surplus b [] [] = [(4, L 1 6 1 7)] /\
    spec_diags demo_cfg b [] = [(2, L 2 19 2 20)] /\
    go_diags demo_cfg b [] [] = [(2, L 2 19 2 20)].
Proof. intro gbk. exists b_surplus. crunch. Qed.

Lemma pos_filter_witness :
  forall gbk : list N -> Z, exists b,
    parse_file gbk w_pos = PFile b /\ in_fragment b = true /\ multi_local_order b = false /\ pos_clean b = false /\
    spec_diags demo_cfg b [] = [] /\
    diag_mem (4, L 1 27 1 31) (go_diags demo_cfg b [] []) = true /\
    diag_mem (2, L 1 7 1 11) (go_diags demo_cfg b [] []) = true.
Proof. intro gbk. exists b_pos. crunch. Qed.

(* class later_elsewhere, REPAIRED (fixes/C07-later-elsewhere.diff): "print(g)\ng = 2\n" while another file defines g
   too.  The code before the repair (`Scope.before_later_else`) reported the read as a load-order error (type 3); the
   code now in /repo asks the other files first and reports nothing - what the reference demands *)
Lemma later_elsewhere_witness :
  forall gbk : list N -> Z, exists b,
    parse_file gbk w_later = PFile b /\ in_fragment b = true /\ pos_clean b = true /\
    later_elsewhere demo_cfg b [[103]] = true /\
    go_diags_fx demo_cfg Scope.before_later_else b [[103]; [103]] [[103]] = [(3, L 1 6 1 7)] /\
    spec_diags demo_cfg b [[103]] = [] /\
    go_diags demo_cfg b [[103]; [103]] [[103]] = [] /\
    (* no other file defines g: the load-order error stays, as the reference demands *)
    go_diags demo_cfg b [[103]] [] = [(3, L 1 6 1 7)] /\ spec_diags demo_cfg b [] = [(3, L 1 6 1 7)].
Proof. intro gbk. exists b_later. crunch. Qed.

Lemma guard_witness :
  forall gbk : list N -> Z, exists b,
    parse_file gbk w_ok = PFile b /\ in_fragment b = true /\ pos_clean b = true /\
    go_diags demo_cfg b [] [] = [(2, L 4 6 4 7)] /\ spec_diags demo_cfg b [] = [(2, L 4 6 4 7)].
Proof. intro gbk. exists b_ok. crunch. Qed.
