(* Position resolver = Lua's binder, part 6: the main induction.  For every occurrence o of the reference binder in
   a laid-out core program and every cursor column on it, FindMinScope's chain on the SKELETON tree covers the
   binder's environment at o and (for an untagged o) FindLocVar along it returns what the environment binds. *)
From Coq Require Import List NArith ZArith Bool Lia.
From LH Require Import Base.Bytes Model.Lexer Model.Ast Model.Scope Model.Globals Model.Resolve Spec.LuaScope
  Proofs.PositionBindBase Proofs.PositionBindKeys Proofs.PositionBindFacts Proofs.PositionBindLook Proofs.PositionBindPos
  Proofs.PositionBindLocal.
Import ListNotations.
Local Open Scope Z_scope.

Lemma loc_eqb_refl' l : loc_eqb l l = true.
Proof. unfold loc_eqb. rewrite !Z.eqb_refl. reflexivity. Qed.
Lemma binding_eqb_refl b : binding_eqb b b = true.
Proof. destruct b; cbn; [apply loc_eqb_refl'|apply beq_bytes_refl']. Qed.

Definition bindok (o : socc) : Prop :=
  if is_decl (s_role o) then s_bind o = BLocal (s_loc o) else s_bind o = resolve (s_env o) (s_name o).

Lemma bindok_retag o0 o : retag o0 o -> bindok o0 -> bindok o.
Proof. intros (Hl & Hn & Hb & Hr & _ & He & _). unfold bindok. rewrite Hr, Hb, Hl, He, Hn. auto. Qed.

Lemma outer_use_of_none en ien o :
  bindok o -> is_decl (s_role o) = false -> s_env o = ien ++ en -> env_find ien (s_name o) = None -> outer_use en o = true.
Proof.
  unfold bindok, outer_use. intros Hb Hd He Hn. rewrite Hd in *. cbn [negb andb]. rewrite Hb, He.
  unfold resolve, env_find in *. rewrite find_app, Hn. apply binding_eqb_refl.
Qed.

Lemma MG_drop_mid W x y z : MG W (x ++ y ++ z) -> MG W (x ++ z).
Proof.
  intros [Hf Hg]. split.
  - apply Forall_app in Hf. destruct Hf as [Hx Hyz]. apply Forall_app in Hyz. destruct Hyz as [_ Hz]. apply Forall_app. auto.
  - intros a b E p q Hp Hq. apply app_eq_app in E. destruct E as (l & [[E1 E2]|[E1 E2]]).
    + (* x = a ++ l, b = l ++ z *) subst x b. apply (Hg a (l ++ y ++ z)); [rewrite <- app_assoc; reflexivity|exact Hp|].
      apply in_app_or in Hq. apply in_or_app. destruct Hq as [Hq|Hq]; [left; exact Hq|right; apply in_or_app; right; exact Hq].
    + (* a = x ++ l, z = l ++ b *) subst a z. apply (Hg (x ++ y ++ l) b); [rewrite <- !app_assoc; reflexivity| |exact Hq].
      apply in_app_or in Hp. apply in_or_app. destruct Hp as [Hp|Hp]; [left; exact Hp|right; apply in_or_app; right; exact Hp].
Qed.

Lemma MG_flat_map_in {X} W (m : X -> list mark) l x : MG W (flat_map m l) -> In x l -> MG W (m x).
Proof.
  intros H Hin. apply in_split in Hin. destruct Hin as (a & b & E). subst l.
  rewrite flat_map_app in H. cbn [flat_map] in H. destruct (MG_app W _ _ H) as (_ & H2 & _).
  destruct (MG_app W _ _ H2) as (H3 & _ & _). exact H3.
Qed.

Lemma MG_open_close W l mid : MG W (MOpen l :: mid ++ [MClose l]) -> MG W mid.
Proof. intros H. destruct (MG_cons W _ _ H) as (H2 & _ & _). destruct (MG_app W _ _ H2) as (H3 & _ & _). exact H3. Qed.

Lemma combine_snd_prefix {X Y} (a : list X) : forall (b : list Y), exists rest, b = map snd (combine a b) ++ rest.
Proof.
  induction a as [|x a' IH]; intros b; [exists b; reflexivity|]. destruct b as [|y b']; [exists []; reflexivity|].
  destruct (IH b') as (rest & E). exists rest. cbn [combine map snd app]. rewrite <- E. reflexivity.
Qed.

Lemma plain_env ps pl : map ent (plain_vars ps pl) = combine (combine ps pl) (map (fun _ => false) (combine ps pl)).
Proof. unfold plain_vars. induction (combine ps pl) as [|[x1 x2] r IH]; [reflexivity|]. cbn [map combine]. rewrite IH. reflexivity. Qed.

Lemma plain_env_push en ps pl :
  push_decls en (combine ps pl) (map (fun _ => false) (combine ps pl)) = map ent (rev (plain_vars ps pl)) ++ en.
Proof. rewrite push_decls_eq, map_rev, plain_env. reflexivity. Qed.

Lemma has_func_sk : (forall e, core_e e -> has_func e = false -> sk_exp e = []) /\ (forall s, core_s s -> True) /\ (forall b, core_b b -> True).
Proof.
  apply core_ind3; try (intros; exact I).
  - intros e Ha _ _. destruct e; try contradiction; reflexivity.
  - intros o x l _ IH H. exact (IH H).
  - intros o a b l _ _ IHa IHb H. cbn [has_func] in H. apply orb_false_iff in H. destruct H as [H1 H2].
    cbn [sk_exp]. rewrite (IHa H1), (IHb H2). reflexivity.
  - intros x l _ IH H. exact (IH H).
  - intros n ln args l _ _ IH H. cbn [has_func orb] in H. cbn [sk_exp app].
    induction IH as [|a r Ha Hr IHr]; [reflexivity|]. cbn [existsb] in H. apply orb_false_iff in H. destruct H as [H1 H2].
    cbn [flat_map]. rewrite (Ha H1), (IHr H2). reflexivity.
  - intros f ps pl b l va _ _ _ H. discriminate.
Qed.

Lemma exps_scm es : Forall core_e es -> Forall (scm (flat_map m2_exp es)) (flat_map sk_exp es).
Proof.
  intros H. apply Forall_flat_map_scm. eapply Forall_impl; [|exact H]. intros e He. apply (proj1 sk_marks e He).
Qed.

Section Main.
  Variable W : Z.
  Hypothesis HW : 0 < W.
  Variable line col : Z.
  Hypothesis Hcol : 0 <= col < W.
  Variable n : list N.

  Notation K := (K W line col).
  Notation pl := (pl line col).
  Notation CUR := (CUR W line col).
  Notation hit := (hit line col n).
  Notation before := (before W line col).
  Notation okhit := (okhit line col n).
  Notation passes := (passes line col).
  Notation notin := (notin line col).
  Notation Concl := (Concl W line col n).
  Notation at_cur := (at_cur line col).
  Notation EnvC := (EnvC W line col n).

  Definition CC (ms : list mark) (sks : list scope) (f : list ventry) (en : env) (o : socc) : Prop :=
    bindok o /\ Concl ms sks f en o.

  Lemma cc_cur ms sks f en o : MG W ms -> CC ms sks f en o -> at_cur o -> CUR (s_loc o).
  Proof.
    intros HM [_ [[Hs _] _]] [H1 H2]. apply (cur_keys W line col); auto. exact (MG_in W _ _ HM Hs).
  Qed.

  Lemma cc_mono ms ms' sks f en o : incl ms ms' -> CC ms sks f en o -> CC ms' sks f en o.
  Proof. intros Hi [Hb Hc]. split; [exact Hb|eapply concl_mono; eauto]. Qed.

  Lemma cc_retag ms sks f en o0 o : retag o0 o -> CC ms sks f en o0 -> CC ms sks f en o.
  Proof. intros Hr [Hb Hc]. split; [eapply bindok_retag; eauto|eapply concl_retag; eauto]. Qed.

  Lemma cc_feq ms sks f f' en o : f = f' -> CC ms sks f en o -> CC ms sks f' en o.
  Proof. intros ->. auto. Qed.
  Lemma cc_seq ms sks sks' f en o : sks = sks' -> CC ms sks f en o -> CC ms sks' f en o.
  Proof. intros ->. auto. Qed.

  Lemma cc_left ma mb ska skb f en o :
    MG W (ma ++ mb) -> CC ma ska f en o -> at_cur o -> Forall (scm mb) skb -> CC (ma ++ mb) (ska ++ skb) f en o.
  Proof.
    intros HM Hcc Hat Hs. destruct (MG_app W _ _ HM) as (Ha & Hb & Hc).
    pose proof (cc_cur _ _ _ _ _ Ha Hcc Hat) as Hcur. destruct Hcc as [Hbo Hco].
    split; [exact Hbo|]. apply (concl_mono W line col n ma); [apply incl_appl; apply incl_refl|].
    pose proof (concl_embed W line col n ma ska f en o [] skb Hco (Forall_nil _)) as H. cbn [app] in H. apply H.
    destruct Hco as [[_ He] _].
    apply (notin_from_after W HW line col Hcol ma mb (s_loc o)); auto. intros m Hm. exact (MG_in W _ _ Hb Hm).
  Qed.

  Lemma cc_right ma mb ska skb f en o :
    MG W (ma ++ mb) -> CC mb skb f en o -> at_cur o -> Forall (scm ma) ska -> CC (ma ++ mb) (ska ++ skb) f en o.
  Proof.
    intros HM Hcc Hat Hs. destruct (MG_app W _ _ HM) as (Ha & Hb & Hc).
    pose proof (cc_cur _ _ _ _ _ Hb Hcc Hat) as Hcur. destruct Hcc as [Hbo Hco].
    split; [exact Hbo|]. apply (concl_mono W line col n mb); [apply incl_appr; apply incl_refl|].
    pose proof (concl_embed W line col n mb skb f en o ska [] Hco) as H. rewrite app_nil_r in H. apply H; [|constructor].
    destruct Hco as [[Hs0 _] _].
    apply (passes_from W HW line col Hcol ma mb (s_loc o)); auto. intros m Hm. exact (MG_in W _ _ Ha Hm).
  Qed.

  Lemma cc_wrap l mid sks f en o :
    MG W (MOpen l :: mid ++ [MClose l]) -> CC mid sks f en o -> at_cur o ->
    CC (MOpen l :: mid ++ [MClose l]) [Scope l f sks] [] en o.
  Proof.
    intros HM Hcc Hat. pose proof (cc_cur _ _ _ _ _ (MG_open_close W _ _ HM) Hcc Hat) as Hcur.
    destruct Hcc as [Hbo Hco]. split; [exact Hbo|].
    destruct (open_close_cur W line col l mid (s_loc o) HM (proj1 Hco) Hcur) as [Hcl Hok].
    apply (concl_mono W line col n mid); [intros m Hm; right; apply in_or_app; left; exact Hm|].
    apply (concl_wrap W HW line col Hcol n); assumption.
  Qed.

  Lemma cc_ext ms sks f en o earlier later :
    CC ms sks f (map ent earlier ++ en) o ->
    Forall (fun v => hit v = false) later -> Forall before earlier -> Forall okhit earlier ->
    CC ms sks (later ++ f ++ earlier) en o.
  Proof. intros [Hb Hc] H1 H2 H3. split; [exact Hb|]. apply concl_ext; assumption. Qed.

  Lemma EnvC_leaf en o : is_decl (s_role o) = false -> s_env o = en -> EnvC en o [[]].
  Proof.
    intros Hd He. unfold PositionBindLook.EnvC. rewrite Hd. exists []. split; [exact He|]. split.
    - intros x [].
    - intros _. reflexivity.
  Qed.

  Lemma EnvC_cons_nohit en o g ch : Forall (fun v => hit v = false) g -> EnvC en o ch -> EnvC en o (g :: ch).
  Proof.
    intros Hg. unfold PositionBindLook.EnvC, selffound, LOOK. destruct (is_decl (s_role o)).
    - intros (v & Hf & Hl). exists v. split; [|exact Hl]. cbn [find_loc_var].
      assert (E : find (var_hit n pl) g = None) by (apply find_none_all; exact Hg). rewrite E. exact Hf.
    - intros (ien & He & Hc & Hk). exists ien. split; [exact He|]. split.
      + intros x Hx. destruct (Hc x Hx) as (f & v & Hf & Hr). exists f, v. split; [right; exact Hf|exact Hr].
      + intros Ht. specialize (Hk Ht). cbn [find_loc_var].
        assert (E : find (var_hit n pl) g = None) by (apply find_none_all; exact Hg). rewrite E. exact Hk.
  Qed.

  Definition Pe (e : exp) : Prop :=
    forall flv slv reg en o, MG W (m2_exp e) -> In o (b_exp flv slv reg e en) -> at_cur o -> s_name o = n ->
      CC (m2_exp e) (sk_exp e) [] en o.
  Definition Ps (s : stat) : Prop :=
    forall flv slv reg en o, MG W (m2_stat s) -> In o (snd (b_stat flv slv reg s en)) -> at_cur o -> s_name o = n ->
      CC (m2_stat s) (snd (sk_stat s)) (fst (sk_stat s)) en o.
  Definition Pb (b : block) : Prop :=
    forall flv slv reg en o, MG W (m2_block b) -> In o (snd (b_block flv slv reg b en)) -> at_cur o -> s_name o = n ->
      CC (m2_block b) (snd (sk_block b)) (fst (sk_block b)) en o.

  (* ---- a list of expressions *)
  Lemma exps_at es : Forall core_e es -> Forall Pe es ->
    forall flv slv reg en e o, In e es -> In o (b_exp flv slv reg e en) -> MG W (flat_map m2_exp es) -> at_cur o -> s_name o = n ->
    CC (flat_map m2_exp es) (flat_map sk_exp es) [] en o /\ idm (s_loc o) (m2_exp e) /\ MG W (m2_exp e).
  Proof.
    intros Hcore Hpe flv slv reg en e o Hin Ho HM Hat Hn.
    apply in_split in Hin. destruct Hin as (A & B & E). subst es.
    apply Forall_app in Hcore. destruct Hcore as [HcA HcB]. inversion HcB as [|? ? Hce HcB']; subst.
    apply Forall_app in Hpe. destruct Hpe as [_ HpB]. inversion HpB as [|? ? Hp _]; subst.
    rewrite !flat_map_app in *. cbn [flat_map] in *.
    destruct (MG_app W _ _ HM) as (_ & HM2 & _). destruct (MG_app W _ _ HM2) as (HMe & _ & _).
    pose proof (Hp flv slv reg en o HMe Ho Hat Hn) as Hcc.
    split; [|split; [exact (proj1 (proj2 Hcc))|exact HMe]].
    apply cc_right; [exact HM| |exact Hat|apply exps_scm; exact HcA].
    apply cc_left; [exact HM2|exact Hcc|exact Hat|apply exps_scm; exact HcB'].
  Qed.

  Lemma exps_in es : Forall core_e es -> Forall Pe es ->
    forall flv slv reg en o, In o (flat_map (fun e => b_exp flv slv reg e en) es) -> MG W (flat_map m2_exp es) ->
    at_cur o -> s_name o = n -> CC (flat_map m2_exp es) (flat_map sk_exp es) [] en o.
  Proof.
    intros Hc Hp flv slv reg en o Hin HM Hat Hn. apply in_flat_map in Hin. destruct Hin as (e & He & Ho).
    exact (proj1 (exps_at es Hc Hp flv slv reg en e o He Ho HM Hat Hn)).
  Qed.

  (* ---- leaves *)
  Lemma name_cc flv slv reg en n0 l k : at_cur (mkS l n0 (resolve en n0) k flv slv reg false [] en) -> is_decl k = false ->
    CC (id_marks l) [] [] en (mkS l n0 (resolve en n0) k flv slv reg false [] en).
  Proof.
    intros Hat Hk. split; [unfold bindok; cbn; rewrite Hk; reflexivity|].
    apply concl_leaf; [apply id_marks_idm|constructor|]. apply EnvC_leaf; [exact Hk|reflexivity].
  Qed.

  (* ---- a declared name under the cursor among the parameters / loop names *)
  Lemma plain_decl_found ps pls p lp later :
    MG W (flat_map id_marks pls) -> In (p, lp) (combine ps pls) -> beq_bytes p n = true -> CUR lp ->
    Forall (fun v => hit v = false) later ->
    exists v, find hit (later ++ rev (plain_vars ps pls)) = Some v /\ v_loc v = lp.
  Proof.
    intros HM Hin Hp Hcur Hl.
    set (v0 := mkV p lp RNone false).
    assert (Hv0 : In v0 (plain_vars ps pls)).
    { unfold plain_vars. apply in_map_iff. exists (p, lp). split; [reflexivity|exact Hin]. }
    assert (Hlocs : map v_loc (plain_vars ps pls) = map snd (combine ps pls)).
    { unfold plain_vars. rewrite map_map. reflexivity. }
    destruct (combine_snd_prefix ps pls) as (rest & Er).
    rewrite Er, flat_map_app in HM. destruct (MG_app W _ _ HM) as (HM1 & _ & _).
    destruct (decl_self W HW line col Hcol n (plain_vars ps pls) v0) as (inv & rs & Erev & Hinv).
    - rewrite Hlocs. exact (proj2 HM1).
    - rewrite Hlocs. intros m Hm. exact (MG_in W _ _ HM1 Hm).
    - exact Hv0.
    - exact Hcur.
    - assert (Hm : mark_ok W (MIdS lp) = true).
      { apply (MG_in W _ _ HM1). apply in_flat_map. exists lp. split; [|left; reflexivity].
        apply (in_map snd) in Hin. exact Hin. }
      destruct (ids_ok W lp Hm) as (_ & _ & Hck).
      assert (Hhit : hit v0 = true).
      { unfold PositionBindLook.hit, var_hit. unfold v0 at 1. cbn [v_name]. rewrite Hp. cbn [andb].
        apply (icp_before W HW line col Hcol v0); [apply (cok_bounds W _ Hck)|exact (proj1 Hcur)|exact I|reflexivity]. }
      exists v0. split; [|reflexivity]. rewrite Erev, find_app, (find_none_all _ _ Hl), find_app, (find_none_all _ _ Hinv).
      cbn [find]. rewrite Hhit. reflexivity.
  Qed.

  Lemma idm_in_ids l (ls : list loc) : In l ls -> idm l (flat_map id_marks ls).
  Proof. intros H. eapply idm_mono; [apply (incl_flat_map_in id_marks ls l H)|apply id_marks_idm]. Qed.

  (* ---- expressions *)
  Lemma case_call na ln args l :
    Forall core_e args -> Forall Pe args -> Pe (ECall (EName na ln) None args l).
  Proof.
    intros Hc Hp flv slv reg en o HM Hin Hat Hn. cbn [m2_exp id_marks] in HM |- *. cbn [sk_exp app].
    set (M := flat_map m2_exp args) in *.
    destruct (MG_cons W _ _ HM) as (HM1 & _ & _).
    change (MIdS ln :: MIdE ln :: M ++ [MClose l]) with (id_marks ln ++ M ++ [MClose l]) in HM1.
    rewrite app_assoc in HM1. destruct (MG_app W _ _ HM1) as (HM2 & _ & _).
    assert (Hincl : incl (id_marks ln ++ M) (MOpen l :: MIdS ln :: MIdE ln :: M ++ [MClose l])).
    { intros m Hm. right. change (In m (id_marks ln ++ M ++ [MClose l])). rewrite app_assoc. apply in_or_app. left. exact Hm. }
    apply (cc_mono _ _ _ _ _ _ Hincl).
    cbn [b_exp app] in Hin. destruct Hin as [E|Hin].
    - subst o. apply (cc_left (id_marks ln) M [] (flat_map sk_exp args)); [exact HM2| |exact Hat|apply exps_scm; exact Hc].
      apply name_cc; [exact Hat|reflexivity].
    - destruct (MG_app W _ _ HM2) as (_ & HM3 & _).
      apply (cc_right (id_marks ln) M [] (flat_map sk_exp args)); [exact HM2| |exact Hat|constructor].
      apply (exps_in args Hc Hp flv slv reg en o Hin HM3 Hat Hn).
  Qed.

  Lemma case_func f ps pls b l va : core_b b -> Pb b -> Pe (EFunc [] f ps pls b l va false).
  Proof.
    intros Hcb Hpb flv slv reg en o HM Hin Hat Hn. cbn [m2_exp sk_exp] in HM |- *.
    set (IDS := flat_map id_marks pls) in *. set (MB := m2_block b) in *.
    rewrite app_assoc in HM |- *.
    pose proof (MG_open_close W _ _ HM) as HMid. destruct (MG_app W _ _ HMid) as (HMi & HMb & Hcross).
    destruct (proj2 (proj2 sk_marks) b Hcb) as [Hscm Hvm]. fold MB in Hscm, Hvm.
    cbn [b_exp] in Hin. apply in_app_or in Hin. destruct Hin as [Hin|Hin].
    - (* a parameter *)
      apply in_map_iff in Hin. destruct Hin as ([p lp] & E & Hin). subst o. cbn [s_name decl_occ fst] in Hn.
      assert (Hlp : In lp pls) by (apply in_combine_r in Hin; exact Hin).
      assert (Hidm : idm lp IDS) by (apply idm_in_ids; exact Hlp).
      assert (Hcur : CUR lp).
      { destruct Hat as [H1 H2]. apply (cur_keys W line col); auto. apply (MG_in W _ _ HMi). exact (proj1 Hidm). }
      destruct (open_close_cur W line col l (IDS ++ MB) lp HM) as [Hcl Hok];
        [eapply idm_mono; [apply incl_appl; apply incl_refl|exact Hidm]|exact Hcur|].
      assert (Hlater : Forall (fun v => hit v = false) (fst (sk_block b))).
      { apply (vars_after W HW line col Hcol n IDS MB lp); auto; [intros m Hm; exact (MG_in W _ _ HMb Hm)|exact (proj2 Hidm)|apply vm_idm; exact Hvm]. }
      destruct (plain_decl_found ps pls p lp (fst (sk_block b)) HMi Hin) as (v & Hfv & Hlv); auto.
      { apply beq_bytes_eq. exact Hn. }
      split; [reflexivity|]. split.
      + cbn [s_loc decl_occ snd]. eapply idm_mono; [|exact Hidm]. intros m Hm. right. apply in_or_app. left. apply in_or_app. left. exact Hm.
      + intros pre post Hpre Hpost. exists [fst (sk_block b) ++ rev (plain_vars ps pls)]. split.
        * right. eexists. split; [apply (scan_single W HW line col Hcol); [exact Hpre|exact (proj1 Hcl)|exact (proj2 Hcl)|exact Hok]|].
          apply path_here. apply scan_none_notin.
          apply (notin_from_after W HW line col Hcol IDS MB lp); auto; [intros m Hm; exact (MG_in W _ _ HMb Hm)|exact (proj2 Hidm)].
        * unfold PositionBindLook.EnvC. cbn [s_role decl_occ is_decl s_loc snd]. exists v. split; [|exact Hlv].
          cbn [app find_loc_var].
          assert (E : find (var_hit n pl) (fst (sk_block b) ++ rev (plain_vars ps pls)) = Some v) by exact Hfv.
          rewrite E. reflexivity.
    - (* the body *)
      rewrite plain_env_push in Hin.
      pose proof (Hpb (flv + 1) 0 l _ o HMb Hin Hat Hn) as Hcc.
      pose proof (cc_cur _ _ _ _ _ HMb Hcc Hat) as Hcur.
      destruct (vars_before W HW line col Hcol n IDS MB (s_loc o) (rev (plain_vars ps pls))) as [Hb Ho]; auto.
      { intros m Hm. exact (MG_in W _ _ HMi Hm). }
      { exact (proj1 (proj1 (proj2 Hcc))). }
      { apply Forall_rev. apply plain_vars_vm. apply incl_refl. }
      pose proof (cc_ext _ _ _ _ _ _ [] Hcc (Forall_nil _) Hb Ho) as Hcc2. cbn [app] in Hcc2.
      apply cc_wrap; [exact HM| |exact Hat].
      apply (cc_mono MB); [apply incl_appr; apply incl_refl|exact Hcc2].
  Qed.

  (* ---- statements that open one scope around a block *)
  Lemma block_scope_cc b l flv slv reg en o :
    core_b b -> Pb b -> MG W (MOpen l :: m2_block b ++ [MClose l]) ->
    In o (snd (b_block flv slv reg b en)) -> at_cur o -> s_name o = n ->
    CC (MOpen l :: m2_block b ++ [MClose l]) [Scope l (fst (sk_block b)) (snd (sk_block b))] [] en o.
  Proof.
    intros Hcb Hpb HM Hin Hat Hn. apply cc_wrap; [exact HM| |exact Hat].
    exact (Hpb flv slv reg en o (MG_open_close W _ _ HM) Hin Hat Hn).
  Qed.

  Lemma case_do b l : core_b b -> Pb b -> Ps (SDo b l).
  Proof.
    intros Hcb Hpb flv slv reg en o HM Hin Hat Hn. cbn [m2_stat sk_stat fst snd b_stat] in *.
    apply (block_scope_cc b l flv (slv + 1) l en o); assumption.
  Qed.

  Definition m2_br (b : block) : list mark := MOpen (block_loc b) :: m2_block b ++ [MClose (block_loc b)].
  Definition sk_br (b : block) : list scope := [Scope (block_loc b) (fst (sk_block b)) (snd (sk_block b))].

  Lemma zip_scm es : Forall core_e es -> forall bs, Forall core_b bs ->
    Forall (scm (zip_if (map m2_exp es) (map m2_br bs))) (zip_if (map sk_exp es) (map sk_br bs)).
  Proof.
    intros Hes. induction Hes as [|e r He Hr IH]; intros bs Hbs; [constructor|].
    destruct Hbs as [|b rb Hb Hrb]; [constructor|]. cbn [map zip_if].
    apply Forall_app. split; [eapply scm_mono; [apply incl_appl; apply incl_refl|apply (proj1 sk_marks e He)]|].
    apply Forall_app. split.
    - constructor; [|constructor]. split; cbn [scope_loc]; apply in_or_app; right; apply in_or_app; left.
      + left. reflexivity.
      + right. apply in_or_app. right. left. reflexivity.
    - eapply scm_mono; [|apply IH; exact Hrb]. apply incl_appr. apply incl_appr. apply incl_refl.
  Qed.

  Lemma if_at es : Forall core_e es -> Forall Pe es -> forall bs, Forall core_b bs -> Forall Pb bs ->
    forall flv slv reg en o,
    MG W (zip_if (map m2_exp es) (map m2_br bs)) ->
    In o (flat_map (fun e => b_exp flv slv reg e en) es) \/
    In o (flat_map (fun b => snd (b_block flv (slv + 1) (block_loc b) b en)) bs) ->
    length es = length bs -> at_cur o -> s_name o = n ->
    CC (zip_if (map m2_exp es) (map m2_br bs)) (zip_if (map sk_exp es) (map sk_br bs)) [] en o.
  Proof.
    intros Hces Hpes. induction Hces as [|e r Hce Hcr IH]; intros bs Hcbs Hpbs flv slv reg en o HM Hin Hlen Hat Hn.
    - destruct bs; [|discriminate]. cbn in Hin. tauto.
    - inversion Hpes as [|? ? Hpe Hpr]; subst.
      destruct Hcbs as [|b rb Hcb Hcrb]; [discriminate|]. inversion Hpbs as [|? ? Hpb Hprb]; subst.
      cbn [map zip_if flat_map] in *.
      destruct (MG_app W _ _ HM) as (HMe & HM2 & _). destruct (MG_app W _ _ HM2) as (HMb & HMr & _).
      assert (Hs2 : Forall (scm (m2_br b ++ zip_if (map m2_exp r) (map m2_br rb))) (sk_br b ++ zip_if (map sk_exp r) (map sk_br rb))).
      { pose proof (zip_scm r Hcr rb Hcrb) as Hzr.
        apply Forall_app. split.
        - constructor; [|constructor]. split; cbn [scope_loc]; apply in_or_app; left; unfold m2_br.
          + left. reflexivity.
          + right. apply in_or_app. right. left. reflexivity.
        - eapply scm_mono; [apply incl_appr; apply incl_refl|exact Hzr]. }
      assert (Hsb : Forall (scm (m2_br b)) (sk_br b)).
      { constructor; [|constructor]. split; cbn [scope_loc]; unfold m2_br; [left; reflexivity|].
        right. apply in_or_app. right. left. reflexivity. }
      assert (Hcase : In o (b_exp flv slv reg e en) \/ In o (snd (b_block flv (slv + 1) (block_loc b) b en)) \/
                      (In o (flat_map (fun e => b_exp flv slv reg e en) r) \/
                       In o (flat_map (fun b => snd (b_block flv (slv + 1) (block_loc b) b en)) rb))).
      { destruct Hin as [Hin|Hin]; apply in_app_or in Hin; tauto. }
      destruct Hcase as [Ho|[Ho|Ho]].
      + apply cc_left; [exact HM|exact (Hpe flv slv reg en o HMe Ho Hat Hn)|exact Hat|exact Hs2].
      + apply cc_right; [exact HM| |exact Hat|exact (proj1 sk_marks e Hce)].
        apply cc_left; [exact HM2| |exact Hat|apply zip_scm; assumption].
        apply (block_scope_cc b (block_loc b) flv (slv + 1) (block_loc b) en o); assumption.
      + apply cc_right; [exact HM| |exact Hat|exact (proj1 sk_marks e Hce)].
        apply cc_right; [exact HM2| |exact Hat|exact Hsb].
        apply (IH Hpr rb Hcrb Hprb flv slv reg en o); auto.
  Qed.

  Lemma case_if es bs l : length es = length bs -> Forall core_e es -> Forall core_b bs -> Forall Pe es -> Forall Pb bs ->
    Ps (SIf es bs l).
  Proof.
    intros Hlen Hce Hcb Hpe Hpb flv slv reg en o HM Hin Hat Hn. cbn [m2_stat sk_stat fst snd b_stat] in *.
    apply in_app_or in Hin. apply (if_at es Hce Hpe bs Hcb Hpb flv slv reg en o HM Hin Hlen Hat Hn).
  Qed.

  Lemma scan_none_app a b : scan line col a = None ->
    scan line col (a ++ b) = None \/ scan line col (a ++ b) = scan line col b.
  Proof.
    induction a as [|x r IH]; intros H; [right; reflexivity|]. cbn [scan app] in *.
    destruct (el (scope_loc x) <? line); [auto|].
    destruct (in_location (scope_loc x) line col); [discriminate|].
    destruct (sl (scope_loc x) >? line); [left; reflexivity|auto].
  Qed.

  (* while: the condition is visited BEFORE the loop's scope is opened although the scope's Loc covers it *)
  Lemma case_while e b l : core_e e -> core_b b -> Pe e -> Pb b -> Ps (SWhile e b l).
  Proof.
    intros Hce Hcb Hpe Hpb flv slv reg en o HM Hin Hat Hn. cbn [m2_stat sk_stat fst snd b_stat] in *.
    set (ME := m2_exp e) in *. set (MB := m2_block b) in *.
    rewrite app_assoc in HM |- *.
    pose proof (MG_open_close W _ _ HM) as HMid. destruct (MG_app W _ _ HMid) as (HMe & HMb & Hcross).
    destruct (proj2 (proj2 sk_marks) b Hcb) as [Hscm Hvm]. fold MB in Hscm, Hvm.
    pose proof (proj1 sk_marks e Hce) as Hscme. fold ME in Hscme.
    apply in_app_or in Hin. destruct Hin as [Hin|Hin].
    - (* in the condition *)
      pose proof (Hpe flv slv reg en o HMe Hin Hat Hn) as Hcc.
      pose proof (cc_cur _ _ _ _ _ HMe Hcc Hat) as Hcur.
      destruct Hcc as [Hbo [Hidm Hco]]. split; [exact Hbo|]. split.
      { eapply idm_mono; [|exact Hidm]. intros m Hm. right. apply in_or_app. left. apply in_or_app. left. exact Hm. }
      destruct (open_close_cur W line col l (ME ++ MB) (s_loc o) HM) as [Hcl Hok];
        [eapply idm_mono; [apply incl_appl; apply incl_refl|exact Hidm]|exact Hcur|].
      intros pre post Hpre Hpost.
      destruct (Hco pre [] Hpre (Forall_nil _)) as (c & Hip & He). rewrite app_nil_r in Hip.
      set (Sw := Scope l (fst (sk_block b)) (snd (sk_block b))).
      assert (Eq : pre ++ (sk_exp e ++ [Sw]) ++ post = (pre ++ sk_exp e) ++ Sw :: post)
        by (rewrite <- !app_assoc; reflexivity).
      rewrite Eq.
      destruct Hip as [[Hs Hc]|(T & Hs & Hp)].
      + subst c.
        destruct (scan_none_app (pre ++ sk_exp e) (Sw :: post) Hs) as [Hn0|Hn1].
        * exists []. split; [|exact He]. left. split; [exact Hn0|reflexivity].
        * exists [fst (sk_block b)]. split.
          -- right. exists Sw. split.
             ++ rewrite Hn1.
                apply (scan_single W HW line col Hcol [] Sw post (Forall_nil _) (proj1 Hcl) (proj2 Hcl) Hok).
             ++ apply path_here. apply scan_none_notin.
                apply (notin_from_after W HW line col Hcol ME MB (s_loc o)); auto; [intros m Hm; exact (MG_in W _ _ HMb Hm)|exact (proj2 Hidm)].
          -- cbn [app]. apply EnvC_cons_nohit; [|exact He].
             apply (vars_after W HW line col Hcol n ME MB (s_loc o)); auto; [intros m Hm; exact (MG_in W _ _ HMb Hm)|exact (proj2 Hidm)|apply vm_idm; exact Hvm].
      + exists c. split; [|exact He]. right. exists T. split; [|exact Hp].
        apply scan_found. exact Hs.
    - (* in the body *)
      pose proof (Hpb flv (slv + 1) l en o HMb Hin Hat Hn) as Hcc.
      pose proof (cc_cur _ _ _ _ _ HMb Hcc Hat) as Hcur.
      assert (Hcc2 : CC (MOpen l :: (ME ++ MB) ++ [MClose l]) [Scope l (fst (sk_block b)) (snd (sk_block b))] [] en o).
      { apply cc_wrap; [exact HM| |exact Hat]. apply (cc_mono MB); [apply incl_appr; apply incl_refl|exact Hcc]. }
      destruct Hcc2 as [Hbo Hco]. split; [exact Hbo|].
      pose proof (concl_embed W line col n _ _ _ _ _ (sk_exp e) [] Hco) as H. rewrite app_nil_r in H. apply H; [|constructor].
      apply (passes_from W HW line col Hcol ME MB (s_loc o)); auto; [intros m Hm; exact (MG_in W _ _ HMe Hm)|].
      destruct Hcc as [_ [[Hs _] _]]. exact Hs.
  Qed.

  Lemma case_repeat b e l : core_b b -> core_e e -> Pb b -> Pe e -> Ps (SRepeat b e l).
  Proof.
    intros Hcb Hce Hpb Hpe flv slv reg en o HM Hin Hat Hn. cbn [m2_stat sk_stat fst snd b_stat] in *.
    set (ME := m2_exp e) in *. set (MB := m2_block b) in *.
    rewrite app_assoc in HM |- *.
    pose proof (MG_open_close W _ _ HM) as HMid. destruct (MG_app W _ _ HMid) as (HMb & HMe & Hcross).
    destruct (proj2 (proj2 sk_marks) b Hcb) as [Hscm Hvm]. fold MB in Hscm, Hvm.
    pose proof (proj1 sk_marks e Hce) as Hscme. fold ME in Hscme.
    pose proof (proj2 (proj2 env_after) b Hcb flv (slv + 1) l en) as Henv.
    destruct (b_block flv (slv + 1) l b en) as [en1 os] eqn:Eb. cbn [fst snd] in Henv, Hin. subst en1.
    apply cc_wrap; [exact HM| |exact Hat].
    apply in_app_or in Hin. destruct Hin as [Hin|Hin].
    - apply cc_left; [exact HMid| |exact Hat|exact Hscme].
      apply (Hpb flv (slv + 1) l en o HMb); auto. rewrite Eb. exact Hin.
    - pose proof (Hpe flv (slv + 1) l _ o HMe Hin Hat Hn) as Hcc.
      pose proof (cc_cur _ _ _ _ _ HMe Hcc Hat) as Hcur.
      pose proof (cc_right MB ME (snd (sk_block b)) (sk_exp e) [] _ o HMid Hcc Hat Hscm) as Hcc2.
      destruct (vars_before W HW line col Hcol n MB ME (s_loc o) (fst (sk_block b))) as [Hb Ho]; auto.
      { intros m Hm. exact (MG_in W _ _ HMb Hm). }
      { exact (proj1 (proj1 (proj2 Hcc))). }
      pose proof (cc_ext _ _ _ _ _ _ [] Hcc2 (Forall_nil _) Hb Ho) as Hcc3. cbn [app] in Hcc3. exact Hcc3.
  Qed.

  Lemma cc_hidden ms sks f en o H :
    CC ms sks f en o ->
    (is_decl (s_role o) = false -> forall ien, s_env o = ien ++ en -> classB_ok o = true -> env_find ien n = None ->
                                    Forall (fun v => hit v = false) H) ->
    CC ms sks (f ++ H) en o.
  Proof. intros [Hb Hc] HH. split; [exact Hb|]. apply concl_hidden; assumption. Qed.

  Lemma nohit_name v : beq_bytes (v_name v) n = false -> hit v = false.
  Proof. intros H. unfold PositionBindLook.hit, var_hit. rewrite H. reflexivity. Qed.

  Lemma beq_bytes_sym a b : beq_bytes a b = beq_bytes b a.
  Proof.
    destruct (beq_bytes a b) eqn:E1; destruct (beq_bytes b a) eqn:E2; try reflexivity.
    - apply beq_bytes_eq in E1. subst b. rewrite beq_bytes_refl' in E2. discriminate.
    - apply beq_bytes_eq in E2. subst b. rewrite beq_bytes_refl' in E1. discriminate.
  Qed.

  (* the header + body + scope of a for loop, common part: an occurrence of the header *)
  Lemma for_header_cc HDR MB l sks b loopvars en o0 o (cnd : socc -> bool) :
    core_b b -> MB = m2_block b ->
    MG W (MOpen l :: (HDR ++ MB) ++ [MClose l]) ->
    CC HDR sks [] en o0 -> retag o0 o -> (s_cls o = [] -> cnd o0 = false) -> at_cur o -> s_name o = n ->
    (forall o1, outer_use en o1 = true -> cnd o1 = false -> s_name o1 = n -> Forall (fun v => hit v = false) loopvars) ->
    CC (MOpen l :: (HDR ++ MB) ++ [MClose l]) [Scope l (fst (sk_block b) ++ loopvars) (sks ++ snd (sk_block b))] [] en o.
  Proof.
    intros Hcb EMB HM Hcc0 Hrt Hcnd Hat Hn Hloop. subst MB.
    pose proof (MG_open_close W _ _ HM) as HMid. destruct (MG_app W _ _ HMid) as (HMh & HMb & Hcross).
    destruct (proj2 (proj2 sk_marks) b Hcb) as [Hscm Hvm].
    pose proof (cc_retag _ _ _ _ _ _ Hrt Hcc0) as Hcc.
    pose proof (cc_cur _ _ _ _ _ HMh Hcc Hat) as Hcur.
    apply cc_wrap; [exact HM| |exact Hat].
    pose proof (cc_left HDR (m2_block b) sks (snd (sk_block b)) [] en o HMid Hcc Hat Hscm) as Hcc2.
    assert (Hlater : Forall (fun v => hit v = false) (fst (sk_block b))).
    { apply (vars_after W HW line col Hcol n HDR (m2_block b) (s_loc o)); auto;
        [intros m Hm; exact (MG_in W _ _ HMb Hm)|exact (proj2 (proj1 (proj2 Hcc)))|apply vm_idm; exact Hvm]. }
    pose proof (cc_ext _ _ _ en _ [] (fst (sk_block b)) Hcc2 Hlater (Forall_nil _) (Forall_nil _)) as Hcc3.
    apply (cc_feq _ _ ((fst (sk_block b) ++ [] ++ []) ++ loopvars)); [rewrite !app_nil_r; reflexivity|].
    apply cc_hidden; [exact Hcc3|].
    intros Hd ien He Hcls Hnone. unfold classB_ok in Hcls. destruct (s_cls o) eqn:Ec; [|discriminate].
    destruct Hrt as (_ & _ & _ & _ & _ & _ & Heq). pose proof (Heq Ec) as E. subst o0.
    apply (Hloop o); auto.
    apply (outer_use_of_none en ien o (proj1 Hcc) Hd He). rewrite Hn. exact Hnone.
  Qed.

  (* ... an occurrence of the body *)
  Lemma for_body_cc HDR b l sks loopvars flv slv en o :
    core_b b -> Pb b ->
    MG W (MOpen l :: (HDR ++ m2_block b) ++ [MClose l]) ->
    In o (snd (b_block flv slv l b (map ent loopvars ++ en))) -> at_cur o -> s_name o = n ->
    Forall (scm HDR) sks -> Forall (vm HDR) loopvars ->
    CC (MOpen l :: (HDR ++ m2_block b) ++ [MClose l]) [Scope l (fst (sk_block b) ++ loopvars) (sks ++ snd (sk_block b))] [] en o.
  Proof.
    intros Hcb Hpb HM Hin Hat Hn Hsks Hlv.
    pose proof (MG_open_close W _ _ HM) as HMid. destruct (MG_app W _ _ HMid) as (HMh & HMb & Hcross).
    pose proof (Hpb flv slv l _ o HMb Hin Hat Hn) as Hcc.
    pose proof (cc_cur _ _ _ _ _ HMb Hcc Hat) as Hcur.
    apply cc_wrap; [exact HM| |exact Hat].
    pose proof (cc_right HDR (m2_block b) sks (snd (sk_block b)) _ _ o HMid Hcc Hat Hsks) as Hcc2.
    destruct (vars_before W HW line col Hcol n HDR (m2_block b) (s_loc o) loopvars) as [Hb Ho]; auto.
    { intros m Hm. exact (MG_in W _ _ HMh Hm). }
    { exact (proj1 (proj1 (proj2 Hcc))). }
    pose proof (cc_ext _ _ _ _ _ _ [] Hcc2 (Forall_nil _) Hb Ho) as Hcc3. cbn [app] in Hcc3. exact Hcc3.
  Qed.

  (* ... the declaration of a loop variable *)
  Lemma for_decl_cc HDR b l sks loopvars o v :
    core_b b -> MG W (MOpen l :: (HDR ++ m2_block b) ++ [MClose l]) ->
    is_decl (s_role o) = true -> s_bind o = BLocal (s_loc o) -> idm (s_loc o) HDR -> at_cur o ->
    Forall notin sks ->
    find hit (fst (sk_block b) ++ loopvars) = Some v -> v_loc v = s_loc o ->
    forall en, CC (MOpen l :: (HDR ++ m2_block b) ++ [MClose l]) [Scope l (fst (sk_block b) ++ loopvars) (sks ++ snd (sk_block b))] [] en o.
  Proof.
    intros Hcb HM Hd Hbind Hidm Hat Hsks Hfind Hvl en.
    pose proof (MG_open_close W _ _ HM) as HMid. destruct (MG_app W _ _ HMid) as (HMh & HMb & Hcross).
    destruct (proj2 (proj2 sk_marks) b Hcb) as [Hscm Hvm].
    assert (Hcur : CUR (s_loc o)).
    { destruct Hat as [H1 H2]. apply (cur_keys W line col); auto. apply (MG_in W _ _ HMh). exact (proj1 Hidm). }
    destruct (open_close_cur W line col l (HDR ++ m2_block b) (s_loc o) HM) as [Hcl Hok];
      [eapply idm_mono; [apply incl_appl; apply incl_refl|exact Hidm]|exact Hcur|].
    split; [unfold bindok; rewrite Hd; exact Hbind|]. split.
    - eapply idm_mono; [|exact Hidm]. intros m Hm. right. apply in_or_app. left. apply in_or_app. left. exact Hm.
    - intros pre post Hpre Hpost. exists [fst (sk_block b) ++ loopvars]. split.
      + right. eexists. split; [apply (scan_single W HW line col Hcol); [exact Hpre|exact (proj1 Hcl)|exact (proj2 Hcl)|exact Hok]|].
        apply path_here. apply scan_none_notin. apply Forall_app. split; [exact Hsks|].
        apply (notin_from_after W HW line col Hcol HDR (m2_block b) (s_loc o)); auto; [intros m Hm; exact (MG_in W _ _ HMb Hm)|exact (proj2 Hidm)].
      + unfold PositionBindLook.EnvC. rewrite Hd. exists v. split; [|exact Hvl].
        cbn [app find_loc_var].
        assert (E : find (var_hit n pl) (fst (sk_block b) ++ loopvars) = Some v) by exact Hfind.
        rewrite E. reflexivity.
  Qed.

  Lemma case_fornum n0 vl e1 e2 e3 b l :
    core_e e1 -> core_e e2 -> core_e e3 -> core_b b -> Pe e1 -> Pe e2 -> Pe e3 -> Pb b ->
    Ps (SForNum n0 vl e1 e2 e3 b l).
  Proof.
    intros Hc1 Hc2 Hc3 Hcb Hp1 Hp2 Hp3 Hpb flv slv reg en o HM Hin Hat Hn.
    cbn [m2_stat sk_stat fst snd b_stat] in *.
    set (M1 := m2_exp e1) in *. set (M2 := m2_exp e2) in *. set (M3 := m2_exp e3) in *. set (MB := m2_block b) in *.
    set (HDR := id_marks vl ++ M1 ++ M2 ++ M3).
    assert (EM : id_marks vl ++ M1 ++ M2 ++ M3 ++ MB ++ [MClose l] = (HDR ++ MB) ++ [MClose l])
      by (unfold HDR; rewrite <- !app_assoc; reflexivity).
    rewrite EM in HM |- *.
    pose proof (MG_open_close W _ _ HM) as HMid. destruct (MG_app W _ _ HMid) as (HMh & HMb & Hcross).
    pose proof HMh as HMh0. unfold HDR in HMh0.
    destruct (MG_app W _ _ HMh0) as (HMi & HMr1 & _). destruct (MG_app W _ _ HMr1) as (HM1 & HMr2 & _).
    destruct (MG_app W _ _ HMr2) as (HM2 & HM3 & _).
    pose proof (proj1 sk_marks e1 Hc1) as Hs1. pose proof (proj1 sk_marks e2 Hc2) as Hs2. fold M1 in Hs1. fold M2 in Hs2.
    pose proof (proj1 sk_marks e3 Hc3) as Hs3. fold M3 in Hs3.
    assert (Hs23 : Forall (scm (M2 ++ M3)) (sk_exp e2 ++ sk_exp e3)).
    { apply Forall_app. split; [eapply scm_mono; [apply incl_appl; apply incl_refl|exact Hs2]|
                                eapply scm_mono; [apply incl_appr; apply incl_refl|exact Hs3]]. }
    set (v := mkV n0 vl RNone false).
    rewrite (app_assoc (sk_exp e2) (sk_exp e3)), (app_assoc (sk_exp e1) (sk_exp e2 ++ sk_exp e3)).
    apply in_app_or in Hin. destruct Hin as [Hin|[Hin|Hin]].
    - (* the bounds *)
      apply in_tag_if in Hin. destruct Hin as (o0 & Hin0 & Hrt & Hcnd).
      assert (Hat0 : at_cur o0) by (destruct Hrt as (Hl & _); unfold PositionBindPos.at_cur in *; rewrite <- Hl; exact Hat).
      assert (Hn0 : s_name o0 = n) by (destruct Hrt as (_ & Hnm & _); rewrite <- Hnm; exact Hn).
      assert (Hcc0 : CC HDR (sk_exp e1 ++ sk_exp e2 ++ sk_exp e3) [] en o0).
      { unfold HDR. apply (cc_right (id_marks vl) _ [] _ [] en o0 HMh0); [|exact Hat0|constructor].
        apply in_app_or in Hin0. destruct Hin0 as [Hin0|Hin0]; [|apply in_app_or in Hin0; destruct Hin0 as [Hin0|Hin0]].
        - apply cc_left; [exact HMr1|exact (Hp1 flv slv reg en o0 HM1 Hin0 Hat0 Hn0)|exact Hat0|exact Hs23].
        - apply cc_right; [exact HMr1| |exact Hat0|exact Hs1].
          apply cc_left; [exact HMr2|exact (Hp2 flv slv reg en o0 HM2 Hin0 Hat0 Hn0)|exact Hat0|exact Hs3].
        - apply cc_right; [exact HMr1| |exact Hat0|exact Hs1].
          apply cc_right; [exact HMr2|exact (Hp3 flv slv reg en o0 HM3 Hin0 Hat0 Hn0)|exact Hat0|exact Hs2]. }
      apply (for_header_cc HDR MB l _ b [v] en o0 o (fun o => outer_use en o && beq_bytes (s_name o) n0) Hcb eq_refl HM Hcc0 Hrt Hcnd Hat Hn).
      intros o1 Hou Hc Hn1. rewrite Hou in Hc. cbn [andb] in Hc. constructor; [|constructor].
      apply nohit_name. cbn [v_name]. rewrite beq_bytes_sym, <- Hn1. exact Hc.
    - (* the loop variable *)
      subst o. cbn [s_name decl_occ fst] in Hn.
      assert (Hidm : idm vl HDR) by (eapply idm_mono; [apply incl_appl; apply incl_refl|apply id_marks_idm]).
      assert (Hcur : CUR vl).
      { destruct Hat as [H1 H2]. apply (cur_keys W line col); auto. apply (MG_in W _ _ HMh). exact (proj1 Hidm). }
      destruct (proj2 (proj2 sk_marks) b Hcb) as [Hscm Hvm]. fold MB in Hscm, Hvm.
      assert (Hlater : Forall (fun v => hit v = false) (fst (sk_block b))).
      { apply (vars_after W HW line col Hcol n HDR MB vl); auto; [intros m Hm; exact (MG_in W _ _ HMb Hm)|exact (proj2 Hidm)|apply vm_idm; exact Hvm]. }
      apply (for_decl_cc HDR b l _ [v] _ v Hcb HM); try reflexivity; auto.
      + apply (notin_from_after W HW line col Hcol (id_marks vl) (M1 ++ M2 ++ M3) vl); auto.
        * intros m Hm. exact (MG_in W _ _ HMr1 Hm).
        * exact (proj2 (proj2 (MG_app W _ _ HMh0))).
        * right. left. reflexivity.
        * apply Forall_app. split; [eapply scm_mono; [apply incl_appl; apply incl_refl|exact Hs1]|].
          eapply scm_mono; [|exact Hs23]. apply incl_appr. apply incl_refl.
      + rewrite find_app, (find_none_all _ _ Hlater). cbn [find].
        assert (Hhit : hit v = true).
        { unfold PositionBindLook.hit, var_hit. change (v_name v) with n0. rewrite Hn, beq_bytes_refl'. cbn [andb].
          destruct (ids_ok W vl (MG_in W _ _ HMh (proj1 Hidm))) as (_ & _ & Hck).
          apply (icp_before W HW line col Hcol v); [apply (cok_bounds W _ Hck)|exact (proj1 Hcur)|exact I|reflexivity]. }
        rewrite Hhit. reflexivity.
    - (* the body *)
      apply (for_body_cc HDR b l _ [v] flv (slv + 1) en o Hcb Hpb HM); auto.
      + apply Forall_app. split; [|apply Forall_app; split]; unfold HDR.
        * eapply scm_mono; [|exact Hs1]. apply incl_appr. apply incl_appl. apply incl_refl.
        * eapply scm_mono; [|exact Hs2]. apply incl_appr. apply incl_appr. apply incl_appl. apply incl_refl.
        * eapply scm_mono; [|exact Hs3]. apply incl_appr. apply incl_appr. apply incl_appr. apply incl_refl.
      + constructor; [|constructor]. split; [|split; [exact I|split; [reflexivity|exact I]]]. cbn [v_loc v].
        eapply idm_mono; [|apply id_marks_idm]. unfold HDR. apply incl_appl. apply incl_refl.
  Qed.

  Lemma case_forin ns ls es b l :
    Forall core_e es -> core_b b -> Forall Pe es -> Pb b -> Ps (SForIn ns ls es b l).
  Proof.
    intros Hces Hcb Hpes Hpb flv slv reg en o HM Hin Hat Hn.
    cbn [m2_stat sk_stat fst snd b_stat] in *.
    set (IDL := flat_map id_marks ls) in *. set (ME := flat_map m2_exp es) in *. set (MB := m2_block b) in *.
    set (HDR := IDL ++ ME).
    assert (EM : IDL ++ ME ++ MB ++ [MClose l] = (HDR ++ MB) ++ [MClose l])
      by (unfold HDR; rewrite <- !app_assoc; reflexivity).
    rewrite EM in HM |- *.
    pose proof (MG_open_close W _ _ HM) as HMid. destruct (MG_app W _ _ HMid) as (HMh & HMb & Hcross).
    pose proof HMh as HMh0. unfold HDR in HMh0. destruct (MG_app W _ _ HMh0) as (HMi & HMe & Hci).
    pose proof (exps_scm es Hces) as Hses. fold ME in Hses.
    apply in_app_or in Hin. destruct Hin as [Hin|Hin]; [|apply in_app_or in Hin; destruct Hin as [Hin|Hin]].
    - (* the iterator expressions *)
      apply in_tag_if in Hin. destruct Hin as (o0 & Hin0 & Hrt & Hcnd).
      assert (Hat0 : at_cur o0) by (destruct Hrt as (Hl & _); unfold PositionBindPos.at_cur in *; rewrite <- Hl; exact Hat).
      assert (Hn0 : s_name o0 = n) by (destruct Hrt as (_ & Hnm & _); rewrite <- Hnm; exact Hn).
      assert (Hcc0 : CC HDR (flat_map sk_exp es) [] en o0).
      { unfold HDR. apply (cc_right IDL ME [] _ [] en o0 HMh0); [|exact Hat0|constructor].
        apply (exps_in es Hces Hpes flv slv reg en o0 Hin0 HMe Hat0 Hn0). }
      apply (for_header_cc HDR MB l _ b (rev (plain_vars ns ls)) en o0 o (fun o => outer_use en o && name_in (s_name o) ns) Hcb eq_refl HM Hcc0 Hrt Hcnd Hat Hn).
      intros o1 Hou Hc Hn1. rewrite Hou in Hc. cbn [andb] in Hc. apply Forall_rev.
      apply Forall_forall. intros v Hv. apply nohit_name.
      unfold plain_vars in Hv. apply in_map_iff in Hv. destruct Hv as ([p lp] & E & Hp). subst v. cbn [v_name fst].
      destruct (beq_bytes p n) eqn:Eb; [|reflexivity]. apply beq_bytes_eq in Eb. subst p.
      apply in_combine_l in Hp. rewrite Hn1 in Hc. unfold name_in in Hc.
      assert (Hex : existsb (beq_bytes n) ns = true) by (apply existsb_exists; exists n; split; [exact Hp|apply beq_bytes_refl']).
      congruence.
    - (* a loop name *)
      apply in_map_iff in Hin. destruct Hin as ([p lp] & E & Hin). subst o. cbn [s_name decl_occ fst] in Hn.
      assert (Hlp : In lp ls) by (apply in_combine_r in Hin; exact Hin).
      assert (Hidm0 : idm lp IDL) by (apply idm_in_ids; exact Hlp).
      assert (Hidm : idm lp HDR) by (eapply idm_mono; [apply incl_appl; apply incl_refl|exact Hidm0]).
      assert (Hcur : CUR lp).
      { destruct Hat as [H1 H2]. apply (cur_keys W line col); auto. apply (MG_in W _ _ HMh). exact (proj1 Hidm). }
      destruct (proj2 (proj2 sk_marks) b Hcb) as [Hscm Hvm]. fold MB in Hscm, Hvm.
      assert (Hlater : Forall (fun v => hit v = false) (fst (sk_block b))).
      { apply (vars_after W HW line col Hcol n HDR MB lp); auto; [intros m Hm; exact (MG_in W _ _ HMb Hm)|exact (proj2 Hidm)|apply vm_idm; exact Hvm]. }
      destruct (plain_decl_found ns ls p lp (fst (sk_block b)) HMi Hin) as (v & Hfv & Hlv); auto.
      { apply beq_bytes_eq. exact Hn. }
      apply (for_decl_cc HDR b l _ (rev (plain_vars ns ls)) _ v Hcb HM); try reflexivity; auto.
      apply (notin_from_after W HW line col Hcol IDL ME lp); auto; [intros m Hm; exact (MG_in W _ _ HMe Hm)|exact (proj2 Hidm0)].
    - (* the body *)
      rewrite plain_env_push in Hin.
      apply (for_body_cc HDR b l _ (rev (plain_vars ns ls)) flv (slv + 1) en o Hcb Hpb HM); auto.
      + eapply scm_mono; [|exact Hses]. unfold HDR. apply incl_appr. apply incl_refl.
      + apply Forall_rev. apply plain_vars_vm. unfold HDR. apply incl_appl. apply incl_refl.
  Qed.

  Lemma at_cur_retag o0 o : retag o0 o -> at_cur o -> at_cur o0.
  Proof. intros (Hl & _) H. unfold PositionBindPos.at_cur in *. rewrite <- Hl. exact H. Qed.
  Lemma name_retag o0 o : retag o0 o -> s_name o = n -> s_name o0 = n.
  Proof. intros (_ & Hnm & _) H. rewrite <- Hnm. exact H. Qed.

  Lemma assign_generic vars es l :
    Forall (fun v => exists n0 ln, v = EName n0 ln /\ frag_name n0 = true) vars -> Forall core_e es -> Forall Pe es ->
    m2_stat (SAssign vars es l) = flat_map m2_exp vars ++ flat_map m2_exp es -> Ps (SAssign vars es l).
  Proof.
    intros Hv Hces Hpes Heq flv slv reg en o HM Hin Hat Hn. rewrite Heq in HM |- *. cbn [sk_stat fst snd].
    destruct (MG_app W _ _ HM) as (HMv & HMe & _).
    destruct (in_b_assign flv slv reg vars es l en o Hv Hin) as [(n0 & ln & Hvin & Hrt)|(e & o0 & He & Ho0 & Hrt)].
    - apply (cc_retag _ _ _ _ _ _ Hrt).
      apply (cc_left _ _ [] (flat_map sk_exp es)); [exact HM| |exact (at_cur_retag _ _ Hrt Hat)|apply exps_scm; exact Hces].
      apply (cc_mono (id_marks ln)); [exact (incl_flat_map_in m2_exp vars (EName n0 ln) Hvin)|].
      apply name_cc; [exact (at_cur_retag _ _ Hrt Hat)|reflexivity].
    - apply (cc_retag _ _ _ _ _ _ Hrt).
      apply (cc_right _ _ [] (flat_map sk_exp es)); [exact HM| |exact (at_cur_retag _ _ Hrt Hat)|constructor].
      exact (proj1 (exps_at es Hces Hpes flv slv reg en e o0 He Ho0 HMe (at_cur_retag _ _ Hrt Hat) (name_retag _ _ Hrt Hn))).
  Qed.

  (* a name positioned inside the Loc of a function whose scope it does not belong to: `function name()` and
     `local function name()` *)
  Lemma fname_path nl lf ps pls b pre post :
    core_b b -> MG W (MOpen lf :: (id_marks nl ++ flat_map id_marks pls ++ m2_block b) ++ [MClose lf]) ->
    CUR nl -> Forall passes pre ->
    ipath line col (pre ++ [Scope lf (fst (sk_block b) ++ rev (plain_vars ps pls)) (snd (sk_block b))] ++ post)
          [fst (sk_block b) ++ rev (plain_vars ps pls)] /\
    Forall (fun v => hit v = false) (fst (sk_block b) ++ rev (plain_vars ps pls)) /\
    loc_contains lf nl = true /\ 0 <= sc nl < W.
  Proof.
    intros Hcb HM Hcur Hpre.
    set (Z := flat_map id_marks pls ++ m2_block b) in *.
    pose proof (MG_open_close W _ _ HM) as HMid. destruct (MG_app W _ _ HMid) as (HMi & HMz & Hcross).
    destruct (proj2 (proj2 sk_marks) b Hcb) as [Hscm Hvm].
    destruct (open_close_cur W line col lf (id_marks nl ++ Z) nl HM) as [Hcl Hok];
      [eapply idm_mono; [apply incl_appl; apply incl_refl|apply id_marks_idm]|exact Hcur|].
    assert (HmZ : forall m, In m Z -> mark_ok W m = true) by (intros m Hm; exact (MG_in W _ _ HMz Hm)).
    assert (HE : In (MIdE nl) (id_marks nl)) by (right; left; reflexivity).
    split; [|split; [|split]].
    - right. eexists. split; [apply (scan_single W HW line col Hcol); [exact Hpre|exact (proj1 Hcl)|exact (proj2 Hcl)|exact Hok]|].
      apply path_here. apply scan_none_notin.
      apply (notin_from_after W HW line col Hcol (id_marks nl) Z nl); auto.
      eapply scm_mono; [|exact Hscm]. unfold Z. apply incl_appr. apply incl_refl.
    - apply (vars_after W HW line col Hcol n (id_marks nl) Z nl); auto.
      apply Forall_app. split.
      + eapply Forall_impl; [|apply vm_idm; exact Hvm]. intros v Hv. eapply idm_mono; [|exact Hv]. unfold Z. apply incl_appr. apply incl_refl.
      + apply Forall_rev. eapply Forall_impl; [|apply vm_idm; apply (plain_vars_vm ps pls _ (incl_refl _))].
        intros v Hv. eapply idm_mono; [|exact Hv]. unfold Z. apply incl_appl. apply incl_refl.
    - destruct (MG_cons W _ _ HM) as (HM2 & Hc1 & _). destruct (MG_app W _ _ HM2) as (_ & _ & Hc2).
      assert (Hs : In (MIdS nl) (id_marks nl ++ Z)) by (apply in_or_app; left; left; reflexivity).
      assert (He : In (MIdE nl) (id_marks nl ++ Z)) by (apply in_or_app; left; right; left; reflexivity).
      destruct (ids_ok W nl (MG_in W _ _ HMid Hs)) as (_ & _ & Hck).
      apply (loc_contains_keys W HW lf nl Hok Hck).
      + destruct (Hc1 (MOpen lf) (MIdS nl)) as [H _]; [left; reflexivity|apply in_or_app; left; exact Hs|exact H].
      + destruct (Hc2 (MIdE nl) (MClose lf)) as [H _]; [exact He|left; reflexivity|exact H].
    - assert (Hs : In (MIdS nl) (id_marks nl ++ Z)) by (apply in_or_app; left; left; reflexivity).
      destruct (ids_ok W nl (MG_in W _ _ HMid Hs)) as (_ & _ & Hck). apply (cok_bounds W _ Hck).
  Qed.

  Lemma fname_marks_eq nl pls b lf :
    MOpen lf :: id_marks nl ++ flat_map id_marks pls ++ m2_block b ++ [MClose lf]
    = MOpen lf :: (id_marks nl ++ flat_map id_marks pls ++ m2_block b) ++ [MClose lf].
  Proof. rewrite <- !app_assoc. reflexivity. Qed.

  Lemma fname_func_MG nl f ps pls b lf va :
    MG W (MOpen lf :: (id_marks nl ++ flat_map id_marks pls ++ m2_block b) ++ [MClose lf]) ->
    MG W (m2_exp (EFunc [] f ps pls b lf va false)) /\
    incl (m2_exp (EFunc [] f ps pls b lf va false))
         (MOpen lf :: (id_marks nl ++ flat_map id_marks pls ++ m2_block b) ++ [MClose lf]).
  Proof.
    intros HM. cbn [m2_exp]. split.
    - apply (MG_drop_mid W [MOpen lf] (id_marks nl) (flat_map id_marks pls ++ m2_block b ++ [MClose lf])).
      cbn [app] in HM |- *. rewrite <- !app_assoc in HM. exact HM.
    - intros m [Hm|Hm]; [left; exact Hm|right]. rewrite <- !app_assoc. apply in_or_app. right. exact Hm.
  Qed.

  Lemma assign_sugar n0 nl c0 fn ps pls b lf va l :
    frag_name n0 = true -> core_b b -> Pe (EFunc [] (c0 :: fn) ps pls b lf va false) ->
    Ps (SAssign [EName n0 nl] [EFunc [] (c0 :: fn) ps pls b lf va false] l).
  Proof.
    intros Hfn Hcb Hpf flv slv reg en o HM Hin Hat Hn.
    assert (Hv : Forall (fun v => exists n1 ln, v = EName n1 ln /\ frag_name n1 = true) [EName n0 nl])
      by (constructor; [eauto|constructor]).
    destruct (in_b_assign flv slv reg _ _ l en o Hv Hin) as [(n1 & ln & Hvin & Hrt)|(e & o0 & He & Ho0 & Hrt)].
    - destruct Hvin as [E|[]]. injection E as E1 E2. subst n1 ln.
      apply (cc_retag _ _ _ _ _ _ Hrt). pose proof (at_cur_retag _ _ Hrt Hat) as Hat0.
      cbn [m2_stat sk_stat fst snd flat_map sk_exp app] in HM |- *. rewrite fname_marks_eq in HM |- *.
      assert (Hidm : idm nl (id_marks nl ++ flat_map id_marks pls ++ m2_block b))
        by (eapply idm_mono; [apply incl_appl; apply incl_refl|apply id_marks_idm]).
      assert (Hcur : CUR nl).
      { destruct Hat0 as [H1 H2]. apply (cur_keys W line col); auto.
        apply (MG_in W _ _ (MG_open_close W _ _ HM)). exact (proj1 Hidm). }
      split; [reflexivity|]. split.
      + cbn [s_loc]. eapply idm_mono; [|exact Hidm]. intros m Hm. right. apply in_or_app. left. exact Hm.
      + intros pre post Hpre Hpost.
        destruct (fname_path nl lf ps pls b pre post Hcb HM Hcur Hpre) as (Hip & Hnh & _).
        eexists. split; [exact Hip|]. cbn [app]. apply EnvC_cons_nohit; [exact Hnh|].
        apply EnvC_leaf; reflexivity.
    - destruct He as [E|[]]. subst e. apply (cc_retag _ _ _ _ _ _ Hrt).
      cbn [m2_stat sk_stat fst snd flat_map] in HM |- *. rewrite app_nil_r. rewrite fname_marks_eq in HM |- *.
      destruct (fname_func_MG nl (c0 :: fn) ps pls b lf va HM) as [HMf Hincl].
      apply (cc_mono _ _ _ _ _ _ Hincl).
      exact (Hpf flv slv reg en o0 HMf Ho0 (at_cur_retag _ _ Hrt Hat) (name_retag _ _ Hrt Hn)).
  Qed.

  Lemma case_localfunc n0 nl f ps pls b lf va l :
    core_b b -> Pe (EFunc [] f ps pls b lf va false) -> Ps (SLocalFunc n0 nl (EFunc [] f ps pls b lf va false) l).
  Proof.
    intros Hcb Hpf flv slv reg en o HM Hin Hat Hn.
    cbn [m2_stat sk_stat fst snd sk_exp ref_of_exp b_stat] in HM, Hin |- *. rewrite fname_marks_eq in HM |- *.
    set (v := mkV n0 nl (RFunc lf) false).
    assert (Hidm : idm nl (id_marks nl ++ flat_map id_marks pls ++ m2_block b))
      by (eapply idm_mono; [apply incl_appl; apply incl_refl|apply id_marks_idm]).
    pose proof (MG_open_close W _ _ HM) as HMid.
    destruct Hin as [E|Hin].
    - (* the declared name *)
      subst o. cbn [s_name decl_occ fst] in Hn.
      assert (Hcur : CUR nl).
      { destruct Hat as [H1 H2]. apply (cur_keys W line col); auto. apply (MG_in W _ _ HMid). exact (proj1 Hidm). }
      split; [reflexivity|]. split.
      + cbn [s_loc decl_occ snd]. eapply idm_mono; [|exact Hidm]. intros m Hm. right. apply in_or_app. left. exact Hm.
      + intros pre post Hpre Hpost.
        destruct (fname_path nl lf ps pls b pre post Hcb HM Hcur Hpre) as (Hip & Hnh & Hcont & Hsc).
        eexists. split; [exact Hip|].
        unfold PositionBindLook.EnvC. cbn [s_role decl_occ is_decl s_loc snd]. exists v. split; [|reflexivity].
        cbn [app find_loc_var].
        assert (E : find (var_hit n pl) (fst (sk_block b) ++ rev (plain_vars ps pls)) = None) by (apply find_none_all; exact Hnh).
        rewrite E. cbn [find].
        assert (Hhit : var_hit n pl v = true).
        { unfold var_hit. change (v_name v) with n0. rewrite Hn, beq_bytes_refl'. cbn [andb].
          apply (icp_before W HW line col Hcol v); [exact Hsc|exact (proj1 Hcur)| |reflexivity]. cbn [v_ref v]. left. exact Hcont. }
        rewrite Hhit. reflexivity.
    - (* the function *)
      destruct (fname_func_MG nl f ps pls b lf va HM) as [HMf Hincl].
      change (push_decls en [(n0, nl)] [false]) with (map ent [v] ++ en) in Hin.
      pose proof (Hpf flv slv reg _ o HMf Hin Hat Hn) as Hcc.
      pose proof (cc_cur _ _ _ _ _ HMf Hcc Hat) as Hcur.
      apply (cc_mono _ _ _ _ _ _ Hincl).
      (* the name is before the occurrence and contained in the function's Loc *)
      assert (Ho : In (MIdS (s_loc o)) (flat_map id_marks pls ++ m2_block b)).
      { pose proof (proj1 (proj1 (proj2 Hcc))) as H. cbn [m2_exp] in H. destruct H as [H|H]; [discriminate|].
        rewrite app_assoc in H. apply in_app_or in H. destruct H as [H|[H|[]]]; [exact H|discriminate]. }
      destruct (MG_app W _ _ HMid) as (HMi & _ & Hcross).
      assert (Hs : In (MIdS nl) (id_marks nl)) by (left; reflexivity).
      destruct (Hcross _ _ Hs Ho) as [Hle _]. cbn [mark_key] in Hle.
      destruct (ids_ok W nl (MG_in W _ _ HMi Hs)) as (_ & _ & Hck).
      assert (Hcurnl : lo W nl <= K) by (destruct Hcur; lia).
      (* containment *)
      destruct (MG_cons W _ _ HM) as (HM2 & Hc1 & Hokf). destruct (MG_app W _ _ HM2) as (_ & _ & Hc2).
      assert (Hcont : loc_contains lf nl = true).
      { apply (loc_contains_keys W HW lf nl Hokf Hck).
        - destruct (Hc1 (MOpen lf) (MIdS nl)) as [H _]; [left; reflexivity|apply in_or_app; left; apply in_or_app; left; exact Hs|exact H].
        - destruct (Hc2 (MIdE nl) (MClose lf)) as [H _]; [apply in_or_app; left; right; left; reflexivity|left; reflexivity|exact H]. }
      pose proof (cc_ext _ _ _ en _ [v] [] Hcc (Forall_nil _)) as Hx. cbn [app] in Hx. apply Hx.
      + constructor; [|constructor]. split; [apply (cok_bounds W _ Hck)|exact Hcurnl].
      + constructor; [|constructor]. intros _.
        apply (icp_before W HW line col Hcol v); [apply (cok_bounds W _ Hck)|exact Hcurnl| |reflexivity]. cbn [v_ref v]. left. exact Hcont.
  Qed.

  Lemma icp_false_ref v :
    match v_ref v with
    | RNone => False
    | RFunc fl => loc_contains fl (v_loc v) = false /\ loc_contains fl pl = true
    | RName fl | RCall fl => loc_contains fl pl = true
    end -> is_correct_position v pl = false.
  Proof.
    intros H. unfold is_correct_position. destruct (negb (loc_before (v_loc v) pl)); [reflexivity|].
    destruct (init_hides v pl); [reflexivity|].
    destruct (v_ref v); try contradiction; try (rewrite H; reflexivity).
    destruct H as [H1 H2]. rewrite H1, H2. reflexivity.
  Qed.

  (* the cursor is inside the initialiser list of the statement that declares v *)
  Lemma icp_false_init v : init_hides v pl = true -> is_correct_position v pl = false.
  Proof.
    intros H. unfold is_correct_position. destruct (negb (loc_before (v_loc v) pl)); [reflexivity|]. rewrite H. reflexivity.
  Qed.

  Lemma not_contains_earlier a b : cok W a -> 0 <= sc b < W -> lo W b < lo W a -> loc_contains a b = false.
  Proof.
    intros Ha Hb H. destruct (cok_bounds W _ Ha) as [Has _]. unfold lo in H.
    apply (key_lt W HW _ _ _ _ Hb Has) in H. unfold loc_contains.
    destruct (sl a >? sl b) eqn:E1; cbn [orb]; [reflexivity|].
    destruct (el a <? el b); [reflexivity|].
    destruct (sl a =? sl b) eqn:E3; destruct (sc a >? sc b) eqn:E4; cbn [andb]; try reflexivity; lia.
  Qed.

  Lemma id_lo_lt_hi l : mark_ok W (MIdS l) = true -> lo W l < hi W l.
  Proof. intros H. destruct (ids_ok W l H) as (He & Hc & _). unfold lo, hi, key. rewrite He. lia. Qed.

  Lemma idm_inner l' mid x : idm x (MOpen l' :: mid ++ [MClose l']) -> idm x mid.
  Proof.
    intros [[H1|H1] [H2|H2]]; try discriminate. split.
    - apply in_app_or in H1. destruct H1 as [H1|[H1|[]]]; [exact H1|discriminate].
    - apply in_app_or in H2. destruct H2 as [H2|[H2|[]]]; [exact H2|discriminate].
  Qed.

  (* the cursor is inside the Loc that the initialiser's ReferExp carries *)
  Lemma ref_contains_cursor e x :
    MG W (m2_exp e) -> idm x (m2_exp e) -> CUR x ->
    match ref_of_exp e with
    | RNone => True
    | RFunc fl | RName fl | RCall fl => loc_contains fl pl = true /\ cok W fl /\ In (match ref_of_exp e with RName _ => MIdS fl | _ => MOpen fl end) (m2_exp e)
    end.
  Proof.
    intros HM Hidm Hcur. pose proof (ref_open_close e) as Hr. destruct (ref_of_exp e) as [|fl|fl|fl]; [exact I| | |].
    - destruct Hr as (mid & E). rewrite E in *. destruct (open_close_cur W line col fl mid x HM (idm_inner _ _ _ Hidm) Hcur) as [Hc Hok].
      split; [apply (loc_contains_iff W HW line col Hcol fl Hok); exact Hc|]. split; [exact Hok|left; reflexivity].
    - rewrite Hr in *. destruct Hidm as [[H|[H|[]]] _]; [|discriminate]. injection H as H. subst x.
      assert (Hm : mark_ok W (MIdS fl) = true) by (apply (MG_in W _ _ HM); left; reflexivity).
      destruct (ids_ok W fl Hm) as (_ & _ & Hck).
      split; [apply (loc_contains_iff W HW line col Hcol fl Hck); exact Hcur|]. split; [exact Hck|left; reflexivity].
    - destruct Hr as (mid & E). rewrite E in *. destruct (open_close_cur W line col fl mid x HM (idm_inner _ _ _ Hidm) Hcur) as [Hc Hok].
      split; [apply (loc_contains_iff W HW line col Hcol fl Hok); exact Hc|]. split; [exact Hok|left; reflexivity].
  Qed.

  Lemma case_local ns ls at_ es l :
    length ns = length ls -> Forall core_e es -> Forall Pe es -> Ps (SLocal ns ls at_ es l).
  Proof.
    intros Hlen Hces Hpes flv slv reg en o HM Hin Hat Hn. cbn [m2_stat sk_stat fst snd] in HM |- *.
    set (IDL := flat_map id_marks ls) in *. set (ME := flat_map m2_exp es) in *.
    set (IL := init_loc ns ls es l) in *.
    set (LV := local_vars es (combine ns ls) RNone IL).
    destruct (MG_app W _ _ HM) as (HMi & HMr & Hcross0).
    assert (HMe : MG W ME).
    { destruct IL as [il|]; cbn [region_marks] in HMr; [exact (MG_open_close W _ _ HMr)|exact HMr]. }
    assert (Hcross : cross W IDL ME).
    { intros x y Hx Hy. apply Hcross0; [exact Hx|apply incl_region_marks; exact Hy]. }
    assert (Hmi : forall m, In m IDL -> mark_ok W m = true) by (intros m Hm; exact (MG_in W _ _ HMi Hm)).
    assert (Hme : forall m, In m ME -> mark_ok W m = true) by (intros m Hm; exact (MG_in W _ _ HMe Hm)).
    assert (Htab : forall e, In e es -> tab_of_exp e = None).
    { intros e He. apply frag_tab. rewrite Forall_forall in Hces. exact (proj1 (Hces e He)). }
    destruct (in_b_local flv slv reg ns ls at_ es l en o Hin) as [(i & e & o0 & Hnth & Ho0 & Hrt)|((nm & lx) & bb & Hnl & E)].
    - (* inside initialiser i: every variable of the statement is hidden (the cursor lies in their InitLoc), whatever
         the shape of the initialiser and whatever the class tags say *)
      pose proof (nth_error_In _ _ Hnth) as He.
      pose proof (at_cur_retag _ _ Hrt Hat) as Hat0. pose proof (name_retag _ _ Hrt Hn) as Hn0.
      destruct (exps_at es Hces Hpes flv slv reg en e o0 He Ho0 HMe Hat0 Hn0) as (Hcc0 & Hidm0 & HMe0).
      pose proof (cc_mono ME (region_marks IL ME) _ _ _ _ (incl_region_marks IL ME) Hcc0) as Hcc0'.
      pose proof (cc_right IDL (region_marks IL ME) [] (flat_map sk_exp es) [] en o0 HM Hcc0' Hat0 (Forall_nil _)) as Hcc1.
      cbn [app] in Hcc1.
      pose proof (cc_cur _ _ _ _ _ HM Hcc1 Hat0) as Hcur0.
      pose proof (cc_retag _ _ _ _ _ _ Hrt Hcc1) as Hcc2.
      apply (cc_feq _ _ ([] ++ rev LV)); [reflexivity|]. apply cc_hidden; [exact Hcc2|].
      intros Hd ien Hen _ Hnone.
      apply Forall_rev. apply Forall_forall. intros v Hv.
      destruct (beq_bytes (v_name v) n) eqn:Eb; [|apply nohit_name; exact Eb].
      unfold PositionBindLook.hit, var_hit. rewrite Eb. cbn [andb]. apply icp_false_init.
      unfold init_hides. rewrite (local_vars_init IL es (combine ns ls) RNone v Hv).
      rewrite (local_vars_tab IL es (combine ns ls) RNone v Htab Hv).
      assert (Hidm1 : idm (s_loc o0) ME).
      { eapply idm_mono; [apply (incl_flat_map_in m2_exp es e He)|exact Hidm0]. }
      destruct IL as [il|] eqn:EIL.
      + cbn [region_marks] in HMr.
        destruct (open_close_cur W line col il ME (s_loc o0) HMr Hidm1 Hcur0) as [Hc Hok].
        rewrite (proj2 (loc_contains_iff W HW line col Hcol il Hok) Hc). reflexivity.
      + (* there is an initialiser list: es and ns are not empty *)
        exfalso. unfold IL, init_loc in EIL. destruct es as [|e0 es0]; [destruct He|].
        destruct ns as [|n0 ns0]; [destruct Hv|discriminate EIL].
    - (* a declared name *)
      subst o. cbn [s_name decl_occ fst] in Hn. cbn [fst snd] in *.
      assert (Hin2 : In (nm, lx) (combine ns ls)) by (apply in_combine_l in Hnl; exact Hnl).
      assert (Hlx : In lx ls) by (apply in_combine_r in Hin2; exact Hin2).
      assert (Hidm : idm lx IDL) by (apply idm_in_ids; exact Hlx).
      assert (Hcur : CUR lx).
      { destruct Hat as [H1 H2]. apply (cur_keys W line col); auto. apply Hmi. exact (proj1 Hidm). }
      assert (Hv0 : exists v0, In v0 LV /\ v_name v0 = nm /\ v_loc v0 = lx).
      { pose proof (local_vars_shape IL es (combine ns ls) RNone) as Hs. rewrite <- Hs in Hin2.
        apply in_map_iff in Hin2. destruct Hin2 as (v0 & E & Hv0). injection E as E1 E2. eauto. }
      destruct Hv0 as (v0 & Hv0 & Hv0n & Hv0l).
      assert (Hlocs : exists rest, ls = map v_loc LV ++ rest).
      { destruct (combine_snd_prefix ns ls) as (rest & Er). exists rest. rewrite Er at 1. f_equal.
        rewrite <- (local_vars_shape IL es (combine ns ls) RNone) at 1. rewrite map_map. reflexivity. }
      destruct Hlocs as (rest & Els).
      assert (HMl : MG W (flat_map id_marks (map v_loc LV))).
      { unfold IDL in HMi. rewrite Els, flat_map_app in HMi. exact (proj1 (MG_app W _ _ HMi)). }
      destruct (decl_self W HW line col Hcol n LV v0 (proj2 HMl)) as (inv & rs & Erev & Hinv).
      { intros m Hm. exact (MG_in W _ _ HMl Hm). }
      { exact Hv0. }
      { rewrite Hv0l. exact Hcur. }
      assert (Hhit : hit v0 = true).
      { unfold PositionBindLook.hit, var_hit. rewrite Hv0n, Hn, beq_bytes_refl'. cbn [andb].
        destruct (ids_ok W lx (Hmi _ (proj1 Hidm))) as (_ & _ & Hck).
        apply (icp_before W HW line col Hcol v0); [rewrite Hv0l; apply (cok_bounds W _ Hck)|rewrite Hv0l; exact (proj1 Hcur)| |].
        2:{ (* the cursor is on a declared name: in front of the initialiser list *)
            unfold init_hides. rewrite (local_vars_init IL es (combine ns ls) RNone v0 Hv0).
            destruct IL as [il|] eqn:EIL; [|reflexivity]. cbn [region_marks] in HMr, Hcross0.
            assert (Ho : In (MOpen il) (MOpen il :: ME ++ [MClose il])) by (left; reflexivity).
            destruct (Hcross0 _ _ (proj2 Hidm) Ho) as [_ Hlt]. specialize (Hlt eq_refl eq_refl). cbn [mark_key] in Hlt.
            rewrite (not_contains_after W HW line col Hcol il (MG_in W _ _ HMr Ho)) by (destruct Hcur; lia). reflexivity. }
        pose proof (local_vars_refm ME IL es (combine ns ls) RNone v0 Hv0 I (fun e He => incl_flat_map_in m2_exp es e He)) as Hrm.
        destruct (v_ref v0) as [|fl|fl|fl]; [exact I| | |]; cbn [refm] in Hrm.
        - right. destruct Hrm as [Ho _]. destruct (Hcross _ _ (proj2 Hidm) Ho) as [_ Hlt]. specialize (Hlt eq_refl eq_refl). cbn [mark_key] in Hlt.
          apply (not_contains_after W HW line col Hcol fl (Hme _ Ho)). destruct Hcur. lia.
        - destruct Hrm as [Ho _]. destruct (Hcross _ _ (proj2 Hidm) Ho) as [_ Hlt]. specialize (Hlt eq_refl eq_refl). cbn [mark_key] in Hlt.
          destruct (ids_ok W fl (Hme _ Ho)) as (_ & _ & Hckf).
          apply (not_contains_after W HW line col Hcol fl Hckf). destruct Hcur. lia.
        - destruct Hrm as [Ho _]. destruct (Hcross _ _ (proj2 Hidm) Ho) as [_ Hlt]. specialize (Hlt eq_refl eq_refl). cbn [mark_key] in Hlt.
          apply (not_contains_after W HW line col Hcol fl (Hme _ Ho)). destruct Hcur. lia. }
      split; [reflexivity|]. split.
      + cbn [s_loc decl_occ snd]. eapply idm_mono; [apply incl_appl; apply incl_refl|exact Hidm].
      + intros pre post Hpre Hpost. exists []. split.
        * left. split; [|reflexivity]. rewrite scan_skip by exact Hpre. apply scan_none_notin. apply Forall_app. split; [|exact Hpost].
          apply (notin_from_after W HW line col Hcol IDL ME lx); auto; [exact (proj2 Hidm)|apply exps_scm; exact Hces].
        * unfold PositionBindLook.EnvC. cbn [s_role decl_occ is_decl s_loc snd app]. exists v0. split; [|exact Hv0l].
          cbn [find_loc_var]. fold LV. rewrite Erev.
          assert (E : find (var_hit n pl) (inv ++ v0 :: rs) = Some v0).
          { rewrite find_app. assert (E1 : find (var_hit n pl) inv = None) by (apply find_none_all; exact Hinv).
            rewrite E1. cbn [find]. unfold PositionBindLook.hit in Hhit. rewrite Hhit. reflexivity. }
          rewrite E. reflexivity.
  Qed.

  Lemma stats_scm l : Forall core_s l -> Forall (scm (flat_map m2_stat l)) (flat_map (fun s => snd (sk_stat s)) l).
  Proof.
    intros H. apply (Forall_flat_map_scm (fun s => snd (sk_stat s)) m2_stat).
    eapply Forall_impl; [|exact H]. intros s Hs. exact (proj1 (proj1 (proj2 sk_marks) s Hs)).
  Qed.

  Lemma stats_vm l : Forall core_s l -> Forall (vm (flat_map m2_stat l)) (concat (rev (map (fun s => fst (sk_stat s)) l))).
  Proof.
    intros H. apply Forall_forall. intros v Hv. apply in_concat in Hv. destruct Hv as (vs & Hvs & Hv).
    apply in_rev in Hvs. apply in_map_iff in Hvs. destruct Hvs as (s & E & Hs). subst vs.
    rewrite Forall_forall in H. destruct (proj1 (proj2 sk_marks) s (H s Hs)) as [_ Hvm]. rewrite Forall_forall in Hvm.
    pose proof (incl_flat_map_in m2_stat l s Hs) as Hi.
    pose proof (vm_mono _ _ [v] Hi (Forall_cons _ (Hvm v Hv) (Forall_nil _))) as Hv1. inversion Hv1; assumption.
  Qed.

  Lemma seq_env flv slv reg l en : Forall core_s l ->
    fst (seq_stats (map (fun s => b_stat flv slv reg s) l) en)
    = map ent (concat (rev (map (fun s => fst (sk_stat s)) l))) ++ en.
  Proof.
    intros H.
    rewrite (seq_stats_env (map (fun s => b_stat flv slv reg s) l) (map (fun s => map ent (fst (sk_stat s))) l)).
    - rewrite concat_map, map_rev, map_map. reflexivity.
    - induction H as [|s r Hs Hr IH]; cbn [map]; constructor; [|exact IH].
      intros en0. exact (proj1 (proj2 env_after) s Hs flv slv reg en0).
  Qed.

  Lemma b_block_snd flv slv reg ss ret l en :
    snd (b_block flv slv reg (Block ss ret l) en)
    = snd (seq_stats (map (fun s => b_stat flv slv reg s) ss) en)
      ++ flat_map (fun e => b_exp flv slv reg e (fst (seq_stats (map (fun s => b_stat flv slv reg s) ss) en))) (ret_exps ret).
  Proof.
    cbn [b_block]. destruct (seq_stats (map (fun s => b_stat flv slv reg s) ss) en) as [en1 os].
    destruct ret; cbn [snd fst ret_exps flat_map]; rewrite ?app_nil_r; reflexivity.
  Qed.

  Lemma case_block ss ret l :
    Forall core_s ss -> Forall Ps ss -> Forall core_e (ret_exps ret) -> Forall Pe (ret_exps ret) -> Pb (Block ss ret l).
  Proof.
    intros Hcs Hps Hcr Hpr flv slv reg en o HM Hin Hat Hn.
    rewrite b_block_snd in Hin. cbn [m2_block sk_block fst snd] in HM |- *.
    assert (EM : match ret with Some es => flat_map m2_exp es | None => [] end = flat_map m2_exp (ret_exps ret))
      by (destruct ret; reflexivity).
    assert (ES : match ret with Some es => flat_map sk_exp es | None => [] end = flat_map sk_exp (ret_exps ret))
      by (destruct ret; reflexivity).
    rewrite EM in HM |- *. rewrite ES. clear EM ES.
    set (MS := flat_map m2_stat ss) in *. set (MR := flat_map m2_exp (ret_exps ret)) in *.
    destruct (MG_app W _ _ HM) as (HMs & HMr & Hcross).
    apply in_app_or in Hin. destruct Hin as [Hin|Hin].
    - (* in a statement *)
      destruct (in_seq_stats _ o en Hin) as (pre & f & post & Emap & Ho).
      apply map_eq_app in Emap. destruct Emap as (ss1 & l2 & Ess & Epre & El2).
      apply map_eq_cons in El2. destruct El2 as (s & ss2 & El2 & Ef & Epost). subst l2 pre f post.
      rewrite Ess in Hcs, Hps. apply Forall_app in Hcs. destruct Hcs as [Hcs1 Hcs2]. inversion Hcs2 as [|? ? Hcss Hcs2']; subst.
      apply Forall_app in Hps. destruct Hps as [_ Hps2]. inversion Hps2 as [|? ? Hpss _]; subst.
      rewrite (seq_env flv slv reg ss1 en Hcs1) in Ho.
      set (E1 := concat (rev (map (fun s => fst (sk_stat s)) ss1))) in *.
      set (L2 := concat (rev (map (fun s => fst (sk_stat s)) ss2))).
      unfold MS in *. rewrite !flat_map_app in *. cbn [flat_map] in *.
      set (M1 := flat_map m2_stat ss1) in *. set (M2 := flat_map m2_stat ss2) in *.
      rewrite <- !app_assoc in HM |- *.
      destruct (MG_app W _ _ HM) as (HM1 & HMx & Hc1). destruct (MG_app W _ _ HMx) as (HMst & HMy & Hc2).
      pose proof (Hpss flv slv reg _ o HMst Ho Hat Hn) as Hcc.
      pose proof (cc_cur _ _ _ _ _ HMst Hcc Hat) as Hcur.
      assert (Hfe : concat (rev (map (fun s0 => fst (sk_stat s0)) (ss1 ++ s :: ss2))) = L2 ++ fst (sk_stat s) ++ E1).
      { rewrite map_app, rev_app_distr. cbn [map rev]. rewrite !concat_app. cbn [concat]. rewrite app_nil_r, <- app_assoc. reflexivity. }
      rewrite Hfe.
      assert (Hs2 : Forall (scm (M2 ++ MR)) (flat_map (fun s0 => snd (sk_stat s0)) ss2 ++ flat_map sk_exp (ret_exps ret))).
      { apply Forall_app. split; [eapply scm_mono; [apply incl_appl; apply incl_refl|apply stats_scm; exact Hcs2']|].
        eapply scm_mono; [apply incl_appr; apply incl_refl|apply exps_scm; exact Hcr]. }
      pose proof (cc_left _ _ _ _ _ _ o HMx Hcc Hat Hs2) as Hcc2.
      pose proof (cc_right _ _ _ _ _ _ o HM Hcc2 Hat (stats_scm ss1 Hcs1)) as Hcc3.
      destruct (vars_before W HW line col Hcol n M1 (m2_stat s) (s_loc o) E1) as [Hb Hok]; auto.
      { intros m Hm. exact (MG_in W _ _ HM1 Hm). }
      { destruct (cross_app_r W _ _ _ Hc1) as [H _]. exact H. }
      { exact (proj1 (proj1 (proj2 Hcc))). }
      { apply stats_vm. exact Hcs1. }
      eapply cc_seq; [|apply (cc_ext _ _ _ en o E1 L2 Hcc3); [|exact Hb|exact Hok]]; [rewrite <- !app_assoc; reflexivity|].
      apply (vars_after W HW line col Hcol n (m2_stat s) (M2 ++ MR) (s_loc o)); auto.
      + intros m Hm. exact (MG_in W _ _ HMy Hm).
      + exact (proj2 (proj1 (proj2 Hcc))).
      + eapply Forall_impl; [|apply vm_idm; apply stats_vm; exact Hcs2'].
        intros v Hv. eapply idm_mono; [apply incl_appl; apply incl_refl|exact Hv].
    - (* in the return list *)
      rewrite (seq_env flv slv reg ss en Hcs) in Hin.
      pose proof (exps_in _ Hcr Hpr flv slv reg _ o Hin HMr Hat Hn) as Hcc.
      pose proof (cc_cur _ _ _ _ _ HMr Hcc Hat) as Hcur.
      pose proof (cc_right _ _ _ _ _ _ o HM Hcc Hat (stats_scm ss Hcs)) as Hcc2.
      destruct (vars_before W HW line col Hcol n MS MR (s_loc o) (concat (rev (map (fun s => fst (sk_stat s)) ss)))) as [Hb Hok]; auto.
      { intros m Hm. exact (MG_in W _ _ HMs Hm). }
      { exact (proj1 (proj1 (proj2 Hcc))). }
      { apply stats_vm. exact Hcs. }
      pose proof (cc_ext _ _ _ en _ _ [] Hcc2 (Forall_nil _) Hb Hok) as Hx. cbn [app] in Hx. exact Hx.
  Qed.

  Theorem main_all : (forall e, core_e e -> Pe e) /\ (forall s, core_s s -> Ps s) /\ (forall b, core_b b -> Pb b).
  Proof.
    apply core_ind3.
    - (* atoms *)
      intros e Ha _ flv slv reg en o HM Hin Hat Hn. destruct e; try contradiction; cbn [b_exp] in Hin; try contradiction.
      destruct Hin as [E|[]]. subst o. cbn [m2_exp sk_exp]. apply name_cc; [exact Hat|reflexivity].
    - intros o x l _ IH. exact IH.
    - intros o a b l Hca Hcb IHa IHb flv slv reg en o0 HM Hin Hat Hn. cbn [m2_exp sk_exp b_exp] in *.
      destruct (MG_app W _ _ HM) as (HMa & HMb & _). apply in_app_or in Hin. destruct Hin as [Hin|Hin].
      + apply cc_left; [exact HM|exact (IHa flv slv reg en o0 HMa Hin Hat Hn)|exact Hat|exact (proj1 sk_marks b Hcb)].
      + apply cc_right; [exact HM|exact (IHb flv slv reg en o0 HMb Hin Hat Hn)|exact Hat|exact (proj1 sk_marks a Hca)].
    - intros x l _ IH. exact IH.
    - intros na ln args l _ Hc IH. apply case_call; assumption.
    - intros f ps pls b l va _ Hcb IH. apply case_func; assumption.
    - intros flv slv reg en o HM Hin. destruct Hin.
    - intros b l Hcb IH. apply case_do; assumption.
    - intros na ln args l Hc IH. exact IH.
    - intros es bs l Hlen Hce Hcb IHe IHb. apply case_if; assumption.
    - intros e b l Hce Hcb IHe IHb. apply case_while; assumption.
    - intros b e l Hcb Hce IHb IHe. apply case_repeat; assumption.
    - intros n0 vl e1 e2 e3 b l _ Hc1 Hc2 Hc3 Hcb IH1 IH2 IH3 IHb. apply case_fornum; assumption.
    - intros ns ls es b l _ Hce Hcb IHe IHb. apply case_forin; assumption.
    - (* assignment *)
      intros vars es l Hv Hce IHe.
      assert (Hgen : m2_stat (SAssign vars es l) = flat_map m2_exp vars ++ flat_map m2_exp es -> Ps (SAssign vars es l))
        by (apply assign_generic; assumption).
      destruct vars as [|v0 [|v1 vr]]; try (apply Hgen; reflexivity);
        destruct v0; try (apply Hgen; reflexivity);
        destruct es as [|e0 [|e1 er]]; try (apply Hgen; reflexivity);
        destruct e0; try (apply Hgen; reflexivity); destruct fname; try (apply Hgen; reflexivity).
      inversion Hce as [|? ? [Hf0 Hs0] _]; subst. inversion IHe as [|? ? Hp0 _]; subst.
      inversion Hv as [|? ? (nx & lnx & Ex & Hfn) _]; subst. injection Ex as Ex1 Ex2. subst nx lnx.
      cbn [frag_exp shp_exp] in Hf0, Hs0. destruct colon; [discriminate|]. destruct cls; [|rewrite andb_false_r in Hf0; discriminate].
      cbn [negb andb] in Hf0. apply andb_true_iff in Hf0. destruct Hf0 as [_ Hfb].
      apply assign_sugar; [exact Hfn|split; assumption|exact Hp0].
    - intros ns ls at_ es l _ Hlen Hce IHe. apply case_local; assumption.
    - intros n0 nl f ps pls b lf va l _ [Hf Hs] IH. cbn [frag_exp shp_exp negb andb] in Hf, Hs.
      apply andb_true_iff in Hf. destruct Hf as [_ Hfb]. apply case_localfunc; [split; assumption|exact IH].
    - intros ss ret l Hcs IHs Hcr IHr. apply case_block; assumption.
  Qed.
End Main.
