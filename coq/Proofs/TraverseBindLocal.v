(* Traversal resolver = Lua's binder, part 3: `local n_0, ..., n_k = e_0, ..., e_m` (local_loop of Model/Scope.v).
   The traversal adds n_i BEFORE visiting e_(i+1): inside e_(i+1) its environment has the extra entries n_0..n_i.
   The simulation is run with the exception set "name among the earlier names and bound like in the environment of the
   statement" - exactly the occurrences the reference binder tags CB3. *)
From Coq Require Import List NArith ZArith Bool Lia Permutation.
From LH Require Import Base.Bytes Model.Lexer Model.Ast Model.Scope Spec.LuaScope
  Proofs.TraverseBindDefs Proofs.TraverseBindSim Proofs.TraverseBindLoops.
Import ListNotations.
Local Open Scope Z_scope.

(* ------------------------------------------------------------------ list indices *)
Lemma skipn_nil_nth {A} : forall k (l : list A), skipn k l = [] -> nth_error l k = None /\ skipn (S k) l = [].
Proof.
  induction k as [|k IH]; intros l H.
  - cbn in H. subst l. split; reflexivity.
  - destruct l as [|x r]; [split; reflexivity|]. cbn [skipn] in H. apply IH in H. exact H.
Qed.

Lemma skipn_cons_nth {A} : forall k (l : list A) x r,
  skipn k l = x :: r -> nth_error l k = Some x /\ skipn (S k) l = r.
Proof.
  induction k as [|k IH]; intros l x r H.
  - cbn in H. subst l. split; reflexivity.
  - destruct l as [|y r']; [discriminate|]. cbn [skipn] in H. apply IH in H. exact H.
Qed.

Fixpoint le_rec (ns : list (list N)) (es : list exp) (lc : bool) {struct ns} : list bool :=
  match ns with
  | [] => []
  | n :: ns' =>
    match es with
    | e :: es' => refer_empty n e :: le_rec ns' es' lc
    | [] => negb lc :: le_rec ns' [] lc
    end
  end.

Lemma index_map_le_rec es lc : forall ns k,
  index_map (fun i n => match nth_error es i with Some e => refer_empty n e | None => negb lc end) k ns
  = le_rec ns (skipn k es) lc.
Proof.
  induction ns as [|n r IH]; intros k; [reflexivity|].
  cbn [index_map le_rec]. destruct (skipn k es) as [|e es'] eqn:E.
  - destruct (skipn_nil_nth _ _ E) as [H1 H2]. rewrite H1, IH, H2. reflexivity.
  - destruct (skipn_cons_nth _ _ _ _ E) as [H1 H2]. rewrite H1, IH, H2. reflexivity.
Qed.

Lemma local_empties_rec ns es :
  local_empties ns es = le_rec ns es (match rev es with ECall _ _ _ _ :: _ => true | _ => false end).
Proof. unfold local_empties. rewrite index_map_le_rec. reflexivity. Qed.

Lemma push_decls_rev : forall nls emp en, push_decls en nls emp = rev (combine nls emp) ++ en.
Proof.
  unfold push_decls. intros nls emp. generalize (combine nls emp) as l. clear.
  induction l as [|x r IH]; intros en; [reflexivity|].
  cbn [fold_left rev]. rewrite IH, <- app_assoc. reflexivity.
Qed.

(* ------------------------------------------------------------------ the CB3 tag on cores *)
Definition set_b3 (c : core) : core := mkC (c_loc c) (c_name c) (c_bind c) (c_role c) true.
Definition retag (en : env) (earlier : list (list N)) (c : core) : core :=
  if negb (is_decl (c_role c)) && binding_eqb (c_bind c) (resolve en (c_name c)) && name_in (c_name c) earlier
  then set_b3 c else c.

Lemma filter_map_comm {A} (p : A -> bool) (f : A -> A) l :
  (forall x, p (f x) = p x) -> filter p (map f l) = map f (filter p l).
Proof.
  intros H. induction l as [|x r IH]; [reflexivity|]. cbn. rewrite H. destruct (p x); cbn; rewrite IH; reflexivity.
Qed.

Lemma ccore_tag_local_init en ns i e os :
  ccore (tag_local_init en ns i e os) = map (retag en (firstn i ns)) (ccore os).
Proof.
  unfold ccore. rewrite <- filter_map_comm.
  2:{ intros c. unfold retag. destruct (_ && _ && _); reflexivity. }
  f_equal. unfold tag_local_init, tag_if. rewrite !map_map. apply map_ext. intros o.
  set (c1 := outer_use en o && name_in (s_name o) ns && negb _).
  assert (Hsame : forall o', s_name o' = s_name o -> s_bind o' = s_bind o -> s_role o' = s_role o ->
                             (outer_use en o' && name_in (s_name o') (firstn i ns))
                             = (negb (is_decl (c_role (core_of o))) && binding_eqb (c_bind (core_of o))
                                  (resolve en (c_name (core_of o))) && name_in (c_name (core_of o)) (firstn i ns))).
  { intros o' H1 H2 H3. unfold outer_use. rewrite H1, H2, H3. reflexivity. }
  unfold retag.
  destruct c1.
  - rewrite (Hsame (add_tag CB1 o)) by reflexivity.
    destruct (_ && _ && _); [reflexivity|]. apply core_add_tag. discriminate.
  - rewrite (Hsame o) by reflexivity. destruct (_ && _ && _); reflexivity.
Qed.

Lemma loc_eqb_refl l : loc_eqb l l = true.
Proof. unfold loc_eqb. rewrite !Z.eqb_refl. reflexivity. Qed.
Lemma binding_eqb_refl b : binding_eqb b b = true.
Proof. destruct b; cbn; [apply loc_eqb_refl|apply beq_refl]. Qed.

Definition exc_local (Exc : excp) (en : env) (earlier : list (list N)) : excp :=
  fun n b => Exc n b \/ (name_in n earlier = true /\ b = resolve en n).

Lemma Rc_retag C Exc en earlier o c :
  Rc C (exc_local Exc en earlier) o c -> Rc C Exc o (retag en earlier c).
Proof.
  intros [H1 [H2 [H3 [H5 H4]]]]. unfold retag.
  destruct (negb (is_decl (c_role c)) && binding_eqb (c_bind c) (resolve en (c_name c)) && name_in (c_name c) earlier) eqn:E.
  - repeat split; auto. cbn. intros _ _ Hf. discriminate.
  - repeat split; auto. intros Hc Hex Hb. apply H4; auto.
    intros [He|[Hn Hb']]; [contradiction|].
    rewrite Hb', binding_eqb_refl, Hn in E.
    destruct (c_role c); cbn in E; try discriminate. destruct (o_kind o); contradiction.
Qed.

(* the extra entries of the innermost frame only concern the earlier names *)
Lemma efind_app a b n : efind (a ++ b) n = match efind a n with Some x => Some x | None => efind b n end.
Proof.
  induction a as [|x r IH]; [reflexivity|]. cbn [app]. rewrite !efind_cons.
  destruct (beq_bytes (fst (fst x)) n); [reflexivity|exact IH].
Qed.

Lemma EQ_extras Exc en earlier done ent :
  (forall n, efind done n <> None -> name_in n earlier = true) ->
  EQ Exc ent en -> EQ (exc_local Exc en earlier) (done ++ ent) en.
Proof.
  intros Hd H n. rewrite efind_app. destruct (efind done n) eqn:E.
  - right. right. split; [|reflexivity]. apply Hd. rewrite E. discriminate.
  - destruct (H n) as [H1|H1]; [left; exact H1|right; left; exact H1].
Qed.

Lemma name_in_app n a b : name_in n (a ++ b) = name_in n a || name_in n b.
Proof. unfold name_in. apply existsb_app. Qed.

Lemma ccore_decl_pairs en flv slv reg (l : list (list N * loc * bool)) :
  ccore (map (fun x => decl_occ en flv slv reg (snd x) (fst x)) l) = [].
Proof. induction l as [|x r IH]; [reflexivity|]. cbn. exact IH. Qed.

Lemma Forall2_map_r {A B} (R : A -> B -> Prop) (f : B -> B) xs ys :
  Forall2 (fun a b => R a (f b)) xs ys -> Forall2 R xs (map f ys).
Proof. induction 1; cbn; constructor; auto. Qed.

(* ------------------------------------------------------------------ the loop *)
Section LocalLoop.
  Variables (flv slv : Z) (reg : loc).

  (* names beyond the initialisers *)
  Lemma local_rest_sim lc rest : forall ns_r ls_r st top (lastc : refexp),
    ((match lastc with RNone => true | _ => false end) = true -> negb lc = true) ->
    FRS st (top :: rest) ->
    let st' := fold_left (fun s nl => add_var (mkV (fst nl) (snd nl) lastc
                                                   (match lastc with RNone => true | _ => false end)) s)
                         (combine ns_r ls_r) st in
    t_occs st' = t_occs st /\
    FRS st' ((rev (combine (combine ns_r ls_r) (le_rec ns_r [] lc)) ++ top) :: rest).
  Proof.
    induction ns_r as [|n ns' IH]; intros ls_r st top lastc Hl Hfr; cbn zeta.
    - split; [reflexivity|exact Hfr].
    - destruct ls_r as [|l0 ls']; [split; [reflexivity|exact Hfr]|].
      cbn [combine fold_left le_rec rev].
      set (v := mkV (fst (n, l0)) (snd (n, l0)) lastc (match lastc with RNone => true | _ => false end)).
      assert (Hv : VR v ((n, l0), negb lc)) by (repeat split; cbn; auto).
      destruct (IH ls' (add_var v st) (((n, l0), negb lc) :: top) lastc Hl (FRS_add _ _ _ _ _ Hv Hfr)) as [H1 H2].
      split.
      + rewrite H1. apply add_var_occs.
      + rewrite <- app_assoc. exact H2.
  Qed.

  Lemma local_loop_sim (en : env) (Exc : excp) (seg : env) (rest : list env) (ns : list (list N)) (es : list exp)
        (lc : bool) :
    lc = match rev es with ECall _ _ _ _ :: _ => true | _ => false end ->
    EQ Exc (concat (seg :: rest)) en ->
    forall es_r ns_r ls_r earlier pre done st lastc k,
    ns = earlier ++ ns_r -> length earlier = k -> es = pre ++ es_r ->
    length ns_r = length ls_r -> (length es_r <= length ns_r)%nat ->
    Forall (PeSim flv slv reg) es_r ->
    (es_r = [] -> lc = true -> lastc <> RNone) ->
    (forall n, efind done n <> None -> name_in n earlier = true) ->
    FRS st ((done ++ seg) :: rest) ->
    exists news cs,
      t_occs (local_loop (map (fun e => (e, tr_exp flv e)) es_r) (combine ns_r ls_r) lastc st) = rev news ++ t_occs st /\
      FRS (local_loop (map (fun e => (e, tr_exp flv e)) es_r) (combine ns_r ls_r) lastc st)
          ((rev (combine (combine ns_r ls_r) (le_rec ns_r es_r lc)) ++ done ++ seg) :: rest) /\
      Permutation cs (ccore (concat (index_map (fun i eo => tag_local_init en ns i (fst eo) (snd eo)) k
                                               (map (fun e => (e, b_exp flv slv reg e en)) es_r)))) /\
      Forall2 (Rc (fun nm => cl_local_loop (map (fun e => (e, tr_exp flv e, cl_exp nm flv e)) es_r)
                                           (combine ns_r ls_r) st) Exc) news cs.
  Proof.
    intros Hlc Heq.
    induction es_r as [|e es' IH]; intros ns_r ls_r earlier pre done st lastc k Hns Hk Hes Hlen Hle Hsim Hlast Hdone Hfr.
    - exists [], []. cbn [map local_loop].
      destruct (local_rest_sim lc rest ns_r ls_r st (done ++ seg) lastc) as [H1 H2].
      + intros Hr. destruct lc; [|reflexivity]. exfalso. apply (Hlast eq_refl eq_refl).
        destruct lastc; [reflexivity|discriminate..].
      + exact Hfr.
      + cbn zeta in H1, H2. repeat split.
        * exact H1.
        * exact H2.
        * apply Permutation_refl.
        * constructor.
    - destruct ns_r as [|n ns']; [cbn in Hle; lia|].
      destruct ls_r as [|l0 ls']; [discriminate|].
      pose proof (Forall_inv Hsim) as He. pose proof (Forall_inv_tail Hsim) as Hsim'. subst es.
      cbn [map combine local_loop cl_local_loop le_rec index_map concat fst snd].
      (* the initialiser, visited with the earlier names already declared *)
      assert (Heq' : EQ (exc_local Exc en earlier) (concat ((done ++ seg) :: rest)) en).
      { cbn [concat]. rewrite <- app_assoc. apply EQ_extras; [exact Hdone|exact Heq]. }
      destruct (He st ((done ++ seg) :: rest) en (exc_local Exc en earlier) Hfr ltac:(discriminate) Heq')
        as [n1 [k1 [A1 [A2 [A3 A4]]]]].
      set (st1 := tr_exp flv e st) in *.
      set (v := mkV n l0 (ref_of_exp e) (refer_empty n e)).
      assert (Hv : VR v ((n, l0), refer_empty n e)) by (repeat split; cbn; auto).
      pose proof (FRS_add _ _ _ _ _ Hv A2) as Hfr2.
      destruct (IH ns' ls' (earlier ++ [n]) (pre ++ [e]) (((n, l0), refer_empty n e) :: done) (add_var v st1)
                   (match e with ECall _ _ _ _ => ref_of_exp e | _ => RNone end) (S k))
        as [n2 [k2 [B1 [B2 [B3 B4]]]]].
      + rewrite <- app_assoc. exact Hns.
      + rewrite app_length, Hk. cbn. lia.
      + rewrite <- app_assoc. reflexivity.
      + cbn in Hlen. lia.
      + cbn in Hle. lia.
      + exact Hsim'.
      + intros He' Hl. subst es'. rewrite rev_app_distr in Hlc. cbn in Hlc.
        rewrite Hl in Hlc. destruct e; try discriminate Hlc. cbn. intros Hx. discriminate Hx.
      + intros m Hm. rewrite efind_cons in Hm. cbn [fst snd] in Hm. rewrite name_in_app.
        destruct (beq_bytes n m) eqn:Enm.
        * apply beq_bytes_eq in Enm. subst m. cbn. rewrite beq_refl. apply orb_true_r.
        * rewrite (Hdone m Hm). reflexivity.
      + exact Hfr2.
      + exists (n1 ++ n2), (map (retag en earlier) k1 ++ k2). repeat split.
        * rewrite B1, add_var_occs, A1, rev_app_distr, app_assoc. reflexivity.
        * cbn [rev]. rewrite <- app_assoc. exact B2.
        * rewrite ccore_app. apply Permutation_app; [|exact B3].
          rewrite ccore_tag_local_init.
          assert (Hf : firstn k (earlier ++ n :: ns') = earlier).
          { rewrite <- Hk. rewrite firstn_app, Nat.sub_diag, firstn_all. cbn. apply app_nil_r. }
          rewrite Hns, Hf. apply Permutation_map. exact A3.
        * apply Forall2_app.
          -- eapply Rc_mono; [|apply Forall2_map_r; apply (Forall2_impl _ _ _ _ (fun o c => Rc_retag _ Exc en earlier o c) A4)].
             intros m Hm. cbv beta in Hm. apply andb_true_iff in Hm. apply Hm.
          -- eapply Rc_mono; [|exact B4]. intros m Hm. cbv beta in Hm. apply andb_true_iff in Hm. apply Hm.
  Qed.

  Lemma local_sim ns ls ats es l :
    length ns = length ls -> (length es <= length ns)%nat -> Forall (PeSim flv slv reg) es ->
    SimS (tr_stat flv slv (SLocal ns ls ats es l)) (fun nm => cl_stat nm flv slv (SLocal ns ls ats es l))
         (fun en => b_stat flv slv reg (SLocal ns ls ats es l) en).
  Proof.
    intros Hlen Hle Hsim st seg rest en Exc Hfr Heq.
    set (lc := match rev es with ECall _ _ _ _ :: _ => true | _ => false end).
    destruct (local_loop_sim en Exc seg rest ns es lc eq_refl Heq es ns ls [] [] [] st RNone O)
      as [news [cs [H1 [H2 [H3 H4]]]]]; auto.
    - intros He Hl. subst es. discriminate.
    - exists news, cs, (rev (combine (combine ns ls) (le_rec ns es lc)) ++ seg).
      cbn [tr_stat b_stat cl_stat fst snd]. repeat split.
      + exact H1.
      + exact H2.
      + rewrite push_decls_rev, local_empties_rec. fold lc. cbn [concat]. rewrite <- app_assoc.
        apply EQ_app. exact Heq.
      + rewrite ccore_app, ccore_decl_pairs, app_nil_r. exact H3.
      + exact H4.
  Qed.
End LocalLoop.
