(* Traversal resolver = Lua's binder, part 3: `local n_0, ..., n_k = e_0, ..., e_m` (local_loop of Model/Scope.v).
   Since fixes/C07-multi-local-order.diff the traversal visits ALL the initialisers in the environment of the
   statement and adds the names afterwards - exactly what the reference binder does; the former exception set (class
   B3, tag CB3: uses of an earlier name of the statement in a later initialiser) is gone. *)
From Coq Require Import List NArith ZArith Bool Lia Permutation.
From LH Require Import Base.Bytes Model.Lexer Model.Ast Model.Scope Spec.LuaScope
  Proofs.TraverseBindDefs Proofs.TraverseBindSim Proofs.TraverseBindLoops.
Import ListNotations.
Local Open Scope Z_scope.

(* ------------------------------------------------------------------ list indices *)
Lemma skipn_nil_nth {A} : forall k (l : list A), skipn k l = [] -> nth_error l k = None /\ skipn (S k) l = [].
Proof.
  induction k as [|k IH]; intros l H.
  - cbn in H. subst l. split; reflexivity.
  - destruct l as [|x r]; [split; reflexivity|]. cbn [skipn] in H. apply IH in H. exact H.
Qed.

Lemma skipn_cons_nth {A} : forall k (l : list A) x r,
  skipn k l = x :: r -> nth_error l k = Some x /\ skipn (S k) l = r.
Proof.
  induction k as [|k IH]; intros l x r H.
  - cbn in H. subst l. split; reflexivity.
  - destruct l as [|y r']; [discriminate|]. cbn [skipn] in H. apply IH in H. exact H.
Qed.

Fixpoint le_rec (ns : list (list N)) (es : list exp) (lc : bool) {struct ns} : list bool :=
  match ns with
  | [] => []
  | n :: ns' =>
    match es with
    | e :: es' => refer_empty n e :: le_rec ns' es' lc
    | [] => negb lc :: le_rec ns' [] lc
    end
  end.

Lemma index_map_le_rec es lc : forall ns k,
  index_map (fun i n => match nth_error es i with Some e => refer_empty n e | None => negb lc end) k ns
  = le_rec ns (skipn k es) lc.
Proof.
  induction ns as [|n r IH]; intros k; [reflexivity|].
  cbn [index_map le_rec]. destruct (skipn k es) as [|e es'] eqn:E.
  - destruct (skipn_nil_nth _ _ E) as [H1 H2]. rewrite H1, IH, H2. reflexivity.
  - destruct (skipn_cons_nth _ _ _ _ E) as [H1 H2]. rewrite H1, IH, H2. reflexivity.
Qed.

Lemma local_empties_rec ns es :
  local_empties ns es = le_rec ns es (match rev es with ECall _ _ _ _ :: _ => true | _ => false end).
Proof. unfold local_empties. rewrite index_map_le_rec. reflexivity. Qed.

Lemma push_decls_rev : forall nls emp en, push_decls en nls emp = rev (combine nls emp) ++ en.
Proof.
  unfold push_decls. intros nls emp. generalize (combine nls emp) as l. clear.
  induction l as [|x r IH]; intros en; [reflexivity|].
  cbn [fold_left rev]. rewrite IH, <- app_assoc. reflexivity.
Qed.

Lemma loc_eqb_refl l : loc_eqb l l = true.
Proof. unfold loc_eqb. rewrite !Z.eqb_refl. reflexivity. Qed.
Lemma binding_eqb_refl b : binding_eqb b b = true.
Proof. destruct b; cbn; [apply loc_eqb_refl|apply beq_refl]. Qed.

Lemma ccore_decl_pairs en flv slv reg (l : list (list N * loc * bool)) :
  ccore (map (fun x => decl_occ en flv slv reg (snd x) (fst x)) l) = [].
Proof. induction l as [|x r IH]; [reflexivity|]. cbn. exact IH. Qed.

(* the initialisers carry no class tag of their own (since fixes/C05-own-initialiser.diff) *)
Lemma ccore_local_inits en ns (f : exp -> list socc) : forall es k,
  ccore (concat (index_map (fun i eo => tag_local_init en ns i (fst eo) (snd eo)) k (map (fun e => (e, f e)) es)))
  = ccore (flat_map f es).
Proof.
  induction es as [|e r IH]; intros k; [reflexivity|].
  cbn [map index_map concat flat_map fst snd]. rewrite !ccore_app, IH. reflexivity.
Qed.

(* ------------------------------------------------------------------ the loop *)
Section LocalLoop.
  Variables (flv slv : Z) (reg : loc).

  (* names beyond the initialisers *)
  Lemma local_rest_sim lc (il : option loc) rest : forall ns_r ls_r st top (lastc : refexp),
    ((match lastc with RNone => true | _ => false end) = true -> negb lc = true) ->
    FRS st (top :: rest) ->
    let st' := fold_left (fun s nl => add_var (mkV5 (fst nl) (snd nl) lastc
                                                    (match lastc with RNone => true | _ => false end) il None) s)
                         (combine ns_r ls_r) st in
    t_occs st' = t_occs st /\
    FRS st' ((rev (combine (combine ns_r ls_r) (le_rec ns_r [] lc)) ++ top) :: rest).
  Proof.
    induction ns_r as [|n ns' IH]; intros ls_r st top lastc Hl Hfr; cbn zeta.
    - split; [reflexivity|exact Hfr].
    - destruct ls_r as [|l0 ls']; [split; [reflexivity|exact Hfr]|].
      cbn [combine fold_left le_rec rev].
      set (v := mkV5 (fst (n, l0)) (snd (n, l0)) lastc (match lastc with RNone => true | _ => false end) il None).
      assert (Hv : VR v ((n, l0), negb lc)) by (repeat split; cbn; auto).
      destruct (IH ls' (add_var v st) (((n, l0), negb lc) :: top) lastc Hl (FRS_add _ _ _ _ _ Hv Hfr)) as [H1 H2].
      split.
      + rewrite H1. apply add_var_occs.
      + rewrite <- app_assoc. exact H2.
  Qed.

  (* the names are added after all the initialisers were visited: no occurrence is logged, the innermost frame gets
     the declarations with the flags of local_empties *)
  Lemma local_adds_sim (es : list exp) (lc : bool) (il : option loc) rest :
    lc = match rev es with ECall _ _ _ _ :: _ => true | _ => false end ->
    forall es_r ns_r ls_r pre st top lastc,
    es = pre ++ es_r -> length ns_r = length ls_r ->
    (es_r = [] -> lc = true -> lastc <> RNone) ->
    FRS st (top :: rest) ->
    t_occs (local_adds es_r (combine ns_r ls_r) lastc il st) = t_occs st /\
    FRS (local_adds es_r (combine ns_r ls_r) lastc il st)
        ((rev (combine (combine ns_r ls_r) (le_rec ns_r es_r lc)) ++ top) :: rest).
  Proof.
    intros Hlc. induction es_r as [|e es' IH]; intros ns_r ls_r pre st top lastc Hes Hlen Hlast Hfr.
    - cbn [local_adds]. apply (local_rest_sim lc il rest ns_r ls_r st top lastc); [|exact Hfr].
      intros Hr. destruct lc; [|reflexivity]. exfalso. apply (Hlast eq_refl eq_refl).
      destruct lastc; [reflexivity|discriminate..].
    - destruct ns_r as [|n ns']; [cbn [combine local_adds le_rec rev app]; split; [reflexivity|exact Hfr]|].
      destruct ls_r as [|l0 ls']; [discriminate|].
      cbn [combine local_adds le_rec rev].
      set (v := mkV5 n l0 (ref_of_exp e) (refer_empty n e) il (tab_of_exp e)).
      assert (Hv : VR v ((n, l0), refer_empty n e)) by (repeat split; cbn; auto).
      destruct (IH ns' ls' (pre ++ [e]) (add_var v st) (((n, l0), refer_empty n e) :: top)
                   (match e with ECall _ _ _ _ => ref_of_exp e | _ => RNone end)) as [H1 H2].
      + rewrite <- app_assoc. exact Hes.
      + cbn in Hlen. lia.
      + intros He' Hl. subst es'. rewrite Hes, rev_app_distr in Hlc. cbn in Hlc.
        rewrite Hl in Hlc. destruct e; try discriminate Hlc. cbn. intros Hx. discriminate Hx.
      + apply FRS_add; assumption.
      + split.
        * rewrite H1. apply add_var_occs.
        * rewrite <- app_assoc. exact H2.
  Qed.

  Lemma local_sim ns ls ats es l :
    length ns = length ls -> Forall (PeSim flv slv reg) es ->
    SimS (tr_stat flv slv (SLocal ns ls ats es l)) (fun nm => cl_stat nm flv slv (SLocal ns ls ats es l))
         (fun en => b_stat flv slv reg (SLocal ns ls ats es l) en).
  Proof.
    intros Hlen Hsim st seg rest en Exc Hfr Heq.
    set (lc := match rev es with ECall _ _ _ _ :: _ => true | _ => false end).
    pose proof (SimE_list (fun e => tr_exp flv e) (fun e nm => cl_exp nm flv e) (fun e en => b_exp flv slv reg e en)
                          es Hsim) as HL.
    destruct (HL st (seg :: rest) en Exc Hfr ltac:(discriminate) Heq) as [news [cs [A1 [A2 [A3 A4]]]]].
    destruct (local_adds_sim es lc (init_loc ns ls es l) rest eq_refl es ns ls []
                             (apply_all (map (fun e => tr_exp flv e) es) st) seg RNone eq_refl Hlen) as [B1 B2].
    - intros He Hl. subst es. discriminate.
    - exact A2.
    - exists news, cs, (rev (combine (combine ns ls) (le_rec ns es lc)) ++ seg).
      cbn [tr_stat b_stat cl_stat fst snd].
      pose proof (local_loop_shape (fun e => tr_exp flv e) es (combine ns ls) RNone (init_loc ns ls es l) st) as Eloop.
      cbv beta in Eloop.
      unfold tT in Eloop. rewrite Eloop. repeat split.
      + rewrite B1. exact A1.
      + exact B2.
      + rewrite push_decls_rev, local_empties_rec. fold lc. cbn [concat]. rewrite <- app_assoc.
        apply EQ_app. exact Heq.
      + rewrite ccore_app, ccore_decl_pairs, app_nil_r, ccore_local_inits. exact A3.
      + eapply Rc_mono; [|exact A4]. intros nm Hn. cbv beta in Hn |- *.
        pose proof (cl_local_loop_shape (fun e => tr_exp flv e) (fun e => cl_exp nm flv e) es (combine ns ls) st) as Ecl.
        cbv beta in Ecl. unfold tT, tC in Ecl. rewrite Ecl in Hn. exact Hn.
  Qed.
End LocalLoop.
