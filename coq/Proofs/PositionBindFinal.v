(* Position resolver = Lua's binder, part 8: from the skeleton to the scope tree of `analyse`, and the theorems about
   resolve_local (C05) and complete_locals (C14). *)
From Coq Require Import List NArith ZArith Bool Lia.
From LH Require Import Base.Bytes Model.Lexer Model.Ast Model.Scope Model.Globals Model.Resolve Spec.LuaScope
  Proofs.ResolveBasics Proofs.ResolveWitness
  Proofs.PositionBindBase Proofs.PositionBindShape Proofs.PositionBindKeys Proofs.PositionBindFacts Proofs.PositionBindLook
  Proofs.PositionBindPos Proofs.PositionBindLocal Proofs.PositionBindMain Proofs.PositionBindOcc.
Import ListNotations.
Local Open Scope Z_scope.

(* ------------------------------------------------------------------ trees that differ only in IsExpEmpty flags *)
Definition veq (v v' : ventry) : Prop :=
  v_name v' = v_name v /\ (v_loc v' = v_loc v /\ v_init v' = v_init v /\ v_tab v' = v_tab v) /\ v_ref v' = v_ref v.
Inductive seq : scope -> scope -> Prop :=
| seq_intro l vs vs' ss ss' : Forall2 veq vs vs' -> Forall2 seq ss ss' -> seq (Scope l vs ss) (Scope l vs' ss').

Fixpoint tree_vars (s : scope) {struct s} : list ventry :=
  match s with Scope _ vs ss => vs ++ flat_map tree_vars ss end.

(* guard (class B4 excluded program-wide): no assignment `n = <name | call | function>` to a name that some local of
   the file carries while declared without a value; and the (always true) static fact that an entry created without
   a value has no ReferExp *)
Definition no_repoint (P : block) : bool :=
  forallb (fun a : list N * loc * exp =>
             is_rnone (ref_of_exp (snd a))
             || negb (existsb (fun v => v_empty v && beq_bytes (v_name v) (fst (fst a))) (tree_vars (sk_root P))))
          (asg_block P)
  && forallb (fun v => negb (v_empty v) || is_rnone (v_ref v)) (tree_vars (sk_root P)).

Lemma Forall2_impl_in {X Y} (R R' : X -> Y -> Prop) l l' :
  Forall2 R l l' -> (forall x y, In x l -> R x y -> R' x y) -> Forall2 R' l l'.
Proof.
  intros H. induction H as [|x y r r' Hxy Hr IH]; intros Himp; constructor.
  - apply Himp; [left; reflexivity|exact Hxy].
  - apply IH. intros a b Ha. apply Himp. right. exact Ha.
Qed.

Lemma Forall2_in_l {X Y} (R : X -> Y -> Prop) l l' x : Forall2 R l l' -> In x l -> exists y, In y l' /\ R x y.
Proof.
  intros H. induction H as [|a b r r' Hab Hr IH]; intros Hin; [destruct Hin|].
  destruct Hin as [<-|Hin]; [exists b; split; [left; reflexivity|exact Hab]|].
  destruct (IH Hin) as (y & Hy & Hr'). exists y. split; [right; exact Hy|exact Hr'].
Qed.

Lemma sstep_seq A : forall S,
  (forall v, In v (tree_vars S) -> forall v', vstep A v v' -> veq v v') -> forall T, sstep A S T -> seq S T.
Proof.
  induction S as [l vs ss IH] using scope_ind'. intros Hv T Hst.
  inversion Hst as [l0 vs0 vs' ss0 ss' Hvs Hss]; subst. constructor.
  - eapply Forall2_impl_in; [exact Hvs|]. intros x y Hx Hxy. apply Hv; [|exact Hxy]. cbn [tree_vars]. apply in_or_app. left. exact Hx.
  - assert (Hsub : forall x, In x ss -> forall v, In v (tree_vars x) -> forall v', vstep A v v' -> veq v v').
    { intros x Hx v Hvx. apply Hv. cbn [tree_vars]. apply in_or_app. right. apply in_flat_map. eauto. }
    clear Hv Hst Hvs. revert IH Hsub. induction Hss as [|x y r r' Hxy Hr IHr]; intros IH Hsub; constructor.
    + inversion IH as [|? ? Hx _]; subst. apply Hx; [apply Hsub; left; reflexivity|exact Hxy].
    + inversion IH as [|? ? _ Hrest]; subst. apply IHr; [exact Hrest|]. intros a Ha. apply Hsub. right. exact Ha.
Qed.

Lemma guard_veq P v v' :
  no_repoint P = true -> In v (tree_vars (sk_root P)) -> vstep (asg_block P) v v' -> veq v v'.
Proof.
  unfold no_repoint. intros Hg Hin Hst. apply andb_true_iff in Hg. destruct Hg as [Hg1 Hg2].
  rewrite forallb_forall in Hg1, Hg2.
  destruct Hst as [->|(He & Hn & Hl & Hr)]; [repeat split|].
  split; [exact Hn|]. split; [exact Hl|].
  destruct Hr as [Hr|(n & tl & e & Hin2 & Hb & _ & Hre)]; [exact Hr|].
  pose proof (Hg2 v Hin) as H2. rewrite He in H2. cbn [negb orb] in H2.
  assert (Hvr : v_ref v = RNone) by (destruct (v_ref v); try discriminate; reflexivity).
  pose proof (Hg1 _ Hin2) as H1. cbn [fst snd] in H1. apply orb_true_iff in H1. destruct H1 as [H1|H1].
  - rewrite Hre, Hvr. destruct (ref_of_exp e); try discriminate. reflexivity.
  - exfalso. apply negb_true_iff in H1.
    assert (Hex : existsb (fun v0 => v_empty v0 && beq_bytes (v_name v0) n) (tree_vars (sk_root P)) = true).
    { apply existsb_exists. exists v. split; [exact Hin|]. rewrite He, Hb. reflexivity. }
    congruence.
Qed.

Theorem analyse_seq P : core_b P -> no_repoint P = true -> seq (sk_root P) (fi_root (analyse P)).
Proof.
  intros Hc Hg. apply (sstep_seq (asg_block P)); [|apply analyse_shape; exact Hc].
  intros v Hv v' Hst. eapply guard_veq; eauto.
Qed.

(* ------------------------------------------------------------------ FindMinScope / FindLocVar do not see the flags *)
Section Transfer.
  Variable line col : Z.
  Variable n : list N.
  Notation pl := (pl line col).

  Lemma seq_loc S T : seq S T -> scope_loc T = scope_loc S.
  Proof. intros H. destruct H. reflexivity. Qed.

  Lemma scan_seq ss ss' : Forall2 seq ss ss' ->
    match scan line col ss with
    | Some X => exists X', scan line col ss' = Some X' /\ seq X X'
    | None => scan line col ss' = None
    end.
  Proof.
    intros H. induction H as [|x y r r' Hxy Hr IH]; [reflexivity|]. cbn [scan]. rewrite (seq_loc _ _ Hxy).
    destruct (el (scope_loc x) <? line); [exact IH|].
    destruct (in_location (scope_loc x) line col); [exists y; split; [reflexivity|exact Hxy]|].
    destruct (sl (scope_loc x) >? line); [reflexivity|exact IH].
  Qed.

  Lemma path_seq S c : path line col S c -> forall T, seq S T ->
    exists c', path line col T c' /\ Forall2 (Forall2 veq) c c'.
  Proof.
    intros Hp. induction Hp as [l vars subs Hs|l vars subs X c Hs Hp IH]; intros T Hst;
      inversion Hst as [l0 vs0 vs' ss0 ss' Hvs Hss]; subst; pose proof (scan_seq _ _ Hss) as Hsc; rewrite Hs in Hsc.
    - exists [vs']. split; [apply path_here; exact Hsc|constructor; [exact Hvs|constructor]].
    - destruct Hsc as (X' & Hs' & Hxx). destruct (IH X' Hxx) as (c' & Hp' & Hcc).
      exists (c' ++ [vs']). split; [eapply path_down; eauto|]. apply Forall2_app; [exact Hcc|constructor; [exact Hvs|constructor]].
  Qed.

  Lemma var_hit_veq v v' : veq v v' -> var_hit n pl v' = var_hit n pl v.
  Proof. intros (Hn & (Hl & Hi & Ht) & Hr). unfold var_hit, is_correct_position, init_hides. rewrite Hn, Hl, Hr, Hi, Ht. reflexivity. Qed.

  Lemma find_veq f f' : Forall2 veq f f' ->
    match find (var_hit n pl) f with
    | Some v => exists v', find (var_hit n pl) f' = Some v' /\ veq v v'
    | None => find (var_hit n pl) f' = None
    end.
  Proof.
    intros H. induction H as [|v v' r r' Hv Hr IH]; [reflexivity|]. cbn [find]. rewrite (var_hit_veq _ _ Hv).
    destruct (var_hit n pl v); [exists v'; split; [reflexivity|exact Hv]|exact IH].
  Qed.

  Lemma flv_veq c c' : Forall2 (Forall2 veq) c c' ->
    match find_loc_var c n pl with
    | Some v => exists v', find_loc_var c' n pl = Some v' /\ veq v v'
    | None => find_loc_var c' n pl = None
    end.
  Proof.
    intros H. induction H as [|f f' r r' Hf Hr IH]; [reflexivity|]. cbn [find_loc_var].
    pose proof (find_veq _ _ Hf) as Hfv. destruct (find (var_hit n pl) f) as [v|].
    - destruct Hfv as (v' & E & Hvv). rewrite E. exists v'. split; [reflexivity|exact Hvv].
    - rewrite Hfv. exact IH.
  Qed.
End Transfer.

(* ------------------------------------------------------------------ the chain at an occurrence *)
Definition guards (P : block) : Prop := in_fragment P = true /\ Laid2 P /\ no_repoint P = true.

(* what the main induction gives at an occurrence, read on the tree of `analyse` *)
Lemma chain_at_occ P W o col :
  in_fragment P = true -> laid2_b W P = true -> no_repoint P = true ->
  In o (bind_file P) -> sc (s_loc o) <= col <= ec (s_loc o) ->
  0 < W /\ 0 <= col < W /\ bindok o /\
  exists c c', chain_at (analyse P) (sl (s_loc o)) col = c' /\ Forall2 (Forall2 veq) c c' /\
               EnvC W (sl (s_loc o)) col (s_name o) [] o (c ++ [[]]).
Proof.
  intros Hfr HL Hg Hin Hcol. destruct (laid2_MG W P HL) as (HM & HW & Hsh).
  assert (Hc : core_b P) by (split; [exact Hfr|exact Hsh]).
  set (line := sl (s_loc o)).
  pose proof (proj2 (proj2 occ_marks) P Hc 0 0 (block_loc P) [] o Hin) as Hidm.
  pose proof (MG_open_close W _ _ HM) as HMb.
  assert (Hmk : mark_ok W (MIdS (s_loc o)) = true) by (apply (MG_in W _ _ HMb); exact (proj1 Hidm)).
  destruct (ids_ok W _ Hmk) as (Hse & Hlt & Hck). destruct (cok_bounds W _ Hck) as [Hsb Heb].
  assert (Hcolb : 0 <= col < W) by lia.
  split; [exact HW|]. split; [exact Hcolb|].
  assert (Hat : at_cur line col o) by (split; [reflexivity|exact Hcol]).
  pose proof (proj2 (proj2 (main_all W HW line col Hcolb (s_name o))) P Hc 0 0 (block_loc P) [] o HMb Hin Hat eq_refl) as Hcc.
  pose proof (cc_cur W line col (s_name o) _ _ _ _ _ HMb Hcc Hat) as Hcur.
  pose proof (cc_wrap W HW line col Hcolb (s_name o) (block_loc P) _ _ _ _ _ HM Hcc Hat) as Hcc2.
  destruct Hcc2 as [Hbo [_ Hco]]. split; [exact Hbo|].
  destruct (Hco [] [] (Forall_nil _) (Forall_nil _)) as (c & Hip & He). cbn [app] in Hip.
  destruct (open_close_cur W line col (block_loc P) (m2_block P) (s_loc o) HM Hidm Hcur) as [Hcl Hok].
  fold (sk_root P) in Hip.
  assert (Hscan : scan line col [sk_root P] = Some (sk_root P)).
  { apply (scan_single W HW line col Hcolb [] (sk_root P) [] (Forall_nil _)); [exact (proj1 Hcl)|exact (proj2 Hcl)|exact Hok]. }
  destruct Hip as [[Hn _]|(T0 & Hs & Hp)]; [congruence|]. rewrite Hscan in Hs. injection Hs as <-.
  pose proof (analyse_seq P Hc Hg) as Hseq.
  destruct (path_seq line col _ _ Hp _ Hseq) as (c' & Hp' & Hcc').
  exists c, c'. split; [|split; [exact Hcc'|exact He]].
  unfold chain_at. rewrite (min_chain_path line col _ _ Hp' []).
  - rewrite app_nil_r. reflexivity.
  - rewrite (seq_loc _ _ Hseq). cbn [sk_root scope_loc]. apply (in_location_iff W HW line col Hcolb); [exact Hok|exact Hcl].
Qed.

(* ------------------------------------------------------------------ C05: definition of a local *)
Definition define_local_core_stmt : Prop :=
  forall P, in_fragment P = true -> Laid2 P -> no_repoint P = true -> define_local_at classB_ok P.

Theorem define_local_core : define_local_core_stmt.
Proof.
  intros P Hfr [W HL] Hg o Hin Hcls d Hb col Hcol.
  destruct (chain_at_occ P W o col Hfr HL Hg Hin Hcol) as (HW & Hcolb & Hbo & c & c' & Hch & Hcc & He).
  unfold resolve_local. rewrite Hch. fold (pl (sl (s_loc o)) col).
  pose proof (flv_veq (sl (s_loc o)) col (s_name o) c c' Hcc) as Hf.
  assert (Hstrip : find_loc_var (c ++ [[]]) (s_name o) (pl (sl (s_loc o)) col) = find_loc_var c (s_name o) (pl (sl (s_loc o)) col)).
  { rewrite flv_last. destruct (find_loc_var c (s_name o) (pl (sl (s_loc o)) col)); reflexivity. }
  unfold EnvC, bindok in *. destruct (is_decl (s_role o)).
  - destruct He as (v & Hfv & Hvl). rewrite Hstrip in Hfv. rewrite Hfv in Hf. destruct Hf as (v' & Hf' & (_ & (Hl & _) & _)).
    rewrite Hf'. cbn [option_map]. rewrite Hl, Hvl. rewrite Hb in Hbo. injection Hbo as ->. reflexivity.
  - destruct He as (ien & Hen & _ & Hlook). rewrite app_nil_r in Hen. subst ien.
    specialize (Hlook Hcls). rewrite Hb in Hbo. unfold resolve in Hbo.
    destruct (env_find (s_env o) (s_name o)) as [[[n' d'] fl]|]; [|discriminate]. injection Hbo as ->.
    destruct Hlook as (v & Hfv & Hvl). rewrite Hstrip in Hfv. rewrite Hfv in Hf. destruct Hf as (v' & Hf' & (_ & (Hl & _) & _)).
    rewrite Hf'. cbn [option_map]. rewrite Hl, Hvl. reflexivity.
Qed.

(* ------------------------------------------------------------------ FindMinScope is complete: the chain covers the
   binder's environment (layers 1-2), and hence completion offers every visible local (C14) *)
Definition chain_covers_env_stmt : Prop :=
  forall P, in_fragment P = true -> Laid2 P -> no_repoint P = true ->
  forall o, In o (bind_file P) -> is_decl (s_role o) = false ->
  forall col, sc (s_loc o) <= col <= ec (s_loc o) ->
  forall x, In x (s_env o) ->
  exists vars v, In vars (chain_at (analyse P) (sl (s_loc o)) col) /\ In v vars /\
                 v_name v = fst (fst x) /\ v_loc v = snd (fst x) /\ decl_before (sl (s_loc o)) col v = true.

Theorem chain_covers_env : chain_covers_env_stmt.
Proof.
  intros P Hfr [W HL] Hg o Hin Hd col Hcol x Hx.
  destruct (chain_at_occ P W o col Hfr HL Hg Hin Hcol) as (HW & Hcolb & Hbo & c & c' & Hch & Hcc & He).
  unfold EnvC in He. rewrite Hd in He. destruct He as (ien & Hen & Hcov & _). rewrite app_nil_r in Hen. subst ien.
  destruct (Hcov x Hx) as (f & v & Hf & Hv & Hent & (Hsb & Hlo)).
  apply in_app_or in Hf. destruct Hf as [Hf|[<-|[]]]; [|destruct Hv].
  destruct (Forall2_in_l _ _ _ f Hcc Hf) as (f' & Hf' & Hff). destruct (Forall2_in_l _ _ _ v Hff Hv) as (v' & Hv' & (Hn & (Hl & _) & _)).
  exists f', v'. rewrite Hch. split; [exact Hf'|]. split; [exact Hv'|].
  subst x. unfold ent. cbn [fst snd]. split; [exact Hn|]. split; [exact Hl|].
  unfold decl_before. rewrite Hl. unfold lo, K in Hlo.
  apply (key_le W HW _ _ _ _ Hsb Hcolb) in Hlo.
  destruct (sl (v_loc v) >? sl (s_loc o)) eqn:E1; destruct (sl (v_loc v) =? sl (s_loc o)) eqn:E2;
    destruct (sc (v_loc v) >? col) eqn:E3; cbn; try reflexivity; lia.
Qed.

Definition complete_locals_core_stmt : Prop :=
  forall P, in_fragment P = true -> Laid2 P -> no_repoint P = true ->
  forall o, In o (bind_file P) -> is_decl (s_role o) = false ->
  forall col, sc (s_loc o) <= col <= ec (s_loc o) ->
  forall x, In x (s_env o) -> In (fst (fst x)) (complete_locals (analyse P) (sl (s_loc o)) col).

Theorem complete_locals_core : complete_locals_core_stmt.
Proof.
  intros P Hfr HL Hg o Hin Hd col Hcol x Hx.
  destruct (chain_covers_env P Hfr HL Hg o Hin Hd col Hcol x Hx) as (vars & v & Hvars & Hv & Hn & _ & Hdb).
  unfold complete_locals. apply in_flat_map. exists vars. split; [exact Hvars|].
  rewrite <- Hn. apply in_map. apply filter_In. split; assumption.
Qed.
