(* Traversal resolver = Lua's binder, corollary for find-references / rename (C06, C11):
   for a LOCAL target the answer of `references_at` is the declaration followed by exactly (as a set) the
   non-declaration occurrences the reference binder binds to that declaration. *)
From Coq Require Import List NArith ZArith Bool Lia Permutation.
From LH Require Import Base.Bytes Model.Lexer Model.Ast Model.Scope Model.Globals Model.Resolve Spec.LuaScope
  Proofs.TraverseBindDefs Proofs.TraverseBindSim Proofs.TraverseBindLoops Proofs.TraverseBindLocal Proofs.TraverseBind.
Import ListNotations.
Local Open Scope Z_scope.

Lemma loc_eqb_eq a b : loc_eqb a b = true -> a = b.
Proof.
  unfold loc_eqb. intros H. repeat (apply andb_true_iff in H; destruct H as [H ?]).
  destruct a, b. cbn in *. f_equal; apply Z.eqb_eq; assumption.
Qed.

Lemma binding_eqb_local b d : binding_eqb b (BLocal d) = true <-> b = BLocal d.
Proof.
  split.
  - destruct b; cbn; [|discriminate]. intros H. apply loc_eqb_eq in H. subst. reflexivity.
  - intros ->. apply binding_eqb_refl.
Qed.

(* no occurrence of the name carries the multi-local tag *)
Definition no_cb3 (os : list socc) (n : list N) : bool :=
  negb (existsb (fun o => beq_bytes (s_name o) n && has_tag CB3 o) os).

Lemma classA_no_cb3 os n : classA_ok os n = true -> no_cb3 os n = true.
Proof.
  unfold classA_ok, no_cb3. intros H. apply negb_true_iff in H. apply negb_true_iff.
  destruct (existsb (fun o => beq_bytes (s_name o) n && has_tag CB3 o) os) eqn:E; [|reflexivity].
  apply existsb_exists in E. destruct E as [o [Hin Ho]]. apply andb_true_iff in Ho. destruct Ho as [Hn Ht].
  rewrite <- H. symmetry. apply existsb_exists. exists o. split; [exact Hin|]. rewrite Hn, Ht. reflexivity.
Qed.

Lemma no_cb3_spec os n s : no_cb3 os n = true -> In s os -> s_name s = n -> has_tag CB3 s = false.
Proof.
  unfold no_cb3. intros H Hin Hn. apply negb_true_iff in H.
  destruct (has_tag CB3 s) eqn:E; [|reflexivity].
  rewrite <- H. symmetry. apply existsb_exists. exists s. split; [exact Hin|]. rewrite Hn, beq_refl, E. reflexivity.
Qed.

(* layout of the declaration d of `name`: every occurrence bound to it is spelled `name`, and no use of it lies inside
   the declaration's own Loc (true of parser output: identifier Locs are pairwise disjoint token spans) *)
Definition decl_layout_ok (os : list socc) (name : list N) (d : loc) : bool :=
  forallb (fun s => negb (binding_eqb (s_bind s) (BLocal d))
                    || (beq_bytes (s_name s) name && (is_decl (s_role s) || negb (inside d (s_loc s))))) os.

(* the uses (reads and writes) the reference binder binds to declaration d *)
Definition spec_uses (P : block) (f : list N) (d : loc) : list floc :=
  map (fun s => (f, s_loc s))
      (filter (fun s => negb (is_decl (s_role s)) && binding_eqb (s_bind s) (BLocal d)) (bind_file P)).

Theorem refs_local_partial mode P w f name line col v :
  tb_shape P = true -> tr_clean P name = true -> no_cb3 (bind_file P) name = true ->
  decl_layout_ok (bind_file P) name (v_loc v) = true ->
  resolve_at w f (analyse P) name line col = TLocal v ->
  exists l', references_at mode w f (analyse P) name line col = Some ((f, v_loc v) :: l') /\
             forall x, In x l' <-> In x (spec_uses P f (v_loc v)).
Proof.
  intros Hs Hc Hb3 Hlay Hres. unfold references_at, references_of_target. rewrite Hres. cbv zeta.
  eexists. split; [reflexivity|].
  set (d := v_loc v) in *. intros x. unfold spec_uses. rewrite !in_map_iff. split.
  - intros [o [Hx Ho]]. apply filter_In in Ho. destruct Ho as [Hin Hm].
    apply andb_true_iff in Hm. destruct Hm as [Hm Hins].
    unfold occ_matches_local in Hm. apply andb_true_iff in Hm. destruct Hm as [Hm Hr].
    apply andb_true_iff in Hm. destruct Hm as [Hrev Hn]. apply beq_bytes_eq in Hn.
    destruct (o_res o) as [d'|] eqn:Er; [|discriminate]. apply loc_eqb_eq in Hr. subst d'.
    destruct (traverse_occ_has_spec P o Hs Hin) as [s [Hsin [Hnd [A1 [A2 [A3 [A5 A4]]]]]]].
    exists s. split; [rewrite <- A1; exact Hx|]. apply filter_In. split; [exact Hsin|].
    rewrite Hnd. cbn [negb andb]. apply binding_eqb_local. rewrite <- A4.
    + unfold tbind. rewrite Er. reflexivity.
    + rewrite Hn. exact Hc.
    + apply (no_cb3_spec (bind_file P) name); auto. rewrite <- A2. exact Hn.
  - intros [s [Hx Hsf]]. apply filter_In in Hsf. destruct Hsf as [Hsin Hsm].
    apply andb_true_iff in Hsm. destruct Hsm as [Hnd Hbd]. apply negb_true_iff in Hnd.
    unfold decl_layout_ok in Hlay. rewrite forallb_forall in Hlay. specialize (Hlay s Hsin).
    rewrite Hbd in Hlay. cbn [negb orb] in Hlay. apply andb_true_iff in Hlay. destruct Hlay as [Hname Hins].
    rewrite Hnd in Hins. cbn [orb] in Hins. apply beq_bytes_eq in Hname. apply binding_eqb_local in Hbd.
    destruct (spec_occ_has_traverse P s Hs Hsin Hnd) as [o [Hin [A1 [A2 [A3 [A5 A4]]]]]].
    assert (Hob : tbind o = BLocal d).
    { rewrite <- Hbd. apply A4.
      - rewrite A2, Hname. exact Hc.
      - apply (no_cb3_spec (bind_file P) name); auto. }
    assert (Hor : o_res o = Some d).
    { unfold tbind in Hob. destruct (o_res o); [injection Hob as ->; reflexivity|discriminate]. }
    exists o. split; [rewrite A1; exact Hx|]. apply filter_In. split; [exact Hin|].
    rewrite A1, Hins, andb_true_r. unfold occ_matches_local. rewrite Hor, loc_eqb_refl, andb_true_r.
    rewrite A2, Hname, beq_refl, andb_true_r. unfold revisited.
    destruct (o_kind o) eqn:Ek; try reflexivity. rewrite (A5 eq_refl) in Hor. discriminate.
Qed.

(* rename = references *)
Corollary rename_local_partial P w f name line col v :
  tb_shape P = true -> tr_clean P name = true -> no_cb3 (bind_file P) name = true ->
  decl_layout_ok (bind_file P) name (v_loc v) = true ->
  resolve_at w f (analyse P) name line col = TLocal v ->
  exists l', references_at MRename w f (analyse P) name line col = Some ((f, v_loc v) :: l') /\
             forall x, In x l' <-> In x (spec_uses P f (v_loc v)).
Proof. exact (refs_local_partial MRename P w f name line col v). Qed.

(* the same under the guard of the property files (classA_ok = no CB3 and no CB4 tag on any occurrence of the name) *)
Corollary refs_local_classA mode P w f name line col v :
  tb_shape P = true -> tr_clean P name = true -> classA_ok (bind_file P) name = true ->
  decl_layout_ok (bind_file P) name (v_loc v) = true ->
  resolve_at w f (analyse P) name line col = TLocal v ->
  exists l', references_at mode w f (analyse P) name line col = Some ((f, v_loc v) :: l') /\
             forall x, In x l' <-> In x (spec_uses P f (v_loc v)).
Proof.
  intros Hs Hc Ha. apply refs_local_partial; auto. apply classA_no_cb3. exact Ha.
Qed.

(* relation with same_var / spec_refs of Spec/LuaScope.v: the occurrences of the variable are its declaration
   occurrence(s) plus its uses *)
Lemma spec_refs_split P f o d x :
  s_bind o = BLocal d ->
  (In x (spec_refs [(f, bind_file P)] f o) <->
   In x (spec_uses P f d) \/
   exists s, In s (bind_file P) /\ is_decl (s_role s) = true /\ s_bind s = BLocal d /\ x = (f, s_loc s)).
Proof.
  intros Hb. unfold spec_refs, same_var, spec_uses, file_occs. rewrite Hb. cbn [find fst snd].
  rewrite beq_refl. rewrite !in_map_iff. split.
  - intros [s [Hx Hs]]. apply filter_In in Hs. destruct Hs as [Hin Hm].
    destruct (is_decl (s_role s)) eqn:Ed.
    + right. exists s. repeat split; auto. apply binding_eqb_local. exact Hm.
    + left. exists s. split; [exact Hx|]. apply filter_In. split; [exact Hin|]. rewrite Ed, Hm. reflexivity.
  - intros [[s [Hx Hs]]|[s [Hin [Hd [Hbs Hx]]]]].
    + apply filter_In in Hs. destruct Hs as [Hin Hm]. apply andb_true_iff in Hm. destruct Hm as [_ Hm].
      exists s. split; [exact Hx|]. apply filter_In. split; assumption.
    + exists s. split; [symmetry; exact Hx|]. apply filter_In. split; [exact Hin|].
      apply binding_eqb_local. exact Hbs.
Qed.

(* d is declared in the chunk, and the declaration occurrences bound to d sit at d (decl_occ binds a declaration to
   its own Loc) *)
Definition decl_self_ok (os : list socc) (d : loc) : bool :=
  existsb (fun s => is_decl (s_role s) && binding_eqb (s_bind s) (BLocal d) && loc_eqb (s_loc s) d) os
  && forallb (fun s => negb (is_decl (s_role s) && binding_eqb (s_bind s) (BLocal d)) || loc_eqb (s_loc s) d) os.

(* set equality with spec_refs / same_var, o = the reference occurrence the query is about *)
Theorem refs_local_same_var mode P w f name line col v o :
  tb_shape P = true -> tr_clean P name = true -> classA_ok (bind_file P) name = true ->
  decl_layout_ok (bind_file P) name (v_loc v) = true -> decl_self_ok (bind_file P) (v_loc v) = true ->
  resolve_at w f (analyse P) name line col = TLocal v ->
  s_bind o = BLocal (v_loc v) ->
  exists l, references_at mode w f (analyse P) name line col = Some l /\
            forall x, In x l <-> In x (spec_refs [(f, bind_file P)] f o).
Proof.
  intros Hs Hc Ha Hlay Hself Hres Hbo.
  destruct (refs_local_classA mode P w f name line col v Hs Hc Ha Hlay Hres) as [l' [Hl Hiff]].
  exists ((f, v_loc v) :: l'). split; [exact Hl|].
  unfold decl_self_ok in Hself. apply andb_true_iff in Hself. destruct Hself as [Hex Hall].
  rewrite forallb_forall in Hall. apply existsb_exists in Hex. destruct Hex as [sd [Hsd Hd]].
  apply andb_true_iff in Hd. destruct Hd as [Hd Hdl]. apply andb_true_iff in Hd. destruct Hd as [Hdd Hdb].
  apply loc_eqb_eq in Hdl. apply binding_eqb_local in Hdb.
  intros x. rewrite (spec_refs_split P f o (v_loc v) x Hbo). split.
  - intros [Hx|Hx].
    + right. exists sd. repeat split; auto. rewrite Hdl. symmetry. exact Hx.
    + left. apply Hiff. exact Hx.
  - intros [Hx|[s [Hin [Hsd' [Hsb Hx]]]]].
    + right. apply Hiff. exact Hx.
    + left. specialize (Hall s Hin). rewrite Hsd' in Hall. rewrite (proj2 (binding_eqb_local _ _) Hsb) in Hall.
      cbn in Hall. apply loc_eqb_eq in Hall. rewrite Hx, Hall. reflexivity.
Qed.
