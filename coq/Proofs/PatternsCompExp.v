(* C20 - CompExp characterised: equality modulo Locs of constructor-free expressions; and its relation to the
   specification's "the same" (which also ignores grouping parentheses). *)
From Coq Require Import List NArith ZArith Bool Arith Lia.
From LH Require Import Base.Bytes Model.Lexer Model.Ast Model.Parser Spec.PatternSpec Model.Patterns Proofs.PatternsLocal.
Import ListNotations.

(* induction over the expression level of the tree (function bodies and table fields are not entered) *)
Section ExpInd.
  Variable P : exp -> Prop.
  Definition is_leaf (e : exp) : Prop :=
    match e with
    | EUnop _ _ _ | EBinop _ _ _ _ | EParens _ _ | EIndex _ _ _ | ECall _ _ _ _ => False
    | _ => True
    end.
  Hypothesis Hleaf : forall e, is_leaf e -> P e.
  Hypothesis Hunop : forall o x l, P x -> P (EUnop o x l).
  Hypothesis Hbinop : forall o a b l, P a -> P b -> P (EBinop o a b l).
  Hypothesis Hparens : forall x l, P x -> P (EParens x l).
  Hypothesis Hindex : forall p k l, P p -> P k -> P (EIndex p k l).
  Hypothesis Hcall : forall p nm args l, P p -> Forall P args -> P (ECall p nm args l).

  Fixpoint exp_ind_e (e : exp) : P e :=
    match e with
    | ENil l => Hleaf (ENil l) I
    | EBad l => Hleaf (EBad l) I
    | ETrue l => Hleaf (ETrue l) I
    | EFalse l => Hleaf (EFalse l) I
    | EVararg l => Hleaf (EVararg l) I
    | EInt v l => Hleaf (EInt v l) I
    | EFloat t l => Hleaf (EFloat t l) I
    | EStr s l => Hleaf (EStr s l) I
    | ETable ks vs l => Hleaf (ETable ks vs l) I
    | EFunc c f ps pl b l va co => Hleaf (EFunc c f ps pl b l va co) I
    | EName n l => Hleaf (EName n l) I
    | EUnop o x l => Hunop o x l (exp_ind_e x)
    | EBinop o a b l => Hbinop o a b l (exp_ind_e a) (exp_ind_e b)
    | EParens x l => Hparens x l (exp_ind_e x)
    | EIndex p k l => Hindex p k l (exp_ind_e p) (exp_ind_e k)
    | ECall p nm args l =>
      Hcall p nm args l (exp_ind_e p)
            ((fix go (xs : list exp) : Forall P xs :=
                match xs with
                | [] => Forall_nil P
                | x :: r => Forall_cons x (exp_ind_e x) (go r)
                end) args)
    end.
End ExpInd.

Section CompExp.
  Variable fclose : list N -> list N -> bool.

  Lemma comp_exp_sim_b : comp_exp fclose = sim_b fclose.
  Proof. reflexivity. Qed.

  (* the argument loop of CompExp *)
  Definition comp_args : list exp -> list exp -> bool :=
    fix go (l1 l2 : list exp) {struct l1} : bool :=
      match l1, l2 with
      | [], [] => true
      | x :: r, y :: s => comp_exp fclose x y && go r s
      | _, _ => false
      end.

  Definition name_cmp (nm nm' : option (list N * loc)) : bool :=
    match nm, nm' with
    | None, None => true
    | Some (s, _), Some (t, _) => beq_bytes s t
    | _, _ => false
    end.

  Lemma comp_exp_call p nm args l q nm' args' l' :
    comp_exp fclose (ECall p nm args l) (ECall q nm' args' l')
    = comp_exp fclose p q && name_cmp nm nm' && comp_args args args'.
  Proof. destruct nm as [[s ls]|], nm' as [[t lt]|]; reflexivity. Qed.

  Lemma name_eq_iff nm nm' : name_cmp nm nm' = true <-> name_eq nm nm'.
  Proof.
    destruct nm as [[s l]|], nm' as [[t l']|]; cbn; try (split; [discriminate|tauto]); [apply beq_bytes_eq|tauto].
  Qed.

  Lemma comp_args_iff args args' :
    Forall (fun x => forall y, comp_exp fclose x y = true <-> eq_mod_loc fclose x y /\ no_ctor x) args ->
    (comp_args args args' = true <-> Forall2 (eq_mod_loc fclose) args args' /\ Forall no_ctor args).
  Proof.
    intros HF. revert args'. induction HF as [|x r Hx HF IH]; intros [|y s]; cbn [comp_args].
    - split; auto.
    - split; [discriminate|intros [H _]; inversion H].
    - split; [discriminate|intros [H _]; inversion H].
    - rewrite andb_true_iff, Hx, IH. split.
      + intros [[H1 H2] [H3 H4]]. split; constructor; auto.
      + intros [H1 H2]. inversion H1; subst. inversion H2; subst. tauto.
  Qed.

  Ltac mismatch :=
    split; [discriminate|intros [H1 H2]; solve [inversion H1|inversion H2]].

  (* CompExp = equality modulo Locs, on expressions without function / table constructor *)
  Theorem comp_exp_characterisation a b :
    comp_exp fclose a b = true <-> eq_mod_loc fclose a b /\ no_ctor a.
  Proof.
    revert b. induction a using exp_ind_e; intros b0.
    - destruct a; cbn in H; try contradiction; clear H; destruct b0; cbn [comp_exp]; try mismatch.
      + split; [intros _; split; constructor|auto].
      + split; [intros _; split; constructor|auto].
      + split; [intros _; split; constructor|auto].
      + split; [intros _; split; constructor|auto].
      + rewrite Z.eqb_eq. split; [intros ->; split; constructor|intros [H _]; inversion H; auto].
      + split; [intros H; split; constructor; auto|intros [H _]; inversion H; auto].
      + rewrite beq_bytes_eq. split; [intros ->; split; constructor|intros [H _]; inversion H; auto].
      + rewrite beq_bytes_eq. split; [intros ->; split; constructor|intros [H _]; inversion H; auto].
    - destruct b0; cbn [comp_exp]; try mismatch.
      rewrite andb_true_iff, tk_eqb_eq, IHa. split.
      + intros [-> [H1 H2]]. split; constructor; auto.
      + intros [H1 H2]. inversion H1; subst. inversion H2; subst. tauto.
    - destruct b0; cbn [comp_exp]; try mismatch.
      rewrite !andb_true_iff, tk_eqb_eq, IHa1, IHa2. split.
      + intros [[-> [H1 H2]] [H3 H4]]. split; constructor; auto.
      + intros [H1 H2]. inversion H1; subst. inversion H2; subst. tauto.
    - destruct b0; cbn [comp_exp]; try mismatch.
      rewrite IHa. split.
      + intros [H1 H2]. split; constructor; auto.
      + intros [H1 H2]. inversion H1; subst. inversion H2; subst. tauto.
    - destruct b0; cbn [comp_exp]; try mismatch.
      rewrite !andb_true_iff, IHa1, IHa2. split.
      + intros [[H1 H2] [H3 H4]]. split; constructor; auto.
      + intros [H1 H2]. inversion H1; subst. inversion H2; subst. tauto.
    - destruct b0; try (cbn [comp_exp]; mismatch).
      rewrite comp_exp_call, !andb_true_iff, IHa, name_eq_iff, (comp_args_iff _ _ H). split.
      + intros [[[H1 H2] H3] [H4 H5]]. split; constructor; auto.
      + intros [H1 H2]. inversion H1; subst. inversion H2; subst. tauto.
  Qed.
End CompExp.
