(* C03, token level: every token list derivable in the grammar satisfies the guard of the soundness theorem
   (ends with its only EOF token, no token of kind "illegal"): the guard is necessary, not only sufficient. *)
From Coq Require Import List NArith ZArith Bool Arith Lia.
From LH Require Import Base.Bytes Base.Res Model.Lexer Model.Ast Model.Parser Spec.LuaGrammar.
From LH Require Import Proofs.ParserGrammarBase Proofs.ParserGrammarFlat Proofs.ParserGrammarComplete
     Proofs.ParserGrammarCompleteMain Proofs.ParserGrammarSoundBase.
Import ListNotations.

(* ------------------------------------------------------------------ derivable token lists end with their only EOF token and contain no illegal token *)
Lemma cons_okl_up t r : kd t <> TkEOF /\ kd t <> IKIllegal -> okl r -> okl (t :: r).
Proof. intros [N1 N2] [W L]. split; constructor; assumption. Qed.
Lemma T_okl_up k ts r : T k ts r -> k <> TkEOF /\ k <> IKIllegal -> okl r -> okl ts.
Proof. intros (t & -> & K) N W. apply cons_okl_up; [rewrite K; exact N | assumption]. Qed.
Lemma unop_good k : unop k = true -> k <> TkEOF /\ k <> IKIllegal.
Proof. destruct k; simpl; intros; try discriminate; split; discriminate. Qed.
Lemma binop_good k : binop k = true -> k <> TkEOF /\ k <> IKIllegal.
Proof. destruct k; simpl; intros; try discriminate; split; discriminate. Qed.
Lemma sep_good k : k = TkSepComma \/ k = TkSepSemi -> k <> TkEOF /\ k <> IKIllegal.
Proof. intros [->| ->]; split; discriminate. Qed.

Ltac tup := match goal with H : T ?k ?ts _ |- okl ?ts => apply (T_okl_up _ _ _ H); [split; discriminate|] end.

Lemma nametail_okl ts r : NameTail ts r -> okl r -> okl ts.
Proof. induction 1; intros W; auto. repeat tup. auto. Qed.
Lemma namelist_okl ts r : NameList ts r -> okl r -> okl ts.
Proof. intros (r1 & H1 & H2) W. tup. eapply nametail_okl; eauto. Qed.
Lemma attrib_okl c ts r : Attrib c ts r -> okl r -> okl ts.
Proof.
  intros H W. destruct H as [ts N | ts r1 t r2 r H1 E K S H2 | ts r1 t r2 r H1 E K S H2]; auto;
    (tup; subst r1; apply cons_okl_up; [split; congruence|]; tup; assumption).
Qed.
Lemma atttail_okl n ts r : AttTail n ts r -> okl r -> okl ts.
Proof. induction 1; intros W; auto. repeat tup. eapply attrib_okl; eauto. Qed.
Lemma attnamelist_okl n ts r : AttNameList n ts r -> okl r -> okl ts.
Proof.
  intros (c & m & r1 & r2 & H1 & H2 & H3 & _) W. tup.
  eapply attrib_okl; eauto. eapply atttail_okl; eauto.
Qed.
Lemma partail_okl ts r : ParTail ts r -> okl r -> okl ts.
Proof. induction 1; intros W; auto; repeat tup; auto. Qed.
Lemma parlist_okl ts r : ParList ts r -> okl r -> okl ts.
Proof. intros H W. destruct H; auto; repeat tup; auto. eapply partail_okl; eauto. Qed.
Lemma dotnames_okl ts r : DotNames ts r -> okl r -> okl ts.
Proof. induction 1; intros W; auto; repeat tup; auto. Qed.
Lemma funcname_okl ts r : FuncName ts r -> okl r -> okl ts.
Proof.
  intros (r1 & r2 & H1 & H2 & H3) W. tup. eapply dotnames_okl; eauto.
  destruct H3; auto. repeat tup. auto.
Qed.


Section OklUp.
  Variable classify : list N -> numcls.
  Definition Up (ts r : list ltok) : Prop := okl r -> okl ts.

  Ltac up :=
    repeat first
      [ assumption
      | match goal with
        | H : T ?k ?ts _ |- okl ?ts => apply (T_okl_up _ _ _ H); [split; discriminate|]
        | H : Up ?ts _ |- okl ?ts => apply H
        | H : NameList ?ts _ |- okl ?ts => apply (namelist_okl _ _ H)
        | H : AttNameList _ ?ts _ |- okl ?ts => apply (attnamelist_okl _ _ _ H)
        | H : ParList ?ts _ |- okl ?ts => apply (parlist_okl _ _ H)
        | H : FuncName ?ts _ |- okl ?ts => apply (funcname_okl _ _ H)
        | E : ?ts = ?t :: _ |- okl ?ts => rewrite E; apply cons_okl_up;
            [first [ apply unop_good; assumption | apply binop_good; assumption
                   | apply sep_good; assumption | split; congruence ] |]
        end ].

  Theorem okl_up_all :
    (forall ts r, Block classify ts r -> Up ts r) /\
    (forall ts r, RetTail classify ts r -> Up ts r) /\
    (forall ts r, Stats classify ts r -> Up ts r) /\
    (forall ts r, Stat classify ts r -> Up ts r) /\
    (forall ts r, IfTail classify ts r -> Up ts r) /\
    (forall ts r, ForStep classify ts r -> Up ts r) /\
    (forall ts r, VarTail classify ts r -> Up ts r) /\
    (forall ts r, ExpList classify ts r -> Up ts r) /\
    (forall ts r, ExpTail classify ts r -> Up ts r) /\
    (forall ts r, Exp classify ts r -> Up ts r) /\
    (forall ts r, Operand classify ts r -> Up ts r) /\
    (forall ts r, BinTail classify ts r -> Up ts r) /\
    (forall ts r, Simple classify ts r -> Up ts r) /\
    (forall (k : pkind) ts r, PrefixExp classify k ts r -> Up ts r) /\
    (forall (k0 : pkind) ts (k : pkind) r, Suffixes classify k0 ts k r -> Up ts r) /\
    (forall ts r, Args classify ts r -> Up ts r) /\
    (forall ts r, Table classify ts r -> Up ts r) /\
    (forall ts r, FieldTail classify ts r -> Up ts r) /\
    (forall ts r, Field classify ts r -> Up ts r) /\
    (forall ts r, FuncBody classify ts r -> Up ts r).
  Proof.
    apply (grammar_mind classify (fun ts r => Up ts r) (fun ts r => Up ts r) (fun ts r => Up ts r)
             (fun ts r => Up ts r) (fun ts r => Up ts r) (fun ts r => Up ts r) (fun ts r => Up ts r)
             (fun ts r => Up ts r) (fun ts r => Up ts r) (fun ts r => Up ts r) (fun ts r => Up ts r)
             (fun ts r => Up ts r) (fun ts r => Up ts r) (fun _ ts r => Up ts r) (fun _ ts _ r => Up ts r)
             (fun ts r => Up ts r) (fun ts r => Up ts r) (fun ts r => Up ts r) (fun ts r => Up ts r)
             (fun ts r => Up ts r)); intros; intros W; up.
  Qed.
End OklUp.

Lemma chunk_okl classify ts : Chunk classify ts -> okl ts.
Proof.
  intros (r & e & HB & -> & K). destruct (okl_up_all classify) as (U & _).
  apply (U _ _ HB). split; [constructor; exact K|]. constructor; [congruence | constructor].
Qed.
