(* Traversal resolver = Lua's binder, part 2: the simulations of the leaf operations (a logged name, an assignment
   target) and of the three loops of Model/Scope.v (if_loop, assign_loop, local_loop). *)
From Coq Require Import List NArith ZArith Bool Lia Permutation.
From LH Require Import Base.Bytes Model.Lexer Model.Ast Model.Scope Spec.LuaScope
  Proofs.TraverseBindDefs Proofs.TraverseBindSim.
Import ListNotations.
Local Open Scope Z_scope.

(* ------------------------------------------------------------------ a logged name *)
Lemma log_frames k n l st : t_frames (log k n l st) = t_frames st.
Proof. reflexivity. Qed.

Lemma FRS_frames st st' ens : t_frames st' = t_frames st -> FRS st ens -> FRS st' ens.
Proof. unfold FRS. intros ->. auto. Qed.

Lemma log_Rc Exc k r g n l st ens en b3 :
  FRS st ens -> EQ Exc (concat ens) en -> krole k r -> (k = ODefineG -> lookup st n l = None) ->
  Rc (fun nm => negb (beq_bytes n nm) || clean_at st n l) Exc
     (mkO k n l (option_map v_loc (lookup st n l)) g) (mkC l n (resolve en n) r b3).
Proof.
  intros Hfr Heq Hk Hd. repeat split; auto.
  { cbn [o_kind o_res]. intros Hk'. rewrite (Hd Hk'). reflexivity. }
  cbn [o_name c_name c_bind c_b3].
  rewrite beq_refl. cbn [negb orb]. intros Hc Hex _.
  unfold tbind. cbn [o_res o_name]. rewrite (lookup_clean_env _ _ _ _ Hfr Hc).
  destruct (Heq n) as [He|He]; [|contradiction].
  rewrite !resolve_efind, He. reflexivity.
Qed.

Lemma SimE_name flv slv reg n l :
  SimE (log OUse n l) (fun nm st => negb (beq_bytes n nm) || clean_at st n l)
       (fun en => [mkS l n (resolve en n) RRead flv slv reg false [] en]).
Proof.
  intros st ens en Exc Hfr Hne Heq.
  exists [mkO OUse n l (option_map v_loc (lookup st n l)) (has_global st n)], [mkC l n (resolve en n) RRead false].
  repeat split.
  - exact Hfr.
  - apply Permutation_refl.
  - constructor; [|constructor]. apply (log_Rc Exc OUse RRead _ n l st ens en false Hfr Heq I). discriminate.
Qed.

(* ------------------------------------------------------------------ an assignment target that is a plain name *)
Lemma SimE_assign_name flv slv reg n l eo :
  SimE (assign_name flv slv n l eo) (fun nm => cl_assign_name nm n l eo)
       (fun en => [mkS l n (resolve en n) RWrite flv slv reg false [] en]).
Proof.
  intros st ens en Exc Hfr Hne Heq.
  set (st1 := mkT (upd_frames (var_hit n l) (repoint n eo) (t_frames st)) (t_globals st) (t_occs st)).
  assert (Hfr1 : FRS st1 ens).
  { unfold FRS, st1. cbn [t_frames]. apply upd_frames_FRS; [|exact Hfr]. intros v x. apply VR_repoint. }
  unfold assign_name. fold st1.
  destruct (lookup st n l) as [v|] eqn:Hl.
  - exists [mkO OAssign n l (option_map v_loc (lookup st1 n l)) (has_global st1 n)],
           [mkC l n (resolve en n) RWrite false].
    repeat split.
    + exact Hfr1.
    + apply Permutation_refl.
    + constructor; [|constructor].
      pose proof (log_Rc Exc OAssign RWrite (has_global st1 n) n l st1 ens en false Hfr1 Heq I ltac:(discriminate)) as H.
      destruct H as [H1 [H2 [H3 [H5 H4]]]]. repeat split; auto. intros Hc. apply H4.
      cbn [o_name] in *. unfold cl_assign_name in Hc. fold st1 in Hc.
      destruct (beq_bytes n n); cbn [negb orb] in *; [|reflexivity].
      apply andb_true_iff in Hc. apply Hc.
  - assert (Hrc : forall k g, krole k RWrite ->
               Rc (fun nm => cl_assign_name nm n l eo st) Exc
                  (mkO k n l (option_map v_loc (lookup st n l)) g) (mkC l n (resolve en n) RWrite false)).
    { intros k g Hk.
      pose proof (log_Rc Exc k RWrite g n l st ens en false Hfr Heq Hk (fun _ => Hl)) as H.
      destruct H as [H1 [H2 [H3 [H5 H4]]]]. repeat split; auto. intros Hc. apply H4.
      cbn [o_name] in *. unfold cl_assign_name in Hc.
      destruct (beq_bytes n n); cbn [negb orb] in *; [|reflexivity].
      apply andb_true_iff in Hc. apply Hc. }
    destruct (find_global_limit (t_globals st) n flv slv l) as [g|].
    + exists [mkO OAssign n l (option_map v_loc (lookup st n l)) (has_global st n)],
             [mkC l n (resolve en n) RWrite false].
      repeat split; [exact Hfr|apply Permutation_refl|].
      constructor; [|constructor]. apply Hrc. exact I.
    + exists [mkO ODefineG n l (option_map v_loc (lookup st n l)) (has_global st n)],
             [mkC l n (resolve en n) RWrite false].
      repeat split; [exact Hfr|apply Permutation_refl|].
      constructor; [|constructor]. apply Hrc. exact I.
Qed.

(* ------------------------------------------------------------------ permutations of concatenations *)
Lemma perm_if {A} (a b x y : list A) : Permutation ((a ++ b) ++ (x ++ y)) ((a ++ x) ++ (b ++ y)).
Proof.
  rewrite <- !app_assoc. apply Permutation_app_head. apply Permutation_app_swap_app.
Qed.

Lemma perm_assign {A} (a t x y : list A) : Permutation ((a ++ t) ++ (x ++ y)) ((t ++ x) ++ (a ++ y)).
Proof.
  rewrite <- !app_assoc. eapply Permutation_trans; [apply Permutation_app_swap_app|].
  apply Permutation_app_head. apply Permutation_app_swap_app.
Qed.

(* ------------------------------------------------------------------ if_loop *)
Section IfLoop.
  Variables (flv slv : Z) (reg : loc).

  Lemma if_sim : forall es bs,
    length es = length bs ->
    Forall (fun e => SimE (tr_exp flv e) (fun nm => cl_exp nm flv e) (fun en => b_exp flv slv reg e en)) es ->
    Forall (fun b => SimS (tr_block flv (slv + 1) b) (fun nm => cl_block nm flv (slv + 1) b)
                          (fun en => b_block flv (slv + 1) (block_loc b) b en)) bs ->
    SimE (if_loop (map (fun e => tr_exp flv e) es) (map (fun b => (block_loc b, tr_block flv (slv + 1) b)) bs))
         (fun nm => cl_if_loop (map (fun e => (tr_exp flv e, cl_exp nm flv e)) es)
                               (map (fun b => (block_loc b, tr_block flv (slv + 1) b, cl_block nm flv (slv + 1) b)) bs))
         (fun en => flat_map (fun e => b_exp flv slv reg e en) es
                    ++ flat_map (fun b => snd (b_block flv (slv + 1) (block_loc b) b en)) bs).
  Proof.
    induction es as [|e es' IH]; intros bs Hlen He Hb.
    - destruct bs; [|discriminate]. eapply SimE_ext; [| | |exact SimE_id]; intros; reflexivity.
    - destruct bs as [|b bs']; [discriminate|].
      inversion He as [|? ? He1 He2]; subst. inversion Hb as [|? ? Hb1 Hb2]; subst.
      injection Hlen as Hlen.
      pose proof (SimE_seq _ _ _ _ _ _ (SimE_seq _ _ _ _ _ _ He1 (SimE_scope (block_loc b) _ _ _ Hb1))
                           (IH bs' Hlen He2 Hb2)) as H.
      eapply SimE_ext; [| | |eapply SimE_perm; [|exact H]]; try (intros; reflexivity).
      intros en. cbn [flat_map]. rewrite !ccore_app. apply perm_if.
  Qed.
End IfLoop.

(* ------------------------------------------------------------------ assign_loop *)
Section AssignLoop.
  Variables (flv slv : Z) (reg : loc).

  Definition tgt_m (v : exp) : atarget :=
    match v with
    | EName n l => TgName n l
    | EIndex p k _ => TgOther (fun s => tr_exp flv k (tr_exp flv p s))
    | _ => TgOther (fun s => s)
    end.
  Definition tgt_c (nm : list N) (v : exp) : ctarget :=
    match v with
    | EName n l => CName n l
    | EIndex p k _ =>
      COther (fun s => tr_exp flv k (tr_exp flv p s))
             (fun s => cl_exp nm flv p s && cl_exp nm flv k (tr_exp flv p s))
    | _ => COther (fun s => s) (fun _ => true)
    end.
  (* the untagged occurrences of a target *)
  Definition tgt_s (v : exp) (en : env) : list socc :=
    match v with
    | EName n l => [mkS l n (resolve en n) RWrite flv slv reg false [] en]
    | EIndex p k _ => b_exp flv slv reg p en ++ b_exp flv slv reg k en
    | _ => []
    end.
  Definition tgt_run (v : atarget) (eo : option exp) (s : tstate) : tstate :=
    match v with TgName n l => assign_name flv slv n l eo s | TgOther f => f s end.

  Definition PeSim (e : exp) : Prop :=
    SimE (tr_exp flv e) (fun nm => cl_exp nm flv e) (fun en => b_exp flv slv reg e en).

  Lemma tgt_sim v eo :
    PeSim v -> SimE (tgt_run (tgt_m v) eo) (fun nm => ct_clean nm (tgt_c nm v) eo) (tgt_s v).
  Proof.
    intros Hv. destruct v;
      try (eapply SimE_ext; [| | |exact SimE_id]; intros; reflexivity).
    - (* EName *) eapply SimE_ext; [| | |exact (SimE_assign_name flv slv reg n l eo)]; intros; reflexivity.
    - (* EIndex *) eapply SimE_ext; [| | |exact Hv]; intros; reflexivity.
  Qed.

  Lemma ct_run_eq nm v eo s : ct_run flv slv (tgt_c nm v) eo s = tgt_run (tgt_m v) eo s.
  Proof. destruct v; reflexivity. Qed.

  Lemma assign_loop_cons v vars e f vis st :
    assign_loop flv slv (v :: vars) ((e, f) :: vis) st = assign_loop flv slv vars vis (tgt_run v (Some e) (f st)).
  Proof. destruct v; reflexivity. Qed.
  Lemma assign_loop_cons_nil v vars st :
    assign_loop flv slv (v :: vars) [] st = assign_loop flv slv vars [] (tgt_run v None st).
  Proof. destruct v; reflexivity. Qed.

  Lemma assign_sim : forall vars es,
    Forall PeSim vars -> Forall PeSim es ->
    SimE (assign_loop flv slv (map tgt_m vars) (map (fun e => (e, tr_exp flv e)) es))
         (fun nm => cl_assign_loop nm flv slv (map (tgt_c nm) vars) (map (fun e => (e, tr_exp flv e, cl_exp nm flv e)) es))
         (fun en => flat_map (fun v => tgt_s v en) vars ++ flat_map (fun e => b_exp flv slv reg e en) es).
  Proof.
    induction vars as [|v vars' IH]; intros es Hv He.
    - pose proof (SimE_list (fun e => tr_exp flv e) (fun e nm => cl_exp nm flv e)
                            (fun e en => b_exp flv slv reg e en) es He) as H.
      eapply SimE_ext; [| | |exact H].
      + intros st. cbn [map assign_loop]. rewrite map_map. reflexivity.
      + intros nm st. cbn [map cl_assign_loop]. rewrite map_map. reflexivity.
      + intros en. reflexivity.
    - inversion Hv as [|? ? Hv1 Hv2]; subst.
      destruct es as [|e es'].
      + pose proof (SimE_seq _ _ _ _ _ _ (tgt_sim v None Hv1) (IH [] Hv2 He)) as H.
        eapply SimE_ext; [intros st|intros nm st|intros en|eapply SimE_perm; [intros en|exact H]].
        * reflexivity.
        * cbn [map cl_assign_loop]. rewrite ct_run_eq. reflexivity.
        * reflexivity.
        * cbn [flat_map]. rewrite !app_nil_r. apply Permutation_refl.
      + inversion He as [|? ? He1 He2]; subst.
        pose proof (SimE_seq _ _ _ _ _ _ (SimE_seq _ _ _ _ _ _ He1 (tgt_sim v (Some e) Hv1)) (IH es' Hv2 He2)) as H.
        eapply SimE_ext; [intros st|intros nm st|intros en|eapply SimE_perm; [intros en|exact H]].
        * reflexivity.
        * cbn [map cl_assign_loop]. rewrite ct_run_eq. reflexivity.
        * reflexivity.
        * cbn [flat_map]. rewrite !ccore_app. apply perm_assign.
  Qed.

  (* the B4 tags of the reference binder do not touch the cores *)
  Definition b4f (vars es : list exp) (en : env) (i : nat) (os : list socc) : list socc :=
    match nth_error vars i, nth_error es i with
    | Some (EName n _), Some e =>
      match env_find en n, ref_of_exp e with
      | Some (_, d, true), (RFunc _ | RName _ | RCall _) =>
        tag_if (fun o => binding_eqb (s_bind o) (BLocal d) && loc_contains (exp_loc e) (s_loc o)) CB4 os
      | _, _ => os
      end
    | _, _ => os
    end.

  Lemma b_stat_assign_eq vars es l en :
    b_stat flv slv reg (SAssign vars es l) en =
    (en, concat (index_map (fun i v => match v with
                                       | EName n l => b4f vars es en i [mkS l n (resolve en n) RWrite flv slv reg false [] en]
                                       | EIndex p k _ => b_exp flv slv reg p en ++ b_exp flv slv reg k en
                                       | _ => []
                                       end) O vars)
         ++ concat (index_map (fun i eo => b4f vars es en i (snd eo)) O (map (fun e => (e, b_exp flv slv reg e en)) es))).
  Proof. reflexivity. Qed.

  Lemma ccore_b4f vars es en i os : ccore (b4f vars es en i os) = ccore os.
  Proof.
    unfold b4f. destruct (nth_error vars i) as [v|]; [|reflexivity]. destruct v; try reflexivity.
    destruct (nth_error es i) as [e|]; [|reflexivity].
    destruct (env_find en n) as [[[a d] f]|]; [|reflexivity]. destruct f; [|reflexivity].
    destruct (ref_of_exp e); try reflexivity; apply ccore_tag_if; discriminate.
  Qed.

  Lemma ccore_index_map {A} (f : nat -> A -> list socc) (g : A -> list socc) xs :
    (forall i x, ccore (f i x) = ccore (g x)) ->
    forall k, ccore (concat (index_map f k xs)) = ccore (flat_map g xs).
  Proof.
    intros H. induction xs as [|x r IH]; intros k; [reflexivity|].
    cbn [index_map concat flat_map]. rewrite !ccore_app, H, IH. reflexivity.
  Qed.

  Lemma ccore_assign vars es l en :
    ccore (snd (b_stat flv slv reg (SAssign vars es l) en))
    = ccore (flat_map (fun v => tgt_s v en) vars ++ flat_map (fun e => b_exp flv slv reg e en) es).
  Proof.
    rewrite b_stat_assign_eq. cbn [snd]. rewrite !ccore_app. f_equal.
    - apply ccore_index_map. intros i v. destruct v; try reflexivity. apply ccore_b4f.
    - rewrite (ccore_index_map _ (fun eo : exp * list socc => snd eo)) by (intros; apply ccore_b4f).
      rewrite !ccore_flat_map. rewrite flat_map_concat_map, map_map, <- flat_map_concat_map. reflexivity.
  Qed.
End AssignLoop.
