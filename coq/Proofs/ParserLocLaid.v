(* C04 / binder family: the layout hypothesis `Laid` of Spec/LuaScope.v does NOT hold for every error-free file inside
   the C04 guard.  Witness  local x = a.b(c) : parser.finishFuncCallExp takes the begin Loc of a call AFTER the callee has
   been parsed (GetNowTokenLoc = the last token of the callee), so the Loc of the call a.b(c) is 1:12-1:16 = `b(c)` and
   does not contain its callee a.b (1:10-1:13); the mark list of LuaScope puts MOpen (call) before the marks of the
   callee, and MOpen 1:12 > MIdS 1:10 for every line width W. *)
From Coq Require Import List NArith ZArith Bool Lia.
From LH Require Import Base.Bytes Base.Res Base.Utf8 Model.Lexer Model.Ast Model.Parser Model.Number Model.LuaFront
     Spec.LspRange Spec.LuaScope.
Import ListNotations.
Local Open Scope N_scope.

Definition parsed_block (cps : list N) : block :=
  match parse_bytes (fun _ => 0%Z) classify_tok (utf8_of cps) with
  | Ok (PR b _ _) => b
  | _ => Block [] None zero_loc
  end.

(* local x = a.b(c) *)
Definition laid_wit_cps : list N := [108;111;99;97;108;32;120;32;61;32;97;46;98;40;99;41].
Definition laid_wit : block := Eval vm_compute in parsed_block laid_wit_cps.

Definition ast_laid_full : Prop :=
  forall gbk classify cps b, forallb scalar cps = true -> file_class_ok cps = true ->
    parse_bytes gbk classify (utf8_of cps) = Ok (PR b [] []) -> Laid b.

Lemma laid_wit_parses :
  forallb scalar laid_wit_cps = true /\ file_class_ok laid_wit_cps = true /\
  parse_bytes (fun _ => 0%Z) classify_tok (utf8_of laid_wit_cps) = Ok (PR laid_wit [] []).
Proof. repeat split; vm_compute; reflexivity. Qed.

Lemma laid_wit_not_laid : ~ Laid laid_wit.
Proof.
  intros [W HW]. unfold laid_b in HW. apply andb_true_iff in HW as [_ HW].
  set (ms := marks laid_wit) in HW. vm_compute in ms. subst ms. cbn [steps_ok] in HW.
  repeat match type of HW with _ && _ = true => apply andb_true_iff in HW; destruct HW as [? HW] end.
  match goal with
  | H3 : step_ok W (MOpen _) (MIdS {| sl := 1; sc := 10; el := 1; ec := 11 |}) = true |- _ =>
    unfold step_ok, mark_key, LuaScope.lo, key in H3; cbn [sl sc] in H3; apply andb_true_iff in H3 as [H3 _]; lia
  end.
Qed.

Theorem ast_laid_refuted : ~ ast_laid_full.
Proof.
  intros H. destruct laid_wit_parses as (H1 & H2 & H3). exact (laid_wit_not_laid (H _ _ _ _ H1 H2 H3)).
Qed.
Print Assumptions ast_laid_refuted.
