(* C18 after fixes/C09-deterministic-order.diff (order_fixed cfg = true): module resolution is a FUNCTION - every
   reference resolves to at most one file, and no history of create/delete events ever reaches the "an earlier
   random choice decided the control flow" state (ps_ambig) of the event model. *)
From Coq Require Import List Arith PeanoNat NArith ZArith Bool Lia.
From LH Require Import Base.Bytes Model.FileIndex Model.ModulePath.
Import ListNotations.

Lemma best_of_true_le1 cur r cs : (length (best_of true cur r cs) <= 1)%nat.
Proof.
  cbn [best_of]. destruct (best_match true cur r cs); cbn [length]; lia.
Qed.

Lemma best_set_fx_true_le1 cur r st : (length (best_set_fx true cur r st) <= 1)%nat.
Proof. apply best_of_true_le1. Qed.

Lemma check_refer_single disk cfg st cur k refer :
  order_fixed cfg = true -> (length (r_resolved (check_refer disk cfg st cur k refer)) <= 1)%nat.
Proof.
  intros Hfx. unfold check_refer. rewrite Hfx.
  destruct (mem_bytes (remove_pre_str refer) (ignore_refer cfg)); [cbn; lia|].
  assert (forall l, (length l <= 1)%nat ->
            (length (r_resolved (match l with [] => not_found | c :: l' => found (c :: l') end)) <= 1)%nat) as Hone.
  { intros l Hl. destruct l as [|c l]; [cbn; lia|exact Hl]. }
  destruct k.
  - destruct (true && mem_bytes (remove_pre_str refer) (ignore_modules cfg)); [cbn; lia|].
    destruct (disk _); [cbn; lia|]. destruct (exact_mode cfg).
    + destruct (disk _); [cbn; lia|]. destruct (disk _); cbn; lia.
    + pose proof (best_set_fx_true_le1 cur (replace_byte dot slash (remove_pre_str refer)) st) as Hl.
      destruct (best_set_fx true cur (replace_byte dot slash (remove_pre_str refer)) st) as [|c l];
        [apply Hone; apply best_set_fx_true_le1|exact Hl].
  - destruct (disk _); [cbn; lia|]. destruct (exact_mode cfg); [cbn; lia|]. apply Hone. apply best_of_true_le1.
  - destruct (false && mem_bytes (remove_pre_str refer) (ignore_modules cfg)); [cbn; lia|].
    destruct (disk _); [cbn; lia|]. destruct (exact_mode cfg).
    + destruct (disk _); [cbn; lia|]. destruct (disk _); cbn; lia.
    + pose proof (best_set_fx_true_le1 cur (replace_byte dot slash (remove_pre_str refer)) st) as Hl.
      destruct (best_set_fx true cur (replace_byte dot slash (remove_pre_str refer)) st) as [|c l];
        [apply Hone; apply best_set_fx_true_le1|exact Hl].
Qed.

(* every reference of the referencing file knows at most one resolved file *)
Definition single_refs (rs : list ref_state) : Prop := Forall (fun r => (length (rs_vstr r) <= 1)%nat) rs.

Lemma reanalyse_ref_single cfg cur d st r : order_fixed cfg = true ->
  (length (rs_vstr r) <= 1)%nat -> (length (rs_vstr (reanalyse_ref cfg cur d st r)) <= 1)%nat.
Proof.
  intros Hfx Hr. unfold reanalyse_ref. cbn [rs_vstr].
  pose proof (check_refer_single (disk_of d) cfg st cur (rs_kind r) (rs_str r) Hfx) as Hc.
  destruct (r_resolved (check_refer (disk_of d) cfg st cur (rs_kind r) (rs_str r))) as [|c l]; [exact Hr|exact Hc].
Qed.

Lemma ref_touches_decided f r : (length (rs_vstr r) <= 1)%nat -> ref_touches f r <> None.
Proof.
  intros Hr. unfold ref_touches.
  destruct (is_suffix _ f || _); [discriminate|].
  destruct (rs_vstr r) as [|x [|y l]]; cbn [mem_bytes existsb]; [discriminate| |cbn in Hr; lia].
  destruct (beq_bytes f x || false); discriminate.
Qed.

Lemma any_touch_decided f rs : single_refs rs -> any_touch f rs <> None.
Proof.
  induction 1 as [|r rs Hr _ IH]; cbn [any_touch]; [discriminate|].
  pose proof (ref_touches_decided f r Hr) as Ht.
  destruct (ref_touches f r) as [[|]|]; [discriminate|exact IH|contradiction].
Qed.

Lemma pstep_keeps cfg cur fixed s e : order_fixed cfg = true ->
  single_refs (ps_refs s) /\ ps_ambig s = false ->
  single_refs (ps_refs (pstep cfg cur fixed s e)) /\ ps_ambig (pstep cfg cur fixed s e) = false.
Proof.
  intros Hfx [Hs Ha]. unfold pstep.
  set (f := match e with Ins p => p | Rem p => p end).
  pose proof (any_touch_decided f (ps_refs s) Hs) as Hany.
  destruct (reanalyse_fixed cfg || existsb rs_err (ps_refs s)).
  - cbn [ps_refs ps_ambig]. split; [|exact Ha]. unfold single_refs in *. rewrite Forall_forall in *.
    intros r' Hr'. apply in_map_iff in Hr' as [r [<- Hr]]. apply reanalyse_ref_single; [exact Hfx|apply Hs; exact Hr].
  - destruct (any_touch f (ps_refs s)) as [[|]|]; [| |contradiction]; cbn [ps_refs ps_ambig].
    + split; [|exact Ha]. unfold single_refs in *. rewrite Forall_forall in *.
      intros r' Hr'. apply in_map_iff in Hr' as [r [<- Hr]]. apply reanalyse_ref_single; [exact Hfx|apply Hs; exact Hr].
    + split; [exact Hs|exact Ha].
Qed.

Lemma pinit_ok cfg cur disk lua refs : order_fixed cfg = true ->
  single_refs (ps_refs (pinit cfg cur disk lua refs)) /\ ps_ambig (pinit cfg cur disk lua refs) = false.
Proof.
  intros Hfx. unfold pinit. cbn [ps_refs ps_ambig]. split; [|reflexivity].
  unfold single_refs. rewrite Forall_forall. intros r' Hr'. apply in_map_iff in Hr' as [kr [<- _]].
  unfold first_ref. apply reanalyse_ref_single; [exact Hfx|cbn; lia].
Qed.

Theorem no_ambiguity_fixed cfg cur fixed disk lua refs events : order_fixed cfg = true ->
  let s := fold_left (pstep cfg cur fixed) events (pinit cfg cur disk lua refs) in
  ps_ambig s = false /\ forall r, In r (ps_refs s) -> (length (rs_vstr r) <= 1)%nat.
Proof.
  intros Hfx. cbv zeta.
  assert (forall evs s0, single_refs (ps_refs s0) /\ ps_ambig s0 = false ->
            single_refs (ps_refs (fold_left (pstep cfg cur fixed) evs s0)) /\
            ps_ambig (fold_left (pstep cfg cur fixed) evs s0) = false) as Hfold.
  { induction evs as [|e evs IH]; intros s0 H0; [exact H0|]. cbn [fold_left]. apply IH. apply pstep_keeps; assumption. }
  destruct (Hfold events _ (pinit_ok cfg cur disk lua refs Hfx)) as [Hs Ha].
  split; [exact Ha|]. unfold single_refs in Hs. rewrite Forall_forall in Hs. exact Hs.
Qed.
