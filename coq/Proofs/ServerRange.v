(* C04, server level: the executable judgement of the ranges the language server sends (leg c04.ranges) and its
   soundness.  The judgement looks only at the token list of the MODEL lexer: a range "designates the identifier `name`"
   iff it is the Loc (GetNowTokenLoc) of an identifier token of the file whose text is `name`.  Under the file guard of
   C04_tok_range_exact such a range lies in the document, has start <= end and the text under it is exactly `name`.
   The lexer is used as a black box: only through tok_range_exact. *)
From Coq Require Import List NArith ZArith Bool Lia ZifyN ZifyBool.
From LH Require Import Base.Bytes Base.Res Base.Utf8 Model.TextSync Spec.LspText Model.Lexer Spec.LspRange
  Proofs.LexerRangeMain.
Import ListNotations.
Local Open Scope N_scope.

(* inverse of lspcommon.LocToRange on the ranges that can come over the wire (unsigned line / character) *)
Definition loc_of_range (r : range) : loc :=
  mkLoc (Z.of_N (p_line (r_start r)) + 1) (Z.of_N (p_ch (r_start r)))
        (Z.of_N (p_line (r_end r)) + 1) (Z.of_N (p_ch (r_end r))).

Definition loc_eqb (a b : loc) : bool :=
  ((sl a =? sl b) && (sc a =? sc b) && (el a =? el b) && (ec a =? ec b))%Z.

(* the identifier tokens of the stand-alone token stream: (text, Loc) *)
Definition ident_locs (ts : list ltok) : list (list N * loc) :=
  flat_map (fun p => match tk (fst p) with TkIdentifier => [(tstr (fst p), snd p)] | _ => [] end)
           (tok_locs zero_tok ts).

(* r is the Loc of an identifier token whose text is `name` *)
Definition range_designates (ts : list ltok) (name : list N) (r : range) : bool :=
  existsb (fun p => beq_bytes (fst p) name && loc_eqb (snd p) (loc_of_range r)) (ident_locs ts).

(* the judgement of one answer: every range of the answer designates `name` *)
Definition ranges_designate (ts : list ltok) (name : list N) (rs : list range) : bool :=
  forallb (range_designates ts name) rs.

(* clause (i) alone, for every file: the range lies in the document and start <= end *)
Definition range_in_doc (cps : list N) (r : range) : bool :=
  match range_index cps r with Some _ => true | None => false end.

(* the identifier under a cursor position: the text of the identifier token whose range contains the position
   (both ends inclusive, as the handlers do) - used by the driver to name what a query asks about *)
Definition pos_in_loc (line ch : N) (l : loc) : bool :=
  ((sl l =? Z.of_N line + 1) && (el l =? Z.of_N line + 1) && (sc l <=? Z.of_N ch) && (Z.of_N ch <=? ec l))%Z.
Definition ident_at (ts : list ltok) (line ch : N) : option (list N) :=
  match filter (fun p => pos_in_loc line ch (snd p)) (ident_locs ts) with
  | p :: _ => Some (fst p)
  | [] => None
  end.

(* ---- exact class predicates of the deviations of the unchanged server (known_findings/C04.json) ---- *)
Definition self_name : list N := [115;101;108;102].

(* the string tokens: (decoded text, Loc) *)
Definition string_locs (ts : list ltok) : list (list N * loc) :=
  flat_map (fun p => match tk (fst p) with TkString => [(tstr (fst p), snd p)] | _ => [] end)
           (tok_locs zero_tok ts).

(* string_key: the range is the Loc of a STRING token whose decoded text is `name` (t["k"], { ["k"] = v }): the
   range includes the quotes *)
Definition cls_string_key (ts : list ltok) (name : list N) (r : range) : bool :=
  existsb (fun p => beq_bytes (fst p) name && loc_eqb (snd p) (loc_of_range r)) (string_locs ts).

Definition ident_text_at (ts : list ltok) (r : range) : option (list N) :=
  match filter (fun p => loc_eqb (snd p) (loc_of_range r)) (ident_locs ts) with
  | p :: _ => Some (fst p)
  | [] => None
  end.

(* self_alias: the range is an identifier token, but exactly one of (its text, the name asked about) is `self`:
   the synthetic receiver of `function M:f()` and the table M are one variable for the server (M may be a member
   written as a string key: { ["x"] = {} }  function M.x:f() ... self) *)
Definition cls_self_alias (ts : list ltok) (name : list N) (r : range) : bool :=
  match ident_text_at ts r with
  | Some t => xorb (beq_bytes t self_name) (beq_bytes name self_name)
  | None => beq_bytes name self_name && existsb (fun p => loc_eqb (snd p) (loc_of_range r)) (string_locs ts)
  end.

Definition pos_le (l1 c1 l2 c2 : Z) : bool := ((l1 <? l2) || ((l1 =? l2) && (c1 <=? c2)))%Z.
Definition loc_inside (a b : loc) : bool :=
  pos_le (sl b) (sc b) (sl a) (sc a) && pos_le (el a) (ec a) (el b) (ec b).

(* outline_span: the range is not the identifier but a span that contains an identifier token - or a string token
   (a key written ["k"]) - with that text: documentSymbol sends the full range of the entry as its selectionRange *)
Definition cls_outline_span (ts : list ltok) (name : list N) (r : range) : bool :=
  negb (range_designates ts name r) &&
  existsb (fun p => beq_bytes (fst p) name && loc_inside (snd p) (loc_of_range r)) (ident_locs ts ++ string_locs ts).

(* the member chain to the left of the identifier under the cursor: for `a.b["k"].c` with the cursor on c: [a; b; k].
   State while scanning the tokens: the chain read so far and whether a `.` / `:` has just been read. *)
Fixpoint chain_scan (line ch : N) (chain : list (list N)) (sep : bool) (tls : list (tok * loc)) : list (list N) :=
  match tls with
  | [] => []
  | (t, l) :: rest =>
    match tk t with
    | TkIdentifier =>
      if pos_in_loc line ch l then (if sep then chain else [])
      else chain_scan line ch (if sep then chain ++ [tstr t] else [tstr t]) false rest
    | TkSepDot | TkSepColon => match chain with [] => chain_scan line ch [] false rest | _ => chain_scan line ch chain true rest end
    | TkString => match chain with [] => chain_scan line ch [] false rest | _ => chain_scan line ch (chain ++ [tstr t]) sep rest end
    | TkSepLbrack | TkSepRbrack => chain_scan line ch chain sep rest
    | _ => chain_scan line ch [] false rest
    end
  end.
Definition chain_before (ts : list ltok) (line ch : N) : list (list N) :=
  chain_scan line ch [] false (tok_locs zero_tok ts).

(* prefix_fallback: the range is an identifier (or string key) token whose text is an EARLIER member of the chain the
   cursor stands in (`a.b.c` with c not defined: the server answers with the definition of a.b) *)
Definition cls_prefix_fallback (qts : list ltok) (line ch : N) (ts : list ltok) (r : range) : bool :=
  existsb (fun nm => range_designates ts nm r || cls_string_key ts nm r) (chain_before qts line ch).

(* the Locs of the LATER members of the chain the cursor stands in: for `a.b.c = v` with the cursor on b: the Loc of c *)
Fixpoint chain_after (line ch : N) (found sep : bool) (tls : list (tok * loc)) : list loc :=
  match tls with
  | [] => []
  | (t, l) :: rest =>
    match tk t with
    | TkIdentifier =>
      if found then (if sep then l :: chain_after line ch true false rest else [])
      else chain_after line ch (pos_in_loc line ch l) false rest
    | TkSepDot | TkSepColon => chain_after line ch found found rest
    | TkString => if found then l :: chain_after line ch true sep rest else chain_after line ch false false rest
    | TkSepLbrack | TkSepRbrack => chain_after line ch found sep rest
    | _ => if found then [] else chain_after line ch false false rest
    end
  end.

(* other_entity: the range is exactly an identifier token (or a string-key token), with another text, and - when it lies in the file of the query -
   not a later member of the chain the cursor stands in: the answer designates another entity (go-to-definition follows
   `x.k = p` to p, ...).  Which entity a query resolves to is the subject of C05 / C06 / C11; the position of the range is
   right for the entity it names. *)
Definition cls_other_entity (qts : list ltok) (line ch : N) (same_file : bool) (ts : list ltok) (name : list N) (r : range) : bool :=
  match filter (fun p => loc_eqb (snd p) (loc_of_range r)) (ident_locs ts ++ string_locs ts) with
  | p :: _ => negb (beq_bytes (fst p) name) &&
              negb (same_file && existsb (fun l => loc_eqb l (loc_of_range r)) (chain_after line ch false false (tok_locs zero_tok qts)))
  | [] => false
  end.

(* later_member: the range is a LATER member of the chain the cursor stands in (refs on obj in `{ ["s"] = obj["bar"]() }`
   answers with the Loc of "bar"); only for ranges in the file of the query *)
Definition cls_later_member (qts : list ltok) (line ch : N) (r : range) : bool :=
  existsb (fun l => loc_eqb l (loc_of_range r)) (chain_after line ch false false (tok_locs zero_tok qts)).

(* eof_comment: the file ends in a line with a short comment that contains non-ASCII text: the EOF token - where a
   syntax error at the end of the file is reported - is recorded with a column that counts BYTES
   (C04_eof_after_comment_refuted) *)
Definition last_line (cps : list N) : list N :=
  fold_left (fun acc c => if (c =? 10) || (c =? 13) then [] else acc ++ [c]) cps [].
Definition cls_eof_comment (cps : list N) : bool :=
  has_pair 45 45 (last_line cps) && existsb (fun c => 127 <? c) (last_line cps).

(* what a range must satisfy to be right for `name` (Spec/LspRange.v): in the document, start <= end (range_index is
   defined and gives i <= j), and the UTF-8 text between the two indices is `name` *)
Definition range_names (cps : list N) (name : list N) (r : range) : Prop :=
  exists i j, range_index cps r = Some (i, j) /\ i <= j /\
              utf8_of (firstn (N.to_nat (j - i)) (skipn (N.to_nat i) cps)) = name.

Lemma loc_eqb_eq a b : loc_eqb a b = true -> a = b.
Proof.
  destruct a as [a1 a2 a3 a4], b as [b1 b2 b3 b4]. unfold loc_eqb. cbn [sl sc el ec]. intros H.
  apply andb_prop in H. destruct H as [H H4]. apply andb_prop in H. destruct H as [H H3].
  apply andb_prop in H. destruct H as [H1 H2].
  apply Z.eqb_eq in H1, H2, H3, H4. subst. reflexivity.
Qed.

Lemma loc_to_range_of_range r : loc_to_range (loc_of_range r) = Some r.
Proof.
  destruct r as [[l1 c1] [l2 c2]]. unfold loc_to_range, loc_of_range. cbn [sl sc el ec r_start r_end p_line p_ch].
  replace ((Z.of_N l1 + 1 >=? 1) && (Z.of_N c1 >=? 0) && (Z.of_N l2 + 1 >=? 1) && (Z.of_N c2 >=? 0))%Z with true
    by (symmetry; repeat (apply andb_true_intro; split); lia).
  replace (Z.of_N l1 + 1 - 1)%Z with (Z.of_N l1) by lia. replace (Z.of_N l2 + 1 - 1)%Z with (Z.of_N l2) by lia.
  rewrite !N2Z.id. reflexivity.
Qed.

Lemma range_index_le cps r i j : range_index cps r = Some (i, j) -> i <= j.
Proof.
  unfold range_index. destruct (pos_index cps (r_start r)) as [a|]; [|discriminate].
  destruct (pos_index cps (r_end r)) as [b|]; [|discriminate].
  destruct (a <=? b) eqn:E; [|discriminate]. intros H. injection H as <- <-. apply N.leb_le. exact E.
Qed.

Lemma covers_names cps r name : covers cps (loc_of_range r) name = true -> range_names cps name r.
Proof.
  unfold covers. rewrite loc_to_range_of_range. unfold slice_lsp.
  destruct (range_index cps r) as [[i j]|] eqn:E; [|discriminate].
  intros H. apply beq_bytes_eq in H. exists i, j. split; [exact E|]. split; [exact (range_index_le _ _ _ _ E)|exact H].
Qed.

Lemma ident_locs_in ts s l : In (s, l) (ident_locs ts) ->
  exists t, In (t, l) (tok_locs zero_tok ts) /\ tk t = TkIdentifier /\ tstr t = s.
Proof.
  unfold ident_locs. intros H. apply in_flat_map in H. destruct H as [[t l'] [Hin H]]. cbn [fst snd] in H.
  destruct (tk t) eqn:Ek; try contradiction. destruct H as [H|[]]. injection H as <- <-.
  exists t. split; [exact Hin|]. split; [exact Ek|reflexivity].
Qed.

Lemma covered_ident cps ts t l : all_tokens_covered cps ts = true -> In (t, l) (tok_locs zero_tok ts) ->
  tk t = TkIdentifier -> covers cps l (tstr t) = true.
Proof.
  unfold all_tokens_covered. intros H Hin Hk. rewrite forallb_forall in H. specialize (H _ Hin). cbn [fst snd] in H.
  rewrite Hk in H. cbn [raw_kind negb orb] in H. exact H.
Qed.

(* soundness of one range from the token-level fact alone *)
Lemma designates_covered cps ts name r : all_tokens_covered cps ts = true ->
  range_designates ts name r = true -> range_names cps name r.
Proof.
  intros Hc H. unfold range_designates in H. apply existsb_exists in H. destruct H as [[s l] [Hin H]]. cbn [fst snd] in H.
  apply andb_prop in H. destruct H as [Hs Hl]. apply beq_bytes_eq in Hs. apply loc_eqb_eq in Hl. subst s l.
  destruct (ident_locs_in _ _ _ Hin) as [t [Ht [Hk Hn]]]. apply covers_names. rewrite <- Hn.
  exact (covered_ident _ _ _ _ Hc Ht Hk).
Qed.

(* C04_designate_sound: for every valid-UTF-8 file inside file_class_ok that lexes without lexical error, every GBK
   oracle, every name and every list of ranges the judgement accepts: every range lies in the document, has
   start <= end, and the text under it (LSP reading) is exactly `name` *)
Theorem designate_sound : forall gbk cps ts name rs,
  forallb scalar cps = true -> file_class_ok cps = true ->
  lex_all gbk (utf8_of cps) = Ok ts -> cls_lexerr ts = false ->
  ranges_designate ts name rs = true ->
  Forall (range_names cps name) rs.
Proof.
  intros gbk cps ts name rs Hs Hc Hl He H. pose proof (tok_range_exact gbk cps ts Hs Hc Hl He) as Hcov.
  unfold ranges_designate in H. rewrite forallb_forall in H. apply Forall_forall. intros r Hr.
  exact (designates_covered _ _ _ _ Hcov (H r Hr)).
Qed.

(* the accepted ranges are also accepted by clause (i), and the boolean reading `covers` of Spec/LspRange.v holds *)
Lemma range_names_in_doc cps name r : range_names cps name r -> range_in_doc cps r = true.
Proof. intros [i [j [H _]]]. unfold range_in_doc. rewrite H. reflexivity. Qed.

Lemma range_names_covers cps name r : range_names cps name r <-> covers cps (loc_of_range r) name = true.
Proof.
  split; [|apply covers_names]. intros [i [j [H [_ Hn]]]]. unfold covers. rewrite loc_to_range_of_range. unfold slice_lsp.
  rewrite H. apply beq_bytes_eq. exact Hn.
Qed.

(* the identifier found under a cursor is the text of an identifier token whose Loc contains the cursor *)
Lemma ident_at_token ts line ch name : ident_at ts line ch = Some name ->
  exists t l, In (t, l) (tok_locs zero_tok ts) /\ tk t = TkIdentifier /\ tstr t = name /\ pos_in_loc line ch l = true.
Proof.
  unfold ident_at. destruct (filter _ (ident_locs ts)) as [|[s l] rest] eqn:E; [discriminate|]. intros H. injection H as <-.
  assert (Hin : In (s, l) (filter (fun p => pos_in_loc line ch (snd p)) (ident_locs ts))) by (rewrite E; left; reflexivity).
  apply filter_In in Hin. destruct Hin as [Hin Hp]. destruct (ident_locs_in _ _ _ Hin) as [t [Ht [Hk Hn]]].
  exists t, l. repeat split; assumption.
Qed.
