(* Binder family, repairs (agent binder-fixes).  The model functions without a suffix are the code now in /repo; the
   `_fx` functions take the record of repairs (Model/Scope.v `bfixes`) as a parameter, so the behaviour before each
   repair stays executable.  Here: the request-level functions with the parameter, `_fx deployed = deployed code`, the
   boolean deviation checks with the parameter (the pre-fix refutations of Properties/C06.v C11.v C12.v are
   `..._deviates_fx no_fixes ... = true` by vm_compute), and what each request-level repair makes true for EVERY
   workspace. *)
From Coq Require Import List NArith ZArith Bool Lia.
From LH Require Import Base.Bytes Base.Res Model.Lexer Model.Ast Model.Scope Model.Globals Model.Resolve Spec.LuaScope
  Proofs.ResolveRun Proofs.ResolveBasics Proofs.ResolveFull.
Import ListNotations.
Local Open Scope N_scope.

(* ------------------------------------------------------------------ the request handlers with the repairs as a parameter *)
Definition mws_of_fx (fx : bfixes) (files : list (list N * block)) : mws :=
  map (fun x => (fst x, analyse_fx fx (snd x))) files.

Section Fx.
  Variable fx : bfixes.
  Variable files : list (list N * list N).

  Definition run_define_fx (f : list N) (line0 col : N) : answer :=
    match parse_all files with
    | None => ASkip
    | Some ps =>
      let w := mws_of_fx fx ps in
      match ws_file w f, request_name (bytes_of files f) line0 col (negb (bf_doc_end fx)) with
      | Some fi, Some (Some s) =>
        match define_at w f fi s (zl line0) (Z.of_N col) with Some l => ALocs l | None => ASkip end
      | Some _, Some None => ALocs []
      | _, _ => ASkip
      end
    end.

  Definition run_refs_fx (mode : refmode) (f : list N) (line0 col : N) : answer :=
    match parse_all files with
    | None => ASkip
    | Some ps =>
      let w := mws_of_fx fx ps in
      match ws_file w f, request_name (bytes_of files f) line0 col (negb (bf_doc_end fx)) with
      | Some fi, Some (Some s) =>
        match references_at_fx fx mode w f fi s (zl line0) (Z.of_N col) with Some l => ALocs l | None => ASkip end
      | Some _, Some None => ALocs []
      | _, _ => ASkip
      end
    end.

  Definition run_complete_fx (f : list N) (line0 col : N) : option (list (list N)) :=
    match parse_all files with
    | None => None
    | Some ps =>
      let w := mws_of_fx fx ps in
      match ws_file w f, offset_of (bytes_of files f) line0 col 0 with
      | Some fi, Some off =>
        match complete_prefix (bytes_of files f) off with
        | CutName pre => Some (complete_at w fi pre (zl line0) (Z.of_N col))
        | CutInvalid => Some []
        | CutUnsupported => None
        end
      | _, _ => None
      end
    end.

  Definition complete_deviates_fx (f : list N) (line col : N) : bool :=
    all_in_fragment files &&
    match spec_occ files f line col, offset_of (bytes_of files f) line col 0 with
    | Some o, Some off =>
      match complete_prefix (bytes_of files f) off, run_complete_fx f line col with
      | CutName pre, Some labels =>
        negb (complete_ok (spec_ws files) f (env_names (s_env o) []) pre (zl line) (Z.of_N col) labels)
      | _, _ => false
      end
    | _, _ => false
    end.

  Definition refs_deviates_fx (mode : refmode) (f : list N) (line col : N) : bool :=
    all_in_fragment files &&
    match spec_occ files f line col, run_refs_fx mode f line col with
    | Some o, ALocs l => negb (same_locs l (spec_refs (spec_ws files) f o))
    | _, _ => false
    end.

  Definition c12_clause1_fx (f : list N) (line col : N) : bool :=
    match run_refs_fx MRefs f line col, run_define_fx f line col with
    | ALocs rs, ALocs d =>
      forallb (fun r => match run_define_fx (fst r) (line0_of (snd r)) (col_of (snd r)) with
                        | ALocs d' => same_locs d' d
                        | ASkip => true
                        end) rs
    | _, _ => true
    end.
  Definition c12_clause2_fx (f : list N) (line col : N) (me : loc) : bool :=
    match run_define_fx f line col with
    | ALocs ds =>
      forallb (fun d => match run_refs_fx MRefs (fst d) (line0_of (snd d)) (col_of (snd d)) with
                        | ALocs rs => existsb (floc_eqb (f, me)) rs
                        | ASkip => true
                        end) ds
    | ASkip => true
    end.
  Definition c12_deviates_fx (f : list N) (line col : N) : bool :=
    all_in_fragment files &&
    match spec_occ files f line col with
    | Some o => negb (c12_clause1_fx f line col && c12_clause2_fx f line col (s_loc o))
    | None => false
    end.
End Fx.

(* the full statement of C14 for a variant of the code, and its refutation by one deviating cursor *)
Definition complete_full_stmt_fx (fx : bfixes) : Prop :=
  forall files f line col o labels pre off,
    all_in_fragment files = true -> spec_occ files f line col = Some o ->
    offset_of (bytes_of files f) line col 0 = Some off -> complete_prefix (bytes_of files f) off = CutName pre ->
    run_complete_fx fx files f line col = Some labels ->
    complete_ok (spec_ws files) f (env_names (s_env o) []) pre (zl line) (Z.of_N col) labels = true.

Lemma complete_full_refuted_by_fx fx files f line col :
  complete_deviates_fx fx files f line col = true -> ~ complete_full_stmt_fx fx.
Proof.
  intros Hd Hfull. unfold complete_deviates_fx in Hd.
  apply andb_true_iff in Hd. destruct Hd as [Hfr Hd].
  destruct (spec_occ files f line col) as [o|] eqn:Ho; [|discriminate].
  destruct (offset_of (bytes_of files f) line col 0) as [off|] eqn:Hoff; [|discriminate].
  destruct (complete_prefix (bytes_of files f) off) as [pre| |] eqn:Hpre; try discriminate.
  destruct (run_complete_fx fx files f line col) as [labels|] eqn:Hr; [|discriminate].
  rewrite (Hfull files f line col o labels pre off Hfr Ho Hoff Hpre Hr) in Hd. discriminate.
Qed.

Lemma complete_full_stmt_fx_deployed : complete_full_stmt_fx deployed <-> complete_full_stmt.
Proof. split; intros H; exact H. Qed.

(* ------------------------------------------------------------------ `_fx deployed` is the deployed code *)
Lemma tr_exp_fx_deployed : tr_exp_fx deployed = tr_exp.
Proof. reflexivity. Qed.
Lemma tr_stat_fx_deployed : tr_stat_fx deployed = tr_stat.
Proof. reflexivity. Qed.
Lemma tr_block_fx_deployed : tr_block_fx deployed = tr_block.
Proof. reflexivity. Qed.
Lemma analyse_fx_deployed : analyse_fx deployed = analyse.
Proof. reflexivity. Qed.
Lemma mws_of_fx_deployed ps : mws_of_fx deployed ps = mws_of ps.
Proof. reflexivity. Qed.
Lemma run_complete_fx_deployed files f line0 col :
  run_complete_fx deployed files f line0 col = run_complete files f line0 col.
Proof. reflexivity. Qed.
Lemma complete_deviates_fx_deployed files f line col :
  complete_deviates_fx deployed files f line col = complete_deviates files f line col.
Proof. reflexivity. Qed.

Lemma skip_define_fx_deployed F d X l : skip_define_fx deployed F d X l = skip_define F d X l.
Proof. reflexivity. Qed.

Lemma references_of_target_fx_deployed mode w f fi n t :
  references_of_target_fx deployed mode w f fi n t = references_of_target mode w f fi n t.
Proof. reflexivity. Qed.

Lemma references_at_fx_deployed mode w f fi n line col :
  references_at_fx deployed mode w f fi n line col = references_at mode w f fi n line col.
Proof. reflexivity. Qed.

Lemma run_define_fx_deployed files f line0 col :
  run_define_fx deployed files f line0 col = run_define files f line0 col.
Proof. reflexivity. Qed.

Lemma run_refs_fx_deployed files mode f line0 col :
  run_refs_fx deployed files mode f line0 col = run_refs files mode f line0 col.
Proof. reflexivity. Qed.

Lemma refs_deviates_fx_deployed files mode f line col :
  refs_deviates_fx deployed files mode f line col = refs_deviates mode files f line col.
Proof. reflexivity. Qed.

Lemma c12_deviates_fx_deployed files f line col :
  c12_deviates_fx deployed files f line col = c12_deviates files f line col.
Proof. reflexivity. Qed.

(* before the repair a local target is answered as now: the repair only concerns global targets *)
Lemma references_fx_local fx mode w f fi n v :
  references_of_target_fx fx mode w f fi n (TLocal v) = references_of_target mode w f fi n (TLocal v).
Proof. reflexivity. Qed.

(* ------------------------------------------------------------------ C06-same-pos-other-file
   For a GLOBAL target (F, g) the answer is, for every workspace: the definition (where the mode reports it) and, for
   every file X searched, exactly the occurrences the fourth pass matched - except those inside the definition's range
   IN FILE F.  Before the repair the exception applied to every file. *)
Definition searched (mode : refmode) (w : mws) (f : list N) (fi : fileinfo) : mws :=
  match mode with MHighlight => [(f, fi)] | _ => w end.
Definition reported_head (mode : refmode) (f F : list N) (d : loc) : list floc :=
  match mode with MHighlight => if beq_bytes F f then [(F, d)] else [] | _ => [(F, d)] end.

Theorem references_global_exact mode w f fi n F g l :
  references_of_target mode w f fi n (TGlobal F g) = Some l ->
  forall x, In x l <->
    (In x (reported_head mode f F (g_loc g)) \/
     exists X fX o, In (X, fX) (searched mode w f fi) /\ In o (fi_occs fX) /\
                    occ_matches_global w n F g X fX o = true /\
                    ~ (X = F /\ inside (g_loc g) (o_loc o) = true) /\ x = (X, o_loc o)).
Proof.
  intros Hr x. unfold references_of_target in Hr. cbv zeta in Hr.
  fold (searched mode w f fi) in Hr. fold (reported_head mode f F (g_loc g)) in Hr.
  set (G := fun x0 : list N * fileinfo =>
              map (fun o => (fst x0, o_loc o))
                  (filter (fun o => occ_matches_global w n F g (fst x0) (snd x0) o
                                    && negb (skip_define F (g_loc g) (fst x0) (o_loc o))) (fi_occs (snd x0)))) in *.
  assert (Hl : l = reported_head mode f F (g_loc g) ++ flat_map G (searched mode w f fi)).
  { destruct (ws_global w n).
    - injection Hr as Hr. auto.
    - injection Hr as Hr. auto.
    - match type of Hr with (if ?b then _ else _) = _ => destruct b end; [discriminate|]. injection Hr as Hr. auto. }
  subst l. rewrite in_app_iff.
  assert (Hbody : In x (flat_map G (searched mode w f fi)) <->
                  exists X fX o, In (X, fX) (searched mode w f fi) /\ In o (fi_occs fX) /\
                    occ_matches_global w n F g X fX o = true /\
                    ~ (X = F /\ inside (g_loc g) (o_loc o) = true) /\ x = (X, o_loc o)).
  { rewrite in_flat_map. split.
    - intros [[X fX] [HX Hx]]. unfold G in Hx. cbn [fst snd] in Hx.
      apply in_map_iff in Hx. destruct Hx as [o [Hxo Ho]]. apply filter_In in Ho. destruct Ho as [Ho Hm].
      apply andb_true_iff in Hm. destruct Hm as [Hm Hs]. apply negb_true_iff in Hs.
      exists X, fX, o. repeat split; auto.
      intros [HXF Hins]. subst X. unfold skip_define in Hs. rewrite beq_bytes_refl, Hins in Hs. discriminate.
    - intros [X [fX [o [HX [Ho [Hm [Hns Hx]]]]]]]. exists (X, fX). split; [exact HX|].
      unfold G. cbn [fst snd]. apply in_map_iff. exists o. split; [auto|]. apply filter_In. split; [exact Ho|].
      rewrite Hm. cbn [andb]. apply negb_true_iff. unfold skip_define.
      destruct (beq_bytes X F) eqn:EXF; [|reflexivity]. apply beq_bytes_eq in EXF.
      destruct (inside (g_loc g) (o_loc o)) eqn:Ei; [|reflexivity]. exfalso. apply Hns. auto. }
  rewrite Hbody. reflexivity.
Qed.

(* the statement of the finding, negated: an occurrence in ANOTHER file is never dropped for its position *)
Corollary references_other_file_kept mode w f fi n line col F g l X fX o :
  resolve_at w f fi n line col = TGlobal F g ->
  references_at mode w f fi n line col = Some l ->
  In (X, fX) (searched mode w f fi) -> X <> F -> In o (fi_occs fX) ->
  occ_matches_global w n F g X fX o = true -> In (X, o_loc o) l.
Proof.
  intros Ht Hr HX Hne Ho Hm. unfold references_at in Hr. rewrite Ht in Hr.
  apply (references_global_exact _ _ _ _ _ _ _ _ Hr). right.
  exists X, fX, o. repeat split; auto. intros [E _]. contradiction.
Qed.
