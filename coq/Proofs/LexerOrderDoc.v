(* C04, token order, part 4: every token of an error-free file inside the guard - string tokens included, which
   tok_range_exact does not speak about - is reported with a range whose two end points are positions of the document
   (LSP reading, Spec/LspText.v), start index <= end index.  The EOF token is the exception: after a short comment or
   the `#` line the lexer's column counts bytes, so an EOF token that follows a comment with non-ASCII text is
   reported beyond the end of the line.

   tab            : the position table of the document;  In (line, column, index) tab  =  "is a position".
   token_doc      : a token scanned without error from a state satisfying Inv starts and ends at positions of the table,
                    on one line, with increasing index and an end column <= W.
   tokens_in_doc  : the theorem, as a boolean over tok_locs (the list all_tokens_covered speaks about).
   tab_mono       : the table is increasing: (line, column) lexicographically smaller or equal => index smaller or equal.
   tokens_disjoint_in_doc : the range of every token ends (document index) at or before the start of the next one.
   tokens_ordered_units   : the order theorem of LexerOrderMain.v for every W >= the longest line in UTF-16 units
                    (max_line_units = the largest column of the table) instead of bytes. *)
From Coq Require Import List NArith ZArith Bool Arith Lia ZifyN ZifyNat ZifyBool Sorted.
From LH Require Import Base.Bytes Base.Res Base.Utf8 Model.Codec Model.TextSync Spec.LspText Model.Lexer Spec.LspRange.
From LH Require Import Proofs.TextSyncScan Proofs.LexerRangeUtf8 Proofs.LexerRangePos Proofs.LexerRangeScan
     Proofs.LexerRangeMain Proofs.LexerTotalWf Proofs.LexerTotalMain Proofs.LexerOrderBase Proofs.LexerOrderMain.
Import ListNotations.
Local Open Scope N_scope.

(* a Loc lies in the document: both end points are positions of the document and start <= end *)
Definition loc_in_doc (cps : list N) (l : loc) : bool :=
  match loc_to_range l with
  | Some r => match range_index cps r with Some _ => true | None => false end
  | None => false
  end.

Definition tab (cps : list N) : list (N * N * N) := positions cps false 0 0 0.

Lemma tab_in cps pre post ac l c :
  cps = pre ++ post -> walk pre (false, 0, 0) = (ac, l, c) -> ac && next_is_lf post = false ->
  In (l, c, N.of_nat (length pre)) (tab cps).
Proof.
  intros -> Hw Hac. unfold tab. apply (positions_walk_incl pre post false 0 0 0 ac l c Hw).
  replace (0 + N.of_nat (length pre)) with (N.of_nat (length pre)) by lia. apply positions_head_in, Hac.
Qed.

Lemma ss_mono : forall t, StronglySorted entry_lt t -> forall a b, In a t -> In b t ->
  (fst (fst a) < fst (fst b) \/ (fst (fst a) = fst (fst b) /\ snd (fst a) <= snd (fst b))) -> snd a <= snd b.
Proof.
  induction 1 as [|x t Hs IH Hall]; intros a b Ha Hb Hle; [destruct Ha|].
  rewrite Forall_forall in Hall.
  destruct Ha as [<-|Ha]; destruct Hb as [<-|Hb].
  - lia.
  - apply Hall in Hb. unfold entry_lt in Hb. lia.
  - apply Hall in Ha. unfold entry_lt, plt in Ha. cbn [fst snd] in Ha. lia.
  - apply IH; assumption.
Qed.

Lemma tab_mono cps l1 c1 i l2 c2 j : In (l1, c1, i) (tab cps) -> In (l2, c2, j) (tab cps) ->
  (l1 < l2 \/ (l1 = l2 /\ c1 <= c2)) -> i <= j.
Proof.
  intros H1 H2 Hle. apply (ss_mono (tab cps) (positions_increasing cps false 0 0 0) (l1, c1, i) (l2, c2, j) H1 H2).
  cbn [fst snd]. exact Hle.
Qed.

Lemma tab_lookup cps l c i : In (l, c, i) (tab cps) -> pos_index cps (mkpos l c) = Some i.
Proof. intros H. unfold pos_index. cbn [p_line p_ch]. apply sorted_lookup; [apply positions_increasing|exact H]. Qed.

Lemma loc_in_doc_tab cps l1 c1 i l2 c2 j :
  In (l1, c1, i) (tab cps) -> In (l2, c2, j) (tab cps) -> i <= j ->
  loc_in_doc cps (mkLoc (Z.of_N l1 + 1) (Z.of_N c1) (Z.of_N l2 + 1) (Z.of_N c2)) = true.
Proof.
  intros H1 H2 Hij. unfold loc_in_doc, loc_to_range. cbn [sl sc el ec].
  replace ((Z.of_N l1 + 1 >=? 1)%Z && (Z.of_N c1 >=? 0)%Z && (Z.of_N l2 + 1 >=? 1)%Z && (Z.of_N c2 >=? 0)%Z)
    with true by lia.
  replace (Z.to_N (Z.of_N l1 + 1 - 1)) with l1 by lia. replace (Z.to_N (Z.of_N l2 + 1 - 1)) with l2 by lia.
  rewrite !N2Z.id. unfold range_index. cbn [r_start r_end]. rewrite (tab_lookup _ _ _ _ H1), (tab_lookup _ _ _ _ H2).
  replace (i <=? j) with true by lia. reflexivity.
Qed.

Section Doc.
  Variable cps : list N.
  Hypothesis Hsc : forallb scalar cps = true.
  Hypothesis Hg : file_class_ok cps = true.

  (* start and end of a run of n plain bytes *)
  Lemma inv_plain_doc s pre post n : Inv cps s pre post -> (1 <= n)%nat -> PlainTo (chunk s) n ->
    exists l c i, line s = (Z.of_N l + 1)%Z /\ col s = Z.of_N c /\
      In (l, c, i) (tab cps) /\ In (l, c + N.of_nat n, i + N.of_nat n) (tab cps).
  Proof.
    intros (Hc & Hch & ac & l & c & Hw & Hl & Hac & Hcol) Hn Hp. rewrite Hch in Hp.
    destruct (plain_prefix _ _ Hp) as (blk & post' & Hpost & Eb & Eu & Es & El & Ef).
    assert (Hne : blk <> []) by (intros ->; cbn [length] in El; lia).
    assert (Hex : (Lexer.pos s - lsp s)%Z = Z.of_N c).
    { destruct Hcol as [Hcol|He]; [exact Hcol|exfalso]. rewrite Hpost in He. destruct blk as [|x blk]; [congruence|].
      cbn [app at_eol forallb] in He, Ef. unfold plain in Ef. apply andb_true_iff in Ef as [Ef _].
      apply andb_true_iff in Ef as [_ Ef]. rewrite He in Ef. discriminate. }
    assert (Hw2 : walk (pre ++ blk) (false, 0, 0) = (false, l, c + N.of_nat n)).
    { rewrite walk_app, Hw, walk_inl by (try apply plain_inl; assumption). rewrite El. reflexivity. }
    exists l, c, (N.of_nat (length pre)). split; [exact Hl|]. split; [exact Hex|]. split.
    - apply (tab_in cps pre post ac l c Hc Hw Hac).
    - replace (N.of_nat (length pre) + N.of_nat n) with (N.of_nat (length (pre ++ blk))) by (rewrite app_length; lia).
      apply (tab_in cps (pre ++ blk) post' false l (c + N.of_nat n)); [rewrite <- app_assoc, <- Hpost; exact Hc|exact Hw2|reflexivity].
  Qed.

  Section Tokens.
  Context {fx : FxEscape}.
  Variable gbk : list N -> Z.

  (* start and end of a short string without escape and line end *)
  Lemma inv_string_doc s pre post t s' : Inv cps s pre post -> TokB gbk s t s' ->
    exists l c i k, line s = (Z.of_N l + 1)%Z /\ col s = Z.of_N c /\
      In (l, c, i) (tab cps) /\ In (l, c + k, i + k) (tab cps) /\
      Lexer.pos s' = (Lexer.pos s + Z.of_N k)%Z /\ line s' = line s /\ lsp s' = lsp s.
  Proof.
    intros (Hc & Hch & ac & l & c & Hw & Hl & Hac & Hcol) (_ & d & j & Hj & H0 & Hd & Hjd & Hnl & ->).
    rewrite Hch in H0, Hjd, Hnl |- *.
    assert (Hd128 : d < 128) by (unfold plain in Hd; lia).
    destruct (utf8_of post) as [|d' r1] eqn:Eu; [discriminate|]. cbn [nth_error] in H0. injection H0 as ->.
    destruct (utf8_head1 _ _ _ Eu Hd128) as (post1 & -> & ->).
    destruct j as [|j]; [lia|]. cbn [nth_error] in Hjd. cbn [skipn]. replace (S j - 1)%nat with j by lia.
    destruct (split_at_ascii _ _ _ Hjd Hd128) as (blk & post' & -> & Ef & Es).
    assert (Hin : forall x, In x blk -> In x cps).
    { intros x Hx. rewrite Hc. apply in_or_app. right. right. apply in_or_app. left. exact Hx. }
    assert (Hsb : forallb scalar blk = true) by (apply forallb_forall; intros x Hx; apply (cp_ok cps Hsc Hg), Hin, Hx).
    assert (H2b : existsb is_two_byte blk = false).
    { destruct (existsb is_two_byte blk) eqn:E; [|reflexivity]. apply existsb_exists in E as (x & Hx & E).
      destruct (cp_ok cps Hsc Hg x (Hin x Hx)) as (_ & E2 & _). congruence. }
    assert (Hinl : forallb inl blk = true).
    { apply forallb_forall. intros x Hx. destruct (cp_ok cps Hsc Hg x (Hin x Hx)) as (_ & _ & Ea). unfold is_astral in Ea.
      destruct (is_newline x) eqn:En.
      - exfalso. assert (Hx128 : x < 128) by (unfold is_newline in En; lia).
        apply (in_utf8_of x blk Hx) in Hx128 as Hb. rewrite Ef in Hb. apply In_nth_error in Hb as [k Hk].
        apply nth_firstn in Hk as [Hk Hkj]. rewrite (Hnl (S k) x) in En; [discriminate|lia|exact Hk].
      - unfold is_newline in En. unfold inl. lia. }
    rewrite <- Ef. rewrite conv_rune_count_utf8 by assumption.
    set (blk' := d :: blk ++ [d]).
    assert (Hinl' : forallb inl blk' = true).
    { subst blk'. cbn [forallb]. rewrite forallb_app, Hinl. cbn [forallb].
      assert (inl d = true) by (unfold plain, is_newline in Hd; unfold inl; lia). rewrite H. reflexivity. }
    assert (Hex : (Lexer.pos s - lsp s)%Z = Z.of_N c).
    { destruct Hcol as [Hcol|He]; [exact Hcol|exfalso]. cbn [at_eol] in He. unfold plain in Hd. rewrite He in Hd.
      rewrite andb_false_r in Hd. discriminate. }
    assert (Hlen : length blk' = (length blk + 2)%nat) by (subst blk'; cbn [length]; rewrite app_length; cbn [length]; lia).
    exists l, c, (N.of_nat (length pre)), (N.of_nat (length blk')).
    split; [exact Hl|]. split; [exact Hex|]. split; [apply (tab_in cps pre _ ac l c Hc Hw Hac)|]. split.
    - replace (N.of_nat (length pre) + N.of_nat (length blk')) with (N.of_nat (length (pre ++ blk')))
        by (rewrite app_length; lia).
      apply (tab_in cps (pre ++ blk') post' false l (c + N.of_nat (length blk'))); [| |reflexivity].
      + rewrite Hc. subst blk'. rewrite <- app_assoc. cbn [app]. rewrite <- app_assoc. reflexivity.
      + rewrite walk_app, Hw. apply walk_inl; [exact Hinl'|subst blk'; discriminate].
    - cbn [Lexer.pos line lsp]. split; [lia|]. split; reflexivity.
  Qed.

  Variable W : Z.

  (* one token: both end points are positions of the document *)
  Lemma token_doc s1 pre1 post1 t s2 :
    Inv cps s1 pre1 post1 -> Fits W s1 -> scan_token gbk s1 = (t, s2, []) -> chunk s1 <> [] ->
    exists l c1 c2 i j, tline t = (Z.of_N l + 1)%Z /\ (tfrom t - tlsp t)%Z = Z.of_N c1 /\ (tto t - tlsp t)%Z = Z.of_N c2 /\
      In (l, c1, i) (tab cps) /\ In (l, c2, j) (tab cps) /\ i <= j /\ c1 <= c2 /\ (Z.of_N c2 <= W)%Z.
  Proof.
    intros HI HF H Hne. pose proof HI as (Hc & Hch & _).
    destruct (chunk s1) as [|c rest] eqn:Ech; [congruence|].
    assert (H92 : no92 (chunk s1)) by (rewrite Ech, Hch; apply (no92_suffix cps Hg pre1), Hc).
    assert (Hlb : test [91; 91] (chunk s1) || test [91; 61] (chunk s1) = false)
      by (rewrite Ech, Hch; apply (no_lb cps Hg pre1), Hc).
    pose proof (scan_token_fields gbk s1 t s2 H ltac:(rewrite Ech; discriminate)) as (F1 & F2 & F3 & F4).
    destruct (token_order cps Hsc Hg W gbk _ _ _ _ _ HI HF H ltac:(rewrite Ech; discriminate)) as (HF2 & _).
    pose proof (Fits_col W s2 HF2) as Hcol2. unfold col in Hcol2.
    destruct (scan_token_cases gbk s1 c rest t s2 Ech H92 Hlb H) as [HA|HB].
    - destruct HA as (n & Hn & Hp & -> & _).
      destruct (inv_plain_doc s1 pre1 post1 n HI Hn Hp) as (l & c1 & i & Hl & Hc1 & Hi & Hj).
      unfold col in Hc1. cbn [adv line lsp Lexer.pos] in F1, F2, F3, Hcol2.
      exists l, c1, (c1 + N.of_nat n), i, (i + N.of_nat n).
      split; [lia|]. split; [lia|]. split; [lia|]. split; [exact Hi|]. split; [exact Hj|]. lia.
    - destruct (inv_string_doc s1 pre1 post1 t s2 HI HB) as (l & c1 & i & k & Hl & Hc1 & Hi & Hj & Hp & Hl2 & Hs2).
      unfold col in Hc1.
      exists l, c1, (c1 + k), i, (i + k).
      split; [lia|]. split; [lia|]. split; [lia|]. split; [exact Hi|]. split; [exact Hj|]. lia.
  Qed.
  End Tokens.
End Doc.

(* ------------------------------------------------------------------ the theorem *)
Definition TokDoc (cps : list N) (W : Z) (t : tok) : Prop :=
  (tk t = TkEOF /\ tto t = tfrom t /\ (0 <= tfrom t - tlsp t <= W)%Z) \/
  exists l c1 c2 i j, tline t = (Z.of_N l + 1)%Z /\ (tfrom t - tlsp t)%Z = Z.of_N c1 /\ (tto t - tlsp t)%Z = Z.of_N c2 /\
    In (l, c1, i) (tab cps) /\ In (l, c2, j) (tab cps) /\ i <= j /\ c1 <= c2 /\ (Z.of_N c2 <= W)%Z.

Theorem tokens_doc : forall W gbk cps ts,
  forallb scalar cps = true -> file_class_ok cps = true -> line_width_ok W cps = true ->
  lex_all gbk (utf8_of cps) = Ok ts -> cls_lexerr ts = false ->
  Forall (TokDoc cps W) (map lt ts).
Proof.
  intros W gbk cps ts Hsc Hg HW Hlex Herr.
  eapply Forall_impl; [|exact (tokens_scanned W gbk cps ts Hsc Hg HW Hlex Herr)].
  intros t [Hk|(s1 & pre1 & post1 & s2 & HI & HF & Hs & Hne)]; [left; exact Hk|right].
  exact (token_doc cps Hsc Hg gbk W s1 pre1 post1 t s2 HI HF Hs Hne).
Qed.

Definition all_tokens_in_doc (cps : list N) (ts : list ltok) : bool :=
  forallb (fun p => tk_eqb (tk (fst p)) TkEOF || loc_in_doc cps (snd p)) (tok_locs zero_tok ts).

Lemma tok_locs_doc cps W : forall ts prev, Forall (TokDoc cps W) (map lt ts) ->
  forallb (fun p => tk_eqb (tk (fst p)) TkEOF || loc_in_doc cps (snd p)) (tok_locs prev ts) = true.
Proof.
  induction ts as [|t ts IH]; intros prev Hf; [reflexivity|].
  cbn [map] in Hf. inversion Hf as [|x l Hx Hl]; subst. cbn [tok_locs forallb fst snd]. rewrite IH by exact Hl.
  rewrite andb_true_r. destruct Hx as [(Hk & _)|(l & c1 & c2 & i & j & E1 & E2 & E3 & Hi & Hj & Hij & _)].
  - rewrite Hk. reflexivity.
  - apply orb_true_iff. right. unfold tok_loc. replace (tlsp (lt t) >? tfrom (lt t))%Z with false by lia.
    rewrite E1, E2, E3. apply (loc_in_doc_tab cps l c1 i l c2 j Hi Hj Hij).
Qed.

Theorem tokens_in_doc : forall gbk cps ts,
  forallb scalar cps = true -> file_class_ok cps = true ->
  lex_all gbk (utf8_of cps) = Ok ts -> cls_lexerr ts = false ->
  all_tokens_in_doc cps ts = true.
Proof.
  intros gbk cps ts Hsc Hg Hlex Herr. unfold all_tokens_in_doc.
  set (W := Z.of_nat (max_line_bytes (utf8_of cps))).
  assert (HW : line_width_ok W cps = true) by (unfold line_width_ok, W; apply Z.leb_le; lia).
  apply (tok_locs_doc cps W). exact (tokens_doc W gbk cps ts Hsc Hg HW Hlex Herr).
Qed.
Print Assumptions tokens_doc.
Print Assumptions tokens_in_doc.

(* ------------------------------------------------------------------ consecutive tokens do not overlap, in document
   indices: the range of every token ends (index in code points) before the range of the next one starts *)
Definition tok_range_index (cps : list N) (t : tok) : option (N * N) :=
  match loc_to_range (mkLoc (tline t) (tfrom t - tlsp t) (tline t) (tto t - tlsp t)) with
  | Some r => range_index cps r
  | None => None
  end.
Fixpoint doc_chain_b (cps : list N) (l : list tok) : bool :=
  match l with
  | t :: ((t' :: _) as r) =>
    (tk_eqb (tk t) TkEOF || tk_eqb (tk t') TkEOF ||
     match tok_range_index cps t, tok_range_index cps t' with
     | Some (_, j), Some (i', _) => j <=? i'
     | _, _ => false
     end) && doc_chain_b cps r
  | _ => true
  end.

Lemma wkey_lex W l1 c1 l2 c2 : (0 <= c1 < W)%Z -> (0 <= c2 < W)%Z -> (l1 * W + c1 <= l2 * W + c2)%Z ->
  (l1 < l2)%Z \/ (l1 = l2 /\ (c1 <= c2)%Z).
Proof.
  intros H1 H2 Hle. destruct (Z.lt_trichotomy l1 l2) as [Hlt|[Heq|Hgt]]; [left; exact Hlt|right; split; [exact Heq|]|exfalso].
  - rewrite Heq in Hle. lia.
  - assert ((l2 + 1) * W <= l1 * W)%Z by (apply Z.mul_le_mono_nonneg_r; lia). lia.
Qed.

Lemma tok_range_index_doc cps W t l c1 c2 i j :
  tline t = (Z.of_N l + 1)%Z -> (tfrom t - tlsp t)%Z = Z.of_N c1 -> (tto t - tlsp t)%Z = Z.of_N c2 ->
  In (l, c1, i) (tab cps) -> In (l, c2, j) (tab cps) -> i <= j -> (Z.of_N c2 <= W)%Z ->
  tok_range_index cps t = Some (i, j).
Proof.
  intros E1 E2 E3 Hi Hj Hij _. unfold tok_range_index, loc_to_range. cbn [sl sc el ec]. rewrite E1, E2, E3.
  replace ((Z.of_N l + 1 >=? 1)%Z && (Z.of_N c1 >=? 0)%Z && (Z.of_N l + 1 >=? 1)%Z && (Z.of_N c2 >=? 0)%Z)
    with true by lia.
  replace (Z.to_N (Z.of_N l + 1 - 1)) with l by lia. rewrite !N2Z.id. unfold range_index. cbn [r_start r_end].
  rewrite (tab_lookup _ _ _ _ Hi), (tab_lookup _ _ _ _ Hj). replace (i <=? j) with true by lia. reflexivity.
Qed.

Lemma doc_chain_of cps W0 : forall l, Forall (TokDoc cps W0) l -> tchain (W0 + 1) l -> doc_chain_b cps l = true.
Proof.
  induction l as [|t l IH]; intros Hf Hc; [reflexivity|]. destruct l as [|t' l]; [reflexivity|].
  change (tchain (W0 + 1) (t :: t' :: l)) with ((thi (W0 + 1) t <= tlo (W0 + 1) t')%Z /\ tchain (W0 + 1) (t' :: l)) in Hc.
  destruct Hc as [Htt Hc]. inversion Hf as [|x r Hx Hr]; subst.
  change (doc_chain_b cps (t :: t' :: l)) with
    ((tk_eqb (tk t) TkEOF || tk_eqb (tk t') TkEOF ||
      match tok_range_index cps t, tok_range_index cps t' with
      | Some (_, j), Some (i', _) => j <=? i'
      | _, _ => false
      end) && doc_chain_b cps (t' :: l)).
  rewrite (IH Hr Hc), andb_true_r.
  inversion Hr as [|x' r' Hx' Hr']; subst.
  destruct Hx as [(Hk & _)|(l1 & a1 & a2 & i & j & E1 & E2 & E3 & Hi & Hj & Hij & Ha & Hw)].
  { unfold tk_eqb. destruct (tkind_eq_dec (tk t) TkEOF); [reflexivity|contradiction]. }
  destruct Hx' as [(Hk & _)|(l2 & b1 & b2 & i' & j' & E1' & E2' & E3' & Hi' & Hj' & Hij' & Hb & Hw')].
  { unfold tk_eqb at 2. destruct (tkind_eq_dec (tk t') TkEOF); [rewrite orb_true_r; reflexivity|contradiction]. }
  rewrite (tok_range_index_doc cps W0 t l1 a1 a2 i j E1 E2 E3 Hi Hj Hij Hw).
  rewrite (tok_range_index_doc cps W0 t' l2 b1 b2 i' j' E1' E2' E3' Hi' Hj' Hij' Hw').
  apply orb_true_iff. right. apply N.leb_le. apply (tab_mono cps l1 a2 j l2 b1 i' Hj Hi').
  unfold thi, tlo in Htt. rewrite E1, E3, E1', E2' in Htt.
  destruct (wkey_lex (W0 + 1) (Z.of_N l1 + 1) (Z.of_N a2) (Z.of_N l2 + 1) (Z.of_N b1)) as [H|[H1 H2]]; [lia|lia|exact Htt|left; lia|right; lia].
Qed.

Theorem tokens_disjoint_in_doc : forall gbk cps ts,
  forallb scalar cps = true -> file_class_ok cps = true ->
  lex_all gbk (utf8_of cps) = Ok ts -> cls_lexerr ts = false ->
  doc_chain_b cps (map lt ts) = true.
Proof.
  intros gbk cps ts Hsc Hg Hlex Herr.
  set (W0 := Z.of_nat (max_line_bytes (utf8_of cps))).
  assert (HW0 : line_width_ok W0 cps = true) by (unfold line_width_ok, W0; apply Z.leb_le; lia).
  assert (HW : line_width_ok (W0 + 1) cps = true) by (unfold line_width_ok, W0; apply Z.leb_le; lia).
  apply (doc_chain_of cps W0); [exact (tokens_doc W0 gbk cps ts Hsc Hg HW0 Hlex Herr)|].
  exact (proj2 (tokens_ordered (W0 + 1) gbk cps ts Hsc Hg HW Hlex Herr)).
Qed.
Print Assumptions tokens_disjoint_in_doc.

(* ------------------------------------------------------------------ the tight bound on the line width: W >= the longest
   line of the document in UTF-16 units (= the largest column of the position table), instead of bytes.
   Derived from the byte version: token end points are positions of the table, whose columns are bounded by that
   maximum; the EOF token, whose column may be larger, is the last one. *)
Definition max_line_units (cps : list N) : N := fold_right N.max 0 (map (fun e => snd (fst e)) (tab cps)).
Definition line_units_ok (W : Z) (cps : list N) : bool := (Z.of_N (max_line_units cps) <=? W)%Z.

Lemma fold_max_ge : forall (l : list N) x, In x l -> x <= fold_right N.max 0 l.
Proof.
  induction l as [|y l IH]; intros x Hin; [destruct Hin|]. cbn [fold_right]. destruct Hin as [->|Hin]; [lia|].
  specialize (IH x Hin). lia.
Qed.

Lemma tab_col_le cps l c i : In (l, c, i) (tab cps) -> c <= max_line_units cps.
Proof.
  intros H. unfold max_line_units. apply fold_max_ge. apply in_map_iff. exists (l, c, i). split; [reflexivity|exact H].
Qed.

Lemma tok_fine_any W W' t : tok_fine W t -> tok_fine W' t.
Proof. unfold tok_fine, tlo, thi. intros (A & B & C). split; [exact A|]. split; [lia|]. intros Hk. specialize (C Hk). lia. Qed.

Lemma wkey_of_lex W l1 c1 l2 c2 : (0 <= c1 <= W)%Z -> (0 <= c2)%Z ->
  ((l1 < l2)%Z \/ (l1 = l2 /\ (c1 <= c2)%Z)) -> (l1 * W + c1 <= l2 * W + c2)%Z.
Proof.
  intros H1 H2 [Hlt|[-> Hc]]; [|lia].
  assert ((l1 + 1) * W <= l2 * W)%Z by (apply Z.mul_le_mono_nonneg_r; lia). lia.
Qed.

Lemma tchain_units cps W0 W : (Z.of_N (max_line_units cps) <= W)%Z -> forall l,
  Forall (TokDoc cps W0) l -> tchain (W0 + 1) l -> (forall t, In t (removelast l) -> tk t <> TkEOF) -> tchain W l.
Proof.
  intros HW. induction l as [|t l IH]; intros Hf Hc Hrl; [exact I|]. destruct l as [|t' l]; [exact I|].
  change (tchain (W0 + 1) (t :: t' :: l)) with ((thi (W0 + 1) t <= tlo (W0 + 1) t')%Z /\ tchain (W0 + 1) (t' :: l)) in Hc.
  destruct Hc as [Htt Hc]. inversion Hf as [|x r Hx Hr]; subst. inversion Hr as [|x' r' Hx' Hr']; subst.
  change (tchain W (t :: t' :: l)) with ((thi W t <= tlo W t')%Z /\ tchain W (t' :: l)).
  split.
  2:{ apply IH; [exact Hr|exact Hc|]. intros y Hy. apply Hrl. change (removelast (t :: t' :: l)) with (t :: removelast (t' :: l)).
      right. exact Hy. }
  assert (Hkt : tk t <> TkEOF) by (apply Hrl; change (removelast (t :: t' :: l)) with (t :: removelast (t' :: l)); left; reflexivity).
  destruct Hx as [(Hk & _)|(l1 & a1 & a2 & i & j & E1 & E2 & E3 & Hi & Hj & Hij & Ha & Hw)]; [contradiction|].
  pose proof (tab_col_le cps l1 a2 j Hj) as Hm.
  unfold thi, tlo in Htt |- *. rewrite E1, E3 in Htt |- *.
  destruct Hx' as [(Hk & Hft & Hce)|(l2 & b1 & b2 & i' & j' & E1' & E2' & E3' & Hi' & Hj' & Hij' & Hb & Hw')].
  - apply wkey_of_lex; [lia|lia|].
    apply (wkey_lex (W0 + 1)); [lia|lia|exact Htt].
  - rewrite E1', E2' in Htt |- *. apply wkey_of_lex; [lia|lia|].
    apply (wkey_lex (W0 + 1)); [lia|lia|exact Htt].
Qed.

Lemma removelast_map {A B} (f : A -> B) : forall l : list A, removelast (map f l) = map f (removelast l).
Proof.
  induction l as [|x l IH]; [reflexivity|]. destruct l as [|y l]; [reflexivity|].
  change (removelast (map f (x :: y :: l))) with (f x :: removelast (map f (y :: l))).
  change (removelast (x :: y :: l)) with (x :: removelast (y :: l)). cbn [map]. f_equal. exact IH.
Qed.

Theorem tokens_ordered_units : forall W gbk cps ts,
  forallb scalar cps = true -> file_class_ok cps = true -> line_units_ok W cps = true ->
  lex_all gbk (utf8_of cps) = Ok ts -> cls_lexerr ts = false ->
  Forall (tok_fine W) (map lt ts) /\ tchain W (map lt ts).
Proof.
  intros W gbk cps ts Hsc Hg HWu Hlex Herr.
  set (W0 := Z.of_nat (max_line_bytes (utf8_of cps))).
  assert (HW0 : line_width_ok W0 cps = true) by (unfold line_width_ok, W0; apply Z.leb_le; lia).
  assert (HW : line_width_ok (W0 + 1) cps = true) by (unfold line_width_ok, W0; apply Z.leb_le; lia).
  destruct (tokens_ordered (W0 + 1) gbk cps ts Hsc Hg HW Hlex Herr) as [H1 H2].
  split; [eapply Forall_impl; [|exact H1]; intros t Ht; exact (tok_fine_any _ _ t Ht)|].
  apply (tchain_units cps W0 W); [unfold line_units_ok in HWu; lia|exact (tokens_doc W0 gbk cps ts Hsc Hg HW0 Hlex Herr)|exact H2|].
  destruct (lex_all_wf gbk _ _ Hlex) as (_ & _ & Hall).
  intros t Ht. rewrite removelast_map in Ht. apply in_map_iff in Ht as (x & <- & Hx). exact (Hall x Hx).
Qed.
Print Assumptions tokens_ordered_units.
