(* C01, Lua lexer model: totality for ALL byte strings and ALL oracles.
   - lex_all_total : the outer fuel S (S (length bs)) of lex_loop always suffices (never OutOfFuel; the lexer model has
     no Fault site at all, see lex_all_no_fault).
   - lex_all_wf    : the token list ends with its only EOF token.
   - *_caller      : every inner fuel-driven loop, with the fuel its caller passes, computes the same value as with ANY
     larger fuel (instances of the *_irrel lemmas of LexerTotalFuel / LexerTotalProgress): the "return the current
     state" fuel-0 branch never contributes to a result. *)
From Coq Require Import List NArith ZArith Bool Arith Lia ZifyNat ZifyN ZifyBool.
From LH Require Import Base.Bytes Base.Res Model.Codec Model.Lexer.
From LH Require Import Proofs.LexerTotalFuel Proofs.LexerTotalProgress Proofs.LexerTotalWf.
Import ListNotations.
Set Default Proof Using "Type".

Lemma match_eof {A} (k : tkind) (a b : A) : k <> TkEOF -> match k with TkEOF => a | _ => b end = b.
Proof. destruct k; congruence. Qed.

Lemma until_newline_le l : (until_newline l <= length l)%nat.
Proof. induction l as [|c t IH]; cbn [until_newline length]; [lia|]. destruct (is_newline c); lia. Qed.

Lemma skip_first_line_le bs : (clen (skip_first_line bs) <= length bs)%nat.
Proof.
  unfold skip_first_line.
  set (bs1 := match bs with 239%N :: 187%N :: 191%N :: t => t | _ => bs end).
  assert (Hb : (length bs1 <= length bs)%nat).
  { subst bs1.
    repeat match goal with
           | |- context [match ?x with _ => _ end] => is_var x; destruct x
           end; cbn [length]; lia. }
  assert (Hc : (clen (match bs1 with
                      | 35%N :: _ => adv (adv (mkLst bs1 1 0 0) 1) (until_newline (chunk (adv (mkLst bs1 1 0 0) 1)))
                      | _ => mkLst bs1 1 0 0 end) <= length bs1)%nat).
  { repeat match goal with
           | |- context [match ?x with _ => _ end] => is_var x; destruct x
           end; rewrite ?adv_len; cbn [chunk length]; lia. }
  cbv zeta. lia.
Qed.

Section WithOracle.
  Context {fx : FxEscape}.
  Variable gbk_runes : list N -> Z.

  (* ---------------------------------------------------------------- the outer loop *)
  Lemma lex_loop_ok : forall f prev2 prev1 s acc,
    (clen s < f)%nat ->
    exists more lt1,
      lex_loop gbk_runes f prev2 prev1 s acc = Ok (rev acc ++ more ++ [lt1]) /\
      tk (lt lt1) = TkEOF /\ Forall (fun t => tk (lt t) <> TkEOF) more /\ (length more <= clen s)%nat.
  Proof.
    induction f as [|f IH]; intros prev2 prev1 s acc Hf; [lia|]. cbn [lex_loop].
    destruct (next_token gbk_runes prev2 prev1 s) as [lt1 s1] eqn:Hn.
    apply next_token_progress in Hn as [Hle Hlt].
    destruct (tkind_eq_dec (tk (lt lt1)) TkEOF) as [He|Hne].
    - rewrite He. exists [], lt1. cbn [rev app length]. repeat split; [assumption|constructor|lia].
    - rewrite (match_eof _ _ _ Hne). specialize (Hlt Hne).
      destruct (IH prev1 (Some (lt lt1)) s1 (lt1 :: acc) ltac:(lia)) as (more & lt2 & Heq & Hk & Hall & Hlen).
      exists (lt1 :: more), lt2. rewrite Heq. cbn [rev length]. rewrite <- !app_assoc. cbn [app].
      repeat split; [assumption|constructor; assumption|lia].
  Qed.

  (* above the bound, the outer loop does not depend on the fuel either *)
  Lemma lex_loop_irrel : forall f1 f2 prev2 prev1 s acc,
    (clen s < f1)%nat -> (clen s < f2)%nat ->
    lex_loop gbk_runes f1 prev2 prev1 s acc = lex_loop gbk_runes f2 prev2 prev1 s acc.
  Proof.
    induction f1 as [|f1 IH]; intros f2 prev2 prev1 s acc H1 H2; [lia|].
    destruct f2 as [|f2]; [lia|]. cbn [lex_loop].
    destruct (next_token gbk_runes prev2 prev1 s) as [lt1 s1] eqn:Hn.
    apply next_token_progress in Hn as [Hle Hlt].
    destruct (tkind_eq_dec (tk (lt lt1)) TkEOF) as [He|Hne].
    - rewrite He. reflexivity.
    - rewrite !(match_eof _ _ _ Hne). specialize (Hlt Hne). apply IH; lia.
  Qed.

  Theorem lex_all_shape bs :
    exists more lt1, lex_all gbk_runes bs = Ok (more ++ [lt1]) /\
                     tk (lt lt1) = TkEOF /\ Forall (fun t => tk (lt t) <> TkEOF) more /\
                     (length more <= length bs)%nat.
  Proof.
    unfold lex_all. pose proof (skip_first_line_le bs) as Hl.
    destruct (lex_loop_ok (S (S (length bs))) None None (skip_first_line bs) [] ltac:(lia))
      as (more & lt1 & Heq & Hk & Hall & Hlen).
    exists more, lt1. rewrite Heq. cbn [rev app]. repeat split; [assumption|assumption|lia].
  Qed.

  Theorem lex_all_total : forall bs, exists ts, lex_all gbk_runes bs = Ok ts.
  Proof. intros bs. destruct (lex_all_shape bs) as (more & lt1 & Heq & _). eauto. Qed.

  Theorem lex_all_wf : forall bs ts, lex_all gbk_runes bs = Ok ts -> wf_tokens ts.
  Proof.
    intros bs ts H. destruct (lex_all_shape bs) as (more & lt1 & Heq & Hk & Hall & _).
    rewrite Heq in H. injection H as <-. unfold wf_tokens. repeat split.
    - intros Hnil. apply app_eq_nil in Hnil as [_ Hnil]. discriminate.
    - rewrite last_last. exact Hk.
    - intros t Hin. rewrite removelast_last in Hin. rewrite Forall_forall in Hall. apply Hall. exact Hin.
  Qed.

  (* every token but the EOF one consumed at least one byte: the token list is at most one longer than the input *)
  Theorem lex_all_length : forall bs ts, lex_all gbk_runes bs = Ok ts -> (length ts <= S (length bs))%nat.
  Proof.
    intros bs ts H. destruct (lex_all_shape bs) as (more & lt1 & Heq & _ & _ & Hlen).
    rewrite Heq in H. injection H as <-. rewrite app_length. cbn [length]. lia.
  Qed.

  (* the lexer model has no Fault site: the only non-Ok value it can produce is OutOfFuel, which lex_all_total excludes *)
  Lemma lex_loop_no_fault : forall f prev2 prev1 s acc k, lex_loop gbk_runes f prev2 prev1 s acc <> Fault k.
  Proof.
    induction f as [|f IH]; intros prev2 prev1 s acc k; cbn [lex_loop]; [discriminate|].
    destruct (next_token gbk_runes prev2 prev1 s) as [lt1 s1].
    destruct (tkind_eq_dec (tk (lt lt1)) TkEOF) as [He|Hne].
    - rewrite He. discriminate.
    - rewrite (match_eof _ _ _ Hne). apply IH.
  Qed.

  Theorem lex_all_no_fault bs k : lex_all gbk_runes bs <> Fault k.
  Proof. apply lex_loop_no_fault. Qed.

  (* ---------------------------------------------------------------- inner loops at the fuel their callers pass *)
  Theorem lex_all_caller bs f : (S (S (length bs)) <= f)%nat ->
    lex_loop gbk_runes f None None (skip_first_line bs) [] = lex_all gbk_runes bs.
  Proof. intros Hf. pose proof (skip_first_line_le bs). unfold lex_all. apply lex_loop_irrel; lia. Qed.

  Theorem scan_short_caller d ch ln ls p0 f : (S (length ch) <= f)%nat ->
    scan_short_f gbk_runes f d ch 1 1 [] ln ls p0 [] = scan_short_f gbk_runes (S (length ch)) d ch 1 1 [] ln ls p0 [].
  Proof. intros Hf. apply scan_short_f_irrel; lia. Qed.

End WithOracle.

Theorem skip_ws_caller prev2 prev1 s f : (S (clen s) <= f)%nat ->
  skip_ws_f f prev2 prev1 s (mkCst None 0 []) [] = skip_ws_f (S (clen s)) prev2 prev1 s (mkCst None 0 []) [].
Proof. intros Hf. apply skip_ws_f_irrel; lia. Qed.

Theorem scan_number_caller ch i expo f : (S (length ch) <= f)%nat ->
  scan_number_loop f ch i expo = scan_number_loop (S (length ch)) ch i expo.
Proof. intros Hf. apply scan_number_loop_irrel; lia. Qed.

Theorem skip_z_caller ch i ln ls p0 f : (S (length ch) <= f)%nat ->
  skip_z_f f ch i ln ls p0 = skip_z_f (S (length ch)) ch i ln ls p0.
Proof. intros Hf. apply skip_z_f_irrel; lia. Qed.

Theorem skip_digits_caller ch i f : (S (length ch) <= f)%nat ->
  skip_digits_f f ch i = skip_digits_f (S (length ch)) ch i.
Proof. intros Hf. apply skip_digits_f_irrel; lia. Qed.

Theorem index_of_sub_caller needle l f : (S (length l) <= f)%nat ->
  index_of_sub_f f needle l 0 = index_of_sub needle l.
Proof. intros Hf. unfold index_of_sub. apply index_of_sub_f_irrel; lia. Qed.

Theorem nl_norm_caller l f : (length l <= f)%nat -> nl_norm_f f l = nl_norm l.
Proof. intros Hf. unfold nl_norm. apply nl_norm_f_irrel; lia. Qed.

Theorem rune_count_caller l f : (length l <= f)%nat -> rune_count_f f l 0 = rune_count l.
Proof. intros Hf. unfold rune_count. apply rune_count_f_irrel; lia. Qed.


Print Assumptions lex_all_total.
Print Assumptions lex_all_wf.
Print Assumptions lex_all_length.
Print Assumptions lex_all_no_fault.
Print Assumptions skip_ws_caller.
Print Assumptions scan_short_caller.
Print Assumptions scan_number_caller.
Print Assumptions skip_z_caller.
Print Assumptions skip_digits_caller.
Print Assumptions index_of_sub_caller.
Print Assumptions nl_norm_caller.
Print Assumptions rune_count_caller.
