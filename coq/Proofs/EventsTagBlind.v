(* C08 - the role of the third component of an `err` (the tag: columns and message text of a diagnostic).

   lspcommon.IsSameErrList compares CheckError.ToString(), i.e. type, range AND message text; the model's errs_eqb
   (Model/Diag.v) compares the tag accordingly. This file records what happens when the comparison forgets the tag (the
   seeded change C08-4: "compare ErrType and Loc only"): `run_w same` is the model of Model/Events.v with the equality used
   by pushAllDiagnosticsAgain replaced by `same` - a textual copy of the definitions on the path from
   push_all_again to run, tied to the originals by run_w_errs_eqb (`run_w errs_eqb = run`, by computation, for all
   inputs) - and tag_blind_refuted shows that with same = errs_eqb_notag a one-event conformant history leaves the client
   with a stale message, while the model of the code as it is meets the property on it (tag_switch_meets). *)
From Coq Require Import List NArith Bool Permutation.
From LH Require Import Model.Diag Model.Events Spec.FreshStart Proofs.DiagProofs Proofs.EventsToy Proofs.EventsToyOk.
Import ListNotations.
Local Open Scope N_scope.

(* the comparison of the seeded change: type and start line only *)
Definition err_eqb_notag (a b : err) : bool := (etype a =? etype b) && (eline a =? eline b).
Fixpoint errs_eqb_notag (a b : list err) {struct a} : bool :=
  match a, b with
  | [], [] => true
  | x :: a', y :: b' => err_eqb_notag x y && errs_eqb_notag a' b'
  | _, _ => false
  end.

(* pushAllDiagnosticsAgain with the list equality as a parameter (Model/Diag.v push_all_again is the instance errs_eqb) *)
Definition push_all_again_with (same : list err -> list err -> bool) (fix12a fixun : bool) (d : dstate) (new : emap)
  : dstate * list publish :=
  let clears := flat_map (fun k => if ahas new k then [] else clear_one k) (akeys (saved d)) in
  let pushes := flat_map (fun k => match aget new k with
                                   | None => []
                                   | Some l => match aget (saved d) k with
                                               | None => [(k, l)]
                                               | Some old => if same old l then [] else [(k, l)]
                                               end
                                   end) (akeys new) in
  let d' := {| saved := new; live := live d; clean := clean d |} in
  (d', clears ++ pushes ++ (if is_nil new || fix12a then push_all_change d' else []) ++
       (if fixun then flat_map (clear_syntax d') (clean d) else [])).

Lemma push_all_again_with_errs_eqb a u d new : push_all_again_with errs_eqb a u d new = push_all_again a u d new.
Proof. reflexivity. Qed.

Section Variant.
  Variable A : analysis.
  Variable fx : fixes.
  Variable same : list err -> list err -> bool.
  Local Notation txt := (text A).
  Local Notation server := (Events.server A).
  Local Notation world := (Events.world A).
  Local Notation event := (Events.event A).
  Local Notation action := (Events.action A).
  Local Notation proj := (Events.proj A).
  Local Notation witem := (Events.witem A).
  Local Notation handle_events := (Events.handle_events A fx).
  Local Notation set_lru := (Events.set_lru A).
  Local Notation remove_file := (Events.remove_file A fx).
  Local Notation all_errs := (Events.all_errs A).
  Local Notation did_change := (Events.did_change A).
  Local Notation analyse_buffer := (Events.analyse_buffer A).
  Local Notation open_differs := (Events.open_differs A).
  Local Notation witem_disk := (Events.witem_disk A).
  Local Notation witem_ev := (Events.witem_ev A).
  Local Notation set_editor := (Events.set_editor A).
  Local Notation init_world := (Events.init_world A fx).

  Definition push_again_w (s : server) (p : proj) : server * list publish :=
    let '(d, ps) := push_all_again_with same (fix12a fx) (fix_unhidden fx) (ds s) (all_errs p) in
    ({| pj := p; cache := cache s; ds := d |}, ps).

  (* TextDocumentDidOpen up to the comparison of the carried text with the file *)
  Definition did_open_base_w (dk : amap txt) (s : server) (f : file) (t : txt) : server * list publish :=
    let p0 := set_lru (pj s) (frem f (p_lru (pj s))) in
    let s0 := {| pj := p0; cache := aset (cache s) f t; ds := unmark_clean (ds s) f |} in
    let '(s1, ps1) :=
      if fmem f (p_files p0) then (s0, [])
      else let '(p1, chg) := handle_events dk p0 [(f, KCreated)] in
           if chg then push_again_w s0 p1 else ({| pj := p1; cache := cache s0; ds := ds s0 |}, []) in
    let '(d2, ps2) := clear_change (ds s1) f in
    ({| pj := pj s1; cache := cache s1; ds := d2 |}, ps1 ++ ps2).

  (* TextDocumentDidOpen *)
  Definition did_open_w (dk : amap txt) (s : server) (f : file) (t : txt) : server * list publish :=
    let '(s2, ps) := did_open_base_w dk s f t in
    if fix_didopen fx && open_differs dk f t
    then let '(s3, ps3) := analyse_buffer s2 f t in (s3, ps ++ ps3)
    else (s2, ps).

  (* TextDocumentDidSave *)
  Definition did_save_w (dk : amap txt) (s : server) (f : file) (t : txt) : server * list publish :=
    let s0 := {| pj := pj s; cache := aset (cache s) f t; ds := ds s |} in
    let '(p1, chg) := handle_events dk (pj s0) [(f, KChanged)] in
    let '(s1, ps1) := if chg then push_again_w s0 p1 else ({| pj := p1; cache := cache s0; ds := ds s0 |}, []) in
    let '(d2, ps2) := save_push_again (ds s1) f in
    ({| pj := pj s1; cache := cache s1; ds := d2 |}, ps1 ++ ps2).

  (* TextDocumentDidClose. [fix12b] = repair: re-push the full saved list of the closed file. [fix_outside] = repair:
     a file outside the workspace leaves the project through HandleFileEventChanges (Deleted), then pushAllDiagnosticsAgain. *)
  Definition did_close_w (dk : amap txt) (s : server) (f : file) : server * list publish :=
    let p0 := set_lru (pj s) (frem f (p_lru (pj s))) in
    let '(d0, ps1) := clear_change (ds s) f in
    let d1 := unmark_clean d0 f in
    let ps1b := if fix12b fx then push_file_diag d1 f false else [] in
    if (in_dir A) f then ({| pj := p0; cache := adel (cache s) f; ds := d1 |}, ps1 ++ ps1b)
    else if fix_outside fx then
      let s2 := {| pj := p0; cache := adel (cache s) f; ds := remove_saved d1 f |} in
      let '(p1, chg) := handle_events dk p0 [(f, KDeleted)] in
      if chg then let '(s3, ps3) := push_again_w s2 p1 in (s3, ps1 ++ ps1b ++ clear_one f ++ ps3)
      else ({| pj := p1; cache := cache s2; ds := ds s2 |}, ps1 ++ ps1b ++ clear_one f)
    else ({| pj := remove_file p0 f; cache := adel (cache s) f; ds := remove_saved d1 f |},
          ps1 ++ ps1b ++ clear_one f).

  (* WorkspaceChangeWatchedFiles. [fix_watched] = repair: the ClearChangeFileErr call per named file is gone. *)
  Definition did_watched_w (dk : amap txt) (s : server) (evs : list (file * kind)) : server * list publish :=
    let '(d1, ps1) :=
      if fix_watched fx then (ds s, [])
      else fold_left (fun dp ev => let '(d', ps') := clear_change (fst dp) (fst ev) in (d', snd dp ++ ps'))
                     evs (ds s, []) in
    let s1 := {| pj := pj s; cache := cache s; ds := d1 |} in
    if is_nil evs then (s1, ps1)
    else
      let '(p1, chg) := handle_events dk (pj s1) evs in
      if chg then let '(s2, ps2) := push_again_w s1 p1 in (s2, ps1 ++ ps2)
      else ({| pj := p1; cache := cache s1; ds := d1 |}, ps1).

  Definition step_w (w : world) (e : event) : world * list publish :=
    let mk d s := {| disk := d; sv := s; ebuf := ebuf w; dirty := dirty w |} in
    match e with
    | EDiskWrite f t => (mk (aset (disk w) f t) (sv w), [])
    | EDiskRemove f => (mk (adel (disk w) f) (sv w), [])
    | EOpen f t => let '(s, ps) := did_open_w (disk w) (sv w) f t in (mk (disk w) s, ps)
    | EChange f t => let '(s, ps) := did_change (sv w) f t in (mk (disk w) s, ps)
    | ESave f t => let '(s, ps) := did_save_w (disk w) (sv w) f t in (mk (disk w) s, ps)
    | EClose f => let '(s, ps) := did_close_w (disk w) (sv w) f in (mk (disk w) s, ps)
    | EWatched l => let '(s, ps) := did_watched_w (disk w) (sv w) l in (mk (disk w) s, ps)
    end.

  Definition steps_w (w : world) (es : list event) : world * list publish :=
    fold_left (fun wp e => let '(w', ps) := step_w (fst wp) e in (w', snd wp ++ ps)) es (w, []).

  Definition act_w (w : world) (a : action) : world * list publish :=
    match a with
    | AOpen f =>
      match aget (disk w) f, aget (ebuf w) f with
      | Some t, None => steps_w (set_editor w (aset (ebuf w) f t) (frem f (dirty w))) [EOpen f t]
      | _, _ => (w, [])
      end
    | AChange f t =>
      match aget (ebuf w) f with
      | Some _ => steps_w (set_editor w (aset (ebuf w) f t) (fadd f (dirty w))) [EChange f t]
      | None => (w, [])
      end
    | ASave f =>
      match aget (ebuf w) f with
      | Some t => steps_w (set_editor w (ebuf w) (frem f (dirty w))) [EDiskWrite f t; ESave f t]
      | None => (w, [])
      end
    | AClose f =>
      match aget (ebuf w) f with
      | Some _ => steps_w (set_editor w (adel (ebuf w) f) (frem f (dirty w))) [EClose f]
      | None => (w, [])
      end
    | AWatched l => steps_w w (map witem_disk l ++ [EWatched (map witem_ev l)])
    | ARaw e => step_w w e
    | AOpenWith f t =>
      match aget (disk w) f, aget (ebuf w) f with
      | Some d, None =>
        steps_w (set_editor w (aset (ebuf w) f t) (if (teqb A) d t then frem f (dirty w) else fadd f (dirty w))) [EOpen f t]
      | _, _ => (w, [])
      end
    end.

  (* run_w: server start on the initial disk, then the history; result = final world and the whole notification stream *)
  Definition run_from_w (wp : world * list publish) (h : list action) : world * list publish :=
    fold_left (fun wp a => let '(w', ps) := act_w (fst wp) a in (w', snd wp ++ ps)) h wp.
  Definition run_w (dk : amap txt) (h : list action) : world * list publish := run_from_w (init_world dk) h.

End Variant.

(* the copy is the model: with the model's own equality it computes the same function *)
Lemma run_w_errs_eqb A fx dk h : run_w A fx errs_eqb dk h = run A fx dk h.
Proof. reflexivity. Qed.
Lemma act_w_errs_eqb A fx w a : act_w A fx errs_eqb w a = act A fx w a.
Proof. reflexivity. Qed.

(* ---- the witness: a.lua is `print(g1)`; it is rewritten on disk to `print(g2)` and the watcher reports a change.
        Type (2) and line (0) of a's only diagnostic stay, its text changes: "var not define: g1" -> "... g2" ---- *)
Definition w_tag_dk : amap (list stmt) := [(0, [SU 1])].
Definition w_tag : list (action toyA) := [@AWatched toyA [@WM toyA 0 [SU 2]]].

(* the two analyses differ in the tag only *)
Lemma w_tag_differs_in_tag_only :
  fresh_view toyA deployed w_tag_dk 0 = [(2, 0, 1)] /\
  fresh_view toyA deployed (disk (fst (run toyA deployed w_tag_dk w_tag))) 0 = [(2, 0, 2)] /\
  errs_eqb_notag [(2, 0, 1)] [(2, 0, 2)] = true /\ errs_eqb [(2, 0, 1)] [(2, 0, 2)] = false.
Proof. vm_compute. auto. Qed.

(* the model of the code as it is: the history is inside the guard, the view of every file is the demanded one; a's
   view is the fresh start's new text *)
Lemma tag_switch_meets :
  toy_meets deployed w_tag_dk w_tag /\ view (snd (run toyA deployed w_tag_dk w_tag)) 0 = [(2, 0, 2)].
Proof. split; [apply toy_meets_of_guard; vm_compute; reflexivity|vm_compute; reflexivity]. Qed.

(* the same history, a second file b.lua `function gf(a, b) end` -> `function gf(a) end` saved in the editor while c.lua
   calls gf(1, 2, 3): c's message changes with b's parameter count *)
Definition w_tag2_dk : amap (list stmt) := [(1, [SF 2]); (2, [SC; SG])].
Definition w_tag2 : list (action toyA) := [@AOpen toyA 1; @AChange toyA 1 [SF 1]; @ASave toyA 1; @AClose toyA 1].
Lemma tag_switch2_meets :
  toy_meets deployed w_tag2_dk w_tag2 /\
  view (snd (run toyA deployed w_tag2_dk [])) 2 = [(10, 1, 2)] /\
  view (snd (run toyA deployed w_tag2_dk w_tag2)) 2 = [(10, 1, 1)].
Proof. split; [apply toy_meets_of_guard; vm_compute; reflexivity|vm_compute; auto]. Qed.

(* perm_eqb decides Permutation in the direction needed for refutations *)
Lemma perm_count a b : Permutation a b -> forall e, ecount e a = ecount e b.
Proof.
  intros H e. unfold ecount. induction H as [|x l l' _ IH|x y l|l l' l'' _ IH1 _ IH2]; cbn [filter].
  - reflexivity.
  - destruct (err_eqb e x); cbn [length]; congruence.
  - destruct (err_eqb e y), (err_eqb e x); reflexivity.
  - congruence.
Qed.

(* the tag-blind variant: conformant history, no unsaved edits, and the client holds the OLD text, which is not what
   the property demands (nor what the variant's own fresh start publishes) *)
Definition tag_blind_refutes (dk : amap (list stmt)) (h : list (action toyA)) (f : file) : Prop :=
  conformant toyA deployed dk h = true /\
  disk (fst (run_w toyA deployed errs_eqb_notag dk h)) = disk (fst (run toyA deployed dk h)) /\
  dirty (fst (run_w toyA deployed errs_eqb_notag dk h)) = [] /\
  ~ Permutation (view (snd (run_w toyA deployed errs_eqb_notag dk h)) f)
                (demanded toyA deployed (fst (run_w toyA deployed errs_eqb_notag dk h)) f).

Lemma tag_blind_refuted :
  tag_blind_refutes w_tag_dk w_tag 0 /\
  view (snd (run_w toyA deployed errs_eqb_notag w_tag_dk w_tag)) 0 = [(2, 0, 1)] /\
  demanded toyA deployed (fst (run_w toyA deployed errs_eqb_notag w_tag_dk w_tag)) 0 = [(2, 0, 2)].
Proof.
  split; [|vm_compute; auto].
  split; [vm_compute; reflexivity|]. split; [vm_compute; reflexivity|]. split; [vm_compute; reflexivity|].
  intros H. apply perm_count with (e := (2, 0, 2)) in H. vm_compute in H. discriminate H.
Qed.

Lemma tag_blind_refuted2 : tag_blind_refutes w_tag2_dk w_tag2 2.
Proof.
  split; [vm_compute; reflexivity|]. split; [vm_compute; reflexivity|]. split; [vm_compute; reflexivity|].
  intros H. apply perm_count with (e := (10, 1, 1)) in H. vm_compute in H. discriminate H.
Qed.
