(* C03, token level: basic facts about the parser state primitives (next / expect / err / la), the well-formedness
   invariant of the unconsumed token list, unfolding equations of the 20 mutually recursive parser functions, and
   the family "errors only grow, lexical errors are conserved" (le_st). *)
From Coq Require Import List NArith ZArith Bool Lia.
From LH Require Import Base.Bytes Base.Res Model.Lexer Model.Ast Model.Parser Spec.LuaGrammar.
Import ListNotations.

(* ------------------------------------------------------------------ token kinds *)
Lemma tk_eqb_eq a b : tk_eqb a b = true <-> a = b.
Proof. unfold tk_eqb. destruct (tkind_eq_dec a b); split; intros; congruence. Qed.
Lemma tk_eqb_neq a b : tk_eqb a b = false <-> a <> b.
Proof. unfold tk_eqb. destruct (tkind_eq_dec a b); split; intros; congruence. Qed.
Lemma tk_eqb_refl a : tk_eqb a a = true.
Proof. apply tk_eqb_eq. reflexivity. Qed.

(* ------------------------------------------------------------------ well-formed remainders *)
Inductive wfl : list ltok -> Prop :=
| wfl_eof e : kd e = TkEOF -> wfl [e]
| wfl_cons t r : kd t <> TkEOF -> wfl r -> wfl (t :: r).

Lemma wfl_tail t r : wfl (t :: r) -> kd t <> TkEOF -> wfl r.
Proof. intros H N. inversion H; subst; [contradiction | assumption]. Qed.
Lemma wfl_nonempty l : wfl l -> l <> [].
Proof. intros H. inversion H; discriminate. Qed.
Lemma wfl_hd l : wfl l -> exists t r, l = t :: r.
Proof. intros H. inversion H; eauto. Qed.

Lemma wf_tokens_wfl ts : wf_tokens ts -> wfl ts.
Proof.
  intros [(body & e & -> & He & Hb) _]. induction Hb as [|t b Ht Hb IH]; simpl.
  - constructor; assumption.
  - constructor; assumption.
Qed.

(* ------------------------------------------------------------------ state primitives *)
Definition ec (st : pst) : nat := length (perrs st).
Definition lex_total (st : pst) : list lexerr := lseen st ++ flat_map lerrs (rest st).

Lemma la_hdk st : la st = hdk (rest st).
Proof. unfold la, ahead_tok, hdk. destruct (rest st); reflexivity. Qed.

Lemma perrs_next st : perrs (next st) = perrs st.
Proof. unfold next. destruct (rest st) as [|t [|t' r]]; reflexivity. Qed.
Lemma ec_next st : ec (next st) = ec st.
Proof. unfold ec. rewrite perrs_next. reflexivity. Qed.
Lemma ec_err e st : ec (err e st) = S (ec st).
Proof. unfold ec, err. simpl. rewrite app_length. simpl. lia. Qed.
Lemma rest_err e st : rest (err e st) = rest st.
Proof. reflexivity. Qed.
Lemma ec_expect_ge k st : ec st <= ec (expect k st).
Proof. unfold expect. destruct (tk_eqb _ _); [|rewrite ec_err]; rewrite ec_next; lia. Qed.

Lemma lex_total_next st : lex_total (next st) = lex_total st.
Proof.
  unfold lex_total, next. destruct (rest st) as [|t [|t' r]]; simpl.
  - reflexivity.
  - rewrite !app_nil_r. reflexivity.
  - rewrite <- !app_assoc. reflexivity.
Qed.
Lemma lex_total_err e st : lex_total (err e st) = lex_total st.
Proof. reflexivity. Qed.
Lemma lex_total_expect k st : lex_total (expect k st) = lex_total st.
Proof. unfold expect. destruct (tk_eqb _ _); [|rewrite lex_total_err]; apply lex_total_next. Qed.

(* consuming one token of a well-formed remainder that is not the EOF token *)
Lemma next_cons st t r :
  rest st = t :: r -> wfl (t :: r) -> kd t <> TkEOF ->
  rest (next st) = r /\ wfl r /\ now_tok (next st) = lt t.
Proof.
  intros E W N. apply wfl_tail in W; [|assumption].
  unfold next. rewrite E. destruct r as [|t' r'].
  - exfalso. eapply wfl_nonempty; eauto.
  - simpl. auto.
Qed.

Lemma now_kind_next st t r : rest st = t :: r -> now_kind (next st) = kd t.
Proof. intros E. unfold next. rewrite E. destruct r; reflexivity. Qed.
Lemma now_kind_next_nil st : rest st = [] -> now_kind (next st) = TkEOF.
Proof. intros E. unfold next. rewrite E. reflexivity. Qed.

Lemma expect_ok st t r k : rest st = t :: r -> kd t = k -> expect k st = next st.
Proof.
  intros E K. unfold expect. rewrite (now_kind_next _ _ _ E), K, tk_eqb_refl. reflexivity.
Qed.

(* an `expect k` that adds no error consumed a token of kind k *)
Lemma expect_inv st k :
  wfl (rest st) -> k <> TkEOF -> ec (expect k st) = ec st ->
  T k (rest st) (rest (expect k st)) /\ wfl (rest (expect k st)) /\ expect k st = next st /\
  exists t, rest st = t :: rest (next st) /\ now_tok (next st) = lt t.
Proof.
  intros W N Hec. destruct (wfl_hd _ W) as (t & r & E).
  unfold expect in *. rewrite (now_kind_next _ _ _ E) in *.
  destruct (tk_eqb (kd t) k) eqn:K.
  - apply tk_eqb_eq in K. rewrite E in W.
    destruct (next_cons st t r E W) as (R & W' & Nw); [congruence|].
    rewrite R. repeat split; auto.
    + exists t. rewrite E. auto.
    + exists t. rewrite E. auto.
  - rewrite ec_err, ec_next in Hec. lia.
Qed.

(* a `next` at a token that is not EOF *)
Lemma next_inv st :
  wfl (rest st) -> la st <> TkEOF ->
  exists t, rest st = t :: rest (next st) /\ kd t = la st /\ wfl (rest (next st)) /\ now_tok (next st) = lt t.
Proof.
  intros W N. destruct (wfl_hd _ W) as (t & r & E).
  rewrite la_hdk, E in N. simpl in N. rewrite E in W.
  destruct (next_cons st t r E W N) as (R & W' & Nw).
  exists t. rewrite R, la_hdk, E. auto.
Qed.

(* ------------------------------------------------------------------ errors only grow; lexical errors are conserved *)
Lemma wfl_next st : wfl (rest st) -> wfl (rest (next st)).
Proof.
  unfold next. destruct (rest st) as [|t [|t2 r]]; cbn [rest]; intros W.
  - inversion W.
  - inversion W as [e K | t' r' N W']; subst; [constructor; exact K | inversion W'].
  - inversion W as [e K | t' r' N W']; subst. exact W'.
Qed.
Lemma rest_expect_next k st : rest (expect k st) = rest (next st).
Proof. unfold expect. destruct (tk_eqb _ _); reflexivity. Qed.

(* ... and the shape of the remainder (ends with its only EOF token) is kept *)
Definition le_st (a b : pst) : Prop :=
  ec a <= ec b /\ lex_total b = lex_total a /\ (wfl (rest a) -> wfl (rest b)).
Lemma le_st_refl a : le_st a a.
Proof. repeat split; auto. Qed.
Lemma le_st_trans a b c : le_st a b -> le_st b c -> le_st a c.
Proof. intros (H1 & H2 & H3) (H4 & H5 & H6). split; [lia | split; [congruence | auto]]. Qed.
Lemma le_next a b : le_st a b -> le_st a (next b).
Proof.
  intros (H1 & H2 & H3). split; [rewrite ec_next; lia | split; [rewrite lex_total_next; auto|]].
  intros W. apply wfl_next. auto.
Qed.
Lemma le_expect k a b : le_st a b -> le_st a (expect k b).
Proof.
  intros (H1 & H2 & H3). split; [pose proof (ec_expect_ge k b); lia | split; [rewrite lex_total_expect; auto|]].
  intros W. rewrite rest_expect_next. apply wfl_next. auto.
Qed.
Lemma le_err e a b : le_st a b -> le_st a (err e b).
Proof. intros (H1 & H2 & H3). split; [rewrite ec_err; lia | split; [rewrite lex_total_err; auto | exact H3]]. Qed.

Ltac solve_le :=
  repeat first
    [ apply le_st_refl
    | apply le_next | apply le_expect | apply le_err
    | match goal with H : le_st ?x ?y |- le_st _ ?y => apply (le_st_trans _ x _); [|exact H] end
    | match goal with |- le_st _ (if ?c then _ else _) => destruct c end
    | match goal with |- le_st _ (match ?c with _ => _ end) => destruct c end ].

(* head-position case analysis on a hypothesis  H : <nested matches> = Ok _ *)
Ltac head_scrut t :=
  lazymatch t with
  | match ?x with _ => _ end => head_scrut x
  | _ => t
  end.
Ltac dhv1 H :=
  lazymatch type of H with
  | ?l = _ =>
    lazymatch l with
    | match ?x with _ => _ end =>
      let y := head_scrut x in
      tryif is_var y then destruct y else (destruct y eqn:?; try discriminate H)
    end
  end.
Ltac dhv H := repeat dhv1 H.

(* never use `injection` on parser states: it head-normalises nested expect/next terms (exponential) *)
Lemma ok_pair_inv A B (a c : A) (b d : B) : Ok (a, b) = Ok (c, d) -> a = c /\ b = d.
Proof. intros H; inversion H; auto. Qed.
Lemma pair_inv A B (a c : A) (b d : B) : (a, b) = (c, d) -> a = c /\ b = d.
Proof. intros H; inversion H; auto. Qed.
Ltac inv_ok H := first [apply ok_pair_inv in H | apply pair_inv in H]; destruct H as [? ?]; subst.
