(* C04, token level: every raw token of an error-free file inside the guard is reported with a range that lies
   in the document and covers exactly the token text (Spec/LspRange.v).

   Ghost invariant `Inv s pre post` of a lexer state s reached on `utf8_of cps`:
     cps = pre ++ post, chunk s = utf8_of post (the state sits at a code-point boundary),
     line s - 1 = the LSP line reached after `pre`, the state is not between the CR and the LF of a CRLF, and
     pos s - lsp s = the LSP column (UTF-16 units) reached after `pre`  OR  the rest of the line is empty
     (after a short comment or the `#` line the column counts bytes; nothing else is lexed on that line). *)
From Coq Require Import List NArith ZArith Bool Lia ZifyN ZifyNat ZifyBool.
From LH Require Import Base.Bytes Base.Res Base.Utf8 Model.Codec Model.TextSync Spec.LspText Model.Lexer Spec.LspRange.
From LH Require Import Proofs.CodecProofs Proofs.LexerRangeUtf8 Proofs.LexerRangePos Proofs.LexerRangeScan.
Import ListNotations.
Local Open Scope N_scope.

(* ------------------------------------------------------------------ small list facts *)
Lemma nth_firstn {A} : forall n (l : list A) k x, nth_error (firstn n l) k = Some x -> nth_error l k = Some x /\ (k < n)%nat.
Proof.
  induction n as [|n IH]; intros l k x H; [destruct k; discriminate|].
  destruct l as [|y l]; [destruct k; discriminate|]. destruct k as [|k]; cbn [firstn nth_error] in *; [split; [exact H|lia]|].
  apply IH in H as [H1 H2]. split; [exact H1|lia].
Qed.

Lemma nth_skipn {A} : forall a (l : list A) k, nth_error (skipn a l) k = nth_error l (a + k).
Proof.
  induction a as [|a IH]; intros l k; [reflexivity|]. destruct l as [|y l]; [destruct k; reflexivity|].
  cbn [skipn Nat.add nth_error]. apply IH.
Qed.

Lemma skipn_cons_nth {A} (l : list A) n x t : skipn n l = x :: t -> nth_error l n = Some x /\ skipn (S n) l = t.
Proof.
  revert l; induction n as [|n IH]; intros l H.
  - destruct l; [discriminate|]. cbn [skipn] in *. injection H as -> ->. split; reflexivity.
  - destruct l as [|y l]; [discriminate|]. cbn [skipn nth_error] in H |- *. apply IH, H.
Qed.

Lemma skipn_nil_firstn {A} (l : list A) n : skipn n l = [] -> firstn n l = l.
Proof.
  intros H. rewrite <- (firstn_skipn n l) at 2. rewrite H, app_nil_r. reflexivity.
Qed.

Lemma test2 a b l : test [a; b] l = true -> exists t, l = a :: b :: t.
Proof.
  cbn [test]. destruct l as [|x l]; [discriminate|]. destruct l as [|y l]; [rewrite andb_false_r; discriminate|].
  intros H. exists l. f_equal; [lia|f_equal; lia].
Qed.

Lemma has_pair_mid a b : forall pre t, has_pair a b (pre ++ a :: b :: t) = true.
Proof.
  induction pre as [|x pre IH]; intros t.
  - cbn [app has_pair]. rewrite !N.eqb_refl. reflexivity.
  - cbn [app]. specialize (IH t). destruct (pre ++ a :: b :: t) as [|y l] eqn:E; [destruct pre; discriminate|].
    cbn [has_pair]. cbn [has_pair] in IH. rewrite IH. apply orb_true_r.
Qed.

Lemma utf8_head1 post a r : utf8_of post = a :: r -> a < 128 -> exists post', post = a :: post' /\ r = utf8_of post'.
Proof.
  intros H Ha. destruct post as [|c post]; [discriminate|]. rewrite utf8_of_cons in H.
  destruct (N.ltb_spec c 128) as [Hc|Hc].
  - rewrite enc_ascii in H by exact Hc. cbn [app] in H. apply cons_eq in H as [-> <-]. exists post. split; reflexivity.
  - exfalso. pose proof (enc_high c Hc) as Hf. destruct (enc_cons c) as (b & t & Eb). rewrite Eb in H, Hf.
    cbn [app] in H. apply cons_eq in H as [-> _]. inversion Hf; subst. lia.
Qed.

Lemma match_not35 {A} (x : N) (r : list N) (a b : A) : x <> 35 ->
  match x :: r with 35 :: _ => a | _ => b end = b.
Proof.
  intros Hx. destruct x as [|p]; [reflexivity|].
  do 6 (try (destruct p as [p|p|]; try reflexivity)). congruence.
Qed.

Lemma strip_bom (bs : list N) : (forall t, bs <> 239 :: 187 :: 191 :: t) ->
  match bs with 239 :: 187 :: 191 :: t => t | _ => bs end = bs.
Proof.
  intros H. destruct bs as [|b0 r]; [reflexivity|].
  destruct (N.eq_dec b0 239) as [->|H0].
  2:{ destruct b0 as [|p]; [reflexivity|]. do 8 (try (destruct p as [p|p|]; try reflexivity)). congruence. }
  destruct r as [|b1 r]; [reflexivity|].
  destruct (N.eq_dec b1 187) as [->|H1].
  2:{ destruct b1 as [|p]; [reflexivity|]. do 8 (try (destruct p as [p|p|]; try reflexivity)). congruence. }
  destruct r as [|b2 r]; [reflexivity|].
  destruct (N.eq_dec b2 191) as [->|H2].
  2:{ destruct b2 as [|p]; [reflexivity|]. do 8 (try (destruct p as [p|p|]; try reflexivity)). congruence. }
  exfalso. apply (H r). reflexivity.
Qed.

Section Main.
  Variable cps : list N.
  Hypothesis Hsc : forallb scalar cps = true.
  Hypothesis Hg : file_class_ok cps = true.

  (* ---------------------------------------------------------------- the guard, piece by piece *)
  Lemma guard_parts :
    existsb (fun c => c =? 92) cps = false /\ has_pair 91 91 cps = false /\ has_pair 91 61 cps = false /\
    existsb is_astral cps = false /\ existsb is_two_byte cps = false /\ has_pair 10 13 cps = false /\
    cls_bom cps = false.
  Proof.
    unfold file_class_ok, cls_escape, cls_long_bracket, cls_astral, cls_two_byte, cls_lfcr in Hg.
    apply negb_true_iff in Hg.
    apply orb_false_iff in Hg as [Hg H6]. apply orb_false_iff in Hg as [Hg H5]. apply orb_false_iff in Hg as [Hg H4].
    apply orb_false_iff in Hg as [Hg H3]. apply orb_false_iff in Hg as [H1 H2]. apply orb_false_iff in H2 as [H2 H2'].
    repeat split; assumption.
  Qed.

  Lemma g_no92 : ~ In 92 cps.
  Proof.
    intros Hin. destruct guard_parts as (H & _).
    assert (E : existsb (fun c => c =? 92) cps = true) by (apply existsb_exists; exists 92; split; [exact Hin|reflexivity]).
    congruence.
  Qed.

  Lemma cp_ok c : In c cps -> scalar c = true /\ is_two_byte c = false /\ is_astral c = false.
  Proof.
    intros Hin. destruct guard_parts as (_ & _ & _ & Ha & Ht & _).
    rewrite forallb_forall in Hsc. split; [apply Hsc, Hin|]. split.
    - destruct (is_two_byte c) eqn:E; [|reflexivity].
      assert (existsb is_two_byte cps = true) by (apply existsb_exists; exists c; split; assumption). congruence.
    - destruct (is_astral c) eqn:E; [|reflexivity].
      assert (existsb is_astral cps = true) by (apply existsb_exists; exists c; split; assumption). congruence.
  Qed.

  Lemma no_pair pre post a b r : cps = pre ++ post -> utf8_of post = a :: b :: r -> a < 128 -> b < 128 ->
    has_pair a b cps = true.
  Proof.
    intros Hc Hu Ha Hb. destruct (utf8_head1 _ _ _ Hu Ha) as (post1 & -> & Hu1). symmetry in Hu1.
    destruct (utf8_head1 _ _ _ Hu1 Hb) as (post2 & -> & _). rewrite Hc. apply has_pair_mid.
  Qed.

  Lemma no_lb pre post : cps = pre ++ post ->
    test [91; 91] (utf8_of post) || test [91; 61] (utf8_of post) = false.
  Proof.
    intros Hc. destruct guard_parts as (_ & H1 & H2 & _). apply orb_false_iff. split.
    - destruct (test [91; 91] (utf8_of post)) eqn:E; [|reflexivity]. apply test2 in E as [t E].
      rewrite (no_pair _ _ _ _ _ Hc E) in H1 by lia. discriminate.
    - destruct (test [91; 61] (utf8_of post)) eqn:E; [|reflexivity]. apply test2 in E as [t E].
      rewrite (no_pair _ _ _ _ _ Hc E) in H2 by lia. discriminate.
  Qed.

  Lemma no92_suffix pre post : cps = pre ++ post -> no92 (utf8_of post).
  Proof.
    intros Hc k Hk. apply g_no92. rewrite Hc. apply in_or_app. right.
    apply ascii_byte_in; [eapply nth_error_In, Hk|lia].
  Qed.

  (* ---------------------------------------------------------------- the invariant *)
  Definition at_eol (post : list N) : bool := match post with [] => true | c :: _ => is_newline c end.

  Definition Inv (s : lst) (pre post : list N) : Prop :=
    cps = pre ++ post /\ chunk s = utf8_of post /\
    exists ac l c, walk pre (false, 0, 0) = (ac, l, c) /\ line s = (Z.of_N l + 1)%Z /\
                   ac && next_is_lf post = false /\
                   ((Lexer.pos s - lsp s)%Z = Z.of_N c \/ at_eol post = true).

  Definition tok_ok (t : tok) : Prop :=
    raw_kind (tk t) = true -> forall prev, covers cps (tok_loc prev t) (tstr t) = true.

  (* a run of n plain bytes: the invariant moves on, and the run is covered by its range *)
  Lemma inv_plain s pre post n : Inv s pre post -> (1 <= n)%nat -> PlainTo (chunk s) n ->
    exists blk post', Inv (adv s n) (pre ++ blk) post' /\ (lsp s <= Lexer.pos s)%Z /\
      (forall ln a b, ln = line s -> a = (Lexer.pos s - lsp s)%Z -> b = (Lexer.pos s + Z.of_nat n - lsp s)%Z ->
         covers cps (mkLoc ln a ln b) (firstn n (chunk s)) = true).
  Proof.
    intros (Hc & Hch & ac & l & c & Hw & Hl & Hac & Hcol) Hn Hp. rewrite Hch in Hp.
    destruct (plain_prefix _ _ Hp) as (blk & post' & Hpost & Eb & Eu & Es & El & Ef).
    assert (Hne : blk <> []) by (intros ->; cbn [length] in El; lia).
    assert (Hex : (Lexer.pos s - lsp s)%Z = Z.of_N c).
    { destruct Hcol as [Hcol|He]; [exact Hcol|exfalso]. rewrite Hpost in He. destruct blk as [|x blk]; [congruence|].
      cbn [app at_eol forallb] in He, Ef. unfold plain in Ef. apply andb_true_iff in Ef as [Ef _].
      apply andb_true_iff in Ef as [_ Ef]. rewrite He in Ef. discriminate. }
    assert (Hw2 : walk (pre ++ blk) (false, 0, 0) = (false, l, c + N.of_nat n)).
    { rewrite walk_app, Hw, walk_inl by (try apply plain_inl; assumption). rewrite El. reflexivity. }
    exists blk, post'. split; [|split; [lia|]].
    - split; [rewrite <- app_assoc, <- Hpost; exact Hc|]. split; [unfold adv; cbn [chunk]; rewrite Hch; symmetry; exact Es|].
      exists false, l, (c + N.of_nat n). split; [exact Hw2|]. split; [exact Hl|]. split; [reflexivity|].
      left. unfold adv. cbn [Lexer.pos lsp]. lia.
    - intros ln a b -> -> ->. rewrite Hch, <- Eb. rewrite <- Eu.
      apply (covers_block cps pre blk post' l c (c + N.of_nat n) ac false);
        try assumption; try lia; try reflexivity; rewrite <- Hpost; assumption.
  Qed.

  (* consumption up to the line end: after "--" (short comment) or "#" (first line) *)
  Lemma inv_to_eol s pre blk0 post2 s' :
    Inv s pre (blk0 ++ post2) -> blk0 <> [] -> forallb nonl blk0 = true ->
    chunk s' = skipn (until_newline (utf8_of post2)) (utf8_of post2) -> line s' = line s ->
    exists pre' post', Inv s' pre' post'.
  Proof.
    intros (Hc & Hch & ac & l & c & Hw & Hl & Hac & Hcol) Hne Hnl0 Hch' Hl'.
    destruct (until_newline_spec (utf8_of post2)) as [Hf Hs].
    set (n := until_newline (utf8_of post2)) in *.
    assert (Hnonl : forall blk, (forall x, In x blk -> x < 128 -> In x (firstn n (utf8_of post2))) -> forallb nonl blk = true).
    { intros blk Hb. apply forallb_forall. intros x Hx. destruct (is_newline x) eqn:En.
      - exfalso. assert (Hx128 : x < 128) by (unfold is_newline in En; lia).
        rewrite forallb_forall in Hf. specialize (Hb x Hx Hx128). apply Hf in Hb. rewrite En in Hb. discriminate.
      - unfold is_newline in En. unfold nonl. lia. }
    assert (Hwalk : forall blk, forallb nonl blk = true ->
               exists col', walk (pre ++ blk0 ++ blk) (false, 0, 0) = (false, l, col')).
    { intros blk Hb. rewrite walk_app, Hw. apply walk_nonl; [rewrite forallb_app, Hnl0, Hb; reflexivity|].
      destruct blk0; [congruence|discriminate]. }
    destruct Hs as [Hs|(b & t & Hs & Hb)].
    - (* the line runs to the end of the file *)
      assert (Hb : forallb nonl post2 = true).
      { apply Hnonl. intros x Hx Hx128. rewrite (skipn_nil_firstn _ _ Hs). apply in_utf8_of; assumption. }
      destruct (Hwalk post2 Hb) as [col' Hw'].
      exists (pre ++ blk0 ++ post2), []. split; [rewrite <- !app_assoc, app_nil_r; exact Hc|].
      split; [rewrite Hch', Hs; reflexivity|].
      exists false, l, col'. split; [exact Hw'|]. split; [lia|]. split; [reflexivity|right; reflexivity].
    - assert (Hb128 : b < 128) by (unfold is_newline in Hb; lia).
      apply skipn_cons_nth in Hs as Hs2. destruct Hs2 as [Hnth _].
      destruct (split_at_ascii _ _ _ Hnth Hb128) as (blk & post3 & -> & Ef & Es).
      assert (Hbn : forallb nonl blk = true).
      { apply Hnonl. intros x Hx Hx128. rewrite <- Ef. apply in_utf8_of; assumption. }
      destruct (Hwalk blk Hbn) as [col' Hw'].
      exists (pre ++ blk0 ++ blk), (b :: post3). split; [rewrite Hc, <- !app_assoc; reflexivity|].
      split; [rewrite Hch', <- Es, utf8_of_cons, enc_ascii by exact Hb128; reflexivity|].
      exists false, l, col'. split; [exact Hw'|]. split; [lia|]. split; [reflexivity|right; exact Hb].
  Qed.

  (* ---------------------------------------------------------------- white space and comments *)
  Lemma skip_ws_f_inv : forall fuel p2 p1 s cs errs s1 cs1 errs1 pre post,
    skip_ws_f fuel p2 p1 s cs errs = (s1, cs1, errs1) -> Inv s pre post -> exists pre1 post1, Inv s1 pre1 post1.
  Proof.
    induction fuel as [|f IH]; intros p2 p1 s cs errs s1 cs1 errs1 pre post H HI.
    { cbn [skip_ws_f] in H. psplit H. subst s1. eauto. }
    cbn [skip_ws_f] in H. destruct (chunk s) as [|c0 rest] eqn:Hch; [psplit H; subst s1; eauto|].
    cbv zeta in H.
    pose proof HI as (Hc & Hchu & ac & l & c & Hw & Hl & Hac & Hcol).
    rewrite Hch in Hchu. symmetry in Hchu.
    destruct (match rest with c1 :: _ => (c0 =? 13) && (c1 =? 10) || (c0 =? 10) && (c1 =? 13) | [] => false end) eqn:Ewrap.
    { (* CR LF (LF CR is outside the guard) *)
      destruct rest as [|c1 rest']; [discriminate|].
      assert (E : c0 = 13 /\ c1 = 10).
      { destruct ((c0 =? 13) && (c1 =? 10)) eqn:E1; [lia|]. exfalso. cbn [orb] in Ewrap.
        assert (c0 = 10 /\ c1 = 13) as [-> ->] by lia. destruct guard_parts as (_ & _ & _ & _ & _ & Hp & _).
        rewrite (no_pair _ _ _ _ _ Hc Hchu) in Hp by lia. discriminate. }
      destruct E as [-> ->].
      destruct (utf8_head1 _ _ _ Hchu ltac:(lia)) as (post1 & -> & Hu1). symmetry in Hu1.
      destruct (utf8_head1 _ _ _ Hu1 ltac:(lia)) as (post2 & -> & Hu2).
      apply IH with (pre := pre ++ [13; 10]) (post := post2) in H; [exact H|].
      split; [rewrite <- app_assoc; exact Hc|]. split; [cbn [chunk adv]; rewrite Hch; exact Hu2|].
      exists false, (l + 1), 0. split; [rewrite walk_app, Hw; apply walk_crlf|]. cbn [line adv Lexer.pos lsp].
      split; [lia|]. split; [reflexivity|left; lia]. }
    destruct (is_newline c0) eqn:Enl.
    { assert (Hc0 : c0 < 128) by (unfold is_newline in Enl; lia).
      destruct (utf8_head1 _ _ _ Hchu Hc0) as (post1 & -> & Hu1).
      apply IH with (pre := pre ++ [c0]) (post := post1) in H; [exact H|].
      split; [rewrite <- app_assoc; exact Hc|]. split; [cbn [chunk adv]; rewrite Hch; exact Hu1|].
      destruct (N.eq_dec c0 10) as [->|Hne].
      - (* LF *)
        cbn [next_is_lf] in Hac. change (10 =? 10) with true in Hac. rewrite andb_true_r in Hac. subst ac.
        exists false, (l + 1), 0. split; [rewrite walk_app, Hw; apply walk_lf|]. cbn [line adv Lexer.pos lsp].
        split; [lia|]. split; [reflexivity|left; lia].
      - (* a CR that is not followed by LF *)
        assert (c0 = 13) as -> by (unfold is_newline in Enl; lia).
        exists true, (l + 1), 0. split; [rewrite walk_app, Hw; apply walk_cr|]. cbn [line adv Lexer.pos lsp].
        split; [lia|]. split; [|left; lia]. cbn [andb].
        destruct post1 as [|x post1']; [reflexivity|]. cbn [next_is_lf].
        destruct (N.eq_dec x 10) as [->|Hx]; [|lia]. exfalso.
        rewrite utf8_of_cons, enc_ascii in Hu1 by lia. subst rest. cbn [app] in Ewrap. discriminate. }
    destruct (is_white c0) eqn:Ewh.
    { assert (Hp : PlainTo (chunk s) 1).
      { rewrite Hch. apply PlainTo_1. unfold is_white in Ewh. unfold plain, is_newline. lia. }
      destruct (inv_plain s pre post 1 HI ltac:(lia) Hp) as (blk & post' & HI' & _).
      apply IH with (pre := pre ++ blk) (post := post') in H; [exact H|exact HI']. }
    destruct (negb (match rest with c1 :: _ => (c0 =? 45) && (c1 =? 45) | [] => false end)) eqn:Epre.
    { psplit H. subst s1. eauto. }
    destruct rest as [|c1 r]; [discriminate|].
    assert (c0 = 45 /\ c1 = 45) as [-> ->] by lia.
    destruct (utf8_head1 _ _ _ Hchu ltac:(lia)) as (post1 & -> & Hu1). symmetry in Hu1.
    destruct (utf8_head1 _ _ _ Hu1 ltac:(lia)) as (post2 & -> & Hu2).
    assert (Hlb : test [91; 91] r || test [91; 61] r = false).
    { rewrite Hu2. apply (no_lb (pre ++ [45; 45])). rewrite <- app_assoc. exact Hc. }
    rewrite (skip_comment_short s r Hch Hlb) in H.
    destruct (inv_to_eol s pre [45; 45] post2 (adv (adv s 2) (until_newline r)) HI ltac:(discriminate) eq_refl)
      as (pre' & post' & HI').
    { cbn [chunk adv]. rewrite Hch. cbn [skipn]. rewrite Hu2. reflexivity. }
    { reflexivity. }
    apply IH with (pre := pre') (post := post') in H; [exact H|exact HI'].
  Qed.

  Lemma skip_ws_inv p2 p1 s s1 cms es pre post :
    skip_ws p2 p1 s = (s1, cms, es) -> Inv s pre post -> exists pre1 post1, Inv s1 pre1 post1.
  Proof.
    unfold skip_ws. intros H HI.
    destruct (skip_ws_f (S (length (chunk s))) p2 p1 s (mkCst None 0 []) []) as [[s1' cs] errs] eqn:E.
    psplit H. subst s1. eapply skip_ws_f_inv; [exact E|exact HI].
  Qed.

  (* ---------------------------------------------------------------- the start: BOM and `#` line *)
  Lemma skip_first_line_inv : exists pre post, Inv (skip_first_line (utf8_of cps)) pre post.
  Proof.
    unfold skip_first_line. cbv zeta.
    assert (Hnb : forall t, utf8_of cps <> 239 :: 187 :: 191 :: t).
    { intros t E. destruct guard_parts as (_ & _ & _ & _ & _ & _ & Hb). destruct cps as [|c cps']; [discriminate|].
      rewrite utf8_of_cons in E. apply enc_bom in E. subst c. discriminate. }
    rewrite (strip_bom _ Hnb).
    assert (HI0 : Inv (mkLst (utf8_of cps) 1 0 0) [] cps).
    { split; [reflexivity|]. split; [reflexivity|]. exists false, 0, 0. repeat split. left. reflexivity. }
    destruct (utf8_of cps) as [|b0 r] eqn:Eu; [eauto|].
    destruct (N.eq_dec b0 35) as [->|Hb0]; [|rewrite (match_not35 b0 r _ _ Hb0); eauto].
    cbv iota beta.
    destruct (utf8_head1 _ _ _ Eu ltac:(lia)) as (post1 & Hcps & Hr).
    rewrite Hcps in HI0.
    apply (inv_to_eol _ [] [35] post1 _ HI0); [discriminate|reflexivity| |reflexivity].
    cbn [chunk adv skipn]. rewrite Hr. reflexivity.
  Qed.

  Section Tokens.
  Context {fx : FxEscape}.
  Variable gbk : list N -> Z.

  (* a short string without escape and line end *)
  Lemma inv_string s pre post t s' : Inv s pre post -> TokB gbk s t s' -> exists pre' post', Inv s' pre' post'.
  Proof.
    intros (Hc & Hch & ac & l & c & Hw & Hl & Hac & Hcol) (_ & d & j & Hj & H0 & Hd & Hjd & Hnl & ->).
    rewrite Hch in H0, Hjd, Hnl |- *.
    assert (Hd128 : d < 128) by (unfold plain in Hd; lia).
    destruct (utf8_of post) as [|d' r1] eqn:Eu; [discriminate|]. cbn [nth_error] in H0. injection H0 as ->.
    destruct (utf8_head1 _ _ _ Eu Hd128) as (post1 & -> & ->).
    destruct j as [|j]; [lia|]. cbn [nth_error] in Hjd. cbn [skipn]. replace (S j - 1)%nat with j by lia.
    destruct (split_at_ascii _ _ _ Hjd Hd128) as (blk & post' & -> & Ef & Es).
    (* the characters between the quotes *)
    assert (Hin : forall x, In x blk -> In x cps).
    { intros x Hx. rewrite Hc. apply in_or_app. right. right. apply in_or_app. left. exact Hx. }
    assert (Hsb : forallb scalar blk = true) by (apply forallb_forall; intros x Hx; apply cp_ok, Hin, Hx).
    assert (H2b : existsb is_two_byte blk = false).
    { destruct (existsb is_two_byte blk) eqn:E; [|reflexivity]. apply existsb_exists in E as (x & Hx & E).
      destruct (cp_ok x (Hin x Hx)) as (_ & E2 & _). congruence. }
    assert (Hinl : forallb inl blk = true).
    { apply forallb_forall. intros x Hx. destruct (cp_ok x (Hin x Hx)) as (_ & _ & Ea). unfold is_astral in Ea.
      destruct (is_newline x) eqn:En.
      - exfalso. assert (Hx128 : x < 128) by (unfold is_newline in En; lia).
        apply (in_utf8_of x blk Hx) in Hx128 as Hb. rewrite Ef in Hb. apply In_nth_error in Hb as [k Hk].
        apply nth_firstn in Hk as [Hk Hkj]. rewrite (Hnl (S k) x) in En; [discriminate|lia|exact Hk].
      - unfold is_newline in En. unfold inl. lia. }
    rewrite <- Ef. rewrite conv_rune_count_utf8 by assumption.
    set (blk' := d :: blk ++ [d]).
    assert (Hinl' : forallb inl blk' = true).
    { subst blk'. cbn [forallb]. rewrite forallb_app, Hinl. cbn [forallb].
      assert (inl d = true) by (unfold plain, is_newline in Hd; unfold inl; lia). rewrite H. reflexivity. }
    assert (Hex : (Lexer.pos s - lsp s)%Z = Z.of_N c).
    { destruct Hcol as [Hcol|He]; [exact Hcol|exfalso]. cbn [at_eol] in He. unfold plain in Hd. rewrite He in Hd.
      rewrite andb_false_r in Hd. discriminate. }
    exists (pre ++ blk'), post'. split; [|split].
    - rewrite Hc. subst blk'. rewrite <- app_assoc. cbn [app]. rewrite <- app_assoc. reflexivity.
    - cbn [chunk]. symmetry in Es. apply skipn_cons_nth in Es as [_ Es]. exact Es.
    - exists false, l, (c + N.of_nat (length blk')). split; [|split; [exact Hl|split; [reflexivity|]]].
      + rewrite walk_app, Hw. apply walk_inl; [exact Hinl'|subst blk'; discriminate].
      + left. cbn [Lexer.pos lsp]. subst blk'. cbn [length]. rewrite app_length. cbn [length]. lia.
  Qed.

  (* ---------------------------------------------------------------- one token *)
  Lemma token_step s1 pre1 post1 t s2 :
    Inv s1 pre1 post1 -> scan_token gbk s1 = (t, s2, []) -> tk t <> TkEOF ->
    (exists pre2 post2, Inv s2 pre2 post2) /\ tok_ok t.
  Proof.
    intros HI H Hne. pose proof HI as (Hc & Hch & _).
    destruct (chunk s1) as [|c rest] eqn:Ech.
    { exfalso. unfold scan_token in H. cbv zeta in H. rewrite Ech in H. psplit H. subst t. apply Hne. reflexivity. }
    assert (H92 : no92 (chunk s1)) by (rewrite Ech, Hch; apply (no92_suffix pre1), Hc).
    assert (Hlb : test [91; 91] (chunk s1) || test [91; 61] (chunk s1) = false)
      by (rewrite Ech, Hch; apply (no_lb pre1), Hc).
    destruct (scan_token_cases gbk s1 c rest t s2 Ech H92 Hlb H) as [HA|HB].
    - destruct HA as (n & Hn & Hp & -> & Hstr & Hline & Hlsp & Hfrom & Hto).
      destruct (inv_plain s1 pre1 post1 n HI Hn Hp) as (blk & post' & HI' & Hle & Hcov).
      split; [eauto|]. intros _ prev. unfold tok_loc. rewrite Hlsp, Hfrom, Hto, Hline, Hstr.
      replace (lsp s1 >? Lexer.pos s1)%Z with false by lia.
      apply Hcov; [reflexivity|reflexivity|lia].
    - split; [eapply inv_string; [exact HI|exact HB]|].
      destruct HB as (Hk & _). intros Hr. rewrite Hk in Hr. discriminate.
  Qed.

  (* ---------------------------------------------------------------- the token loop *)
  Lemma lex_loop_incl : forall fuel p2 p1 s acc ts,
    lex_loop gbk fuel p2 p1 s acc = Ok ts -> incl acc ts.
  Proof.
    induction fuel as [|f IH]; intros p2 p1 s acc ts H; [discriminate|].
    cbn [lex_loop] in H. destruct (next_token gbk p2 p1 s) as [lt1 s1].
    assert (Hstep : lex_loop gbk f p1 (Some (lt lt1)) s1 (lt1 :: acc) = Ok ts -> incl acc ts).
    { intros H'. apply IH in H'. intros x Hx. apply H'. right. exact Hx. }
    destruct (tk (lt lt1)); try (apply Hstep, H).
    injection H as <-. intros x Hx. apply in_or_app. left. apply (proj1 (in_rev _ x)). exact Hx.
  Qed.

  Definition noerr (l : ltok) : Prop := lerrs l = [].

  Lemma lex_loop_ok : forall fuel p2 p1 s acc ts pre post,
    lex_loop gbk fuel p2 p1 s acc = Ok ts -> Forall noerr ts -> Forall (fun l => tok_ok (lt l)) acc ->
    Inv s pre post -> Forall (fun l => tok_ok (lt l)) ts.
  Proof.
    induction fuel as [|f IH]; intros p2 p1 s acc ts pre post H Hno Hacc HI; [discriminate|].
    cbn [lex_loop] in H. destruct (next_token gbk p2 p1 s) as [lt1 s2] eqn:En.
    unfold next_token in En. destruct (skip_ws p2 p1 s) as [[s1 cms] es1] eqn:Ews.
    destruct (scan_token gbk s1) as [[t s2'] es2] eqn:Est. psplit En. subst lt1 s2'.
    cbn [lt] in H.
    destruct (skip_ws_inv _ _ _ _ _ _ _ _ Ews HI) as (pre1 & post1 & HI1).
    assert (Hstep : lex_loop gbk f p1 (Some t) s2 (mkLtok t (es1 ++ es2) cms :: acc) = Ok ts -> tk t <> TkEOF ->
                    Forall (fun l => tok_ok (lt l)) ts).
    { intros H' Hne.
      assert (Hin : In (mkLtok t (es1 ++ es2) cms) ts) by (apply (lex_loop_incl _ _ _ _ _ _ H'); left; reflexivity).
      rewrite Forall_forall in Hno. apply Hno in Hin. unfold noerr in Hin. cbn [lerrs] in Hin.
      apply app_eq_nil in Hin as [_ ->].
      destruct (token_step _ _ _ _ _ HI1 Est Hne) as ((pre2 & post2 & HI2) & Hok).
      eapply IH; [exact H'|apply Forall_forall; exact Hno| |exact HI2].
      constructor; [exact Hok|exact Hacc]. }
    destruct (tk t) eqn:Ek; try (apply Hstep; [exact H|discriminate]).
    injection H as <-. apply Forall_app. split; [apply Forall_rev; exact Hacc|]. constructor; [|constructor].
    cbn [lt]. intros Hr. rewrite Ek in Hr. discriminate.
  Qed.

  End Tokens.
End Main.

(* ------------------------------------------------------------------ the theorem *)
Lemma covered_of_tok_ok cps : forall ts prev,
  Forall (fun l => tok_ok cps (lt l)) ts ->
  forallb (fun p => negb (raw_kind (tk (fst p))) || covers cps (snd p) (tstr (fst p))) (tok_locs prev ts) = true.
Proof.
  induction ts as [|t ts IH]; intros prev Hf; [reflexivity|].
  inversion Hf as [|x l Hx Hl]; subst. cbn [tok_locs forallb fst snd]. rewrite IH by exact Hl. rewrite andb_true_r.
  destruct (raw_kind (tk (lt t))) eqn:Er; [|reflexivity]. cbn [negb orb]. apply Hx. exact Er.
Qed.

Theorem tok_range_exact : forall gbk cps ts,
  forallb scalar cps = true -> file_class_ok cps = true ->
  lex_all gbk (utf8_of cps) = Ok ts -> cls_lexerr ts = false ->
  all_tokens_covered cps ts = true.
Proof.
  intros gbk cps ts Hsc Hg Hlex Herr. unfold all_tokens_covered. apply covered_of_tok_ok.
  unfold lex_all in Hlex.
  destruct (skip_first_line_inv cps Hsc Hg) as (pre & post & HI).
  eapply (lex_loop_ok cps Hsc Hg gbk); [exact Hlex| |constructor|exact HI].
  apply Forall_forall. intros x Hx. unfold noerr. unfold cls_lexerr in Herr.
  destruct (lerrs x) eqn:E; [reflexivity|exfalso].
  assert (existsb (fun t => match lerrs t with [] => false | _ => true end) ts = true).
  { apply existsb_exists. exists x. split; [exact Hx|]. rewrite E. reflexivity. }
  congruence.
Qed.
Print Assumptions tok_range_exact.
