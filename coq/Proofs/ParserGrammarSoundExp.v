(* C03, token level, soundness: step lemmas for expressions, prefix expressions, tables and function bodies. *)
From Coq Require Import List NArith ZArith Bool Lia.
From LH Require Import Base.Bytes Base.Res Model.Lexer Model.Ast Model.Parser Spec.LuaGrammar.
From LH Require Import Proofs.ParserGrammarBase Proofs.ParserGrammarMono Proofs.ParserGrammarFlat
     Proofs.ParserGrammarComplete Proofs.ParserGrammarPost Proofs.ParserGrammarCompleteMain
     Proofs.ParserGrammarSoundBase Proofs.ParserGrammarSoundDefs.
Import ListNotations.
#[local] Opaque expect next err la.

Lemma ops_join_unary Q lim ts r' r : lim <= 11 -> OpsQ Q 10 ts r' -> OpsQ Q lim r' r -> OpsQ Q lim ts r.
Proof.
  intros L H1 H2. destruct (Nat.le_gt_cases lim 10) as [Hle|Hgt].
  - eapply ops_join; eauto.
  - assert (lim = 11) by lia. subst lim. apply ops_10_11 in H1. eapply ops_join; eauto.
Qed.

Lemma climb_cond_inv p lim : Nat.ltb 0 p && negb (Nat.leb p lim) = true -> lim < p.
Proof.
  intros H. apply andb_true_iff in H. destruct H as [_ H]. apply negb_true_iff in H. apply Nat.leb_gt in H. exact H.
Qed.
Lemma climb_cond_inv_false p lim : Nat.ltb 0 p && negb (Nat.leb p lim) = false -> p <= lim.
Proof.
  intros H. apply andb_false_iff in H. destruct H as [H|H].
  - apply Nat.ltb_ge in H. lia.
  - apply negb_false_iff in H. apply Nat.leb_le in H. exact H.
Qed.

Section Steps.
  Variable classify : list N -> numcls.
  Notation SQ := (Simple classify).

  Ltac gramx :=
    lazymatch goal with
    | |- Simple _ _ _ =>
      first [ solve [eapply Si_nil; gp] | solve [eapply Si_true; gp] | solve [eapply Si_false; gp]
            | solve [eapply Si_vararg; gp] | solve [eapply Si_string; gp] | solve [eapply Si_table; gp]
            | solve [eapply Si_function; gp] | solve [eapply Si_prefix; gp] ]
    | |- PrefixExp _ _ _ _ => first [solve [eapply Px_name; gp] | solve [eapply Px_paren; gp]]
    | |- Suffixes _ _ _ _ _ =>
      first [ solve [eapply Sx_end; gp] | solve [eapply Sx_index; gp] | solve [eapply Sx_field; gp]
            | solve [eapply Sx_call; gp] | solve [eapply Sx_method; gp] ]
    | |- _ => gram
    end.
  Ltac done3 := hdk_norm; (split; [gramx | split; [assumption | cbn [notbad]; auto]]).

  Lemma S_subexp n : sound_at classify n -> C_subexp classify (S n).
  Proof.
    intros IH lim st v st' H O Hec Hlim. spread IH. rewrite subexp_eq in H. dhv H; unstick H; try inv_ok H.
    - rewrite is_unop_unop in *. change unary_limit with 10 in *. chain classify n.
      eexists. split; [eapply OQ_unop; eauto; congruence|].
      split; [eapply ops_join_unary; eauto|]. split; [assumption|].
      match goal with Hn : notbad _ -> notbad v |- _ => apply Hn; exact I end.
    - chain classify n. eexists. split; [eapply OQ_simple; eauto|]. split; [eassumption|]. split; auto.
  Qed.

  Lemma S_binop_loop n : sound_at classify n -> C_binop_loop classify (S n).
  Proof.
    intros IH lim bbl e st v st' H O Hec Hlim. spread IH. rewrite binop_loop_eq in H. dhv H; unstick H; try inv_ok H.
    - match goal with Hc : _ && _ = true |- _ => apply climb_cond_inv in Hc end.
      pose proof (prio_sub (la st)) as Hp11. pose proof (prio_sub_ge (la st) lim ltac:(assumption)) as Hpge.
      assert (Hne : la st <> TkEOF) by (intros X; rewrite X in *; simpl in *; lia).
      chain classify n.
      split; [|split; [assumption | intros _; match goal with Hn : notbad _ -> notbad v |- _ => apply Hn; exact I end]].
      eapply OpsQ_cons; eauto; [congruence|]. eapply ops_join; eauto.
    - match goal with Hc : _ && _ = false |- _ => apply climb_cond_inv_false in Hc end.
      split; [|split; [assumption | auto]]. apply OpsQ_end. rewrite <- la_hdk. assumption.
  Qed.

  Lemma S_exp0 n : sound_at classify n -> C_exp0 classify (S n).
  Proof.
    intros IH st v st' H O Hec. spread IH. rewrite exp0_eq in H. dhv H; unstick H; try inv_ok H.
    all: chain classify n.
    all: try solve [done3].
    all: try (split; [|split; [assumption | exact I]]; eapply Si_number; eauto; unfold num_ok;
              rewrite <- (now_str_tok _ _ Nw); congruence).
  Qed.

  Lemma notbad_parens e l : notbad e -> notbad (if keeps_parens e then EParens e l else e).
  Proof. destruct e; simpl; auto. Qed.
  Ltac nb :=
    first [ exact I | assumption
          | match goal with
            | Hn : notbad _ -> notbad ?v |- notbad ?v =>
              apply Hn; first [exact I | assumption | apply notbad_parens; assumption]
            end
          | intros ?; nb ].
  Lemma kind_noparens e : keeps_parens e = false -> kind_of e = PParen.
  Proof. destruct e; simpl; intros; try discriminate; reflexivity. Qed.
  Ltac done4 :=
    hdk_norm; cbn [kind_of] in *; rewrite ?kind_parens in *;
    repeat match goal with Hk : keeps_parens ?e = false |- _ => rewrite (kind_noparens e Hk) in *; clear Hk end;
    (split; [gramx | split; [assumption | nb]]).

  Lemma S_prefixexp n : sound_at classify n -> C_prefixexp classify (S n).
  Proof.
    intros IH st v st' H O Hec. spread IH. rewrite prefixexp_eq in H. dhv H; unstick H; try inv_ok H.
    all: chain classify n.
    all: try solve [done4].
  Qed.

  Lemma S_finish_prefix n : sound_at classify n -> C_finish_prefix classify (S n).
  Proof.
    intros IH e bl st v st' H O Hec. spread IH. rewrite finish_prefix_eq in H. dhv H; unstick H; try inv_ok H.
    all: chain classify n.
    all: try solve [done4].
  Qed.

  Lemma S_args n : sound_at classify n -> C_args classify (S n).
  Proof.
    intros IH st v st' H O Hec. spread IH. rewrite args_eq in H. dhv H; unstick H; try inv_ok H.
    all: chain classify n.
    all: try solve [done].
  Qed.

  Lemma S_table n : sound_at classify n -> C_table classify (S n).
  Proof.
    intros IH st v st' H O Hec. spread IH. rewrite table_eq in H. dhv H; unstick H; try inv_ok H.
    all: chain classify n.
    all: try solve [done4].
  Qed.

  Lemma sep_cond_inv k : tk_eqb k TkSepComma || tk_eqb k TkSepSemi = true -> k = TkSepComma \/ k = TkSepSemi.
  Proof. intros H. apply orb_true_iff in H. destruct H as [H|H]; apply tk_eqb_eq in H; auto. Qed.
  Lemma sep_cond_inv_false k :
    tk_eqb k TkSepComma || tk_eqb k TkSepSemi = false -> k <> TkSepComma /\ k <> TkSepSemi.
  Proof. intros H. apply orb_false_iff in H. destruct H as [H1 H2]. split; apply tk_eqb_neq; assumption. Qed.

  Lemma S_fieldlist_tail n : sound_at classify n -> C_fieldlist_tail classify (S n).
  Proof.
    intros IH st ks vs v st' H O Hec. spread IH. rewrite fieldlist_tail_eq in H. dhv H; unstick H; try inv_ok H.
    all: try match goal with Hs : _ || _ = true |- _ => apply sep_cond_inv in Hs end.
    all: try match goal with Hs : _ || _ = false |- _ => apply sep_cond_inv_false in Hs; destruct Hs end.
    all: chain classify n.
    - hdk_norm. split; [|assumption]. eapply FT_sep_field; eauto. rewrite K. assumption.
    - hdk_norm. split; [|assumption]. eapply FT_sep_end; eauto. rewrite K. assumption.
    - hdk_norm. split; [|assumption]. eapply FT_end; eauto.
  Qed.

  Lemma S_funcdef n : sound_at classify n -> C_funcdef classify (S n).
  Proof.
    intros IH bl st v st' H O Hec. spread IH. rewrite funcdef_eq in H. dhv H; unstick H; try inv_ok H.
    all: chain classify n.
    all: try solve [done4].
  Qed.

  Lemma field_exp_ahead n st e st1 :
    p_subexp classify n 0 st = Ok (e, st1) -> okl (rest st) -> (forall nm l, e <> EName nm l) ->
    name_assign_ahead (rest st) = false.
  Proof.
    intros H [W _] Ne. destruct (name_assign_ahead (rest st)) eqn:A; [|reflexivity]. exfalso.
    destruct (rest st) as [|t1 [|t2 r]] eqn:R; try discriminate. cbn [name_assign_ahead] in A.
    apply andb_true_iff in A. destruct A as [A1 A2]. apply tk_eqb_eq in A1. apply tk_eqb_eq in A2.
    assert (HT : T TkIdentifier (t1 :: t2 :: r) (t2 :: r)) by (exists t1; auto).
    assert (A : at_ st (t1 :: t2 :: r) (perrs st)) by (repeat split; assumption).
    pose proof (subexp_single_name classify _ _ HT ltac:(cbn [hdk]; rewrite A2; reflexivity)
                  ltac:(cbn [hdk]; rewrite A2; reflexivity) n st _ A) as P.
    rewrite H in P. cbn [post] in P. destruct P as (_ & nm & l & ->). eapply Ne; reflexivity.
  Qed.

  Lemma naa_cons t r : hdk r <> TkOpAssign -> name_assign_ahead (t :: r) = false.
  Proof.
    intros H. cbn [name_assign_ahead]. destruct r as [|t2 r]; [reflexivity|]. cbn [hdk] in H.
    apply tk_eqb_neq in H. rewrite H. apply andb_false_r.
  Qed.

  Lemma S_field n : sound_at classify n -> C_field classify (S n).
  Proof.
    intros IH st v st' H O Hec. spread IH. rewrite field_eq in H. dhv H; unstick H; try inv_ok H.
    all: try match goal with
             | Hs : p_subexp _ _ 0 ?s0 = Ok (?e, _) |- _ =>
               constr_eq s0 st;
               lazymatch e with
               | EName _ _ => pose proof (subexp_name _ _ _ _ _ _ _ Hs) as [Hn1 Hn2]
               | _ => pose proof (field_exp_ahead _ _ _ _ Hs O ltac:(discriminate))
               end
             end.
    all: chain classify n.
    all: try solve [done].
    all: assert (Hq : ec (expect TkIdentifier st) = ec st) by (rewrite <- Hn2; lia);
      destruct (expect_inv' st TkIdentifier O ltac:(discriminate) Hq) as (t1 & E1 & K1 & _ & _); rewrite <- Hn2 in E1;
      hdk_norm; (split; [|assumption]).
    - eapply Fd_name; [exists t1; split; eauto | eassumption | eassumption].
    - eapply Fd_exp; [|eassumption]. rewrite E1. apply naa_cons. assumption.
  Qed.
End Steps.
