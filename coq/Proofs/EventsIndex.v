(* C08 - with the repaired FileIndexInfo.RemoveOneFile (flag fix_index) the file index holds exactly the project
   files: p_index = p_files is established by a server start and kept by HandleFileEventChanges (any notification,
   files inside or outside the workspace) and by RemoveFile. *)
From Coq Require Import List NArith Bool.
From LH Require Import Model.Diag Model.Events Spec.FreshStart Proofs.DiagProofs Proofs.EventsSets Proofs.EventsRefine Proofs.EventsBatch.
Import ListNotations.
Local Open Scope N_scope.

Section Index.
  Variable A : analysis.
  Variable fx : fixes.
  Local Notation txt := (text A).

  Definition idx_eq (p : proj A) : Prop := p_index p = p_files p.

  Lemma idx_eq_sub p : idx_eq p -> idx_sub A p.
  Proof. intros H x Hx. rewrite <- H. exact Hx. Qed.

  Lemma first_fold_fields save dk l : forall p : proj A,
    p_files (first_fold A fx save dk p l) = p_files p /\ p_index (first_fold A fx save dk p l) = p_index p.
  Proof.
    induction l as [|f l IH]; intros p; [split; reflexivity|]. cbn [first_fold fold_left].
    fold (first_fold A fx save dk (fst (first_one A fx save dk p f)) l).
    destruct (IH (fst (first_one A fx save dk p f))) as [I1 I2].
    pose proof (first_one_fields A fx save dk p f) as Hf. cbn zeta in Hf. destruct Hf as [F1 [F2 _]].
    split; congruence.
  Qed.

  Lemma classify_idx tincl0 evs : forall (p : proj A) (h : hflags),
    fix_index fx = true -> idx_eq p -> idx_eq (fst (fold_left (classify_one A fx tincl0) evs (p, h))).
  Proof.
    induction evs as [|[f k] r IH]; intros p h Hfix Hp; [exact Hp|]. cbn [fold_left].
    destruct (classify_one A fx tincl0 (p, h) (f, k)) as [p' h'] eqn:Ec. apply IH; [exact Hfix|].
    unfold classify_one in Ec. cbn [fst snd] in Ec. revert Ec. generalize (eff_kind A fx p (f, k)). clear k. intros k Ec.
    unfold classify_base in Ec. cbn [fst snd] in Ec. unfold idx_eq in *.
    destruct k.
    - destruct (in_dir A f || fix_outside fx); injection Ec as <- _; cbn [p_index p_files]; rewrite Hp; reflexivity.
    - injection Ec as <- _. exact Hp.
    - destruct (in_dir A f || fix_outside fx); injection Ec as <- _; unfold remove_file; cbn [p_index p_files]; rewrite Hfix, Hp; reflexivity.
  Qed.

  Lemma handle_events_idx dk (p : proj A) evs :
    fix_index fx = true -> idx_eq p -> idx_eq (fst (handle_events A fx dk p evs)).
  Proof.
    intros Hfix Hp. rewrite handle_events_eq. cbn zeta.
    pose proof (classify_idx (p_tincl p) evs p (h0) Hfix Hp) as H1.
    set (ph := fold_left (classify_one A fx (p_tincl p)) evs (p, h0)) in *.
    pose proof (first_fold_fields true dk (h_again (snd ph)) (fst ph)) as [F1 F2].
    rewrite <- (first_many_eq A fx true dk (fst ph) (h_again (snd ph))) in F1, F2.
    set (pc := first_many A fx true dk (fst ph) (h_again (snd ph))) in *.
    unfold idx_eq in *.
    destruct (negb (snd pc) && negb (h_all (snd ph))); cbn [fst].
    - destruct (is_nil (h_refer (snd ph))); cbn [reanalyse_all set_fsm set_lru p_index p_files]; congruence.
    - destruct (h_third (snd ph)); destruct (is_nil (h_refer (snd ph)));
        cbn [recompute_third reanalyse_all set_fsm set_lru p_index p_files]; congruence.
  Qed.

  Lemma remove_file_idx (p : proj A) f : fix_index fx = true -> idx_eq p -> idx_eq (remove_file A fx p f).
  Proof. intros Hfix Hp. unfold idx_eq, remove_file in *. cbn [p_index p_files]. rewrite Hfix, Hp. reflexivity. Qed.

  Lemma set_lru_idx (p : proj A) l : idx_eq p -> idx_eq (set_lru A p l).
  Proof. intros H. exact H. Qed.

  Lemma init_idx dk : idx_eq (init_proj A fx dk).
  Proof.
    unfold init_proj, idx_eq. cbn [recompute_third p_index p_files].
    set (fl := fset_of (filter (in_dir A) (akeys dk))).
    set (p0 := {| p_files := fl; p_index := fl; p_fsm := []; p_lru := []; p_tincl := []; p_terrs := [] |}).
    rewrite (first_many_eq A fx false dk p0 fl).
    destruct (first_fold_fields false dk fl p0) as [F1 F2]. rewrite F1, F2. reflexivity.
  Qed.

  (* ---------- all histories (raw events included): the handlers keep it ---------- *)
  Hypothesis Hfix : fix_index fx = true.

  Lemma push_again_pj (s : server A) p : pj (fst (push_again A fx s p)) = p.
  Proof. unfold push_again. destruct (push_all_again _ _ _ _). reflexivity. Qed.

  Lemma did_open_base_idx dk (s : server A) f t : idx_eq (pj s) -> idx_eq (pj (fst (did_open_base A fx dk s f t))).
  Proof.
    intros H. unfold did_open_base.
    set (p0 := set_lru A (pj s) (frem f (p_lru (pj s)))).
    set (s0 := {| pj := p0; cache := aset (cache s) f t; ds := unmark_clean (ds s) f |}).
    assert (H0 : idx_eq p0) by exact H.
    assert (H1 : idx_eq (pj (fst (if fmem f (p_files p0) then (s0, [])
                  else let '(p1, chg) := handle_events A fx dk p0 [(f, KCreated)] in
                       if chg then push_again A fx s0 p1 else ({| pj := p1; cache := cache s0; ds := ds s0 |}, []))))).
    { destruct (fmem f (p_files p0)); [exact H0|].
      pose proof (handle_events_idx dk p0 [(f, KCreated)] Hfix H0) as HE.
      destruct (handle_events A fx dk p0 [(f, KCreated)]) as [p1 chg]. cbn [fst] in HE.
      destruct chg; [rewrite push_again_pj; exact HE|exact HE]. }
    destruct (if fmem f (p_files p0) then (s0, []) else _) as [s1 ps1]. cbn [fst] in H1.
    destruct (clear_change (ds s1) f). exact H1.
  Qed.

  Lemma analyse_buffer_idx (s : server A) f t : idx_eq (pj s) -> idx_eq (pj (fst (analyse_buffer A s f t))).
  Proof.
    intros H. unfold analyse_buffer.
    destruct (is_nil (syn A t)).
    - destruct (clear_change (ds s) f). exact H.
    - destruct (insert_change (ds s) f (syn A t)). exact H.
  Qed.

  Lemma did_change_idx (s : server A) f t : idx_eq (pj s) -> idx_eq (pj (fst (did_change A s f t))).
  Proof.
    intros H. unfold did_change. destruct (aget (cache s) f); [|exact H]. apply analyse_buffer_idx. exact H.
  Qed.

  Lemma did_open_idx dk (s : server A) f t : idx_eq (pj s) -> idx_eq (pj (fst (did_open A fx dk s f t))).
  Proof.
    intros H. unfold did_open. pose proof (did_open_base_idx dk s f t H) as H1.
    destruct (did_open_base A fx dk s f t) as [s2 ps]. cbn [fst] in H1.
    destruct (fix_didopen fx && open_differs A dk f t); [|exact H1].
    pose proof (analyse_buffer_idx s2 f t H1) as H2. destruct (analyse_buffer A s2 f t) as [s3 ps3]. exact H2.
  Qed.

  Lemma did_save_idx dk (s : server A) f t : idx_eq (pj s) -> idx_eq (pj (fst (did_save A fx dk s f t))).
  Proof.
    intros H. unfold did_save. cbn [pj].
    pose proof (handle_events_idx dk (pj s) [(f, KChanged)] Hfix H) as HE.
    destruct (handle_events A fx dk (pj s) [(f, KChanged)]) as [p1 chg]. cbn [fst] in HE.
    set (s0 := {| pj := pj s; cache := aset (cache s) f t; ds := ds s |}).
    assert (H1 : idx_eq (pj (fst (if chg then push_again A fx s0 p1 else ({| pj := p1; cache := cache s0; ds := ds s0 |}, []))))).
    { destruct chg; [rewrite push_again_pj; exact HE|exact HE]. }
    destruct (if chg then push_again A fx s0 p1 else _) as [s1 ps1]. cbn [fst] in H1.
    destruct (save_push_again (ds s1) f). exact H1.
  Qed.

  Lemma did_close_idx dk (s : server A) f : idx_eq (pj s) -> idx_eq (pj (fst (did_close A fx dk s f))).
  Proof.
    intros H. unfold did_close. destruct (clear_change (ds s) f) as [d0 ps1]. destruct (in_dir A f); cbn [fst pj]; [exact H|].
    destruct (fix_outside fx); cbn [fst pj]; [|apply remove_file_idx; [exact Hfix|exact H]].
    set (p0 := set_lru A (pj s) (frem f (p_lru (pj s)))).
    pose proof (handle_events_idx dk p0 [(f, KDeleted)] Hfix H) as HE.
    destruct (handle_events A fx dk p0 [(f, KDeleted)]) as [p1 chg]. cbn [fst] in HE. destruct chg; [|exact HE].
    set (s2 := {| pj := p0; cache := adel (cache s) f; ds := remove_saved (unmark_clean d0 f) f |}).
    pose proof (push_again_pj s2 p1) as HP. destruct (push_again A fx s2 p1) as [s3 ps3]. cbn [fst] in *. rewrite HP. exact HE.
  Qed.

  Lemma did_watched_idx dk (s : server A) evs : idx_eq (pj s) -> idx_eq (pj (fst (did_watched A fx dk s evs))).
  Proof.
    intros H. unfold did_watched.
    destruct (if fix_watched fx then (ds s, []) else _) as [d1 ps1].
    destruct (is_nil evs); [exact H|]. cbn [pj].
    pose proof (handle_events_idx dk (pj s) evs Hfix H) as HE.
    destruct (handle_events A fx dk (pj s) evs) as [p1 chg]. cbn [fst] in HE. destruct chg.
    - set (s1 := {| pj := pj s; cache := cache s; ds := d1 |}).
      pose proof (push_again_pj s1 p1) as HP. destruct (push_again A fx s1 p1) as [s2 ps2]. cbn [fst] in *. rewrite HP. exact HE.
    - exact HE.
  Qed.

  Lemma step_idx (w : world A) e : idx_eq (pj (sv w)) -> idx_eq (pj (sv (fst (step A fx w e)))).
  Proof.
    intros H. destruct e as [f t|f|f t|f t|f t|f|l]; cbn [step].
    - exact H.
    - exact H.
    - pose proof (did_open_idx (disk w) (sv w) f t H) as HH. destruct (did_open A fx (disk w) (sv w) f t). exact HH.
    - pose proof (did_change_idx (sv w) f t H) as HH. destruct (did_change A (sv w) f t). exact HH.
    - pose proof (did_save_idx (disk w) (sv w) f t H) as HH. destruct (did_save A fx (disk w) (sv w) f t). exact HH.
    - pose proof (did_close_idx (disk w) (sv w) f H) as HH. destruct (did_close A fx (disk w) (sv w) f). exact HH.
    - pose proof (did_watched_idx (disk w) (sv w) l H) as HH. destruct (did_watched A fx (disk w) (sv w) l). exact HH.
  Qed.

  Lemma steps_idx es : forall (w : world A) ps0,
    idx_eq (pj (sv w)) ->
    idx_eq (pj (sv (fst (fold_left (fun (wp : world A * list publish) e => let '(w', ps) := step A fx (fst wp) e in (w', snd wp ++ ps))
                                   es (w, ps0))))).
  Proof.
    induction es as [|e es IH]; intros w ps0 H; [exact H|]. cbn [fold_left fst snd].
    pose proof (step_idx w e H) as HH. destruct (step A fx w e) as [w' ps]. apply IH. exact HH.
  Qed.

  Lemma act_idx (w : world A) a : idx_eq (pj (sv w)) -> idx_eq (pj (sv (fst (act A fx w a)))).
  Proof.
    intros H. destruct a as [f|f t|f|f|l|e|f t]; cbn [act].
    - destruct (aget (disk w) f); [|exact H]. destruct (aget (ebuf w) f); [exact H|]. apply steps_idx. exact H.
    - destruct (aget (ebuf w) f); [|exact H]. apply steps_idx. exact H.
    - destruct (aget (ebuf w) f); [|exact H]. apply steps_idx. exact H.
    - destruct (aget (ebuf w) f); [|exact H]. apply steps_idx. exact H.
    - apply steps_idx. exact H.
    - apply step_idx. exact H.
    - destruct (aget (disk w) f); [|exact H]. destruct (aget (ebuf w) f); [exact H|]. apply steps_idx. exact H.
  Qed.

  Lemma run_from_idx h : forall (w : world A) ps0,
    idx_eq (pj (sv w)) -> idx_eq (pj (sv (fst (run_from A fx (w, ps0) h)))).
  Proof.
    induction h as [|a h IH]; intros w ps0 H; [exact H|]. unfold run_from. cbn [fold_left fst snd].
    pose proof (act_idx w a H) as HH. destruct (act A fx w a) as [w' ps]. apply IH. exact HH.
  Qed.

  (* T1 (C08_index_refines): for every initial disk and every history, raw events included *)
  Theorem index_refines (dk : amap txt) (h : list (action A)) :
    p_index (pj (sv (fst (run A fx dk h)))) = p_files (pj (sv (fst (run A fx dk h)))).
  Proof.
    unfold run, init_world, init_server. apply run_from_idx. cbn [sv pj]. apply init_idx.
  Qed.
End Index.
