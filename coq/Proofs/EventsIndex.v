(* C08 - with the repaired FileIndexInfo.RemoveOneFile (flag fix_index) the file index holds exactly the project
   files: p_index = p_files is established by a server start and kept by HandleFileEventChanges (any notification,
   files inside or outside the workspace) and by RemoveFile. *)
From Coq Require Import List NArith Bool.
From LH Require Import Model.Diag Model.Events Spec.FreshStart Proofs.DiagProofs Proofs.EventsSets Proofs.EventsRefine Proofs.EventsBatch.
Import ListNotations.
Local Open Scope N_scope.

Section Index.
  Variable A : analysis.
  Variable fx : fixes.
  Local Notation txt := (text A).

  Definition idx_eq (p : proj A) : Prop := p_index p = p_files p.

  Lemma idx_eq_sub p : idx_eq p -> idx_sub A p.
  Proof. intros H x Hx. rewrite <- H. exact Hx. Qed.

  Lemma first_fold_fields save dk l : forall p : proj A,
    p_files (first_fold A fx save dk p l) = p_files p /\ p_index (first_fold A fx save dk p l) = p_index p.
  Proof.
    induction l as [|f l IH]; intros p; [split; reflexivity|]. cbn [first_fold fold_left].
    fold (first_fold A fx save dk (fst (first_one A fx save dk p f)) l).
    destruct (IH (fst (first_one A fx save dk p f))) as [I1 I2].
    pose proof (first_one_fields A fx save dk p f) as Hf. cbn zeta in Hf. destruct Hf as [F1 [F2 _]].
    split; congruence.
  Qed.

  Lemma classify_idx tincl0 evs : forall (p : proj A) (h : hflags),
    fix_index fx = true -> idx_eq p -> idx_eq (fst (fold_left (classify_one A fx tincl0) evs (p, h))).
  Proof.
    induction evs as [|[f k] r IH]; intros p h Hfix Hp; [exact Hp|]. cbn [fold_left].
    destruct (classify_one A fx tincl0 (p, h) (f, k)) as [p' h'] eqn:Ec. apply IH; [exact Hfix|].
    unfold classify_one in Ec. cbn [fst snd] in Ec. unfold idx_eq in *.
    destruct k.
    - destruct (in_dir A f); injection Ec as <- _; cbn [p_index p_files]; rewrite Hp; reflexivity.
    - injection Ec as <- _. exact Hp.
    - destruct (in_dir A f); injection Ec as <- _; unfold remove_file; cbn [p_index p_files]; rewrite Hfix, Hp; reflexivity.
  Qed.

  Lemma handle_events_idx dk (p : proj A) evs :
    fix_index fx = true -> idx_eq p -> idx_eq (fst (handle_events A fx dk p evs)).
  Proof.
    intros Hfix Hp. rewrite handle_events_eq. cbn zeta.
    pose proof (classify_idx (p_tincl p) evs p (h0) Hfix Hp) as H1.
    set (ph := fold_left (classify_one A fx (p_tincl p)) evs (p, h0)) in *.
    pose proof (first_fold_fields true dk (h_again (snd ph)) (fst ph)) as [F1 F2].
    rewrite <- (first_many_eq A fx true dk (fst ph) (h_again (snd ph))) in F1, F2.
    set (pc := first_many A fx true dk (fst ph) (h_again (snd ph))) in *.
    unfold idx_eq in *.
    destruct (negb (snd pc) && negb (h_all (snd ph))); cbn [fst].
    - destruct (is_nil (h_refer (snd ph))); cbn [reanalyse_all set_fsm set_lru p_index p_files]; congruence.
    - destruct (h_third (snd ph)); destruct (is_nil (h_refer (snd ph)));
        cbn [recompute_third reanalyse_all set_fsm set_lru p_index p_files]; congruence.
  Qed.

  Lemma remove_file_idx (p : proj A) f : fix_index fx = true -> idx_eq p -> idx_eq (remove_file A fx p f).
  Proof. intros Hfix Hp. unfold idx_eq, remove_file in *. cbn [p_index p_files]. rewrite Hfix, Hp. reflexivity. Qed.

  Lemma set_lru_idx (p : proj A) l : idx_eq p -> idx_eq (set_lru A p l).
  Proof. intros H. exact H. Qed.

  Lemma init_idx dk : idx_eq (init_proj A fx dk).
  Proof.
    unfold init_proj, idx_eq. cbn [recompute_third p_index p_files].
    set (fl := fset_of (filter (in_dir A) (akeys dk))).
    set (p0 := {| p_files := fl; p_index := fl; p_fsm := []; p_lru := []; p_tincl := []; p_terrs := [] |}).
    rewrite (first_many_eq A fx false dk p0 fl).
    destruct (first_fold_fields false dk fl p0) as [F1 F2]. rewrite F1, F2. reflexivity.
  Qed.
End Index.
