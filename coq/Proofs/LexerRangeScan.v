(* C04, part (b2): what the scanners of Model/Lexer.v consume, at the level of bytes.
   A token scanned without lexical error from a chunk without backslash and without long-bracket opener is either
   (A) a run of n >= 1 plain bytes (ASCII, no line end) recorded verbatim with from = pos, to = pos + n, or
   (B) a short string  d ... d  without line end inside, after which pos = pos + runes(content) + 2.
   Short comments consume "--" and the bytes up to the next line end. *)
From Coq Require Import List NArith ZArith Bool Lia ZifyN ZifyNat ZifyBool.
From LH Require Import Base.Bytes Base.Res Base.Utf8 Model.Codec Model.Lexer Proofs.LexerRangeUtf8.
Import ListNotations.
Local Open Scope N_scope.

(* injection on tuples without reduction side effects *)
Ltac psplit H := cbv beta iota in H; repeat (let H2 := fresh "Hp" in apply pair_equal_spec in H; destruct H as [H H2]).

(* ------------------------------------------------------------------ PlainTo helpers *)
Lemma PlainTo_cons b l n : plain b = true -> PlainTo l n -> PlainTo (b :: l) (S n).
Proof.
  intros Hb Hp k Hk. destruct k as [|k]; [exists b; split; [reflexivity|exact Hb]|].
  cbn [nth_error]. apply Hp. lia.
Qed.

Lemma PlainTo_1 b l : plain b = true -> PlainTo (b :: l) 1.
Proof. intros Hb. apply PlainTo_cons; [exact Hb|apply PlainTo_0]. Qed.

Lemma PlainTo_test : forall w ch, test w ch = true -> forallb plain w = true -> PlainTo ch (length w).
Proof.
  induction w as [|x w IH]; intros ch Ht Hp; [apply PlainTo_0|].
  cbn [test] in Ht. destruct ch as [|y ch]; [discriminate|]. apply andb_true_iff in Ht as [Hxy Ht].
  cbn [forallb] in Hp. apply andb_true_iff in Hp as [Hx Hp]. cbn [length]. apply PlainTo_cons.
  - replace y with x by lia. exact Hx.
  - apply IH; assumption.
Qed.

Lemma PlainTo_head b l n : PlainTo (b :: l) n -> (1 <= n)%nat -> plain b = true.
Proof. intros Hp Hn. destruct (Hp 0%nat ltac:(lia)) as (x & Hx & Hpl). cbn [nth_error] in Hx. congruence. Qed.

Definition no92 (ch : list N) : Prop := forall k, nth_error ch k <> Some 92.

  (* ---------------------------------------------------------------- numbers *)
  Lemma has_char_plain c set : has_char c set = true -> forallb plain set = true -> plain c = true.
  Proof.
    unfold has_char. intros H Hp. apply existsb_exists in H as (x & Hin & Hx).
    rewrite forallb_forall in Hp. apply Hp in Hin. replace c with x by lia. exact Hin.
  Qed.

  Lemma scan_number_loop_plain : forall fuel ch i expo, forallb plain expo = true -> PlainTo ch i ->
    PlainTo ch (scan_number_loop fuel ch i expo) /\ (i <= scan_number_loop fuel ch i expo)%nat.
  Proof.
    induction fuel as [|f IH]; intros ch i expo He Hp; cbn [scan_number_loop]; [split; [exact Hp|lia]|].
    unfold nth_byte. destruct (nth_error ch i) as [c2|] eqn:E2; [|split; [exact Hp|lia]].
    set (i1 := if has_char c2 expo then _ else i).
    assert (Hi1 : PlainTo ch i1 /\ (i <= i1)%nat).
    { subst i1. destruct (has_char c2 expo) eqn:Eh; [|split; [exact Hp|lia]].
      pose proof (PlainTo_S _ _ _ Hp E2 (has_char_plain _ _ Eh He)) as Hp1.
      destruct (nth_error ch (S i)) as [c3|] eqn:E3; [|split; [exact Hp1|lia]].
      destruct (has_char c3 [45; 43]) eqn:Eh3; [|split; [exact Hp1|lia]].
      split; [|lia]. apply (PlainTo_S _ _ _ Hp1 E3). apply (has_char_plain _ _ Eh3). reflexivity. }
    destruct Hi1 as [Hp1 Hle]. clearbody i1.
    destruct (nth_error ch i1) as [c4|] eqn:E4; [|split; [exact Hp1|lia]].
    destruct (is_digit c4 || in_rng 97 102 c4 || in_rng 65 70 c4 || has_char c4 [117; 85; 108; 76] || (c4 =? 46)) eqn:Ea;
      [|split; [exact Hp1|lia]].
    assert (Hc4 : plain c4 = true).
    { unfold is_digit, in_rng, has_char in Ea. cbn [existsb] in Ea. unfold plain, is_newline. lia. }
    destruct (IH ch (S i1) expo He (PlainTo_S _ _ _ Hp1 E4 Hc4)) as [Hq Hle2]. split; [exact Hq|lia].
  Qed.

  Lemma scan_number_ok s c rest str s1 es :
    chunk s = c :: rest ->
    (is_digit c = true \/ (c = 46 /\ exists c1 r, rest = c1 :: r /\ is_digit c1 = true)) ->
    scan_number s = (str, s1, es) ->
    exists j, (1 <= j)%nat /\ PlainTo (chunk s) j /\ str = firstn j (chunk s) /\ s1 = adv s j.
  Proof.
    intros Hch Hc H. unfold scan_number in H. cbv zeta in H. rewrite Hch in H. cbv beta iota in H.
    assert (Hgen : forall beginCh i, PlainTo (c :: rest) i ->
              let j := match nth_byte (c :: rest) i with
                       | None => i
                       | Some nx =>
                         let '(expo, i1) := if (beginCh =? 48) && has_char nx [120; 88]
                                            then ([80; 112], S i) else ([69; 101], i) in
                         scan_number_loop (S (length (c :: rest))) (c :: rest) i1 expo
                       end in
              PlainTo (c :: rest) j /\ (i <= j)%nat).
    { intros beginCh i Hp. unfold nth_byte. destruct (nth_error (c :: rest) i) as [nx|] eqn:En; [|split; [exact Hp|lia]].
      destruct ((beginCh =? 48) && has_char nx [120; 88]) eqn:Ex.
      - apply andb_true_iff in Ex as [_ Ex].
        assert (Hp1 : PlainTo (c :: rest) (S i)).
        { apply (PlainTo_S _ _ _ Hp En). apply (has_char_plain _ _ Ex). reflexivity. }
        destruct (scan_number_loop_plain (S (length (c :: rest))) (c :: rest) (S i) [80; 112] eq_refl Hp1) as [Hq Hle].
        split; [exact Hq|lia].
      - apply (scan_number_loop_plain _ _ _ [69; 101] eq_refl Hp). }
    destruct (c =? 46) eqn:E46.
    - destruct Hc as [Hd|(_ & c1 & r & -> & Hd)]; [unfold is_digit in Hd; lia|].
      cbn [nth_byte nth_error] in H. cbv beta iota in H.
      assert (Hp2 : PlainTo (c :: c1 :: r) 2).
      { apply PlainTo_cons; [unfold plain, is_newline; lia|]. apply PlainTo_1. unfold is_digit in Hd. unfold plain, is_newline. lia. }
      destruct (Hgen c1 2%nat Hp2) as [Hq Hle]. cbv zeta in Hq, Hle.
      psplit H. rewrite Hch. eexists. split; [|split; [exact Hq|split; [symmetry; exact H|symmetry; exact Hp0]]]. lia.
    - destruct Hc as [Hd|(Hc46 & _)]; [|lia].
      assert (Hp1 : PlainTo (c :: rest) 1).
      { apply PlainTo_1. unfold is_digit in Hd. unfold plain, is_newline. lia. }
      destruct (Hgen c 1%nat Hp1) as [Hq Hle]. cbv zeta in Hq, Hle.
      psplit H. rewrite Hch. eexists. split; [|split; [exact Hq|split; [symmetry; exact H|symmetry; exact Hp0]]]. lia.
  Qed.

  (* ---------------------------------------------------------------- identifiers *)
  Lemma ident_len_plain : forall l, PlainTo l (ident_len l).
  Proof.
    induction l as [|x l IH]; cbn [ident_len]; [apply PlainTo_0|].
    destruct (is_ident_char x) eqn:E; [|apply PlainTo_0]. apply PlainTo_cons; [|exact IH].
    unfold is_ident_char, is_letter, is_digit in E. unfold plain, is_newline. lia.
  Qed.

  (* ---------------------------------------------------------------- short comments *)
  Lemma until_newline_spec : forall l,
    forallb (fun b => negb (is_newline b)) (firstn (until_newline l) l) = true /\
    (skipn (until_newline l) l = [] \/
     exists b t, skipn (until_newline l) l = b :: t /\ is_newline b = true).
  Proof.
    induction l as [|x l [IH1 IH2]]; cbn [until_newline]; [split; [reflexivity|left; reflexivity]|].
    destruct (is_newline x) eqn:E.
    - split; [reflexivity|]. right. exists x, l. split; [reflexivity|exact E].
    - cbn [firstn skipn forallb]. rewrite E, IH1. split; [reflexivity|exact IH2].
  Qed.

  Lemma match_not91 {A} (x : N) (r : list N) (a : list N -> A) (b : A) : x <> 91 ->
    match x :: r with 91 :: t => a t | _ => b end = b.
  Proof.
    intros Hx. destruct x as [|p]; [reflexivity|].
    do 7 (try (destruct p as [p|p|]; try reflexivity)). congruence.
  Qed.

  Lemma mlb_ne c t : c <> 91 -> match_long_bracket (91 :: c :: t) = match_lb_loop (c :: t) 1 0 (91 :: c :: t).
  Proof.
    intros Hc. unfold match_long_bracket. destruct c as [|p]; [reflexivity|].
    do 7 (try (destruct p as [p|p|]; try reflexivity)). congruence.
  Qed.

  (* "--" followed by something that is not a long-bracket opener: a short comment up to the line end *)
  Lemma skip_comment_short s r :
    chunk s = 45 :: 45 :: r -> test [91; 91] r || test [91; 61] r = false ->
    skip_comment s = (true, firstn (until_newline r) r, adv (adv s 2) (until_newline r), []).
  Proof.
    intros Hch Hlb. unfold skip_comment. cbv zeta.
    assert (Hc1 : chunk (adv s 2) = r) by (unfold adv; cbn [chunk]; rewrite Hch; reflexivity).
    rewrite Hc1.
    assert (Hlong : match r with
                    | 91 :: _ => match fst (match_long_bracket r) with [] => false | _ => true end
                    | _ => false
                    end = false).
    { destruct r as [|x r']; [reflexivity|].
      destruct (N.eq_dec x 91) as [->|Hx].
      - destruct r' as [|y r'']; [reflexivity|].
        cbn [test] in Hlb. change (91 =? 91) with true in Hlb. cbn [andb] in Hlb. rewrite !andb_true_r in Hlb.
        assert (Hy : y <> 91) by lia. rewrite (mlb_ne y r'' Hy). cbn [match_lb_loop].
        replace (y =? 61) with false by lia. replace (y =? 91) with false by lia. reflexivity.
      - apply (match_not91 x r' (fun _ => match fst (match_long_bracket (x :: r')) with [] => false | _ => true end) false Hx). }
    rewrite Hlong. reflexivity.
  Qed.
(* ------------------------------------------------------------------ the two shapes of an error-free token *)
Section Scan.
  Context {fx : FxEscape}.
  Variable gbk : list N -> Z.

  Definition TokA (s : lst) (t : tok) (s' : lst) : Prop :=
    exists n, (1 <= n)%nat /\ PlainTo (chunk s) n /\ s' = adv s n /\
      tstr t = firstn n (chunk s) /\ tline t = line s /\ tlsp t = lsp s /\
      tfrom t = Lexer.pos s /\ tto t = (Lexer.pos s + Z.of_nat n)%Z.

  Definition TokB (s : lst) (t : tok) (s' : lst) : Prop :=
    tk t = TkString /\
    exists d j, (1 <= j)%nat /\ nth_error (chunk s) 0 = Some d /\ plain d = true /\ nth_error (chunk s) j = Some d /\
      (forall k b, (1 <= k < j)%nat -> nth_error (chunk s) k = Some b -> is_newline b = false) /\
      s' = mkLst (skipn (S j) (chunk s)) (line s) (lsp s)
                 (Lexer.pos s + conv_rune_count gbk (firstn (j - 1) (skipn 1 (chunk s))) + 2)%Z.

  Lemma mk_A k n s : (1 <= n)%nat -> PlainTo (chunk s) n ->
    TokA s (mk k (firstn n (chunk s)) (Lexer.pos s) (adv s n)) (adv s n).
  Proof. intros Hn Hp. exists n. unfold mk, adv. cbn [tstr tline tlsp tfrom tto line lsp Lexer.pos]. repeat split; assumption. Qed.

  Lemma simple_A k n s t s' es : (1 <= n)%nat -> PlainTo (chunk s) n ->
    simple k n s (Lexer.pos s) = (t, s', es) -> TokA s t s'.
  Proof. intros Hn Hp H. unfold simple in H. psplit H. subst t s'. apply mk_A; assumption. Qed.

  (* ---------------------------------------------------------------- short strings without escapes *)
  Lemma scan_short_f_ok : forall fuel d ch i ln ls p0 str s' ov,
    no92 ch -> (1 <= i)%nat ->
    scan_short_f gbk fuel d ch i 1 [] ln ls p0 [] = (str, s', [], ov) ->
    exists j, (i <= j)%nat /\ nth_error ch j = Some d /\
      (forall k b, (i <= k < j)%nat -> nth_error ch k = Some b -> is_newline b = false) /\
      s' = mkLst (skipn (S j) ch) ln ls (p0 + conv_rune_count gbk (firstn (j - 1) (skipn 1 ch)) + 2)%Z.
  Proof.
    induction fuel as [|f IH]; intros d ch i ln ls p0 str s' ov H92 Hi H.
    - cbn [scan_short_f] in H. cbv zeta in H. psplit H. discriminate Hp0.
    - cbn [scan_short_f] in H. cbv zeta in H.
      destruct (i <? length ch)%nat eqn:Elt; [|psplit H; discriminate Hp0].
      unfold nth_byte in H. destruct (nth_error ch i) as [c|] eqn:En; [|psplit H; discriminate Hp0].
      destruct (c =? d) eqn:Ed.
      + psplit H. exists i. split; [lia|]. split; [rewrite En; f_equal; lia|]. split; [intros k b Hk; lia|].
        subst s' str. cbn [app]. replace (S i - 1 - 1)%nat with (i - 1)%nat by lia. reflexivity.
      + destruct ((length ch <=? S i)%nat || is_newline c) eqn:Eo; [psplit H; discriminate Hp0|].
        destruct (negb (c =? 92)) eqn:E92.
        * apply IH in H; [|exact H92|lia]. destruct H as (j & Hj & Hn & Hnl & Hs').
          exists j. split; [lia|]. split; [exact Hn|]. split; [|exact Hs'].
          intros k b Hk Hkb. destruct (Nat.eq_dec k i) as [->|Hne]; [|apply (Hnl k b); [lia|exact Hkb]].
          rewrite En in Hkb. injection Hkb as <-. apply orb_false_iff in Eo as [_ Eo]. exact Eo.
        * exfalso. apply (H92 i). rewrite En. f_equal. lia.
  Qed.

  (* ---------------------------------------------------------------- scan_token *)
  Ltac one E Hch H :=
    left; refine (simple_A _ _ _ _ _ _ _ _ H); [lia|];
    rewrite Hch; apply PlainTo_1; apply N.eqb_eq in E; rewrite E; reflexivity.
  Ltac multi E2 Hch H :=
    left; refine (simple_A _ _ _ _ _ _ _ _ H); [lia|];
    rewrite Hch; refine (PlainTo_test _ _ E2 _); reflexivity.

  Lemma scan_token_cases s c rest t s' :
    chunk s = c :: rest -> no92 (chunk s) ->
    test [91; 91] (chunk s) || test [91; 61] (chunk s) = false ->
    scan_token gbk s = (t, s', []) -> TokA s t s' \/ TokB s t s'.
  Proof.
    intros Hch H92 Hlb H. unfold scan_token in H. cbv zeta in H. rewrite Hch in H, Hlb. cbv beta iota in H.
    destruct (c =? 59) eqn:E1; [one E1 Hch H|].
    destruct (c =? 44) eqn:E2; [one E2 Hch H|].
    destruct (c =? 40) eqn:E3; [one E3 Hch H|].
    destruct (c =? 41) eqn:E4; [one E4 Hch H|].
    destruct (c =? 93) eqn:E5; [one E5 Hch H|].
    destruct (c =? 123) eqn:E6; [one E6 Hch H|].
    destruct (c =? 125) eqn:E7; [one E7 Hch H|].
    destruct (c =? 43) eqn:E8; [one E8 Hch H|].
    destruct (c =? 45) eqn:E9; [one E9 Hch H|].
    destruct (c =? 42) eqn:E10; [one E10 Hch H|].
    destruct (c =? 94) eqn:E11; [one E11 Hch H|].
    destruct (c =? 37) eqn:E12; [one E12 Hch H|].
    destruct (c =? 38) eqn:E13; [one E13 Hch H|].
    destruct (c =? 124) eqn:E14; [one E14 Hch H|].
    destruct (c =? 35) eqn:E15; [one E15 Hch H|].
    destruct (c =? 58) eqn:E16.
    { destruct (test [58; 58] (c :: rest)) eqn:T; [multi T Hch H|one E16 Hch H]. }
    destruct (c =? 47) eqn:E17.
    { destruct (test [47; 47] (c :: rest)) eqn:T; [multi T Hch H|one E17 Hch H]. }
    destruct (c =? 126) eqn:E18.
    { destruct (test [126; 61] (c :: rest)) eqn:T; [multi T Hch H|one E18 Hch H]. }
    destruct (c =? 61) eqn:E19.
    { destruct (test [61; 61] (c :: rest)) eqn:T; [multi T Hch H|one E19 Hch H]. }
    destruct (c =? 60) eqn:E20.
    { destruct (test [60; 60] (c :: rest)) eqn:T; [multi T Hch H|].
      destruct (test [60; 61] (c :: rest)) eqn:T2; [multi T2 Hch H|one E20 Hch H]. }
    destruct (c =? 62) eqn:E21.
    { destruct (test [62; 62] (c :: rest)) eqn:T; [multi T Hch H|].
      destruct (test [62; 61] (c :: rest)) eqn:T2; [multi T2 Hch H|one E21 Hch H]. }
    destruct (c =? 46) eqn:E22.
    { destruct (test [46; 46; 46] (c :: rest)) eqn:T; [multi T Hch H|].
      destruct (test [46; 46] (c :: rest)) eqn:T2; [multi T2 Hch H|].
      destruct rest as [|c1 r]; [one E22 Hch H|].
      destruct (negb (is_digit c1)) eqn:Ed; [one E22 Hch H|].
      cbn [orb] in H. destruct (scan_number s) as [[str s1] es] eqn:En. psplit H. subst t s' es.
      destruct (scan_number_ok s c (c1 :: r) str s1 [] Hch) as (j & Hj & Hp & -> & ->); [|exact En|].
      - right. split; [lia|]. exists c1, r. split; [reflexivity|]. destruct (is_digit c1); [reflexivity|discriminate].
      - left. apply mk_A; assumption. }
    destruct (c =? 91) eqn:E23.
    { rewrite Hlb in H. one E23 Hch H. }
    destruct ((c =? 39) || (c =? 34)) eqn:E24.
    { destruct (scan_short_string gbk s) as [[[str s1] es] ov] eqn:Es. psplit H. subst t s' es.
      unfold scan_short_string in Es. rewrite Hch in Es.
      apply scan_short_f_ok in Es; [|rewrite <- Hch; exact H92|lia].
      destruct Es as (j & Hj & Hn & Hnl & Hs1).
      right. split; [reflexivity|]. exists c, j. rewrite Hch.
      split; [exact Hj|]. split; [reflexivity|]. split; [unfold plain, is_newline; lia|]. split; [exact Hn|].
      split; [exact Hnl|]. exact Hs1. }
    cbn [orb] in H. destruct (is_digit c) eqn:E25.
    { destruct (scan_number s) as [[str s1] es] eqn:En. psplit H. subst t s' es.
      destruct (scan_number_ok s c rest str s1 [] Hch) as (j & Hj & Hp & -> & ->); [left; exact E25|exact En|].
      left. apply mk_A; assumption. }
    destruct ((c =? 95) || is_letter c) eqn:E26.
    { unfold scan_identifier in H. rewrite Hch in H. cbn [tl] in H. psplit H. subst t s'.
      left. rewrite <- Hch. apply mk_A; [lia|]. rewrite Hch. apply PlainTo_cons; [|apply ident_len_plain].
      unfold is_letter in E26. unfold plain, is_newline. lia. }
    destruct (scan_illegal gbk s) as [[lf str] s1]. psplit H. discriminate Hp.
  Qed.

End Scan.
