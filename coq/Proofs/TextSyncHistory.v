(* C02, part 2: splice, change batches, the notification state machine; induction over histories. *)
From Coq Require Import List NArith Bool Lia ZifyN ZifyNat ZifyBool.
From LH Require Import Base.Bytes Base.Res Base.Utf8 Model.TextSync Spec.LspText Proofs.TextSyncScan.
Import ListNotations.
Local Open Scope N_scope.

(* ---------- list facts ---------- *)
Lemma utf8_of_app a b : utf8_of (a ++ b) = utf8_of a ++ utf8_of b.
Proof. unfold utf8_of. apply flat_map_app. Qed.

Lemma utf8_of_split d k : utf8_of d = utf8_of (firstn k d) ++ utf8_of (skipn k d).
Proof. rewrite <- utf8_of_app, firstn_skipn. reflexivity. Qed.

Lemma firstn_exact {A} (x y : list A) : firstn (length x) (x ++ y) = x.
Proof. induction x as [|a x IH]; cbn [length firstn app]; [destruct y; reflexivity|]. rewrite IH. reflexivity. Qed.

Lemma skipn_exact {A} (x y : list A) : skipn (length x) (x ++ y) = y.
Proof. induction x as [|a x IH]; cbn [length skipn app]; [reflexivity|exact IH]. Qed.

Lemma forallb_firstn {A} (f : A -> bool) k l : forallb f l = true -> forallb f (firstn k l) = true.
Proof.
  revert l; induction k as [|k IH]; intros [|a l]; cbn [firstn forallb]; try reflexivity.
  intros H. apply andb_true_iff in H as [H1 H2]. rewrite H1, (IH _ H2). reflexivity.
Qed.

Lemma forallb_skipn {A} (f : A -> bool) k l : forallb f l = true -> forallb f (skipn k l) = true.
Proof.
  revert l; induction k as [|k IH]; intros [|a l]; cbn [skipn forallb]; try reflexivity; try (intros H; exact H).
  intros H. apply andb_true_iff in H as [_ H2]. apply IH, H2.
Qed.

Lemma blen_firstn_le d k : blen (firstn k d) <= blen d.
Proof. unfold blen. rewrite (utf8_of_split d k) at 1. rewrite app_length. lia. Qed.

Lemma blen_firstn_mono d i j : (i <= j)%nat -> blen (firstn i d) <= blen (firstn j d).
Proof.
  intros H. replace (firstn i d) with (firstn i (firstn j d)); [apply blen_firstn_le|].
  rewrite firstn_firstn. f_equal. lia.
Qed.

Lemma splice_bytes d i j :
  firstn (N.to_nat (blen (firstn i d))) (utf8_of d) = utf8_of (firstn i d) /\
  skipn (N.to_nat (blen (firstn j d))) (utf8_of d) = utf8_of (skipn j d).
Proof.
  unfold blen. rewrite !Nat2N.id. split.
  - rewrite (utf8_of_split d i) at 1. apply firstn_exact.
  - rewrite (utf8_of_split d j) at 1. apply skipn_exact.
Qed.

(* ---------- one change ---------- *)
Lemma apply_change_agrees fx d ch d' rest :
  forallb scalar d = true ->
  match c_range ch with None => c_rlen ch = 0 | Some _ => text_ok fx d = true end ->
  spec_apply d ch = Some d' ->
  apply_changes fx (utf8_of d) (enc_change ch :: rest) = apply_changes fx (utf8_of d') rest.
Proof.
  intros Hs Hg Hsp. unfold spec_apply in Hsp. cbn [apply_changes enc_change c_range c_rlen c_text].
  destruct (c_range ch) as [r|].
  - destruct (range_index d r) as [[i j]|] eqn:Hr; [|discriminate]. injection Hsp as <-.
    rewrite (offset_agrees fx d r i j Hs Hg Hr).
    apply range_index_inv in Hr as (_ & _ & Hij).
    pose proof (blen_firstn_le d (N.to_nat j)) as H1.
    pose proof (blen_firstn_mono d (N.to_nat i) (N.to_nat j) ltac:(lia)) as H2.
    replace ((N.of_nat (length (utf8_of d)) <? blen (firstn (N.to_nat j) d)) ||
             (blen (firstn (N.to_nat j) d) <? blen (firstn (N.to_nat i) d))) with false
      by (unfold blen in *; lia).
    destruct (splice_bytes d (N.to_nat i) (N.to_nat j)) as [-> ->].
    rewrite !utf8_of_app. reflexivity.
  - injection Hsp as <-. rewrite Hg. rewrite Bool.orb_true_r. reflexivity.
Qed.

Lemma spec_apply_scalar d ch d' :
  forallb scalar d = true -> forallb scalar (c_text ch) = true -> spec_apply d ch = Some d' -> forallb scalar d' = true.
Proof.
  intros Hd Ht. unfold spec_apply. destruct (c_range ch) as [r|].
  - destruct (range_index d r) as [[i j]|]; [|discriminate]. intros H; injection H as <-.
    rewrite !forallb_app, forallb_firstn, forallb_skipn, Ht by exact Hd. reflexivity.
  - intros H; injection H as <-. exact Ht.
Qed.

(* ---------- a batch of changes ---------- *)
Lemma apply_changes_agree fx chs : forall d,
  forallb scalar d = true -> changes_ok d chs = true -> changes_class_ok (text_ok fx) d chs = true ->
  exists d', spec_apply_all d chs = Some d' /\ forallb scalar d' = true /\
             apply_changes fx (utf8_of d) (map enc_change chs) = Ok (inl (utf8_of d')).
Proof.
  induction chs as [|ch t IH]; intros d Hs Hok Hcl.
  - exists d. split; [reflexivity|]. split; [exact Hs|reflexivity].
  - cbn [changes_ok] in Hok. cbn [changes_class_ok] in Hcl. cbn [spec_apply_all map].
    apply andb_true_iff in Hok as [Hok Hnext]. apply andb_true_iff in Hok as [Htxt Hrl].
    apply andb_true_iff in Hcl as [Hg Hcl].
    destruct (spec_apply d ch) as [d1|] eqn:Hsp; [|discriminate].
    pose proof (spec_apply_scalar d ch d1 Hs Htxt Hsp) as Hs1.
    destruct (IH d1 Hs1 Hnext Hcl) as (d' & H1 & H2 & H3).
    exists d'. split; [exact H1|]. split; [exact H2|].
    rewrite (apply_change_agrees fx d ch d1 (map enc_change t) Hs); [exact H3| |exact Hsp].
    destruct (c_range ch); [exact Hg|lia].
Qed.

(* ---------- the state machine ---------- *)
Definition Inv (s cs : cache) : Prop :=
  (forall d, s d = option_map utf8_of (cs d)) /\ (forall d t, cs d = Some t -> forallb scalar t = true).

Lemma Inv_empty : Inv empty_cache empty_cache.
Proof. split; [reflexivity|]. intros d t H; discriminate. Qed.

Lemma Inv_upd s cs k v : Inv s cs -> (forall t, v = Some t -> forallb scalar t = true) ->
  Inv (upd s k (option_map utf8_of v)) (upd cs k v).
Proof.
  intros [H1 H2] Hv. split.
  - intros d. unfold upd. destruct (d =? k); [reflexivity|apply H1].
  - intros d t. unfold upd. destruct (d =? k); [apply Hv|apply H2].
Qed.

Lemma beq_bytes_true a b : beq_bytes a b = true -> a = b.
Proof. apply beq_bytes_eq. Qed.

Lemma step_agrees fx s cs n :
  Inv s cs -> note_ok cs n = true -> note_class_ok (text_ok fx) cs n = true ->
  exists s', sync_step fx s (enc_note n) = Ok s' /\ Inv s' (spec_step cs n) /\ rejected fx s (enc_note n) = false.
Proof.
  intros HI Hok Hcl. pose proof HI as [Hs Hsc].
  destruct n as [d t|d chs|d [t|]|d]; cbn [note_ok note_class_ok enc_note sync_step spec_step rejected option_map] in *.
  - apply andb_true_iff in Hok as [Hok _]. apply andb_true_iff in Hok as [Hlua Ht]. rewrite Hlua.
    eexists; repeat split.
    + apply (Inv_upd s cs d (Some t) HI). intros t' E; injection E as <-; exact Ht.
    + apply (Inv_upd s cs d (Some t) HI). intros t' E; injection E as <-; exact Ht.
  - rewrite (Hs d). destruct (cs d) as [cur|] eqn:Ecs; [|discriminate]. cbn [option_map].
    destruct (apply_changes_agree fx chs cur (Hsc d cur Ecs) Hok Hcl) as (d' & H1 & H2 & H3).
    rewrite H3, H1. eexists; repeat split.
    + apply (Inv_upd s cs d (Some d') HI). intros t' E; injection E as <-; exact H2.
    + apply (Inv_upd s cs d (Some d') HI). intros t' E; injection E as <-; exact H2.
  - destruct (cs d) as [cur|] eqn:Ecs; [|discriminate]. apply beq_bytes_true in Hok. subst t.
    eexists; repeat split.
    + intros d0. unfold upd. destruct (d0 =? d) eqn:E; [|apply Hs].
      replace d0 with d by lia. rewrite Ecs. reflexivity.
    + exact Hsc.
  - discriminate.
  - eexists; repeat split.
    + apply (Inv_upd s cs d None HI). intros t' E; discriminate.
    + apply (Inv_upd s cs d None HI). intros t' E; discriminate.
Qed.

Lemma history_agrees fx ns : forall s cs,
  Inv s cs -> conformant_from cs ns = true -> class_ok_from (text_ok fx) cs ns = true ->
  exists s', run fx s (map enc_note ns) = Ok s' /\ Inv s' (fold_left spec_step ns cs) /\
             any_rejected fx s (map enc_note ns) = false.
Proof.
  induction ns as [|n t IH]; intros s cs HI Hok Hcl.
  - exists s. repeat split; apply HI.
  - cbn [conformant_from class_ok_from] in Hok, Hcl.
    apply andb_true_iff in Hok as [Hok Hok']. apply andb_true_iff in Hcl as [Hcl Hcl'].
    destruct (step_agrees fx s cs n HI Hok Hcl) as (s1 & Hstep & HI1 & Hrej).
    destruct (IH s1 (spec_step cs n) HI1 Hok' Hcl') as (s' & Hrun & HI' & Hrej').
    exists s'. cbn [map run any_rejected fold_left]. rewrite Hstep, Hrej, Hrun, Hrej'. repeat split; apply HI'.
Qed.

Theorem sync_history : forall fx ns,
  conformant ns = true -> class_ok fx ns = true ->
  exists s, run fx empty_cache (map enc_note ns) = Ok s /\ forall d, s d = enc_cache (client ns) d.
Proof.
  intros fx ns Hok Hcl.
  destruct (history_agrees fx ns empty_cache empty_cache Inv_empty Hok Hcl) as (s & Hrun & [HI _] & _).
  exists s. split; [exact Hrun|exact HI].
Qed.

Theorem never_rejected : forall fx ns,
  conformant ns = true -> class_ok fx ns = true -> stale fx ns = false.
Proof.
  intros fx ns Hok Hcl.
  destruct (history_agrees fx ns empty_cache empty_cache Inv_empty Hok Hcl) as (s & _ & _ & Hrej). exact Hrej.
Qed.

(* with the repair the class guard is vacuous *)
Lemma changes_class_ok_true (P : list N -> bool) : (forall d, P d = true) ->
  forall chs d, changes_class_ok P d chs = true.
Proof.
  intros HP. induction chs as [|ch t IH]; intros d; cbn [changes_class_ok]; [reflexivity|].
  destruct (c_range ch); rewrite ?HP; cbn [andb]; destruct (spec_apply d ch); auto.
Qed.

Lemma class_ok_from_true (P : list N -> bool) : (forall d, P d = true) ->
  forall ns cs, class_ok_from P cs ns = true.
Proof.
  intros HP. induction ns as [|n t IH]; intros cs; cbn [class_ok_from]; [reflexivity|].
  rewrite IH, andb_true_r. destruct n as [d x|d chs|d x|d]; cbn [note_class_ok]; try reflexivity.
  destruct (cs d); [apply changes_class_ok_true, HP|reflexivity].
Qed.

Lemma class_ok_fixed ns : class_ok true ns = true.
Proof. apply class_ok_from_true. intros d. reflexivity. Qed.

(* the driver's class predicates cover the negated guard of the deployed code *)
Lemma changes_class_ok_and (P Q : list N -> bool) chs : forall d,
  changes_class_ok P d chs = true -> changes_class_ok Q d chs = true ->
  changes_class_ok (fun x => P x && Q x) d chs = true.
Proof.
  induction chs as [|ch t IH]; intros d HP HQ; cbn [changes_class_ok] in *; [reflexivity|].
  apply andb_true_iff in HP as [HP1 HP2]. apply andb_true_iff in HQ as [HQ1 HQ2].
  apply andb_true_iff. split.
  - destruct (c_range ch); [rewrite HP1, HQ1|]; reflexivity.
  - destruct (spec_apply d ch); [apply IH; assumption|reflexivity].
Qed.

Lemma class_ok_from_and (P Q : list N -> bool) ns : forall cs,
  class_ok_from P cs ns = true -> class_ok_from Q cs ns = true ->
  class_ok_from (fun x => P x && Q x) cs ns = true.
Proof.
  induction ns as [|n t IH]; intros cs HP HQ; cbn [class_ok_from] in *; [reflexivity|].
  apply andb_true_iff in HP as [HP1 HP2]. apply andb_true_iff in HQ as [HQ1 HQ2].
  rewrite (IH _ HP2 HQ2), andb_true_r.
  destruct n as [d x|d chs|d x|d]; cbn [note_class_ok] in *; try reflexivity.
  destruct (cs d); [apply changes_class_ok_and; assumption|reflexivity].
Qed.

Lemma classes_cover ns : astral ns = false -> lone_cr ns = false -> class_ok false ns = true.
Proof.
  unfold astral, lone_cr, class_ok. intros HA HL.
  apply negb_false_iff in HA. apply negb_false_iff in HL.
  exact (class_ok_from_and no_astral no_lone_cr ns empty_cache HA HL).
Qed.

Lemma sync_history_deployed : forall ns,
  conformant ns = true -> astral ns = false -> lone_cr ns = false ->
  exists s, run false empty_cache (map enc_note ns) = Ok s /\ forall d, s d = enc_cache (client ns) d.
Proof. intros ns Hc Ha Hl. apply sync_history; [exact Hc|apply classes_cover; assumption]. Qed.

Lemma sync_history_fixed : forall ns, conformant ns = true ->
  exists s, run true empty_cache (map enc_note ns) = Ok s /\ forall d, s d = enc_cache (client ns) d.
Proof. intros ns Hc. apply sync_history; [exact Hc|apply class_ok_fixed]. Qed.

Lemma never_rejected_fixed : forall ns, conformant ns = true -> stale true ns = false.
Proof. intros ns Hc. apply never_rejected; [exact Hc|apply class_ok_fixed]. Qed.
