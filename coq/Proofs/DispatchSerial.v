(* C10 - serialisability: when every handler used by the messages has the simple shape (no shared access, or one
   critical section containing every access), each complete run of the dispatcher is observationally equal to the
   serial run of the same messages in the order in which they acquired requestMutex. *)
From Coq Require Import String.
From Coq Require Import List Bool Arith PeanoNat Lia.
From LH Require Import Model.Dispatch Proofs.DispatchProofs.
Import ListNotations.

(* ------------------------------------------------------------------ the simple shape *)
Lemma simple_body_shape b :
  simple_body b = true -> b = [] \/ exists accs, only_accs accs = true /\ b = Lock :: accs ++ [Unlock].
Proof.
  destruct b as [|a t]; [left; reflexivity|]. destruct a; try discriminate. simpl.
  destruct (rev t) as [|u r] eqn:E; [discriminate|]. destruct u; try discriminate.
  intros H. right. exists (rev r). split; [exact H|].
  f_equal. rewrite <- (rev_involutive t), E. reflexivity.
Qed.

Lemma only_accs_nth accs pc a :
  only_accs accs = true -> nth_error accs pc = Some a -> exists r m, a = Acc r m.
Proof.
  revert pc; induction accs as [|x l IH]; intros [|pc] Ho Hn; simpl in *; try discriminate.
  - injection Hn as ->. destruct a; try discriminate. eauto.
  - destruct x; try discriminate. eapply IH; eauto.
Qed.

Lemma unlocked_from_true_accs accs rest :
  only_accs accs = true -> unlocked_from true (accs ++ rest) = unlocked_from true rest.
Proof.
  induction accs as [|x l IH]; intros Ho; simpl in *; [reflexivity|].
  destruct x; try discriminate. apply IH; exact Ho.
Qed.

Lemma bracketed_from_true_accs accs rest :
  only_accs accs = true -> bracketed_from true (accs ++ rest) = bracketed_from true rest.
Proof.
  induction accs as [|x l IH]; intros Ho; simpl in *; [reflexivity|].
  destruct x; try discriminate. apply IH; exact Ho.
Qed.

Lemma simple_locked b : simple_body b = true -> locked_body b = true.
Proof.
  intros H. apply simple_body_shape in H as [->|(accs & Ho & ->)]; [reflexivity|].
  unfold locked_body, bracketed, unlocked_accs. simpl.
  rewrite (bracketed_from_true_accs accs [Unlock] Ho), (unlocked_from_true_accs accs [Unlock] Ho). reflexivity.
Qed.

Lemma simple_acc_held b pc r m :
  simple_body b = true -> nth_error b pc = Some (Acc r m) -> held_at b pc = true.
Proof.
  intros Hs Hn. apply simple_locked, locked_body_spec in Hs as [_ Hu].
  destruct (held_at b pc) eqn:E; [reflexivity|].
  pose proof (unlocked_accs_in b pc r m Hn E) as Hin. rewrite Hu in Hin. destruct Hin.
Qed.

Lemma simple_lock_pc0 b pc : simple_body b = true -> nth_error b pc = Some Lock -> pc = 0.
Proof.
  intros Hs Hn. apply simple_body_shape in Hs as [->|(accs & Ho & ->)].
  - destruct pc; discriminate.
  - destruct pc as [|pc]; [reflexivity|]. simpl in Hn. exfalso.
    destruct (Nat.lt_ge_cases pc (length accs)) as [Hlt|Hge].
    + rewrite nth_error_app1 in Hn by exact Hlt.
      destruct (only_accs_nth _ _ _ Ho Hn) as (r & m & Hx). discriminate.
    + rewrite nth_error_app2 in Hn by exact Hge.
      destruct (pc - length accs) as [|k]; simpl in Hn; [discriminate|destruct k; discriminate].
Qed.

Lemma simple_no_spawn b pc x : simple_body b = true -> nth_error b pc = Some (Spawn x) -> False.
Proof.
  intros Hs Hn. apply simple_body_shape in Hs as [->|(accs & Ho & ->)].
  - destruct pc; discriminate.
  - destruct pc as [|pc]; [discriminate|]. simpl in Hn.
    destruct (Nat.lt_ge_cases pc (length accs)) as [Hlt|Hge].
    + rewrite nth_error_app1 in Hn by exact Hlt.
      destruct (only_accs_nth _ _ _ Ho Hn) as (r & m & Hx). discriminate.
    + rewrite nth_error_app2 in Hn by exact Hge.
      destruct (pc - length accs) as [|k]; simpl in Hn; [discriminate|destruct k; discriminate].
Qed.

Lemma NoDup_snoc {A} (l : list A) x : NoDup l -> ~ In x l -> NoDup (l ++ [x]).
Proof.
  intros Hn Hx. induction Hn as [|y l Hy Hn IH]; simpl.
  - constructor; [intros []|constructor].
  - constructor.
    + intros Hin. apply in_app_or in Hin as [Hin|[->|[]]]; [auto|]. apply Hx. left; reflexivity.
    + apply IH. intros Hin. apply Hx. right; exact Hin.
Qed.

Section Serial.
  Variable hs : list handler.
  Variable bgs : list handler.
  Variable conc : nat.
  Variable St : Type.
  Variable Loc : Type.
  Variable exec : nat -> nat -> Loc -> St -> Loc * St.
  Variable loc0 : nat -> Loc.

  Notation body_of := (body_of hs bgs).
  Notation step := (step hs bgs conc).
  Notation dstep := (dstep hs bgs conc St Loc exec loc0).
  Notation drun := (drun hs bgs conc St Loc exec loc0).
  Notation run_from := (run_from St Loc exec).
  Notation run_body := (run_body St Loc exec loc0).
  Notation serialL := (serialL St Loc exec loc0).

  (* ---------------------------------------------------------------- sequential execution of a body prefix *)
  Lemma run_from_app k pc l1 l2 lc sh :
    run_from k pc (l1 ++ l2) lc sh =
    let '(lc', sh') := run_from k pc l1 lc sh in run_from k (pc + length l1) l2 lc' sh'.
  Proof.
    revert pc lc sh; induction l1 as [|a l1 IH]; intros pc lc sh; simpl.
    - rewrite Nat.add_0_r. reflexivity.
    - destruct a as [r m| | |b]; try (rewrite IH, Nat.add_succ_r; reflexivity).
      destruct (exec k pc lc sh) as [lc1 sh1]. rewrite IH, Nat.add_succ_r. reflexivity.
  Qed.

  Definition prefix_run (k : nat) (body : list action) (pc : nat) (sh : St) : Loc * St :=
    run_from k 0 (firstn pc body) (loc0 k) sh.

  Lemma prefix_run_S_acc k body pc r m sh :
    nth_error body pc = Some (Acc r m) ->
    prefix_run k body (S pc) sh = let '(lc, sh1) := prefix_run k body pc sh in exec k pc lc sh1.
  Proof.
    intros Hn. unfold prefix_run. rewrite (firstn_S_nth _ _ _ Hn), run_from_app.
    destruct (run_from k 0 (firstn pc body) (loc0 k) sh) as [lc sh1].
    rewrite firstn_length_le.
    - simpl. destruct (exec k pc lc sh1). reflexivity.
    - apply Nat.lt_le_incl. apply nth_error_Some. congruence.
  Qed.

  Lemma prefix_run_S_other k body pc a sh :
    nth_error body pc = Some a -> (forall r m, a <> Acc r m) ->
    prefix_run k body (S pc) sh = prefix_run k body pc sh.
  Proof.
    intros Hn Ha. unfold prefix_run. rewrite (firstn_S_nth _ _ _ Hn), run_from_app.
    destruct (run_from k 0 (firstn pc body) (loc0 k) sh) as [lc sh1].
    destruct a as [r m| | |b]; simpl; try reflexivity. exfalso. eapply Ha; reflexivity.
  Qed.

  Lemma prefix_run_all k body pc sh : length body <= pc -> prefix_run k body pc sh = run_body k body sh.
  Proof. intros H. unfold prefix_run, Dispatch.run_body. rewrite firstn_all2 by exact H. reflexivity. Qed.

  Lemma prefix_run_0 k body sh : prefix_run k body 0 sh = (loc0 k, sh).
  Proof. reflexivity. Qed.

  (* ---------------------------------------------------------------- replay of the log against the pool *)
  Definition task_run (pool : list task) (k : nat) (sh : St) : Loc * St :=
    match nth_error pool k with
    | Some t => prefix_run k (t_body t) (t_pc t) sh
    | None => (loc0 k, sh)
    end.

  Fixpoint replayL (pool : list task) (log : list nat) (sh : St) : St * list (nat * Loc) :=
    match log with
    | [] => (sh, [])
    | k :: r =>
      let '(lc, sh') := task_run pool k sh in
      let '(shf, res) := replayL pool r sh' in
      (shf, (k, lc) :: res)
    end.

  Lemma replayL_app pool l1 l2 sh :
    replayL pool (l1 ++ l2) sh =
    let '(sh1, r1) := replayL pool l1 sh in
    let '(sh2, r2) := replayL pool l2 sh1 in (sh2, r1 ++ r2).
  Proof.
    revert sh; induction l1 as [|k l1 IH]; intros sh; simpl.
    - destruct (replayL pool l2 sh). reflexivity.
    - destruct (task_run pool k sh) as [lc sh']. rewrite IH.
      destruct (replayL pool l1 sh') as [sh1 r1]. destruct (replayL pool l2 sh1) as [sh2 r2]. reflexivity.
  Qed.

  Lemma replayL_ext pool pool' log sh :
    (forall k, In k log -> forall x, task_run pool k x = task_run pool' k x) ->
    replayL pool log sh = replayL pool' log sh.
  Proof.
    revert sh; induction log as [|k log IH]; intros sh H; simpl; [reflexivity|].
    rewrite (H k (or_introl eq_refl)). destruct (task_run pool' k sh) as [lc sh'].
    rewrite IH; [reflexivity|]. intros k' Hk'. apply H. right; exact Hk'.
  Qed.

  Lemma replayL_keys pool log sh k lc : In (k, lc) (snd (replayL pool log sh)) -> In k log.
  Proof.
    revert sh; induction log as [|k' log IH]; intros sh; simpl; [tauto|].
    destruct (task_run pool k' sh) as [lc' sh']. destruct (replayL pool log sh') as [shf res] eqn:E.
    simpl. intros [H|H].
    - injection H as -> _. left; reflexivity.
    - right. apply (IH sh'). rewrite E. exact H.
  Qed.

  Definition bodies_of (pool : list task) (k : nat) : list action :=
    match nth_error pool k with Some t => t_body t | None => [] end.

  Lemma replayL_serialL pool log sh :
    (forall k, In k log -> exists t, nth_error pool k = Some t /\ length (t_body t) <= t_pc t) ->
    replayL pool log sh = serialL (bodies_of pool) log sh.
  Proof.
    revert sh; induction log as [|k log IH]; intros sh H; simpl; [reflexivity|].
    destruct (H k (or_introl eq_refl)) as (t & Hk & Hlen).
    unfold task_run, bodies_of. rewrite Hk, (prefix_run_all _ _ _ _ Hlen).
    destruct (run_body k (t_body t) sh) as [lc sh'].
    rewrite IH; [reflexivity|]. intros k' Hk'. apply H. right; exact Hk'.
  Qed.

  Lemma task_run_set_other pool i t' k x : k <> i -> task_run (set_nth i t' pool) k x = task_run pool k x.
  Proof. intros H. unfold task_run. rewrite nth_error_set_nth_neq by congruence. reflexivity. Qed.

  Lemma task_run_app pool t' k x : k < length pool -> task_run (pool ++ [t']) k x = task_run pool k x.
  Proof. intros H. unfold task_run. rewrite nth_error_app1 by exact H. reflexivity. Qed.

  (* ---------------------------------------------------------------- the invariant *)
  Variable msgs : list msg.
  Variable sh0 : St.
  Hypothesis Hbr : tables_bracketed hs bgs.
  Hypothesis Hsimple : forall m, In m msgs -> simple_body (body_of false (m_h m)) = true.

  Definition t_msg (t : task) : msg := mkMsg (t_h t) (t_notif t).

  Record DInv (d : dstate St Loc) : Prop := {
    d_inv : Inv hs bgs (fst (fst d));
    d_len : length (snd d) = length (s_pool (fst (fst d)));
    d_msgs : map t_msg (s_pool (fst (fst d))) ++ s_queue (fst (fst d)) = msgs;
    d_nobg : forall i t, nth_error (s_pool (fst (fst d))) i = Some t -> t_bg t = false;
    d_last : forall i t, nth_error (s_pool (fst (fst d))) i = Some t -> t_holds t = true ->
                         exists pre, s_log (fst (fst d)) = pre ++ [i];
    d_nodup : NoDup (s_log (fst (fst d)));
    d_logpc : forall k, In k (s_log (fst (fst d))) ->
                        exists t, nth_error (s_pool (fst (fst d))) k = Some t /\ 1 <= t_pc t;
    d_replay : exists res, replayL (s_pool (fst (fst d))) (s_log (fst (fst d))) sh0 = (snd (fst d), res) /\
                           forall k lc, In (k, lc) res -> nth_error (snd d) k = Some lc;
    d_fresh : forall k t, nth_error (s_pool (fst (fst d))) k = Some t -> ~ In k (s_log (fst (fst d))) ->
                          nth_error (snd d) k = Some (loc0 k);
    d_done : forall i t, nth_error (s_pool (fst (fst d))) i = Some t -> t_st t = Done -> length (t_body t) <= t_pc t;
    d_unlogged : forall k t, nth_error (s_pool (fst (fst d))) k = Some t -> ~ In k (s_log (fst (fst d))) -> t_pc t = 0 }.

  Lemma msg_eta m : mkMsg (m_h m) (m_notif m) = m.
  Proof. destruct m; reflexivity. Qed.

  Lemma pool_simple d i t : DInv d -> nth_error (s_pool (fst (fst d))) i = Some t -> simple_body (t_body t) = true.
  Proof.
    intros HD Hi. destruct (inv_tasks _ _ _ (d_inv d HD) i t Hi) as [_ Hb].
    rewrite Hb, (d_nobg d HD i t Hi). apply (Hsimple (t_msg t)).
    rewrite <- (d_msgs d HD). apply in_or_app. left.
    apply in_map_iff. exists t. split; [|eapply nth_error_In; eauto].
    reflexivity.
  Qed.

  Lemma DInv_init : DInv (dinit St Loc msgs sh0).
  Proof.
    split; simpl; try (intros i t H; destruct i; discriminate).
    - apply Inv_init.
    - reflexivity.
    - reflexivity.
    - constructor.
    - intros k [].
    - exists []. split; [reflexivity|]. intros k lc [].
  Qed.

  (* a step that changes only the status of task i *)
  Lemma DInv_status s sh locs i t st :
    DInv (s, sh, locs) -> nth_error (s_pool s) i = Some t ->
    Inv hs bgs (mkState (s_queue s) (set_nth i (set_st t st) (s_pool s)) (s_mutex s) (s_log s)) ->
    (st = Done -> length (t_body t) <= t_pc t) ->
    DInv (mkState (s_queue s) (set_nth i (set_st t st) (s_pool s)) (s_mutex s) (s_log s), sh, locs).
  Proof.
    intros HD Hi HI Hst. pose proof HD as [_ Hlen Hmsgs Hnobg Hlast Hnd Hlogpc Hrep Hfresh Hdone Hunl]. simpl in *.
    assert (Htr : forall k x, task_run (set_nth i (set_st t st) (s_pool s)) k x = task_run (s_pool s) k x).
    { intros k x. destruct (Nat.eq_dec k i) as [->|Hne]; [|apply task_run_set_other; exact Hne].
      unfold task_run. rewrite nth_error_set_nth_eq by (apply nth_error_Some; congruence). rewrite Hi. reflexivity. }
    split; simpl.
    - exact HI.
    - rewrite set_nth_length. exact Hlen.
    - rewrite <- Hmsgs. f_equal.
      assert (Hmap : forall (l : list task) j u, nth_error l j = Some u -> forall u', t_msg u' = t_msg u ->
                      map t_msg (set_nth j u' l) = map t_msg l).
      { induction l as [|y l IH]; intros [|j] u Hj u' Hu; simpl in *; try discriminate.
        - injection Hj as ->. rewrite Hu. reflexivity.
        - f_equal. eapply IH; eauto. }
      eapply Hmap; [exact Hi|reflexivity].
    - intros j u Hj. apply nth_set_cases in Hj as [(-> & -> & _)|(Hne & Hj)]; [simpl; eauto|eauto].
    - intros j u Hj Hh. apply nth_set_cases in Hj as [(-> & -> & _)|(Hne & Hj)]; [simpl in Hh; eauto|eauto].
    - exact Hnd.
    - intros k Hk. destruct (Hlogpc k Hk) as (u & Hu & Hpc). destruct (Nat.eq_dec k i) as [->|Hne].
      + rewrite Hi in Hu. injection Hu as <-. exists (set_st t st). split; [|exact Hpc].
        apply nth_error_set_nth_eq. apply nth_error_Some. congruence.
      + exists u. split; [|exact Hpc]. rewrite nth_error_set_nth_neq by congruence. exact Hu.
    - destruct Hrep as (res & Hres & Hlocs). exists res. split; [|exact Hlocs].
      rewrite <- Hres. apply replayL_ext. intros k _ x. apply Htr.
    - intros k u Hk Hnk. apply nth_set_cases in Hk as [(-> & -> & _)|(Hne & Hk)]; eauto.
    - intros j u Hj Hd. apply nth_set_cases in Hj as [(-> & -> & _)|(Hne & Hj)]; [simpl in *; auto|eauto].
    - intros k u Hk Hnk. apply nth_set_cases in Hk as [(-> & -> & _)|(Hne & Hk)]; [simpl; eauto|eauto].
  Qed.

  Lemma map_t_msg_set (l : list task) j u u' :
    nth_error l j = Some u -> t_msg u' = t_msg u -> map t_msg (set_nth j u' l) = map t_msg l.
  Proof.
    revert j; induction l as [|y l IH]; intros [|j] Hj Hu; simpl in *; try discriminate.
    - injection Hj as ->. rewrite Hu. reflexivity.
    - f_equal. eapply IH; eauto.
  Qed.

  Lemma DInv_step l d d' : DInv d -> dstep l d = Some d' -> DInv d'.
  Proof.
    destruct d as [[s sh] locs]. intros HD Hstep. unfold Dispatch.dstep in Hstep.
    destruct (step l s) as [s'|] eqn:Es; [|discriminate].
    pose proof (step_sound hs bgs conc l s s' Es) as Hspec.
    pose proof (Inv_step hs bgs conc l s s' Hbr (d_inv _ HD) Hspec) as HI'.
    pose proof HD as [HI Hlen Hmsgs Hnobg Hlast Hnd Hlogpc Hrep Hfresh Hdone Hunl]. simpl in *.
    destruct Hspec as [m q -> Hq Hb ->|i t -> Hi Hw Hc ->|i t r m -> Hi Hr Ha ->|i t -> Hi Hr Ha Hm ->
                      |i t -> Hi Hr Ha Hm ->|i t b -> Hi Hr Ha ->|i t -> Hi Hr Hfin ->].
    - (* dispatch *)
      injection Hstep as <-. split; simpl.
      + exact HI'.
      + rewrite !app_length. simpl. lia.
      + rewrite map_app, <- app_assoc. simpl. rewrite <- Hmsgs, Hq. unfold t_msg. simpl. rewrite msg_eta. reflexivity.
      + intros j u Hj. apply nth_app_one_cases in Hj as [Hj|[_ ->]]; [eauto|reflexivity].
      + intros j u Hj Hh. apply nth_app_one_cases in Hj as [Hj|[_ ->]]; [eauto|discriminate].
      + exact Hnd.
      + intros k Hk. destruct (Hlogpc k Hk) as (u & Hu & Hpc). exists u. split; [|exact Hpc].
        rewrite nth_error_app1; [exact Hu|]. apply nth_error_Some. congruence.
      + destruct Hrep as (res & Hres & Hlocs). exists res. split.
        * rewrite <- Hres. symmetry. apply replayL_ext. intros k Hk x. symmetry. apply task_run_app.
          destruct (Hlogpc k Hk) as (u & Hu & _). apply nth_error_Some. congruence.
        * intros k lc Hin. rewrite nth_error_app1; [auto|]. apply nth_error_Some. rewrite (Hlocs k lc Hin). discriminate.
      + intros k u Hk Hnk. apply nth_app_one_cases in Hk as [Hk|[-> ->]].
        * rewrite nth_error_app1; [eauto|]. rewrite Hlen. apply nth_error_Some. congruence.
        * rewrite nth_error_app2 by lia. rewrite Hlen, Nat.sub_diag. reflexivity.
      + intros j u Hj Hd. apply nth_app_one_cases in Hj as [Hj|[_ ->]]; [eauto|discriminate].
      + intros k u Hk Hnk. apply nth_app_one_cases in Hk as [Hk|[_ ->]]; [eauto|reflexivity].
    - (* start *)
      injection Hstep as <-. apply (DInv_status s sh locs i t Running HD Hi HI'). discriminate.
    - (* access *)
      rewrite Hi, Ha in Hstep.
      assert (Hilt : i < length locs) by (rewrite Hlen; apply nth_error_Some; congruence).
      destruct (nth_error locs i) as [lc|] eqn:Elc; [|apply nth_error_None in Elc; lia].
      destruct (exec i (t_pc t) lc sh) as [lc' sh'] eqn:Ex. injection Hstep as <-.
      assert (Hsim : simple_body (t_body t) = true) by (eapply (pool_simple _ i t HD); exact Hi).
      assert (Hheld : t_holds t = true).
      { destruct (inv_tasks _ _ _ HI i t Hi) as [Hh _]. rewrite Hh. eapply simple_acc_held; eauto. }
      destruct (Hlast i t Hi Hheld) as [pre Hlog].
      assert (Hnpre : ~ In i pre).
      { rewrite Hlog in Hnd. apply NoDup_remove_2 in Hnd. rewrite app_nil_r in Hnd. exact Hnd. }
      destruct Hrep as (res & Hres & Hlocs). rewrite Hlog, replayL_app in Hres.
      destruct (replayL (s_pool s) pre sh0) as [sh1 r1] eqn:Epre. simpl in Hres.
      destruct (task_run (s_pool s) i sh1) as [lci shi] eqn:Eti. injection Hres as <- <-.
      assert (Hlci : lci = lc).
      { assert (Hx : nth_error locs i = Some lci).
        { apply Hlocs. apply in_or_app. right. left. reflexivity. }
        congruence. }
      subst lci.
      split; simpl.
      + exact HI'.
      + rewrite !set_nth_length. exact Hlen.
      + rewrite <- Hmsgs. f_equal. eapply map_t_msg_set; [exact Hi|reflexivity].
      + intros j u Hj. apply nth_set_cases in Hj as [(-> & -> & _)|(Hne & Hj)]; [simpl; eauto|eauto].
      + intros j u Hj Hh. apply nth_set_cases in Hj as [(-> & -> & _)|(Hne & Hj)]; [exists pre; exact Hlog|eauto].
      + exact Hnd.
      + intros k Hk. destruct (Hlogpc k Hk) as (u & Hu & Hpc). destruct (Nat.eq_dec k i) as [->|Hne].
        * exists (adv t (t_holds t)). split; [|simpl; lia].
          apply nth_error_set_nth_eq. apply nth_error_Some. congruence.
        * exists u. split; [|exact Hpc]. rewrite nth_error_set_nth_neq by congruence. exact Hu.
      + exists (r1 ++ [(i, lc')]). split.
        * rewrite Hlog, replayL_app.
          rewrite (replayL_ext _ (s_pool s) pre sh0), Epre.
          2:{ intros k Hk x. apply task_run_set_other. intros ->. contradiction. }
          simpl. unfold task_run. rewrite nth_error_set_nth_eq by (apply nth_error_Some; congruence). simpl.
          rewrite (prefix_run_S_acc _ _ _ _ _ _ Ha).
          unfold task_run in Eti. rewrite Hi in Eti. rewrite Eti, Ex. reflexivity.
        * intros k lck Hin. apply in_app_or in Hin as [Hin|[Hin|[]]].
          -- assert (Hk : In k pre).
             { apply (replayL_keys (s_pool s) pre sh0 k lck). rewrite Epre. exact Hin. }
             rewrite nth_error_set_nth_neq by (intros ->; contradiction).
             apply Hlocs. apply in_or_app. left. exact Hin.
          -- injection Hin as <- <-. apply nth_error_set_nth_eq. exact Hilt.
      + intros k u Hk Hnk. apply nth_set_cases in Hk as [(-> & -> & _)|(Hne & Hk)].
        * exfalso. apply Hnk. rewrite Hlog. apply in_or_app. right. left. reflexivity.
        * rewrite nth_error_set_nth_neq by congruence. eauto.
      + intros j u Hj Hd. apply nth_set_cases in Hj as [(-> & -> & _)|(Hne & Hj)]; [|eauto].
        simpl in Hd. unfold is_running in Hr. rewrite Hd in Hr. discriminate.
      + intros k u Hk Hnk. apply nth_set_cases in Hk as [(-> & -> & _)|(Hne & Hk)]; [|eauto].
        exfalso. apply Hnk. rewrite Hlog. apply in_or_app. right. left. reflexivity.
    - (* lock *)
      rewrite Hi, Ha in Hstep.
      assert (Hstep' : Some (mkState (s_queue s) (set_nth i (adv t true) (s_pool s)) true (s_log s ++ [i]), sh, locs) = Some d').
      { destruct (nth_error locs i); exact Hstep. }
      clear Hstep. injection Hstep' as <-.
      assert (Hsim : simple_body (t_body t) = true) by (eapply (pool_simple _ i t HD); exact Hi).
      assert (Hpc0 : t_pc t = 0) by (eapply simple_lock_pc0; eauto).
      assert (Hni : ~ In i (s_log s)).
      { intros Hin. destruct (Hlogpc i Hin) as (u & Hu & Hpc). rewrite Hi in Hu. injection Hu as <-. lia. }
      split; simpl.
      + exact HI'.
      + rewrite set_nth_length. exact Hlen.
      + rewrite <- Hmsgs. f_equal. eapply map_t_msg_set; [exact Hi|reflexivity].
      + intros j u Hj. apply nth_set_cases in Hj as [(-> & -> & _)|(Hne & Hj)]; [simpl; eauto|eauto].
      + intros j u Hj Hh. apply nth_set_cases in Hj as [(-> & -> & _)|(Hne & Hj)]; [exists (s_log s); reflexivity|].
        rewrite (inv_free _ _ _ HI Hm j u Hj) in Hh. discriminate.
      + apply NoDup_snoc; assumption.
      + intros k Hk. apply in_app_or in Hk as [Hk|[<-|[]]].
        * destruct (Hlogpc k Hk) as (u & Hu & Hpc). exists u. split; [|exact Hpc].
          rewrite nth_error_set_nth_neq; [exact Hu|]. intros ->. contradiction.
        * exists (adv t true). split; [|simpl; lia].
          apply nth_error_set_nth_eq. apply nth_error_Some. congruence.
      + destruct Hrep as (res & Hres & Hlocs). exists (res ++ [(i, loc0 i)]). split.
        * rewrite replayL_app. rewrite (replayL_ext _ (s_pool s) (s_log s) sh0), Hres.
          2:{ intros k Hk x. apply task_run_set_other. intros ->. contradiction. }
          simpl. unfold task_run. rewrite nth_error_set_nth_eq by (apply nth_error_Some; congruence). simpl.
          rewrite (prefix_run_S_other _ _ _ Lock _ Ha) by discriminate. rewrite Hpc0, prefix_run_0. reflexivity.
        * intros k lck Hin. apply in_app_or in Hin as [Hin|[Hin|[]]]; [auto|].
          injection Hin as <- <-. eapply Hfresh; eauto.
      + intros k u Hk Hnk. apply nth_set_cases in Hk as [(-> & -> & _)|(Hne & Hk)].
        * exfalso. apply Hnk. apply in_or_app. right. left. reflexivity.
        * apply (Hfresh k u Hk). intros Hin. apply Hnk. apply in_or_app. left. exact Hin.
      + intros j u Hj Hd. apply nth_set_cases in Hj as [(-> & -> & _)|(Hne & Hj)]; [|eauto].
        simpl in Hd. unfold is_running in Hr. rewrite Hd in Hr. discriminate.
      + intros k u Hk Hnk. apply nth_set_cases in Hk as [(-> & -> & _)|(Hne & Hk)].
        * exfalso. apply Hnk. apply in_or_app. right. left. reflexivity.
        * apply (Hunl k u Hk). intros Hin. apply Hnk. apply in_or_app. left. exact Hin.
    - (* unlock *)
      rewrite Hi, Ha in Hstep.
      assert (Hstep' : Some (mkState (s_queue s) (set_nth i (adv t false) (s_pool s)) false (s_log s), sh, locs) = Some d').
      { destruct (nth_error locs i); exact Hstep. }
      clear Hstep. injection Hstep' as <-.
      assert (Htr : forall k x, task_run (set_nth i (adv t false) (s_pool s)) k x = task_run (s_pool s) k x).
      { intros k x. destruct (Nat.eq_dec k i) as [->|Hne]; [|apply task_run_set_other; exact Hne].
        unfold task_run. rewrite nth_error_set_nth_eq by (apply nth_error_Some; congruence). rewrite Hi. simpl.
        apply (prefix_run_S_other _ _ _ Unlock _ Ha). discriminate. }
      split; simpl.
      + exact HI'.
      + rewrite set_nth_length. exact Hlen.
      + rewrite <- Hmsgs. f_equal. eapply map_t_msg_set; [exact Hi|reflexivity].
      + intros j u Hj. apply nth_set_cases in Hj as [(-> & -> & _)|(Hne & Hj)]; [simpl; eauto|eauto].
      + intros j u Hj Hh. rewrite (inv_free _ _ _ HI' eq_refl j u Hj) in Hh. discriminate.
      + exact Hnd.
      + intros k Hk. destruct (Hlogpc k Hk) as (u & Hu & Hpc). destruct (Nat.eq_dec k i) as [->|Hne].
        * exists (adv t false). split; [|simpl; lia].
          apply nth_error_set_nth_eq. apply nth_error_Some. congruence.
        * exists u. split; [|exact Hpc]. rewrite nth_error_set_nth_neq by congruence. exact Hu.
      + destruct Hrep as (res & Hres & Hlocs). exists res. split; [|exact Hlocs].
        rewrite <- Hres. apply replayL_ext. intros k _ x. apply Htr.
      + intros k u Hk Hnk. apply nth_set_cases in Hk as [(-> & -> & _)|(Hne & Hk)]; eauto.
      + intros j u Hj Hd. apply nth_set_cases in Hj as [(-> & -> & _)|(Hne & Hj)]; [|eauto].
        simpl in Hd. unfold is_running in Hr. rewrite Hd in Hr. discriminate.
      + intros k u Hk Hnk. apply nth_set_cases in Hk as [(-> & -> & _)|(Hne & Hk)]; [|eauto].
        exfalso. apply Hnk.
        assert (Hheld : t_holds t = true).
        { destruct (inv_tasks _ _ _ HI i t Hi) as [Hh Hb]. rewrite Hh.
          apply bracketed_unlock_held; [rewrite Hb; apply Hbr|exact Ha]. }
        destruct (Hlast i t Hi Hheld) as [pre Hlog]. rewrite Hlog. apply in_or_app. right. left. reflexivity.
    - (* spawn: impossible for simple bodies *)
      exfalso. eapply simple_no_spawn; [eapply (pool_simple _ i t HD); exact Hi|exact Ha].
    - (* finish *)
      injection Hstep as <-. apply (DInv_status s sh locs i t Done HD Hi HI'). intros _. exact Hfin.
  Qed.

  Lemma drun_app l1 l2 d :
    drun (l1 ++ l2) d = match drun l1 d with Some d' => drun l2 d' | None => None end.
  Proof.
    revert d; induction l1 as [|l l1 IH]; intros d; simpl; [reflexivity|].
    destruct (dstep l d); [apply IH|reflexivity].
  Qed.

  Lemma DInv_run ls d : drun ls (dinit St Loc msgs sh0) = Some d -> DInv d.
  Proof.
    revert d; induction ls as [|l ls IH] using rev_ind; intros d Hrun.
    - simpl in Hrun. injection Hrun as <-. apply DInv_init.
    - rewrite drun_app in Hrun. destruct (drun ls (dinit St Loc msgs sh0)) as [d1|] eqn:E1; [|discriminate].
      simpl in Hrun. destruct (dstep l d1) as [d2|] eqn:E2; [|discriminate]. injection Hrun as <-.
      eapply DInv_step; [apply IH; reflexivity|exact E2].
  Qed.

  (* the control part of a data run is a run of the dispatcher *)
  Lemma drun_control ls d d' :
    drun ls d = Some d' -> run hs bgs conc ls (fst (fst d)) = Some (fst (fst d')).
  Proof.
    revert d; induction ls as [|l ls IH]; intros d Hrun; simpl in *.
    - injection Hrun as <-. reflexivity.
    - destruct (dstep l d) as [d1|] eqn:E; [|discriminate].
      assert (Hs : step l (fst (fst d)) = Some (fst (fst d1))).
      { destruct d as [[s sh] locs]. unfold Dispatch.dstep in E. simpl.
        destruct (step l s) as [s'|]; [|discriminate]. f_equal.
        destruct l as [|i|i|i]; try (injection E as <-; reflexivity).
        destruct (nth_error (s_pool s) i) as [t|]; [|injection E as <-; reflexivity].
        destruct (nth_error locs i) as [lc|]; [|injection E as <-; reflexivity].
        destruct (nth_error (t_body t) (t_pc t)) as [[r m| | |b]|]; try (injection E as <-; reflexivity).
        destruct (exec i (t_pc t) lc sh). injection E as <-. reflexivity. }
      rewrite Hs. apply IH. exact Hrun.
  Qed.

  (* ---------------------------------------------------------------- the theorem *)
  Theorem serialisable ls s sh locs :
    drun ls (dinit St Loc msgs sh0) = Some (s, sh, locs) -> complete s = true ->
    exists res,
      (* the serial run, in lock-acquisition order, of the messages that took the mutex *)
      serialL (bodies_of (s_pool s)) (s_log s) sh0 = (sh, res) /\
      (* ... gives every one of them the answer it got in the concurrent run *)
      (forall k lc, In (k, lc) res -> nth_error locs k = Some lc) /\
      (* ... the others never touched shared state: their answer does not depend on it *)
      (forall k, k < length msgs -> ~ In k (s_log s) -> nth_error locs k = Some (loc0 k) /\ bodies_of (s_pool s) k = []) /\
      NoDup (s_log s) /\ (forall k, In k (s_log s) -> k < length msgs) /\
      (* the goroutines are exactly the messages *)
      length (s_pool s) = length msgs /\
      (forall k m, nth_error msgs k = Some m -> bodies_of (s_pool s) k = body_of false (m_h m)).
  Proof.
    intros Hrun Hc. pose proof (DInv_run ls _ Hrun) as HD.
    pose proof HD as [HI Hlen Hmsgs Hnobg Hlast Hnd Hlogpc Hrep Hfresh Hdone Hunl]. simpl in *.
    unfold complete in Hc. apply andb_true_iff in Hc as [Hq Hall].
    destruct (s_queue s) as [|? ?] eqn:Eq; [|discriminate]. rewrite app_nil_r in Hmsgs.
    assert (Hplen : length (s_pool s) = length msgs) by (rewrite <- Hmsgs, map_length; reflexivity).
    assert (Hfin : forall k t, nth_error (s_pool s) k = Some t -> length (t_body t) <= t_pc t).
    { intros k t Hk. apply (Hdone k t Hk). rewrite forallb_forall in Hall.
      specialize (Hall t (nth_error_In _ _ Hk)). unfold is_done in Hall. destruct (t_st t); try discriminate. reflexivity. }
    destruct Hrep as (res & Hres & Hlocs). exists res. repeat split.
    - rewrite <- Hres. symmetry. apply replayL_serialL.
      intros k Hk. destruct (Hlogpc k Hk) as (t & Ht & _). exists t. split; [exact Ht|eapply Hfin; eauto].
    - exact Hlocs.
    - rewrite <- Hplen in H. destruct (nth_error (s_pool s) k) as [t|] eqn:Ek; [|apply nth_error_None in Ek; lia].
      eapply Hfresh; eauto.
    - rewrite <- Hplen in H. destruct (nth_error (s_pool s) k) as [t|] eqn:Ek; [|apply nth_error_None in Ek; lia].
      unfold bodies_of. rewrite Ek.
      pose proof (Hfin k t Ek) as Hpc. rewrite (Hunl k t Ek H0) in Hpc.
      destruct (t_body t); [reflexivity|simpl in Hpc; lia].
    - exact Hnd.
    - intros k Hk. destruct (Hlogpc k Hk) as (t & Ht & _). rewrite <- Hplen. apply nth_error_Some. congruence.
    - exact Hplen.
    - intros k m Hk. unfold bodies_of.
      assert (Hkm : nth_error (map t_msg (s_pool s)) k = Some m) by (rewrite Hmsgs; exact Hk).
      rewrite nth_error_map in Hkm. destruct (nth_error (s_pool s) k) as [t|] eqn:Ek; [|discriminate].
      simpl in Hkm. injection Hkm as <-.
      destruct (inv_tasks _ _ _ HI k t Ek) as [_ Hb]. rewrite Hb, (Hnobg k t Ek). reflexivity.
  Qed.
End Serial.

(* ------------------------------------------------------------------ the discipline alone is not enough *)
(* A handler that keeps the discipline but splits a read-modify-write over TWO critical sections is not atomic:
   message 0 reads the shared counter in its first section and writes counter+1 in its second one; message 1 adds 10
   in between. The final counter is 1; both serial orders give 11. *)
From Coq Require Import Permutation.

Definition cx_hs : list handler :=
  [ mkHandler (nm "split") (nm "Split") Request [Lock; Acc Analysis Rd; Unlock; Lock; Acc Analysis Wr; Unlock];
    mkHandler (nm "add10") (nm "Add10") Request [Lock; Acc Analysis Wr; Unlock] ].
Definition cx_exec (k pc : nat) (lc sh : nat) : nat * nat :=
  match k, pc with
  | 0, 1 => (sh, sh)            (* split, first section: remember the counter *)
  | 0, 4 => (lc, S lc)          (* split, second section: write remembered value + 1 *)
  | 1, 1 => (lc, 10 + sh)       (* add10 *)
  | _, _ => (lc, sh)
  end.
Definition cx_msgs : list msg := [mkMsg 0 false; mkMsg 1 false].
Definition cx_labels : list label :=
  [LDispatch; LStart 0; LDispatch; LStart 1; LStep 0; LStep 0; LStep 0; LStep 1; LStep 1; LStep 1; LFinish 1;
   LStep 0; LStep 0; LStep 0; LFinish 0].

Lemma cx_locked : forallb locked (cx_hs ++ []) = true.
Proof. vm_compute. reflexivity. Qed.

Lemma cx_run :
  exists s locs, drun cx_hs [] 4 nat nat cx_exec (fun _ => 0) cx_labels (dinit nat nat cx_msgs 0) = Some (s, 1, locs) /\
                 complete s = true.
Proof. eexists. eexists. split; [vm_compute; reflexivity|reflexivity]. Qed.

Lemma perm2 (order : list nat) : Permutation order [0; 1] -> order = [0; 1] \/ order = [1; 0].
Proof.
  intros H. pose proof (Permutation_length H) as Hl.
  destruct order as [|a [|b [|c r]]]; simpl in Hl; try discriminate.
  assert (Ha : In a [0; 1]) by (eapply Permutation_in; [exact H|left; reflexivity]).
  assert (Hb : In b [0; 1]) by (eapply Permutation_in; [exact H|right; left; reflexivity]).
  assert (Hnd : NoDup [a; b]) by (eapply Permutation_NoDup; [apply Permutation_sym; exact H|repeat constructor; simpl; intuition discriminate]).
  inversion Hnd as [|x l Hnin _]; subst. simpl in Hnin.
  destruct Ha as [<-|[<-|[]]]; destruct Hb as [<-|[<-|[]]]; auto; exfalso; apply Hnin; auto.
Qed.

Lemma cx_serial_orders s order :
  Permutation order [0; 1] ->
  fst (serialL nat nat cx_exec (fun _ => 0)
         (fun k => match k with 0 => hbody (nth 0 cx_hs (mkHandler [] [] Request [])) | _ => hbody (nth 1 cx_hs (mkHandler [] [] Request [])) end)
         order s) = 11 + s.
Proof. intros H. destruct (perm2 order H) as [->| ->]; reflexivity. Qed.

Lemma cx_refutes :
  exists s sh locs,
    drun cx_hs [] 4 nat nat cx_exec (fun _ => 0) cx_labels (dinit nat nat cx_msgs 0) = Some (s, sh, locs) /\
    complete s = true /\
    forall order, Permutation order [0; 1] ->
                  fst (serialL nat nat cx_exec (fun _ => 0) (bodies_of (s_pool s)) order 0) <> sh.
Proof.
  eexists. eexists. eexists. split; [vm_compute; reflexivity|]. split; [reflexivity|].
  intros order H. destruct (perm2 order H) as [->| ->]; vm_compute; discriminate.
Qed.
