(* From ParserLine to ParseCommentFragment: the one-line fragment "-@" ++ text, the form in which the
   correspondence legs c16.line / c16.print observe the theorems. *)
From Coq Require Import String Ascii List Arith NArith Bool Lia.
From LH Require Import Base.Bytes Base.Res Model.AnnLexer Model.AnnAst Model.AnnParser Model.AnnPrint
  Spec.AnnGrammar Proofs.AnnRoundtrip Proofs.AnnStat Proofs.AnnPlain Proofs.AnnPrinter.
Import ListNotations.

Lemma one_line_fragment_gen cont lno text s :
  ann_parse_line (fuel_of text) text = Ok (inl s) -> s <> SNotValid -> empty_alias s = false ->
  parse_fragment_gen cont [(lno, s_head ++ text)] = Ok (mkFrag [s] [lno] []).
Proof.
  intros Hp Hnv Hna. destruct cont; unfold parse_fragment_gen, frag_loop_fx, frag_step_fx, frag_loop, frag_step.
  - change (check_head s_alias_head (s_head ++ text)) with (@Ok (option bytes) None). cbn [rbind].
    change (check_head s_head (s_head ++ text)) with (Ok (Some text)). cbn [rbind].
    rewrite Hp. cbn [rbind].
    destruct s; try contradiction; cbn [rbind fst f_stats f_lines f_errs app];
      unfold clear_empty_alias; cbn [f_stats f_lines f_errs clear_loop empty_alias rbind tl firstn fst snd app];
      try reflexivity.
    cbn [empty_alias] in Hna. rewrite Hna. reflexivity.
  - change (check_head s_alias_head (s_head ++ text)) with (@Ok (option bytes) None). cbn [rbind].
    change (check_head s_head (s_head ++ text)) with (Ok (Some text)). cbn [rbind].
    rewrite Hp. cbn [rbind].
    destruct s; try contradiction; cbn [rbind f_stats f_lines f_errs app];
      unfold clear_empty_alias; cbn [f_stats f_lines f_errs clear_loop empty_alias rbind tl firstn fst snd app];
      try reflexivity.
    cbn [empty_alias] in Hna. rewrite Hna. reflexivity.
Qed.

Lemma one_line_fragment lno text s :
  ann_parse_line (fuel_of text) text = Ok (inl s) -> s <> SNotValid -> empty_alias s = false ->
  parse_fragment [(lno, s_head ++ text)] = Ok (mkFrag [s] [lno] []).
Proof. exact (one_line_fragment_gen (fx_cont deployed) lno text s). Qed.

Lemma embed_stat_valid nested s : embed_stat nested s <> SNotValid /\ empty_alias (embed_stat nested s) = false.
Proof. destruct s; cbn; split; (discriminate || reflexivity). Qed.

(* a documented line, as the comment line "-@..." of a one-line comment block *)
Theorem stat_fragment_roundtrip : forall s lno, doc_stat s = true ->
  parse_fragment [(lno, s_head ++ show_line s)] = Ok (mkFrag [embed_line s] [lno] []).
Proof.
  intros s lno Hd. destruct (embed_stat_valid true s) as [H1 H2].
  apply one_line_fragment; [apply stat_roundtrip; assumption | exact H1 | exact H2].
Qed.

Theorem stat_fragment_roundtrip_plain : forall s lno, doc_stat s = true ->
  parse_fragment [(lno, s_head ++ show_line_plain s)] = Ok (mkFrag [embed_line_plain s] [lno] []).
Proof.
  intros s lno Hd. destruct (embed_stat_valid false s) as [H1 H2].
  apply one_line_fragment; [apply stat_roundtrip_plain; assumption | exact H1 | exact H2].
Qed.

(* the printer leg: "-@type " ++ TypeConvertStr a is read as the type a denotes (any set of repairs, under its guard) *)
Theorem printer_fragment_fx : forall fx a lno, pguard fx (abs a) = true ->
  parse_fragment [(lno, s_head ++ k_type ++ type_convert_str_fx fx a)]
  = Ok (mkFrag [SType [(false, false, embed_type (abs a))] []] [lno] []).
Proof.
  intros fx a lno Hg. apply pguard_G in Hg. pose proof (tcs_show fx (asize a) a (le_n _) Hg) as Ht.
  pose proof (G_doc fx _ Hg) as Hd.
  pose proof (stat_fragment_roundtrip (DSType [(false, false, abs a)] None) lno) as H.
  unfold show_line, embed_line in H.
  cbn [show_stat show_tlist show_comment embed_stat embed_tlist comment_of fst snd app] in H.
  rewrite !app_nil_r in H. rewrite Ht. apply H.
  cbn [doc_stat is_nil negb forallb snd andb]. rewrite Hd. reflexivity.
Qed.

(* the code as it is *)
Theorem printer_fragment : forall a lno, doc_type (abs a) = true -> has_fun (abs a) = false ->
  parse_fragment [(lno, s_head ++ k_type ++ type_convert_str a)]
  = Ok (mkFrag [SType [(false, false, embed_type (abs a))] []] [lno] []).
Proof. intros a lno Hd Hf. apply (printer_fragment_fx deployed). apply pguard_deployed; assumption. Qed.
