(* C19 - the workspace merge of a one-file workspace (`finalize`): scopes and "nodefine" variables are untouched; the
   globals keep their order, names, VarInfo.Loc and function info, and only gain members, each of which is a member of
   a "nodefine" variable of the same file. *)
From Coq Require Import List NArith ZArith Bool Lia.
From LH Require Import Base.Bytes Base.Res Model.Lexer Model.Ast Model.Symbols.
Import ListNotations.

Lemma fold_left_inv : forall {A B} (I : A -> Prop) (f : A -> B -> A) l a,
    (forall acc x, In x l -> I acc -> I (f acc x)) -> I a -> I (fold_left f l a).
Proof.
  intros A B I f l. induction l as [|x l IH]; intros a Hf Ha; cbn [fold_left]; [exact Ha|].
  apply IH.
  - intros acc y Hy. apply Hf. right; exact Hy.
  - apply Hf; [left; reflexivity | exact Ha].
Qed.

(* v' is v with members appended, all taken from the pool N *)
Definition vext (N : list (bytes * vinfo)) (v v' : vinfo) : Prop :=
  exists extra, v' = set_sub v (v_sub v ++ extra) /\ Forall (fun m => In m N) extra.

Lemma vext_refl : forall N v, vext N v v.
Proof. intros N [l f s p g r e]. exists []. cbn. rewrite app_nil_r. split; [reflexivity | constructor]. Qed.

Lemma vext_step : forall N v g m, vext N v g -> In m N -> vext N v (set_sub g (v_sub g ++ [m])).
Proof.
  intros N [l f s p gl r e] g m [extra [-> Hex]] Hm. exists (extra ++ [m]). cbn. split.
  - rewrite app_assoc. reflexivity.
  - apply Forall_app. split; [exact Hex | constructor; [exact Hm | constructor]].
Qed.

Definition gext (N : list (bytes * vinfo)) (g g' : list (bytes * vinfo)) : Prop :=
  Forall2 (fun kv kv' => fst kv = fst kv' /\ vext N (snd kv) (snd kv')) g g'.

Lemma gext_refl : forall N g, gext N g g.
Proof. intros N g. induction g as [|kv g IH]; constructor; [split; [reflexivity | apply vext_refl] | exact IH]. Qed.

Lemma gext_set : forall N l l' nm g g',
    gext N l l' -> assoc_get nm l' = Some g -> (forall v, vext N v g -> vext N v g') -> gext N l (assoc_set nm g' l').
Proof.
  intros N l l' nm g g' H. induction H as [|[k v] [k' v'] l l' [Hk Hv] Hrest IH]; intros Hg Hstep.
  - cbn in Hg. discriminate.
  - cbn [fst snd] in *. subst k'. cbn [assoc_get] in Hg. cbn [assoc_set]. destruct (beq_bytes nm k).
    + injection Hg as ->. constructor; [split; [reflexivity | apply Hstep; exact Hv] | exact Hrest].
    + constructor; [split; [reflexivity | exact Hv] | apply IH; assumption].
Qed.

Lemma add_members_ext : forall N file nm ms lg g g' lg' v,
    Forall (fun m => In m N) ms -> vext N v g -> add_members file nm ms lg g = Some (g', lg') -> vext N v g'.
Proof.
  intros N file nm ms lg g g' lg' v Hms Hv H. unfold add_members in H.
  match type of H with ?t = _ =>
    assert (Hinv : match t with Some (g0, _) => vext N v g0 | None => True end); [|rewrite H in Hinv; exact Hinv] end.
  apply (fold_left_inv (fun acc => match acc with Some (g0, _) => vext N v g0 | None => True end)); [|exact Hv].
  intros [[g0 lg0]|] kv Hin Hacc; [|exact I].
  destruct (assoc_mem (fst kv) (v_sub g0)).
  - destruct (existsb _ lg0); [exact I | exact Hacc].
  - apply vext_step; [exact Hacc|]. rewrite Forall_forall in Hms. apply Hms. exact Hin.
Qed.

Definition nodef_members (s : state) : list (bytes * vinfo) := flat_map (fun nv => v_sub (snd nv)) (nodefs s).

Lemma definers_single : forall nm s, definers nm [s] = if assoc_mem nm (globs s) then [0%nat] else [].
Proof. intros. unfold definers. cbn. destruct (assoc_mem nm (globs s)); reflexivity. Qed.

Lemma finalize_facts : forall s,
    env (finalize s) = env s /\ nodefs (finalize s) = nodefs s /\ nextf (finalize s) = nextf s /\
    gext (nodef_members s) (globs s) (globs (finalize s)).
Proof.
  intros s. unfold finalize, merge_ws, merge_ws_log. cbn [length seq combine fold_left fst snd].
  set (N := nodef_members s).
  set (Inv := fun acc : option (list state * list (bytes * bytes * nat)) =>
              match acc with
              | Some ([s'], _) => env s' = env s /\ nodefs s' = nodefs s /\ nextf s' = nextf s /\ gext N (globs s) (globs s')
              | Some _ => False
              | None => True
              end).
  assert (HI : Inv (fold_left (merge_one [s] 0) (nodefs s) (Some ([s], [])))).
  { apply fold_left_inv.
    - intros [[sts lg]|] nv Hnv Hacc; [|exact I]. unfold Inv in Hacc.
      destruct sts as [|s' [|? ?]]; try contradiction. destruct Hacc as [H1 [H2 [H3 H4]]].
      unfold merge_one. destruct (v_sub (snd nv)) as [|m0 ms0] eqn:Ems; [unfold Inv; auto|].
      rewrite definers_single. destruct (assoc_mem (fst nv) (globs s)); [|unfold Inv; auto].
      cbn [nth_error]. destruct (assoc_get (fst nv) (globs s')) as [g|] eqn:Eg; [|unfold Inv; auto].
      cbn [Nat.eqb]. destruct (add_members 0 (fst nv) (m0 :: ms0) lg g) as [[g' lg']|] eqn:Ea; [|exact I].
      unfold Inv. cbn [upd_nth set_globs env nodefs nextf globs]. repeat split; auto.
      eapply gext_set; [exact H4 | exact Eg |].
      intros v Hv. eapply add_members_ext; [|exact Hv|exact Ea].
      rewrite <- Ems. apply Forall_forall. intros m Hm. unfold N, nodef_members. apply in_flat_map.
      exists nv. split; assumption.
    - unfold Inv. repeat split; auto. apply gext_refl. }
  destruct (fold_left (merge_one [s] 0) (nodefs s) (Some ([s], []))) as [[sts lg]|].
  - unfold Inv in HI. destruct sts as [|s' [|? ?]]; try contradiction. exact HI.
  - repeat split; auto. apply gext_refl.
Qed.

Lemma finalize_main_scope : forall s, main_scope (finalize s) = main_scope s.
Proof. intros s. unfold main_scope. destruct (finalize_facts s) as [-> _]. reflexivity. Qed.

(* consequences for a global of the merged state *)
Lemma gext_in : forall N g g' nm v',
    gext N g g' -> In (nm, v') g' -> exists v, In (nm, v) g /\ vext N v v'.
Proof.
  intros N g g' nm v' H. induction H as [|[k v] [k' v0] l l' [Hk Hv] Hrest IH]; intros Hin; [destruct Hin|].
  cbn [fst snd] in *. subst k'. destruct Hin as [Hin|Hin].
  - injection Hin as -> ->. exists v. split; [left; reflexivity | exact Hv].
  - destruct (IH Hin) as [v1 [H1 H2]]. exists v1. split; [right; exact H1 | exact H2].
Qed.

Lemma gext_in_l : forall N g g' nm v,
    gext N g g' -> In (nm, v) g -> exists v', In (nm, v') g' /\ vext N v v'.
Proof.
  intros N g g' nm v H. induction H as [|[k v0] [k' v'] l l' [Hk Hv] Hrest IH]; intros Hin; [destruct Hin|].
  cbn [fst snd] in *. subst k'. destruct Hin as [Hin|Hin].
  - injection Hin as -> ->. exists v'. split; [left; reflexivity | exact Hv].
  - destruct (IH Hin) as [v1 [H1 H2]]. exists v1. split; [right; exact H1 | exact H2].
Qed.

Lemma vext_loc : forall N v v', vext N v v' -> v_loc v' = v_loc v.
Proof. intros N [l f s p g r e] v' [extra [-> _]]. reflexivity. Qed.
Lemma vext_func : forall N v v', vext N v v' -> v_func v' = v_func v.
Proof. intros N [l f s p g r e] v' [extra [-> _]]. reflexivity. Qed.
Lemma vext_sub : forall N v v', vext N v v' -> exists extra, v_sub v' = v_sub v ++ extra /\ Forall (fun m => In m N) extra.
Proof. intros N [l f s p g r e] v' [extra [-> H]]. exists extra. split; [reflexivity | exact H]. Qed.
