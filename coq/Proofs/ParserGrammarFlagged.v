(* C03, diagnostics level: a file gets no syntax diagnostic at all (no lexical error, no parse error, no 31-error
   abort) exactly when its token stream is a Chunk of the grammar and no token carries a lexical error. *)
From Coq Require Import List NArith ZArith Bool Arith Lia.
From LH Require Import Base.Bytes Base.Res Model.Lexer Model.Ast Model.Parser Model.LuaFront Spec.LuaGrammar.
From LH Require Import Proofs.ParserGrammarBase Proofs.ParserGrammarMono Proofs.ParserGrammarSoundBase
     Proofs.ParserGrammarCompleteTop Proofs.ParserGrammarSoundMain Proofs.ParserGrammarLexIllegal.
From LH Require Import Proofs.LexerTotalWf Proofs.LexerTotalMain Proofs.ParserTotalMain.
Import ListNotations.

Section Flagged.
  Variable classify : list N -> numcls.

  (* when no parse error is reported, every token was consumed: the lexical errors returned are all of them *)
  Lemma parse_tokens_lexerrs fuel ts b le :
    wfl ts -> parse_tokens classify fuel ts = Ok (PR b le []) -> le = flat_map lerrs ts.
  Proof.
    intros W H. unfold parse_tokens in H.
    destruct (p_block_loc classify fuel (init_pst ts)) as [[b0 st1]|k|] eqn:E; try discriminate.
    destruct (Nat.leb 31 _); [discriminate|]. injection H as _ Hl Hp.
    destruct (mono_all classify fuel) as (_ & M2 & _). destruct (M2 _ _ _ E) as (_ & Hlex & Hw).
    specialize (Hw W). destruct (wfl_hd _ Hw) as (t & r & Er).
    unfold expect in Hp, Hl. rewrite (now_kind_next _ _ _ Er) in Hp, Hl.
    destruct (tk_eqb (kd t) TkEOF) eqn:K.
    - apply tk_eqb_eq in K. rewrite Er in Hw. inversion Hw; subst; [|congruence].
      pose proof (lex_total_next st1) as X. rewrite Hlex in X. unfold lex_total in X.
      rewrite (rest_next_last _ _ Er) in X. cbn in X. rewrite app_nil_r in X. congruence.
    - unfold err in Hp. cbn [perrs] in Hp. destruct (perrs (next st1)); discriminate.
  Qed.

  Theorem parse_tokens_clean_sound fuel ts b :
    wfl ts -> Forall ill_err ts -> parse_tokens classify fuel ts = Ok (PR b [] []) ->
    Chunk classify ts /\ flat_map lerrs ts = [].
  Proof.
    intros W Q H. pose proof (parse_tokens_lexerrs _ _ _ _ W H) as E. symmetry in E. split; [|exact E].
    eapply parse_tokens_sound; [|exact H]. unfold tokens_ok. apply andb_true_iff. split.
    - apply ends_eof_wfl. exact W.
    - apply no_lexerr_no_illegal; assumption.
  Qed.

  Variable gbk_runes : list N -> Z.

  Theorem flagged_iff bs ts r :
    lex_all gbk_runes bs = Ok ts -> parse_bytes gbk_runes classify bs = Ok r ->
    (flagged r = false <-> Chunk classify (parser_view ts) /\ flat_map lerrs (parser_view ts) = []).
  Proof.
    intros E H. pose proof H as H0. unfold parse_bytes in H. rewrite E in H. cbn [rbind] in H. cbv zeta in H.
    assert (W : wfl (parser_view ts)).
    { apply wf_tokens_wfl'. apply parser_view_wf. eapply lex_all_wf. exact E. }
    assert (Q : Forall ill_err (parser_view ts)).
    { apply parser_view_illegal. eapply lex_all_illegal. exact E. }
    split.
    - intros F. destruct r as [b le pe|]; [|discriminate]. cbn [flagged] in F.
      destruct le; [|discriminate]. destruct pe; [|discriminate].
      eapply parse_tokens_clean_sound; eauto.
    - intros [HC HL]. destruct (parse_tokens_complete classify _ HC) as (r' & E' & R).
      rewrite E' in H. injection H as <-. unfold chunk_result in R. rewrite HL in R. cbn in R.
      destruct R as [b ->]. reflexivity.
  Qed.
End Flagged.
