(* C20 - whole files: for the repaired code the published reports of a file are exactly the places the patterns demand,
   on every file that passes the boolean guard [file_guard_b]:
     - no comparison whose operands are the same but have no internal name (the remaining deviation of check 14),
     - no local declaration with two or more surplus values (unless C20-local-surplus is in),
     - the sanity of an error-free parse: operands of binary operators / conditions are no BadExpr and carry a Loc,
       assignment targets are names or table accesses.
   On the way: the executable patterns (spec_binop, spec_table, spec_params, spec_if, spec_assign, spec_local of
   Spec/PatternSpec.v, the `spec` column of the correspondence leg) agree with the declarative ones (Pattern5 ... 21). *)
From Coq Require Import List NArith ZArith Bool Arith Lia ZifyN ZifyNat ZifyBool.
From LH Require Import Base.Bytes Base.Res Model.Lexer Model.Ast Model.Parser Model.LuaFront Spec.PatternSpec
  Model.Patterns Proofs.PatternsLocal Proofs.PatternsCompExp Proofs.PatternsTree Proofs.PatternsClasses
  Proofs.PatternsGuarded Proofs.PatternsKeys.
Import ListNotations.
Local Open Scope N_scope.

(* ------------------------------------------------------------------ the guard: file_guard_b (PatternsClasses.v) *)
(* every repair but C20-local-surplus (which the guard makes up for) *)
Definition repaired (fx : fixes) : Prop :=
  fx_else fx = true /\ fx_nil_loc fx = true /\ fx_parens fx = true /\ fx_str_key fx = true /\ fx_int_key fx = true /\
  fx_name14 fx = true.

Lemma real_loc_b_iff e : real_loc_b e = true <-> real_loc e.
Proof.
  unfold real_loc_b, real_loc. rewrite andb_true_iff, !negb_true_iff. split; intros [H1 H2]; split; auto.
  - intros Hc. apply loc_eqb_eq in Hc. congruence.
  - destruct (loc_eqb (exp_loc e) zero_loc) eqn:E; auto. apply loc_eqb_eq in E. contradiction.
Qed.

(* ------------------------------------------------------------------ membership in the executable patterns *)
Lemma in_if {A} (c : bool) (x y : A) : In x (if c then [y] else []) <-> c = true /\ x = y.
Proof. destruct c; cbn; split; try tauto; intros H; intuition; try discriminate; auto. Qed.

Lemma is_true_b_iff e : is_true_b e = true <-> IsTrue e.
Proof. exact (is_true_iff e). Qed.
Lemma is_false_b_iff e : is_false_b e = true <-> IsFalse e.
Proof. exact (is_false_iff e). Qed.
Lemma is_float_b_iff e : is_float_b e = true <-> IsFloat e.
Proof. exact (is_float_iff e). Qed.
Lemma cmp_op_b_iff op : cmp_op_b op = true <-> CmpOp op.
Proof.
  unfold cmp_op_b, CmpOp. rewrite existsb_exists. split.
  - intros [x [Hx He]]. apply tk_eqb_eq in He. subst. exact Hx.
  - intros H. exists op. split; auto. apply tk_eqb_eq. reflexivity.
Qed.
Lemma one_value_b_iff e : one_value_b e = true <-> OneValue e.
Proof. exact (one_value_iff e). Qed.
Lemma forallb_one_value_b es : forallb one_value_b es = true <-> Forall OneValue es.
Proof. exact (forallb_one_value es). Qed.

(* 13 *)
Lemma spec_params_iff ps seen ty L :
  In (ty, L) (spec_params ps seen)
  <-> ty = 13 /\ exists j x, nth_error ps j = Some (x, L) /\ x <> [95] /\
                 (In x seen \/ exists i li, (i < j)%nat /\ nth_error ps i = Some (x, li)).
Proof.
  revert seen; induction ps as [|[x l] r IH]; intros seen; cbn [spec_params].
  - split; [intros []|intros [_ [j [y [H _]]]]; destruct j; discriminate].
  - rewrite in_app_iff, in_if, IH, andb_true_iff, negb_true_iff, existsb_exists. split.
    + intros [[[Hu [y [Hy Hb]]] E]|[-> [j [y [Hj [Hy Hor]]]]]].
      * inversion E; subst. apply beq_bytes_eq in Hb. subst y. split; auto. exists O, x. split; auto.
        split; [intros Hc; subst; cbn in Hu; discriminate|]. left. exact Hy.
      * split; auto. exists (S j), y. split; auto. split; auto.
        destruct Hor as [[Hs|Hs]|[i [li [Hlt Hi]]]].
        -- subst y. right. exists O, l. split; [lia|reflexivity].
        -- left. exact Hs.
        -- right. exists (S i), li. split; [lia|exact Hi].
    + intros [-> [[|j] [y [Hj [Hy Hor]]]]]; cbn [nth_error] in Hj.
      * inversion Hj; subst. left. split; auto. split.
        -- destruct (beq_bytes y [95]) eqn:E; auto. apply beq_bytes_eq in E. contradiction.
        -- destruct Hor as [Hs|[i [li [Hlt _]]]]; [|lia]. exists y. split; auto. apply beq_bytes_eq. reflexivity.
      * right. split; auto. exists j, y. split; auto. split; auto.
        destruct Hor as [Hs|[[|i] [li [Hlt Hi]]]]; cbn [nth_error] in *.
        -- left. right. exact Hs.
        -- inversion Hi; subst. left. left. reflexivity.
        -- right. exists i, li. split; [lia|exact Hi].
Qed.


Section SpecExec.
  Variable fclose : list N -> list N -> bool.

  Lemma spec_binop_iff op a b l ty L :
    In (ty, L) (spec_binop fclose op a b l)
    <-> (ty = 15 /\ Pattern15 op a b /\ L = span (exp_loc a) (exp_loc b))
        \/ (ty = 16 /\ Pattern16 op a b /\ L = span (exp_loc a) (exp_loc b))
        \/ (ty = 21 /\ Pattern21 op a b /\ L = l)
        \/ (ty = 14 /\ Pattern14 fclose op a b /\ L = span (exp_loc a) (exp_loc b)).
  Proof.
    unfold spec_binop, Pattern15, Pattern16, Pattern21, Pattern14. cbv zeta.
    rewrite !in_app_iff, !in_if, !andb_true_iff, !orb_true_iff, !tk_eqb_eq, !is_true_b_iff, !is_false_b_iff,
      !is_float_b_iff, cmp_op_b_iff, same_b_iff.
    split.
    - intros [[H E]|[[H E]|[[H E]|[H E]]]]; inversion E; subst; tauto.
    - intros [[-> [H ->]]|[[-> [H ->]]|[[-> [H ->]]|[-> [H ->]]]]]; tauto.
  Qed.

  Lemma all2_Forall2 {A B} (f : A -> B -> bool) l1 l2 :
    all2 f l1 l2 = true <-> Forall2 (fun x y => f x y = true) l1 l2.
  Proof.
    revert l2; induction l1 as [|x r IH]; intros [|y s]; cbn; split; intros H; try discriminate; try constructor;
      try solve [inversion H].
    - apply andb_true_iff in H; tauto.
    - apply IH. apply andb_true_iff in H; tauto.
    - inversion H; subst. apply andb_true_iff; split; auto. apply IH; auto.
  Qed.

  Lemma Forall2_iff {A B} (R S : A -> B -> Prop) l1 l2 :
    (forall x y, R x y <-> S x y) -> (Forall2 R l1 l2 <-> Forall2 S l1 l2).
  Proof.
    intros H. split; induction 1; constructor; auto; apply H; auto.
  Qed.

  Lemma spec_assign_iff vars es l ty L :
    In (ty, L) (spec_assign fclose vars es l)
    <-> (ty = 7 /\ Pattern7 vars es /\ L = l) \/ (ty = 20 /\ Pattern20 fclose vars es /\ L = l).
  Proof.
    unfold spec_assign, Pattern7, Pattern20. cbv zeta.
    rewrite in_app_iff, !in_if, orb_true_iff, andb_true_iff, !Nat.ltb_lt, forallb_one_value_b, all2_Forall2.
    rewrite (Forall2_iff _ (Same fclose) vars es (same_b_iff fclose)).
    split.
    - intros [[H E]|[H E]]; inversion E; subst; tauto.
    - intros [[-> [H ->]]|[-> [H ->]]]; tauto.
  Qed.

  Lemma spec_local_iff names es l ty L :
    In (ty, L) (spec_local names es l) <-> ty = 8 /\ Pattern8 names es /\ L = l.
  Proof.
    unfold spec_local, Pattern8. cbv zeta.
    rewrite in_if, orb_true_iff, !andb_true_iff, !Nat.ltb_lt, forallb_one_value_b.
    assert (Hne : (0 < length es)%nat <-> es <> []) by (destruct es; cbn; split; intros; try lia; congruence).
    rewrite Hne. split.
    - intros [H E]. inversion E; subst. tauto.
    - intros [-> [H ->]]. tauto.
  Qed.

  (* 19 *)
  Lemma spec_if_iff cs seen ty L :
    In (ty, L) (spec_if fclose cs seen)
    <-> ty = 19 /\ exists j c, nth_error cs j = Some c /\ L = exp_loc c /\
                   ((exists c', In c' seen /\ Same fclose c' c)
                    \/ exists i c', (i < j)%nat /\ nth_error cs i = Some c' /\ Same fclose c' c).
  Proof.
    revert seen; induction cs as [|x r IH]; intros seen; cbn [spec_if].
    - split; [intros []|intros [_ [j [y [H _]]]]; destruct j; discriminate].
    - rewrite in_app_iff, in_if, IH, existsb_exists. split.
      + intros [[[c' [Hc' Hs]] E]|[-> [j [c [Hj [HL Hor]]]]]].
        * inversion E; subst. apply same_b_iff in Hs. split; auto. exists O, x. split; auto. split; auto.
          left. exists c'. auto.
        * split; auto. exists (S j), c. split; auto. split; auto.
          destruct Hor as [[c' [[Hs|Hs] Hsame]]|[i [c' [Hlt [Hi Hsame]]]]].
          -- subst c'. right. exists O, x. split; [lia|]. split; [reflexivity|exact Hsame].
          -- left. exists c'. auto.
          -- right. exists (S i), c'. split; [lia|]. auto.
      + intros [-> [[|j] [c [Hj [HL Hor]]]]]; cbn [nth_error] in Hj.
        * inversion Hj; subst. left. split; auto.
          destruct Hor as [[c' [Hc' Hs]]|[i [c' [Hlt _]]]]; [|lia]. exists c'. split; auto. apply same_b_iff; auto.
        * right. split; auto. exists j, c. split; auto. split; auto.
          destruct Hor as [[c' [Hc' Hs]]|[[|i] [c' [Hlt [Hi Hs]]]]]; cbn [nth_error] in *.
          -- left. exists c'. split; [right; exact Hc'|exact Hs].
          -- inversion Hi; subst. left. exists c'. split; [left; reflexivity|exact Hs].
          -- right. exists i, c'. split; [lia|]. auto.
  Qed.

  Lemma spec_if_pattern cs ty L :
    In (ty, L) (spec_if fclose cs [])
    <-> ty = 19 /\ exists j c, Pattern19 fclose cs j /\ nth_error cs j = Some c /\ L = exp_loc c.
  Proof.
    rewrite spec_if_iff. unfold Pattern19. split.
    - intros [-> [j [c [Hj [HL [[c' [[] _]]|[i [c' [Hlt [Hi Hs]]]]]]]]]]. split; auto.
      exists j, c. split; [|auto]. exists c. split; auto. exists i, c'. auto.
    - intros [-> [j [c [[c0 [Hj0 [i [c' [Hlt [Hi Hs]]]]]] [Hj HL]]]]].
      assert (c0 = c) by congruence. subst c0. split; auto. exists j, c. split; auto. split; auto.
      right. exists i, c'. auto.
  Qed.

  (* 5 *)
  Lemma spec_table_iff ks seen ty L :
    In (ty, L) (spec_table ks seen)
    <-> ty = 5 /\ exists j ke nf, nth_error ks j = Some (Some ke) /\ key_nf (Some ke) = Some nf /\ L = exp_loc ke /\
                   (In nf seen \/ exists i k', (i < j)%nat /\ nth_error ks i = Some k' /\ key_nf k' = Some nf).
  Proof.
    revert seen; induction ks as [|k r IH]; intros seen; cbn [spec_table].
    - split; [intros []|intros [_ [j [ke [nf [H _]]]]]; destruct j; discriminate].
    - assert (Hskip : key_nf k = None ->
                (In (ty, L) (spec_table r seen) <->
                 ty = 5 /\ exists j ke nf, nth_error (k :: r) j = Some (Some ke) /\ key_nf (Some ke) = Some nf /\
                   L = exp_loc ke /\
                   (In nf seen \/ exists i k', (i < j)%nat /\ nth_error (k :: r) i = Some k' /\ key_nf k' = Some nf))).
      { intros Hk. rewrite IH. split.
        - intros [-> [j [ke [nf [Hj [Hnf [HL Hor]]]]]]]. split; auto. exists (S j), ke, nf. repeat split; auto.
          destruct Hor as [Hs|[i [k' [Hlt [Hi Hn]]]]]; auto. right. exists (S i), k'. repeat split; auto. lia.
        - intros [-> [[|j] [ke [nf [Hj [Hnf [HL Hor]]]]]]]; cbn [nth_error] in Hj.
          + inversion Hj; subst. congruence.
          + split; auto. exists j, ke, nf. repeat split; auto.
            destruct Hor as [Hs|[[|i] [k' [Hlt [Hi Hn]]]]]; cbn [nth_error] in *; auto.
            * inversion Hi; subst. congruence.
            * right. exists i, k'. repeat split; auto. lia. }
      destruct (key_nf k) as [nf0|] eqn:Ek; [|destruct k; apply Hskip; reflexivity].
      destruct k as [ke0|]; [|cbn in Ek; discriminate].
      destruct (existsb (keynf_eqb nf0) seen) eqn:Es.
      + apply existsb_exists in Es as [nf1 [Hin1 He1]]. apply keynf_eqb_eq in He1. subst nf1.
        cbn [In]. rewrite IH. split.
        * intros [E|[-> [j [ke [nf [Hj [Hnf [HL Hor]]]]]]]].
          -- inversion E; subst. split; auto. exists O, ke0, nf0. repeat split; auto.
          -- split; auto. exists (S j), ke, nf. repeat split; auto.
             destruct Hor as [Hs|[i [k' [Hlt [Hi Hn]]]]]; auto. right. exists (S i), k'. repeat split; auto. lia.
        * intros [-> [[|j] [ke [nf [Hj [Hnf [HL Hor]]]]]]]; cbn [nth_error] in Hj.
          -- inversion Hj; subst. left. reflexivity.
          -- right. split; auto. exists j, ke, nf. repeat split; auto.
             destruct Hor as [Hs|[[|i] [k' [Hlt [Hi Hn]]]]]; cbn [nth_error] in *; auto.
             ++ inversion Hi; subst. left. congruence.
             ++ right. exists i, k'. repeat split; auto. lia.
      + assert (Hnin : ~ In nf0 seen).
        { intros Hin. assert (existsb (keynf_eqb nf0) seen = true); [|congruence].
          apply existsb_exists. exists nf0. split; auto. apply keynf_eqb_eq. reflexivity. }
        rewrite IH. split.
        * intros [-> [j [ke [nf [Hj [Hnf [HL Hor]]]]]]]. split; auto. exists (S j), ke, nf. repeat split; auto.
          destruct Hor as [[Hs|Hs]|[i [k' [Hlt [Hi Hn]]]]].
          -- subst nf. right. exists O, (Some ke0). repeat split; auto. lia.
          -- left. exact Hs.
          -- right. exists (S i), k'. repeat split; auto. lia.
        * intros [-> [[|j] [ke [nf [Hj [Hnf [HL Hor]]]]]]]; cbn [nth_error] in Hj.
          -- inversion Hj; subst. rewrite Ek in Hnf. inversion Hnf; subst.
             destruct Hor as [Hs|[i [k' [Hlt _]]]]; [contradiction|lia].
          -- split; auto. exists j, ke, nf. repeat split; auto.
             destruct Hor as [Hs|[[|i] [k' [Hlt [Hi Hn]]]]]; cbn [nth_error] in *.
             ++ left. right. exact Hs.
             ++ inversion Hi; subst. left. left. congruence.
             ++ right. exists i, k'. repeat split; auto. lia.
  Qed.

  Lemma spec_table_pattern ks ty L :
    In (ty, L) (spec_table ks [])
    <-> ty = 5 /\ exists j ke, Pattern5 ks j /\ nth_error ks j = Some (Some ke) /\ L = exp_loc ke.
  Proof.
    rewrite spec_table_iff. unfold Pattern5. split.
    - intros [-> [j [ke [nf [Hj [Hnf [HL [[]|[i [k' [Hlt [Hi Hn]]]]]]]]]]]]. split; auto.
      exists j, ke. split; [|auto]. exists (Some ke), nf. split; auto. split; auto. exists i, k'. auto.
    - intros [-> [j [ke [[k [nf [Hj0 [Hnf [i [k' [Hlt [Hi Hn]]]]]]]] [Hj HL]]]]].
      assert (k = Some ke) by congruence. subst k. split; auto. exists j, ke, nf. repeat split; auto.
      right. exists i, k'. auto.
  Qed.
End SpecExec.

(* ------------------------------------------------------------------ the types a check reports *)
Lemma binop_checks_types fx fclose op a b l r :
  In r (binop_checks fx fclose op a b l) -> r_ty r = 15 \/ r_ty r = 16 \/ r_ty r = 21 \/ r_ty r = 14.
Proof.
  unfold binop_checks. rewrite !in_app_iff. intros [H|[H|[H|H]]].
  - left. eapply check15_types; eauto.
  - right; left. eapply check16_types; eauto.
  - right; right; left. eapply check21_types; eauto.
  - right; right; right. eapply check14_types; eauto.
Qed.

Lemma assign_checks_types fx fclose vars es l r :
  In r (assign_checks fx fclose vars es l) -> r_ty r = 7 \/ r_ty r = 20.
Proof.
  unfold assign_checks. destruct (Nat.ltb _ _); [intros [<-|[]]; auto|].
  destruct (Nat.ltb _ _).
  - destruct (forallb _ _); [intros [<-|[]]; auto|intros []].
  - destruct (forallb2 _ _ _); [intros [<-|[]]; auto|intros []].
Qed.

Lemma local_checks_types names es l r : In r (local_checks names es l) -> r_ty r = 8.
Proof.
  unfold local_checks. destruct (Nat.ltb _ _); [intros [<-|[]]; auto|].
  destruct (_ && _); [intros [<-|[]]; auto|intros []].
Qed.

Lemma if_checks_types fx fclose es ty L : reported ty L (if_checks fx fclose es) -> ty = 19.
Proof.
  induction es as [|x r IH]; cbn [if_checks].
  - intros H. exfalso. eapply reported_nil; eauto.
  - rewrite reported_app. intros [H|H]; auto. apply if_later_iff in H. tauto.
Qed.

(* ------------------------------------------------------------------ one node: the checks = the pattern *)
Section Node.
  Variable fx : fixes.
  Variable fclose : list N -> list N -> bool.
  Variable elses : list loc.
  Hypothesis Hrep : repaired fx.

  Lemma node_exact n ty L :
    node_guard_b fx fclose n = true ->
    (reported ty L (local fx fclose elses n) <-> In (ty, L) (spec_node fclose elses n)).
  Proof.
    destruct Hrep as [Helse [Hnil [Hpar [Hstr [Hint H14]]]]].
    intros Hg. unfold local.
    destruct n as [e|s|b0].
    - destruct e; cbn [local_pre local_post spec_node app];
        try (split; [intros H; exfalso; eapply reported_nil; eauto|intros []]).
      + (* binary operator *)
        cbn [node_guard_b] in Hg. apply andb_true_iff in Hg as [Hg Hn]. apply andb_true_iff in Hg as [G1 G2].
        apply real_loc_b_iff in G1. apply real_loc_b_iff in G2.
        pose proof (proj2 (located_fixed fx e1 Hnil) G1) as L1. pose proof (proj2 (located_fixed fx e2 Hnil) G2) as L2.
        rewrite spec_binop_iff. split.
        * intros Hr. assert (Hty : ty = 15 \/ ty = 16 \/ ty = 21 \/ ty = 14).
          { destruct Hr as [r [Hin [Ht _]]]. rewrite <- Ht. eapply binop_checks_types; eauto. }
          destruct Hty as [-> | [-> | [-> | ->]]].
          -- left. split; auto. apply (t15_iff_fixed fx fclose op e1 e2 l L Hnil G1 G2). exact Hr.
          -- right; left. split; auto. apply (t16_iff_fixed fx fclose op e1 e2 l L Hnil G1 G2). exact Hr.
          -- right; right; left. split; auto. apply (t21_iff fx fclose op e1 e2 l L). exact Hr.
          -- right; right; right. split; auto.
             apply (t14_iff_fixed fx fclose op e1 e2 l L Hpar H14 L1 L2) in Hr. tauto.
        * intros [[-> H]|[[-> H]|[[-> H]|[-> H]]]].
          -- apply (t15_iff_fixed fx fclose op e1 e2 l L Hnil G1 G2). exact H.
          -- apply (t16_iff_fixed fx fclose op e1 e2 l L Hnil G1 G2). exact H.
          -- apply (t21_iff fx fclose op e1 e2 l L). exact H.
          -- apply (t14_iff_fixed fx fclose op e1 e2 l L Hpar H14 L1 L2). destruct H as [HP HL].
             split; auto. split; auto.
             apply orb_true_iff in Hn as [Hn|Hn]; [|apply negb_true_iff in Hn; exact Hn].
             exfalso. apply negb_true_iff in Hn. apply andb_false_iff in Hn. destruct HP as [Hop Hs].
             destruct Hn as [Hn|Hn].
             ++ apply cmp_op_iff in Hop. congruence.
             ++ apply same_b_iff in Hs. congruence.
      + (* table constructor *)
        rewrite spec_table_pattern. split.
        * intros Hr. assert (Hty : ty = 5) by (apply table_checks_iff in Hr; tauto). subst ty. split; auto.
          apply (proj1 (t5_iff_fixed fx Hstr Hint ks l L)). exact Hr.
        * intros [-> H]. apply (proj2 (t5_iff_fixed fx Hstr Hint ks l L)). exact H.
      + (* function: parameters *)
        rewrite app_nil_r. unfold param_checks. rewrite param_pairs_iff, spec_params_iff. split.
        * intros [-> [i [j [x [li [Hlt [Hi [Hj Hx]]]]]]]]. split; auto. exists j, x. repeat split; auto.
          right. exists i, li. auto.
        * intros [-> [j [x [Hj [Hx [[]|[i [li [Hlt Hi]]]]]]]]]. split; auto. exists i, j, x, li. auto.
    - destruct s; cbn [local_pre local_post spec_node app];
        try (split; [intros H; exfalso; eapply reported_nil; eauto|intros []]).
      + (* if *)
        rewrite app_nil_r. cbn [node_guard_b] in Hg.
        assert (Hb : Forall (fun c => is_bad c = false) es).
        { apply Forall_forall. intros c Hc. rewrite forallb_forall in Hg. specialize (Hg c Hc).
          apply negb_true_iff in Hg. exact Hg. }
        rewrite spec_if_pattern. split.
        * intros Hr. assert (Hty : ty = 19) by (eapply if_checks_types; exact Hr). subst ty. split; auto.
          apply (t19_node_fixed fx fclose elses es bs l L Helse Hpar Hnil Hb). exact Hr.
        * intros [-> H]. apply (t19_node_fixed fx fclose elses es bs l L Helse Hpar Hnil Hb). exact H.
      + (* assignment *)
        rewrite spec_assign_iff. split.
        * intros Hr. assert (Hty : ty = 7 \/ ty = 20).
          { destruct Hr as [r [Hin [Ht _]]]. rewrite <- Ht. eapply assign_checks_types; eauto. }
          destruct Hty as [-> | ->].
          -- left. split; auto. apply (t7_iff fx fclose). exact Hr.
          -- right. split; auto. apply (t20_iff_fixed fx fclose vars es l L Hpar). exact Hr.
        * intros [[-> H]|[-> H]].
          -- apply (t7_iff fx fclose). exact H.
          -- apply (t20_iff_fixed fx fclose vars es l L Hpar). exact H.
      + (* local declaration *)
        rewrite app_nil_r, spec_local_iff. split.
        * intros Hr. assert (Hty : ty = 8).
          { destruct Hr as [r [Hin [Ht _]]]. rewrite <- Ht. eapply local_checks_types; eauto. }
          subst ty. split; auto. apply t8_iff. exact Hr.
        * intros [-> H]. apply t8_iff. exact H.
    - cbn [local_pre local_post spec_node app]. split; [intros H; exfalso; eapply reported_nil; eauto|intros []].
  Qed.
End Node.

(* ------------------------------------------------------------------ the whole file *)
Section File.
  Variable fx : fixes.
  Variable fclose : list N -> list N -> bool.
  Variable elses : list loc.
  Hypothesis Hrep : repaired fx.

  Lemma guard_nodes b : file_guard_b fx fclose b = true ->
    forall m, within children_all (NB b) m -> node_guard_b fx fclose m = true.
  Proof.
    unfold file_guard_b. rewrite forallb_forall. intros H m Hm. apply H. apply subnodes_iff; auto.
  Qed.

  Lemma guard_traversal b : file_guard_b fx fclose b = true -> traversal_ok fx (NB b).
  Proof.
    intros Hg m Hm. pose proof (guard_nodes b Hg m Hm) as Hn.
    destruct m as [e|s|b0]; cbn; auto. destruct s; cbn; auto.
    - cbn [node_guard_b] in Hn. rewrite forallb_forall in Hn. apply Forall_forall. intros v Hv.
      specialize (Hn v Hv). destruct v; cbn in Hn; try discriminate; exact I.
    - cbn [node_guard_b] in Hn. apply orb_true_iff in Hn as [Hn|Hn]; [left; exact Hn|right].
      apply Nat.leb_le in Hn. exact Hn.
  Qed.

  Lemma spec_node_not_target m p : In p (spec_node fclose elses m) -> ~ target_shape m.
  Proof. destruct m as [e|s|b0]; try (intros _ []; fail). destruct e; cbn; auto. Qed.

  (* the published reports of a file = the places the patterns demand *)
  Theorem file_exact b ty L :
    file_guard_b fx fclose b = true ->
    (reported ty L (run_block fx fclose elses b) <-> In (ty, L) (demanded fclose elses b)).
  Proof.
    intros Hg. rewrite demanded_iff. split.
    - intros [r [Hin [Ht HL]]]. apply run_block_iff in Hin as [m [Hw Hm]].
      apply within_vis_all in Hw. exists m. split; auto.
      apply (node_exact fx fclose elses Hrep m ty L (guard_nodes b Hg m Hw)). exists r. auto.
    - intros [m [Hw Hm]].
      pose proof (visited_complete fx (NB b) m (guard_traversal b Hg) Hw (spec_node_not_target m _ Hm)) as Hv.
      apply (node_exact fx fclose elses Hrep m ty L (guard_nodes b Hg m Hw)) in Hm.
      destruct Hm as [r [Hin Hr]]. exists r. split; auto. apply run_block_iff. exists m. auto.
  Qed.
End File.

(* the same, for the outcome the correspondence driver computes from the bytes of a file *)
Theorem check_bytes_exact fx fclose gbk classify bs o :
  repaired fx ->
  check_bytes fx fclose gbk classify bs = Ok o -> o_guard o = true ->
  forall ty L, reported ty L (o_model o) <-> In (ty, L) (o_spec o).
Proof.
  intros Hrep Hc Hg ty L. unfold check_bytes in Hc.
  destruct (lex_all gbk bs) as [ts| |]; cbn [rbind] in Hc; try discriminate.
  destruct (parse_tokens classify (fuel_of_tokens (parser_view ts)) (parser_view ts)) as [[b le pe|]| |];
    cbn [rbind] in Hc; try discriminate; inversion Hc; subst o; cbn [o_model o_spec o_guard] in *.
  - apply file_exact; auto.
  - split; [intros H; exfalso; eapply reported_nil; eauto|intros []].
Qed.
