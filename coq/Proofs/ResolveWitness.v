(* Binder family: full statements, and the lemmas that turn a boolean check on one parsed program into a refutation
   of a full statement (the witnesses themselves are in Properties/C05.v ... C14.v, by vm_compute). *)
From Coq Require Import List NArith ZArith Bool Lia.
From LH Require Import Base.Bytes Base.Res Model.Lexer Model.Ast Model.Scope Model.Globals Model.Resolve Spec.LuaScope
  Proofs.ResolveRun.
Import ListNotations.
Local Open Scope Z_scope.

(* C05, local part: at every cursor of an occurrence that Lua binds to a local declaration, the position resolver
   returns that declaration *)
Definition define_local_at (guard : socc -> bool) (P : block) : Prop :=
  forall o, In o (bind_file P) -> guard o = true ->
  forall d, s_bind o = BLocal d ->
  forall col, sc (s_loc o) <= col <= ec (s_loc o) ->
  resolve_local P (s_name o) (sl (s_loc o)) col = Some d.

Definition C05_define_local_full_stmt : Prop :=
  forall P, in_fragment P = true -> Laid P -> define_local_at (fun _ => true) P.
Definition C05_define_local_partial_stmt : Prop :=
  forall P, in_fragment P = true -> Laid P -> define_local_at classB_ok P.

(* boolean witness: some occurrence bound to local d whose start cursor resolves elsewhere *)
Definition loc_opt_eqb (a : option loc) (d : loc) : bool := match a with Some x => loc_eqb x d | None => false end.
Definition deviates_at_start (P : block) (o : socc) : bool :=
  match s_bind o with
  | BLocal d => negb (loc_opt_eqb (resolve_local P (s_name o) (sl (s_loc o)) (sc (s_loc o))) d)
                && (sc (s_loc o) <=? ec (s_loc o))
  | BGlobal _ => false
  end.
Definition has_deviation (tag : ctag) (P : block) : bool :=
  existsb (fun o => has_tag tag o && deviates_at_start P o) (bind_file P).

Lemma loc_eqb_refl l : loc_eqb l l = true.
Proof. unfold loc_eqb. rewrite !Z.eqb_refl. reflexivity. Qed.

Lemma full_refuted_by P W tag :
  in_fragment P = true -> laid_b W P = true -> has_deviation tag P = true -> ~ C05_define_local_full_stmt.
Proof.
  intros Hf Hl Hd Hfull.
  unfold has_deviation in Hd. apply existsb_exists in Hd. destruct Hd as [o [Hin Ho]].
  apply andb_true_iff in Ho. destruct Ho as [_ Ho].
  unfold deviates_at_start in Ho. destruct (s_bind o) as [d|n] eqn:Hb; [|discriminate].
  apply andb_true_iff in Ho. destruct Ho as [Hne Hle].
  assert (HL : Laid P) by (exists W; exact Hl).
  specialize (Hfull P Hf HL o Hin eq_refl d Hb (sc (s_loc o))).
  rewrite Hfull in Hne; [| apply Z.leb_le in Hle; lia ].
  cbn in Hne. rewrite loc_eqb_refl in Hne. discriminate.
Qed.

(* the parsed chunk of a source text (empty chunk when the text has a syntax error) *)
Definition chunk_of (bs : list N) : block :=
  match parse_ok bs with Some b => b | None => Block [] None zero_loc end.

(* non-vacuity of the guard: every occurrence of the chunk is untagged *)
Definition all_class_ok (P : block) : bool := forallb classB_ok (bind_file P).
