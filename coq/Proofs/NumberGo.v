(* Lemmas about the Go-library part of Model/Number.v (strings, strconv) on clean lower-case text. *)
From Coq Require Import List NArith ZArith Bool Lia ZifyN ZifyNat ZifyBool.
From LH Require Import Base.Bytes Base.Res Model.Number Spec.LuaNumeral Proofs.NumberSpecProofs.
Import ListNotations.
Local Open Scope N_scope.
Ltac Zify.zify_post_hook ::= Z.to_euclidean_division_equations.

(* the model and the spec use the same character classes and the same span *)
Lemma span_fn : span = num_span. Proof. reflexivity. Qed.
Lemma is_digit_fn : is_digit = num_digit. Proof. reflexivity. Qed.
Lemma is_hex_fn : is_hex_lc = num_hexdigit. Proof. reflexivity. Qed.
Lemma lower_fn : lower_byte = num_lc. Proof. reflexivity. Qed.
Lemma nonempty_fn : nonempty = num_nonempty. Proof. reflexivity. Qed.
Lemma wrap64_fn : wrap64 = int64_of. Proof. reflexivity. Qed.

(* go_lower is Go's `c | 0x20` on bytes *)
Lemma go_lower_is_lor : forall c, c < 256 -> go_lower c = N.lor c 32.
Proof.
  assert (H : forallb (fun c => go_lower c =? N.lor c 32) (nrange_nat 256) = true) by (vm_compute; reflexivity).
  intros c Hc. rewrite forallb_forall in H. apply N.eqb_eq. apply H. apply nrange_nat_in. exact Hc.
Qed.

(* ---------- lengths, indexing, slicing ---------- *)
Lemma len_app a b : len (a ++ b) = (len a + len b)%Z.
Proof. unfold len. rewrite app_length. lia. Qed.
Lemma len_cons c a : len (c :: a) = (len a + 1)%Z.
Proof. unfold len. cbn [length]. lia. Qed.
Lemma len_nil : len [] = 0%Z.
Proof. reflexivity. Qed.
Lemma len_nonneg a : (0 <= len a)%Z.
Proof. unfold len. lia. Qed.
Lemma len_map f a : len (map f a) = len a.
Proof. unfold len. rewrite map_length. reflexivity. Qed.

Lemma idx_nth s i : (0 <= i < len s)%Z -> idx s i = Ok (nth (Z.to_nat i) s 0).
Proof.
  intros H. unfold idx. destruct ((i <? 0)%Z || (len s <=? i)%Z) eqn:E; [lia|].
  destruct (nth_error s (Z.to_nat i)) eqn:En.
  - f_equal. symmetry. apply nth_error_nth. exact En.
  - apply nth_error_None in En. unfold len in H. lia.
Qed.
Lemma idx_fault s i : (i < 0 \/ len s <= i)%Z -> idx s i = Fault IndexRange.
Proof. intros H. unfold idx. destruct ((i <? 0)%Z || (len s <=? i)%Z) eqn:E; [reflexivity|lia]. Qed.
Lemma idx_0 c r : idx (c :: r) 0 = Ok c.
Proof. rewrite idx_nth; [reflexivity|]. rewrite len_cons. pose proof (len_nonneg r). lia. Qed.
Lemma idx_1 c d r : idx (c :: d :: r) 1 = Ok d.
Proof. rewrite idx_nth; [reflexivity|]. rewrite !len_cons. pose proof (len_nonneg r). lia. Qed.
Lemma idx_app_r a c r : idx (a ++ c :: r) (len a) = Ok c.
Proof.
  rewrite idx_nth.
  - unfold len. rewrite Nat2Z.id. rewrite app_nth2 by lia. rewrite Nat.sub_diag. reflexivity.
  - rewrite len_app, len_cons. pose proof (len_nonneg a). pose proof (len_nonneg r). lia.
Qed.

Lemma slice_from_app a b : slice_from (a ++ b) (len a) = Ok b.
Proof.
  unfold slice_from, slice. rewrite len_app.
  pose proof (len_nonneg a). pose proof (len_nonneg b).
  destruct ((len a <? 0)%Z || (len a + len b <? len a)%Z || (len a + len b <? len a + len b)%Z) eqn:E; [lia|].
  f_equal. replace (len a + len b - len a)%Z with (len b) by lia. unfold len. rewrite !Nat2Z.id.
  rewrite skipn_app, skipn_all, Nat.sub_diag. cbn [app skipn]. apply firstn_all.
Qed.
Lemma slice_from_0 s : slice_from s 0 = Ok s.
Proof. exact (slice_from_app [] s). Qed.
Lemma slice_from_1 c r : slice_from (c :: r) 1 = Ok r.
Proof. exact (slice_from_app [c] r). Qed.
Lemma slice_from_2 c d r : slice_from (c :: d :: r) 2 = Ok r.
Proof. exact (slice_from_app [c; d] r). Qed.
Lemma slice_prefix a b : slice (a ++ b) 0 (len a) = Ok a.
Proof.
  unfold slice. rewrite len_app. pose proof (len_nonneg a). pose proof (len_nonneg b).
  destruct ((0 <? 0)%Z || (len a <? 0)%Z || (len a + len b <? len a)%Z) eqn:E; [lia|].
  f_equal. rewrite Z.sub_0_r. unfold len. rewrite Nat2Z.id. cbn [Z.to_nat skipn].
  rewrite firstn_app, firstn_all, Nat.sub_diag. cbn [firstn]. apply app_nil_r.
Qed.

(* ---------- span ---------- *)
Lemma span_spec p s a r : span p s = (a, r) -> s = a ++ r /\ forallb p a = true /\ stops p r.
Proof. rewrite span_fn. apply num_span_spec. Qed.
Lemma span_app p a r : forallb p a = true -> stops p r -> span p (a ++ r) = (a, r).
Proof. rewrite span_fn. apply num_span_app. Qed.
Lemma span_all p s : forallb p s = true -> span p s = (s, []).
Proof. intros H. rewrite <- (app_nil_r s) at 1. apply span_app; [exact H|exact I]. Qed.
Lemma span_snd_nil p s : snd (span p s) = [] <-> forallb p s = true.
Proof.
  destruct (span p s) as [a r] eqn:E. destruct (span_spec _ _ _ _ E) as (-> & Ha & Hr). cbn [snd]. split.
  - intros ->. rewrite app_nil_r. exact Ha.
  - intros H. destruct r as [|c r]; [reflexivity|]. apply forallb_app_iff in H as [_ H]. cbn in H, Hr.
    rewrite Hr in H. discriminate.
Qed.

Lemma first_fail_span p s : forall i,
  first_fail p s i = let (a, r) := span p s in match r with [] => None | _ => Some (i + len a)%Z end.
Proof.
  induction s as [|c s IH]; intros i; cbn [first_fail span]; [reflexivity|].
  destruct (p c) eqn:Hc.
  - rewrite IH. destruct (span p s) as [a r]. destruct r; [reflexivity|]. rewrite len_cons. f_equal. lia.
  - rewrite len_nil. f_equal. lia.
Qed.

(* ---------- has_prefix / contains ---------- *)
Lemma has_prefix_incl p : forall s, has_prefix p s = true -> incl p s.
Proof.
  induction p as [|a p IH]; intros s H; [intros x []|].
  destruct s as [|b s]; [discriminate|]. cbn in H. apply andb_true_iff in H as [Hab H].
  apply N.eqb_eq in Hab. subst b. intros x [<-|Hx]; [left; reflexivity|right; exact (IH s H x Hx)].
Qed.
Lemma contains_incl p : forall s, contains p s = true -> incl p s.
Proof.
  induction s as [|b s IH]; cbn [contains]; intros H.
  - rewrite orb_false_r in H. apply has_prefix_incl. exact H.
  - apply orb_true_iff in H as [H|H]; [apply has_prefix_incl; exact H|].
    intros x Hx. right. exact (IH H x Hx).
Qed.
Lemma not_contains_if_missing p s c : In c p -> ~ In c s -> contains p s = false.
Proof.
  intros Hp Hs. destruct (contains p s) eqn:E; [|reflexivity]. exfalso. apply Hs. exact (contains_incl _ _ E c Hp).
Qed.
Lemma contains_prefix p s : has_prefix p s = true -> contains p s = true.
Proof. intros H. destruct s; cbn [contains]; rewrite H; reflexivity. Qed.
Lemma contains_cons p c s : contains p s = true -> contains p (c :: s) = true.
Proof. intros H. cbn [contains]. rewrite H. apply orb_true_r. Qed.

(* ---------- clean lower-case text ---------- *)
Definition is_upper (c : N) : bool := (65 <=? c) && (c <=? 90).
(* no white space, no underscore, no upper-case letter *)
Definition lc_char (c : N) : bool := negb (is_space c) && negb (c =? 95) && negb (is_upper c).
Definition lc_clean (t : list N) : Prop :=
  forallb lc_char t = true /\ match t with c :: _ => is_sign c = false | [] => True end.

Lemma trim_left_id s : stops (fun c => negb (is_space c)) (rev (rev s)) -> True.
Proof. auto. Qed.

Lemma trim_space_id s : forallb (fun c => negb (is_space c)) s = true -> trim_space s = s.
Proof.
  intros H. unfold trim_space.
  assert (Hl : forall l, forallb (fun c => negb (is_space c)) l = true -> trim_left l = l).
  { intros [|c l] Hc; [reflexivity|]. cbn in Hc. apply andb_true_iff in Hc as [Hc _].
    cbn. destruct (is_space c); [discriminate|reflexivity]. }
  rewrite (Hl s H). rewrite Hl; [apply rev_involutive|].
  apply forallb_forall. intros x Hx. apply in_rev in Hx. exact (forallb_In _ _ _ H Hx).
Qed.

Lemma lower_byte_lc c : negb (is_space c) && negb (c =? 95) = true -> lc_char (lower_byte c) = true.
Proof. unfold lc_char, is_space, is_upper, lower_byte. intros H. destruct ((65 <=? c) && (c <=? 90)) eqn:E; lia. Qed.
Lemma lower_byte_sign c : is_sign (lower_byte c) = is_sign c.
Proof. unfold is_sign, lower_byte. destruct ((65 <=? c) && (c <=? 90)) eqn:E; lia. Qed.

Lemma clean_lower s : num_clean s = true ->
  trim_space s = s /\ lc_clean (to_lower s).
Proof.
  unfold num_clean. intros H. apply andb_true_iff in H as [Hall Hhd]. split.
  - apply trim_space_id. apply forallb_forall. intros x Hx.
    pose proof (forallb_In _ _ _ Hall Hx) as Hx'. cbn in Hx'. apply andb_true_iff in Hx' as [Hx' _]. exact Hx'.
  - split.
    + unfold to_lower. apply forallb_forall. intros x Hx. apply in_map_iff in Hx as (y & <- & Hy).
      apply lower_byte_lc. exact (forallb_In _ _ _ Hall Hy).
    + destruct s as [|c s]; cbn; [exact I|]. rewrite lower_byte_sign. destruct (is_sign c); [discriminate|reflexivity].
Qed.

Lemma lc_clean_tail c t : lc_clean (c :: t) -> forallb lc_char t = true.
Proof. intros [H _]. cbn in H. apply andb_true_iff in H as [_ H]. exact H. Qed.

Lemma lc_go_lower_eq c k : lc_char c = true -> 97 <= k <= 122 -> (go_lower c =? k) = (c =? k).
Proof.
  unfold lc_char, is_upper, go_lower. intros H Hk. destruct ((c / 32) mod 2 =? 0) eqn:E; lia.
Qed.
Lemma lc_go_lower_range c lo hi : lc_char c = true -> 97 <= lo -> hi <= 122 ->
  (lo <=? go_lower c) && (go_lower c <=? hi) = (lo <=? c) && (c <=? hi).
Proof.
  unfold lc_char, is_upper, go_lower. intros H Hlo Hhi. destruct ((c / 32) mod 2 =? 0) eqn:E; lia.
Qed.
Lemma hex_lc_split c : lc_char c = true ->
  is_hex_lc c = is_digit c || ((97 <=? go_lower c) && (go_lower c <=? 102)).
Proof. intros H. rewrite (lc_go_lower_range c 97 102 H) by lia. reflexivity. Qed.

(* ---------- strconv.ParseUint ---------- *)
Definition pu_val (c : N) : N := match pu_digit c with Some d => d | None => 0 end.
Definition pu_fold (base : N) (ds : list N) (n : N) : N := fold_left (fun acc c => acc * base + pu_val c) ds n.

Lemma pu_fold_ge base ds : 1 <= base -> forall n, n <= pu_fold base ds n.
Proof.
  intros Hb. induction ds as [|c r IH]; intros n; cbn; [lia|].
  etransitivity; [|apply IH]. nia.
Qed.

Lemma parse_uint_loop_ok base ds : base = 10 \/ base = 16 -> forall n,
  (forall c, In c ds -> exists d, pu_digit c = Some d /\ d < base) -> n <= max_u64 ->
  parse_uint_loop base ds n = if pu_fold base ds n <=? max_u64 then PuOk (pu_fold base ds n) else PuRange.
Proof.
  intros Hb. induction ds as [|c r IH]; intros n Hall Hn.
  - cbn. destruct (n <=? max_u64) eqn:E; [reflexivity|lia].
  - cbn [parse_uint_loop pu_fold fold_left].
    destruct (Hall c (or_introl eq_refl)) as (d & Hd & Hlt).
    assert (Hpv : pu_val c = d) by (unfold pu_val; rewrite Hd; reflexivity). rewrite Hpv, Hd.
    fold (pu_fold base r (n * base + d)).
    destruct (base <=? d) eqn:E1; [lia|].
    assert (Hge : n * base + d <= pu_fold base r (n * base + d)) by (apply pu_fold_ge; lia).
    destruct (max_u64 / base + 1 <=? n) eqn:E2.
    + assert (max_u64 < n * base + d) by (unfold max_u64 in *; destruct Hb; subst base; lia).
      destruct (pu_fold base r (n * base + d) <=? max_u64) eqn:E3; [lia|reflexivity].
    + destruct (max_u64 <? n * base + d) eqn:E3.
      * destruct (pu_fold base r (n * base + d) <=? max_u64) eqn:E4; [lia|reflexivity].
      * apply IH; [|lia]. intros x Hx. apply Hall. right. exact Hx.
Qed.

Lemma parse_uint_loop_inv base ds : forall n v, parse_uint_loop base ds n = PuOk v ->
  forall c, In c ds -> exists d, pu_digit c = Some d /\ d < base.
Proof.
  induction ds as [|c r IH]; intros n v H x Hx; [destruct Hx|].
  cbn [parse_uint_loop] in H. destruct (pu_digit c) as [d|] eqn:Hd; [|discriminate].
  destruct (base <=? d) eqn:E1; [discriminate|].
  destruct (max_u64 / base + 1 <=? n); [discriminate|].
  destruct (max_u64 <? n * base + d); [discriminate|].
  destruct Hx as [<-|Hx]; [exists d; split; [exact Hd|lia]|exact (IH _ _ H x Hx)].
Qed.

Lemma parse_uint_inv base ds v : parse_uint base ds = PuOk v ->
  ds <> [] /\ forall c, In c ds -> exists d, pu_digit c = Some d /\ d < base.
Proof.
  unfold parse_uint. destruct ds as [|c r]; [discriminate|]. intros H. split; [discriminate|].
  exact (parse_uint_loop_inv _ _ _ _ H).
Qed.

(* digit values agree with the spec's on digits / lower-case hex digits *)
Lemma pu_digit_dec c : is_digit c = true -> pu_digit c = Some (num_digit_val c) /\ num_digit_val c < 10.
Proof.
  unfold pu_digit, num_digit_val. rewrite <- is_digit_fn. intros H. rewrite H. unfold is_digit in H. split; [reflexivity|lia].
Qed.
Lemma pu_digit_hex c : is_hex_lc c = true -> pu_digit c = Some (num_digit_val c) /\ num_digit_val c < 16.
Proof.
  unfold pu_digit, num_digit_val, is_hex_lc. rewrite <- is_digit_fn. intros H.
  destruct (is_digit c) eqn:Hd.
  - unfold is_digit in Hd. split; [reflexivity|lia].
  - cbn [orb] in H. unfold go_lower. unfold is_digit in Hd.
    destruct ((c / 32) mod 2 =? 0) eqn:E.
    + exfalso. lia.
    + destruct ((97 <=? c) && (c <=? 122)) eqn:E2; [|lia]. split; [f_equal; lia|lia].
Qed.
(* conversely, on clean lower-case characters *)
Lemma pu_digit_lt10 c d : pu_digit c = Some d -> d < 10 -> is_digit c = true.
Proof.
  unfold pu_digit. destruct (is_digit c); [reflexivity|].
  destruct ((97 <=? go_lower c) && (go_lower c <=? 122)); [|discriminate]. intros H Hd. injection H as <-. lia.
Qed.
Lemma pu_digit_lt16 c d : lc_char c = true -> pu_digit c = Some d -> d < 16 -> is_hex_lc c = true.
Proof.
  intros Hlc. unfold pu_digit, is_hex_lc. destruct (is_digit c); [reflexivity|]. cbn [orb].
  rewrite (lc_go_lower_range c 97 122 Hlc) by lia.
  destruct ((97 <=? c) && (c <=? 122)) eqn:E; [|discriminate]. intros H Hd. injection H as <-.
  unfold lc_char, is_upper, go_lower in *. destruct ((c / 32) mod 2 =? 0) eqn:E2; lia.
Qed.

Lemma pu_fold_value base ds (isd : N -> bool) :
  (forall c, isd c = true -> pu_digit c = Some (num_digit_val c)) -> forallb isd ds = true ->
  forall n, pu_fold base ds n = fold_left (fun acc c => acc * base + num_digit_val c) ds n.
Proof.
  intros Hv. induction ds as [|c r IH]; intros Hall n; [reflexivity|].
  cbn in Hall. apply andb_true_iff in Hall as [Hc Hall]. cbn [pu_fold fold_left].
  assert (Hpv : pu_val c = num_digit_val c) by (unfold pu_val; rewrite (Hv c Hc); reflexivity).
  rewrite Hpv. apply (IH Hall).
Qed.

Lemma parse_uint_dec ds : ds <> [] -> forallb is_digit ds = true ->
  parse_uint 10 ds = if num_value 10 ds <=? max_u64 then PuOk (num_value 10 ds) else PuRange.
Proof.
  intros Hne Hall. unfold parse_uint. destruct ds as [|c r] eqn:E; [congruence|]. rewrite <- E in *.
  rewrite parse_uint_loop_ok; [|auto| |unfold max_u64; lia].
  - rewrite (pu_fold_value 10 ds is_digit); [reflexivity| |exact Hall]. intros x Hx. apply pu_digit_dec. exact Hx.
  - intros x Hx. exists (num_digit_val x). apply pu_digit_dec. exact (forallb_In _ _ _ Hall Hx).
Qed.

Lemma parse_uint_hex ds : ds <> [] -> forallb is_hex_lc ds = true ->
  parse_uint 16 ds = if num_value 16 ds <=? max_u64 then PuOk (num_value 16 ds) else PuRange.
Proof.
  intros Hne Hall. unfold parse_uint. destruct ds as [|c r] eqn:E; [congruence|]. rewrite <- E in *.
  rewrite parse_uint_loop_ok; [|auto| |unfold max_u64; lia].
  - rewrite (pu_fold_value 16 ds is_hex_lc); [reflexivity| |exact Hall]. intros x Hx. apply pu_digit_hex. exact Hx.
  - intros x Hx. exists (num_digit_val x). apply pu_digit_hex. exact (forallb_In _ _ _ Hall Hx).
Qed.

(* values *)
Lemma num_value_fold_app base a b : forall n,
  fold_left (fun acc c => acc * base + num_digit_val c) (a ++ b) n =
  fold_left (fun acc c => acc * base + num_digit_val c) b (fold_left (fun acc c => acc * base + num_digit_val c) a n).
Proof. intros n. apply fold_left_app. Qed.

Lemma fold_shift base b : forall n,
  fold_left (fun acc c => acc * base + num_digit_val c) b n =
  n * base ^ N.of_nat (length b) + fold_left (fun acc c => acc * base + num_digit_val c) b 0.
Proof.
  induction b as [|c r IH]; intros n.
  - cbn. lia.
  - cbn [fold_left length]. rewrite IH. rewrite (IH (0 * base + num_digit_val c)).
    rewrite Nat2N.inj_succ, N.pow_succ_r'. lia.
Qed.

Lemma num_value_app base a b :
  num_value base (a ++ b) = num_value base a * base ^ N.of_nat (length b) + num_value base b.
Proof. unfold num_value. rewrite fold_left_app. apply fold_shift. Qed.

Lemma num_value_bound ds (isd : N -> bool) base :
  1 <= base -> (forall c, isd c = true -> num_digit_val c < base) -> forallb isd ds = true ->
  num_value base ds < base ^ N.of_nat (length ds).
Proof.
  intros Hb Hv. unfold num_value.
  assert (H : forall ds n, forallb isd ds = true ->
            fold_left (fun acc c => acc * base + num_digit_val c) ds n + 1 <= (n + 1) * base ^ N.of_nat (length ds)).
  { clear ds. induction ds as [|c r IH]; intros n Hall.
    - cbn. lia.
    - cbn in Hall. apply andb_true_iff in Hall as [Hc Hall]. cbn [fold_left length].
      etransitivity; [apply (IH _ Hall)|]. rewrite Nat2N.inj_succ, N.pow_succ_r'.
      pose proof (Hv c Hc). rewrite N.mul_assoc. apply N.mul_le_mono_r. lia. }
  intros Hall. specialize (H ds 0 Hall). lia.
Qed.

Lemma num_value16_small ds : forallb is_hex_lc ds = true -> (length ds <= 16)%nat -> num_value 16 ds <= max_u64.
Proof.
  intros Hall Hlen.
  pose proof (num_value_bound ds is_hex_lc 16 ltac:(lia) (fun c Hc => proj2 (pu_digit_hex c Hc)) Hall) as Hb.
  assert (16 ^ N.of_nat (length ds) <= 16 ^ 16) by (apply N.pow_le_mono_r; lia).
  change (16 ^ 16) with 18446744073709551616 in H. unfold max_u64. lia.
Qed.

Lemma wrap64_mod z k : wrap64 (z + k * 18446744073709551616) = wrap64 z.
Proof.
  unfold wrap64. f_equal.
  replace (z + k * 18446744073709551616 + 9223372036854775808)%Z
    with (z + 9223372036854775808 + k * 18446744073709551616)%Z by lia.
  apply Z.mod_add. lia.
Qed.
Lemma wrap64_idem z : wrap64 (wrap64 z) = wrap64 z.
Proof.
  unfold wrap64 at 2.
  pose proof (Z.div_mod (z + 9223372036854775808) 18446744073709551616 ltac:(lia)) as H.
  replace ((z + 9223372036854775808) mod 18446744073709551616 - 9223372036854775808)%Z
    with (z + (- ((z + 9223372036854775808) / 18446744073709551616)) * 18446744073709551616)%Z by lia.
  apply wrap64_mod.
Qed.

Lemma lastn_app16 (s : list N) : (16 < length s)%nat ->
  exists pre, s = pre ++ lastn 16 s /\ length (lastn 16 s) = 16%nat.
Proof.
  intros H. unfold lastn. exists (firstn (length s - 16) s). split.
  - symmetry. apply firstn_skipn.
  - rewrite skipn_length. lia.
Qed.

(* the value of the last 16 hex digits is the value modulo 2^64 *)
Lemma wrap64_last16 hs : (16 < length hs)%nat ->
  wrap64 (Z.of_N (num_value 16 (lastn 16 hs))) = wrap64 (Z.of_N (num_value 16 hs)).
Proof.
  intros H. destruct (lastn_app16 hs H) as (pre & Hs & Hl).
  rewrite Hs at 2. rewrite num_value_app, Hl.
  change (16 ^ N.of_nat 16) with 18446744073709551616.
  rewrite N2Z.inj_add, N2Z.inj_mul. rewrite Z.add_comm. symmetry. apply wrap64_mod.
Qed.

(* ---------- strconv.ParseFloat on clean lower-case text ---------- *)
Lemma lc_digit_facts c : is_digit c = true -> (c =? 95) = false /\ (c =? 46) = false.
Proof. unfold is_digit. intros H. lia. Qed.

Lemma rfm_digits a : forall r sd sg, forallb is_digit a = true ->
  rf_mantissa false (a ++ r) sd sg false = rf_mantissa false r sd (sg || nonempty a) false.
Proof.
  induction a as [|c a IH]; intros r sd sg Ha.
  - cbn. rewrite orb_false_r. reflexivity.
  - cbn in Ha. apply andb_true_iff in Ha as [Hc Ha]. cbn [app rf_mantissa].
    destruct (lc_digit_facts c Hc) as [-> ->]. rewrite Hc. rewrite (IH r sd true Ha).
    cbn. rewrite orb_true_r. reflexivity.
Qed.

Lemma rfm_stop c r sd sg : is_digit c = false -> lc_char c = true -> (c =? 46) = false \/ sd = true ->
  rf_mantissa false (c :: r) sd sg false = (c :: r, sg, false).
Proof.
  intros Hd Hlc Hdot. cbn [rf_mantissa].
  assert (Hus : (c =? 95) = false) by (unfold lc_char in Hlc; lia). rewrite Hus, Hd. cbn [andb].
  destruct (c =? 46) eqn:E; [|reflexivity]. destruct Hdot as [Hdot| ->]; [discriminate|reflexivity].
Qed.

Definition rfm_result (t : list N) : list N * bool * bool :=
  let (a, r1) := span is_digit t in
  match r1 with
  | c :: r => if c =? 46 then let (b, r2) := span is_digit r in (r2, nonempty a || nonempty b, false)
              else (r1, nonempty a, false)
  | [] => ([], nonempty a, false)
  end.

Lemma rfm_char t : forallb lc_char t = true -> rf_mantissa false t false false false = rfm_result t.
Proof.
  intros Hlc. unfold rfm_result. destruct (span is_digit t) as [a r1] eqn:E1.
  destruct (span_spec _ _ _ _ E1) as (-> & Ha & Hs1).
  rewrite (rfm_digits a r1 false false Ha). cbn [orb].
  apply forallb_app_iff in Hlc as [_ Hlc].
  destruct r1 as [|c r]; [reflexivity|]. cbn in Hs1. cbn in Hlc. apply andb_true_iff in Hlc as [Hc Hlc].
  destruct (c =? 46) eqn:Hdot.
  - cbn [rf_mantissa]. assert (Hus : (c =? 95) = false) by lia. rewrite Hus, Hdot.
    destruct (span is_digit r) as [b r2] eqn:E2. destruct (span_spec _ _ _ _ E2) as (-> & Hb & Hs2).
    rewrite (rfm_digits b r2 true (nonempty a) Hb).
    apply forallb_app_iff in Hlc as [_ Hlc].
    destruct r2 as [|c2 r2']; [reflexivity|]. cbn in Hs2. cbn in Hlc. apply andb_true_iff in Hlc as [Hc2 _].
    apply rfm_stop; auto.
  - apply rfm_stop; auto.
Qed.

Lemma rf_expdigits_clean s : forall u, forallb lc_char s = true -> rf_expdigits s u = (snd (span is_digit s), u).
Proof.
  induction s as [|c r IH]; intros u Hlc; [reflexivity|].
  cbn in Hlc. apply andb_true_iff in Hlc as [Hc Hlc]. cbn [rf_expdigits span].
  assert (Hus : (c =? 95) = false) by (unfold lc_char in Hc; lia). rewrite Hus.
  destruct (is_digit c) eqn:Hd; [|reflexivity]. rewrite (IH u Hlc). destruct (span is_digit r). reflexivity.
Qed.

(* the exponent part accepts and reads everything iff the spec's exponent syntax holds *)
Lemma rf_exponent_char s3 : forallb lc_char s3 = true ->
  match rf_exponent false s3 false with Some ([], false) => true | _ => false end = num_exponent_ok 101 s3
  /\ match rf_exponent false s3 false with Some (_, true) => False | _ => True end.
Proof.
  intros Hlc. destruct s3 as [|c r]; [cbn; auto|].
  cbn in Hlc. apply andb_true_iff in Hlc as [Hc Hlc].
  cbn [rf_exponent num_exponent_ok]. rewrite (lc_go_lower_eq c 101 Hc) by lia.
  destruct (c =? 101) eqn:Hce; [|cbn; auto]. cbn [andb].
  destruct r as [|d r']; [cbn; auto|].
  change ((d =? 43) || (d =? 45)) with (is_sign d).
  assert (Hr1 : forallb lc_char (if is_sign d then r' else d :: r') = true).
  { cbn in Hlc. apply andb_true_iff in Hlc as [Hd Hr']. destruct (is_sign d); [exact Hr'|]. cbn. rewrite Hd, Hr'. reflexivity. }
  set (r1 := if is_sign d then r' else d :: r') in *.
  destruct r1 as [|e r1'] eqn:Er1; [cbn; auto|]. rewrite <- Er1 in *.
  unfold num_digits1. rewrite <- nonempty_fn, <- is_digit_fn.
  destruct (is_digit e) eqn:He.
  - rewrite (rf_expdigits_clean r1 false Hr1).
    split; [|exact I].
    destruct (snd (span is_digit r1)) as [|x y] eqn:Es.
    + apply span_snd_nil in Es. rewrite Es, Er1. reflexivity.
    + destruct (forallb is_digit r1) eqn:Ef; [|rewrite andb_false_r; reflexivity].
      apply span_snd_nil in Ef. congruence.
  - split; [|exact I]. rewrite Er1. cbn. rewrite He. reflexivity.
Qed.

Lemma cpl_ge3 t a b c p : (forall x, In x t -> lower_byte x = x) ->
  3 <= common_prefix_len_ic t (a :: b :: c :: p) -> has_prefix [a; b; c] t = true.
Proof.
  intros Hlow H. destruct t as [|x [|y [|z t']]]; cbn [common_prefix_len_ic] in H.
  - lia.
  - destruct (lower_byte x =? a); lia.
  - destruct (lower_byte x =? a); [|lia]. destruct (lower_byte y =? b); lia.
  - rewrite (Hlow x), (Hlow y), (Hlow z) in H by (cbn; auto).
    cbn [has_prefix]. destruct (x =? a) eqn:E1; [|lia]. destruct (y =? b) eqn:E2; [|lia].
    destruct (z =? c) eqn:E3; [|lia].
    rewrite N.eqb_sym in E1. rewrite N.eqb_sym in E2. rewrite N.eqb_sym in E3. rewrite E1, E2, E3. reflexivity.
Qed.

Lemma special_none t : lc_clean t -> contains s_nan t || contains s_inf t = false -> special t = None.
Proof.
  intros [Hlc Hsg] Hc. apply orb_false_iff in Hc as [Hnan Hinf].
  destruct t as [|c r]; [reflexivity|]. unfold special. rewrite Hsg. cbv beta zeta.
  assert (Hlow : forall x, In x (c :: r) -> lower_byte x = x).
  { intros x Hx. pose proof (forallb_In _ _ _ Hlc Hx) as Hx'. unfold lc_char, is_upper in Hx'. unfold lower_byte.
    destruct ((65 <=? x) && (x <=? 90)) eqn:E; [lia|reflexivity]. }
  assert (H1 : common_prefix_len_ic (c :: r) s_infinity < 3).
  { destruct (common_prefix_len_ic (c :: r) s_infinity <? 3) eqn:E; [lia|].
    assert (Hp : has_prefix s_inf (c :: r) = true) by (apply (cpl_ge3 (c :: r) 105 110 102 [105; 110; 105; 116; 121] Hlow); unfold s_infinity in E; lia).
    rewrite (contains_prefix _ _ Hp) in Hinf. discriminate. }
  assert (H2 : common_prefix_len_ic (c :: r) s_nan < 3).
  { destruct (common_prefix_len_ic (c :: r) s_nan <? 3) eqn:E; [lia|].
    assert (Hp : has_prefix s_nan (c :: r) = true) by (apply (cpl_ge3 (c :: r) 110 97 110 [] Hlow); unfold s_nan in E; lia).
    rewrite (contains_prefix _ _ Hp) in Hnan. discriminate. }
  remember (common_prefix_len_ic (c :: r) s_infinity) as n1.
  remember (common_prefix_len_ic (c :: r) s_nan) as n2.
  destruct ((c =? 105) || (c =? 73)).
  - destruct ((3 <? n1) && (n1 <? 8)) eqn:E; [lia|].
    destruct ((n1 =? 3) || (n1 =? 8)) eqn:E2; [lia|reflexivity].
  - destruct ((c =? 110) || (c =? 78)); [|reflexivity].
    destruct (n2 =? 3) eqn:E; [lia|reflexivity].
Qed.

Lemma rf_base_dec t : forallb lc_char t = true ->
  (forall r, t <> 48 :: 120 :: r) -> rf_base t = (false, t).
Proof.
  intros Hlc Hno. unfold rf_base. destruct t as [|a [|b [|c r]]]; try reflexivity.
  destruct ((a =? 48) && (go_lower b =? 120)) eqn:E; [|reflexivity].
  exfalso. apply andb_true_iff in E as [Ea Eb].
  cbn in Hlc. apply andb_true_iff in Hlc as [_ Hlc]. apply andb_true_iff in Hlc as [Hb _].
  rewrite (lc_go_lower_eq b 120 Hb) in Eb by lia. apply N.eqb_eq in Ea, Eb. subst. exact (Hno _ eq_refl).
Qed.

Lemma mant_exp_rfm t :
  num_mant_exp num_digit 101 t =
  let '(s3, sawdigits, _) := rfm_result t in sawdigits && num_exponent_ok 101 s3.
Proof.
  unfold num_mant_exp, rfm_result. rewrite <- span_fn, <- is_digit_fn, <- nonempty_fn.
  destruct (span is_digit t) as [a r1]. destruct r1 as [|c r].
  - cbn. rewrite andb_true_r. reflexivity.
  - destruct (c =? 46); [|reflexivity]. destruct (span is_digit r) as [b r2]. reflexivity.
Qed.

(* ParseFloat accepts a clean lower-case text that does not start with "0x" iff it is mantissa [exponent] *)
Theorem go_parse_float_ok_char t :
  lc_clean t -> contains s_nan t || contains s_inf t = false -> (forall r, t <> 48 :: 120 :: r) ->
  go_parse_float_ok t = num_mant_exp num_digit 101 t.
Proof.
  intros Hcl Hc Hno. unfold go_parse_float_ok. rewrite (special_none t Hcl Hc).
  destruct Hcl as [Hlc Hsg]. rewrite mant_exp_rfm.
  destruct t as [|c0 r0]; [reflexivity|]. unfold read_float. rewrite Hsg.
  rewrite (rf_base_dec _ Hlc Hno). rewrite (rfm_char _ Hlc).
  destruct (rfm_result (c0 :: r0)) as [[s3 sawdigits] u1] eqn:Er.
  assert (Hu1 : u1 = false /\ forallb lc_char s3 = true).
  { unfold rfm_result in Er. destruct (span is_digit (c0 :: r0)) as [a r1] eqn:E1.
    destruct (span_spec _ _ _ _ E1) as (Ht & _ & _). rewrite Ht in Hlc.
    apply forallb_app_iff in Hlc as [_ Hlc].
    destruct r1 as [|c r].
    - injection Er as <- _ <-. auto.
    - destruct (c =? 46).
      + destruct (span is_digit r) as [b r2] eqn:E2. destruct (span_spec _ _ _ _ E2) as (Hr & _ & _).
        injection Er as <- _ <-. split; [reflexivity|].
        cbn in Hlc. apply andb_true_iff in Hlc as [_ Hlc]. rewrite Hr in Hlc.
        apply forallb_app_iff in Hlc as [_ Hlc]. exact Hlc.
      + injection Er as <- _ <-. auto. }
  destruct Hu1 as [-> Hlc3].
  destruct sawdigits; [|reflexivity]. cbn [negb andb].
  destruct (rf_exponent_char s3 Hlc3) as [H1 H2]. rewrite <- H1.
  destruct (rf_exponent false s3 false) as [[s4 u2]|]; [|reflexivity].
  destruct u2; [destruct H2|]. cbn [andb]. destruct s4; reflexivity.
Qed.
