(* C13 - the attachment sentence for DECLARATIONS: in a file without syntax error whose gaps are structured, for every
   name-bearing node of the AST (declared names included), the documentation attached to the line its Loc ends on is the
   spec comment of that line. Composition of Proofs/CommentsFile.v with the C04 theorem "every name node is an
   identifier token with its GetNowTokenLoc Loc" (Proofs/ParserLocMain.v parse_tokens_names). *)
From Coq Require Import List NArith ZArith Bool Lia.
From LH Require Import Base.Bytes Base.Res Model.Codec Model.Lexer Model.Ast Model.Parser Model.LuaFront Model.Comments
  Model.Hover Spec.CommentSpec Spec.LspRange.
From LH Require Import Proofs.LexerTotalWf Proofs.LexerTotalMain Proofs.ParserTotalBase Proofs.ParserTotalMain
  Proofs.ParserLocBase Proofs.ParserLocMain Proofs.CommentsTable Proofs.CommentsFile.
Import ListNotations.
Local Open Scope Z_scope.

Lemma el_tok_loc : forall prev t, el (tok_loc prev t) = tline t.
Proof. intros prev t. unfold tok_loc. destruct (tlsp t >? tfrom t); reflexivity. Qed.

Lemma tok_locs_in : forall ts prev t l, In (t, l) (tok_locs prev ts) -> (exists x, In x ts /\ lt x = t) /\ el l = tline t.
Proof.
  induction ts as [|x ts IH]; intros prev t l H; [destruct H|].
  cbn [tok_locs] in H. destruct H as [H|H].
  - injection H as <- <-. split; [exists x; split; [left; reflexivity|reflexivity]|apply el_tok_loc].
  - destruct (IH _ _ _ H) as [[y [Hy1 Hy2]] He]. split; [exists y; split; [right; exact Hy1|exact Hy2]|exact He].
Qed.

(* the parser's view keeps tokens of the lexed list (it only loses some behind an unfinished first string) *)
Lemma parser_view_sub : forall ts x, In x (parser_view ts) -> exists y, In y ts /\ lt y = lt x.
Proof.
  intros ts x H. unfold parser_view in H. destruct ts as [|t1 r]; [destruct H|].
  destruct (is_unfinished_str t1); [|exists x; split; [exact H|reflexivity]].
  destruct (lost_run_suffix r [] []) as [pre Hp].
  destruct (lost_run r [] []) as [[es cs] r']. cbn [snd] in Hp. destruct H as [<-|H].
  - exists t1. split; [left; reflexivity|reflexivity].
  - exists x. split; [right; rewrite Hp; apply in_or_app; right; exact H|reflexivity].
Qed.

(* the declarations the hover model looks at are name-bearing nodes *)
Lemma decl_loc_mk : forall lc v l, decl_loc (mk_decl lc v l) = l.
Proof. intros lc v l. unfold mk_decl. destruct v as [e|]; [destruct e|]; reflexivity. Qed.

Lemma local_decls_names : forall name names locs i es d,
  In d (local_decls name names locs i es) -> exists n, In (n, decl_loc d) (combine names locs).
Proof.
  induction names as [|n ns IH]; intros locs i es d H; [destruct H|].
  destruct locs as [|l ls]; [destruct H|]. cbn [local_decls] in H. apply in_app_or in H. destruct H as [H|H].
  - destruct (beq_bytes n name); [|destruct H]. destruct H as [<-|[]]. exists n. left. rewrite decl_loc_mk. reflexivity.
  - destruct (IH ls (S i) es d H) as [m Hm]. exists m. right. exact Hm.
Qed.

Lemma assign_decls_names : forall name vars i es d,
  In d (assign_decls name vars i es) -> exists n, In (n, decl_loc d) (flat_map nl_exp vars).
Proof.
  induction vars as [|v vs IH]; intros i es d H; [destruct H|].
  assert (Hrec : In d (assign_decls name vs (S i) es) -> exists n, In (n, decl_loc d) (flat_map nl_exp (v :: vs))).
  { intros H0. destruct (IH (S i) es d H0) as [m Hm]. exists m. cbn [flat_map]. apply in_or_app. right. exact Hm. }
  destruct v; cbn [assign_decls] in H; try (apply Hrec; exact H).
  apply in_app_or in H. destruct H as [H|H]; [|apply Hrec; exact H].
  destruct (beq_bytes _ name); [|destruct H]. destruct H as [<-|[]].
  eexists. cbn [flat_map nl_exp]. left. rewrite decl_loc_mk. reflexivity.
Qed.

Lemma top_decls_names : forall name b d, In d (top_decls name b) -> exists n, In (n, decl_loc d) (name_locs b).
Proof.
  intros name [ss ret l] d H. unfold top_decls in H. cbn [block_stats] in H. apply in_flat_map in H.
  destruct H as [st [Hst Hd]]. unfold name_locs. cbn [nl_block].
  assert (Hs : exists n, In (n, decl_loc d) (nl_stat st)).
  { destruct st; cbn [stat_decls] in Hd; try (destruct Hd; fail).
    - destruct (assign_decls_names _ _ _ _ _ Hd) as [n Hn]. exists n. cbn [nl_stat]. apply in_or_app. left. exact Hn.
    - destruct (local_decls_names _ _ _ _ _ _ Hd) as [n Hn]. exists n. cbn [nl_stat]. apply in_or_app. left. exact Hn.
    - destruct (beq_bytes _ name); [|destruct Hd]. destruct Hd as [<-|[]]. eexists. cbn [nl_stat decl_loc]. left. reflexivity. }
  destruct Hs as [n Hn]. exists n. apply in_or_app. left. apply in_flat_map. exists st. split; assumption.
Qed.

Lemma decl_chain_names : forall fuel b d ds, decl_chain fuel b d = Some ds ->
  (exists n, In (n, decl_loc d) (name_locs b)) -> forall x, In x ds -> exists n, In (n, decl_loc x) (name_locs b).
Proof.
  induction fuel as [|f IH]; intros b d ds H Hd x Hx; cbn [decl_chain] in H.
  - destruct (alias_target d); [discriminate H|]. injection H as <-. destruct Hx as [<-|[]]. exact Hd.
  - destruct (alias_target d) as [n|]; [|injection H as <-; destruct Hx as [<-|[]]; exact Hd].
    destruct (top_decls n b) as [|d' [|d2 r]] eqn:Et; try discriminate H.
    destruct (sl (decl_loc d') <? sl (decl_loc d)); [|discriminate H].
    destruct (decl_chain f b d') as [ds'|] eqn:Ec; [|discriminate H]. injection H as <-.
    destruct Hx as [<-|Hx]; [exact Hd|].
    apply (IH b d' ds' Ec); [apply (top_decls_names n b d'); rewrite Et; left; reflexivity|exact Hx].
Qed.

Section Decl.
  Variable gbk_runes : list N -> Z.
  Variable classify : list N -> numcls.

  Lemma name_lines_no_comment : forall bs b le rs,
    parse_bytes gbk_runes classify bs = Ok (PR b le []) -> file_gaps gbk_runes bs = Some rs ->
    forall x, In x (name_locs b) -> pure_at (table_of_gaps rs) (el (snd x)) = None.
  Proof.
    intros bs b le rs Hp Hg x Hx.
    assert (Hc : file_class gbk_runes classify bs = true).
    { unfold file_class. rewrite Hg. apply (no_syntax_error_reads_all gbk_runes classify bs b le Hp). }
    assert (Ht : file_table gbk_runes bs = table_of_gaps rs) by (unfold file_table; rewrite Hg; reflexivity).
    assert (Hp' := Hp). unfold parse_bytes in Hp'.
    destruct (lex_all gbk_runes bs) as [ts| |] eqn:Elex; cbn [rbind] in Hp'; try discriminate Hp'. cbv zeta in Hp'.
    pose proof (lex_all_wf gbk_runes _ _ Elex) as Hwt.
    pose proof (parser_view_wfr ts (wf_tokens_wfr ts Hwt)) as Hwv.
    pose proof (parse_tokens_names classify (parser_view ts) Hwv _ _ _ Hp') as Hn.
    rewrite Forall_forall in Hn. destruct (Hn x Hx) as (t & Hin & Hk & _).
    apply tok_locs_in in Hin. destruct Hin as [[y [Hy1 Hy2]] He].
    destruct (parser_view_sub ts y Hy1) as [z [Hz1 Hz2]].
    rewrite He, <- Ht, <- Hy2, <- Hz2. apply (token_lines_no_comment gbk_runes classify bs ts Hc Elex z Hz1).
    rewrite Hz2, Hy2, Hk. discriminate.
  Qed.

  Theorem comment_attach_decl : forall bs b le rs,
    parse_bytes gbk_runes classify bs = Ok (PR b le []) -> file_gaps gbk_runes bs = Some rs ->
    Forall (fun x => doc_comment gbk_runes classify bs (el (snd x))
                     = Ok (Some (spec_comment (table_of_gaps rs) (el (snd x))))) (name_locs b).
  Proof.
    intros bs b le rs Hp Hg. apply Forall_forall. intros x Hx.
    apply (comment_attach_valid_file gbk_runes classify bs b le rs Hp Hg).
    apply (name_lines_no_comment bs b le rs Hp Hg x Hx).
  Qed.

  (* the hover model end to end: on a file whose gaps are structured, the hover text is the one obtained with the spec
     comment of the declaration's line as documentation (cleaned up, then handed to the encoding heuristic) *)
  Theorem hover_file : forall (gbk_decode : list N -> option (list N)) bs rs, file_gaps gbk_runes bs = Some rs ->
    forall inherit file line col,
      hover_with gbk_runes classify inherit (hover_doc gbk_decode) file bs line col
      = hover_with gbk_runes classify inherit
          (fun _ ln => convert gbk_decode (get_str_comment (spec_comment (table_of_gaps rs) ln))) file bs line col.
  Proof.
    intros gbk_decode bs rs Hg inherit file line col. unfold hover_with.
    destruct (lex_all gbk_runes bs) as [ts| |] eqn:Elex; try reflexivity.
    destruct (parse_tokens classify (fuel_of_tokens (parser_view ts)) (parser_view ts)) as [[b le pe|]| |] eqn:Ep; try reflexivity.
    destruct (consumed_tokens classify (parser_view ts)) as [[used|]| |] eqn:Ec; try reflexivity.
    destruct le; [|reflexivity]. destruct pe; [|reflexivity].
    destruct (_ || _); [reflexivity|]. destruct (_ && _); [reflexivity|].
    destruct (ident_at ts line col) as [name|]; [|reflexivity].
    destruct (top_decls name b) as [|d [|d2 ds0]] eqn:Ed; try reflexivity.
    destruct (decl_chain 3 b d) as [ds|] eqn:Ech; [|reflexivity]. cbv zeta.
    destruct (label_of (decl_is_local d) name (last ds d)) as [label|]; [|reflexivity].
    assert (Hp : parse_bytes gbk_runes classify bs = Ok (PR b [] [])) by (unfold parse_bytes; rewrite Elex; cbn [rbind]; exact Ep).
    assert (Hw : comment_writes gbk_runes classify bs = Ok (Some (cm_writes used))) by (unfold comment_writes; rewrite Elex, Ec; reflexivity).
    assert (Hc : file_class gbk_runes classify bs = true).
    { unfold file_class. rewrite Hg. apply (no_syntax_error_reads_all gbk_runes classify bs b [] Hp). }
    assert (Ht : file_table gbk_runes bs = table_of_gaps rs) by (unfold file_table; rewrite Hg; reflexivity).
    assert (Hd0 : exists n, In (n, decl_loc d) (name_locs b)) by (apply (top_decls_names name b d); rewrite Ed; left; reflexivity).
    assert (Hone : forall x, (exists n, In (n, decl_loc x) (name_locs b)) ->
              hover_doc gbk_decode (cm_writes used) (el (decl_loc x))
              = convert gbk_decode (get_str_comment (spec_comment (table_of_gaps rs) (el (decl_loc x))))).
    { intros x [n Hn]. pose proof (name_lines_no_comment bs b [] rs Hp Hg _ Hn) as HL. cbn [snd] in HL. rewrite <- Ht in HL.
      destruct (hover_doc_file gbk_runes classify gbk_decode bs _ Hc Hw _ HL) as [Hd _]. rewrite Hd, Ht. reflexivity. }
    assert (Hm : map (fun x => hover_doc gbk_decode (cm_writes used) (el (decl_loc x))) (if inherit then ds else [d])
                 = map (fun x => convert gbk_decode (get_str_comment (spec_comment (table_of_gaps rs) (el (decl_loc x)))))
                       (if inherit then ds else [d])).
    { apply map_ext_in. intros x Hx. apply Hone.
      destruct inherit; [apply (decl_chain_names 3 b d ds Ech Hd0 x Hx)|destruct Hx as [<-|[]]; exact Hd0]. }
    rewrite Hm. reflexivity.
  Qed.
End Decl.
Print Assumptions comment_attach_decl.
Print Assumptions hover_file.
